import Std.Data.HashMap
import LdarModel.Model.Sim
import LdarModel.Driver.Proto
/-
Driver of the integrated simulation model (exe `drv_sim`).  One request per line, one reply per line.

  reset                                                                         -> ok
  em <start> <nrd> <repairDelay> <repairable> <intermittent> <adur> <idur> <rate> <site> <eqg> <comp> <repairCost>
                                                                                -> ok <idx>   (idx = order of arrival)
  src [idx,..]                pending list of one source in pop order           -> ok
  layout <site> [[eqg,[comp,..]],..]                                            -> ok
  method <r|s|f> <fu> <stationary> <crews> <cap> <workdayH> <considerDaylight> <considerWeather>
         <perDay> <perSite|-> <upfront> <mdl> <trd>                             -> ok <m>     (m = program position)
  msite <m> <site> <S> <siteCost> <rs> [months] [depYears] [simYears] [[mo,d],..]  -> ok   (planner order)
  fup <m> <stationary> <rd> <delay> <prop> <thrFirst> <thr> <inst|-> <filter> <sw> <lw> <sthr> <lthr> -> ok
  dates [[y,m,d],..]          calendar date of day 0,1,.. given explicitly      -> ok
  start <y> <m> <d> <N>       calendar computed by the model (`dateOf`) for days 0..N-1 -> ok [[y,m,d],..]
  daylight [minutes,..]       daylight minutes of day 0,1,..                    -> ok
  rolls <day> <m> [[em,s,t],..]   s,t in 0/1 (drawn outcome) or 2 (not drawn)   -> ok
  travel <day> <m> [[site,T],..]                                                -> ok
  unworkable <day> <m> [site,..]                                                -> ok
  shift <day> <m> <site> [[group,comp,percent],..]   quantification shift of each measured unit (site level: 0,0)  -> ok
  run <N>                                                                       -> ok wf=<0|1>   (`wfWorld` of the scenario)
  row <n>    -> new:active:rep:nat:exp:emis:mit:non|cost:repCost:natCost:tagged|<per method>;..
                per method = cost,flags|-,tags|-,visited,travel,survey,upfront,sRolls,tRolls,missingRolls
  trace <n>  -> per method: m issued=[..] plan=[..] out=[[site,complete,inProgress,surveyed,crew|-],..] done=[[site,measured,nTargets],..]
  rec <idx>  -> present status activeDays emitDays start end|- theoryEnd mitDays tagged by initDetect|- initDetectBy|- [[m,b],..]
                measured|- estDays        (measured rate p/q in hundredths of the rate unit)
  state <m>  -> queue / pool / flags of method m after the run
Rationals are written p/q.
-/
open LdarModel LdarModel.Sim LdarModel.Proto

def rat? (s : String) : Option Rat :=
  match s.splitOn "/" with
  | [a, b] => do
    let n ← a.toInt?
    let d ← b.toNat?
    if d = 0 then none else some (mkRat n d)
  | [a] => (a.toInt?).map (fun n => (n : Rat))
  | _ => none

def showRat (r : Rat) : String := s!"{r.num}/{r.den}"

def filter? (s : String) : Option FollowUp.Filter :=
  if s = "recent" then some .recent else if s = "max" then some .max
  else if s = "average" then some .average else none

structure MSite where
  site : Nat
  S : Int
  cost : Int
  P : Sched.PlannerP

structure MBuild where
  cfg : MethodCfg
  sites : Array MSite := #[]

structure DState where
  ems : Array EmInfo := #[]
  costs : Array Int := #[]
  srcs : Array Heap.Src := #[]
  layout : Std.HashMap Nat (List (Nat × List Nat)) := {}
  meths : Array MBuild := #[]
  dates : Array Sched.Date := #[]
  daylight : Array Int := #[]
  rollS : Std.HashMap Nat Bool := {}
  rollT : Std.HashMap Nat Bool := {}
  travel : Std.HashMap Nat Int := {}
  unwork : Std.HashMap Nat Bool := {}
  shifts : Std.HashMap Nat Int := {}
  -- results
  rows : Array TsRow := #[]
  outs : Array DayOut := #[]
  final : Option St := none
  nRun : Nat := 0

def key3 (d m x : Nat) : Nat := (d * 64 + m) * 1048576 + x

def key5 (d m x g c : Nat) : Nat := (key3 d m x * 4096 + g) * 4096 + c

def mkWorld (s : DState) : World :=
  { ems := s.ems.toList, srcs := s.srcs.toList, layout := fun i => (s.layout.getD i []) }

def mkMethod (b : MBuild) : MethodCfg :=
  let tbl := b.sites.toList
  let find (i : Nat) : Option MSite := tbl.find? (fun x => x.site = i)
  { b.cfg with
    sites := tbl.map (·.site),
    S := fun i => match find i with | some x => x.S | none => 0,
    siteCost := fun i => match find i with | some x => x.cost | none => 0,
    P := fun i => match find i with | some x => x.P | none => {} }

def mkProgram (s : DState) : Program := s.meths.toList.map mkMethod

def mkInputs (s : DState) : Inputs :=
  { date := fun n => s.dates.getD n { y := 0, m := 0, d := 0 },
    spatial := fun d m e => s.rollS.getD (key3 d m e) true,
    temporal := fun d m e => s.rollT.getD (key3 d m e) true,
    travel := fun d m i => s.travel.getD (key3 d m i) 0,
    workable := fun d m i => !(s.unwork.getD (key3 d m i) false),
    daylightMin := fun n => s.daylight.getD n 1440,
    repairCost := fun i => s.costs.getD i 0,
    shift := fun d m x g c => s.shifts.getD (key5 d m x g c) 0 }

def parsePair (s : String) : Option (Nat × Nat) := do
  match ← natList? s with
  | [a, b] => some (a, b)
  | _ => none

def parseGroup (s : String) : Option (Nat × List Nat) := do
  match ← splitTop s with
  | [g, cs] => some (← nat? g, ← natList? cs)
  | _ => none

def parseDate (s : String) : Option Sched.Date := do
  match ← natList? s with
  | [y, m, d] => some { y := y, m := m, d := d }
  | _ => none

def showOptNat : Option Nat → String
  | none => "-"
  | some i => toString i

def showStatus : Emission.Status → String
  | .inactive => "inactive" | .active => "active" | .repaired => "repaired" | .expired => "expired"

def showBy : Emission.By → String
  | .none => "-" | .natural => "natural" | .expire => "expired" | .company c => s!"m{c}"

/-- roll bookkeeping of a completed survey: spatial rolls drawn, temporal rolls drawn, rolls the
model drew that the input tables do not contain -/
def rollStats (s : DState) (n : Nat) (d : Done) : Nat × Nat × Nat :=
  let obs := Sensor.detect d.sv.m d.sv.site d.sv.xs
  obs.foldl (fun acc o =>
    let a := if o.sRoll then acc.1 + 1 else acc.1
    let b := if o.tRoll then acc.2.1 + 1 else acc.2.1
    let c := acc.2.2 + (if o.sRoll && !(s.rollS.contains (key3 n d.sv.m o.e.id)) then 1 else 0)
                     + (if o.tRoll && !(s.rollT.contains (key3 n d.sv.m o.e.id)) then 1 else 0)
    (a, b, c)) (0, 0, 0)

def showMeth (s : DState) (n : Nat) (c : MethCols) (t : MethTrace) : String :=
  let rs := t.dones.foldl (fun acc d =>
    let r := rollStats s n d
    (acc.1 + r.1, acc.2.1 + r.2.1, acc.2.2 + r.2.2)) (0, 0, 0)
  s!"{c.cost},{showOptInt c.flags},{showOptInt c.tags},{c.visited},{c.travel},{c.survey},{c.upfront},{rs.1},{rs.2.1},{rs.2.2}"

def showRow (s : DState) (n : Nat) (r : TsRow) (o : DayOut) : String :=
  let e := r.em
  let ms := ";".intercalate ((List.zip r.meth o.traces).map (fun (c, t) => showMeth s n c t))
  s!"{e.new}:{e.active}:{e.repaired}:{e.natRepaired}:{e.expired}:{e.emis}:{e.emisMit}:{e.emisNonMit}|" ++
  s!"{r.cost.cost}:{r.cost.repCost}:{r.cost.natRepCost}:{r.tagged}|{ms}"

def showOut (o : Crew.OutRec) : String :=
  s!"[{o.req.site},{showBool o.rep.complete},{showBool o.rep.inProgress},{o.rep.surveyed},{showOptNat o.crew}]"

def showTrace (t : MethTrace) : String :=
  let outs := showList showOut t.dd.out
  let dn := showList (fun (d : Done) => s!"[{d.sv.site},{d.rep.measured},{d.targets.length}]") t.dones
  s!"{t.m} issued={showList toString t.issued} plan={showList toString t.keys} budget={t.budget} out={outs} done={dn}"

def showRec (r : Rec) (c : Cov) (x : Ext) : String :=
  let cov := showList (fun (x : Nat × Bool) => s!"[{x.1},{showBool x.2}]") c
  let meas := match x.measured with | some q => showRat q | none => "-"
  s!"{showBool r.present} {showStatus r.status} {r.activeDays} {r.emitDays} {r.start} {showOptInt r.endDate} " ++
  s!"{r.theoryEnd} {r.mitDays} {showBool r.tagged} {showBy r.by_} {showOptInt r.initDetect} {showOptNat r.initDetectBy} {cov} " ++
  s!"{meas} {x.estDays}"

def showMState (c : MethodCfg) (m : MethSt) : String :=
  let q := showList (fun (e : Sched.Entry) => s!"[{e.cls},{e.rate},{e.site}]") m.sched.q.entries
  let pool := showList (fun (pl : FollowUp.Plan) => s!"[{pl.site},{showRat pl.rate}]") m.scr.pool
  let fq := showList (fun (e : FollowUp.QE) => s!"[{e.cls},{e.plan.site},{showRat e.plan.rate}]") m.sh.queue
  let inq := showList toString (c.sites.filter (fun i => m.sh.inQueue i))
  s!"q={q} pool={pool} fq={fq} inQueue={inq} err={showBool m.sh.err} crashed={showBool m.sched.crashed}"

def runDays (w : World) (prog : Program) (inp : Inputs) (N : Nat) : Array DayOut × St :=
  (List.range N).foldl (fun (acc : Array DayOut × St) n =>
    let o := simDayOut w prog inp n acc.2
    (acc.1.push o, o.st)) (#[], init w prog)

def addAll {α} (h : Std.HashMap Nat α) (kvs : List (Nat × α)) : Std.HashMap Nat α :=
  kvs.foldl (fun h kv => h.insert kv.1 kv.2) h

def step (s : DState) (toks : List String) : DState × String :=
  match toks with
  | ["reset"] => ({}, "ok")
  | ["em", st, nrd, rd, rp, im, ad, idr, rate, site, eqg, comp, cost] =>
    match int? st, int? nrd, int? rd, bool? rp, bool? im, int? ad, int? idr, int? rate, nat? site, nat? eqg,
          nat? comp, int? cost with
    | some st, some nrd, some rd, some rp, some im, some ad, some idr, some rate, some site, some eqg,
      some comp, some cost =>
      let idx := s.ems.size
      let pp : Emission.Params := { start := st, nrd := nrd, repairDelay := rd, repairable := rp, intermittent := im, activeDur := ad, inactiveDur := idr }
      let info : EmInfo := { idx := idx, rate := rate, site := site, eqg := eqg, comp := comp, p := pp }
      ({ s with ems := s.ems.push info, costs := s.costs.push cost }, s!"ok {idx}")
    | _, _, _, _, _, _, _, _, _, _, _, _ => (s, "bad-op")
  | ["src", l] =>
    match natList? l with
    | some ids =>
      let pend : List Heap.EmId := ids.map (fun i => { id := i, start := (s.ems.getD i default).p.start })
      ({ s with srcs := s.srcs.push { pending := pend } }, "ok")
    | none => (s, "bad-op")
  | ["layout", site, l] =>
    match nat? site, listOf? parseGroup l with
    | some site, some gs => ({ s with layout := s.layout.insert site gs }, "ok")
    | _, _ => (s, "bad-op")
  | ["method", role, fu, stat, crews, cap, wd, cd, cw, pd, ps, up, mdl, trd] =>
    match nat? fu, bool? stat, nat? crews, nat? cap, int? wd, bool? cd, bool? cw, int? pd, optInt? ps, int? up,
          int? mdl, int? trd with
    | some fu, some stat, some crews, some cap, some wd, some cd, some cw, some pd, some ps, some up,
      some mdl, some trd =>
      let role? : Option Role :=
        if role = "r" then some .routine else if role = "s" then some (.screen fu)
        else if role = "f" then some .followUp else none
      match role? with
      | some r =>
        let mc : Cost.MethodCost := { perDay := pd, perSite := ps, upfront := up }
        let c : MethodCfg := { role := r, stationary := stat, crews := crews, cap := cap, workdayH := wd, considerDaylight := cd, considerWeather := cw, cost := mc, mdl := mdl, trd := trd }
        ({ s with meths := s.meths.push { cfg := c } }, s!"ok {s.meths.size}")
      | none => (s, "bad-op")
    | _, _, _, _, _, _, _, _, _, _, _, _ => (s, "bad-op")
  | ["msite", m, site, sT, cost, rs, months, dep, sim, plan] =>
    match nat? m, nat? site, int? sT, int? cost, nat? rs, natList? months, natList? dep, natList? sim,
          listOf? parsePair plan with
    | some m, some site, some sT, some cost, some rs, some months, some dep, some sim, some plan =>
      match s.meths[m]? with
      | some b =>
        let P : Sched.PlannerP := { rs := rs, months := months, depYears := dep, simYears := sim, plan := plan, surveyTime := if b.cfg.stationary then 0 else sT }
        let b' := { b with sites := b.sites.push { site := site, S := sT, cost := cost, P := P } }
        ({ s with meths := s.meths.set! m b' }, "ok")
      | none => (s, "bad-op")
    | _, _, _, _, _, _, _, _, _ => (s, "bad-op")
  | ["fup", m, st, rd, dl, pr, tf, thr, inst, flt, sw, lw, sthr, lthr] =>
    match nat? m, bool? st, int? rd, int? dl, rat? pr, bool? tf, rat? thr, filter? flt, nat? sw, nat? lw,
          rat? sthr, rat? lthr with
    | some m, some st, some rd, some dl, some pr, some tf, some thr, some flt, some sw, some lw,
      some sthr, some lthr =>
      let inst? : Option (Option Rat) := if inst = "-" then some none else (rat? inst).map some
      match inst?, s.meths[m]? with
      | some instv, some b =>
        let p : FollowUp.Params := { stationary := st, rd := rd, delay := dl, prop := pr, thrFirst := tf, thr := thr, inst := instv, filter := flt, sw := sw, lw := lw, sthr := sthr, lthr := lthr }
        ({ s with meths := s.meths.set! m { b with cfg := { b.cfg with fup := p } } }, "ok")
      | _, _ => (s, "bad-op")
    | _, _, _, _, _, _, _, _, _, _, _, _ => (s, "bad-op")
  | ["dates", l] =>
    match listOf? parseDate l with
    | some ds => ({ s with dates := ds.toArray }, "ok")
    | none => (s, "bad-op")
  | ["start", y, m, d, n] =>
    match nat? y, nat? m, nat? d, nat? n with
    | some y, some m, some d, some n =>
      let ds := (List.range n).map (dateOf { y := y, m := m, d := d })
      ({ s with dates := ds.toArray }, "ok " ++ showList (fun (x : Sched.Date) => s!"[{x.y},{x.m},{x.d}]") ds)
    | _, _, _, _ => (s, "bad-op")
  | ["daylight", l] =>
    match intList? l with
    | some ds => ({ s with daylight := ds.toArray }, "ok")
    | none => (s, "bad-op")
  | ["rolls", d, m, l] =>
    match nat? d, nat? m, listOf? natList? l with
    | some d, some m, some rs =>
      let sp := rs.filterMap (fun r => match r with
        | [e, a, _] => if a < 2 then some (key3 d m e, a == 1) else none
        | _ => none)
      let tp := rs.filterMap (fun r => match r with
        | [e, _, b] => if b < 2 then some (key3 d m e, b == 1) else none
        | _ => none)
      ({ s with rollS := addAll s.rollS sp, rollT := addAll s.rollT tp }, "ok")
    | _, _, _ => (s, "bad-op")
  | ["travel", d, m, l] =>
    match nat? d, nat? m, listOf? intList? l with
    | some d, some m, some ts =>
      let kv := ts.filterMap (fun r => match r with
        | [i, t] => some (key3 d m i.toNat, t)
        | _ => none)
      ({ s with travel := addAll s.travel kv }, "ok")
    | _, _, _ => (s, "bad-op")
  | ["shift", d, m, site, l] =>
    match nat? d, nat? m, nat? site, listOf? intList? l with
    | some d, some m, some site, some ts =>
      let kv := ts.filterMap (fun r => match r with
        | [g, c, k] => some (key5 d m site g.toNat c.toNat, k)
        | _ => none)
      ({ s with shifts := addAll s.shifts kv }, "ok")
    | _, _, _, _ => (s, "bad-op")
  | ["unworkable", d, m, l] =>
    match nat? d, nat? m, natList? l with
    | some d, some m, some is =>
      ({ s with unwork := addAll s.unwork (is.map (fun i => (key3 d m i, true))) }, "ok")
    | _, _, _ => (s, "bad-op")
  | ["run", n] =>
    match nat? n with
    | some n =>
      let r := runDays (mkWorld s) (mkProgram s) (mkInputs s) n
      ({ s with outs := r.1, rows := r.1.map (·.row), final := some r.2, nRun := n },
        s!"ok wf={showBool (wfWorld (mkWorld s))}")
    | none => (s, "bad-op")
  | ["row", n] =>
    match nat? n with
    | some n =>
      match s.outs[n]? with
      | some o => (s, showRow s n o.row o)
      | none => (s, "no-row")
    | none => (s, "bad-op")
  | ["trace", n] =>
    match nat? n with
    | some n =>
      match s.outs[n]? with
      | some o => (s, " | ".intercalate (o.traces.map showTrace))
      | none => (s, "no-row")
    | none => (s, "bad-op")
  | ["rec", i] =>
    match nat? i, s.final with
    | some i, some st =>
      match s.ems[i]?, st.ss[i]? with
      | some info, some e => (s, showRec (recOf s.nRun info e) (st.covs.getD i []) (st.ext.getD i {}))
      | _, _ => (s, "no-rec")
    | _, _ => (s, "bad-op")
  | ["state", m] =>
    match nat? m, s.final with
    | some m, some st =>
      match st.ms[m]?, (mkProgram s)[m]? with
      | some ms, some c => (s, showMState c ms)
      | _, _ => (s, "no-method")
    | _, _ => (s, "bad-op")
  | _ => (s, "bad-op")

def main : IO Unit := runDriver step {}
