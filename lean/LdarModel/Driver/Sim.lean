import LdarModel.Driver.Proto
/- driver stub: replaced by the integrated simulation driver -/
open LdarModel.Proto
def main : IO Unit := runDriver (fun (_ : Unit) (_ : List String) => ((), "bad-op")) ()
