import LdarModel.Model.Gen
import LdarModel.Model.Units
import LdarModel.Generated.Units
import LdarModel.Generated.EmisSeed
import LdarModel.Generated.SimNumber
import LdarModel.Generated.GenMarker
import LdarModel.Driver.Proto
/-
Driver for the emission generator and the unit converter (core Lean only).
Unit / substance names are sent with `_` in place of blanks ("cubic_feet"); rationals as two
integer tokens `num den`; replies `num/den` or `none` (KeyError / ZeroDivisionError).

  gen <dur> <multi> <preEnabled> <preBits> <simBits>       -> [[start,id],...]   (stored pending list)
  conv <metric> <increment> <n> <d>                         -> gas_convert(q, metric, increment)
  gas <n> <d> <inSub> <inMetric> <inInc> <outSub> <outMetric> <outInc>
      <ng n> <ng d> <T n> <T d> <P n> <P d> <tempUnit> <presUnit> <gwp n> <gwp d>   -> gas_convert(**all)
  uconv <metric> <increment> <n> <d>                        -> EmissionsSource.unit_conversion(q)
  sample <metric> <increment> <sn> <sd> <cn> <cd>           -> EmissionsSourceSample rate for that pick
  dist <metric> <increment> <dn> <dd> <cn> <cd>             -> EmissionsSourceDist rate for that draw
  tounit <metric> <increment> <n> <d>                       -> the rate written in that unit
  seeds <old> <draws> <nSim>                                -> seed list of gen_seed_emis
  init <seeds> <nSaved> <fresh> <n>                         -> [[sim,seed],...] <nSaved'>  (one initialize_emissions run)
  batches <n>                                               -> batch_simulations(n)
  simnums <debug|pool> <n>                                  -> simulation numbers run for n requested simulations
  simnumsfrom <debug|pool> <counts>                         -> numbers run by the loop over the given batch list
  ghist [[cfg,n,kill],...]  kill = c|i|f<k>|x                -> per run <hash_file_exist|->:<numbers generated>:<marker|->  (folder model, removal order of the tree)
  seedrange                                                 -> <low> <high>
  names                                                     -> in=[..] out=[..] inc=[..] sub=[..] temp=[..] pres=[..]
-/
open LdarModel LdarModel.Gen LdarModel.Units LdarModel.Proto

def tbl : Table := LdarModel.Generated.Units.table

def unName (s : String) : String := s.map (fun c => if c = '_' then ' ' else c)
def enName (s : String) : String := s.map (fun c => if c = ' ' then '_' else c)

def rat? (n d : String) : Option Rat := do
  let n ← int? n
  let d ← nat? d
  if d = 0 then none else some (mkRat n d)

def showRat (r : Rat) : String := s!"{r.num}/{r.den}"
def showORat : Option Rat → String
  | none => "none"
  | some r => showRat r

def showEm (e : Em) : String := s!"[{e.start},{e.id}]"


def parseKill (s : String) : Option Kill :=
  if s = "c" then some .afterCheck else if s = "i" then some .afterInfra else if s = "x" then some .complete
  else if s.startsWith "f" then (s.drop 1).toNat?.map .afterFiles else none

def parseRun (s : String) : Option (Nat × Nat × Kill) := do
  match ← splitTop s with
  | [c, n, k] => some (← nat? c, ← nat? n, ← parseKill k)
  | _ => none

/-- one run of the folder model with what the real run lets one observe: hash_file_exist (if
setup_infrastructure was reached), the simulation numbers generated, the marker afterwards -/
def ghistStep (r : MarkerRemoval) (acc : GFolder × List String) (x : Nat × Nat × Kill) : GFolder × List String :=
  let (F, out) := acc
  let (c, n, k) := x
  let (F1, he) := infraStep r c F
  let F' := runG r c n k F
  let writes : List Nat :=
    let span := fun (cut : Option Nat) =>
      if !he then List.range (match effCut cut n with | some j => min j n | none => n)
      else match F1.marker with
        | none => []
        | some m => if m < n then List.range' m ((match effCut cut (n - m) with | some j => min (m + j) n | none => n) - m) else []
    match k with
    | .afterCheck => [] | .afterInfra => [] | .afterFiles j => span (some j) | .complete => span none
  let heS := match k with | .afterCheck => "-" | _ => showBool he
  let mk := match F'.marker with | none => "-" | some m => toString m
  (F', out ++ [s!"{heS}:{showList toString writes}:{mk}"])

def step (_ : Unit) (toks : List String) : Unit × String :=
  match toks with
  | ["gen", dur, multi, preE, pre, sim] =>
    match nat? dur, bool? multi, bool? preE, boolList? pre, boolList? sim with
    | some dur, some multi, some preE, some pre, some sim =>
      ((), showList showEm (generate pre sim dur multi preE))
    | _, _, _, _, _ => ((), "bad-op")
  | ["conv", m, i, n, d] =>
    match rat? n d with
    | some q => ((), showORat (convertD tbl (unName m) (unName i) q))
    | none => ((), "bad-op")
  | ["uconv", m, i, n, d] =>
    match rat? n d with
    | some q => ((), showORat (unitConversion tbl (unName m) (unName i) q))
    | none => ((), "bad-op")
  | ["tounit", m, i, n, d] =>
    match rat? n d with
    | some q => ((), showORat (toUnit (unName m) (unName i) q))
    | none => ((), "bad-op")
  | ["sample", m, i, sn, sd, cn, cd] =>
    match rat? sn sd, rat? cn cd with
    | some s, some c => ((), showORat (sampleRate tbl (unName m) (unName i) s c))
    | _, _ => ((), "bad-op")
  | ["dist", m, i, dn, dd, cn, cd] =>
    match rat? dn dd, rat? cn cd with
    | some x, some c => ((), showORat (distRate tbl (unName m) (unName i) x c))
    | _, _ => ((), "bad-op")
  | ["gas", qn, qd, inSub, inM, inI, outSub, outM, outI, ngn, ngd, tn, td, pn, pd, tu, pu, gn, gd] =>
    match rat? qn qd, rat? ngn ngd, rat? tn td, rat? pn pd, rat? gn gd with
    | some q, some ng, some t, some p, some g =>
      let a : Args := { q := q, inSubstance := unName inSub, inMetric := unName inM,
                        inIncrement := unName inI, outSubstance := unName outSub,
                        outMetric := unName outM, outIncrement := unName outI, ngComp := ng,
                        t := t, p := p, tempUnit := unName tu, presUnit := unName pu, gwp := g }
      ((), showORat (gasConvert tbl a))
    | _, _, _, _, _ => ((), "bad-op")
  | ["seeds", old, draws, n] =>
    match natList? old, natList? draws, nat? n with
    | some old, some draws, some n => ((), showList toString (genSeeds old draws n))
    | _, _, _ => ((), "bad-op")
  | ["init", seeds, nSaved, fresh, n] =>
    match natList? seeds, nat? nSaved, bool? fresh, nat? n with
    | some seeds, some nSaved, some fresh, some n =>
      let idx := LdarModel.Generated.EmisSeed.seedIdx
      let tr := seedTrace idx (fun i => seeds.getD i 0) fresh nSaved n
      let ns := (initRun idx (fun i => seeds.getD i 0) id fresh n { nSaved := nSaved, files := fun _ => none }).nSaved
      ((), showList (fun (p : Nat × Nat) => s!"[{p.1},{p.2}]") tr ++ s!" {ns}")
    | _, _, _, _ => ((), "bad-op")
  | ["batches", n] =>
    match nat? n with
    | some n => ((), showList toString (batchSimulations n))
    | none => ((), "bad-op")
  | ["simnums", mode, n] =>
    match nat? n with
    | some n =>
      let f : SimNum := if mode = "debug" then LdarModel.Generated.SimNumber.simNumberDebug
                        else LdarModel.Generated.SimNumber.simNumberPool
      ((), showList toString (simNumbers f n))
    | none => ((), "bad-op")
  | ["simnumsfrom", mode, counts] =>
    match natList? counts with
    | some cs =>
      let f : SimNum := if mode = "debug" then LdarModel.Generated.SimNumber.simNumberDebug
                        else LdarModel.Generated.SimNumber.simNumberPool
      ((), showList toString (simNumbersFrom f 0 cs))
    | none => ((), "bad-op")
  | ["ghist", runs] =>
    match listOf? parseRun runs with
    | some rs =>
      let r : MarkerRemoval := { inInfra := LdarModel.Generated.GenMarker.removedInInfrastructure,
                                 inEmis := LdarModel.Generated.GenMarker.removedInEmissions }
      ((), " ".intercalate ((rs.foldl (ghistStep r) (GFolder.empty, [])).2))
    | none => ((), "bad-op")
  | ["seedrange"] =>
    ((), s!"{LdarModel.Generated.EmisSeed.seedLow} {LdarModel.Generated.EmisSeed.seedHigh}")
  | ["names"] =>
    let f := fun (l : List String) => showList enName l
    ((), s!"in={f (tbl.inMetrics.map (·.name))} out={f (tbl.outMetrics.map (·.name))} inc={f (tbl.increments.map (·.1))} sub={f (tbl.substances.map (·.1))} temp={f (tbl.tempUnits.map (·.name))} pres={f (tbl.presUnits.map (·.name))}")
  | _ => ((), "bad-op")

def main : IO Unit := runDriver step ()
