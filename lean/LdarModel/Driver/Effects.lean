import LdarModel.Model.Effects
import LdarModel.Driver.Proto
/-
Driver for the effect model (C12): evaluates the abstract machine on small schedules.
  run <reseed 0/1> <copies 0/1> <seedA> <seedB> <progs> <workers>
     op      = [tag,a,b]  tag 0 seed a | 1 draw gen a (0 numpyGlobal,1 stdlibRandom,2 other) | 2 read a
                          | 3 write a b | 4 comp a | 5 emit | 6 touch a b | 7 look a
     prog    = [[op,...],[[op,...],...],[op,...]]          prologue, days, epilogue
     progs   = [prog,...]
     worker  = [np,std,oth,[[progIndex,sim],...]]
     workers = [worker,...]
     generator folder: seed sim d = seedA*sim + d + seedB ; scenario sim = sim + 3 ; shared containers and
     infrastructure objects start empty; copies = every task deep-copies the infrastructure objects
  -> <outputs per worker per task> | <the same tasks run alone> | <clean flag per prog (all containers relevant)>
-/
open LdarModel LdarModel.Effects LdarModel.Proto

def parseGen : Nat → Option Gen
  | 0 => some .numpyGlobal
  | 1 => some .stdlibRandom
  | 2 => some .other
  | _ => none

def parseOp (s : String) : Option Op := do
  match ← natList? s with
  | [0, a, _] => some (.seed a)
  | [1, a, _] => (parseGen a).map .draw
  | [2, a, _] => some (.read a)
  | [3, a, b] => some (.write a b)
  | [4, a, _] => some (.comp a)
  | [5, _, _] => some .emit
  | [6, a, b] => some (.touch a b)
  | [7, a, _] => some (.look a)
  | _ => none

def parseProg (s : String) : Option Prog := do
  match ← splitTop s with
  | [pro, days, epi] =>
    let pro ← listOf? parseOp pro
    let days ← listOf? (listOf? parseOp) days
    let epi ← listOf? parseOp epi
    some { prologue := pro, body := days, epilogue := epi }
  | _ => none

def parseWorker (progs : List Prog) (s : String) : Option Worker := do
  match ← splitTop s with
  | [np, std, oth, ts] =>
    let np ← nat? np
    let std ← nat? std
    let oth ← nat? oth
    let ts ← listOf? natList? ts
    let tasks ← ts.mapM (fun t => match t with
      | [i, sim] => (progs[i]?).map (fun p => ({ prog := p, sim := sim } : Task))
      | _ => none)
    some { np := np, std := std, oth := oth, tasks := tasks }
  | _ => none

def showOut (o : List Nat) : String := showList toString o

def step (_ : Unit) (toks : List String) : Unit × String :=
  match toks with
  | ["run", rs, cp, a, b, progs, workers] =>
    match bool? rs, bool? cp, nat? a, nat? b, listOf? parseProg progs with
    | some rs, some cp, some a, some b, some progs =>
      match listOf? (parseWorker progs) workers with
      | some ws =>
        let F : Folder := { seed := fun sim d => a * sim + d + b, scenario := fun sim => sim + 3,
                            objects := fun _ _ => [] }
        let rs : Mode := { reseed := rs, copies := cp }
        let sh0 : Nat → List Nat := fun _ => []
        let outs := runSchedule rs F sh0 ws
        let al := ws.map (fun w => w.tasks.map (alone rs F sh0))
        let cl := progs.map (fun p => p.clean (fun _ => true))
        ((), showList (showList showOut) outs ++ " | " ++ showList (showList showOut) al ++ " | " ++ showList showBool cl)
      | none => ((), "bad-op")
    | _, _, _, _, _ => ((), "bad-op")
  | _ => ((), "bad-op")

def main : IO Unit := runDriver step ()
