import LdarModel.Model.Window
import LdarModel.Driver.Proto
/-
Driver for the estimation-window model (exact arithmetic, `exactRounding`).
  table <mode 0=site|1=comp> <p> <q> <S> <E> [[site,eqg,comp,date,rate],...]     (eqg/comp -1 = None)
    -> site,eqg,comp:[[start,stop,date,rate,volNum,prevCond,nextCond],...]|...   groups in order of first occurrence
       ("none" when there is no group)
  offs <p> <q> <g0> <g1>
    -> for every gap g0..g1 eight integers, space separated:
       endOffset g True, endOffset g False, startOffset g True, startOffset g False   (repaired code)
       endOffsetOrig g True/False, startOffsetOrig g True/False   (code before the repairs, exact)
  share <p> <q> <g0> <g1>
    -> for every gap g0..g1 two integers: floor(g·f) ceil(g·f)
  tiles <S> <E> [[start,stop],...]  -> 1/0   (the model's own `Tiles` predicate)
-/
open LdarModel LdarModel.Window LdarModel.Proto

def optId (i : Int) : Option Nat := if i < 0 then none else some i.toNat
def showOptId : Option Nat → String
  | none => "-1"
  | some n => toString n

def parseRec (s : String) : Option Rec := do
  match ← intList? s with
  | [st, e, c, d, r] =>
    if st < 0 then none
    else some { site := st.toNat, eqg := optId e, comp := optId c, date := d, rate := r }
  | _ => none

def showWin (wc : Win × (Bool × Bool)) : String :=
  let w := wc.1
  s!"[{w.start},{w.stop},{w.date},{w.rate},{w.volNum},{showBool wc.2.1},{showBool wc.2.2}]"

def showGroup (kw : Key × List Win × List (Bool × Bool)) : String :=
  s!"{kw.1.site},{showOptId kw.1.eqg},{showOptId kw.1.comp}:" ++ showList showWin (kw.2.1.zip kw.2.2)

def gapsOf (g0 g1 : Int) : List Int :=
  if g1 < g0 then [] else (List.range ((g1 - g0).toNat + 1)).map (fun (i : Nat) => g0 + Int.ofNat i)

def parseWin2 (s : String) : Option Win := do
  match ← intList? s with
  | [a, b] => some { start := a, stop := b, date := a, rate := 0 }
  | _ => none

def step (_ : Unit) (toks : List String) : Unit × String :=
  match toks with
  | ["table", m, p, q, s, e, recs] =>
    match nat? m, int? p, int? q, int? s, int? e, listOf? parseRec recs with
    | some m, some p, some q, some s, some e, some recs =>
      if q ≤ 0 ∨ m > 1 then ((), "bad-op")
      else
        let mode := if m = 0 then Mode.site else Mode.comp
        let rep := report mode (exactRounding { p := p, q := q }) s e recs
        let repc := rep.map (fun kw => (kw.1, kw.2, groupConds s e (groupInput mode recs kw.1)))
        ((), if rep.isEmpty then "none" else "|".intercalate (repc.map showGroup))
    | _, _, _, _, _, _ => ((), "bad-op")
  | ["offs", p, q, g0, g1] =>
    match int? p, int? q, int? g0, int? g1 with
    | some p, some q, some g0, some g1 =>
      if q ≤ 0 then ((), "bad-op")
      else
        let f : Fac := { p := p, q := q }
        let ρ := exactRounding f
        let one (g : Int) : String :=
          s!"{endOffset ρ g true} {endOffset ρ g false} {startOffset ρ g true} {startOffset ρ g false} {endOffsetOrig f g true} {endOffsetOrig f g false} {startOffsetOrig f g true} {startOffsetOrig f g false}"
        ((), " ".intercalate ((gapsOf g0 g1).map one))
    | _, _, _, _ => ((), "bad-op")
  | ["share", p, q, g0, g1] =>
    match int? p, int? q, int? g0, int? g1 with
    | some p, some q, some g0, some g1 =>
      if q ≤ 0 then ((), "bad-op")
      else
        let f : Fac := { p := p, q := q }
        let ρ := exactRounding f
        let one (g : Int) : String := s!"{ρ.lo g} {ρ.hi g}"
        ((), " ".intercalate ((gapsOf g0 g1).map one))
    | _, _, _, _ => ((), "bad-op")
  | ["tiles", s, e, ws] =>
    match int? s, int? e, listOf? parseWin2 ws with
    | some s, some e, some ws => ((), showBool (decide (Tiles s e ws)))
    | _, _, _ => ((), "bad-op")
  | _ => ((), "bad-op")

def main : IO Unit := runDriver step ()
