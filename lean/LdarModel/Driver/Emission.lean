import LdarModel.Model.Emission
import LdarModel.Driver.Proto
/-
Driver for the emission state machine.
  case <start> <nrd> <delay> <repairable> <intermittent> <activeDur> <inactiveDur> <N> [[day,company,trd(,kind)],...]   kind 1 = detection-only event
  (the end date handed to calc_mitigated is the model's own `summaryEndArg N`)
    -> <summary> | <state after day 0>;<state after day 1>;...
  summary = status activeDays emitDays mitDays endDate by tagged initDetect initDetectBy
  per-day = status:activeDays:daysEmitting:tagged:dst:emitting
  tagcalls <complete> <company> <trd> <prevDay> <curDay> [[component,measuredRate(scaled int)],...]
    -> [[component,company,trd],...] <latest tagging survey day after the step> <days since last survey>
       (`tagCalls` / `tagEvs` / `latestTaggingSurvey`: ComponentLevelMethod.survey_site)
  sampledelay [d0,d1,...] <drawn index>
    -> <delay> | -        (`sampleDelay`: Source._get_rep_delay, the drawn index is an input)
-/
open LdarModel LdarModel.Emission LdarModel.Proto

def showStatus : Status → String
  | .inactive => "inactive" | .active => "active" | .repaired => "repaired" | .expired => "expired"
def showBy : By → String
  | .none => "-" | .natural => "natural" | .expire => "expire" | .company c => s!"c{c}"

def showDay (p : Params) (s : State) : String :=
  s!"{showStatus s.status}:{s.activeDays}:{emitDays p s}:{showBool s.tagged}:{s.dst}:{showBool (isEmitting p s)}"

def showSummary (p : Params) (s : State) (endArg : Int) : String :=
  let idb := match s.initDetectBy with | none => "-" | some c => s!"c{c}"
  s!"{showStatus s.status} {s.activeDays} {emitDays p s} {mitDays p s endArg} {showOptInt s.endDate} {showBy s.by_} {showBool s.tagged} {showOptInt s.initDetect} {idb}"

/-- event = [day, company, reportingDelay] (a tag request) or [day, company, 0, 1] (detection only) -/
def parseEv (s : String) : Option (Nat × Ev) := do
  match ← intList? s with
  | [d, c, t] => if d < 0 ∨ c < 0 then none else some (d.toNat, .tag { company := c.toNat, trd := t })
  | [d, c, t, 0] => if d < 0 ∨ c < 0 then none else some (d.toNat, .tag { company := c.toNat, trd := t })
  | [d, c, _, 1] => if d < 0 ∨ c < 0 then none else some (d.toNat, .detect c.toNat)
  | _ => none

def runCase (p : Params) (N : Nat) (evs : List (Nat × Ev)) : State × List String :=
  (List.range N).foldl (fun (acc : State × List String) (n : Nat) =>
      let todays := (evs.filter (fun e => e.1 = n)).map (·.2)
      let s' := dayE p (n : Int) todays acc.1
      (s', showDay p s' :: acc.2)) (init, [])

def parsePair (s : String) : Option (Nat × Int) := do
  match ← intList? s with
  | [c, r] => if c < 0 then none else some (c.toNat, r)
  | _ => none

def showTagEv (x : Nat × TagEv) : String := s!"[{x.1},{x.2.company},{x.2.trd}]"

def step (_ : Unit) (toks : List String) : Unit × String :=
  match toks with
  | ["tagcalls", cp, co, trd, prev, cur, dets] =>
    match bool? cp, nat? co, int? trd, int? prev, int? cur, listOf? parsePair dets with
    | some cp, some co, some trd, some prev, some cur, some dets =>
      let evs := tagEvs co trd cp dets
      -- consistency of the two model definitions is part of the reply: components of `tagEvs` = `tagCalls`
      let same := evs.map (·.1) == tagCalls cp dets
      ((), showList showTagEv evs ++ s!" {latestTaggingSurvey cp prev cur} {cur - prev} {showBool same}")
    | _, _, _, _, _, _ => ((), "bad-op")
  | ["sampledelay", l, i] =>
    match intList? l, nat? i with
    | some l, some i => ((), showOptInt (sampleDelay l i))
    | _, _ => ((), "bad-op")
  | ["case", st, nrd, dl, rp, im, ad, idr, n, evs] =>
    match int? st, int? nrd, int? dl, bool? rp, bool? im, int? ad, int? idr, nat? n, listOf? parseEv evs with
    | some st, some nrd, some dl, some rp, some im, some ad, some idr, some n, some evs =>
      let p : Params := { start := st, nrd := nrd, repairDelay := dl, repairable := rp,
                          intermittent := im, activeDur := ad, inactiveDur := idr }
      let (s, tr) := runCase p n evs
      ((), showSummary p s (summaryEndArg n) ++ " | " ++ ";".intercalate tr.reverse)
    | _, _, _, _, _, _, _, _, _ => ((), "bad-op")
  | _ => ((), "bad-op")

def main : IO Unit := runDriver step ()
