import LdarModel.Model.Cache
import LdarModel.Generated.Cache
import LdarModel.Driver.Proto
/-
Driver for the generator-folder cache model, run with the table extracted from the source
(`Generated.Cache.tbl`).
  hist <B> <op>,<op>,...       B = number of emission files to show
    op:  e<k>:<v>   edit input k (index into Input.all) to content number v
         r<n>       uninterrupted run with n simulations
         c<n>:<k>   run interrupted before its k-th file effect (k >= number of effects: completes)
         t<n>:<k>   run interrupted inside the pickle.dump of its k-th file effect
         d<file>    user deletes seeds|hashes|infra|count|ts
         x<i>       user deletes the emission file of simulation i
    -> one record per op, joined by " | ":
       <outcome> <effects> <mem> seeds=.. hashes=.. infra=.. count=.. ts=.. emis=[..]
       outcome: - (no run) | done | fail (loud failure) | crash
       effects: executed file effects, e.g. [S3,rm:count,H,I,E0,E1,C2,T0.25] (T<first day>.<days>); a torn one is prefixed ~
       mem:     generation of the infrastructure in memory when the run completed (vv 'g' gid) or -
       file:    - absent, T torn, else content
  table                         -> the extracted table (for the evidence)
-/
open LdarModel LdarModel.Cache LdarModel.Proto

def tblD : Tbl := LdarModel.Generated.Cache.tbl

def showVV (v : VV) : String :=
  ".".intercalate (Input.all.map fun i => toString (v.get i))

def showGen (g : Gen) : String := s!"{showVV g.vv}g{g.gid}"

def showFile {α} (f : α → String) : FileSt α → String
  | .absent => "-"
  | .torn => "T"
  | .ok a => f a

def showStore (st : Store) : String :=
  "{" ++ ";".intercalate (st.map fun p => s!"{p.1}={p.2}") ++ "}"

def showFileId : FileId → String
  | .seeds => "seeds" | .hashes => "hashes" | .infra => "infra" | .count => "count" | .ts => "ts"

def showStep : Step → String
  | .wrSeeds l => s!"S{l.length}"
  | .wrHashes _ => "H"
  | .wrInfra _ => "I"
  | .wrEmis i _ => s!"E{i}"
  | .wrCount n => s!"C{n}"
  | .wrTs p => s!"T{p.1}.{p.2}"
  | .rm f => s!"rm:{showFileId f}"

def showDisk (b : Nat) (d : Disk) : String :=
  s!"seeds={showFile (fun (l : List Draw) => "<" ++ ";".intercalate (l.map fun x => s!"{x.1}.{x.2}") ++ ">") d.seeds} hashes={showFile showStore d.hashes} infra={showFile showGen d.infra} " ++
  s!"count={showFile toString d.count} ts={showFile (fun (p : Nat × Nat) => s!"{p.1}.{p.2}") d.ts} " ++
  "emis=" ++ showList (fun i => showFile showGen (d.emis i)) (List.range b)

def parseFileId : String → Option FileId
  | "seeds" => some .seeds | "hashes" => some .hashes | "infra" => some .infra
  | "count" => some .count | "ts" => some .ts | _ => none

def parsePair (s : String) : Option (Nat × Nat) :=
  match s.splitOn ":" with
  | [a, b] => do some (← a.toNat?, ← b.toNat?)
  | _ => none

def parseOp (s : String) : Option Op :=
  let rest := (s.drop 1).toString
  match s.toList.head? with
  | some 'e' => do
    let (k, v) ← parsePair rest
    let i ← Input.all[k]?
    some (.edit i v)
  | some 'r' => rest.toNat?.map .run
  | some 'c' => (parsePair rest).map fun (n, k) => .crash n k
  | some 't' => (parsePair rest).map fun (n, k) => .tear n k
  | some 'd' => (parseFileId rest).map .del
  | some 'x' => rest.toNat?.map .delEmis
  | _ => none

/-- outcome, executed effects, mem of one op (the state change itself is `exec`) -/
def describe (s : St) : Op → String
  | .edit _ _ => "- - -"
  | .del _ => "- - -"
  | .delEmis _ => "- - -"
  | .run n =>
    let p := nextPlan tblD s n
    let st := showList showStep p.steps
    match p.outcome with
    | some g => s!"done {st} {showGen g}"
    | none => s!"fail {st} -"
  | .crash n k =>
    let p := nextPlan tblD s n
    if k < p.steps.length then s!"crash {showList showStep (p.steps.take k)} -"
    else match p.outcome with
      | some g => s!"done {showList showStep p.steps} {showGen g}"
      | none => s!"fail {showList showStep p.steps} -"
  | .tear n k =>
    let p := nextPlan tblD s n
    match p.steps[k]? with
    | some x =>
      let torn := match x with | .rm _ => [] | _ => ["~" ++ showStep x]
      s!"crash {showList id ((p.steps.take k).map showStep ++ torn)} -"
    | none => match p.outcome with
      | some g => s!"done {showList showStep p.steps} {showGen g}"
      | none => s!"fail {showList showStep p.steps} -"

def runHist (b : Nat) (ops : List Op) : String :=
  let (_, recs) := ops.foldl (fun (acc : St × List String) op =>
      let s' := exec tblD acc.1 op
      (s', (describe acc.1 op ++ " " ++ showDisk b s'.disk) :: acc.2)) (St.init, [])
  " | ".intercalate recs.reverse

def showIOp : IOp → String
  | .rm f => s!"rm:{showFileId f}" | .wrHashes => "H" | .wrInfra => "I"
def showPhase : Phase → String
  | .emisLoop => "emisLoop" | .count => "count"

def showTbl (t : Tbl) : String :=
  let pr (l : List (String × Input)) := showList (fun (p : String × Input) => s!"{p.1}={repr p.2}") l
  s!"hashedFresh={pr t.hashedFresh} hashedRegen={pr t.hashedRegen} compared={pr t.compared} " ++
  s!"required={showList showFileId t.required} freshOps={showList showIOp t.freshOps} " ++
  s!"regenOps={showList showIOp t.regenOps} emisRegen={showList showPhase t.emisRegen} " ++
  s!"emisExtend={showList showPhase t.emisExtend} tsExact={showBool t.tsExact} seedRestart={showBool t.seedRestart} hashWholeFile={showBool t.hashWholeFile}"

def step (_ : Unit) (toks : List String) : Unit × String :=
  match toks with
  | ["hist", b, ops] =>
    match nat? b, (ops.splitOn ",").mapM parseOp with
    | some b, some ops => ((), runHist b ops)
    | _, _ => ((), "bad-op")
  | ["table"] => ((), showTbl tblD)
  | _ => ((), "bad-op")

def main : IO Unit := runDriver step ()
