import LdarModel.Model.Propagate
import LdarModel.Generated.Levels
import LdarModel.Driver.Proto
/-
Driver for the virtual-world propagation model (C15).  State = the input files being assembled.
  reset                                   -> ok      (forget everything)
  methods [M1,M2]                         -> ok
  g  <key> <val>                          -> ok      global value of a plain propagating parameter
  gm <method> <param> <val>               -> ok      global value of a method-specific parameter
  flags <hasTypes> <sitesHaveEquip> <typesHaveEquip> <hasSources> <countsFloat>  -> ok
  sample <rows> <n|->                     -> `ok <size>` | `reject` (more rows requested than the file has)
  type <name> <equip> <cells>             -> ok      a row of the site type file
  site <id> <type> <equip> <cells>        -> ok      a row of the sites file
  eq   <name> <cells>                     -> ok      a row of the equipment file (all cells after the first column)
  src  <component> <id> <repairable> <cells> -> ok   a row of the sources file
  build [i0,i1,…]                         -> the world built from the picked rows of the sites file,
                                             or `reject:<reasons>` where the code exits / raises;
                                             per component `<id>{<rep rate>|<non-rep rate>}:<sources>`, the rate
                                             shown when a source of that kind without own rate exists, else `*`
  resolve <global> [l1,l2,…]              -> value in effect after the chain (`resolve`)
  round <num> <den>                       -> Python round (half to even)
  strip <column>                          -> component type of an equipment column
  unprefix <prefix> <key>                 -> `1`/`0` (prefix in key) and the un-prefixed key
val   = -  |  t<int>  |  q<num>_<den>
equip = -  (blank / negative)  |  #<k>  |  #<num>_<den>  |  @<raw>  with `|` standing for `,`
cells = [[key,val],…]
The key tables are `Generated.Levels.tables`.
-/
open LdarModel LdarModel.Propagate LdarModel.Proto

structure DrvState where
  methods : List String := []
  g : Dict String := []
  gm : Dict MKey := []
  files : Files := { hasTypes := false, types := [], sitesHaveEquip := false, typesHaveEquip := false,
                     sites := [], equipment := [], countsFloat := false, sources := none }
  srcRows : List SrcRow := []

def parseVal (s : String) : Option PV :=
  if s = "-" then some .nul
  else match s.toList with
    | 't' :: rest => (String.ofList rest).toInt?.map PV.tok
    | 'q' :: rest =>
      match (String.ofList rest).splitOn "_" with
      | [n, d] => do
        let n ← n.toInt?
        let d ← d.toNat?
        if d = 0 then none else some (.num ((n : Rat) / (d : Rat)))
      | _ => none
    | _ => none

def parseCell (s : String) : Option (String × PV) := do
  match ← splitTop s with
  | [k, v] => (parseVal v).map (fun v => (k, v))
  | _ => none

def parseCells (s : String) : Option Row := listOf? parseCell s

def parseEquip (s : String) : Option EquipSpec :=
  if s = "-" then some .bad
  else match s.toList with
    | '#' :: rest =>
      match (String.ofList rest).splitOn "_" with
      | [n] => n.toNat?.map (fun n => EquipSpec.count (n : Rat))
      | [n, d] => do
        let n ← n.toNat?
        let d ← d.toNat?
        if d = 0 then none else some (EquipSpec.count ((n : Rat) / (d : Rat)))
      | _ => none
    | '@' :: rest => some (.named (String.ofList (rest.map (fun c => if c = '|' then ',' else c))))
    | _ => none

def strList? (s : String) : Option (List String) := splitTop s

def showPV : PV → String
  | .nul => "-"
  | .tok i => s!"t{i}"
  | .num q => s!"q{q.num}_{q.den}"

def showPVs (l : List PV) : String := ";".intercalate (l.map showPV)

def showSource (s : SourceEff) : String :=
  s!"{s.sid}={showBool s.rep}/{showPV s.ers}/{showPV s.epr}/{showPV s.dur}/{showPV s.multi}/{showPV s.rd}/{showPV s.rc}/{showPVs s.spatial}/{showPVs s.temporal}"

/-- the rate a component hands to its sources is observable through a source of that kind whose own
row gives no rate (`*` when the component has none) -/
def showCompRate (c : CompEff) (rep : Bool) : String :=
  if c.sources.any (fun s => s.rep == rep && !s.ownRate) then showPV (if rep then c.repRate else c.nonRate)
  else "*"

def showComp (c : CompEff) : String :=
  c.cid ++ "{" ++ showCompRate c true ++ "|" ++ showCompRate c false ++ "}:"
    ++ ",".intercalate (c.sources.map showSource)

def showGroup (g : GroupEff) : String :=
  g.gid ++ "~" ++ showPVs g.times ++ "~" ++ showPVs g.costs ++ "~" ++ "&".intercalate (g.comps.map showComp)

def showSite (s : SiteEff) : String :=
  s.sid ++ "~" ++ s.stype ++ "~" ++ showPVs s.freq ++ "~" ++ showPVs s.months ++ "~" ++ showPVs s.years
    ++ "~" ++ showPVs s.deploy ++ "~" ++ ";".intercalate (s.time.map showOptInt) ++ "~" ++ showPVs s.cost
    ++ "~" ++ "+".intercalate (s.groups.map showGroup)

def showWorld (w : List SiteEff) : String := "#".intercalate (w.map showSite)

def finalFiles (st : DrvState) (hasSources : Bool) : Files :=
  { st.files with sources := if hasSources then some st.srcRows else none }

def step (st : DrvState) (toks : List String) : DrvState × String :=
  let tb := Generated.Levels.tables
  match toks with
  | ["reset"] => ({}, "ok")
  | ["methods", ms] =>
    match strList? ms with
    | some ms => ({ st with methods := ms }, "ok")
    | none => (st, "bad-op")
  | ["g", k, v] =>
    match parseVal v with
    | some v => ({ st with g := st.g.set k v }, "ok")
    | none => (st, "bad-op")
  | ["gm", me, p, v] =>
    match parseVal v with
    | some v => ({ st with gm := st.gm.set (me, p) v }, "ok")
    | none => (st, "bad-op")
  | ["flags", a, b, c, d, e] =>
    match bool? a, bool? b, bool? c, bool? d, bool? e with
    | some a, some b, some c, some d, some e =>
      ({ st with files := { st.files with hasTypes := a, sitesHaveEquip := b, typesHaveEquip := c,
                                          sources := if d then some [] else none, countsFloat := e } }, "ok")
    | _, _, _, _, _ => (st, "bad-op")
  | ["sample", rows, n] =>
    match nat? rows, (if n = "-" then some none else (nat? n).map some) with
    | some rows, some n =>
      match sampleSize rows n with
      | some k => (st, s!"ok {k}")
      | none => (st, "reject")
    | _, _ => (st, "bad-op")
  | ["type", name, eq, cells] =>
    match parseEquip eq, parseCells cells with
    | some eq, some cells =>
      ({ st with files := { st.files with types := st.files.types ++ [{ name := name, equip := eq, cells := cells }] } }, "ok")
    | _, _ => (st, "bad-op")
  | ["site", sid, ty, eq, cells] =>
    match parseEquip eq, parseCells cells with
    | some eq, some cells =>
      ({ st with files := { st.files with sites := st.files.sites ++ [{ sid := sid, stype := ty, equip := eq, cells := cells }] } }, "ok")
    | _, _ => (st, "bad-op")
  | ["eq", name, cells] =>
    match parseCells cells with
    | some cells =>
      ({ st with files := { st.files with equipment := st.files.equipment ++ [{ name := name, cells := cells }] } }, "ok")
    | none => (st, "bad-op")
  | ["src", comp, sid, rep, cells] =>
    match bool? rep, parseCells cells with
    | some rep, some cells =>
      ({ st with srcRows := st.srcRows ++ [{ comp := comp, sid := sid, rep := rep, cells := cells }] }, "ok")
    | _, _ => (st, "bad-op")
  | ["build", picks] =>
    match natList? picks with
    | some picks =>
      let files := finalFiles st st.files.sources.isSome
      let rej := worldRejects tb st.methods st.g st.gm files picks
      if rej.isEmpty then (st, showWorld (buildWorld tb st.methods st.g st.gm files picks))
      else (st, "reject:" ++ ",".intercalate rej)
    | none => (st, "bad-op")
  | ["resolve", g, ls] =>
    match parseVal g, listOf? parseVal ls with
    | some g, some ls =>
      (st, showPV (resolve (ls.map (fun v => if v = .nul then none else some v)) g))
    | _, _ => (st, "bad-op")
  | ["round", n, d] =>
    match int? n, nat? d with
    | some n, some d => if d = 0 then (st, "bad-op") else (st, toString (roundHalfEven ((n : Rat) / (d : Rat))))
    | _, _ => (st, "bad-op")
  | ["strip", col] => (st, compType col)
  | ["unprefix", pre, key] => (st, showBool (hasInfix pre key) ++ " " ++ removeAll pre key)
  | _ => (st, "bad-op")

def main : IO Unit := runDriver step {}
