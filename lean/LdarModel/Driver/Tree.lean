import LdarModel.Model.Tree
import LdarModel.Driver.Json
/-
Driver for the parameter-tree model (exe drv_tree).  One request per line: `<op> <one JSON value>`.
  defs   {file name: tree}            -> ok           (kept for the following `intake` lines)
  merge  [default, user]              -> tree | reject:<kind>      retainUpdate
  check  [[omit keys], default, test] -> ok   | reject:<kind>      checkTypes
  strip  tree                         -> tree                      removePlaceholders
  names  simulation parameters        -> ok   | reject:<kind>      validateNames
  intake [file, file, ...]            -> tree | reject:<kind>      intake (with the stored defs)
  get    [[path], tree]               -> tree | -                  get?
  hyp    [default, user1, user2]      -> 1 | 0    hypotheses of merge_comm_decidable: all three
                                                  well-formed, both users accepted by checkTypes [],
                                                  agreeB user1 user2
Anything else (or a malformed payload) answers `bad-op`.
-/
open LdarModel.Tree LdarModel.Json

def strList? : JL → Option (List String)
  | .nil => some []
  | .cons (.str s) t => (strList? t).map (s :: ·)
  | .cons _ _ => none

def kvList? : JL → Option (List KV)
  | .nil => some []
  | .cons (.obj k) t => (kvList? t).map (k :: ·)
  | .cons _ _ => none

def step (defs : KV) (op payload : String) : KV × String :=
  match LdarModel.Json.parse payload with
  | none => (defs, "bad-op")
  | some j =>
    match op, j with
    | "defs", .obj d => (d, "ok")
    | "merge", .list (.cons d (.cons u .nil)) => (defs, showRes (retainUpdate d u))
    | "check", .list (.cons (.list om) (.cons d (.cons t .nil))) =>
      match strList? om with
      | some om => (defs, showUnit (checkTypes om d t))
      | none => (defs, "bad-op")
    | "strip", t => (defs, render (removePlaceholders t))
    | "names", .obj sim => (defs, showUnit (validateNames sim))
    | "intake", .list fs =>
      match kvList? fs with
      | some fs => (defs, showRes (intake defs fs))
      | none => (defs, "bad-op")
    | "hyp", .list (.cons d (.cons (.obj u1) (.cons (.obj u2) .nil))) =>
      let ok := d.wf && u1.wf && u2.wf &&
        (match checkTypes [] d (.obj u1), checkTypes [] d (.obj u2) with
          | .ok _, .ok _ => true
          | _, _ => false) && agreeB u1 u2
      (defs, if ok then "1" else "0")
    | "get", .list (.cons (.list p) (.cons t .nil)) =>
      match strList? p with
      | some p => (defs, match get? p t with | some v => render v | none => "-")
      | none => (defs, "bad-op")
    | _, _ => (defs, "bad-op")

def main : IO Unit := runJsonDriver step KV.nil
