import LdarModel.Model.Planner
import LdarModel.Driver.Proto
/-
Driver for the schedule model (queue + planners + scheduled day), serving C06 and C07.

  new <kind r|s|f> <crews> <cap> <sy> <sm> <sd> <ey> <em> <ed> [[site,freq|-1,deploy,S,[months],[years],[[m,d],..]],..]
      -> ok [[site,rs,[depYears],[simYears]],..]
  day <y> <m> <d> [[site,code,minutes],..]        code 0 completed, 1 progressed, 2 untouched
      -> c=<crashed> i=[issued] p=[plan] t=[[site,minutesToday],..] q=[[cls,rate,site],..] s=[[site,queued,[[y,done],..],rep],..]
         rep = - | [inProgress,surveyed];  for follow-up schedules `done` is [[0,completions]]
  add <cls> <site> <rate>                         -> q=[..]
  redetect <site> <rate> <cls>                    -> c=<crashed> q=[..]
  gen-years <sy> <sm> <sd> <ey> <em> <ed>         -> [simulation years]
-/
open LdarModel LdarModel.Sched LdarModel.Proto

structure DState where
  cfg : Option Cfg := none
  st : State := {}

def showNatList (l : List Nat) : String := showList toString l

def showRep : Option Report → String
  | none => "-"
  | some r => s!"[{showBool r.inProgress},{r.surveyed}]"

def showQueue (q : Queue) : String :=
  showList (fun (e : Entry) => s!"[{e.cls},{e.rate},{e.site}]") q.entries

def showPlanner (c : Cfg) (s : State) (i : Nat) : String :=
  let p := c.P i
  let ps := s.pl i
  let dn := match c.kind with
    | .followup => s!"[[0,{ps.log.length}]]"
    | _ => showList (fun (y : Nat) => s!"[{y},{done ps y}]") p.simYears
  s!"[{i},{showBool ps.queued},{dn},{showRep ps.rep}]"

def showState (c : Cfg) (s : State) : String :=
  s!"q={showQueue s.q} s={showList (showPlanner c s) c.sites}"

def parsePair (s : String) : Option (Nat × Nat) := do
  match ← natList? s with
  | [a, b] => some (a, b)
  | _ => none

structure SiteCfg where
  site : Nat
  freq : Option Nat
  deploy : Bool
  surveyTime : Int
  months : List Nat
  years : List Nat
  plan : List (Nat × Nat)

def parseSite (s : String) : Option SiteCfg := do
  match ← splitTop s with
  | [a, f, dp, st, ms, ys, pl] =>
    let site ← nat? a
    let fi ← int? f
    let deploy ← bool? dp
    let st ← int? st
    let ms ← natList? ms
    let ys ← natList? ys
    let pl ← listOf? parsePair pl
    some { site := site, freq := if fi < 0 then none else some fi.toNat, deploy := deploy,
           surveyTime := st, months := ms, years := ys, plan := pl }
  | _ => none

def parseOutcome (s : String) : Option (Nat × Outcome) := do
  match ← intList? s with
  | [a, code, m] =>
    if a < 0 then none
    else if code = 0 then some (a.toNat, .completed)
    else if code = 1 then some (a.toNat, .progressed m)
    else if code = 2 then some (a.toNat, .untouched)
    else none
  | _ => none

def lookupOutcome (l : List (Nat × Outcome)) (i : Nat) : Outcome :=
  match l.find? (fun x => x.1 = i) with
  | some x => x.2
  | none => .untouched

def parseKind : String → Option Kind
  | "r" => some .routine
  | "s" => some .stationary
  | "f" => some .followup
  | _ => none

def step (ds : DState) (toks : List String) : DState × String :=
  match toks with
  | ["new", k, crews, cap, sy, sm, sd, ey, em, ed, sites] =>
    match parseKind k, nat? crews, int? cap, nat? sy, nat? sm, nat? sd, nat? ey, nat? em, nat? ed,
          listOf? parseSite sites with
    | some k, some crews, some cap, some sy, some sm, some sd, some ey, some em, some ed, some sites =>
      let s : Date := { y := sy, m := sm, d := sd }
      let e : Date := { y := ey, m := em, d := ed }
      let ps : List (Nat × PlannerP) := sites.map (fun sc =>
        (sc.site, mkPlannerP (k == .stationary) sc.freq sc.deploy sc.months sc.years sc.plan sc.surveyTime s e))
      let P : Nat → PlannerP := fun i =>
        match ps.find? (fun x => x.1 = i) with
        | some x => x.2
        | none => {}
      let c : Cfg := { kind := k, crews := crews, cap := cap.toNat, sites := sites.map (·.site), P := P }
      let echo := showList (fun (x : Nat × PlannerP) =>
        s!"[{x.1},{x.2.rs},{showNatList x.2.depYears},{showNatList x.2.simYears}]") ps
      ({ cfg := some c, st := init }, "ok " ++ echo)
    | _, _, _, _, _, _, _, _, _, _ => (ds, "bad-op")
  | ["day", y, m, d, outs] =>
    match ds.cfg, nat? y, nat? m, nat? d, listOf? parseOutcome outs with
    | some c, some y, some m, some d, some outs =>
      let din : DayIn := { date := { y := y, m := m, d := d }, out := lookupOutcome outs }
      let tr := dayTrace c din ds.st
      if (requestPhase c din.date ds.st).crashed then
        -- KeyError in the request phase: the simulation dies before any outcome exists
        ({ ds with st := scheduleDay c din ds.st }, "c=1 request-phase")
      else if tr.keys.any (fun i => !(outs.any (fun x => x.1 = i))) then
        (ds, s!"missing-outcome p={showNatList tr.keys}")
      else
        let s1 := requestPhase c din.date ds.st
        let s' := scheduleDay c din ds.st
        let today := showList (fun (i : Nat) =>
          s!"[{i},{minutesToday (c.P i) (din.out i) (s1.pl i)}]") tr.keys
        ({ ds with st := s' },
          s!"c={showBool s'.crashed} i={showNatList tr.issued} p={showNatList tr.keys} t={today} {showState c s'}")
    | _, _, _, _, _ => (ds, "bad-op")
  | ["add", cls, site, rate] =>
    match ds.cfg, nat? cls, nat? site, int? rate with
    | some _, some cls, some site, some rate =>
      let s' := fuAdd cls site rate ds.st
      ({ ds with st := s' }, s!"q={showQueue s'.q}")
    | _, _, _, _ => (ds, "bad-op")
  | ["redetect", site, rate, cls] =>
    match ds.cfg, nat? site, int? rate, nat? cls with
    | some _, some site, some rate, some cls =>
      let s' := fuRedetect site rate cls ds.st
      ({ ds with st := s' }, s!"c={showBool s'.crashed} q={showQueue s'.q}")
    | _, _, _, _ => (ds, "bad-op")
  | ["gen-years", sy, sm, sd, ey, em, ed] =>
    match nat? sy, nat? sm, nat? sd, nat? ey, nat? em, nat? ed with
    | some sy, some sm, some sd, some ey, some em, some ed =>
      (ds, showNatList (simYearsOf { y := sy, m := sm, d := sd } { y := ey, m := em, d := ed }))
    | _, _, _, _, _, _ => (ds, "bad-op")
  | _ => (ds, "bad-op")

def main : IO Unit := runDriver step {}
