/-
Line protocol helpers shared by every component driver.  Core Lean only.
One request per line, one reply per line; tokens are separated by single spaces;
integers in decimal, booleans 0/1, absent "-", lists "[a,b,c]" (no spaces), nested "[[a,b],[c]]".
-/
namespace LdarModel.Proto

def tokens (line : String) : List String :=
  (line.trimAscii.toString.splitOn " ").filter (· ≠ "")

def int? (s : String) : Option Int := s.toInt?
def nat? (s : String) : Option Nat := s.toNat?
def bool? (s : String) : Option Bool :=
  if s = "1" then some true else if s = "0" then some false else none

def optInt? (s : String) : Option (Option Int) :=
  if s = "-" then some none else (s.toInt?).map some

def showBool (b : Bool) : String := if b then "1" else "0"
def showOptInt : Option Int → String
  | none => "-"
  | some i => toString i

/-- split a bracketed list at top-level commas: "[a,[b,c],d]" ↦ ["a","[b,c]","d"] -/
def splitTop (s : String) : Option (List String) :=
  let cs := s.toList
  match cs with
  | '[' :: rest =>
    let rec go (cs : List Char) (depth : Nat) (cur : List Char) (acc : List String) : Option (List String) :=
      match cs with
      | [] => none
      | c :: cs' =>
        if c = ']' ∧ depth = 0 then
          if cs' ≠ [] then none
          else
            let item := String.ofList cur.reverse
            some (if item = "" ∧ acc = [] then [] else (item :: acc).reverse)
        else if c = ']' then go cs' (depth - 1) (c :: cur) acc
        else if c = '[' then go cs' (depth + 1) (c :: cur) acc
        else if c = ',' ∧ depth = 0 then go cs' depth [] (String.ofList cur.reverse :: acc)
        else go cs' depth (c :: cur) acc
    go rest 0 [] []
  | _ => none

def listOf? {α} (f : String → Option α) (s : String) : Option (List α) := do
  let items ← splitTop s
  items.mapM f

def intList? : String → Option (List Int) := listOf? int?
def natList? : String → Option (List Nat) := listOf? nat?
def boolList? : String → Option (List Bool) := listOf? bool?

def showList {α} (f : α → String) (l : List α) : String :=
  "[" ++ ",".intercalate (l.map f) ++ "]"

/-- generic read-eval-print loop over a state -/
partial def loop {σ} (h : IO.FS.Stream) (out : IO.FS.Stream) (step : σ → List String → σ × String) (s : σ) : IO Unit := do
  let line ← h.getLine
  if line.isEmpty then
    out.flush
    return ()
  let (s', r) := step s (tokens line)
  out.putStrLn r
  loop h out step s'

def runDriver {σ} (step : σ → List String → σ × String) (init : σ) : IO Unit := do
  let i ← IO.getStdin
  let o ← IO.getStdout
  loop i o step init

end LdarModel.Proto
