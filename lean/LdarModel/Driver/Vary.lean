import LdarModel.Model.Holder
import LdarModel.Driver.Json
/-
Driver for the holder / sensitivity-variator model (exe drv_vary).  `<op> <one JSON value>` per line.
  upd    [current, new]                       -> dict                 updNested
  alter  [mapping, dict, key, value]          -> dict | reject:kind   alterD   (mapping: null = generic
                                                                      holder, object = high-level holder)
  unpack [level, n, variations]               -> dict | reject:kind   processVariations
  vary   {maps, sim, programs, vw, out, baseline, sens, level, n, vars}
                                              -> [ {sim, programs, vw, out}, ... ] | reject:kind
  hyp    [mapping, dict, n, vars]             -> 1 | 0   `vars.wf` and `varsOK` for every set i < n
                                                         (hypotheses of vw_frame / vw_varied / vw_described)
  hypp   [mapping, program, n, vars, name]    -> 1 | 0   the same on the renamed copy of a program
                                                         (hypotheses of program_copy: flatD for the
                                                         renaming, `vars.wf`, `varsOK` on the copy)
-/
open LdarModel.Tree LdarModel.Json LdarModel.Holder

mutual
partial def smOf : J → Option SM
  | .null => some .gen
  | .obj kvs => (smlOf kvs).map .high
  | _ => none
partial def smlOf : KV → Option SML
  | .nil => some .nil
  | .cons k v t => do
    let m ← smOf v
    let r ← smlOf t
    pure (.cons k m r)
end

def smlOfJ : J → Option SML
  | .obj kvs => smlOf kvs
  | _ => none

def objOf : Option J → Option KV
  | some (.obj k) => some k
  | _ => none

def natOf : Option J → Option Nat
  | some (.int i) => if i < 0 then none else some i.toNat
  | _ => none

def strOf : Option J → Option String
  | some (.str s) => some s
  | _ => none

def setOut (p : PH) : J :=
  .obj (.cons "sim" (.obj p.sim) (.cons "programs" (.obj p.programs)
    (.cons "vw" (.obj p.vw) (.cons "out" (.obj p.out) .nil))))

def runVary (req : KV) : Option String := do
  let mj ← objOf (req.lookup "maps")
  let maps : Maps := {
    vw := ← smlOfJ (← mj.lookup "vw"), out := ← smlOfJ (← mj.lookup "out"),
    method := ← smlOfJ (← mj.lookup "method"), prog := ← smlOfJ (← mj.lookup "prog") }
  let sim ← objOf (req.lookup "sim")
  let programs ← objOf (req.lookup "programs")
  let vw ← objOf (req.lookup "vw")
  let out ← objOf (req.lookup "out")
  let baseline ← strOf (req.lookup "baseline")
  let sens : Option String ← match req.lookup "sens" with
    | some (.str s) => some (some s)
    | some .null => some none
    | _ => none
  let level ← strOf (req.lookup "level")
  let n ← natOf (req.lookup "n")
  let vars ← objOf (req.lookup "vars")
  let base := mkPH maps sim programs vw out baseline
  match vary maps base sens level n vars with
  | .ok sets => pure (render (.list (JL.ofList (sets.map setOut))))
  | .error e => pure ("reject:" ++ e.name)

def step (_ : Unit) (op payload : String) : Unit × String :=
  match LdarModel.Json.parse payload with
  | none => ((), "bad-op")
  | some j =>
    match op, j with
    | "upd", .list (.cons (.obj c) (.cons (.obj u) .nil)) => ((), render (.obj (updNested c u)))
    | "alter", .list (.cons m (.cons (.obj d) (.cons (.str k) (.cons v .nil)))) =>
      match smOf m with
      | some sm => ((), match alterD sm d k v with
          | .ok r => render (.obj r)
          | .error e => "reject:" ++ e.name)
      | none => ((), "bad-op")
    | "unpack", .list (.cons (.str level) (.cons (.int n) (.cons pv .nil))) =>
      if n < 0 then ((), "bad-op")
      else ((), match processVariations level n.toNat pv with
        | .ok r => render (.obj r)
        | .error e => "reject:" ++ e.name)
    | "hyp", .list (.cons m (.cons (.obj d) (.cons (.int n) (.cons (.obj vars) .nil)))) =>
      match smOf m with
      | some sm =>
        let ok := vars.wf && (List.range n.toNat).all (fun i => varsOK sm n.toNat i d vars)
        ((), if ok then "1" else "0")
      | none => ((), "bad-op")
    | "hypp", .list (.cons m (.cons (.obj d) (.cons (.int n) (.cons (.obj vars) (.cons (.str name) .nil))))) =>
      match smOf m with
      | some sm =>
        let ok := vars.wf && (List.range n.toNat).all (fun i =>
          flatD sm d "program_name" (.str (rename name i)) &&
          (match alterD sm d "program_name" (.str (rename name i)) with
            | .ok d1 => varsOK sm n.toNat i d1 vars
            | .error _ => false))
        ((), if ok then "1" else "0")
      | none => ((), "bad-op")
    | "vary", .obj req =>
      match runVary req with
      | some r => ((), r)
      | none => ((), "bad-op")
    | _, _ => ((), "bad-op")

def main : IO Unit := runJsonDriver step ()
