import LdarModel.Model.Summary
import LdarModel.Driver.Proto
/-
Driver for the summary aggregation model (state: program folders + the two summary tables).

  reset <years> <kNum> <kDen>        years = [2023,2024]; k = KG_TO_MMBTU as an exact fraction   -> ok
  mkdir <dir>                                                                                   -> ok
  put <dir> <name> <kind> <rows>     kind ts   rows [[emis,mit,nonmit,cost],...]
                                     kind emis rows [[mitigated,trueVol,estVol,rep01,rate,began,ended,theory],...]
                                     kind est  rows [[site,type,meas01,vol,start,end],...]
                                     kind rep  rows [[vol,start,end],...]
                                     kind other rows []        dates are [y,m,d] or -            -> ok | no-dir
  gen <clear01> <visit>              visit = [[dir,[names of the TS scan],[EMIS scan],[EST scan],[REP scan],
                                     [mark/clear scan]],...] in visiting order; every listing must be
                                     a permutation of the model's folder
                                     (visit = auto: every scan in stored order)
                                     crash:empty-file = the real code raises on a selected file without rows
                                     -> ok | bad-visit | bad-listing:<dir> | crash:name-regex | crash:empty-file
  table ts|emis                      -> prog:sim|v|v|...;prog:sim|...      v = num/den | p<q>:[column]
  dirs                               -> dir=name,name,...;dir=...
  cost <nonbase> <econ>              nonbase = [prog,...]; econ = [[prog,gwpNum,gwpDen,gasNum,gasDen],...]
                                     -> prog:sim|mitigation|total|ratio or div0|value;...
  batches <n>                        -> [5,5,2] [[0,1,2,3,4],[5,...],...]
  parse <name>                       -> <program> <simulation> <ts01><emis01><est01><rep01><kept01> | none ...
  ord <y> <m> <d>                    -> days since 1970-01-01
  resetp <start> <end> <kNum> <kDen> / setrunp ...   like reset / setrun, the years computed by the model
                                     (`yearsOf`) from the period [y,m,d] [y,m,d]                      -> ok
  years <start> <end>                -> [years of the period] [the planner's whole-year list]
  setrun <years> <kNum> <kDen>       next run of a history: new years / k, the folder state is kept   -> ok
  initout                            `initialize_outputs`: the folder state is cleared (clearFolder)  -> ok
  wsim <prog> <sim> <tsRows> <emisRows> <estRows|-> <repRows|->   what (prog, sim) writes          -> ok
  runall <progs> <n> <keep01> <sched>  replaces the state by `runInFolder` from the current folder state (= `runAll`, the function the theorems are
                                     about) on the world given by the wsim lines; sched 0 = every scan
                                     in stored order, 1 = some scans reversed      -> ok | crash:empty-file
-/
open LdarModel LdarModel.Summary LdarModel.Proto

structure DSt where
  years : List Nat := []
  k : Rat := 0
  st : St Content := { dirs := [], ts := [], emis := [] }
  world : List ((Name × Nat) × SimOut Content) := []

def drvSched (mode : Nat) : Sched Content :=
  if mode = 0 then
    { dirs := fun _ l => l, ts := fun _ _ l => l, emis := fun _ _ l => l, est := fun _ _ l => l,
      rep := fun _ _ l => l }
  else
    { dirs := fun _ l => l.reverse, ts := fun _ _ l => l, emis := fun _ _ l => l.reverse,
      est := fun b _ l => if b % 2 = 0 then l.reverse else l, rep := fun _ _ l => l }

def str (n : Name) : String := String.ofList n

def showRat (r : Rat) : String := s!"{r.num}/{r.den}"

def showVal : Val → String
  | .q r => showRat r
  | .pct p col => s!"p{p}:{showList toString col}"
  | .nan => "nan"

def showKey (k : Key) : String := s!"{str k.1}:{str k.2}"

def showTable (t : Table (List Val)) : String :=
  ";".intercalate (t.map fun x => "|".intercalate (showKey x.1 :: x.2.map showVal))

def date? (s : String) : Option (Option Date) :=
  if s = "-" then some none
  else match natList? s with
    | some [y, m, d] => some (some { y := y, m := m, d := d })
    | _ => none

def emisRow? (s : String) : Option EmisRow := do
  match ← splitTop s with
  | [a, b, c, r, t, d1, d2, d3] =>
    some { mitigated := ← int? a, trueVol := ← int? b, estVol := ← int? c, repairable := ← bool? r,
           trueRate := ← int? t, began := ← date? d1, ended := ← date? d2, theory := ← date? d3 }
  | _ => none

def estRow? (s : String) : Option EstRow := do
  match ← splitTop s with
  | [a, b, c, v, d1, d2] =>
    some { site := ← nat? a, stype := ← nat? b, measured := ← bool? c, vol := ← int? v,
           start := ← date? d1, stop := ← date? d2 }
  | _ => none

def repRow? (s : String) : Option RepRow := do
  match ← splitTop s with
  | [v, d1, d2] => some { vol := ← int? v, start := ← date? d1, stop := ← date? d2 }
  | _ => none

def tsRow? (s : String) : Option (Int × Int × Int × Int) := do
  match ← intList? s with
  | [a, b, c, d] => some (a, b, c, d)
  | _ => none

def content? (kind rows : String) : Option Content :=
  match kind with
  | "ts" => (listOf? tsRow? rows).map Content.ts
  | "emis" => (listOf? emisRow? rows).map Content.emis
  | "est" => (listOf? estRow? rows).map Content.est
  | "rep" => (listOf? repRow? rows).map Content.rep
  | "other" => some Content.other
  | _ => none

def optContent? (kind rows : String) : Option (Option Content) :=
  if rows = "-" then some none else (content? kind rows).map some

/-- the files of the folder in the order of the received listing; `none` unless the listing is a
permutation of the folder -/
def resolve (d : List (File Content)) (names : List Name) : Option (List (File Content)) :=
  if names.length != d.length then none
  else if !(d.all fun f => names.contains f.name) then none
  else names.mapM fun n => d.find? fun f => f.name == n

def visit? (st : St Content) (s : String) : Option (Except String (List (Name × Listings Content))) := do
  let items ← splitTop s
  let parsed ← items.mapM fun it => do
    match ← splitTop it with
    | [d, a, b, c, e, m] =>
      some (d.toList, ← listOf? (fun x => some x.toList) a, ← listOf? (fun x => some x.toList) b,
            ← listOf? (fun x => some x.toList) c, ← listOf? (fun x => some x.toList) e,
            ← listOf? (fun x => some x.toList) m)
    | _ => none
  let pd := progDirs st
  let vnames := parsed.map (·.1)
  if vnames.length != pd.length || !(pd.all fun x => vnames.contains x.1) then
    return .error "bad-visit"
  let res := parsed.mapM (m := Except String) fun (d, a, b, c, e, m) =>
    match pd.lookup d with
    | none => .error "bad-visit"
    | some files =>
      match resolve files a, resolve files b, resolve files c, resolve files e, resolve files m with
      | some la, some lb, some lc, some le, some _ =>
        .ok (d, ({ ts := la, emis := lb, est := lc, rep := le } : Listings Content))
      | _, _, _, _, _ => .error s!"bad-listing:{str d}"
  return res

def showCost (t : Table CostRow) : String :=
  ";".intercalate (t.map fun x =>
    "|".intercalate [showKey x.1, showRat x.2.mitigation, showRat x.2.totalCost,
                     (match x.2.ratio with | some r => showRat r | none => "div0"), showRat x.2.value])

def econ? (s : String) : Option (Name × Rat × Rat) := do
  match ← splitTop s with
  | [p, a, b, c, d] =>
    some (p.toList, ((← int? a : Int) : Rat) / ((← nat? b : Nat) : Rat),
          ((← int? c : Int) : Rat) / ((← nat? d : Nat) : Rat))
  | _ => none

def b01 (b : Bool) : String := if b then "1" else "0"

def step (s : DSt) (toks : List String) : DSt × String :=
  match toks with
  | ["reset", ys, kn, kd] =>
    match natList? ys, int? kn, nat? kd with
    | some ys, some kn, some kd => ({ years := ys, k := (kn : Rat) / (kd : Rat) }, "ok")
    | _, _, _ => (s, "bad-op")
  | ["resetp", d1, d2, kn, kd] =>
    match date? d1, date? d2, int? kn, nat? kd with
    | some (some a), some (some b), some kn, some kd => ({ years := yearsOf a b, k := (kn : Rat) / (kd : Rat) }, "ok")
    | _, _, _, _ => (s, "bad-op")
  | ["setrunp", d1, d2, kn, kd] =>
    match date? d1, date? d2, int? kn, nat? kd with
    | some (some a), some (some b), some kn, some kd =>
      ({ s with years := yearsOf a b, k := (kn : Rat) / (kd : Rat), world := [] }, "ok")
    | _, _, _, _ => (s, "bad-op")
  | ["years", d1, d2] =>
    match date? d1, date? d2 with
    | some (some a), some (some b) => (s, showList toString (yearsOf a b) ++ " " ++ showList toString (plannerYears a b))
    | _, _ => (s, "bad-op")
  | ["setrun", ys, kn, kd] =>
    match natList? ys, int? kn, nat? kd with
    | some ys, some kn, some kd => ({ s with years := ys, k := (kn : Rat) / (kd : Rat), world := [] }, "ok")
    | _, _, _ => (s, "bad-op")
  | ["initout"] => ({ s with st := clearFolder s.st }, "ok")
  | ["wsim", p, sim, t, e, x, r] =>
    match nat? sim, content? "ts" t, content? "emis" e, optContent? "est" x, optContent? "rep" r with
    | some sim, some t, some e, some x, some r =>
      ({ s with world := ((p.toList, sim), { ts := t, emis := e, est := x, rep := r }) :: s.world }, "ok")
    | _, _, _, _, _ => (s, "bad-op")
  | ["runall", ps, n, keep, mode] =>
    match listOf? (fun x => some x.toList) ps, nat? n, bool? keep, nat? mode with
    | some ps, some n, some keep, some mode =>
      let W : Name → Nat → SimOut Content := fun p i =>
        (s.world.lookup (p, i)).getD { ts := .ts [], emis := .emis [], est := none, rep := none }
      match runInFolderChecked (concreteStats s.years) W ps keep (drvSched mode) n s.st with
      | some st => ({ s with st := st }, "ok")
      | none => (s, "crash:empty-file")
    | _, _, _, _ => (s, "bad-op")
  | ["mkdir", d] => ({ s with st := { s.st with dirs := s.st.dirs ++ [(d.toList, [])] } }, "ok")
  | ["put", d, name, kind, rows] =>
    match content? kind rows with
    | none => (s, "bad-op")
    | some c =>
      if (s.st.dirs.lookup d.toList).isNone then (s, "no-dir")
      else
        let f : File Content := { name := name.toList, content := c }
        ({ s with st := { s.st with dirs := s.st.dirs.map fun pd =>
            if pd.1 == d.toList then (pd.1, pd.2 ++ [f]) else pd } }, "ok")
  | ["gen", cl, v] =>
    match bool? cl, (if v = "auto" then
        some (.ok ((progDirs s.st).map fun pd =>
          (pd.1, ({ ts := pd.2, emis := pd.2, est := pd.2, rep := pd.2 } : Listings Content))))
      else visit? s.st v) with
    | some cl, some (.ok visit) =>
      let S := concreteStats s.years
      let wn := visit.all fun x =>
        wellNamed tsSuffix x.2.ts && wellNamed emisSuffix x.2.emis && wellNamed estSuffix x.2.est
          && wellNamed repSuffix x.2.rep
      if !wn then (s, "crash:name-regex")
      else if rejectsVisit S visit then (s, "crash:empty-file")
      else ({ s with st := genAll S cl visit s.st }, "ok")
    | some _, some (.error e) => (s, e)
    | _, _ => (s, "bad-op")
  | ["table", "ts"] => (s, showTable s.st.ts)
  | ["table", "emis"] => (s, showTable s.st.emis)
  | ["dirs"] =>
    (s, ";".intercalate (s.st.dirs.map fun pd => str pd.1 ++ "=" ++ ",".intercalate (pd.2.map fun f => str f.name)))
  | ["cost", nb, ec] =>
    match listOf? (fun x => some x.toList) nb, listOf? econ? ec with
    | some nb, some ec =>
      let econ : Name → Rat × Rat := fun p => (ec.lookup p).getD (0, 0)
      (s, showCost (costSummary nb econ s.k s.st.emis s.st.ts))
    | _, _ => (s, "bad-op")
  | ["batches", n] =>
    match nat? n with
    | some n =>
      let bs := batchSimulations n
      let sims := bs.zipIdx.map fun x => batchSims x.2 x.1
      (s, showList toString bs ++ " " ++ showList (showList toString) sims)
    | none => (s, "bad-op")
  | ["parse", name] =>
    let n := name.toList
    let flags := b01 (hasSuffix tsSuffix n) ++ b01 (hasSuffix emisSuffix n) ++ b01 (hasSuffix estSuffix n)
      ++ b01 (hasSuffix repSuffix n) ++ b01 (isKept n)
    match parseName n with
    | some k => (s, s!"{str k.1} {str k.2} {flags}")
    | none => (s, s!"none {flags}")
  | ["ord", y, m, d] =>
    match nat? y, nat? m, nat? d with
    | some y, some m, some d => (s, toString ({ y := y, m := m, d := d } : Date).ord)
    | _, _, _ => (s, "bad-op")
  | _ => (s, "bad-op")

def main : IO Unit := runDriver step {}
