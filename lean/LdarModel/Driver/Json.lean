import LdarModel.Model.Tree
/-
A small JSON reader / printer for the tree drivers (core Lean only).
One JSON value per protocol line.  Numbers without `.`/`e`/`E` are integers, all others are exact
decimals `m · 10^e` with the mantissa stripped of trailing zeros, printed back as `<m>e<e>` (which
Python's json reads as the same double it printed).  Object key order is preserved.
-/
namespace LdarModel.Json
open LdarModel.Tree

def isWs (c : Char) : Bool := c == ' ' || c == '\t' || c == '\n' || c == '\r'

partial def skipWs (a : Array Char) (i : Nat) : Nat :=
  if i < a.size && isWs a[i]! then skipWs a (i + 1) else i

def hexVal (c : Char) : Option Nat :=
  if '0' ≤ c ∧ c ≤ '9' then some (c.toNat - '0'.toNat)
  else if 'a' ≤ c ∧ c ≤ 'f' then some (c.toNat - 'a'.toNat + 10)
  else if 'A' ≤ c ∧ c ≤ 'F' then some (c.toNat - 'A'.toNat + 10)
  else none

def hex4 (a : Array Char) (i : Nat) : Option Nat := do
  if i + 4 > a.size then none
  let h0 ← hexVal a[i]!
  let h1 ← hexVal a[i+1]!
  let h2 ← hexVal a[i+2]!
  let h3 ← hexVal a[i+3]!
  pure (((h0 * 16 + h1) * 16 + h2) * 16 + h3)

/-- string body after the opening quote; returns the string and the index after the closing quote -/
partial def parseStr (a : Array Char) (i : Nat) (acc : List Char) : Option (String × Nat) :=
  if i ≥ a.size then none
  else
    let c := a[i]!
    if c == '"' then some (String.ofList acc.reverse, i + 1)
    else if c == '\\' then
      if i + 1 ≥ a.size then none
      else
        let e := a[i+1]!
        if e == 'n' then parseStr a (i + 2) ('\n' :: acc)
        else if e == 't' then parseStr a (i + 2) ('\t' :: acc)
        else if e == 'r' then parseStr a (i + 2) ('\r' :: acc)
        else if e == 'b' then parseStr a (i + 2) (Char.ofNat 8 :: acc)
        else if e == 'f' then parseStr a (i + 2) (Char.ofNat 12 :: acc)
        else if e == '"' then parseStr a (i + 2) ('"' :: acc)
        else if e == '\\' then parseStr a (i + 2) ('\\' :: acc)
        else if e == '/' then parseStr a (i + 2) ('/' :: acc)
        else if e == 'u' then
          match hex4 a (i + 2) with
          | none => none
          | some u =>
            if 0xD800 ≤ u ∧ u < 0xDC00 ∧ i + 7 < a.size ∧ a[i+6]! == '\\' ∧ a[i+7]! == 'u' then
              match hex4 a (i + 8) with
              | some lo =>
                if 0xDC00 ≤ lo ∧ lo < 0xE000 then
                  parseStr a (i + 12) (Char.ofNat (0x10000 + (u - 0xD800) * 0x400 + (lo - 0xDC00)) :: acc)
                else none
              | none => none
            else parseStr a (i + 6) (Char.ofNat u :: acc)
        else none
    else parseStr a (i + 1) (c :: acc)

def isNumChar (c : Char) : Bool :=
  c.isDigit || c == '-' || c == '+' || c == '.' || c == 'e' || c == 'E'

partial def takeNum (a : Array Char) (i : Nat) (acc : List Char) : List Char × Nat :=
  if i < a.size && isNumChar a[i]! then takeNum a (i + 1) (a[i]! :: acc) else (acc.reverse, i)

def digits? (cs : List Char) : Option Nat :=
  if cs.isEmpty then none
  else if cs.all Char.isDigit then (String.ofList cs).toNat? else none

def signed? (cs : List Char) : Option Int :=
  match cs with
  | '-' :: r => (digits? r).map (fun n => -(n : Int))
  | '+' :: r => (digits? r).map (fun n => (n : Int))
  | r => (digits? r).map (fun n => (n : Int))

def parseNum (cs : List Char) : Option J :=
  let (neg, body) := match cs with
    | '-' :: r => (true, r)
    | r => (false, r)
  let (mant, expo) := match body.span (fun c => c != 'e' && c != 'E') with
    | (m, []) => (m, none)
    | (m, _ :: e) => (m, some e)
  let (ip, fp) := match mant.span (· != '.') with
    | (i, []) => (i, none)
    | (i, _ :: f) => (i, some f)
  match fp, expo with
  | none, none => (digits? ip).map (fun n => J.int (if neg then -(n : Int) else n))
  | _, _ =>
    let f := fp.getD []
    match digits? (ip ++ f), (match expo with | none => some 0 | some e => signed? e) with
    | some m, some e =>
      let m' : Int := if neg then -(m : Int) else m
      let r := stripZeros (ip.length + f.length + 1) m' (e - f.length)
      some (J.float r.1 r.2)
    | _, _ => none

mutual
partial def parseValue (a : Array Char) (i : Nat) : Option (J × Nat) :=
  let i := skipWs a i
  if i ≥ a.size then none
  else
    let c := a[i]!
    if c == '{' then parseMembers a (skipWs a (i + 1)) []
    else if c == '[' then parseItems a (skipWs a (i + 1)) []
    else if c == '"' then (parseStr a (i + 1) []).map (fun (s, j) => (J.str s, j))
    else if c == 't' ∧ i + 4 ≤ a.size ∧ a[i+1]! == 'r' ∧ a[i+2]! == 'u' ∧ a[i+3]! == 'e' then
      some (J.bool true, i + 4)
    else if c == 'f' ∧ i + 5 ≤ a.size ∧ a[i+1]! == 'a' ∧ a[i+2]! == 'l' ∧ a[i+3]! == 's' ∧ a[i+4]! == 'e' then
      some (J.bool false, i + 5)
    else if c == 'n' ∧ i + 4 ≤ a.size ∧ a[i+1]! == 'u' ∧ a[i+2]! == 'l' ∧ a[i+3]! == 'l' then
      some (J.null, i + 4)
    else
      let (cs, j) := takeNum a i []
      (parseNum cs).map (fun v => (v, j))
partial def parseItems (a : Array Char) (i : Nat) (acc : List J) : Option (J × Nat) :=
  if i < a.size && a[i]! == ']' && acc.isEmpty then some (J.list .nil, i + 1)
  else
    match parseValue a i with
    | none => none
    | some (v, j) =>
      let j := skipWs a j
      if j ≥ a.size then none
      else if a[j]! == ',' then parseItems a (skipWs a (j + 1)) (v :: acc)
      else if a[j]! == ']' then some (J.list (JL.ofList (v :: acc).reverse), j + 1)
      else none
partial def parseMembers (a : Array Char) (i : Nat) (acc : List (String × J)) : Option (J × Nat) :=
  if i < a.size && a[i]! == '}' && acc.isEmpty then some (J.obj .nil, i + 1)
  else if i < a.size && a[i]! == '"' then
    match parseStr a (i + 1) [] with
    | none => none
    | some (k, j) =>
      let j := skipWs a j
      if j < a.size && a[j]! == ':' then
        match parseValue a (j + 1) with
        | none => none
        | some (v, j) =>
          let j := skipWs a j
          if j ≥ a.size then none
          else if a[j]! == ',' then parseMembers a (skipWs a (j + 1)) ((k, v) :: acc)
          else if a[j]! == '}' then some (J.obj (KV.ofList ((k, v) :: acc).reverse), j + 1)
          else none
      else none
  else none
end

/-- a whole line holding exactly one JSON value -/
def parse (s : String) : Option J :=
  let a := s.toList.toArray
  match parseValue a 0 with
  | some (v, j) => if skipWs a j = a.size then some v else none
  | none => none

def hexDigit (n : Nat) : Char :=
  if n < 10 then Char.ofNat ('0'.toNat + n) else Char.ofNat ('a'.toNat + n - 10)

def escape (s : String) : String :=
  String.ofList (s.toList.flatMap (fun c =>
    if c == '"' then ['\\', '"']
    else if c == '\\' then ['\\', '\\']
    else if c.toNat < 0x20 then
      ['\\', 'u', '0', '0', hexDigit (c.toNat / 16), hexDigit (c.toNat % 16)]
    else [c]))

mutual
partial def render : J → String
  | .null => "null"
  | .bool true => "true"
  | .bool false => "false"
  | .int i => toString i
  | .float m e => toString m ++ "e" ++ toString e
  | .str s => "\"" ++ escape s ++ "\""
  | .list l => "[" ++ ",".intercalate (l.toList.map render) ++ "]"
  | .obj kvs => "{" ++ ",".intercalate (kvs.toList.map (fun (k, v) => "\"" ++ escape k ++ "\":" ++ render v)) ++ "}"
end

/-- split a protocol line into the operation and the JSON payload -/
def splitOp (line : String) : String × String :=
  let cs := line.toList
  let (op, rest) := cs.span (· != ' ')
  (String.ofList op, String.ofList (rest.drop 1))

def dropNewline (s : String) : String :=
  let cs := s.toList.reverse
  let cs := match cs with | '\n' :: r => r | r => r
  let cs := match cs with | '\r' :: r => r | r => r
  String.ofList cs.reverse

partial def loop {σ} (h out : IO.FS.Stream) (step : σ → String → String → σ × String) (s : σ) : IO Unit := do
  let line ← h.getLine
  if line.isEmpty then
    out.flush
    return ()
  let (op, payload) := splitOp (dropNewline line)
  let (s', r) := step s op payload
  out.putStrLn r
  loop h out step s'

def runJsonDriver {σ} (step : σ → String → String → σ × String) (init : σ) : IO Unit := do
  let i ← IO.getStdin
  let o ← IO.getStdout
  loop i o step init

def showRes : Except Rej J → String
  | .ok j => render j
  | .error e => "reject:" ++ e.name

def showUnit : Except Rej Unit → String
  | .ok _ => "ok"
  | .error e => "reject:" ++ e.name

end LdarModel.Json
