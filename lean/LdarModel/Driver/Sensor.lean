import LdarModel.Model.Sensor
import LdarModel.Driver.Proto
/-
Driver for the sensor model.  State: the coverage store of every emission id seen so far (so that a
sequence of surveys over the same world is threaded by the model itself; only rolls are inputs).

  reset                                   -> ok
  survey <scale c|g|s> <m> <site> <mdl> <layout> <errs> <emis> <usestate 0|1>
      layout = [[g,[c1,c2,...]],...]      groups and components of the surveyed site, in site order
      errs   = [e1,e2,...]                percent shifts: per component (flattened) / per group / one
      emis   = [[id,site,eqg,comp,rate,active,emitting,spatialRoll,temporalRoll,[[m,b],...]],...]
               (with usestate 1 the coverage store of a known id comes from the driver state)
    -> <ret> <true> <measured> | <units> | <obs> | <tags> | <tagged ids> | <recorded ids>
      units  = g/true/measured/detected/c:true:measured:detected,...  joined by ';'   ("-" if none)
      obs    = id:vis:spatialRollDrawn:temporalRollDrawn:storedOutcomeAfter           joined by ';'
      tags   = g.c joined by ','                                                       ("-" if none)
  flag <inst|-> <thr> <measured>          -> 0|1      mobile, site not yet in processing
  flags <smallThr> <measured>             -> 0|1      stationary, first record of a site
All rates in the common unit, measured rates and thresholds of `flag` in hundredths of it.
-/
open LdarModel LdarModel.Sensor LdarModel.Proto

abbrev Store := List (Nat × List (Nat × Bool))

def storeGet (st : Store) (id : Nat) : Option (List (Nat × Bool)) :=
  match st with
  | [] => none
  | (k, v) :: l => if k = id then some v else storeGet l id

def storePut (st : Store) (id : Nat) (v : List (Nat × Bool)) : Store :=
  (id, v) :: st.filter (fun kv => kv.1 ≠ id)

def parseCov (s : String) : Option (Nat × Bool) := do
  match ← splitTop s with
  | [m, b] => some (← nat? m, ← bool? b)
  | _ => none

def parseEmis (s : String) : Option (Emis × Rolls) := do
  match ← splitTop s with
  | [id, site, g, c, rate, act, emit, sr, tr, cov] =>
    let e : Emis := { id := ← nat? id, site := ← nat? site, eqg := ← nat? g, comp := ← nat? c,
                      rate := ← int? rate, active := ← bool? act, emitting := ← bool? emit,
                      cov := ← listOf? parseCov cov }
    some (e, { spatial := ← bool? sr, temporal := ← bool? tr })
  | _ => none

def parseGroup (s : String) : Option (Nat × List Nat) := do
  match ← splitTop s with
  | [g, cs] => some (← nat? g, ← natList? cs)
  | _ => none

/-- attach the flat shift list to the components of the layout, in order (missing shifts: 0) -/
def attachErrs (layout : List (Nat × List Nat)) (errs : List Int) : List (Nat × List (Nat × Int)) :=
  (layout.foldl (fun (acc : List (Nat × List (Nat × Int)) × List Int) gc =>
      let n := gc.2.length
      let es := acc.2.take n
      (acc.1 ++ [(gc.1, gc.2.zip (es ++ List.replicate (n - es.length) 0))], acc.2.drop n))
    ([], errs)).1

def mkCfg (scale : String) (layout : List (Nat × List Nat)) (errs : List Int) : Option Cfg :=
  if scale = "c" then some (.component (attachErrs layout errs))
  else if scale = "g" then
    some (.eqg ((layout.map (·.1)).zip (errs ++ List.replicate (layout.length - errs.length) 0)))
  else if scale = "s" then some (.site (errs.headD 0))
  else none

def showComp (c : CompRep) : String :=
  s!"{c.comp}:{c.trueRate}:{c.measured}:{showBool c.detected}"

def showEqg (scale : String) (e : EqgRep) : String :=
  let det := if scale = "g" then showBool e.detected else "-"
  s!"{e.eqg}/{e.trueRate}/{e.measured}/{det}/" ++ ",".intercalate (e.comps.map showComp)

def showCovOf (m : Nat) (e : Emis) : String :=
  match covOf m e with
  | none => "-"
  | some b => showBool b

def showObs (m : Nat) (o : Obs) : String :=
  s!"{o.e.id}:{showBool o.vis}:{showBool o.sRoll}:{showBool o.tRoll}:{showCovOf m o.e}"

def joinOr (sep : String) (l : List String) : String := if l.isEmpty then "-" else sep.intercalate l

def doSurvey (st : Store) (scale : String) (m : Nat) (s : Nat) (mdl : Int) (cfg : Cfg)
    (xs0 : List (Emis × Rolls)) (useState : Bool) : Store × String :=
  let xs := if useState then
      xs0.map (fun x => match storeGet st x.1.id with
                        | some cov => ({ x.1 with cov := cov }, x.2)
                        | none => x)
    else xs0
  let obs := detect m s xs
  let rep := survey cfg m mdl s xs
  let targets := tagTargets rep
  let tagged := taggedIds s targets (xs.map (·.1))
  let st' := if useState then obs.foldl (fun acc o => storePut acc o.e.id o.e.cov) st else st
  let line :=
    s!"{showBool rep.ret} {rep.trueRate} {rep.measured} | " ++
    joinOr ";" (rep.eqgs.map (showEqg scale)) ++ " | " ++
    joinOr ";" (obs.map (showObs m)) ++ " | " ++
    joinOr "," (targets.map (fun gc => s!"{gc.1}.{gc.2}")) ++ " | " ++
    showList toString tagged ++ " | " ++ showList toString rep.recorded
  (st', line)

def step (st : Store) (toks : List String) : Store × String :=
  match toks with
  | ["reset"] => ([], "ok")
  | ["survey", scale, m, site, mdl, layout, errs, emis, us] =>
    match nat? m, nat? site, int? mdl, listOf? parseGroup layout, intList? errs,
          listOf? parseEmis emis, bool? us with
    | some m, some site, some mdl, some layout, some errs, some xs, some us =>
      match mkCfg scale layout errs with
      | some cfg => doSurvey st scale m site mdl cfg xs us
      | none => (st, "bad-op")
    | _, _, _, _, _, _, _ => (st, "bad-op")
  | ["flag", inst, thr, m] =>
    match optInt? inst, int? thr, int? m with
    | some inst, some thr, some m => (st, showBool (flagCandidate inst thr m))
    | _, _, _ => (st, "bad-op")
  | ["flags", thr, m] =>
    match int? thr, int? m with
    | some thr, some m => (st, showBool (flagStationaryFresh thr m))
    | _, _ => (st, "bad-op")
  | _ => (st, "bad-op")

def main : IO Unit := runDriver step ([] : Store)
