import LdarModel.Lemmas.Cache
namespace LdarModel.Cache

/-! ### histories -/

theorem inv_exec (t : Tbl) (ok : TblOK t) (s : St) (op : Op) (hi : Inv t s.disk) :
    Inv t (exec t s op).disk := by
  cases op with
  | edit k v => exact hi
  | run n =>
    exact chain_inv t _ _ hi (plan_spec t ok s.vv s.gid n s.disk hi).1
  | crash n k =>
    exact chain_crash t _ k _ hi (plan_spec t ok s.vv s.gid n s.disk hi).1
  | tear n k =>
    exact chain_tear t _ k _ hi (plan_spec t ok s.vv s.gid n s.disk hi).1
  | del f =>
    exact step_inv t s.disk (.rm f) hi trivial

theorem inv_init (t : Tbl) : Inv t St.init.disk := by
  intro c st g hc
  simp [St.init, Disk.empty] at hc

theorem inv_execAll (t : Tbl) (ok : TblOK t) (h : List Op) (s : St) (hi : Inv t s.disk) :
    Inv t (execAll t s h).disk := by
  induction h generalizing s with
  | nil => exact hi
  | cons op rest ih => exact ih _ (inv_exec t ok s op hi)

/-- steps that would overwrite or remove something an earlier run with `n0` simulations relies on -/
def Step.touchesOld (n0 : Nat) : Step → Bool
  | .wrEmis i _ => decide (i < n0)
  | .wrHashes _ => true
  | .wrInfra _ => true
  | .rm _ => true
  | _ => false

theorem emisLoop_touches (g : Gen) (cnt lo n0 : Nat) (h : n0 ≤ lo) :
    ∀ s ∈ emisLoop g lo cnt, s.touchesOld n0 = false := by
  induction cnt generalizing lo with
  | zero => simp [emisLoop]
  | succ k ih =>
    intro s hs
    simp only [emisLoop, List.mem_cons] at hs
    rcases hs with rfl | hs
    · simp only [Step.touchesOld, decide_eq_false_iff_not]; omega
    · exact ih (lo + 1) (by omega) s hs

/-- the plan of a run that finds a complete, matching folder: nothing old is touched -/
theorem plan_of_valid (t : Tbl) (ok : TblOK t) (vv : VV) (g : Gen) (n0 n1 gid : Nat) (d : Disk)
    (hv : Valid t vv g n0 d) :
    (plan t vv gid n1 d).outcome = some g ∧
    ∀ s ∈ (plan t vv gid n1 d).steps, s.touchesOld n0 = false := by
  obtain ⟨⟨m, hs, hm⟩, ⟨st, hh, hmatch⟩, hg, ⟨c, hc, hnc, he⟩, hts, hcur⟩ := hv
  have hpres : t.required.all d.present = true := by
    simp only [List.all_eq_true]
    intro f _
    cases f <;> simp [Disk.present, FileSt.present, hs, hh, hg, hc, hts]
  have h1 : seedsStage n1 d = some (if m < n1 then [.wrSeeds n1] else [], false) := by
    simp [seedsStage, hs]
  have h2 : infraStage t vv gid false d = some ([], g, true) := by
    simp [infraStage, hpres, hh, hmatch, hg]
  have h3 : emisStage t n1 true g d = some (if c < n1 then instPhases t.emisExtend g c n1 else []) := by
    simp [emisStage, hc]
  have h4 : tsStage d = some [] := by
    simp [tsStage, hts]
  simp only [plan, h1, h2, h3, h4, List.append_nil, true_and]
  intro s hs'
  simp only [List.mem_append] at hs'
  rcases hs' with hs' | hs'
  · by_cases hmn : m < n1
    · simp only [hmn, if_true, List.mem_singleton] at hs'
      subst hs'
      rfl
    · simp [hmn] at hs'
  · by_cases hcn : c < n1
    · simp only [hcn, if_true, ok.emisExtend, instPhases_safe, List.mem_append,
        List.mem_singleton] at hs'
      rcases hs' with hs' | rfl
      · exact emisLoop_touches g _ c n0 hnc s hs'
      · rfl
    · simp [hcn] at hs'

end LdarModel.Cache
