import LdarModel.Lemmas.Cache
namespace LdarModel.Cache

/-- the folder after a completed run -/
structure Valid (t : Tbl) (vv : VV) (g : Gen) (n : Nat) (d : Disk) : Prop where
  seeds : ∃ m, d.seeds = .ok m ∧ n ≤ m
  hashes : ∃ st, d.hashes = .ok st ∧ hashesMatch t st vv = true
  infra : d.infra = .ok g
  count : ∃ c, d.count = .ok c ∧ n ≤ c ∧ ∀ i, i < c → d.emis i = .ok g
  ts : d.ts = .ok ()
  cur : g.vv = vv

/-- what the infrastructure + emission stages establish, started on folder `d1` -/
def MidPost (t : Tbl) (vv : VV) (n : Nat) (d1 : Disk) (l : List Step) (mem : Gen) : Prop :=
  ChainOk t d1 l ∧
  (applyAll l d1).seeds = d1.seeds ∧
  (applyAll l d1).ts = d1.ts ∧
  (∃ st, (applyAll l d1).hashes = .ok st ∧ hashesMatch t st vv = true) ∧
  (applyAll l d1).infra = .ok mem ∧
  (∃ c, (applyAll l d1).count = .ok c ∧ n ≤ c ∧ ∀ i, i < c → (applyAll l d1).emis i = .ok mem) ∧
  mem.vv = vv

theorem mid_spec (t : Tbl) (ok : TblOK t) (vv : VV) (gid n : Nat) (force : Bool) (d : Disk)
    (x : FileSt Nat) (hi : Inv t d) (s2 : List Step) (mem : Gen) (hfe : Bool) (s3 : List Step)
    (h2 : infraStage t vv gid force d = some (s2, mem, hfe))
    (h3 : emisStage t n hfe mem d = some s3) :
    MidPost t vv n { d with seeds := x } (s2 ++ s3) mem := by
  have regen : ∀ (hashed : List (String × Input)) (ops : List IOp), hashed = t.hashedFresh →
      ops = safeIOps → s2 = instIOps ops (storeOf hashed vv) ⟨vv, gid⟩ d → mem = ⟨vv, gid⟩ →
      hfe = false → MidPost t vv n { d with seeds := x } (s2 ++ s3) mem := by
    intro hashed ops e1 e2 e3 e4 e5
    subst e1 e2 e3 e4 e5
    simp only [emisStage, Bool.false_eq_true, if_false, Option.some.injEq] at h3
    subst h3
    rw [ok.emisRegen, instIOps_safe, instPhases_safe]
    obtain ⟨c1, c2⟩ := regen_spec t ok vv gid n { d with seeds := x } d.count.present rfl
    simp only [Nat.sub_zero]
    refine ⟨c1, ?_⟩
    rw [c2]
    refine ⟨rfl, rfl, ⟨_, rfl, match_self t ok vv⟩, rfl, ⟨n, rfl, Nat.le_refl _, ?_⟩, rfl⟩
    intro i hi
    simp [hi]
  unfold infraStage at h2
  split at h2
  · simp only [Option.some.injEq, Prod.mk.injEq] at h2
    exact regen _ _ rfl ok.freshOps h2.1.symm h2.2.1.symm h2.2.2.symm
  · rename_i hreq
    split at h2
    · rename_i st hst
      split at h2
      · rename_i hm
        split at h2
        · rename_i g hg
          simp only [Option.some.injEq, Prod.mk.injEq] at h2
          obtain ⟨rfl, rfl, rfl⟩ := h2
          simp only [emisStage, if_true] at h3
          split at h3
          · rename_i c hc
            simp only [Option.some.injEq] at h3
            obtain ⟨m1, m2, e⟩ := hi c st g hc hst hg
            have hcur : g.vv = vv := m2 vv hm
            by_cases hcn : c < n
            · simp only [hcn, if_true] at h3
              subst h3
              rw [ok.emisExtend, instPhases_safe, List.nil_append]
              have hi1 : Inv t { d with seeds := x } := hi
              obtain ⟨c1, c2⟩ := extend_spec t { d with seeds := x } hi1 c n st g hc hst hg hcn
              refine ⟨c1, ?_⟩
              rw [c2]
              refine ⟨rfl, rfl, ⟨st, hst, hm⟩, hg, ⟨n, rfl, Nat.le_refl _, ?_⟩, hcur⟩
              intro i hin
              by_cases hic : c ≤ i
              · simp [hic, hin]
              · have : ¬ (c ≤ i ∧ i < n) := by omega
                simp only [this, if_false]
                exact e i (by omega)
            · simp only [hcn, if_false] at h3
              subst h3
              refine ⟨trivial, rfl, rfl, ⟨st, hst, hm⟩, hg, ⟨c, hc, by omega, e⟩, hcur⟩
          · simp at h3
        · simp at h2
      · simp only [Option.some.injEq, Prod.mk.injEq] at h2
        exact regen _ _ ok.sameHashed ok.regenOps h2.1.symm h2.2.1.symm h2.2.2.symm
    · simp at h2

theorem seeds_spec (t : Tbl) (n : Nat) (d : Disk) (s1 : List Step) (force : Bool)
    (h : seedsStage n d = some (s1, force)) :
    ∃ m, applyAll s1 d = { d with seeds := .ok m } ∧ n ≤ m ∧ ChainOk t d s1 := by
  unfold seedsStage at h
  split at h
  · simp at h
  · simp only [Option.some.injEq, Prod.mk.injEq] at h
    obtain ⟨rfl, _⟩ := h
    exact ⟨n, rfl, Nat.le_refl _, trivial, trivial⟩
  · rename_i m hm
    simp only [Option.some.injEq, Prod.mk.injEq] at h
    obtain ⟨rfl, _⟩ := h
    by_cases hmn : m < n
    · simp only [hmn, if_true]
      exact ⟨n, rfl, Nat.le_refl _, trivial, trivial⟩
    · simp only [hmn, if_false]
      refine ⟨m, ?_, by omega, trivial⟩
      cases d
      simp_all

theorem infra_hfe_nil (t : Tbl) (vv : VV) (gid : Nat) (force : Bool) (d : Disk) (s2 : List Step)
    (mem : Gen) (h : infraStage t vv gid force d = some (s2, mem, true)) : s2 = [] := by
  unfold infraStage at h
  split at h
  · simp at h
  · split at h
    · split at h
      · split at h
        · simp only [Option.some.injEq, Prod.mk.injEq] at h
          exact h.1.symm
        · simp at h
      · simp at h
    · simp at h

theorem plan_spec (t : Tbl) (ok : TblOK t) (vv : VV) (gid n : Nat) (d : Disk) (hi : Inv t d) :
    ChainOk t d (plan t vv gid n d).steps ∧
    ∀ g, (plan t vv gid n d).outcome = some g →
      Valid t vv g n (applyAll (plan t vv gid n d).steps d) := by
  cases h1 : seedsStage n d with
  | none => simp only [plan, h1]; exact ⟨trivial, by simp⟩
  | some r1 =>
    obtain ⟨s1, force⟩ := r1
    obtain ⟨m, e1, hm, c1⟩ := seeds_spec t n d s1 force h1
    cases h2 : infraStage t vv gid force d with
    | none => simp only [plan, h1, h2]; exact ⟨c1, by simp⟩
    | some r2 =>
      obtain ⟨s2, mem, hfe⟩ := r2
      cases h3 : emisStage t n hfe mem d with
      | none =>
        have : hfe = true := by
          cases hfe with
          | true => rfl
          | false => simp [emisStage] at h3
        subst this
        have := infra_hfe_nil t vv gid force d s2 mem h2
        subst this
        simp only [plan, h1, h2, h3, List.append_nil]
        exact ⟨c1, by simp⟩
      | some s3 =>
        obtain ⟨m1, m2, m3, m4, m5, m6, m7⟩ :=
          mid_spec t ok vv gid n force d (.ok m) hi s2 mem hfe s3 h2 h3
        have c123 : ChainOk t d (s1 ++ s2 ++ s3) := by
          rw [List.append_assoc, chain_append, e1]
          exact ⟨c1, m1⟩
        have e123 : applyAll (s1 ++ s2 ++ s3) d =
            applyAll (s2 ++ s3) { d with seeds := .ok m } := by
          rw [List.append_assoc, applyAll_append, e1]
        cases h4 : tsStage d with
        | none => simp only [plan, h1, h2, h3, h4]; exact ⟨c123, by simp⟩
        | some s4 =>
          simp only [plan, h1, h2, h3, h4]
          unfold tsStage at h4
          split at h4
          · simp at h4
          · rename_i u hu
            simp only [Option.some.injEq] at h4
            subst h4
            simp only [List.append_nil, Option.some.injEq]
            refine ⟨c123, ?_⟩
            intro g hg
            subst hg
            rw [e123]
            exact ⟨⟨m, m2, hm⟩, m4, m5, m6, by rw [m3]; exact hu, m7⟩
          · rename_i hu
            simp only [Option.some.injEq] at h4
            subst h4
            simp only [Option.some.injEq]
            refine ⟨?_, ?_⟩
            · rw [chain_append]
              exact ⟨c123, trivial, trivial⟩
            · intro g hg
              subst hg
              rw [applyAll_append, e123]
              exact ⟨⟨m, m2, hm⟩, m4, m5, m6, rfl, m7⟩

end LdarModel.Cache
