import LdarModel.Model.Planner
/-
Helper lemmas for the schedule model: the sorted-list queue (`insertE`, `put`, `takeN`, batches of
`put`s), and the state invariant of a method's schedule with its preservation by every operation.
-/
namespace LdarModel.Sched

set_option linter.unusedSimpArgs false
set_option linter.unusedVariables false

/-! ### order on entries -/

theorem keyLt_trans {a b c : Entry} (h1 : keyLt a b) (h2 : keyLt b c) : keyLt a c := by
  unfold keyLt at *; omega

theorem keyLt_asymm {a b : Entry} (h1 : keyLt a b) : ¬ keyLt b a := by
  unfold keyLt at *; omega

theorem keyLt_total {a b : Entry} (h : a.fifo ≠ b.fifo) : keyLt a b ∨ keyLt b a := by
  unfold keyLt; omega

/-! ### insertion -/

theorem insertE_perm (e : Entry) (l : List Entry) : (insertE e l).Perm (e :: l) := by
  induction l with
  | nil => simp [insertE]
  | cons x xs ih =>
    unfold insertE
    split
    · exact List.Perm.refl _
    · exact (List.Perm.cons x ih).trans (List.Perm.swap e x xs)

theorem mem_insertE {e x : Entry} {l : List Entry} : x ∈ insertE e l ↔ x = e ∨ x ∈ l := by
  rw [(insertE_perm e l).mem_iff]; simp

theorem insertE_sorted (e : Entry) (l : List Entry) (hl : l.Pairwise keyLt)
    (hd : ∀ x ∈ l, x.fifo ≠ e.fifo) : (insertE e l).Pairwise keyLt := by
  induction l with
  | nil => simp [insertE]
  | cons x xs ih =>
    rw [List.pairwise_cons] at hl
    unfold insertE
    split
    · rename_i hlt
      rw [List.pairwise_cons]
      refine ⟨?_, List.pairwise_cons.2 hl⟩
      intro y hy
      rcases List.mem_cons.1 hy with rfl | hy
      · exact hlt
      · exact keyLt_trans hlt (hl.1 y hy)
    · rename_i hnlt
      have hxe : keyLt x e := by
        rcases keyLt_total (hd x (by simp)) with h | h
        · exact h
        · exact absurd h hnlt
      rw [List.pairwise_cons]
      refine ⟨?_, ih hl.2 (fun y hy => hd y (by simp [hy]))⟩
      intro y hy
      rcases mem_insertE.1 hy with rfl | hy
      · exact hxe
      · exact hl.1 y hy

/-! ### queue well-formedness -/

/-- entries sorted by the tuple order, counters below the next fresh one -/
def QWF (q : Queue) : Prop := q.entries.Pairwise keyLt ∧ ∀ e ∈ q.entries, e.fifo < q.next

theorem qwf_empty : QWF Queue.empty := by simp [QWF, Queue.empty]

theorem qwf_put (q : Queue) (h : QWF q) (c : Nat) (r : Int) (i : Nat) : QWF (q.put c r i) := by
  unfold QWF Queue.put at *
  simp only
  refine ⟨insertE_sorted _ _ h.1 ?_, ?_⟩
  · intro x hx
    have := h.2 x hx
    simp only
    omega
  · intro e he
    rcases mem_insertE.1 he with rfl | he
    · simp
    · have := h.2 e he; omega

theorem put_perm (q : Queue) (c : Nat) (r : Int) (i : Nat) :
    (q.put c r i).entries.Perm ({ cls := c, rate := r, fifo := q.next, site := i } :: q.entries) :=
  insertE_perm _ _

theorem takeN_eq (n : Nat) (q : Queue) :
    q.takeN n = (q.entries.take n, { q with entries := q.entries.drop n }) := by
  induction n generalizing q with
  | zero => simp [Queue.takeN]
  | succ n ih =>
    unfold Queue.takeN Queue.get
    cases hq : q.entries with
    | nil => simp; cases q; simp_all
    | cons e es => simp [ih]

theorem qwf_drop (q : Queue) (h : QWF q) (n : Nat) : QWF { q with entries := q.entries.drop n } := by
  unfold QWF at *
  exact ⟨h.1.sublist (List.drop_sublist n _), fun e he => h.2 e (List.mem_of_mem_drop he)⟩

/-! ### a batch of puts -/

/-- items are (class, rate, site) -/
def putAll (q : Queue) : List (Nat × Int × Nat) → Queue
  | [] => q
  | x :: xs => putAll (q.put x.1 x.2.1 x.2.2) xs

/-- the entries created by a batch of puts starting at counter `n` -/
def stamp (n : Nat) : List (Nat × Int × Nat) → List Entry
  | [] => []
  | x :: xs => { cls := x.1, rate := x.2.1, fifo := n, site := x.2.2 } :: stamp (n + 1) xs

theorem stamp_sites (n : Nat) (items : List (Nat × Int × Nat)) :
    (stamp n items).map (·.site) = items.map (·.2.2) := by
  induction items generalizing n with
  | nil => rfl
  | cons x xs ih => simp [stamp, ih]

theorem stamp_fifo_ge (n : Nat) (items : List (Nat × Int × Nat)) :
    ∀ e ∈ stamp n items, n ≤ e.fifo := by
  induction items generalizing n with
  | nil => simp [stamp]
  | cons x xs ih =>
    intro e he
    simp only [stamp, List.mem_cons] at he
    rcases he with rfl | he
    · simp
    · have := ih (n + 1) e he; omega

theorem stamp_fifo_lt (n : Nat) (items : List (Nat × Int × Nat)) :
    ∀ e ∈ stamp n items, e.fifo < n + items.length := by
  induction items generalizing n with
  | nil => simp [stamp]
  | cons x xs ih =>
    intro e he
    simp only [stamp, List.mem_cons] at he
    rcases he with rfl | he
    · simp
    · have := ih (n + 1) e he; simp only [List.length_cons]; omega

theorem stamp_increasing (n : Nat) (items : List (Nat × Int × Nat)) :
    (stamp n items).Pairwise (fun a b => a.fifo < b.fifo) := by
  induction items generalizing n with
  | nil => simp [stamp]
  | cons x xs ih =>
    simp only [stamp, List.pairwise_cons]
    refine ⟨?_, ih (n + 1)⟩
    intro e he
    have := stamp_fifo_ge (n + 1) xs e he
    omega

theorem stamp_item (n : Nat) (items : List (Nat × Int × Nat)) :
    ∀ e ∈ stamp n items, (e.cls, e.rate, e.site) ∈ items := by
  induction items generalizing n with
  | nil => simp [stamp]
  | cons x xs ih =>
    intro e he
    simp only [stamp, List.mem_cons] at he
    rcases he with rfl | he
    · simp
    · exact List.mem_cons_of_mem _ (ih (n + 1) e he)

theorem putAll_spec (q : Queue) (h : QWF q) (items : List (Nat × Int × Nat)) :
    QWF (putAll q items) ∧ (putAll q items).entries.Perm (q.entries ++ stamp q.next items)
      ∧ (putAll q items).next = q.next + items.length := by
  induction items generalizing q with
  | nil => simp [putAll, stamp, h]
  | cons x xs ih =>
    have hq' := qwf_put q h x.1 x.2.1 x.2.2
    have := ih (q.put x.1 x.2.1 x.2.2) hq'
    refine ⟨this.1, ?_, ?_⟩
    · simp only [putAll, stamp]
      refine this.2.1.trans ?_
      have hp := put_perm q x.1 x.2.1 x.2.2
      have hn : (q.put x.1 x.2.1 x.2.2).next = q.next + 1 := rfl
      rw [hn]
      refine (List.Perm.append_right _ hp).trans ?_
      simp only [List.cons_append]
      exact List.perm_middle.symm
    · simp only [putAll, List.length_cons]
      rw [this.2.2]
      show q.next + 1 + xs.length = _
      omega

theorem putAll_sites (q : Queue) (h : QWF q) (items : List (Nat × Int × Nat)) :
    (putAll q items).sites.Perm (q.sites ++ items.map (·.2.2)) := by
  have := (putAll_spec q h items).2.1
  unfold Queue.sites
  have := this.map (·.site)
  simpa [stamp_sites] using this

/-! ### folds of the model as batches -/

theorem foldl_issue_eq (is : List Nat) (q : Queue) :
    is.foldl (fun q i => q.put prioNew 0 i) q = putAll q (is.map (fun i => (prioNew, (0 : Int), i))) := by
  induction is generalizing q with
  | nil => rfl
  | cons i is ih => simp [putAll, ih]

/-- the (class, rate, site) items that `update` puts back for the work plan `keys` -/
def requeueItems (k : Kind) (pl : Nat → PlannerS) (keys : List Nat) : List (Nat × Int × Nat) :=
  (keys.filter (fun i => !isComplete (pl i))).map (fun i => (requeueClass (pl i), rateOf k (pl i), i))

theorem foldl_requeue_eq (k : Kind) (pl : Nat → PlannerS) (keys : List Nat) (q : Queue) :
    keys.foldl (requeueOne k pl) q = putAll q (requeueItems k pl keys) := by
  induction keys generalizing q with
  | nil => rfl
  | cons i is ih =>
    unfold requeueItems at *
    simp only [List.foldl_cons, requeueOne, List.filter_cons]
    cases h : isComplete (pl i) <;> simp [putAll, ih]

theorem dictKeys_nodup (l : List Nat) (h : l.Nodup) : dictKeys l = l := by
  induction l with
  | nil => rfl
  | cons x xs ih =>
    rw [List.nodup_cons] at h
    simp only [dictKeys, ih h.2]
    congr 1
    rw [List.filter_eq_self]
    intro a ha
    simp only [decide_eq_true_eq]
    intro hax
    exact h.1 (hax ▸ ha)

/-! ### the state invariant -/

structure Inv (s : State) : Prop where
  qwf : QWF s.q
  nodup : s.q.sites.Nodup
  flag : ∀ i, (s.pl i).queued = true ↔ i ∈ s.q.sites
  cls1 : ∀ e ∈ s.q.entries, (e.cls = prioUnfinished ↔ inProgress (s.pl e.site) = true)
  notComplete : ∀ i, isComplete (s.pl i) = false
  idle : ∀ i, (s.pl i).queued = false → (s.pl i).rep = none

theorem inv_init : Inv init := by
  refine ⟨qwf_empty, ?_, ?_, ?_, ?_, ?_⟩ <;> simp [init, Queue.sites, isComplete]

theorem guardK_not_queued {k : Kind} {p : PlannerP} {dt : Date} {ps : PlannerS}
    (h : guardK k p dt ps = true) : ps.queued = false := by
  unfold guardK guardRoutine guardStationary at h
  cases k <;> simp at h <;> simp [h]

theorem issued_nodup (c : Cfg) (hc : c.sites.Nodup) (dt : Date) (s : State) : (issued c dt s).Nodup :=
  hc.sublist List.filter_sublist

theorem issued_not_queued (c : Cfg) (dt : Date) (s : State) :
    ∀ i ∈ issued c dt s, (s.pl i).queued = false := by
  intro i hi
  unfold issued at hi
  rw [List.mem_filter] at hi
  exact guardK_not_queued hi.2

theorem mem_sites_iff (q : Queue) (i : Nat) : i ∈ q.sites ↔ ∃ e ∈ q.entries, e.site = i := by
  unfold Queue.sites; simp

theorem inv_request (c : Cfg) (hc : c.sites.Nodup) (dt : Date) (s : State) (h : Inv s) :
    Inv (requestPhase c dt s) := by
  have hnd := issued_nodup c hc dt s
  have hnq := issued_not_queued c dt s
  have hspec := putAll_spec s.q h.qwf ((issued c dt s).map (fun i => (prioNew, (0 : Int), i)))
  have hsites := putAll_sites s.q h.qwf ((issued c dt s).map (fun i => (prioNew, (0 : Int), i)))
  simp only [List.map_map, Function.comp_def, List.map_id'] at hsites
  unfold requestPhase
  simp only [foldl_issue_eq]
  generalize hq1 : putAll s.q ((issued c dt s).map (fun i => (prioNew, (0 : Int), i))) = q1 at *
  generalize issued c dt s = is at *
  refine ⟨hspec.1, ?_, ?_, ?_, ?_, ?_⟩
  · rw [hsites.nodup_iff, List.nodup_append]
    refine ⟨h.nodup, hnd, ?_⟩
    intro a ha b hb hab
    subst hab
    have := (h.flag a).2 ha
    rw [hnq a hb] at this
    exact Bool.noConfusion this
  · intro i
    simp only
    rw [hsites.mem_iff, List.mem_append]
    by_cases hi : i ∈ is
    · simp [hi]
    · simp [hi, h.flag i]
  · intro e he
    simp only
    have he' := (hspec.2.1.mem_iff).1 he
    rw [List.mem_append] at he'
    have hrep : ∀ j, inProgress (if j ∈ is then { s.pl j with queued := true } else s.pl j) = inProgress (s.pl j) := by
      intro j; by_cases hj : j ∈ is <;> simp [hj, inProgress]
    rw [hrep]
    rcases he' with he' | he'
    · exact h.cls1 e he'
    · have hit := stamp_item _ _ e he'
      simp only [List.mem_map] at hit
      obtain ⟨i, hi, hieq⟩ := hit
      have h1 : e.cls = prioNew := by injection hieq with a b; exact a.symm
      have h2 : e.site = i := by injection hieq with a b; injection b with b1 b2; exact b2.symm
      have hrn := h.idle i (hnq i hi)
      rw [h1, h2]
      simp [prioNew, prioUnfinished, inProgress, hrn]
  · intro i
    simp only
    have := h.notComplete i
    by_cases hi : i ∈ is <;> simp_all [isComplete]
  · intro i
    simp only
    by_cases hi : i ∈ is
    · simp [hi]
    · simp only [hi, if_false]; exact h.idle i

/-! ### the second half of a day (take → deploy → update) in explicit form -/

def planKeys (c : Cfg) (s1 : State) : List Nat :=
  dictKeys ((s1.q.entries.take (takeCount c s1.q)).map (·.site))

def waiting (c : Cfg) (s1 : State) : Queue :=
  { s1.q with entries := s1.q.entries.drop (takeCount c s1.q) }

def deployed (c : Cfg) (d : DayIn) (s1 : State) : Nat → PlannerS :=
  fun i => if i ∈ planKeys c s1 then applyOutcome (c.P i) (d.out i) (s1.pl i) else s1.pl i

def finishDay (c : Cfg) (d : DayIn) (s1 : State) : State :=
  { q := putAll (waiting c s1) (requeueItems c.kind (deployed c d s1) (planKeys c s1)),
    pl := fun i => if i ∈ planKeys c s1 ∧ isComplete (deployed c d s1 i) = true
                   then finish d.date.y (deployed c d s1 i) else deployed c d s1 i,
    crashed := s1.crashed ||
      (planKeys c s1).any (fun i => isComplete (deployed c d s1 i) && !decide (d.date.y ∈ (c.P i).simYears) &&
        decide (c.kind ≠ .followup)) }

theorem scheduleDay_eq (c : Cfg) (d : DayIn) (s : State) :
    scheduleDay c d s = finishDay c d (requestPhase c d.date s) := by
  simp only [scheduleDay, dayTrace, takeN_eq, foldl_requeue_eq]
  rfl

theorem dayTrace_keys (c : Cfg) (d : DayIn) (s : State) :
    (dayTrace c d s).keys = planKeys c (requestPhase c d.date s) := by
  simp only [dayTrace, takeN_eq]
  rfl

theorem dayTrace_afterDeploy (c : Cfg) (d : DayIn) (s : State) :
    (dayTrace c d s).afterDeploy = deployed c d (requestPhase c d.date s) := by
  simp only [dayTrace, takeN_eq]
  rfl

theorem dayTrace_remaining (c : Cfg) (d : DayIn) (s : State) :
    (dayTrace c d s).remaining = waiting c (requestPhase c d.date s) := by
  simp only [dayTrace, takeN_eq]
  rfl

theorem dayTrace_taken (c : Cfg) (d : DayIn) (s : State) :
    (dayTrace c d s).taken =
      (requestPhase c d.date s).q.entries.take (takeCount c (requestPhase c d.date s).q) := by
  simp only [dayTrace, takeN_eq]

/-- with distinct outstanding requests the work plan is the list of taken sites -/
theorem planKeys_eq (c : Cfg) (s1 : State) (h : Inv s1) :
    planKeys c s1 = (s1.q.entries.take (takeCount c s1.q)).map (·.site) := by
  unfold planKeys
  apply dictKeys_nodup
  have : ((s1.q.entries.take (takeCount c s1.q)).map (·.site)).Sublist s1.q.sites :=
    (List.take_sublist _ _).map _
  exact h.nodup.sublist this

theorem sites_split (c : Cfg) (s1 : State) (h : Inv s1) :
    s1.q.sites = planKeys c s1 ++ (waiting c s1).sites := by
  rw [planKeys_eq c s1 h]
  unfold waiting Queue.sites
  rw [← List.map_append, List.take_append_drop]

theorem applyOutcome_queued (p : PlannerP) (o : Outcome) (s : PlannerS) :
    (applyOutcome p o s).queued = s.queued := by
  unfold applyOutcome; cases o <;> rfl

theorem applyOutcome_complete_false (p : PlannerP) (o : Outcome) (s : PlannerS)
    (hs : isComplete s = false) (ho : o ≠ .completed) : isComplete (applyOutcome p o s) = false := by
  unfold applyOutcome isComplete at *
  cases o with
  | completed => exact absurd rfl ho
  | progressed m => cases hr : s.rep <;> simp_all
  | untouched => cases hr : s.rep <;> simp_all

theorem inv_finishDay (c : Cfg) (d : DayIn) (s1 : State) (h : Inv s1) : Inv (finishDay c d s1) := by
  have hsplit := sites_split c s1 h
  have hnd := h.nodup
  rw [hsplit, List.nodup_append] at hnd
  have hw : QWF (waiting c s1) := qwf_drop s1.q h.qwf _
  have hspec := putAll_spec (waiting c s1) hw (requeueItems c.kind (deployed c d s1) (planKeys c s1))
  have hsites := putAll_sites (waiting c s1) hw (requeueItems c.kind (deployed c d s1) (planKeys c s1))
  have hitems : (requeueItems c.kind (deployed c d s1) (planKeys c s1)).map (·.2.2)
      = (planKeys c s1).filter (fun i => !isComplete (deployed c d s1 i)) := by
    unfold requeueItems; simp [List.map_map, Function.comp_def]
  rw [hitems] at hsites
  have hwaitmem : ∀ e ∈ (waiting c s1).entries, e ∈ s1.q.entries := fun e he => List.mem_of_mem_drop he
  have hdisj : ∀ i, i ∈ planKeys c s1 → i ∈ (waiting c s1).sites → False := fun i a b => hnd.2.2 i a i b rfl
  have hmemq : ∀ i, i ∈ s1.q.sites ↔ i ∈ planKeys c s1 ∨ i ∈ (waiting c s1).sites := by
    intro i; rw [hsplit, List.mem_append]
  have hdq : ∀ i, (deployed c d s1 i).queued = (s1.pl i).queued := by
    intro i; unfold deployed; by_cases hi : i ∈ planKeys c s1 <;> simp [hi, applyOutcome_queued]
  unfold finishDay
  refine ⟨hspec.1, ?_, ?_, ?_, ?_, ?_⟩
  · rw [hsites.nodup_iff, List.nodup_append]
    refine ⟨hnd.2.1, hnd.1.sublist List.filter_sublist, ?_⟩
    intro a ha b hb hab
    subst hab
    exact hdisj a (List.mem_filter.1 hb).1 ha
  · intro i
    simp only
    rw [hsites.mem_iff, List.mem_append, List.mem_filter]
    by_cases hk : i ∈ planKeys c s1
    · cases hcpl : isComplete (deployed c d s1 i)
      · simp only [hk, hcpl, true_and, Bool.false_eq_true, and_false, if_false, Bool.not_false, and_true]
        rw [hdq, h.flag i, hmemq]
        simp [hk]
      · simp only [hk, hcpl, and_self, if_true, finish, Bool.false_eq_true, Bool.not_true, and_false, or_false,
          false_iff]
        exact hdisj i hk
    · simp only [hk, false_and, if_false, or_false]
      rw [hdq, h.flag i, hmemq]
      simp [hk]
  · intro e he
    simp only
    have he' := (hspec.2.1.mem_iff).1 he
    rw [List.mem_append] at he'
    rcases he' with he' | he'
    · have hes : e.site ∈ (waiting c s1).sites := (mem_sites_iff _ _).2 ⟨e, he', rfl⟩
      have hnk : e.site ∉ planKeys c s1 := fun hk => hdisj _ hk hes
      simp only [hnk, false_and, if_false, deployed]
      exact h.cls1 e (hwaitmem e he')
    · have hit := stamp_item _ _ e he'
      unfold requeueItems at hit
      simp only [List.mem_map, List.mem_filter] at hit
      obtain ⟨i, ⟨hik, hinc⟩, hieq⟩ := hit
      have h1 : e.cls = requeueClass (deployed c d s1 i) := by injection hieq with a b; exact a.symm
      have h2 : e.site = i := by injection hieq with a b; injection b with b1 b2; exact b2.symm
      have hinc' : isComplete (deployed c d s1 i) = false := by simpa using hinc
      rw [h1, h2]
      simp only [hik, hinc', true_and, Bool.false_eq_true, if_false]
      unfold requeueClass
      cases hip : inProgress (deployed c d s1 i) <;> simp [prioUnfinished, prioUnattended]
  · intro i
    simp only
    by_cases hk : i ∈ planKeys c s1
    · cases hcpl : isComplete (deployed c d s1 i)
      · simp [hk, hcpl]
      · simp [hk, hcpl, finish, isComplete]
    · simp only [hk, false_and, if_false, deployed]
      exact h.notComplete i
  · intro i
    simp only
    by_cases hk : i ∈ planKeys c s1
    · cases hcpl : isComplete (deployed c d s1 i)
      · simp only [hk, hcpl, true_and, Bool.false_eq_true, if_false]
        intro hq
        rw [hdq] at hq
        have := (h.flag i).2 ((hmemq i).2 (Or.inl hk))
        rw [hq] at this
        exact Bool.noConfusion this
      · simp [hk, hcpl, finish]
    · simp only [hk, false_and, if_false, deployed]
      exact h.idle i

theorem inv_scheduleDay (c : Cfg) (hc : c.sites.Nodup) (d : DayIn) (s : State) (h : Inv s) :
    Inv (scheduleDay c d s) := by
  rw [scheduleDay_eq]
  exact inv_finishDay c d _ (inv_request c hc d.date s h)

/-! ### follow-up operations -/

theorem inv_fuAdd (cls site : Nat) (rate : Int) (s : State) (h : Inv s)
    (hq : (s.pl site).queued = false) (hc : cls ≠ prioUnfinished) : Inv (fuAdd cls site rate s) := by
  have hns : site ∉ s.q.sites := by
    intro hin
    have := (h.flag site).2 hin
    rw [hq] at this
    exact Bool.noConfusion this
  have hperm := put_perm s.q (effClass cls { queued := true, log := (s.pl site).log, rep := none, rate := rate })
    rate site
  have hsites : (s.q.put (effClass cls { queued := true, log := (s.pl site).log, rep := none, rate := rate })
      rate site).sites.Perm (site :: s.q.sites) := by
    have := hperm.map (·.site)
    simpa [Queue.sites] using this
  unfold fuAdd
  refine ⟨qwf_put _ h.qwf _ _ _, ?_, ?_, ?_, ?_, ?_⟩
  · rw [hsites.nodup_iff, List.nodup_cons]; exact ⟨hns, h.nodup⟩
  · intro i
    simp only
    rw [hsites.mem_iff, List.mem_cons]
    by_cases hi : i = site
    · simp [hi]
    · simp [hi, h.flag i]
  · intro e he
    simp only
    have he' := (hperm.mem_iff).1 he
    rcases List.mem_cons.1 he' with rfl | he'
    · simp [effClass, inProgress]; exact hc
    · have hne : e.site ≠ site := by
        intro heq
        exact hns ((mem_sites_iff _ _).2 ⟨e, he', heq⟩)
      simp only [hne, if_false]
      exact h.cls1 e he'
  · intro i
    simp only
    by_cases hi : i = site
    · simp [hi, isComplete]
    · simp only [hi, if_false]; exact h.notComplete i
  · intro i
    simp only
    by_cases hi : i = site
    · simp [hi]
    · simp only [hi, if_false]; exact h.idle i

/-- the queue rebuilt by `get_plan_from_queue` -/
theorem extract_spec (q : Queue) (hq : QWF q) (site : Nat) :
    QWF (q.extract site).2 ∧ (q.extract site).2.sites.Perm (q.sites.filter (· ≠ site)) ∧
    (∀ e' ∈ (q.extract site).2.entries, ∃ e ∈ q.entries, e.site ≠ site ∧ e'.cls = e.cls ∧ e'.rate = e.rate
        ∧ e'.site = e.site) ∧
    ((q.extract site).1 = none ↔ site ∉ q.sites) := by
  have hfold : ∀ (l : List Entry) (nq : Queue),
      l.foldl (fun nq e => nq.put e.cls e.rate e.site) nq = putAll nq (l.map (fun e => (e.cls, e.rate, e.site))) := by
    intro l
    induction l with
    | nil => intro nq; rfl
    | cons x xs ih => intro nq; simp [putAll, ih]
  unfold Queue.extract
  simp only [hfold]
  have hspec := putAll_spec Queue.empty qwf_empty
    ((q.entries.filter (fun e => e.site ≠ site)).map (fun e => (e.cls, e.rate, e.site)))
  have hsites := putAll_sites Queue.empty qwf_empty
    ((q.entries.filter (fun e => e.site ≠ site)).map (fun e => (e.cls, e.rate, e.site)))
  refine ⟨hspec.1, ?_, ?_, ?_⟩
  · refine hsites.trans ?_
    simp only [Queue.empty, Queue.sites, List.map_nil, List.nil_append, List.map_map, Function.comp_def]
    rw [List.filter_map]
    exact List.Perm.refl _
  · intro e' he'
    have := (hspec.2.1.mem_iff).1 he'
    simp only [Queue.empty, List.nil_append] at this
    have hit := stamp_item _ _ e' this
    simp only [List.mem_map, List.mem_filter] at hit
    obtain ⟨e, ⟨hemem, hene⟩, heq⟩ := hit
    refine ⟨e, hemem, by simpa using hene, ?_, ?_, ?_⟩
    · injection heq with a b; exact a.symm
    · injection heq with a b; injection b with b1 b2; exact b1.symm
    · injection heq with a b; injection b with b1 b2; exact b2.symm
  · rw [List.getLast?_eq_none_iff, List.filter_eq_nil_iff, mem_sites_iff]
    constructor
    · intro hall hex
      obtain ⟨e, he, hes⟩ := hex
      have := hall e he
      simp [hes] at this
    · intro hnex e he
      simp only [decide_eq_true_eq]
      intro hes
      exact hnex ⟨e, he, hes⟩

theorem inv_fuRedetect (site : Nat) (rate : Int) (cls : Nat) (s : State) (h : Inv s)
    (hc : cls ≠ prioUnfinished) : Inv (fuRedetect site rate cls s) := by
  obtain ⟨hqwf, hsites, hent, hnone⟩ := extract_spec s.q h.qwf site
  have hfnd : (s.q.sites.filter (· ≠ site)).Nodup := h.nodup.sublist List.filter_sublist
  have hmemf : ∀ i, i ∈ (s.q.extract site).2.sites ↔ (i ∈ s.q.sites ∧ i ≠ site) := by
    intro i; rw [hsites.mem_iff, List.mem_filter]; simp
  have hcls : ∀ e' ∈ (s.q.extract site).2.entries,
      e'.site ≠ site ∧ (e'.cls = prioUnfinished ↔ inProgress (s.pl e'.site) = true) := by
    intro e' he'
    obtain ⟨e, he, hne, h1, _, h3⟩ := hent e' he'
    rw [h1, h3]
    exact ⟨hne, h.cls1 e he⟩
  unfold fuRedetect
  simp only
  split
  · rename_i hx
    have hnin := hnone.1 hx
    refine ⟨hqwf, ?_, ?_, ?_, h.notComplete, h.idle⟩
    · rw [hsites.nodup_iff]; exact hfnd
    · intro i
      rw [h.flag i, hmemf]
      constructor
      · intro hi; exact ⟨hi, fun heq => hnin (heq ▸ hi)⟩
      · intro hi; exact hi.1
    · intro e' he'; exact (hcls e' he').2
  · rename_i t hx
    have hin : site ∈ s.q.sites := by
      apply Classical.byContradiction
      intro hnin
      rw [hnone.2 hnin] at hx
      cases hx
    by_cases hz : cls = 0
    · simp only [hz, if_true]
      refine ⟨hqwf, ?_, ?_, ?_, ?_, ?_⟩
      · rw [hsites.nodup_iff]; exact hfnd
      · intro i
        simp only
        rw [hmemf]
        by_cases hi : i = site
        · simp [hi]
        · simp [hi, h.flag i]
      · intro e' he'
        simp only [(hcls e' he').1, if_false]
        exact (hcls e' he').2
      · intro i
        simp only
        by_cases hi : i = site
        · simp [hi, isComplete]
        · simp only [hi, if_false]; exact h.notComplete i
      · intro i
        simp only
        by_cases hi : i = site
        · simp [hi]
        · simp only [hi, if_false]; exact h.idle i
    · simp only [hz, if_false]
      have hperm := put_perm (s.q.extract site).2 (effClass cls { s.pl site with rate := rate }) rate site
      have hsites2 : ((s.q.extract site).2.put (effClass cls { s.pl site with rate := rate }) rate site).sites.Perm
          (site :: (s.q.extract site).2.sites) := by
        have := hperm.map (·.site)
        simpa [Queue.sites] using this
      refine ⟨qwf_put _ hqwf _ _ _, ?_, ?_, ?_, ?_, ?_⟩
      · rw [hsites2.nodup_iff, List.nodup_cons, hsites.nodup_iff]
        refine ⟨?_, hfnd⟩
        rw [hmemf]; simp
      · intro i
        simp only
        rw [hsites2.mem_iff, List.mem_cons, hmemf]
        by_cases hi : i = site
        · simp [hi, (h.flag site).2 hin]
        · simp [hi, h.flag i]
      · intro e he
        simp only
        have he' := (hperm.mem_iff).1 he
        rcases List.mem_cons.1 he' with rfl | he'
        · simp only [if_true, effClass]
          have hip : inProgress { s.pl site with rate := rate } = inProgress (s.pl site) := rfl
          rw [hip]
          cases hrp : inProgress (s.pl site)
          · simp; exact hc
          · simp
        · simp only [(hcls e he').1, if_false]
          exact (hcls e he').2
      · intro i
        simp only
        by_cases hi : i = site
        · have := h.notComplete site
          simp only [hi, if_true]
          unfold isComplete at *
          exact this
        · simp only [hi, if_false]; exact h.notComplete i
      · intro i
        simp only
        by_cases hi : i = site
        · simp [hi, (h.flag site).2 hin]
        · simp only [hi, if_false]; exact h.idle i

/-! ### histories -/

/-- what the callers of the follow-up schedule guarantee: a site is flagged for the first time only
while it has no outstanding follow-up (one shared flag dictionary), the classes handed in are the
ones the code uses (2, 3; 0 = dropped) -/
def OpOK (s : State) : Op → Prop
  | .day _ => True
  | .add cls site _ => (s.pl site).queued = false ∧ (cls = prioUnattended ∨ cls = prioNew)
  | .redetect _ _ cls => cls = 0 ∨ cls = prioUnattended ∨ cls = prioNew

def RunOK (c : Cfg) : State → List Op → Prop
  | _, [] => True
  | s, o :: os => OpOK s o ∧ RunOK c (step c s o) os

instance (s : State) (o : Op) : Decidable (OpOK s o) := by
  cases o <;> unfold OpOK <;> infer_instance

instance decRunOK (c : Cfg) : (s : State) → (ops : List Op) → Decidable (RunOK c s ops)
  | _, [] => isTrue trivial
  | s, o :: os => by
    unfold RunOK
    exact @instDecidableAnd _ _ inferInstance (decRunOK c (step c s o) os)

theorem inv_step (c : Cfg) (hc : c.sites.Nodup) (s : State) (h : Inv s) (o : Op) (ho : OpOK s o) :
    Inv (step c s o) := by
  cases o with
  | day d => exact inv_scheduleDay c hc d s h
  | add cls site rate =>
    apply inv_fuAdd cls site rate s h ho.1
    rcases ho.2 with h2 | h2 <;> simp [h2, prioUnattended, prioNew, prioUnfinished]
  | redetect site rate cls =>
    apply inv_fuRedetect site rate cls s h
    rcases ho with h2 | h2 | h2 <;> simp [h2, prioUnattended, prioNew, prioUnfinished]

theorem inv_foldl (c : Cfg) (hc : c.sites.Nodup) (ops : List Op) (s : State) (h : Inv s)
    (hok : RunOK c s ops) : Inv (ops.foldl (step c) s) := by
  induction ops generalizing s with
  | nil => exact h
  | cons o os ih => exact ih _ (inv_step c hc s h o hok.1) hok.2

theorem inv_run (c : Cfg) (hc : c.sites.Nodup) (ops : List Op) (hok : RunOK c init ops) :
    Inv (run c ops) := inv_foldl c hc ops init inv_init hok

theorem inv_runDays (c : Cfg) (hc : c.sites.Nodup) (ds : List DayIn) : Inv (runDays c ds) := by
  unfold runDays
  have : ∀ s, Inv s → Inv (ds.foldl (fun s d => scheduleDay c d s) s) := by
    induction ds with
    | nil => intro s h; exact h
    | cons d ds ih => intro s h; exact ih _ (inv_scheduleDay c hc d s h)
  exact this init inv_init

/-! ### routine / stationary schedules: the class tells the whole state of the request -/

/-- entries of a routine queue: bare class (rate 0), class 3 exactly for requests that never were in
a work plan (no report yet), classes 1..3 only -/
def RInv (s : State) : Prop :=
  ∀ e ∈ s.q.entries, e.rate = 0 ∧ (e.cls = prioNew ↔ (s.pl e.site).rep = none) ∧
    (e.cls = prioUnfinished ∨ e.cls = prioUnattended ∨ e.cls = prioNew)

theorem rinv_init : RInv init := by simp [RInv, init]

theorem applyOutcome_rep_some (p : PlannerP) (o : Outcome) (s : PlannerS) :
    (applyOutcome p o s).rep ≠ none := by
  unfold applyOutcome; cases o <;> simp

theorem rinv_request (c : Cfg) (dt : Date) (s : State) (h : Inv s) (hr : RInv s) :
    RInv (requestPhase c dt s) := by
  have hnq := issued_not_queued c dt s
  have hspec := putAll_spec s.q h.qwf ((issued c dt s).map (fun i => (prioNew, (0 : Int), i)))
  unfold RInv requestPhase
  simp only [foldl_issue_eq]
  intro e he
  have he' := (hspec.2.1.mem_iff).1 he
  rw [List.mem_append] at he'
  have hrep : ∀ j, (if j ∈ issued c dt s then { s.pl j with queued := true } else s.pl j).rep = (s.pl j).rep := by
    intro j; by_cases hj : j ∈ issued c dt s <;> simp [hj]
  rw [hrep]
  rcases he' with he' | he'
  · exact hr e he'
  · have hit := stamp_item _ _ e he'
    simp only [List.mem_map] at hit
    obtain ⟨i, hi, hieq⟩ := hit
    have h1 : e.cls = prioNew := by injection hieq with a b; exact a.symm
    have h2 : e.site = i := by injection hieq with a b; injection b with b1 b2; exact b2.symm
    have h3 : e.rate = 0 := by injection hieq with a b; injection b with b1 b2; exact b1.symm
    have hrn := h.idle i (hnq i hi)
    rw [h2, hrn]
    simp [h1, h3]

theorem rinv_finishDay (c : Cfg) (hk : c.kind ≠ .followup) (d : DayIn) (s1 : State) (h : Inv s1)
    (hr : RInv s1) : RInv (finishDay c d s1) := by
  have hsplit := sites_split c s1 h
  have hnd := h.nodup
  rw [hsplit, List.nodup_append] at hnd
  have hw : QWF (waiting c s1) := qwf_drop s1.q h.qwf _
  have hspec := putAll_spec (waiting c s1) hw (requeueItems c.kind (deployed c d s1) (planKeys c s1))
  unfold RInv finishDay
  intro e he
  simp only at he ⊢
  have he' := (hspec.2.1.mem_iff).1 he
  rw [List.mem_append] at he'
  rcases he' with he' | he'
  · have hes : e.site ∈ (waiting c s1).sites := (mem_sites_iff _ _).2 ⟨e, he', rfl⟩
    have hnk : e.site ∉ planKeys c s1 := fun hk => hnd.2.2 _ hk _ hes rfl
    simp only [hnk, false_and, if_false, deployed]
    exact hr e (List.mem_of_mem_drop he')
  · have hit := stamp_item _ _ e he'
    unfold requeueItems at hit
    simp only [List.mem_map, List.mem_filter] at hit
    obtain ⟨i, ⟨hik, hinc⟩, hieq⟩ := hit
    have h1 : e.cls = requeueClass (deployed c d s1 i) := by injection hieq with a b; exact a.symm
    have h2 : e.site = i := by injection hieq with a b; injection b with b1 b2; exact b2.symm
    have h3 : e.rate = rateOf c.kind (deployed c d s1 i) := by
      injection hieq with a b; injection b with b1 b2; exact b1.symm
    have hinc' : isComplete (deployed c d s1 i) = false := by simpa using hinc
    have hsome : (deployed c d s1 i).rep ≠ none := by
      unfold deployed; simp only [hik, if_true]; exact applyOutcome_rep_some _ _ _
    rw [h1, h2, h3]
    simp only [hik, hinc', true_and, Bool.false_eq_true, if_false]
    refine ⟨?_, ?_, ?_⟩
    · unfold rateOf; cases hkk : c.kind <;> simp_all
    · unfold requeueClass
      cases hip : inProgress (deployed c d s1 i) <;> simp [prioUnfinished, prioUnattended, prioNew, hsome]
    · unfold requeueClass
      cases hip : inProgress (deployed c d s1 i) <;> simp

theorem rinv_runDays (c : Cfg) (hc : c.sites.Nodup) (hk : c.kind ≠ .followup) (ds : List DayIn) :
    Inv (runDays c ds) ∧ RInv (runDays c ds) := by
  unfold runDays
  have : ∀ s, Inv s ∧ RInv s →
      Inv (ds.foldl (fun s d => scheduleDay c d s) s) ∧ RInv (ds.foldl (fun s d => scheduleDay c d s) s) := by
    induction ds with
    | nil => intro s h; exact h
    | cons d ds ih =>
      intro s h
      apply ih
      refine ⟨inv_scheduleDay c hc d s h.1, ?_⟩
      show RInv (scheduleDay c d s)
      rw [scheduleDay_eq]
      exact rinv_finishDay c hk d _ (inv_request c hc d.date s h.1) (rinv_request c d.date s h.1 h.2)
  exact this init ⟨inv_init, rinv_init⟩

/-! ### classes are 1, 2 or 3 for every history -/

def ClsPos (s : State) : Prop := ∀ e ∈ s.q.entries, 1 ≤ e.cls

theorem clspos_init : ClsPos init := by simp [ClsPos, init]

theorem clspos_putAll (q : Queue) (hq : QWF q) (items : List (Nat × Int × Nat))
    (h : ∀ e ∈ q.entries, 1 ≤ e.cls) (hi : ∀ x ∈ items, 1 ≤ x.1) :
    ∀ e ∈ (putAll q items).entries, 1 ≤ e.cls := by
  intro e he
  have he' := ((putAll_spec q hq items).2.1.mem_iff).1 he
  rcases List.mem_append.1 he' with he' | he'
  · exact h e he'
  · exact hi _ (stamp_item _ _ e he')

theorem clspos_scheduleDay (c : Cfg) (hc : c.sites.Nodup) (d : DayIn) (s : State) (h : Inv s)
    (hp : ClsPos s) :
    ClsPos (scheduleDay c d s) := by
  rw [scheduleDay_eq]
  have h1 : ClsPos (requestPhase c d.date s) := by
    unfold ClsPos requestPhase
    simp only [foldl_issue_eq]
    apply clspos_putAll s.q h.qwf _ hp
    intro x hx
    simp only [List.mem_map] at hx
    obtain ⟨i, _, rfl⟩ := hx
    simp [prioNew]
  unfold ClsPos finishDay
  simp only
  have hw : QWF (waiting c (requestPhase c d.date s)) := qwf_drop _ (inv_request c hc d.date s h).qwf _
  apply clspos_putAll _ hw
  · intro e he; exact h1 e (List.mem_of_mem_drop he)
  · intro x hx
    unfold requeueItems at hx
    simp only [List.mem_map] at hx
    obtain ⟨i, _, rfl⟩ := hx
    simp only [requeueClass]
    split <;> simp [prioUnfinished, prioUnattended]

theorem clspos_step (c : Cfg) (hc : c.sites.Nodup) (s : State) (h : Inv s) (hp : ClsPos s) (o : Op)
    (ho : OpOK s o) : ClsPos (step c s o) := by
  cases o with
  | day d => exact clspos_scheduleDay c hc d s h hp
  | add cls site rate =>
    unfold ClsPos
    intro e he
    simp only [step, fuAdd] at he
    rcases List.mem_cons.1 ((put_perm _ _ _ _).mem_iff.1 he) with rfl | he'
    · simp only [effClass]
      rcases ho.2 with h2 | h2 <;> split <;> simp [h2, prioUnfinished, prioUnattended, prioNew]
    · exact hp e he'
  | redetect site rate cls =>
    obtain ⟨_, _, hent, _⟩ := extract_spec s.q h.qwf site
    have hold : ∀ e' ∈ (s.q.extract site).2.entries, 1 ≤ e'.cls := by
      intro e' he'
      obtain ⟨e, he, _, h1, _, _⟩ := hent e' he'
      rw [h1]; exact hp e he
    unfold ClsPos
    intro e he
    simp only [step, fuRedetect] at he
    split at he
    · exact hold e he
    · split at he
      · exact hold e he
      · rename_i hz
        rcases List.mem_cons.1 ((put_perm _ _ _ _).mem_iff.1 he) with rfl | he'
        · simp only [effClass]
          rcases ho with h2 | h2 | h2
          · exact absurd h2 hz
          · split <;> simp [h2, prioUnfinished, prioUnattended]
          · split <;> simp [h2, prioUnfinished, prioNew]
        · exact hold e he'

theorem inv_clspos_foldl (c : Cfg) (hc : c.sites.Nodup) (ops : List Op) (s : State) (h : Inv s)
    (hp : ClsPos s) (hok : RunOK c s ops) : ClsPos (ops.foldl (step c) s) := by
  induction ops generalizing s with
  | nil => exact hp
  | cons o os ih => exact ih _ (inv_step c hc s h o hok.1) (clspos_step c hc s h hp o hok.1) hok.2

theorem clspos_run (c : Cfg) (hc : c.sites.Nodup) (ops : List Op) (hok : RunOK c init ops) :
    ClsPos (run c ops) := inv_clspos_foldl c hc ops init inv_init clspos_init hok

/-! ### per-site view of one day (used by C06) -/

theorem applyOutcome_log (p : PlannerP) (o : Outcome) (x : PlannerS) : (applyOutcome p o x).log = x.log := by
  unfold applyOutcome; cases o <;> rfl

theorem request_log (c : Cfg) (dt : Date) (s : State) (i : Nat) :
    ((requestPhase c dt s).pl i).log = (s.pl i).log := by
  unfold requestPhase; simp only; split <;> rfl

theorem request_queued (c : Cfg) (dt : Date) (s : State) (i : Nat) :
    ((requestPhase c dt s).pl i).queued = ((s.pl i).queued || decide (i ∈ issued c dt s)) := by
  unfold requestPhase; simp only
  by_cases h : i ∈ issued c dt s <;> simp [h]

theorem deployed_log (c : Cfg) (d : DayIn) (s1 : State) (i : Nat) :
    (deployed c d s1 i).log = (s1.pl i).log := by
  unfold deployed; split
  · exact applyOutcome_log _ _ _
  · rfl

theorem deployed_queued (c : Cfg) (d : DayIn) (s1 : State) (i : Nat) :
    (deployed c d s1 i).queued = (s1.pl i).queued := by
  unfold deployed; split
  · exact applyOutcome_queued _ _ _
  · rfl

/-- site `i`'s survey completes on day `d` started in state `s` -/
def completesAt (c : Cfg) (d : DayIn) (s : State) (i : Nat) : Bool :=
  decide (i ∈ planKeys c (requestPhase c d.date s)) && isComplete (deployed c d (requestPhase c d.date s) i)

/-- the planner of site `i` after a day: either the survey completed today (then the year is logged
and the flag cleared) or log and flag are those after the request phase -/
theorem day_site (c : Cfg) (d : DayIn) (s : State) (i : Nat) :
    ((scheduleDay c d s).pl i).log =
        (if completesAt c d s i then d.date.y :: (s.pl i).log else (s.pl i).log) ∧
    ((scheduleDay c d s).pl i).queued =
        (if completesAt c d s i then false else ((requestPhase c d.date s).pl i).queued) := by
  rw [scheduleDay_eq]
  unfold finishDay completesAt
  simp only [Bool.and_eq_true, decide_eq_true_eq]
  split
  · simp only [finish, deployed_log, request_log, and_self]
  · simp only [deployed_log, request_log, deployed_queued, and_self]

theorem planKeys_queued (c : Cfg) (s1 : State) (h : Inv s1) (i : Nat) (hi : i ∈ planKeys c s1) :
    (s1.pl i).queued = true := by
  apply (h.flag i).2
  rw [sites_split c s1 h]
  exact List.mem_append_left _ hi

end LdarModel.Sched
