import LdarModel.Model.Sensor
/-
Helper lemmas for the sensor model: the measuring function, sticky spatial coverage, the visible
list (append / frame), bounds of the rates by the total rate, and the shape of a report.
-/
namespace LdarModel.Sensor

/-! ### the measuring function -/

theorem measure_nonneg (mdl err r : Int) : 0 ≤ measure mdl err r := by
  unfold measure; split <;> omega

theorem measure_ne_zero (mdl err r : Int) (h : measure mdl err r ≠ 0) : mdl ≤ r := by
  unfold measure at h; split at h <;> omega

theorem measure_below (mdl err r : Int) (h : r < mdl) : measure mdl err r = 0 := by
  unfold measure; split <;> omega

theorem measure_zero_rate (mdl err : Int) : measure mdl err 0 = 0 := by
  unfold measure; split <;> simp

/-! ### sticky spatial coverage -/

theorem lookup_cons_self (m : Nat) (b : Bool) (l : List (Nat × Bool)) : lookup m ((m, b) :: l) = some b := by
  simp [lookup]

theorem lookup_cons_ne (m k : Nat) (b : Bool) (l : List (Nat × Bool)) (h : k ≠ m) :
    lookup m ((k, b) :: l) = lookup m l := by
  simp [lookup, h]

/-- the outcome of a check is the model's `spatialOutcome`, and it is what is stored afterwards -/
theorem checkSpatialCov_outcome (m : Nat) (e : Emis) (r : Rolls) :
    (checkSpatialCov m r.spatial e).outcome = spatialOutcome m e r ∧
    covOf m (checkSpatialCov m r.spatial e).e = some (spatialOutcome m e r) := by
  unfold checkSpatialCov spatialOutcome
  cases h : covOf m e with
  | some b => simp [h]
  | none => simp [covOf, lookup]

/-- a roll is drawn exactly when nothing is stored -/
theorem checkSpatialCov_consumed (m : Nat) (roll : Bool) (e : Emis) :
    (checkSpatialCov m roll e).consumed = (covOf m e).isNone := by
  unfold checkSpatialCov
  cases h : covOf m e <;> simp

/-- once something is stored, a check returns it, draws nothing and changes nothing -/
theorem checkSpatialCov_stored (m : Nat) (roll b : Bool) (e : Emis) (h : covOf m e = some b) :
    checkSpatialCov m roll e = { e := e, outcome := b, consumed := false } := by
  unfold checkSpatialCov; simp [h]

/-- a check by another method leaves the stored outcome of `m` alone -/
theorem checkSpatialCov_other (m m' : Nat) (roll : Bool) (e : Emis) (h : m' ≠ m) :
    covOf m (checkSpatialCov m' roll e).e = covOf m e := by
  unfold checkSpatialCov
  cases h' : covOf m' e with
  | some b => simp
  | none => simp [covOf, lookup, h]

/-- a check only touches the coverage store -/
theorem checkSpatialCov_frame (m : Nat) (roll : Bool) (e : Emis) :
    let e' := (checkSpatialCov m roll e).e
    e'.id = e.id ∧ e'.site = e.site ∧ e'.eqg = e.eqg ∧ e'.comp = e.comp ∧ e'.rate = e.rate ∧
    e'.active = e.active ∧ e'.emitting = e.emitting := by
  unfold checkSpatialCov
  cases h : covOf m e <;> simp

/-! ### one emission under a survey -/

theorem detectOne_vis (m s : Nat) (x : Emis × Rolls) : (detectOne m s x).vis = visible m s x := by
  unfold detectOne visible
  have h := (checkSpatialCov_outcome m x.1 x.2).1
  by_cases hs : inScope s x.1 = true
  · simp only [hs, if_true, Bool.true_and]
    rw [h]
    by_cases ho : (spatialOutcome m x.1 x.2 && x.1.emitting) = true
    · simp [ho]
    · simp only [ho]
      simp at ho ⊢
  · simp [hs]

theorem detectOne_frame (m s : Nat) (x : Emis × Rolls) :
    let e' := (detectOne m s x).e
    e'.id = x.1.id ∧ e'.site = x.1.site ∧ e'.eqg = x.1.eqg ∧ e'.comp = x.1.comp ∧ e'.rate = x.1.rate ∧
    e'.active = x.1.active ∧ e'.emitting = x.1.emitting := by
  have h := checkSpatialCov_frame m x.2.spatial x.1
  unfold detectOne
  by_cases hs : inScope s x.1 = true
  · simp only [hs, if_true]
    split <;> exact h
  · simp [hs]

/-- an emission that is not examined is returned untouched and no roll is drawn for it -/
theorem detectOne_out_of_scope (m s : Nat) (x : Emis × Rolls) (h : inScope s x.1 = false) :
    detectOne m s x = { e := x.1, vis := false, sRoll := false, tRoll := false } := by
  unfold detectOne; simp [h]

/-- an examined emission has an outcome stored afterwards: the model's `spatialOutcome` -/
theorem detectOne_stores (m s : Nat) (x : Emis × Rolls) (h : inScope s x.1 = true) :
    covOf m (detectOne m s x).e = some (spatialOutcome m x.1 x.2) ∧
    (detectOne m s x).sRoll = (covOf m x.1).isNone := by
  have h1 := (checkSpatialCov_outcome m x.1 x.2).2
  have h2 := checkSpatialCov_consumed m x.2.spatial x.1
  unfold detectOne
  simp only [h, if_true]
  split <;> exact ⟨h1, h2⟩

/-- a survey by another method does not touch the stored outcome of `m` -/
theorem detectOne_other (m m' s : Nat) (x : Emis × Rolls) (h : m' ≠ m) :
    covOf m (detectOne m' s x).e = covOf m x.1 := by
  have h1 := checkSpatialCov_other m m' x.2.spatial x.1 h
  unfold detectOne
  by_cases hs : inScope s x.1 = true
  · simp only [hs, if_true]
    split <;> exact h1
  · simp [hs]

/-! ### the visible list -/

theorem visList_nil : visList [] = [] := rfl

theorem visList_cons (o : Obs) (os : List Obs) :
    visList (o :: os) = if o.vis then o.e :: visList os else visList os := by
  unfold visList
  by_cases h : o.vis = true <;> simp [h]

theorem visList_append (a b : List Obs) : visList (a ++ b) = visList a ++ visList b := by
  unfold visList; simp

theorem detect_append (m s : Nat) (a b : List (Emis × Rolls)) :
    detect m s (a ++ b) = detect m s a ++ detect m s b := by
  unfold detect; simp

theorem detect_cons (m s : Nat) (x : Emis × Rolls) (xs : List (Emis × Rolls)) :
    detect m s (x :: xs) = detectOne m s x :: detect m s xs := rfl

/-- an invisible emission contributes nothing to the visible list, wherever it stands -/
theorem visList_detect_invisible (m s : Nat) (pre post : List (Emis × Rolls)) (x : Emis × Rolls)
    (h : visible m s x = false) :
    visList (detect m s (pre ++ x :: post)) = visList (detect m s (pre ++ post)) := by
  have hv : (detectOne m s x).vis = false := by rw [detectOne_vis]; exact h
  rw [detect_append, detect_append, detect_cons, visList_append, visList_append, visList_cons]
  simp [hv]

/-- if no emission is visible, the visible list is empty -/
theorem visList_detect_none (m s : Nat) (xs : List (Emis × Rolls))
    (h : ∀ x ∈ xs, visible m s x = false) : visList (detect m s xs) = [] := by
  induction xs with
  | nil => rfl
  | cons x xs ih =>
    have hv : (detectOne m s x).vis = false := by rw [detectOne_vis]; exact h x (by simp)
    rw [detect_cons, visList_cons]
    simp only [hv]
    exact ih (fun y hy => h y (by simp [hy]))

/-- every member of the visible list is a visible emission of the survey (with its rate and place) -/
theorem mem_visList_detect (m s : Nat) (xs : List (Emis × Rolls)) (e : Emis)
    (h : e ∈ visList (detect m s xs)) :
    ∃ x ∈ xs, visible m s x = true ∧ e.id = x.1.id ∧ e.rate = x.1.rate ∧ e.site = x.1.site ∧
      e.eqg = x.1.eqg ∧ e.comp = x.1.comp ∧ covOf m e = some true := by
  induction xs with
  | nil => simp [detect, visList] at h
  | cons x xs ih =>
    rw [detect_cons, visList_cons] at h
    by_cases hv : (detectOne m s x).vis = true
    · simp only [hv, if_true, List.mem_cons] at h
      cases h with
      | inl he =>
        have hf := detectOne_frame m s x
        have hvis : visible m s x = true := by rw [← detectOne_vis]; exact hv
        have hsc : inScope s x.1 = true := by
          unfold visible at hvis
          cases hh : inScope s x.1 <;> simp_all
        have hso : spatialOutcome m x.1 x.2 = true := by
          unfold visible at hvis
          cases hh : spatialOutcome m x.1 x.2 <;> simp_all
        have hst := (detectOne_stores m s x hsc).1
        rw [hso] at hst
        refine ⟨x, by simp, hvis, ?_⟩
        subst he
        simp only at hf
        exact ⟨hf.1, hf.2.2.2.2.1, hf.2.1, hf.2.2.1, hf.2.2.2.1, hst⟩
      | inr he =>
        obtain ⟨y, hy, rest⟩ := ih he
        exact ⟨y, by simp [hy], rest⟩
    · simp only [hv] at h
      obtain ⟨y, hy, rest⟩ := ih (by simpa using h)
      exact ⟨y, by simp [hy], rest⟩

/-! ### rates are bounded by the total rate of the site's emissions -/

theorem sumRates_nil : sumRates [] = 0 := rfl

theorem sumRates_filter_le (p : Emis → Bool) (l : List Emis) (h : ∀ e ∈ l, 0 ≤ e.rate) :
    sumRates (l.filter p) ≤ sumRates l := by
  induction l with
  | nil => simp [sumRates]
  | cons e l ih =>
    have h0 := h e (by simp)
    have ih' := ih (fun y hy => h y (by simp [hy]))
    by_cases hp : p e = true
    · simp only [List.filter_cons, hp, if_true, sumRates]; omega
    · simp only [List.filter_cons, hp, sumRates]; simp; omega

theorem sumRates_nonneg (l : List Emis) (h : ∀ e ∈ l, 0 ≤ e.rate) : 0 ≤ sumRates l := by
  induction l with
  | nil => simp [sumRates]
  | cons e l ih =>
    have h0 := h e (by simp)
    have ih' := ih (fun y hy => h y (by simp [hy]))
    simp only [sumRates]; omega

/-- total true rate of everything at the site, visible or not -/
def totalRate (xs : List (Emis × Rolls)) : Int := sumRates (xs.map (·.1))

theorem visList_rates_nonneg (m s : Nat) (xs : List (Emis × Rolls)) (h : ∀ x ∈ xs, 0 ≤ x.1.rate) :
    ∀ e ∈ visList (detect m s xs), 0 ≤ e.rate := by
  intro e he
  obtain ⟨x, hx, _, _, hr, _⟩ := mem_visList_detect m s xs e he
  rw [hr]; exact h x hx

theorem sumRates_visList_le (m s : Nat) (xs : List (Emis × Rolls)) (h : ∀ x ∈ xs, 0 ≤ x.1.rate) :
    sumRates (visList (detect m s xs)) ≤ totalRate xs := by
  induction xs with
  | nil => simp [detect, visList, totalRate, sumRates]
  | cons x xs ih =>
    have h0 := h x (by simp)
    have ih' := ih (fun y hy => h y (by simp [hy]))
    have hf := (detectOne_frame m s x).2.2.2.2.1
    rw [detect_cons, visList_cons]
    unfold totalRate at *
    by_cases hv : (detectOne m s x).vis = true
    · rw [if_pos hv]; simp only [sumRates, List.map_cons]; omega
    · rw [if_neg hv]; simp only [sumRates, List.map_cons]; omega

/-- the visible rate of any part of the site is at most the total rate of the site's emissions -/
theorem rate_filter_le_total (p : Emis → Bool) (m s : Nat) (xs : List (Emis × Rolls))
    (h : ∀ x ∈ xs, 0 ≤ x.1.rate) :
    sumRates ((visList (detect m s xs)).filter p) ≤ totalRate xs := by
  have h1 := sumRates_filter_le p _ (visList_rates_nonneg m s xs h)
  have h2 := sumRates_visList_le m s xs h
  omega

/-! ### sums of measured rates -/

theorem sumMeasC_nonneg (l : List CompRep) (h : ∀ r ∈ l, 0 ≤ r.measured) : 0 ≤ sumMeasC l := by
  induction l with
  | nil => simp [sumMeasC]
  | cons r l ih =>
    have h0 := h r (by simp)
    have ih' := ih (fun y hy => h y (by simp [hy]))
    simp only [sumMeasC]; omega

theorem sumMeasC_ne_zero (l : List CompRep) (h : sumMeasC l ≠ 0) : ∃ r ∈ l, r.measured ≠ 0 := by
  induction l with
  | nil => simp [sumMeasC] at h
  | cons r l ih =>
    by_cases hr : r.measured = 0
    · simp only [sumMeasC, hr] at h
      obtain ⟨y, hy, hy'⟩ := ih (by omega)
      exact ⟨y, by simp [hy], hy'⟩
    · exact ⟨r, by simp, hr⟩

theorem sumMeasC_zero (l : List CompRep) (h : ∀ r ∈ l, r.measured = 0) : sumMeasC l = 0 := by
  induction l with
  | nil => rfl
  | cons r l ih =>
    have h0 := h r (by simp)
    have ih' := ih (fun y hy => h y (by simp [hy]))
    simp only [sumMeasC]; omega

theorem sumMeasE_nonneg (l : List EqgRep) (h : ∀ r ∈ l, 0 ≤ r.measured) : 0 ≤ sumMeasE l := by
  induction l with
  | nil => simp [sumMeasE]
  | cons r l ih =>
    have h0 := h r (by simp)
    have ih' := ih (fun y hy => h y (by simp [hy]))
    simp only [sumMeasE]; omega

theorem sumMeasE_ne_zero (l : List EqgRep) (h : sumMeasE l ≠ 0) : ∃ r ∈ l, r.measured ≠ 0 := by
  induction l with
  | nil => simp [sumMeasE] at h
  | cons r l ih =>
    by_cases hr : r.measured = 0
    · simp only [sumMeasE, hr] at h
      obtain ⟨y, hy, hy'⟩ := ih (by omega)
      exact ⟨y, by simp [hy], hy'⟩
    · exact ⟨r, by simp, hr⟩

theorem sumMeasE_zero (l : List EqgRep) (h : ∀ r ∈ l, r.measured = 0) : sumMeasE l = 0 := by
  induction l with
  | nil => rfl
  | cons r l ih =>
    have h0 := h r (by simp)
    have ih' := ih (fun y hy => h y (by simp [hy]))
    simp only [sumMeasE]; omega

/-! ### shape of a report -/

/-- what one component line of a component-scale report says -/
theorem compRep_sound (vis : List Emis) (mdl : Int) (s g : Nat) (ce : Nat × Int) :
    let r := compRep vis mdl s g ce
    r.eqg = g ∧ r.comp = ce.1 ∧ r.trueRate = rateComp vis s g ce.1 ∧ 0 ≤ r.measured ∧
    (r.measured ≠ 0 → mdl ≤ rateComp vis s g ce.1) ∧
    (rateComp vis s g ce.1 < mdl → r.measured = 0) ∧ (rateComp vis s g ce.1 = 0 → r.measured = 0) := by
  unfold compRep
  refine ⟨rfl, rfl, rfl, measure_nonneg _ _ _, measure_ne_zero _ _ _, measure_below _ _ _, ?_⟩
  intro h; simp only [h]; exact measure_zero_rate _ _

theorem eqgRepG_sound (vis : List Emis) (mdl : Int) (s : Nat) (ge : Nat × Int) :
    let r := eqgRepG vis mdl s ge
    r.eqg = ge.1 ∧ r.trueRate = rateEqg vis s ge.1 ∧ 0 ≤ r.measured ∧
    (r.measured ≠ 0 → mdl ≤ rateEqg vis s ge.1) ∧
    (rateEqg vis s ge.1 < mdl → r.measured = 0) ∧ (rateEqg vis s ge.1 = 0 → r.measured = 0) ∧
    r.comps = [] := by
  unfold eqgRepG
  refine ⟨rfl, rfl, measure_nonneg _ _ _, measure_ne_zero _ _ _, measure_below _ _ _, ?_, rfl⟩
  intro h; simp only [h]; exact measure_zero_rate _ _

/-- component lines of a group report of the component-scale sensor -/
theorem mem_eqgRepC_comps (vis : List Emis) (mdl : Int) (s : Nat) (ge : Nat × List (Nat × Int))
    (cr : CompRep) (h : cr ∈ (eqgRepC vis mdl s ge).comps) :
    ∃ ce ∈ ge.2, cr = compRep vis mdl s ge.1 ce := by
  unfold eqgRepC at h
  simp only [List.mem_map] at h
  obtain ⟨ce, hce, rfl⟩ := h
  exact ⟨ce, hce, rfl⟩

theorem eqgRepC_measured_nonneg (vis : List Emis) (mdl : Int) (s : Nat) (ge : Nat × List (Nat × Int)) :
    0 ≤ (eqgRepC vis mdl s ge).measured := by
  unfold eqgRepC
  apply sumMeasC_nonneg
  intro r hr
  simp only [List.mem_map] at hr
  obtain ⟨ce, _, rfl⟩ := hr
  exact (compRep_sound vis mdl s ge.1 ce).2.2.2.1

end LdarModel.Sensor
