import LdarModel.Model.World
import LdarModel.Lemmas.Emission
import LdarModel.Lemmas.EmissionE
/-
Per-emission step facts for the daily ledger (C11).
-/
namespace LdarModel.World
open LdarModel.Emission

theorem events_status (p : Params) (d : Int) (evs : List Ev) (s : State) :
    (evs.foldl (fun s e => applyEv p d e s) s).status = s.status := by
  induction evs generalizing s with
  | nil => rfl
  | cons e evs ih =>
    simp only [List.foldl_cons]
    rw [ih]
    cases e with
    | tag e => simp only [applyEv]; unfold tag detectRec; grind
    | detect c => simp only [applyEv]; unfold detectRec; grind

theorem events_frozen (p : Params) (d : Int) (evs : List Ev) (s : State) (h : s.status ≠ .active) :
    evs.foldl (fun s e => applyEv p d e s) s = s := by
  induction evs with
  | nil => rfl
  | cons e evs ih =>
    simp only [List.foldl_cons]
    have : applyEv p d e s = s := by
      cases e with
      | tag e => simp only [applyEv]; unfold tag; simp [h]
      | detect c => simp only [applyEv]; simp [h]
    rw [this]; exact ih

/-- an ended emission never changes again -/
theorem dayE_frozen (p : Params) (d : Int) (evs : List Ev) (s : State)
    (h : s.status = .repaired ∨ s.status = .expired) : dayE p d evs s = s := by
  have h1 : activate p d s = s := by unfold activate; grind
  have h2 : s.status ≠ .active := by grind
  unfold dayE
  rw [h1, events_frozen p d evs s h2]
  unfold update; simp [h2]

/-- a pending emission whose start lies in the future stays pending -/
theorem dayE_pending (p : Params) (d : Int) (evs : List Ev) (s : State)
    (h : s.status = .inactive) (hs : ¬ p.start ≤ d) : (dayE p d evs s).status = .inactive := by
  have h1 : activate p d s = s := by unfold activate; simp [hs]
  have h2 : s.status ≠ .active := by rw [h]; decide
  unfold dayE
  rw [h1, events_frozen p d evs s h2]
  unfold update; simp [h2, h]

theorem update_status (p : Params) (s : State) (h : s.status = .active) :
    (update p s).status = .active ∨ (update p s).status = .repaired ∨ (update p s).status = .expired := by
  have tf := toggle_frame p
  unfold update
  simp only [h]
  grind

/-- an emission that is active in the middle of the day ends the day active, repaired or expired -/
theorem dayE_live (p : Params) (d : Int) (evs : List Ev) (s : State)
    (h : s.status = .active ∨ (s.status = .inactive ∧ p.start ≤ d)) :
    (dayE p d evs s).status = .active ∨ (dayE p d evs s).status = .repaired ∨
    (dayE p d evs s).status = .expired := by
  unfold dayE
  apply update_status
  rw [events_status]
  unfold activate
  grind

theorem st_succ (e : Em) (n : Nat) : st e (n + 1) = dayE e.p n (e.ev n) (st e n) := rfl

/-- per-emission ledger: active after day `n` = active before + new − ended -/
theorem em_ledger (e : Em) (n : Nat) :
    ind (activeAt e (n + 1)) = ind (activeAt e n) + ind (isNew e n) - ind (endedOn e n) := by
  unfold endedOn activeAt isNew ind
  rw [st_succ]
  cases hs : (st e n).status
  · -- inactive
    by_cases hn : e.p.start ≤ (n : Int)
    · have := dayE_live e.p n (e.ev n) (st e n) (Or.inr ⟨hs, hn⟩)
      rcases this with h | h | h <;> simp [h, hn]
    · have := dayE_pending e.p n (e.ev n) (st e n) hs hn
      simp [this, hn]
  · have := dayE_live e.p n (e.ev n) (st e n) (Or.inl hs)
    rcases this with h | h | h <;> simp [h]
  · rw [dayE_frozen e.p n (e.ev n) (st e n) (Or.inl hs)]; simp [hs]
  · rw [dayE_frozen e.p n (e.ev n) (st e n) (Or.inr hs)]; simp [hs]

/-- an emission that left the active list was repaired by the program, naturally, or expired —
exactly one of the three -/
theorem em_ended_split (e : Em) (n : Nat) :
    ind (endedOn e n) = ind (repairedOn e n) + ind (natRepairedOn e n) + ind (expiredOn e n) := by
  unfold repairedOn natRepairedOn expiredOn
  by_cases he : endedOn e n = true
  · have he' := he
    unfold endedOn activeAt isNew at he'
    rw [st_succ] at he'
    have live : (dayE e.p n (e.ev n) (st e n)).status = .active ∨
        (dayE e.p n (e.ev n) (st e n)).status = .repaired ∨
        (dayE e.p n (e.ev n) (st e n)).status = .expired := by
      apply dayE_live
      simp only [Bool.and_eq_true, Bool.or_eq_true, decide_eq_true_eq, Bool.not_eq_true',
        decide_eq_false_iff_not] at he'
      exact he'.1
    simp only [Bool.and_eq_true, Bool.not_eq_true', decide_eq_false_iff_not] at he'
    rw [he, st_succ]
    unfold ind
    rcases live with h | h | h
    · exact absurd h he'.2
    · by_cases hb : (dayE e.p n (e.ev n) (st e n)).by_ = .natural <;> simp [h, hb]
    · simp [h]
  · have : endedOn e n = false := by simpa using he
    rw [this]; simp [ind]

end LdarModel.World
