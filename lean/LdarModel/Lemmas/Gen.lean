import LdarModel.Model.Gen
/-
Helper lemmas for the emission generator: bounds and order of the hit days, the two loops
(start dates form a sublist of the hit days, ids count up from the leak counter, the
single-emission guard keeps a gap of more than `dur` days).  Core Lean only.
-/
namespace LdarModel.Gen

theorem hits_mem (bs : List Bool) (d x : Int) (h : x ∈ hits bs d) : d ≤ x ∧ x < d + bs.length := by
  induction bs generalizing d with
  | nil => simp [hits] at h
  | cons b bs ih =>
    simp only [hits] at h
    simp only [List.length_cons, Int.natCast_add, Int.cast_ofNat_Int]
    split at h
    · rcases List.mem_cons.mp h with rfl | h'
      · omega
      · have := ih _ h'; omega
    · have := ih _ h; omega

theorem hits_pairwise (bs : List Bool) (d : Int) : (hits bs d).Pairwise (· < ·) := by
  induction bs generalizing d with
  | nil => simp [hits]
  | cons b bs ih =>
    simp only [hits]
    split
    · refine List.pairwise_cons.mpr ⟨?_, ih _⟩
      intro y hy
      have := (hits_mem bs (d + 1) y hy).1
      omega
    · exact ih _

/-! #### first loop -/

theorem preLoop_starts_sublist (multi : Bool) (ds : List Int) (leak : Nat) :
    ((preLoop multi ds leak).map (·.start)).Sublist ds := by
  induction ds generalizing leak with
  | nil => simp [preLoop]
  | cons d ds ih =>
    cases multi
    · simp [preLoop]
    · simpa [preLoop] using ih (leak + 1)

theorem preLoop_ids (multi : Bool) (ds : List Int) (leak : Nat) :
    (preLoop multi ds leak).map (·.id) = List.range' leak (preLoop multi ds leak).length := by
  induction ds generalizing leak with
  | nil => simp [preLoop]
  | cons d ds ih =>
    cases multi
    · simp [preLoop]
    · simp [preLoop, List.range', ih (leak + 1)]

theorem preLoop_single_length (ds : List Int) (leak : Nat) : (preLoop false ds leak).length ≤ 1 := by
  cases ds <;> simp [preLoop]

/-! #### second loop -/

theorem simLoop_starts_sublist (dur : Nat) (multi : Bool) (ds : List Int) (last : Int) (leak : Nat) :
    ((simLoop dur multi ds last leak).map (·.start)).Sublist ds := by
  induction ds generalizing last leak with
  | nil => simp [simLoop]
  | cons d ds ih =>
    simp only [simLoop]
    split
    · exact List.Sublist.cons _ (ih _ _)
    · simpa using ih _ _

theorem simLoop_ids (dur : Nat) (multi : Bool) (ds : List Int) (last : Int) (leak : Nat) :
    (simLoop dur multi ds last leak).map (·.id)
      = List.range' leak (simLoop dur multi ds last leak).length := by
  induction ds generalizing last leak with
  | nil => simp [simLoop]
  | cons d ds ih =>
    simp only [simLoop]
    split
    · exact ih _ _
    · simp [List.range', ih _ (leak + 1)]

/-- single-emission source: every created emission starts after `last`, and consecutive (hence
all) pairs of created emissions are more than `dur` days apart -/
theorem simLoop_gap (dur : Nat) (ds : List Int) (last : Int) (leak : Nat) :
    (∀ e ∈ simLoop dur false ds last leak, last < e.start) ∧
    (simLoop dur false ds last leak).Pairwise (fun a b => a.start + (dur : Int) < b.start) := by
  induction ds generalizing last leak with
  | nil => simp [simLoop]
  | cons d ds ih =>
    simp only [simLoop]
    by_cases hd : d ≤ last
    · simpa [hd] using ih last leak
    · have ih' := ih (d + dur) (leak + 1)
      simp only [Bool.not_false, Bool.true_and, hd, decide_false, Bool.false_eq_true, ↓reduceIte]
      refine ⟨?_, ?_⟩
      · intro e he
        rcases List.mem_cons.mp he with rfl | he'
        · show last < d; omega
        · have := ih'.1 e he'; omega
      · refine List.pairwise_cons.mpr ⟨?_, ih'.2⟩
        intro e he
        exact ih'.1 e he

/-! #### the whole generator -/

/-- the pre-period part of `created` -/
def prePart (pre : List Bool) (dur : Nat) (multi preEnabled : Bool) : List Em :=
  if preEnabled then preLoop multi (hits (pre.take dur) (-(dur : Int))) 0 else []

/-- the in-period part of `created` -/
def simPart (pre sim : List Bool) (dur : Nat) (multi preEnabled : Bool) : List Em :=
  simLoop dur multi (hits sim 0) (lastAfterPre dur multi (prePart pre dur multi preEnabled))
    (prePart pre dur multi preEnabled).length

theorem created_eq (pre sim : List Bool) (dur : Nat) (multi preEnabled : Bool) :
    created pre sim dur multi preEnabled
      = prePart pre dur multi preEnabled ++ simPart pre sim dur multi preEnabled := rfl

theorem prePart_bounds (pre : List Bool) (dur : Nat) (multi preEnabled : Bool) :
    ∀ e ∈ prePart pre dur multi preEnabled, -(dur : Int) ≤ e.start ∧ e.start < 0 := by
  intro e he
  unfold prePart at he
  split at he
  · have hs := (preLoop_starts_sublist multi (hits (pre.take dur) (-(dur : Int))) 0).subset
      (List.mem_map.mpr ⟨e, he, rfl⟩)
    have := hits_mem _ _ _ hs
    have hl : (pre.take dur).length ≤ dur := by simp [List.length_take]; omega
    omega
  · simp at he

theorem simPart_bounds (pre sim : List Bool) (dur : Nat) (multi preEnabled : Bool) :
    ∀ e ∈ simPart pre sim dur multi preEnabled, 0 ≤ e.start ∧ e.start < sim.length := by
  intro e he
  have hs := (simLoop_starts_sublist dur multi (hits sim 0) _ _).subset
    (List.mem_map.mpr ⟨e, he, rfl⟩)
  have := hits_mem _ _ _ hs
  omega

theorem prePart_sorted (pre : List Bool) (dur : Nat) (multi preEnabled : Bool) :
    ((prePart pre dur multi preEnabled).map (·.start)).Pairwise (· < ·) := by
  unfold prePart
  split
  · exact (hits_pairwise _ _).sublist (preLoop_starts_sublist _ _ _)
  · simp

theorem simPart_sorted (pre sim : List Bool) (dur : Nat) (multi preEnabled : Bool) :
    ((simPart pre sim dur multi preEnabled).map (·.start)).Pairwise (· < ·) :=
  (hits_pairwise _ _).sublist (simLoop_starts_sublist _ _ _ _ _)

theorem created_ids (pre sim : List Bool) (dur : Nat) (multi preEnabled : Bool) :
    (created pre sim dur multi preEnabled).map (·.id)
      = List.range (created pre sim dur multi preEnabled).length := by
  rw [created_eq, List.map_append, List.length_append]
  have hp : (prePart pre dur multi preEnabled).map (·.id)
      = List.range' 0 (prePart pre dur multi preEnabled).length := by
    unfold prePart
    split
    · exact preLoop_ids _ _ _
    · simp
  rw [hp]
  unfold simPart
  rw [simLoop_ids, List.range_eq_range']
  have := @List.range'_append 0 (prePart pre dur multi preEnabled).length
    (simLoop dur multi (hits sim 0) (lastAfterPre dur multi (prePart pre dur multi preEnabled))
      (prePart pre dur multi preEnabled).length).length 1
  simpa using this

end LdarModel.Gen
