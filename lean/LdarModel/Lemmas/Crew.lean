import LdarModel.Model.Crew
/-
Helper lemmas for the survey step and the crew day (used by C07, C08, C10).
Core Lean only (omega / simp / grind).
-/
namespace LdarModel.Crew

/-! ### the survey step -/

/-- hypotheses under which the minutes of a step make sense: non-negative remaining / travel time,
`0 ≤ P ≤ S`, and a stationary method never accumulates survey minutes -/
structure StepOk (R S T P : Int) (stationary : Bool) : Prop where
  hR : 0 ≤ R
  hT : 0 ≤ T
  hP : 0 ≤ P
  hPS : P ≤ S
  hSt : stationary = true → P = 0

theorem step_unworkable (R S T P : Int) (st : Bool) :
    surveyStep R S T P st false =
      { rem := R, surveyed := P, branch := .unworkable, complete := false, inProgress := false,
        last := false, visited := false, travel := 0, today := 0 } := by
  simp [surveyStep]

/-- every arm: the crew's minutes are split into what is left, travel to the site and survey -/
theorem step_conserve (R S T P : Int) (st w : Bool) :
    (surveyStep R S T P st w).rem + (surveyStep R S T P st w).travel
      + (surveyStep R S T P st w).today = R := by
  unfold surveyStep effS effT
  grind

theorem step_rem_nonneg {R S T P : Int} {st : Bool} (h : StepOk R S T P st) (w : Bool) :
    0 ≤ (surveyStep R S T P st w).rem := by
  obtain ⟨hR, hT, hP, hPS, hSt⟩ := h
  unfold surveyStep effS effT
  grind

theorem step_travel_nonneg {R S T P : Int} {st : Bool} (h : StepOk R S T P st) (w : Bool) :
    0 ≤ (surveyStep R S T P st w).travel := by
  obtain ⟨hR, hT, hP, hPS, hSt⟩ := h
  unfold surveyStep effS effT
  grind

theorem step_today_nonneg {R S T P : Int} {st : Bool} (h : StepOk R S T P st) (w : Bool) :
    0 ≤ (surveyStep R S T P st w).today := by
  obtain ⟨hR, hT, hP, hPS, hSt⟩ := h
  unfold surveyStep effS effT
  grind

/-- after a visit that reached the site (complete or partial) the trip home still fits -/
theorem step_home_fits {R S T P : Int} {st : Bool} (h : StepOk R S T P st) (w : Bool)
    (hb : (surveyStep R S T P st w).branch = .complete ∨ (surveyStep R S T P st w).branch = .partial_) :
    (surveyStep R S T P st w).travel ≤ (surveyStep R S T P st w).rem := by
  obtain ⟨hR, hT, hP, hPS, hSt⟩ := h
  revert hb
  unfold surveyStep effS effT
  grind

/-- a step that is the crew's last one and reached the site leaves exactly the trip home -/
theorem step_last_exact {R S T P : Int} {st : Bool} (h : StepOk R S T P st) (w : Bool)
    (hl : (surveyStep R S T P st w).last = true)
    (hb : (surveyStep R S T P st w).branch = .complete ∨ (surveyStep R S T P st w).branch = .partial_) :
    (surveyStep R S T P st w).rem = (surveyStep R S T P st w).travel := by
  obtain ⟨hR, hT, hP, hPS, hSt⟩ := h
  revert hb hl
  unfold surveyStep effS effT
  grind

theorem step_complete_iff (R S T P : Int) (st w : Bool) :
    (surveyStep R S T P st w).complete = true ↔ (surveyStep R S T P st w).branch = .complete := by
  unfold surveyStep
  grind

theorem step_visited_iff (R S T P : Int) (st w : Bool) :
    (surveyStep R S T P st w).visited = true ↔ w = true := by
  unfold surveyStep
  grind

theorem step_noTime_last (R S T P : Int) (st w : Bool)
    (hb : (surveyStep R S T P st w).branch = .noTime) : (surveyStep R S T P st w).last = true := by
  revert hb
  unfold surveyStep
  grind

theorem step_partial_last (R S T P : Int) (st w : Bool)
    (hb : (surveyStep R S T P st w).branch = .partial_) : (surveyStep R S T P st w).last = true := by
  revert hb
  unfold surveyStep
  grind

theorem step_idle (R S T P : Int) (st w : Bool)
    (hb : (surveyStep R S T P st w).branch = .noTime ∨ (surveyStep R S T P st w).branch = .unworkable) :
    (surveyStep R S T P st w).rem = R ∧ (surveyStep R S T P st w).travel = 0
      ∧ (surveyStep R S T P st w).today = 0 ∧ (surveyStep R S T P st w).surveyed = P := by
  revert hb
  unfold surveyStep
  grind

/-- minutes on the report after a step: complete ⇒ exactly the (effective) survey time, partial ⇒
strictly between the old value and the survey time, otherwise unchanged -/
theorem step_surveyed {R S T P : Int} {st : Bool} (h : StepOk R S T P st) (w : Bool) :
    let o := surveyStep R S T P st w
    o.surveyed = P + o.today ∧
    (o.branch = .complete → o.surveyed = effS st S) ∧
    (o.branch = .partial_ → P < o.surveyed ∧ o.surveyed < S ∧ st = false) := by
  obtain ⟨hR, hT, hP, hPS, hSt⟩ := h
  unfold surveyStep effS effT
  grind

/-! ### one survey over several days: `minutes_add_up` -/

/-- state of a report between days: minutes within `[0, S]`; complete ⇔ all minutes done (and the
report is no longer in progress); in progress ⇒ strictly inside; not started ⇒ zero -/
structure ReportInv (stationary : Bool) (S : Int) (rep : Report) : Prop where
  nonneg : 0 ≤ rep.surveyed
  le : rep.surveyed ≤ S
  done : rep.complete = true → rep.surveyed = effS stationary S ∧ rep.inProgress = false
  prog : rep.complete = false → rep.inProgress = true → 0 < rep.surveyed ∧ rep.surveyed < S ∧ stationary = false
  idle : rep.complete = false → rep.inProgress = false → rep.surveyed = 0

theorem reportInv_fresh (st : Bool) (S : Int) (hS : 0 ≤ S) : ReportInv st S {} := by
  constructor <;> simp <;> omega

theorem reportInv_stepOk {st : Bool} {S : Int} {rep : Report} (h : ReportInv st S rep)
    (hc : rep.complete = false) {R T : Int} (hR : 0 ≤ R) (hT : 0 ≤ T) :
    StepOk R S T rep.surveyed st := by
  obtain ⟨h1, h2, h3, h4, h5⟩ := h
  refine ⟨hR, hT, h1, h2, ?_⟩
  · intro hst
    cases hip : rep.inProgress
    · exact h5 hc hip
    · have := (h4 hc hip).2.2; simp [hst] at this

theorem surveyDay_inv {st : Bool} {S : Int} (hS : 0 ≤ S) {rep : Report} (h : ReportInv st S rep)
    (d : DayIn) (hR : 0 ≤ d.R) (hT : 0 ≤ d.T) :
    ReportInv st S (surveyDay st S rep d).1 ∧
    (surveyDay st S rep d).1.surveyed = rep.surveyed + (surveyDay st S rep d).2 ∧
    0 ≤ (surveyDay st S rep d).2 := by
  unfold surveyDay
  by_cases hc : rep.complete = true ∨ ¬ d.served = true
  · simp only [hc, if_true]; exact ⟨h, by omega, by omega⟩
  · simp only [hc, if_false]
    have hc' : rep.complete = false := by
      cases hcc : rep.complete <;> simp [hcc] at hc ⊢
    have ok := reportInv_stepOk h hc' hR hT
    have hs := step_surveyed ok d.workable
    have ht := step_today_nonneg ok d.workable
    have hidle := step_idle d.R S d.T rep.surveyed st d.workable
    have hcomp := step_complete_iff d.R S d.T rep.surveyed st d.workable
    obtain ⟨h1, h2, h3, h4, h5⟩ := h
    generalize surveyStep d.R S d.T rep.surveyed st d.workable = o at *
    simp only at hs
    have hE : effS st S = if st = true then 0 else S := by unfold effS; rfl
    refine ⟨?_, ?_, ht⟩
    · unfold applyStep
      cases hb : o.branch <;> simp only [hb] at hs hidle ⊢
      · exact ⟨h1, h2, h3, h4, h5⟩
      · constructor <;> grind
      · constructor <;> grind
      · constructor <;> grind
    · unfold applyStep
      cases hb : o.branch <;> simp only [hb] at hs hidle ⊢ <;> grind

/-- **minutes add up.**  Over the days of one survey (any remaining crew minutes, sampled travel
times, weather outcomes and crew shortages), starting from a fresh report: the minutes surveyed per
day sum to the minutes on the report; at completion that is the site's survey time; while the
survey is in progress `0 < P < S`; a survey that has not started has `P = 0`. -/
theorem minutes_add_up (stationary : Bool) (S : Int) (hS : 0 ≤ S) (days : List DayIn)
    (hd : ∀ d ∈ days, 0 ≤ d.R ∧ 0 ≤ d.T) (rep : Report) (acc : Int)
    (hrep : ReportInv stationary S rep) (hacc : acc = rep.surveyed) :
    let r := surveyRun stationary S days rep acc
    r.2 = r.1.surveyed ∧ ReportInv stationary S r.1 := by
  induction days generalizing rep acc with
  | nil => simp [surveyRun, hacc, hrep]
  | cons d ds ih =>
    simp only [surveyRun]
    have hd0 := hd d (by simp)
    have := surveyDay_inv hS hrep d hd0.1 hd0.2
    exact ih (fun x hx => hd x (by simp [hx])) _ _ this.1 (by omega)

/-- the form used by C07: from a fresh report -/
theorem minutes_add_up_fresh (stationary : Bool) (S : Int) (hS : 0 ≤ S) (days : List DayIn)
    (hd : ∀ d ∈ days, 0 ≤ d.R ∧ 0 ≤ d.T) :
    let r := surveyRun stationary S days {} 0
    r.2 = r.1.surveyed ∧
    (r.1.complete = true → r.2 = effS stationary S) ∧
    (r.1.complete = false → r.1.inProgress = true → 0 < r.1.surveyed ∧ r.1.surveyed < S) ∧
    (r.1.complete = false → r.1.inProgress = false → r.1.surveyed = 0) := by
  have h := minutes_add_up stationary S hS days hd {} 0 (reportInv_fresh stationary S hS) rfl
  simp only at h ⊢
  obtain ⟨h1, h2⟩ := h
  refine ⟨h1, ?_, ?_, h2.idle⟩
  · intro hc; rw [h1]; exact (h2.done hc).1
  · intro hc hp; exact ⟨(h2.prog hc hp).1, (h2.prog hc hp).2.1⟩

/-! ### the crew day -/

/-- a planned request as the schedule hands it over -/
structure ReqOk (p : MethodP) (r : Req) : Prop where
  hT : 0 ≤ r.T
  hP : 0 ≤ r.rep.surveyed
  hPS : r.rep.surveyed ≤ r.S
  hSt : p.stationary = true → r.rep.surveyed = 0
  hC : r.rep.complete = false

theorem ReqOk.stepOk {p : MethodP} {r : Req} (h : ReqOk p r) {R : Int} (hR : 0 ≤ R) :
    StepOk R r.S r.T r.rep.surveyed p.stationary :=
  ⟨hR, h.hT, h.hP, h.hPS, h.hSt⟩

theorem pick_mem : ∀ {cs : List CrewSt} {c : CrewSt}, pick cs = some c → c ∈ cs ∧ c.queued = true
  | [], c, h => by simp [pick] at h
  | x :: xs, c, h => by
    unfold pick at h
    cases hp : pick xs with
    | none =>
      simp only [hp] at h
      by_cases hq : x.queued = true
      · simp [hq] at h; subst h; exact ⟨by simp, hq⟩
      · simp [hq] at h
    | some d =>
      simp only [hp] at h
      have ihd := pick_mem hp
      by_cases hb : (x.queued && better x d) = true
      · simp only [hb, if_true, Option.some.injEq] at h; subst h
        simp only [Bool.and_eq_true] at hb
        exact ⟨by simp, hb.1⟩
      · simp only [hb] at h
        simp only [Bool.false_eq_true, if_false, Option.some.injEq] at h; subst h
        exact ⟨by simp [ihd.1], ihd.2⟩

/-- generic induction over the loop of `deploy_crews` -/
theorem serveAll_induct (p : MethodP) (I : DaySt → Prop) (ok : Req → Prop)
    (hstep : ∀ st r, ok r → I st → I (serve p st r)) :
    ∀ (reqs : List Req) (st : DaySt), (∀ r ∈ reqs, ok r) → I st → I (serveAll p st reqs)
  | [], st, _, h0 => by simpa [serveAll] using h0
  | r :: rs, st, hreq, h0 => by
    have := serveAll_induct p I ok hstep rs (serve p st r) (fun x hx => hreq x (by simp [hx]))
      (hstep st r (hreq r (by simp)) h0)
    simpa [serveAll] using this

/-- per-crew invariant of the day: minutes left are non-negative; everything charged so far plus
the trip home is within the budget; a crew still in the queue has spent exactly budget − remaining
and can still afford its trip home -/
structure CrewInv (budget : Int) (n : Nat) (c : CrewSt) : Prop where
  rem : 0 ≤ c.rem
  home : 0 ≤ c.home
  spent : 0 ≤ c.spent
  fits : c.spent + c.home ≤ budget
  live : c.queued = true → c.spent + c.rem = budget ∧ c.home ≤ c.rem
  id : c.id < n

theorem crewInv_init (budget : Int) (hb : 0 ≤ budget) (n : Nat) :
    ∀ c ∈ initCrews budget n, CrewInv budget n c := by
  intro c hc
  simp only [initCrews, List.mem_map, List.mem_range] at hc
  obtain ⟨i, hi, rfl⟩ := hc
  constructor <;> simp <;> omega

theorem crewAfter_inv {budget : Int} {n : Nat} {c : CrewSt} (hc : CrewInv budget n c)
    (hq : c.queued = true) {S T P : Int} {st : Bool} (ok : StepOk c.rem S T P st) (w : Bool) :
    CrewInv budget n (crewAfter c (surveyStep c.rem S T P st w)) := by
  have h1 := step_conserve c.rem S T P st w
  have h2 := step_rem_nonneg ok w
  have h3 := step_travel_nonneg ok w
  have h4 := step_today_nonneg ok w
  have h5 := step_home_fits ok w
  have h6 := step_last_exact ok w
  have h7 := step_idle c.rem S T P st w
  have h8 := step_noTime_last c.rem S T P st w
  obtain ⟨c1, c2, c3, c4, c5, c6⟩ := hc
  have c5' := c5 hq
  generalize surveyStep c.rem S T P st w = o at *
  have hbr : o.branch = .unworkable ∨ o.branch = .complete ∨ o.branch = .partial_ ∨ o.branch = .noTime := by
    cases o.branch <;> simp
  unfold crewAfter
  constructor <;> grind

theorem serve_crewInv (p : MethodP) (budget : Int) (n : Nat) (st : DaySt) (r : Req) (hr : ReqOk p r)
    (h : ∀ c ∈ st.crews, CrewInv budget n c) : ∀ c ∈ (serve p st r).crews, CrewInv budget n c := by
  unfold serve
  cases hp : pick st.crews with
  | none => simpa using h
  | some k =>
    have hk := pick_mem hp
    have ik := h k hk.1
    have new := crewAfter_inv ik hk.2 (hr.stepOk ik.rem) (workable p r)
    intro c hc
    simp only [replaceCrew, List.mem_map] at hc
    obtain ⟨x, hx, rfl⟩ := hc
    split
    · exact new
    · exact h x hx

theorem finalize_crews (p : MethodP) (k : Nat) (st : DaySt) : (finalize p k st).crews = st.crews := by
  unfold finalize; (repeat' split) <;> rfl

theorem finalize_out (p : MethodP) (k : Nat) (st : DaySt) : (finalize p k st).out = st.out := by
  unfold finalize; (repeat' split) <;> rfl

theorem deployDay_crewInv (p : MethodP) (budget : Int) (hb : 0 ≤ budget) (n : Nat) (reqs : List Req)
    (hreq : ∀ r ∈ reqs, ReqOk p r) : ∀ c ∈ (deployDay p budget n reqs).crews, CrewInv budget n c := by
  unfold deployDay
  rw [finalize_crews]
  exact serveAll_induct p (fun st => ∀ c ∈ st.crews, CrewInv budget n c) (ReqOk p)
    (fun st r hr h => serve_crewInv p budget n st r hr h) reqs _ hreq (crewInv_init budget hb n)

/-! ### the ghost counters are what the visit trace says -/

def visitMinutes (o : OutRec) : Int :=
  match o.step with
  | some s => s.travel + s.today
  | none => 0

/-- sum over the visits of crew `id` of travel charged + minutes surveyed -/
def crewMinutes (id : Nat) (out : List OutRec) : Int :=
  ((out.filter (fun o => o.crew = some id)).map visitMinutes).sum

/-- the crew was sent to a site it could visit at least once -/
def crewVisited (id : Nat) (out : List OutRec) : Bool :=
  out.any (fun o => o.crew = some id && (match o.step with | some s => s.visited | none => false))

structure TraceInv (st : DaySt) : Prop where
  spent : ∀ c ∈ st.crews, c.spent = crewMinutes c.id st.out
  dep : ∀ c ∈ st.crews, c.deployed = crewVisited c.id st.out

theorem serve_traceInv (p : MethodP) (st : DaySt) (r : Req) (h : TraceInv st) :
    TraceInv (serve p st r) := by
  unfold serve
  cases hp : pick st.crews with
  | none =>
    constructor
    · intro c hc
      simp only [crewMinutes, List.filter_append, List.map_append, List.sum_append] at *
      simp [h.spent c hc, crewMinutes]
    · intro c hc
      simp only [crewVisited, List.any_append] at *
      simp [h.dep c hc, crewVisited]
  | some k =>
    have hk := pick_mem hp
    constructor
    · intro c hc
      simp only [replaceCrew, List.mem_map] at hc
      obtain ⟨x, hx, rfl⟩ := hc
      by_cases hid : x.id = (crewAfter k (surveyStep k.rem r.S r.T r.rep.surveyed p.stationary (workable p r))).id
      · simp only [hid, if_true]
        have := h.spent k hk.1
        simp only [crewAfter] at hid ⊢
        simp [crewMinutes, List.filter_append, visitMinutes, this]
        omega
      · simp only [hid, if_false]
        have := h.spent x hx
        simp only [crewAfter] at hid
        have hne : ¬ (k.id = x.id) := fun e => hid e.symm
        simp [crewMinutes, List.filter_append, this, hne]
    · intro c hc
      simp only [replaceCrew, List.mem_map] at hc
      obtain ⟨x, hx, rfl⟩ := hc
      by_cases hid : x.id = (crewAfter k (surveyStep k.rem r.S r.T r.rep.surveyed p.stationary (workable p r))).id
      · simp only [hid, if_true]
        have := h.dep k hk.1
        simp only [crewAfter] at hid ⊢
        simp [crewVisited, List.any_append, this]
      · simp only [hid, if_false]
        have := h.dep x hx
        simp only [crewAfter] at hid
        have hne : ¬ (k.id = x.id) := fun e => hid e.symm
        simp [crewVisited, List.any_append, this, hne]

theorem deployDay_traceInv (p : MethodP) (budget : Int) (n : Nat) (reqs : List Req) :
    TraceInv (deployDay p budget n reqs) := by
  have h := serveAll_induct p TraceInv (fun _ => True) (fun st r _ h => serve_traceInv p st r h) reqs
    { crews := initCrews budget n } (fun _ _ => trivial)
    ⟨by intro c hc; simp only [initCrews, List.mem_map] at hc; obtain ⟨i, _, rfl⟩ := hc; simp [crewMinutes],
     by intro c hc; simp only [initCrews, List.mem_map] at hc; obtain ⟨i, _, rfl⟩ := hc; simp [crewVisited]⟩
  unfold deployDay
  constructor
  · rw [finalize_crews, finalize_out]; exact h.spent
  · rw [finalize_crews, finalize_out]; exact h.dep

/-! ### the output list is the work plan, one record per request -/

theorem serve_out (p : MethodP) (st : DaySt) (r : Req) :
    ∃ o, (serve p st r).out = st.out ++ [o] ∧ o.req = r ∧
      (∀ s, o.step = some s → s = surveyStep o.rBefore r.S r.T r.rep.surveyed p.stationary (workable p r)
          ∧ o.rep = applyStep r.rep s ∧ o.crew ≠ none) ∧
      (o.step = none → o.rep = r.rep ∧ o.crew = none) := by
  unfold serve
  cases hp : pick st.crews with
  | none => exact ⟨_, rfl, rfl, by simp, by simp⟩
  | some k => exact ⟨_, rfl, rfl, by simp, by simp⟩

theorem serveAll_reqs (p : MethodP) : ∀ (reqs : List Req) (st : DaySt),
    (serveAll p st reqs).out.map (·.req) = st.out.map (·.req) ++ reqs
  | [], st => by simp [serveAll]
  | r :: rs, st => by
    have ih := serveAll_reqs p rs (serve p st r)
    obtain ⟨o, h1, h2, _⟩ := serve_out p st r
    simp only [serveAll, List.foldl_cons] at ih ⊢
    rw [ih, h1]; simp [h2]

/-- every record of the day is a faithful record of `survey_site` on its own request -/
def RecOk (p : MethodP) (o : OutRec) : Prop :=
  (∀ s, o.step = some s → s = surveyStep o.rBefore o.req.S o.req.T o.req.rep.surveyed p.stationary (workable p o.req)
      ∧ o.rep = applyStep o.req.rep s ∧ o.crew ≠ none) ∧
  (o.step = none → o.rep = o.req.rep ∧ o.crew = none)

theorem deployDay_recOk (p : MethodP) (budget : Int) (n : Nat) (reqs : List Req) :
    ∀ o ∈ (deployDay p budget n reqs).out, RecOk p o := by
  unfold deployDay
  rw [finalize_out]
  refine serveAll_induct p (fun st => ∀ o ∈ st.out, RecOk p o) (fun _ => True) ?_ reqs _
    (fun _ _ => trivial) (by simp)
  intro st r _ h o ho
  obtain ⟨o', h1, h2, h3, h4⟩ := serve_out p st r
  rw [h1] at ho
  simp only [List.mem_append, List.mem_singleton] at ho
  rcases ho with ho | rfl
  · exact h o ho
  · subst h2; exact ⟨h3, h4⟩

/-! ### bookkeeping invariants of the day: crew count, crew ids, minutes handed to a visit -/

structure BookInv (budget : Int) (n : Nat) (st : DaySt) : Prop where
  crews : ∀ c ∈ st.crews, CrewInv budget n c
  len : st.crews.length = n
  rb : ∀ o ∈ st.out, 0 ≤ o.rBefore
  ids : ∀ o ∈ st.out, ∀ k, o.crew = some k → k < n

theorem serve_bookInv (p : MethodP) (budget : Int) (n : Nat) (st : DaySt) (r : Req) (hr : ReqOk p r)
    (h : BookInv budget n st) : BookInv budget n (serve p st r) := by
  refine ⟨serve_crewInv p budget n st r hr h.crews, ?_, ?_, ?_⟩
  · unfold serve; cases hp : pick st.crews <;> simp [replaceCrew, h.len]
  · unfold serve
    cases hp : pick st.crews with
    | none =>
      intro o ho
      simp only [List.mem_append, List.mem_singleton] at ho
      rcases ho with ho | rfl
      · exact h.rb o ho
      · simp
    | some k =>
      intro o ho
      simp only [List.mem_append, List.mem_singleton] at ho
      rcases ho with ho | rfl
      · exact h.rb o ho
      · exact (h.crews k (pick_mem hp).1).rem
  · unfold serve
    cases hp : pick st.crews with
    | none =>
      intro o ho k hk
      simp only [List.mem_append, List.mem_singleton] at ho
      rcases ho with ho | rfl
      · exact h.ids o ho k hk
      · simp at hk
    | some c =>
      intro o ho k hk
      simp only [List.mem_append, List.mem_singleton] at ho
      rcases ho with ho | rfl
      · exact h.ids o ho k hk
      · simp only [Option.some.injEq] at hk; subst hk
        exact (h.crews c (pick_mem hp).1).id

theorem deployDay_bookInv (p : MethodP) (budget : Int) (hb : 0 ≤ budget) (n : Nat) (reqs : List Req)
    (hreq : ∀ r ∈ reqs, ReqOk p r) : BookInv budget n (deployDay p budget n reqs) := by
  have h := serveAll_induct p (BookInv budget n) (ReqOk p)
    (fun st r hr h => serve_bookInv p budget n st r hr h) reqs { crews := initCrews budget n } hreq
    ⟨crewInv_init budget hb n, by simp [initCrews], by simp, by simp⟩
  unfold deployDay
  exact ⟨by rw [finalize_crews]; exact h.crews, by rw [finalize_crews]; exact h.len,
         by rw [finalize_out]; exact h.rb, by rw [finalize_out]; exact h.ids⟩

/-- the trip home of a crew read off the visit trace: travel time of the last site it reached -/
def crewHome (id : Nat) (out : List OutRec) : Int :=
  out.foldl (fun h o =>
    if o.crew = some id then
      match o.step with
      | some s => if s.branch = .complete ∨ s.branch = .partial_ then s.travel else h
      | none => h
    else h) 0

theorem serve_home (p : MethodP) (st : DaySt) (r : Req)
    (h : ∀ c ∈ st.crews, c.home = crewHome c.id st.out) :
    ∀ c ∈ (serve p st r).crews, c.home = crewHome c.id (serve p st r).out := by
  unfold serve
  cases hp : pick st.crews with
  | none =>
    intro c hc
    simp [crewHome, List.foldl_append, h c hc]
  | some k =>
    have hk := pick_mem hp
    intro c hc
    simp only [replaceCrew, List.mem_map] at hc
    obtain ⟨x, hx, rfl⟩ := hc
    by_cases hid : x.id = (crewAfter k (surveyStep k.rem r.S r.T r.rep.surveyed p.stationary (workable p r))).id
    · simp only [hid, if_true]
      have := h k hk.1
      simp only [crewAfter] at hid ⊢
      simp only [crewHome, List.foldl_append, List.foldl_cons, List.foldl_nil, if_true] at this ⊢
      rw [this]
    · simp only [hid, if_false]
      have := h x hx
      simp only [crewAfter] at hid
      have hne : ¬ (k.id = x.id) := fun e => hid e.symm
      simp only [crewHome, List.foldl_append, List.foldl_cons, List.foldl_nil] at this ⊢
      simp [this, hne]

theorem deployDay_home (p : MethodP) (budget : Int) (n : Nat) (reqs : List Req) :
    ∀ c ∈ (deployDay p budget n reqs).crews, c.home = crewHome c.id (deployDay p budget n reqs).out := by
  have h := serveAll_induct p (fun st => ∀ c ∈ st.crews, c.home = crewHome c.id st.out) (fun _ => True)
    (fun st r _ h => serve_home p st r h) reqs { crews := initCrews budget n } (fun _ _ => trivial)
    (by intro c hc; simp only [initCrews, List.mem_map] at hc; obtain ⟨i, _, rfl⟩ := hc; simp [crewHome])
  unfold deployDay
  rw [finalize_crews, finalize_out]; exact h

end LdarModel.Crew
