import LdarModel.Model.Emission
/-
Helper lemmas for the emission state machine: the day-indexed invariant (proved by induction over
the days for every event schedule) from which C02 / C03 / C04 / C11 follow.
-/
namespace LdarModel.Emission

/-- first simulated day on which the emission can be active: `max start 0` -/
def a (p : Params) : Int := if p.start > 0 then p.start else 0

/-- natural number of active days inside the period if the horizon is long enough:
`max 1 (nrd - b4)` (an emission activated on day `a` is active at least that day) -/
def L (p : Params) : Int := if p.nrd - b4 p ≥ 1 then p.nrd - b4 p else 1

theorem start_add_b4 (p : Params) : p.start + b4 p = a p := by
  unfold b4 a; split <;> split <;> omega

theorem L_pos (p : Params) : 1 ≤ L p := by unfold L; split <;> omega

/-- invariant after `n` complete days (days `0..n-1`) of a repairable emission -/
def Inv (p : Params) (n : Nat) (s : State) : Prop :=
  (s.status = .inactive → (n : Int) ≤ a p ∧ s.activeDays = 0 ∧ s.tagged = false ∧ s.by_ = .none
      ∧ s.endDate = none ∧ s.initDetect = none ∧ s.dst = 0) ∧
  (s.status = .active → a p < n ∧ s.activeDays = n - a p ∧ s.activeDays < L p ∧ s.by_ ≠ .natural
      ∧ s.by_ ≠ .expire ∧ s.endDate = none ∧ (s.tagged = false → s.by_ = .none ∧ s.dst = 0)
      ∧ (s.tagged = true → s.by_ ≠ .none)) ∧
  (s.status = .repaired → s.endDate = some (a p + s.activeDays) ∧ 1 ≤ s.activeDays
      ∧ s.activeDays ≤ n - a p ∧ s.activeDays ≤ L p ∧ (s.by_ = .natural → s.activeDays = L p)
      ∧ s.tagged = true ∧ s.by_ ≠ .none ∧ s.by_ ≠ .expire) ∧
  s.status ≠ .expired

/-- the same, in the middle of day `n`: after activation and tagging, before the daily update -/
def InvMid (p : Params) (n : Nat) (s : State) : Prop :=
  (s.status = .inactive → (n : Int) < a p ∧ s.activeDays = 0 ∧ s.tagged = false ∧ s.by_ = .none
      ∧ s.endDate = none ∧ s.initDetect = none ∧ s.dst = 0) ∧
  (s.status = .active → a p ≤ n ∧ s.activeDays = n - a p ∧ s.activeDays < L p ∧ s.by_ ≠ .natural
      ∧ s.by_ ≠ .expire ∧ s.endDate = none ∧ (s.tagged = false → s.by_ = .none ∧ s.dst = 0)
      ∧ (s.tagged = true → s.by_ ≠ .none)) ∧
  (s.status = .repaired → s.endDate = some (a p + s.activeDays) ∧ 1 ≤ s.activeDays
      ∧ s.activeDays ≤ n - a p ∧ s.activeDays ≤ L p ∧ (s.by_ = .natural → s.activeDays = L p)
      ∧ s.tagged = true ∧ s.by_ ≠ .none ∧ s.by_ ≠ .expire) ∧
  s.status ≠ .expired

theorem inv_init (p : Params) : Inv p 0 init := by
  unfold Inv init a; simp; split <;> omega

theorem activate_mid (p : Params) (n : Nat) (s : State) (h : Inv p n s) :
    InvMid p n (activate p n s) := by
  unfold Inv at h; unfold InvMid activate a at *
  have := L_pos p
  grind

theorem tag_mid (p : Params) (n : Nat) (e : TagEv) (s : State) (h : InvMid p n s) :
    InvMid p n (tag p n e s) := by
  unfold InvMid at *; unfold tag detectRec
  grind

theorem tags_mid (p : Params) (n : Nat) (evs : List TagEv) (s : State) (h : InvMid p n s) :
    InvMid p n (evs.foldl (fun s e => tag p n e s) s) := by
  induction evs generalizing s with
  | nil => simpa
  | cons e evs ih => exact ih _ (tag_mid p n e s h)

theorem toggle_frame (p : Params) (s : State) :
    (toggle p s).status = s.status ∧ (toggle p s).activeDays = s.activeDays ∧
    (toggle p s).tagged = s.tagged ∧ (toggle p s).by_ = s.by_ ∧ (toggle p s).endDate = s.endDate ∧
    (toggle p s).dst = s.dst ∧ (toggle p s).trd = s.trd ∧ (toggle p s).initDetect = s.initDetect ∧
    (toggle p s).initDetectBy = s.initDetectBy := by
  unfold toggle; grind

theorem update_inv (p : Params) (hr : p.repairable = true) (n : Nat) (s : State)
    (h : InvMid p n s) : Inv p (n + 1) (update p s) := by
  unfold InvMid at h
  have hb := start_add_b4 p
  have hL : L p = if p.nrd - b4 p ≥ 1 then p.nrd - b4 p else 1 := rfl
  have tf := toggle_frame p
  by_cases hs : s.status = .active
  · by_cases ht : s.tagged = true
    · by_cases h1 : s.dst + 1 ≥ p.repairDelay + s.trd
      · have : update p s = { s with activeDays := s.activeDays + 1, dst := s.dst + 1, status := .repaired, endDate := some (p.start + (s.activeDays + 1 + b4 p)) } := by
          unfold update endedAt; simp [hs, hr, ht, h1]
        rw [this]; unfold Inv; grind
      · by_cases h2 : s.activeDays + 1 + b4 p ≥ p.nrd
        · have : update p s = { s with activeDays := s.activeDays + 1, dst := s.dst + 1, tagged := true, by_ := .natural, status := .repaired, endDate := some (p.start + (s.activeDays + 1 + b4 p)) } := by
            unfold update endedAt; simp [hs, hr, ht, h1, h2]
          rw [this]; unfold Inv; grind
        · have : update p s = toggle p { s with activeDays := s.activeDays + 1, dst := s.dst + 1 } := by
            unfold update endedAt; simp [hs, hr, ht, h1, h2]
          rw [this]; unfold Inv
          have := tf { s with activeDays := s.activeDays + 1, dst := s.dst + 1 }
          grind
    · by_cases h2 : s.activeDays + 1 + b4 p ≥ p.nrd
      · have : update p s = { s with activeDays := s.activeDays + 1, tagged := true, by_ := .natural, status := .repaired, endDate := some (p.start + (s.activeDays + 1 + b4 p)) } := by
          unfold update endedAt; simp [hs, hr, ht, h2]
        rw [this]; unfold Inv; grind
      · have : update p s = toggle p { s with activeDays := s.activeDays + 1 } := by
          unfold update endedAt; simp [hs, hr, ht, h2]
        rw [this]; unfold Inv
        have := tf { s with activeDays := s.activeDays + 1 }
        grind
  · have : update p s = s := by unfold update; simp [hs]
    rw [this]; unfold Inv; grind

theorem day_inv (p : Params) (hr : p.repairable = true) (n : Nat) (evs : List TagEv) (s : State)
    (h : Inv p n s) : Inv p (n + 1) (day p n evs s) := by
  unfold day
  exact update_inv p hr n _ (tags_mid p n evs _ (activate_mid p n s h))

theorem run_inv (p : Params) (hr : p.repairable = true) (ev : Nat → List TagEv) (n : Nat) :
    Inv p n (run p ev n) := by
  induction n with
  | zero => exact inv_init p
  | succ n ih => exact day_inv p hr n (ev n) _ ih

end LdarModel.Emission
