import LdarModel.Model.Summary
import Mathlib.Data.List.Perm.Basic
/-
Helper lemmas for the summary aggregation model: file-name parsing of generated names, pattern
selection, permutation invariance of keyed tables, the closed form of one batch.
-/
namespace LdarModel.Summary

/-! ### names -/

theorem splitU_nil : splitU [] = [[]] := by simp [splitU]

theorem splitU_us (cs : Name) : splitU ('_' :: cs) = [] :: splitU cs := by
  rw [splitU]; simp

theorem splitU_ne (c : Char) (cs : Name) (h : c ≠ '_') :
    splitU (c :: cs) = consHead c (splitU cs) := by
  rw [splitU]; simp [h]

theorem splitU_ne_nil (n : Name) : splitU n ≠ [] := by
  cases n with
  | nil => simp [splitU_nil]
  | cons c cs =>
    by_cases hc : c = '_'
    · subst hc; simp [splitU_us]
    · rw [splitU_ne c cs hc]; cases splitU cs <;> simp [consHead]

theorem splitU_append (p rest : Name) : splitU (p ++ '_' :: rest) = splitU p ++ splitU rest := by
  induction p with
  | nil => simp [splitU_us, splitU_nil]
  | cons c p ih =>
    simp only [List.cons_append]
    by_cases hc : c = '_'
    · subst hc; simp [splitU_us, ih]
    · rw [splitU_ne c _ hc, splitU_ne c p hc, ih]
      cases h : splitU p with
      | nil => exact absurd h (splitU_ne_nil p)
      | cons t ts => simp [consHead]

theorem splitU_noUnderscore (t : Name) (h : '_' ∉ t) : splitU t = [t] := by
  induction t with
  | nil => simp [splitU_nil]
  | cons c t ih =>
    have hc : c ≠ '_' := fun e => h (by simp [e])
    have ht : '_' ∉ t := fun e => h (by simp [e])
    rw [splitU_ne c t hc, ih ht]; rfl

theorem joinU_cons_cons (c : Char) (t : Name) (ts : List Name) :
    joinU ((c :: t) :: ts) = c :: joinU (t :: ts) := by
  cases ts <;> simp [joinU]

theorem joinU_splitU (p : Name) : joinU (splitU p) = p := by
  induction p with
  | nil => simp [splitU_nil, joinU]
  | cons c p ih =>
    by_cases hc : c = '_'
    · subst hc
      rw [splitU_us]
      cases h : splitU p with
      | nil => exact absurd h (splitU_ne_nil p)
      | cons t ts => rw [h] at ih; simp [joinU, ih]
    · rw [splitU_ne c p hc]
      cases h : splitU p with
      | nil => exact absurd h (splitU_ne_nil p)
      | cons t ts => rw [h] at ih; simp [consHead, joinU_cons_cons, ih]

theorem parseToks_none (pre ts : List Name) (h : ∀ t ∈ ts, isDigits t = false) :
    parseToks pre ts = none := by
  induction ts generalizing pre with
  | nil => simp [parseToks]
  | cons t ts ih =>
    unfold parseToks
    rw [ih _ (fun x hx => h x (by simp [hx]))]
    simp [h t (by simp)]

theorem parseToks_found (pre A : List Name) (d : Name) (S : List Name)
    (hd : isDigits d = true) (hS : ∀ t ∈ S, isDigits t = false) (hr : restOK S = true)
    (hne : pre ++ A ≠ []) : parseToks pre (A ++ d :: S) = some (pre ++ A, d) := by
  induction A generalizing pre with
  | nil =>
    simp only [List.nil_append, List.append_nil] at *
    unfold parseToks
    rw [parseToks_none _ _ hS]
    have : pre.isEmpty = false := by cases pre <;> simp_all
    simp [hd, hr, this]
  | cons a A ih =>
    simp only [List.cons_append]
    unfold parseToks
    rw [ih (pre ++ [a]) (by simp)]
    simp

theorem isDigits_simDigits (s : Nat) : isDigits (simDigits s) = true := by
  unfold isDigits simDigits
  have h1 : (Nat.toDigits 10 s).isEmpty = false := by
    cases h : Nat.toDigits 10 s with
    | nil => exact absurd h Nat.toDigits_ne_nil
    | cons _ _ => rfl
  have h2 : (Nat.toDigits 10 s).all Char.isDigit = true := by
    rw [List.all_eq_true]
    intro c hc
    exact Nat.isDigit_of_mem_toDigits (by decide) (by decide) hc
  simp [h1, h2]

theorem simDigits_injective : Function.Injective simDigits := by
  intro a b h
  have := congrArg (fun l => Nat.ofDigitChars 10 l 0) h
  simpa [simDigits, Nat.ofDigitChars_ten_toDigits] using this

theorem key_injective (p : Name) : Function.Injective (key p) := by
  intro a b h
  exact simDigits_injective (by simpa [key] using h)

/-- a suffix that follows the simulation number in a generated name -/
def GoodSuffix (suf : Name) : Prop :=
  (∀ t ∈ splitU suf, isDigits t = false) ∧ restOK (splitU suf) = true

theorem parseName_mkName (p : Name) (s : Nat) (suf : Name) (h : GoodSuffix suf) :
    parseName (mkName p s suf) = some (key p s) := by
  unfold parseName mkName
  rw [splitU_append, splitU_append,
    splitU_noUnderscore (simDigits s) (by unfold simDigits; exact Nat.underscore_not_in_toDigits)]
  have hp : ([] : List Name) ++ splitU p ≠ [] := by simpa using splitU_ne_nil p
  have := parseToks_found [] (splitU p) (simDigits s) (splitU suf) (isDigits_simDigits s) h.1 h.2 hp
  simp only [List.singleton_append]
  rw [this]
  simp [joinU_splitU, key]

theorem goodSuffix_ts : GoodSuffix tsSuffix := by unfold GoodSuffix; decide
theorem goodSuffix_emis : GoodSuffix emisSuffix := by unfold GoodSuffix; decide
theorem goodSuffix_est : GoodSuffix estSuffix := by unfold GoodSuffix; decide
theorem goodSuffix_rep : GoodSuffix repSuffix := by unfold GoodSuffix; decide

end LdarModel.Summary
