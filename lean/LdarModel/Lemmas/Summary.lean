import LdarModel.Model.Summary
import Mathlib.Data.List.Perm.Basic
import Mathlib.Data.List.Nodup
import Mathlib.Tactic.Ring
import Mathlib.Tactic.FieldSimp
import Mathlib.Algebra.Order.Field.Rat
/-
Helper lemmas for the summary aggregation model: file-name parsing of generated names, pattern
selection, permutation invariance of keyed tables, the closed form of one batch.
-/
set_option linter.unusedSimpArgs false

namespace LdarModel.Summary

/-! ### names -/

theorem splitU_nil : splitU [] = [[]] := by simp [splitU]

theorem splitU_us (cs : Name) : splitU ('_' :: cs) = [] :: splitU cs := by
  rw [splitU]; simp

theorem splitU_ne (c : Char) (cs : Name) (h : c ≠ '_') :
    splitU (c :: cs) = consHead c (splitU cs) := by
  rw [splitU]; simp [h]

theorem splitU_ne_nil (n : Name) : splitU n ≠ [] := by
  cases n with
  | nil => simp [splitU_nil]
  | cons c cs =>
    by_cases hc : c = '_'
    · subst hc; simp [splitU_us]
    · rw [splitU_ne c cs hc]; cases splitU cs <;> simp [consHead]

theorem splitU_append (p rest : Name) : splitU (p ++ '_' :: rest) = splitU p ++ splitU rest := by
  induction p with
  | nil => simp [splitU_us, splitU_nil]
  | cons c p ih =>
    simp only [List.cons_append]
    by_cases hc : c = '_'
    · subst hc; simp [splitU_us, ih]
    · rw [splitU_ne c _ hc, splitU_ne c p hc, ih]
      cases h : splitU p with
      | nil => exact absurd h (splitU_ne_nil p)
      | cons t ts => simp [consHead]

theorem splitU_noUnderscore (t : Name) (h : '_' ∉ t) : splitU t = [t] := by
  induction t with
  | nil => simp [splitU_nil]
  | cons c t ih =>
    have hc : c ≠ '_' := fun e => h (by simp [e])
    have ht : '_' ∉ t := fun e => h (by simp [e])
    rw [splitU_ne c t hc, ih ht]; rfl

theorem joinU_cons_cons (c : Char) (t : Name) (ts : List Name) :
    joinU ((c :: t) :: ts) = c :: joinU (t :: ts) := by
  cases ts <;> simp [joinU]

theorem joinU_splitU (p : Name) : joinU (splitU p) = p := by
  induction p with
  | nil => simp [splitU_nil, joinU]
  | cons c p ih =>
    by_cases hc : c = '_'
    · subst hc
      rw [splitU_us]
      cases h : splitU p with
      | nil => exact absurd h (splitU_ne_nil p)
      | cons t ts => rw [h] at ih; simp [joinU, ih]
    · rw [splitU_ne c p hc]
      cases h : splitU p with
      | nil => exact absurd h (splitU_ne_nil p)
      | cons t ts => rw [h] at ih; simp [consHead, joinU_cons_cons, ih]

theorem parseToks_none (pre ts : List Name) (h : ∀ t ∈ ts, isDigits t = false) :
    parseToks pre ts = none := by
  induction ts generalizing pre with
  | nil => simp [parseToks]
  | cons t ts ih =>
    unfold parseToks
    rw [ih _ (fun x hx => h x (by simp [hx]))]
    simp [h t (by simp)]

theorem parseToks_found (pre A : List Name) (d : Name) (S : List Name)
    (hd : isDigits d = true) (hS : ∀ t ∈ S, isDigits t = false) (hr : restOK S = true)
    (hne : pre ++ A ≠ []) : parseToks pre (A ++ d :: S) = some (pre ++ A, d) := by
  induction A generalizing pre with
  | nil =>
    simp only [List.nil_append, List.append_nil] at *
    unfold parseToks
    rw [parseToks_none _ _ hS]
    have : pre.isEmpty = false := by cases pre <;> simp_all
    simp [hd, hr, this]
  | cons a A ih =>
    simp only [List.cons_append]
    unfold parseToks
    rw [ih (pre ++ [a]) (by simp)]
    simp

theorem isDigits_simDigits (s : Nat) : isDigits (simDigits s) = true := by
  unfold isDigits simDigits
  have h1 : (Nat.toDigits 10 s).isEmpty = false := by
    cases h : Nat.toDigits 10 s with
    | nil => exact absurd h Nat.toDigits_ne_nil
    | cons _ _ => rfl
  have h2 : (Nat.toDigits 10 s).all Char.isDigit = true := by
    rw [List.all_eq_true]
    intro c hc
    exact Nat.isDigit_of_mem_toDigits (by decide) (by decide) hc
  simp [h1, h2]

theorem simDigits_injective : Function.Injective simDigits := by
  intro a b h
  have := congrArg (fun l => Nat.ofDigitChars 10 l 0) h
  simpa [simDigits, Nat.ofDigitChars_ten_toDigits] using this

theorem key_injective (p : Name) : Function.Injective (key p) := by
  intro a b h
  exact simDigits_injective (by simpa [key] using h)

/-- a suffix that follows the simulation number in a generated name -/
def GoodSuffix (suf : Name) : Prop :=
  (∀ t ∈ splitU suf, isDigits t = false) ∧ restOK (splitU suf) = true

theorem parseName_mkName (p : Name) (s : Nat) (suf : Name) (h : GoodSuffix suf) :
    parseName (mkName p s suf) = some (key p s) := by
  unfold parseName mkName
  rw [splitU_append, splitU_append,
    splitU_noUnderscore (simDigits s) (by unfold simDigits; exact Nat.underscore_not_in_toDigits)]
  have hp : ([] : List Name) ++ splitU p ≠ [] := by simpa using splitU_ne_nil p
  have := parseToks_found [] (splitU p) (simDigits s) (splitU suf) (isDigits_simDigits s) h.1 h.2 hp
  simp only [List.singleton_append]
  rw [this]
  simp [joinU_splitU, key]

theorem goodSuffix_ts : GoodSuffix tsSuffix := by unfold GoodSuffix; decide
theorem goodSuffix_emis : GoodSuffix emisSuffix := by unfold GoodSuffix; decide
theorem goodSuffix_est : GoodSuffix estSuffix := by unfold GoodSuffix; decide
theorem goodSuffix_rep : GoodSuffix repSuffix := by unfold GoodSuffix; decide


/-! ### which generated file each pattern selects -/

theorem hasSuffix_mkName_self (p : Name) (s : Nat) (suf : Name) : hasSuffix suf (mkName p s suf) = true := by
  unfold hasSuffix mkName
  rw [List.isSuffixOf_iff_suffix]
  exact ⟨p ++ '_' :: (simDigits s ++ ['_']), by simp⟩

theorem hasSuffix_mkName_other (p : Name) (s : Nat) (a b : Name)
    (h1 : a.isSuffixOf ('_' :: b) = false) (h2 : ('_' :: b).isSuffixOf a = false) :
    hasSuffix a (mkName p s b) = false := by
  unfold hasSuffix mkName
  cases h : a.isSuffixOf (p ++ '_' :: (simDigits s ++ '_' :: b)) with
  | false => rfl
  | true =>
    rw [List.isSuffixOf_iff_suffix] at h
    have hb : ('_' :: b) <:+ (p ++ '_' :: (simDigits s ++ '_' :: b)) :=
      ⟨p ++ '_' :: simDigits s, by simp⟩
    rcases List.suffix_or_suffix_of_suffix h hb with h' | h'
    · rw [← List.isSuffixOf_iff_suffix] at h'; rw [h'] at h1; exact absurd h1 (by simp)
    · rw [← List.isSuffixOf_iff_suffix] at h'; rw [h'] at h2; exact absurd h2 (by simp)

theorem isKept_append_us (p rest : Name) : isKept (p ++ '_' :: rest) = isKept p := by
  unfold isKept keptStr
  match p with
  | [] => simp [List.isPrefixOf]
  | [a] => simp [List.isPrefixOf]
  | [a, b] => simp [List.isPrefixOf]
  | [a, b, c] => simp [List.isPrefixOf]
  | a :: b :: c :: d :: p' => simp [List.isPrefixOf]

theorem isKept_mkName (p : Name) (s : Nat) (suf : Name) : isKept (mkName p s suf) = isKept p := by
  unfold mkName; exact isKept_append_us p _

theorem isKept_kept_append (n : Name) : isKept (keptStr ++ n) = true := by
  unfold isKept
  rw [List.isPrefixOf_iff_prefix]
  exact List.prefix_append _ _

/-! ### keyed tables -/

def keys {α : Type} (t : Table α) : List Key := t.map (·.1)

theorem lookup_cons_eq {α : Type} (k k' : Key) (v : α) (t : Table α) :
    List.lookup k ((k', v) :: t) = if k = k' then some v else List.lookup k t := by
  rw [List.lookup_cons]
  by_cases h : k = k'
  · subst h; simp
  · have : (k == k') = false := by simpa using h
    simp [this, h]

theorem lookup_eq_none_of_not_mem {α : Type} (k : Key) (t : Table α) (h : k ∉ keys t) :
    List.lookup k t = none := by
  induction t with
  | nil => rfl
  | cons x t ih =>
    obtain ⟨k', v⟩ := x
    have h1 : k ≠ k' := fun e => h (by simp [keys, e])
    have h2 : k ∉ keys t := fun e => h (by simp [keys] at e ⊢; exact Or.inr e)
    rw [lookup_cons_eq, if_neg h1]; exact ih h2

theorem lookup_isSome_of_mem {α : Type} (k : Key) (t : Table α) (h : k ∈ keys t) :
    (List.lookup k t).isSome = true := by
  induction t with
  | nil => simp [keys] at h
  | cons x t ih =>
    obtain ⟨k', v⟩ := x
    rw [lookup_cons_eq]
    by_cases e : k = k'
    · simp [e]
    · rw [if_neg e]
      apply ih
      simp [keys] at h ⊢
      rcases h with h | h
      · exact absurd h e
      · exact h

theorem lookup_perm {α : Type} {t t' : Table α} (h : t.Perm t') (nd : (keys t).Nodup) (k : Key) :
    List.lookup k t = List.lookup k t' := by
  induction h with
  | nil => rfl
  | cons x _ ih =>
    obtain ⟨k', v⟩ := x
    simp only [keys, List.map_cons, List.nodup_cons] at nd
    rw [lookup_cons_eq, lookup_cons_eq, ih nd.2]
  | swap x y l =>
    obtain ⟨kx, vx⟩ := x
    obtain ⟨ky, vy⟩ := y
    simp only [keys, List.map_cons, List.nodup_cons, List.mem_cons] at nd
    have hne : ky ≠ kx := fun e => nd.1 (Or.inl e)
    simp only [lookup_cons_eq]
    by_cases h1 : k = kx
    · subst h1
      have : ¬ k = ky := fun e => hne e.symm
      simp [this]
    · simp [h1]
  | trans h1 _ ih1 ih2 =>
    rw [ih1 nd]
    apply ih2
    exact (List.Perm.nodup_iff (List.Perm.map _ h1)).mp nd

theorem lookup_map_val {α β : Type} (g : Key → α → β) (k : Key) (t : Table α) :
    List.lookup k (t.map fun x => (x.1, g x.1 x.2)) = (List.lookup k t).map (g k) := by
  induction t with
  | nil => rfl
  | cons x t ih =>
    obtain ⟨k', v⟩ := x
    simp only [List.map_cons, lookup_cons_eq]
    by_cases e : k = k'
    · subst e; simp
    · simp [e, ih]

theorem keys_map_val {α β : Type} (g : Key → α → β) (t : Table α) :
    keys (t.map fun x => (x.1, g x.1 x.2)) = keys t := by
  simp [keys, List.map_map, Function.comp_def]

/-- lookup in the table built from optional per-simulation entries -/
theorem lookup_optRows {α : Type} (p : Name) (f : Nat → Option α) (sims : List Nat) (s : Nat) :
    List.lookup (key p s) (sims.flatMap fun s' => ((f s').map fun c => (key p s', c)).toList)
      = if s ∈ sims then f s else none := by
  induction sims with
  | nil => simp
  | cons a rest ih =>
    simp only [List.flatMap_cons]
    by_cases e : a = s
    · subst e
      cases hf : f a with
      | none => simp [hf, ih]
      | some c => simp [hf, lookup_cons_eq]
    · have hk : key p s ≠ key p a := fun h => e (key_injective p h).symm
      have hs : (s ∈ a :: rest) ↔ s ∈ rest := by
        simp only [List.mem_cons]; constructor
        · rintro (h | h)
          · exact absurd h.symm e
          · exact h
        · exact Or.inr
      cases hf : f a with
      | none => simp [hf, ih, hs]
      | some c => simp [hf, lookup_cons_eq, hk, ih, hs]

theorem keys_optRows {α : Type} (p : Name) (f : Nat → Option α) (sims : List Nat) :
    ∀ k ∈ keys (sims.flatMap fun s' => ((f s').map fun c => (key p s', c)).toList), ∃ s ∈ sims, k = key p s := by
  intro k hk
  simp only [keys, List.mem_map, List.mem_flatMap] at hk
  obtain ⟨x, ⟨s, hs, hx⟩, rfl⟩ := hk
  cases hf : f s with
  | none => simp [hf] at hx
  | some c => simp [hf] at hx; exact ⟨s, hs, by rw [hx]⟩

theorem nodup_keys_optRows {α : Type} (p : Name) (f : Nat → Option α) (sims : List Nat) (nd : sims.Nodup) :
    (keys (sims.flatMap fun s' => ((f s').map fun c => (key p s', c)).toList)).Nodup := by
  induction sims with
  | nil => simp [keys]
  | cons a rest ih =>
    simp only [List.nodup_cons] at nd
    simp only [List.flatMap_cons, keys, List.map_append]
    cases hf : f a with
    | none => simpa [keys] using ih nd.2
    | some c =>
      simp only [Option.map_some, Option.toList_some, List.map_cons, List.map_nil, List.singleton_append,
        List.nodup_cons]
      refine ⟨?_, by simpa [keys] using ih nd.2⟩
      intro hmem
      obtain ⟨s, hs, he⟩ := keys_optRows p f rest _ (by simpa [keys] using hmem)
      exact nd.1 ((key_injective p he) ▸ hs)


/-! ### summarising a generated folder -/

theorem flatMap_single {β γ : Type} (g : β → γ) (l : List β) : (l.flatMap fun x => [g x]) = l.map g := by
  induction l with
  | nil => rfl
  | cons a l ih => simp [List.flatMap_cons, ih]

section
variable {κ α : Type}

theorem summarize_perm (suf : Name) (f : κ → α) {l l' : List (File κ)} (h : l.Perm l') :
    (summarize suf f l).Perm (summarize suf f l') := List.Perm.filterMap _ h

theorem summarize_append (suf : Name) (f : κ → α) (a b : List (File κ)) :
    summarize suf f (a ++ b) = summarize suf f a ++ summarize suf f b := by
  simp [summarize, List.filterMap_append]

theorem summarize_kept (suf : Name) (f : κ → α) (d : List (File κ)) (h : ∀ e ∈ d, isKept e.name = true) :
    summarize suf f d = [] := by
  rw [summarize, List.filterMap_eq_nil_iff]
  intro e he
  simp [h e he]

theorem summarize_flatMap {β : Type} (suf : Name) (f : κ → α) (l : List β) (g : β → List (File κ)) :
    summarize suf f (l.flatMap g) = l.flatMap fun x => summarize suf f (g x) := by
  simp [summarize, List.filterMap_flatMap]

theorem sfx_ts_emis (p : Name) (s : Nat) : hasSuffix tsSuffix (mkName p s emisSuffix) = false :=
  hasSuffix_mkName_other p s _ _ (by decide) (by decide)
theorem sfx_ts_est (p : Name) (s : Nat) : hasSuffix tsSuffix (mkName p s estSuffix) = false :=
  hasSuffix_mkName_other p s _ _ (by decide) (by decide)
theorem sfx_ts_rep (p : Name) (s : Nat) : hasSuffix tsSuffix (mkName p s repSuffix) = false :=
  hasSuffix_mkName_other p s _ _ (by decide) (by decide)
theorem sfx_emis_ts (p : Name) (s : Nat) : hasSuffix emisSuffix (mkName p s tsSuffix) = false :=
  hasSuffix_mkName_other p s _ _ (by decide) (by decide)
theorem sfx_emis_est (p : Name) (s : Nat) : hasSuffix emisSuffix (mkName p s estSuffix) = false :=
  hasSuffix_mkName_other p s _ _ (by decide) (by decide)
theorem sfx_emis_rep (p : Name) (s : Nat) : hasSuffix emisSuffix (mkName p s repSuffix) = false :=
  hasSuffix_mkName_other p s _ _ (by decide) (by decide)
theorem sfx_est_ts (p : Name) (s : Nat) : hasSuffix estSuffix (mkName p s tsSuffix) = false :=
  hasSuffix_mkName_other p s _ _ (by decide) (by decide)
theorem sfx_est_emis (p : Name) (s : Nat) : hasSuffix estSuffix (mkName p s emisSuffix) = false :=
  hasSuffix_mkName_other p s _ _ (by decide) (by decide)
theorem sfx_est_rep (p : Name) (s : Nat) : hasSuffix estSuffix (mkName p s repSuffix) = false :=
  hasSuffix_mkName_other p s _ _ (by decide) (by decide)
theorem sfx_rep_ts (p : Name) (s : Nat) : hasSuffix repSuffix (mkName p s tsSuffix) = false :=
  hasSuffix_mkName_other p s _ _ (by decide) (by decide)
theorem sfx_rep_emis (p : Name) (s : Nat) : hasSuffix repSuffix (mkName p s emisSuffix) = false :=
  hasSuffix_mkName_other p s _ _ (by decide) (by decide)
theorem sfx_rep_est (p : Name) (s : Nat) : hasSuffix repSuffix (mkName p s estSuffix) = false :=
  hasSuffix_mkName_other p s _ _ (by decide) (by decide)

theorem summarize_simFiles_ts (f : κ → α) (p : Name) (s : Nat) (o : SimOut κ) (hk : isKept p = false) :
    summarize tsSuffix f (simFiles p s o) = [(key p s, f o.ts)] := by
  unfold summarize simFiles
  cases o.est <;> cases o.rep <;>
    simp [hasSuffix_mkName_self, sfx_ts_emis, sfx_ts_est, sfx_ts_rep, isKept_mkName, hk,
      parseName_mkName _ _ _ goodSuffix_ts]

theorem summarize_simFiles_emis (f : κ → α) (p : Name) (s : Nat) (o : SimOut κ) (hk : isKept p = false) :
    summarize emisSuffix f (simFiles p s o) = [(key p s, f o.emis)] := by
  unfold summarize simFiles
  cases o.est <;> cases o.rep <;>
    simp [hasSuffix_mkName_self, sfx_emis_ts, sfx_emis_est, sfx_emis_rep, isKept_mkName, hk,
      parseName_mkName _ _ _ goodSuffix_emis]

theorem summarize_simFiles_est (f : κ → α) (p : Name) (s : Nat) (o : SimOut κ) (hk : isKept p = false) :
    summarize estSuffix f (simFiles p s o) = ((o.est.map f).map fun c => (key p s, c)).toList := by
  unfold summarize simFiles
  cases o.est <;> cases o.rep <;>
    simp [hasSuffix_mkName_self, sfx_est_ts, sfx_est_emis, sfx_est_rep, isKept_mkName, hk,
      parseName_mkName _ _ _ goodSuffix_est]

theorem summarize_simFiles_rep (f : κ → α) (p : Name) (s : Nat) (o : SimOut κ) (hk : isKept p = false) :
    summarize repSuffix f (simFiles p s o) = ((o.rep.map f).map fun c => (key p s, c)).toList := by
  unfold summarize simFiles
  cases o.est <;> cases o.rep <;>
    simp [hasSuffix_mkName_self, sfx_rep_ts, sfx_rep_emis, sfx_rep_est, isKept_mkName, hk,
      parseName_mkName _ _ _ goodSuffix_rep]

/-- the folder of program `p` while batch `sims` is summarised: files of earlier batches (all
marked kept) and the files the batch has just written -/
def batchDir (W : Name → Nat → SimOut κ) (p : Name) (old : List (File κ)) (sims : List Nat) : List (File κ) :=
  old ++ sims.flatMap fun s => simFiles p s (W p s)

theorem summarize_batch_ts (f : κ → α) (W : Name → Nat → SimOut κ) (p : Name) (hk : isKept p = false)
    (old : List (File κ)) (hold : ∀ e ∈ old, isKept e.name = true) (sims : List Nat)
    {l : List (File κ)} (hl : l.Perm (batchDir W p old sims)) :
    (summarize tsSuffix f l).Perm (sims.map fun s => (key p s, f (W p s).ts)) := by
  refine (summarize_perm _ _ hl).trans ?_
  unfold batchDir
  rw [summarize_append, summarize_kept _ _ _ hold, summarize_flatMap]
  simp [summarize_simFiles_ts _ _ _ _ hk, flatMap_single]

theorem summarize_batch_emis (f : κ → α) (W : Name → Nat → SimOut κ) (p : Name) (hk : isKept p = false)
    (old : List (File κ)) (hold : ∀ e ∈ old, isKept e.name = true) (sims : List Nat)
    {l : List (File κ)} (hl : l.Perm (batchDir W p old sims)) :
    (summarize emisSuffix f l).Perm (sims.map fun s => (key p s, f (W p s).emis)) := by
  refine (summarize_perm _ _ hl).trans ?_
  unfold batchDir
  rw [summarize_append, summarize_kept _ _ _ hold, summarize_flatMap]
  simp [summarize_simFiles_emis _ _ _ _ hk, flatMap_single]

theorem summarize_batch_est (f : κ → α) (W : Name → Nat → SimOut κ) (p : Name) (hk : isKept p = false)
    (old : List (File κ)) (hold : ∀ e ∈ old, isKept e.name = true) (sims : List Nat)
    {l : List (File κ)} (hl : l.Perm (batchDir W p old sims)) :
    (summarize estSuffix f l).Perm
      (sims.flatMap fun s => ((((W p s).est).map f).map fun c => (key p s, c)).toList) := by
  refine (summarize_perm _ _ hl).trans ?_
  unfold batchDir
  rw [summarize_append, summarize_kept _ _ _ hold, summarize_flatMap]
  simp [summarize_simFiles_est _ _ _ _ hk]

theorem summarize_batch_rep (f : κ → α) (W : Name → Nat → SimOut κ) (p : Name) (hk : isKept p = false)
    (old : List (File κ)) (hold : ∀ e ∈ old, isKept e.name = true) (sims : List Nat)
    {l : List (File κ)} (hl : l.Perm (batchDir W p old sims)) :
    (summarize repSuffix f l).Perm
      (sims.flatMap fun s => ((((W p s).rep).map f).map fun c => (key p s, c)).toList) := by
  refine (summarize_perm _ _ hl).trans ?_
  unfold batchDir
  rw [summarize_append, summarize_kept _ _ _ hold, summarize_flatMap]
  simp [summarize_simFiles_rep _ _ _ _ hk]

end


/-! ### the estimate-minus-correction join and the outer merge on permuted tables -/

theorem mem_keys_of_perm {α : Type} {t t' : Table α} (h : t.Perm t') (k : Key) : k ∈ keys t ↔ k ∈ keys t' :=
  (List.Perm.map (·.1) h).mem_iff

theorem nodup_keys_of_perm {α : Type} {t t' : Table α} (h : t.Perm t') (nd : (keys t).Nodup) : (keys t').Nodup :=
  (List.Perm.nodup_iff (List.Perm.map _ h)).mp nd

theorem estCell_congr {rep rep' : Table (List Rat)} (h : rep'.Perm rep) (nd : (keys rep).Nodup)
    (k : Key) (e : List Rat) : estCell rep' k e = estCell rep k e := by
  unfold estCell
  rw [lookup_perm h (nodup_keys_of_perm h.symm nd) k]

/-- the join does not depend on the order in which either table was scanned -/
theorem estJoin_perm {est est' rep rep' : Table (List Rat)} (he : est'.Perm est) (hr : rep'.Perm rep)
    (nd : (keys rep).Nodup) : (estJoin est' rep').Perm (estJoin est rep) := by
  unfold estJoin
  have : (fun x : Key × List Rat => (x.1, estCell rep' x.1 x.2)) = fun x => (x.1, estCell rep x.1 x.2) := by
    funext x; rw [estCell_congr hr nd]
  rw [this]
  exact List.Perm.map _ he

theorem keys_estJoin (est rep : Table (List Rat)) : keys (estJoin est rep) = keys est := by
  unfold estJoin; exact keys_map_val (fun k e => estCell rep k e) est

theorem lookup_estJoin (est rep : Table (List Rat)) (k : Key) :
    List.lookup k (estJoin est rep) = (List.lookup k est).map (estCell rep k) := by
  unfold estJoin; exact lookup_map_val (fun k e => estCell rep k e) k est

theorem mergeOuter_perm {nE nY : Nat} {emis emis' : Table (List Val)} {est est' : Table (List Rat)}
    (he : emis'.Perm emis) (hj : est'.Perm est) (nd : (keys est).Nodup)
    (hsub : ∀ k ∈ keys est, k ∈ keys emis) :
    (mergeOuter nE nY emis' est').Perm (emis.map fun x => (x.1, mergeCell nY est x.1 x.2)) := by
  unfold mergeOuter
  have h2 : (est'.filter fun x => (List.lookup x.1 emis').isNone) = [] := by
    rw [List.filter_eq_nil_iff]
    intro x hx
    have hk : x.1 ∈ keys est' := by simp only [keys, List.mem_map]; exact ⟨x, hx, rfl⟩
    have hk2 : x.1 ∈ keys emis' := (mem_keys_of_perm he _).mpr (hsub _ ((mem_keys_of_perm hj _).mp hk))
    have := lookup_isSome_of_mem _ _ hk2
    simp [Option.isNone_iff_eq_none, Option.isSome_iff_ne_none] at this ⊢
    exact this
  rw [h2]
  simp only [List.map_nil, List.append_nil]
  have : (fun x : Key × List Val => (x.1, mergeCell nY est' x.1 x.2)) = fun x => (x.1, mergeCell nY est x.1 x.2) := by
    funext x
    unfold mergeCell
    rw [lookup_perm hj (nodup_keys_of_perm hj.symm nd) x.1]
  rw [this]
  exact List.Perm.map _ he

/-! ### closed form of the rows one batch adds for one program -/

section
variable {κ : Type}

/-- the yearly estimated-emissions cells of a program-simulation, from its own two files -/
def estPart (S : Stats κ) (o : SimOut κ) : List Val :=
  match o.est with
  | none => List.replicate S.nYears (Val.q 0)
  | some e =>
    (match o.rep with
     | some r => List.zipWith floorSub (S.est e) (S.rep r)
     | none => (S.est e).map fun _ => 0).map Val.q

/-- the Timeseries Summary row of (p, s): a function of that pair's own timeseries file -/
def tsRowOf (S : Stats κ) (W : Name → Nat → SimOut κ) (p : Name) (s : Nat) : Key × List Val :=
  (key p s, S.ts (W p s).ts)

/-- the Emissions Summary row of (p, s): a function of that pair's own files -/
def emisRowOf (S : Stats κ) (W : Name → Nat → SimOut κ) (p : Name) (s : Nat) : Key × List Val :=
  (key p s, S.emis (W p s).emis ++ estPart S (W p s))

theorem tsRows_batch (S : Stats κ) (W : Name → Nat → SimOut κ) (p : Name) (hk : isKept p = false)
    (old : List (File κ)) (hold : ∀ e ∈ old, isKept e.name = true) (sims : List Nat)
    {l : List (File κ)} (hl : l.Perm (batchDir W p old sims)) :
    (tsRows S l).Perm (sims.map (tsRowOf S W p)) := by
  unfold tsRows
  exact summarize_batch_ts S.ts W p hk old hold sims hl

theorem emisRows_batch (S : Stats κ) (W : Name → Nat → SimOut κ) (p : Name) (hk : isKept p = false)
    (old : List (File κ)) (hold : ∀ e ∈ old, isKept e.name = true) (sims : List Nat) (nd : sims.Nodup)
    {le lest lrep : List (File κ)} (h1 : le.Perm (batchDir W p old sims))
    (h2 : lest.Perm (batchDir W p old sims)) (h3 : lrep.Perm (batchDir W p old sims)) :
    (emisRows S le lest lrep).Perm (sims.map (emisRowOf S W p)) := by
  unfold emisRows
  have hE := summarize_batch_emis S.emis W p hk old hold sims h1
  have hX := summarize_batch_est S.est W p hk old hold sims h2
  have hR := summarize_batch_rep S.rep W p hk old hold sims h3
  generalize summarize emisSuffix S.emis le = E' at hE
  generalize summarize estSuffix S.est lest = X' at hX
  generalize summarize repSuffix S.rep lrep = R' at hR
  let fE : Nat → Option (List Rat) := fun s => ((W p s).est).map S.est
  let fR : Nat → Option (List Rat) := fun s => ((W p s).rep).map S.rep
  have ndR := nodup_keys_optRows p fR sims nd
  have ndX := nodup_keys_optRows p fE sims nd
  have hJ := estJoin_perm hX hR ndR
  have ndJ : (keys (estJoin (sims.flatMap fun s => ((fE s).map fun c => (key p s, c)).toList)
      (sims.flatMap fun s => ((fR s).map fun c => (key p s, c)).toList))).Nodup := by
    rw [keys_estJoin]; exact ndX
  have hsub : ∀ k ∈ keys (estJoin (sims.flatMap fun s => ((fE s).map fun c => (key p s, c)).toList)
      (sims.flatMap fun s => ((fR s).map fun c => (key p s, c)).toList)),
      k ∈ keys (sims.map fun s => (key p s, S.emis (W p s).emis)) := by
    intro k hk'
    rw [keys_estJoin] at hk'
    obtain ⟨s, hs, rfl⟩ := keys_optRows p fE sims k hk'
    simp only [keys, List.map_map, List.mem_map]
    exact ⟨s, hs, rfl⟩
  refine (mergeOuter_perm hE hJ ndJ hsub).trans ?_
  rw [List.map_map]
  apply List.Perm.of_eq
  apply List.map_congr_left
  intro s hs
  simp only [Function.comp, emisRowOf, mergeCell, lookup_estJoin]
  rw [lookup_optRows p fE sims s]
  unfold estCell
  rw [lookup_optRows p fR sims s]
  simp only [hs, if_true, fE, fR, estPart]
  cases (W p s).est <;> cases (W p s).rep <;> simp

end


/-! ### the batch loop -/

theorem flatMap_transpose {β γ δ : Type} (f : β → γ → δ) (ps : List β) (ss : List γ) :
    (ps.flatMap fun p => ss.map (f p)).Perm (ss.flatMap fun s => ps.map fun p => f p s) := by
  induction ps with
  | nil => simp
  | cons p ps ih =>
    simp only [List.flatMap_cons, List.map_cons]
    have h1 := List.flatMap_append_perm ss (fun s => [f p s]) (fun s => ps.map fun p => f p s)
    rw [flatMap_single] at h1
    exact (List.Perm.append_left _ ih).trans (by simpa using h1)

section
variable {κ : Type}

/-- every listing a schedule returns is a permutation of what it was given -/
def Sched.Valid (σ : Sched κ) : Prop :=
  (∀ b l, (σ.dirs b l).Perm l) ∧ (∀ b p l, (σ.ts b p l).Perm l) ∧ (∀ b p l, (σ.emis b p l).Perm l)
    ∧ (∀ b p l, (σ.est b p l).Perm l) ∧ (∀ b p l, (σ.rep b p l).Perm l)

/-- program names that do not collide with the two reserved names -/
def GoodProgs (progs : List Name) : Prop := ∀ p ∈ progs, isKept p = false ∧ p ≠ logsName

/-- one row per (program, simulation), computed from that pair's own files -/
def canonTs (S : Stats κ) (W : Name → Nat → SimOut κ) (progs : List Name) (sims : List Nat) : Table (List Val) :=
  sims.flatMap fun s => progs.map fun p => tsRowOf S W p s

def canonEmis (S : Stats κ) (W : Name → Nat → SimOut κ) (progs : List Name) (sims : List Nat) : Table (List Val) :=
  sims.flatMap fun s => progs.map fun p => emisRowOf S W p s

structure Inv (S : Stats κ) (W : Name → Nat → SimOut κ) (progs : List Name) (st : St κ) (done : List Nat) : Prop where
  names : st.dirs.map (·.1) = progs
  kept : ∀ pd ∈ st.dirs, ∀ e ∈ pd.2, isKept e.name = true
  ts : st.ts.Perm (canonTs S W progs done)
  emis : st.emis.Perm (canonEmis S W progs done)

theorem finish_kept (clear : Bool) (d : List (File κ)) : ∀ e ∈ finish clear d, isKept e.name = true := by
  intro e he
  unfold finish at he
  cases clear with
  | true =>
    simp only [if_true, clearDir, List.mem_filter] at he
    exact he.2
  | false =>
    simp only [Bool.false_eq_true, if_false, markKept, List.mem_map] at he
    obtain ⟨f, _, rfl⟩ := he
    by_cases hk : isKept f.name = true
    · simp [hk]
    · simp [hk, isKept_kept_append]

theorem writeBatch_dirs (W : Name → Nat → SimOut κ) (sims : List Nat) (st : St κ) :
    (writeBatch W sims st).dirs = st.dirs.map fun pd => (pd.1, batchDir W pd.1 pd.2 sims) := rfl

theorem progDirs_eq (st : St κ) (h : ∀ pd ∈ st.dirs, pd.1 ≠ logsName) : progDirs st = st.dirs := by
  unfold progDirs
  rw [List.filter_eq_self]
  intro pd hpd
  simpa using h pd hpd

theorem step_inv (S : Stats κ) (W : Name → Nat → SimOut κ) (progs : List Name) (hg : GoodProgs progs)
    (σ : Sched κ) (hσ : σ.Valid) (st : St κ) (done : List Nat) (h : Inv S W progs st done)
    (b : Nat) (clear : Bool) (sims : List Nat) (nd : sims.Nodup) :
    Inv S W progs (genAll S clear (visitOf σ b (writeBatch W sims st)) (writeBatch W sims st)) (done ++ sims) := by
  obtain ⟨hd, hts, hem, hes, hre⟩ := hσ
  have hmem : ∀ pd ∈ st.dirs, pd.1 ∈ progs := by
    intro pd hpd
    rw [← h.names]; exact List.mem_map.mpr ⟨pd, hpd, rfl⟩
  have hnl1 : ∀ pd ∈ (writeBatch W sims st).dirs, pd.1 ≠ logsName := by
    intro pd hpd
    rw [writeBatch_dirs, List.mem_map] at hpd
    obtain ⟨q, hq, rfl⟩ := hpd
    exact (hg q.1 (hmem q hq)).2
  have hpd1 := progDirs_eq _ hnl1
  -- rows added by this call, program-major
  have rows_ts : ((visitOf σ b (writeBatch W sims st)).flatMap fun v => tsRows S v.2.ts).Perm
      (progs.flatMap fun p => sims.map (tsRowOf S W p)) := by
    unfold visitOf
    rw [List.flatMap_map, hpd1]
    refine (List.Perm.flatMap_right _ (hd b _)).trans ?_
    rw [writeBatch_dirs, List.flatMap_map, ← h.names, List.flatMap_map]
    apply List.Perm.flatMap_left
    intro pd hpd
    exact tsRows_batch S W pd.1 (hg _ (hmem pd hpd)).1 pd.2 (h.kept pd hpd) sims (hts b _ _)
  have rows_emis : ((visitOf σ b (writeBatch W sims st)).flatMap fun v => emisRows S v.2.emis v.2.est v.2.rep).Perm
      (progs.flatMap fun p => sims.map (emisRowOf S W p)) := by
    unfold visitOf
    rw [List.flatMap_map, hpd1]
    refine (List.Perm.flatMap_right _ (hd b _)).trans ?_
    rw [writeBatch_dirs, List.flatMap_map, ← h.names, List.flatMap_map]
    apply List.Perm.flatMap_left
    intro pd hpd
    exact emisRows_batch S W pd.1 (hg _ (hmem pd hpd)).1 pd.2 (h.kept pd hpd) sims nd (hem b _ _) (hes b _ _)
      (hre b _ _)
  constructor
  · -- folder names are unchanged
    simp only [genAll, writeBatch_dirs, List.map_map]
    rw [← h.names]
    apply List.map_congr_left
    intro pd _
    simp only [Function.comp]
    split <;> rfl
  · -- every file left in a program folder is marked kept
    intro pd hpd e he
    simp only [genAll, List.mem_map] at hpd
    obtain ⟨q, hq, rfl⟩ := hpd
    have hq' : (q.1 != logsName) = true := by simpa using hnl1 q hq
    rw [if_pos hq'] at he
    exact finish_kept clear q.2 e he
  · show (st.ts ++ _).Perm _
    unfold canonTs
    rw [List.flatMap_append]
    exact List.Perm.append h.ts (rows_ts.trans (flatMap_transpose _ _ _))
  · show (st.emis ++ _).Perm _
    unfold canonEmis
    rw [List.flatMap_append]
    exact List.Perm.append h.emis (rows_emis.trans (flatMap_transpose _ _ _))

/-- simulation numbers handled by the batches `cs` when the first of them has index `b` -/
def allSims : Nat → List Nat → List Nat
  | _, [] => []
  | b, c :: cs => batchSims b c ++ allSims (b + 1) cs

theorem nodup_batchSims (b c : Nat) : (batchSims b c).Nodup := by
  unfold batchSims
  refine List.Nodup.map ?_ List.nodup_range
  intro x y hxy
  simpa using hxy

theorem runBatches_inv (S : Stats κ) (W : Name → Nat → SimOut κ) (progs : List Name) (hg : GoodProgs progs)
    (keepAll : Bool) (σ : Sched κ) (hσ : σ.Valid) (cs : List Nat) :
    ∀ (b : Nat) (st : St κ) (done : List Nat), Inv S W progs st done →
      Inv S W progs (runBatches S W keepAll σ b cs st) (done ++ allSims b cs) := by
  induction cs with
  | nil => intro b st done h; simpa [runBatches, allSims] using h
  | cons c cs ih =>
    intro b st done h
    simp only [runBatches, allSims]
    rw [← List.append_assoc]
    exact ih (b + 1) _ _ (step_inv S W progs hg σ hσ st done h b _ (batchSims b c) (nodup_batchSims b c))

theorem init_inv (S : Stats κ) (W : Name → Nat → SimOut κ) (progs : List Name) :
    Inv S W progs (initSt progs) [] := by
  unfold initSt
  constructor
  · simp [List.map_map, Function.comp_def]
  · intro pd hpd e he
    simp only [List.mem_map] at hpd
    obtain ⟨p, _, rfl⟩ := hpd
    simp at he
  · simp [canonTs]
  · simp [canonEmis]

end

/-! ### which inputs the real code rejects -/

theorem any_congr_mem {β : Type} (l : List β) (f g : β → Bool) (h : ∀ x ∈ l, f x = g x) : l.any f = l.any g := by
  induction l with
  | nil => rfl
  | cons a l ih =>
    simp only [List.any_cons]
    rw [h a (by simp), ih (fun x hx => h x (by simp [hx]))]

section
variable {κ : Type}

theorem rejectsListing_batch (suf : Name) (ok : κ → Bool) (W : Name → Nat → SimOut κ) (p : Name)
    (old : List (File κ)) (hold : ∀ e ∈ old, isKept e.name = true) (sims : List Nat)
    {l : List (File κ)} (hl : l.Perm (batchDir W p old sims)) :
    rejectsListing suf ok l = sims.any fun s => rejectsListing suf ok (simFiles p s (W p s)) := by
  unfold rejectsListing
  rw [hl.any_eq]
  unfold batchDir
  rw [List.any_append, List.any_flatMap]
  have : (old.any fun e => hasSuffix suf e.name && !isKept e.name && !ok e.content) = false := by
    rw [List.any_eq_false]
    intro e he
    simp [hold e he]
  rw [this, Bool.false_or]

theorem rejects_simFiles_ts (ok : κ → Bool) (p : Name) (s : Nat) (o : SimOut κ) (hk : isKept p = false) :
    rejectsListing tsSuffix ok (simFiles p s o) = !ok o.ts := by
  unfold rejectsListing simFiles
  cases o.est <;> cases o.rep <;>
    simp [hasSuffix_mkName_self, sfx_ts_emis, sfx_ts_est, sfx_ts_rep, isKept_mkName, hk]

theorem rejects_simFiles_emis (ok : κ → Bool) (p : Name) (s : Nat) (o : SimOut κ) (hk : isKept p = false) :
    rejectsListing emisSuffix ok (simFiles p s o) = !ok o.emis := by
  unfold rejectsListing simFiles
  cases o.est <;> cases o.rep <;>
    simp [hasSuffix_mkName_self, sfx_emis_ts, sfx_emis_est, sfx_emis_rep, isKept_mkName, hk]

theorem rejects_simFiles_est (ok : κ → Bool) (p : Name) (s : Nat) (o : SimOut κ) (hk : isKept p = false) :
    rejectsListing estSuffix ok (simFiles p s o) = ((o.est.map fun e => !ok e).getD false) := by
  unfold rejectsListing simFiles
  cases o.est <;> cases o.rep <;>
    simp [hasSuffix_mkName_self, sfx_est_ts, sfx_est_emis, sfx_est_rep, isKept_mkName, hk]

/-- (p, s) wrote a file the real code raises on -/
def badSim (S : Stats κ) (W : Name → Nat → SimOut κ) (p : Name) (s : Nat) : Bool :=
  !S.okTs (W p s).ts || !S.okEmis (W p s).emis || (((W p s).est.map fun e => !S.okEst e).getD false)

def badProg (S : Stats κ) (W : Name → Nat → SimOut κ) (sims : List Nat) (p : Name) : Bool :=
  (sims.any fun s => !S.okTs (W p s).ts) || (sims.any fun s => !S.okEmis (W p s).emis)
    || (sims.any fun s => (((W p s).est.map fun e => !S.okEst e).getD false))

theorem badProg_eq_false (S : Stats κ) (W : Name → Nat → SimOut κ) (sims : List Nat) (p : Name) :
    badProg S W sims p = false ↔ ∀ s ∈ sims, badSim S W p s = false := by
  simp only [badProg, badSim, Bool.or_eq_false_iff, List.any_eq_false]
  constructor
  · rintro ⟨⟨h1, h2⟩, h3⟩ s hs
    exact ⟨⟨by simpa using h1 s hs, by simpa using h2 s hs⟩, by simpa using h3 s hs⟩
  · intro h
    exact ⟨⟨fun s hs => by simpa using (h s hs).1.1, fun s hs => by simpa using (h s hs).1.2⟩,
      fun s hs => by simpa using (h s hs).2⟩

end

section
variable {κ : Type}

theorem rejectsVisit_batch (S : Stats κ) (W : Name → Nat → SimOut κ) (progs : List Name) (hg : GoodProgs progs)
    (σ : Sched κ) (hσ : σ.Valid) (st : St κ) (done : List Nat) (h : Inv S W progs st done) (b : Nat)
    (sims : List Nat) :
    rejectsVisit S (visitOf σ b (writeBatch W sims st)) = progs.any (badProg S W sims) := by
  obtain ⟨hd, hts, hem, hes, _⟩ := hσ
  have hmem : ∀ pd ∈ st.dirs, pd.1 ∈ progs := by
    intro pd hpd
    rw [← h.names]; exact List.mem_map.mpr ⟨pd, hpd, rfl⟩
  have hnl1 : ∀ pd ∈ (writeBatch W sims st).dirs, pd.1 ≠ logsName := by
    intro pd hpd
    rw [writeBatch_dirs, List.mem_map] at hpd
    obtain ⟨q, hq, rfl⟩ := hpd
    exact (hg q.1 (hmem q hq)).2
  unfold rejectsVisit visitOf
  rw [List.any_map, progDirs_eq _ hnl1, (hd b _).any_eq, writeBatch_dirs, List.any_map, ← h.names, List.any_map]
  apply any_congr_mem
  intro pd hpd
  have hk := (hg _ (hmem pd hpd)).1
  simp only [Function.comp, badProg]
  rw [rejectsListing_batch tsSuffix S.okTs W pd.1 pd.2 (h.kept pd hpd) sims (hts b _ _),
    rejectsListing_batch emisSuffix S.okEmis W pd.1 pd.2 (h.kept pd hpd) sims (hem b _ _),
    rejectsListing_batch estSuffix S.okEst W pd.1 pd.2 (h.kept pd hpd) sims (hes b _ _)]
  simp only [rejects_simFiles_ts _ _ _ _ hk, rejects_simFiles_emis _ _ _ _ hk, rejects_simFiles_est _ _ _ _ hk]

/-- no call of the batch loop raises iff no program-simulation of any batch wrote a rejected file -/
theorem runRejects_eq_false (S : Stats κ) (W : Name → Nat → SimOut κ) (progs : List Name) (hg : GoodProgs progs)
    (keepAll : Bool) (σ : Sched κ) (hσ : σ.Valid) (cs : List Nat) :
    ∀ (b : Nat) (st : St κ) (done : List Nat), Inv S W progs st done →
      (runRejects S W keepAll σ b cs st = false ↔ ∀ p ∈ progs, ∀ s ∈ allSims b cs, badSim S W p s = false) := by
  induction cs with
  | nil => intro b st done _; simp [runRejects, allSims]
  | cons c cs ih =>
    intro b st done h
    simp only [runRejects, allSims, Bool.or_eq_false_iff]
    rw [rejectsVisit_batch S W progs hg σ hσ st done h b (batchSims b c),
      ih (b + 1) _ _ (step_inv S W progs hg σ hσ st done h b _ (batchSims b c) (nodup_batchSims b c))]
    simp only [List.any_eq_false, List.mem_append]
    constructor
    · rintro ⟨h1, h2⟩ p hp s hs
      rcases hs with hs | hs
      · have := h1 p hp
        rw [Bool.not_eq_true, badProg_eq_false] at this
        exact this s hs
      · exact h2 p hp s hs
    · intro hall
      refine ⟨fun p hp => ?_, fun p hp s hs => hall p hp s (Or.inr hs)⟩
      rw [Bool.not_eq_true, badProg_eq_false]
      exact fun s hs => hall p hp s (Or.inl hs)

end

/-! ### keys and lookups of the closed form -/

theorem lookup_of_mem_nodup {α : Type} {t : Table α} (nd : (keys t).Nodup) {k : Key} {v : α}
    (h : (k, v) ∈ t) : List.lookup k t = some v := by
  induction t with
  | nil => simp at h
  | cons x t ih =>
    obtain ⟨k', v'⟩ := x
    simp only [keys, List.map_cons, List.nodup_cons] at nd
    rw [lookup_cons_eq]
    rcases List.mem_cons.mp h with h1 | h2
    · cases h1; simp
    · have : k ≠ k' := by
        intro e; subst e
        exact nd.1 (List.mem_map.mpr ⟨(k, v), h2, rfl⟩)
      rw [if_neg this]; exact ih nd.2 h2

def canonKeys (progs : List Name) (sims : List Nat) : List Key :=
  sims.flatMap fun s => progs.map fun p => key p s

theorem mem_canonKeys (progs : List Name) (sims : List Nat) (k : Key) :
    k ∈ canonKeys progs sims ↔ ∃ s ∈ sims, ∃ p ∈ progs, k = key p s := by
  simp only [canonKeys, List.mem_flatMap, List.mem_map]
  constructor
  · rintro ⟨s, hs, p, hp, rfl⟩; exact ⟨s, hs, p, hp, rfl⟩
  · rintro ⟨s, hs, p, hp, rfl⟩; exact ⟨s, hs, p, hp, rfl⟩

theorem nodup_canonKeys (progs : List Name) (sims : List Nat) (hp : progs.Nodup) (hs : sims.Nodup) :
    (canonKeys progs sims).Nodup := by
  unfold canonKeys
  rw [List.nodup_flatMap]
  constructor
  · intro s _
    refine List.Nodup.map ?_ hp
    intro a b hab
    simpa [key] using hab
  · refine List.Pairwise.imp ?_ hs
    intro a b hab
    simp only [Function.onFun]
    intro k h1 h2
    simp only [List.mem_map] at h1 h2
    obtain ⟨p, _, rfl⟩ := h1
    obtain ⟨q, _, hq⟩ := h2
    simp only [key, Prod.mk.injEq] at hq
    exact hab (simDigits_injective hq.2).symm

section
variable {κ : Type}

theorem keys_canonTs (S : Stats κ) (W : Name → Nat → SimOut κ) (progs : List Name) (sims : List Nat) :
    keys (canonTs S W progs sims) = canonKeys progs sims := by
  simp [keys, canonTs, canonKeys, List.map_flatMap, List.map_map, Function.comp_def, tsRowOf]

theorem keys_canonEmis (S : Stats κ) (W : Name → Nat → SimOut κ) (progs : List Name) (sims : List Nat) :
    keys (canonEmis S W progs sims) = canonKeys progs sims := by
  simp [keys, canonEmis, canonKeys, List.map_flatMap, List.map_map, Function.comp_def, emisRowOf]

theorem lookup_canonTs (S : Stats κ) (W : Name → Nat → SimOut κ) (progs : List Name) (sims : List Nat)
    (hp : progs.Nodup) (hs : sims.Nodup) (p : Name) (hpm : p ∈ progs) (s : Nat) (hsm : s ∈ sims) :
    List.lookup (key p s) (canonTs S W progs sims) = some (S.ts (W p s).ts) := by
  apply lookup_of_mem_nodup
  · rw [keys_canonTs]; exact nodup_canonKeys progs sims hp hs
  · simp only [canonTs, List.mem_flatMap, List.mem_map]
    exact ⟨s, hsm, p, hpm, rfl⟩

theorem lookup_canonEmis (S : Stats κ) (W : Name → Nat → SimOut κ) (progs : List Name) (sims : List Nat)
    (hp : progs.Nodup) (hs : sims.Nodup) (p : Name) (hpm : p ∈ progs) (s : Nat) (hsm : s ∈ sims) :
    List.lookup (key p s) (canonEmis S W progs sims) = some (S.emis (W p s).emis ++ estPart S (W p s)) := by
  apply lookup_of_mem_nodup
  · rw [keys_canonEmis]; exact nodup_canonKeys progs sims hp hs
  · simp only [canonEmis, List.mem_flatMap, List.mem_map]
    exact ⟨s, hsm, p, hpm, rfl⟩

end

/-! ### cost summary -/

theorem nodup_keys_filter {α : Type} (t : Table α) (P : Key × α → Bool) (nd : (keys t).Nodup) :
    (keys (t.filter P)).Nodup :=
  List.Nodup.sublist (List.Sublist.map _ List.filter_sublist) nd

theorem costSummary_perm (nb : List Name) (econ : Name → Rat × Rat) (K : Rat)
    {emis emis' ts ts' : Table (List Val)} (he : emis'.Perm emis) (ht : ts'.Perm ts) (nd : (keys ts).Nodup) :
    (costSummary nb econ K emis' ts').Perm (costSummary nb econ K emis ts) := by
  unfold costSummary
  have hf := List.Perm.filter (fun y : Key × List Val => nb.contains y.1.1) ht
  have hl : ∀ k, List.lookup k (ts'.filter fun y => nb.contains y.1.1) = List.lookup k (ts.filter fun y => nb.contains y.1.1) :=
    fun k => lookup_perm hf (nodup_keys_of_perm hf.symm (nodup_keys_filter _ _ nd)) k
  simp only [hl]
  exact List.Perm.filterMap _ (List.Perm.filter _ he)

section
variable {κ : Type}

/-- the Cost Summary row of (p, s): that pair's own total mitigation and total cost and the two
formulas -/
def costRowOf (S : Stats κ) (W : Name → Nat → SimOut κ) (econ : Name → Rat × Rat) (K : Rat)
    (p : Name) (s : Nat) : Key × CostRow :=
  let mit := cell (S.emis (W p s).emis ++ estPart S (W p s)) mitCol
  let cost := cell (S.ts (W p s).ts) costCol
  (key p s, { mitigation := mit, totalCost := cost, ratio := costRatio mit cost (econ p).1,
              value := costValue mit K (econ p).2 })

theorem costSummary_canon (S : Stats κ) (W : Name → Nat → SimOut κ) (progs : List Name) (sims : List Nat)
    (hp : progs.Nodup) (hs : sims.Nodup) (nb : List Name) (econ : Name → Rat × Rat) (K : Rat) :
    costSummary nb econ K (canonEmis S W progs sims) (canonTs S W progs sims)
      = sims.flatMap fun s => (progs.filter fun p => nb.contains p).map fun p => costRowOf S W econ K p s := by
  unfold costSummary
  have ndf : (keys ((canonTs S W progs sims).filter fun y => nb.contains y.1.1)).Nodup :=
    nodup_keys_filter _ _ (by rw [keys_canonTs]; exact nodup_canonKeys progs sims hp hs)
  conv => lhs; rw [canonEmis, List.filter_flatMap, List.filterMap_flatMap]
  apply List.flatMap_congr
  intro s hsm
  rw [List.filter_map, List.filterMap_map]
  have : (fun p : Name => nb.contains p) = ((fun x : Key × List Val => nb.contains x.1.1) ∘ fun p => emisRowOf S W p s) := by
    funext p; simp [emisRowOf, key]
  rw [← this]
  rw [← List.filterMap_eq_map]
  apply List.filterMap_congr
  intro p hpm
  have hpm' := List.mem_filter.mp hpm
  have hmem : (key p s, S.ts (W p s).ts) ∈ (canonTs S W progs sims).filter fun y => nb.contains y.1.1 := by
    rw [List.mem_filter]
    refine ⟨?_, by simpa [key] using hpm'.2⟩
    simp only [canonTs, List.mem_flatMap, List.mem_map]
    exact ⟨s, hsm, p, hpm'.1, rfl⟩
  have hl := lookup_of_mem_nodup ndf hmem
  simp only [Function.comp, emisRowOf, costRowOf]
  rw [hl]
  rfl

end

/-! ### batching arithmetic -/

theorem allSims_replicate (q b : Nat) (t : List Nat) :
    allSims b (List.replicate q 5 ++ t) = (List.range (q * 5)).map (fun i => b * 5 + i) ++ allSims (b + q) t := by
  induction q generalizing b with
  | zero => simp
  | succ q ih =>
    simp only [List.replicate_succ, List.cons_append, allSims]
    rw [ih (b + 1)]
    have : (q + 1) * 5 = 5 + q * 5 := by omega
    rw [this, List.range_add, List.map_append, List.map_map, batchSims, List.append_assoc]
    congr 2
    · apply List.map_congr_left; intro i _; simp only [Function.comp]; omega
    · congr 1; omega

theorem allSims_batchSimulations (n : Nat) : allSims 0 (batchSimulations n) = List.range n := by
  unfold batchSimulations
  split
  · rw [allSims_replicate]
    have hn : n = n / 5 * 5 + n % 5 := by omega
    split
    · simp only [allSims, batchSims, List.append_nil, Nat.zero_mul, Nat.zero_add]
      conv => rhs; rw [hn, List.range_add]
      simp
    · simp only [allSims, List.append_nil]
      have : n % 5 = 0 := by omega
      conv => rhs; rw [hn, this]
      simp
  · simp [allSims, batchSims]

/-! ### yearly share of a closed record -/

theorem eoy_succ (y : Nat) : (⟨y, 12, 31⟩ : Date).ord + 1 = (⟨y + 1, 1, 1⟩ : Date).ord := by
  simp only [Date.ord]
  norm_num
  omega

/-- Σ_{i<j} f i -/
def sumTo (f : Nat → Rat) : Nat → Rat
  | 0 => 0
  | j + 1 => sumTo f j + f j

theorem sumR_single (x : Rat) : sumR [x] = x := by simp [sumR]

/-- share of one closed record in one year -/
theorem share_closed (v : Int) (st en : Date) (y : Nat) :
    yearlyShare [(v, some st, some en)] y =
      if st.y ≤ y ∧ y ≤ en.y then
        (v : Rat) * (if st.y = y ∧ en.y = y then (1 : Rat) / 1
          else if st.y = y then (((⟨y, 12, 31⟩ : Date).ord - st.ord + 1 : Int) : Rat) / ((en.ord - st.ord + 1 : Int) : Rat)
          else if en.y = y then ((en.ord - (⟨y, 1, 1⟩ : Date).ord + 1 : Int) : Rat) / ((en.ord - st.ord + 1 : Int) : Rat)
          else (((⟨y, 12, 31⟩ : Date).ord - (⟨y, 1, 1⟩ : Date).ord + 1 : Int) : Rat) / ((en.ord - st.ord + 1 : Int) : Rat))
      else 0 := by
  unfold yearlyShare rowShare
  by_cases h : st.y ≤ y ∧ y ≤ en.y
  · simp only [List.filterMap_cons, List.filterMap_nil, List.map_cons, List.map_nil, h, and_self, if_true,
      decide_true, Bool.and_self]
    split_ifs <;> simp_all [sumR]
  · simp only [List.filterMap_cons, List.filterMap_nil, List.map_cons, List.map_nil, h, if_false]
    rcases not_and_or.mp h with h1 | h1 <;> simp [h1, sumR]


theorem shares_partial (v : Int) (st en : Date) (hlt : st.y < en.y) (hT : en.ord - st.ord + 1 ≠ 0) (j : Nat)
    (hj : j < en.y - st.y) :
    sumTo (fun i => yearlyShare [(v, some st, some en)] (st.y + i)) (j + 1)
      = (v : Rat) * ((((⟨st.y + j + 1, 1, 1⟩ : Date).ord - st.ord : Int) : Rat) / ((en.ord - st.ord + 1 : Int) : Rat)) := by
  have hT' : ((en.ord - st.ord + 1 : Int) : Rat) ≠ 0 := by exact_mod_cast hT
  induction j with
  | zero =>
    simp only [sumTo, Nat.add_zero, zero_add]
    have h1 : st.y ≤ st.y ∧ st.y ≤ en.y := ⟨le_refl _, by omega⟩
    have h2 : ¬ (st.y = st.y ∧ en.y = st.y) := by omega
    rw [share_closed, if_pos h1, if_neg h2, if_pos rfl, ← eoy_succ]
    congr 2
    push_cast; ring
  | succ j ih =>
    rw [sumTo, ih (by omega), share_closed]
    have h1 : st.y ≤ st.y + (j + 1) ∧ st.y + (j + 1) ≤ en.y := by omega
    have h2 : ¬ (st.y = st.y + (j + 1) ∧ en.y = st.y + (j + 1)) := by omega
    have h3 : ¬ st.y = st.y + (j + 1) := by omega
    have h4 : ¬ en.y = st.y + (j + 1) := by omega
    rw [if_pos h1, if_neg h2, if_neg h3, if_neg h4]
    have e := eoy_succ (st.y + (j + 1))
    have : (⟨st.y + (j + 1) + 1, 1, 1⟩ : Date) = ⟨st.y + (j + 1 + 1), 1, 1⟩ := by congr 1
    rw [this] at e
    have e' : (⟨st.y + (j + 1), 12, 31⟩ : Date).ord = (⟨st.y + (j + 1 + 1), 1, 1⟩ : Date).ord - 1 := by omega
    have : (⟨st.y + j + 1, 1, 1⟩ : Date) = ⟨st.y + (j + 1), 1, 1⟩ := by congr 1
    rw [e', this]
    field_simp
    push_cast
    ring_nf

theorem foldl_add_rat (l : List Rat) (a : Rat) : l.foldl (· + ·) a = a + l.foldl (· + ·) 0 := by
  induction l generalizing a with
  | nil => simp
  | cons x l ih => simp only [List.foldl_cons]; rw [ih (a + x), ih (0 + x)]; ring

theorem sumR_cons (x : Rat) (l : List Rat) : sumR (x :: l) = x + sumR l := by
  unfold sumR; simp only [List.foldl_cons]; rw [foldl_add_rat]; ring

theorem sumR_nil : sumR [] = 0 := rfl

theorem sumR_filterMap {β : Type} (f : β → Option Rat) (l : List β) :
    sumR (l.filterMap f) = sumR (l.map fun r => (f r).getD 0) := by
  induction l with
  | nil => rfl
  | cons a l ih =>
    simp only [List.filterMap_cons, List.map_cons]
    cases h : f a with
    | none => simp [sumR_cons, ih]
    | some x => simp [sumR_cons, ih]

theorem sumR_map_add {β : Type} (f g : β → Rat) (l : List β) :
    sumR (l.map fun r => f r + g r) = sumR (l.map f) + sumR (l.map g) := by
  induction l with
  | nil => simp [sumR_nil]
  | cons a l ih => simp only [List.map_cons, sumR_cons, ih]; ring

theorem sumTo_sumR {β : Type} (g : Nat → β → Rat) (l : List β) (k : Nat) :
    sumTo (fun i => sumR (l.map (g i))) k = sumR (l.map fun r => sumTo (fun i => g i r) k) := by
  induction k with
  | zero =>
    simp only [sumTo]
    induction l with
    | nil => rfl
    | cons a l ih => simp only [List.map_cons, sumR_cons, ← ih]; ring
  | succ k ih => simp only [sumTo, ih, sumR_map_add]

theorem sumTo_zero (f : Nat → Rat) (k : Nat) (h : ∀ i, i < k → f i = 0) : sumTo f k = 0 := by
  induction k with
  | zero => rfl
  | succ k ih => simp [sumTo, ih (fun i hi => h i (by omega)), h k (by omega)]

theorem sumTo_split (f : Nat → Rat) (a b : Nat) :
    sumTo f (a + b) = sumTo f a + sumTo (fun i => f (a + i)) b := by
  induction b with
  | zero => simp [sumTo]
  | succ b ih => rw [← Nat.add_assoc, sumTo, ih, sumTo]; ring

/-- a closed row's contribution does not depend on the rest of the frame -/
theorem rowShare_closed (mx : Option Date) (y : Nat) (v : Int) (st : Option Date) (en : Date) :
    rowShare mx y (v, st, some en) = rowShare none y (v, st, some en) := by
  unfold rowShare; cases st <;> rfl

theorem yearlyShare_single (r : Int × Option Date × Option Date) (y : Nat) (en : Date) (h : r.2.2 = some en) :
    yearlyShare [r] y = (rowShare none y r).getD 0 := by
  obtain ⟨v, st, e⟩ := r
  simp only at h; subst h
  unfold yearlyShare
  simp only [List.filterMap_cons, List.filterMap_nil]
  rw [rowShare_closed]
  cases rowShare none y (v, st, some en) <;> simp [sumR_cons, sumR_nil]

theorem yearlyShare_closed_frame (rows : List (Int × Option Date × Option Date)) (y : Nat)
    (h : ∀ r ∈ rows, ∃ en, r.2.2 = some en) :
    yearlyShare rows y = sumR (rows.map fun r => yearlyShare [r] y) := by
  unfold yearlyShare
  rw [sumR_filterMap]
  congr 1
  apply List.map_congr_left
  intro r hr
  obtain ⟨en, he⟩ := h r hr
  have := yearlyShare_single r y en he
  unfold yearlyShare at this
  rw [this]
  obtain ⟨v, st, e⟩ := r
  simp only at he; subst he
  rw [rowShare_closed]


theorem foldl_add_int_cast (l : List Int) (a : Int) :
    ((l.foldl (· + ·) a : Int) : Rat) = (a : Rat) + sumR (l.map fun x : Int => (Int.cast x : Rat)) := by
  induction l generalizing a with
  | nil => simp [sumR_nil]
  | cons x l ih => simp only [List.foldl_cons, List.map_cons, sumR_cons]; rw [ih, Int.cast_add]; ring

theorem sumI_eq_sumR (l : List Int) : sumI l = sumR (l.map fun x : Int => (Int.cast x : Rat)) := by
  unfold sumI; rw [foldl_add_int_cast]; simp

/-! ### records without end date -/

def ValidDate (d : Date) : Prop := 1 ≤ d.y ∧ 1 ≤ d.m ∧ d.m ≤ 12 ∧ 1 ≤ d.d ∧ d.d ≤ 31

theorem ord_le_eoy_same (d : Date) (h : ValidDate d) : d.ord ≤ (⟨d.y, 12, 31⟩ : Date).ord := by
  obtain ⟨_, h1, h2, h3, h4⟩ := h
  simp only [Date.ord]
  norm_num
  split <;> omega

theorem soy_lt_succ (y : Nat) (_hy : 1 ≤ y) : (⟨y, 12, 31⟩ : Date).ord < (⟨y + 1, 12, 31⟩ : Date).ord := by
  simp only [Date.ord]; norm_num; omega

theorem eoy_mono (a b : Nat) (ha : 1 ≤ a) (h : a ≤ b) : (⟨a, 12, 31⟩ : Date).ord ≤ (⟨b, 12, 31⟩ : Date).ord := by
  induction b with
  | zero => omega
  | succ b ih =>
    rcases Nat.eq_or_lt_of_le h with rfl | hlt
    · exact le_refl _
    · have := ih (by omega)
      have := soy_lt_succ b (by omega)
      omega

theorem ord_le_eoy (d : Date) (h : ValidDate d) (L : Nat) (hL : d.y ≤ L) : d.ord ≤ (⟨L, 12, 31⟩ : Date).ord :=
  le_trans (ord_le_eoy_same d h) (eoy_mono d.y L h.1 hL)

/-- an open row is the closed row that ends on Dec 31 of the frame's latest year -/
def closeRow (L : Nat) (r : Int × Option Date × Option Date) : Int × Option Date × Option Date :=
  (r.1, r.2.1, some (r.2.2.getD ⟨L, 12, 31⟩))

theorem rowShare_closeRow (m : Date) (y : Nat) (r : Int × Option Date × Option Date) :
    rowShare (some m) y r = rowShare none y (closeRow m.y r) := by
  obtain ⟨v, st, en⟩ := r
  cases st with
  | none => rfl
  | some st => cases en <;> rfl

theorem yearlyShare_latest (rows : List (Int × Option Date × Option Date)) (y : Nat) (m : Date)
    (hm : latestDate rows = some m) :
    yearlyShare rows y = sumR (rows.map fun r => yearlyShare [closeRow m.y r] y) := by
  unfold yearlyShare
  rw [hm, sumR_filterMap]
  congr 1
  apply List.map_congr_left
  intro r _
  have := yearlyShare_single (closeRow m.y r) y ((closeRow m.y r).2.2.getD ⟨0,0,0⟩) (by simp [closeRow])
  unfold yearlyShare at this
  rw [this, rowShare_closeRow]

end LdarModel.Summary
