import LdarModel.Model.Tree
/-
Helper lemmas about parameter trees (`Model/Tree.lean`): association-list facts, one-step inversion
of the `retain_update` loop, the path-wise characterisation of its result, extensionality of trees
through `get?`, inversion of `check_types`, placeholder removal.
The tree types are one mutual inductive, so list inductions are written as structural recursions.
-/
namespace LdarModel.Tree

/-! ### association lists -/

theorem KV.lookup_setKey_same (k : String) (v : J) :
    ∀ kvs : KV, (kvs.setKey k v).lookup k = some v
  | .nil => by simp [KV.setKey, KV.lookup]
  | .cons k' v' t => by
    by_cases h : k' = k
    · simp [KV.setKey, KV.lookup, h]
    · simp [KV.setKey, KV.lookup, h, KV.lookup_setKey_same k v t]

theorem KV.lookup_setKey_ne {k k' : String} (v : J) (h : k' ≠ k) :
    ∀ kvs : KV, (kvs.setKey k v).lookup k' = kvs.lookup k'
  | .nil => by simp [KV.setKey, KV.lookup, Ne.symm h]
  | .cons k'' v' t => by
    by_cases h2 : k'' = k
    · subst h2
      simp [KV.setKey, KV.lookup, Ne.symm h]
    · by_cases h3 : k'' = k'
      · subst h3
        simp [KV.setKey, KV.lookup, h2]
      · simp [KV.setKey, KV.lookup, h2, h3, KV.lookup_setKey_ne v h t]

theorem KV.has_iff_mem_keys (k : String) : ∀ kvs : KV, kvs.has k = true ↔ k ∈ kvs.keys
  | .nil => by simp [KV.has, KV.lookup, KV.keys]
  | .cons k' v t => by
    have ih := KV.has_iff_mem_keys k t
    by_cases h : k' = k
    · simp [KV.has, KV.lookup, KV.keys, h]
    · simp only [KV.has, KV.lookup, KV.keys, h, if_false, List.mem_cons] at ih ⊢
      constructor
      · intro hh; exact Or.inr (ih.mp hh)
      · intro hh
        rcases hh with hh | hh
        · exact absurd hh.symm h
        · exact ih.mpr hh

theorem KV.lookup_none_iff (k : String) (kvs : KV) : kvs.lookup k = none ↔ k ∉ kvs.keys := by
  rw [← KV.has_iff_mem_keys]
  simp [KV.has]

theorem KV.keys_setKey_of_mem (k : String) (v : J) :
    ∀ kvs : KV, k ∈ kvs.keys → (kvs.setKey k v).keys = kvs.keys
  | .nil => by simp [KV.keys]
  | .cons k' v' t => by
    intro h
    by_cases h2 : k' = k
    · simp [KV.setKey, KV.keys, h2]
    · have : k ∈ t.keys := by
        simp only [KV.keys, List.mem_cons] at h
        rcases h with h | h
        · exact absurd h.symm h2
        · exact h
      simp [KV.setKey, KV.keys, h2, KV.keys_setKey_of_mem k v t this]

theorem KV.keys_setKey_of_not_mem (k : String) (v : J) :
    ∀ kvs : KV, k ∉ kvs.keys → (kvs.setKey k v).keys = kvs.keys ++ [k]
  | .nil => by simp [KV.setKey, KV.keys]
  | .cons k' v' t => by
    intro h
    simp only [KV.keys, List.mem_cons, not_or] at h
    have h2 : ¬ k' = k := fun e => h.1 e.symm
    simp [KV.setKey, KV.keys, h2, KV.keys_setKey_of_not_mem k v t h.2]

/-! ### `get?` -/

theorem get?_nil (j : J) : get? [] j = some j := by
  cases j <;> rfl

theorem get?_cons_obj (k : String) (p : Path) (kvs : KV) :
    get? (k :: p) (.obj kvs) = match kvs.lookup k with | some v => get? p v | none => none := rfl

theorem get?_cons_leaf (k : String) (p : Path) (j : J) (h : j.isObj = false) :
    get? (k :: p) j = none := by
  cases j <;> simp_all [get?, J.isObj]

/-! ### one step of the `retain_update` loop -/

theorem ru_nil (d : J) : ruKvs d .nil = .ok d := by
  simp [ruKvs]

/-- inversion of one successful loop iteration -/
theorem ru_cons_inv {d : J} {k : String} {v : J} {rest : KV} {r : J}
    (h : ruKvs d (.cons k v rest) = .ok r) :
    ∃ dk x, d = .obj dk ∧ ruKvs (.obj (dk.setKey k x)) rest = .ok r ∧
      ((v.isObj = false ∧ x = v) ∨
       (∃ vk dv, v = .obj vk ∧ dk.lookup k = some dv ∧ ruKvs dv vk = .ok x)) := by
  cases v with
  | obj vk =>
    cases d with
    | obj dk =>
      simp only [ruKvs] at h
      split at h
      · rename_i dv hdv
        split at h
        · rename_i x hx
          exact ⟨dk, x, rfl, h, Or.inr ⟨vk, dv, rfl, hdv, hx⟩⟩
        · cases h
      · cases h
    | _ => simp [ruKvs] at h
  | _ =>
    cases d with
    | obj dk =>
      simp only [ruKvs] at h
      exact ⟨dk, _, rfl, h, Or.inl ⟨rfl, rfl⟩⟩
    | _ => simp [ruKvs] at h


/-- the loop never turns a dictionary into something else -/
theorem ru_obj : ∀ (ukvs dk : KV) (r : J), ruKvs (.obj dk) ukvs = .ok r → ∃ rk, r = .obj rk
  | .nil, dk, r, h => by
    simp only [ruKvs] at h
    exact ⟨dk, by cases h; rfl⟩
  | .cons _ _ rest, _, r, h => by
    obtain ⟨dk', x, _, hrest, _⟩ := ru_cons_inv h
    exact ru_obj rest _ r hrest

/-- on a non-dictionary the loop succeeds only when there is nothing to do -/
theorem ru_leaf {d : J} {ukvs : KV} {r : J} (hd : d.isObj = false)
    (h : ruKvs d ukvs = .ok r) : r = d ∧ ukvs = .nil := by
  cases ukvs with
  | nil => simp only [ruKvs] at h; cases h; exact ⟨rfl, rfl⟩
  | cons k v rest =>
    obtain ⟨dk, x, hdk, _, _⟩ := ru_cons_inv h
    subst hdk
    simp [J.isObj] at hd

theorem KV.wf_cons {k : String} {v : J} {t : KV} (h : (KV.cons k v t).wf = true) :
    k ∉ t.keys ∧ v.wf = true ∧ t.wf = true := by
  simp only [KV.wf, Bool.and_eq_true, Bool.not_eq_true'] at h
  refine ⟨?_, h.1.2, h.2⟩
  intro hm
  have := (KV.has_iff_mem_keys k t).mpr hm
  simp [this] at h

/-- a key the update does not mention keeps its value -/
theorem ru_lookup_other : ∀ (ukvs dk rk : KV) (k : String),
    ruKvs (.obj dk) ukvs = .ok (.obj rk) → k ∉ ukvs.keys → rk.lookup k = dk.lookup k
  | .nil, dk, rk, k, h, _ => by
    simp only [ruKvs] at h
    cases h; rfl
  | .cons k0 v0 rest, dk, rk, k, h, hk => by
    obtain ⟨dk', x, hd, hrest, _⟩ := ru_cons_inv h
    cases hd
    simp only [KV.keys, List.mem_cons, not_or] at hk
    have ih := ru_lookup_other rest _ rk k hrest hk.2
    rw [ih, KV.lookup_setKey_ne x hk.1]

/-- what the loop does to a key the update mentions -/
theorem ru_lookup_hit : ∀ (ukvs : KV) (d r : J) (k : String) (v0 : J),
    ukvs.wf = true → ruKvs d ukvs = .ok r → ukvs.lookup k = some v0 →
    ∃ dk rk, d = .obj dk ∧ r = .obj rk ∧
      ((v0.isObj = false ∧ rk.lookup k = some v0) ∨
       (∃ vk dv r0, v0 = .obj vk ∧ dk.lookup k = some dv ∧ ruKvs dv vk = .ok r0 ∧
          rk.lookup k = some r0))
  | .nil, _, _, _, _, _, _, hl => by simp [KV.lookup] at hl
  | .cons k0 v' rest, d, r, k, v0, hwf, h, hl => by
    obtain ⟨hk0, _, hwfr⟩ := KV.wf_cons hwf
    obtain ⟨dk, x, hd, hrest, halt⟩ := ru_cons_inv h
    subst hd
    obtain ⟨rk, hr⟩ := ru_obj rest _ r hrest
    subst hr
    by_cases hk : k0 = k
    · subst hk
      simp only [KV.lookup, if_true] at hl
      cases hl
      have hlk := ru_lookup_other rest _ rk k0 hrest hk0
      rw [KV.lookup_setKey_same] at hlk
      refine ⟨dk, rk, rfl, rfl, ?_⟩
      rcases halt with ⟨hleaf, hx⟩ | ⟨vk, dv, hv, hdv, hx⟩
      · subst hx; exact Or.inl ⟨hleaf, hlk⟩
      · exact Or.inr ⟨vk, dv, x, hv, hdv, hx, hlk⟩
    · simp only [KV.lookup, hk, if_false] at hl
      obtain ⟨dk2, rk2, hd2, hr2, halt2⟩ := ru_lookup_hit rest _ _ k v0 hwfr hrest hl
      cases hd2; cases hr2
      refine ⟨dk, rk, rfl, rfl, ?_⟩
      rcases halt2 with hA | ⟨vk, dv, r0, hv, hdv, hx, hlk⟩
      · exact Or.inl hA
      · rw [KV.lookup_setKey_ne x (Ne.symm hk)] at hdv
        exact Or.inr ⟨vk, dv, r0, hv, hdv, hx, hlk⟩


/-! ### path-wise characterisation of `retain_update` -/

/-- the update holds a non-dictionary value at some prefix of the path (the path itself included):
the path lies on or below a leaf path of the update -/
def touched : J → Path → Bool
  | .obj kvs, k :: p => match kvs.lookup k with
      | some v => touched v p
      | none => false
  | .obj _, [] => false
  | _, _ => true

theorem touched_leaf {v : J} (h : v.isObj = false) (p : Path) : touched v p = true := by
  cases v <;> cases p <;> simp_all [touched, J.isObj]

theorem KV.wf_lookup : ∀ (kvs : KV) (k : String) (v : J),
    kvs.wf = true → kvs.lookup k = some v → v.wf = true
  | .nil, _, _, _, h => by simp [KV.lookup] at h
  | .cons k' v' t, k, v, hwf, h => by
    obtain ⟨_, hv, ht⟩ := KV.wf_cons hwf
    by_cases hk : k' = k
    · simp only [KV.lookup, hk, if_true] at h
      cases h; exact hv
    · simp only [KV.lookup, hk, if_false] at h
      exact KV.wf_lookup t k v ht h

/-- keys the defaults already have keep the key list as it is -/
theorem ru_keys : ∀ (ukvs dk rk : KV), ruKvs (.obj dk) ukvs = .ok (.obj rk) →
    (∀ k, k ∈ ukvs.keys → k ∈ dk.keys) → rk.keys = dk.keys
  | .nil, dk, rk, h, _ => by
    simp only [ruKvs] at h
    cases h; rfl
  | .cons k0 v0 rest, dk, rk, h, hk => by
    obtain ⟨dk', x, hd, hrest, _⟩ := ru_cons_inv h
    cases hd
    have hk0 : k0 ∈ dk.keys := hk k0 (by simp [KV.keys])
    have hkeys := KV.keys_setKey_of_mem k0 x dk hk0
    have ih := ru_keys rest _ rk hrest (by
      intro k hm
      rw [hkeys]
      exact hk k (by simp [KV.keys, hm]))
    rw [ih, hkeys]

/-- on and below the update's leaf paths the result is the update -/
theorem ru_touched : ∀ (p : Path) (ukvs : KV) (d r : J),
    ukvs.wf = true → ruKvs d ukvs = .ok r → touched (.obj ukvs) p = true →
    get? p r = get? p (.obj ukvs)
  | [], _, _, _, _, _, ht => by simp [touched] at ht
  | k :: p', ukvs, d, r, hwf, h, ht => by
    simp only [touched] at ht
    cases hl : ukvs.lookup k with
    | none => simp [hl] at ht
    | some v0 =>
      simp only [hl] at ht
      obtain ⟨dk, rk, hd, hr, halt⟩ := ru_lookup_hit ukvs d r k v0 hwf h hl
      subst hd; subst hr
      rcases halt with ⟨_, hlk⟩ | ⟨vk, dv, r0, hv, _, hx, hlk⟩
      · simp [get?, hlk, hl]
      · subst hv
        have hwfv : vk.wf = true := by
          have := KV.wf_lookup ukvs k _ hwf hl
          simpa [J.wf] using this
        have ih := ru_touched p' vk dv r0 hwfv hx ht
        simp [get?, hlk, hl, ih]

/-- off the update's leaf paths the result is the default: absent stays absent, a leaf keeps its
value, a dictionary stays a dictionary and keeps its key list when the update's keys are known -/
theorem ru_untouched : ∀ (p : Path) (ukvs : KV) (d r : J),
    ukvs.wf = true → ruKvs d ukvs = .ok r → touched (.obj ukvs) p = false →
    (get? p d = none → get? p r = none) ∧
    (∀ v, get? p d = some v → v.isObj = false → get? p r = some v) ∧
    (∀ dk', get? p d = some (.obj dk') → ∃ rk', get? p r = some (.obj rk') ∧
      ((∀ uk', get? p (.obj ukvs) = some (.obj uk') → ∀ k, k ∈ uk'.keys → k ∈ dk'.keys) →
        rk'.keys = dk'.keys))
  | [], ukvs, d, r, _, h, _ => by
    refine ⟨by simp [get?_nil], ?_, ?_⟩
    · intro v hv hleaf
      rw [get?_nil] at hv
      cases hv
      rw [get?_nil, (ru_leaf hleaf h).1]
    · intro dk' hd
      rw [get?_nil] at hd
      cases hd
      obtain ⟨rk, hr⟩ := ru_obj ukvs dk' r h
      subst hr
      refine ⟨rk, get?_nil _, ?_⟩
      intro hk
      exact ru_keys ukvs dk' rk h (hk ukvs (get?_nil _))
  | k :: p', ukvs, d, r, hwf, h, ht => by
    cases hobj : d.isObj with
    | false =>
      have hr := (ru_leaf hobj h).1
      subst hr
      have hn := get?_cons_leaf k p' r hobj
      refine ⟨fun _ => hn, ?_, ?_⟩
      · intro v hv; rw [hn] at hv; cases hv
      · intro dk' hv; rw [hn] at hv; cases hv
    | true =>
      cases d with
      | obj dk =>
        obtain ⟨rk, hr⟩ := ru_obj ukvs dk r h
        subst hr
        simp only [touched] at ht
        cases hl : ukvs.lookup k with
        | none =>
          have hsame := ru_lookup_other ukvs dk rk k h ((KV.lookup_none_iff k ukvs).mp hl)
          have hget : get? (k :: p') (.obj rk) = get? (k :: p') (.obj dk) := by
            simp [get?, hsame]
          refine ⟨fun hn => by rw [hget, hn], ?_, ?_⟩
          · intro v hv _; rw [hget, hv]
          · intro dk' hv
            exact ⟨dk', by rw [hget, hv], fun _ => rfl⟩
        | some v0 =>
          simp only [hl] at ht
          obtain ⟨dk2, rk2, hd2, hr2, halt⟩ := ru_lookup_hit ukvs _ _ k v0 hwf h hl
          cases hd2; cases hr2
          rcases halt with ⟨hleaf, _⟩ | ⟨vk, dv, r0, hv, hdv, hx, hlk⟩
          · rw [touched_leaf hleaf] at ht; cases ht
          · subst hv
            have hwfv : vk.wf = true := by
              have := KV.wf_lookup ukvs k _ hwf hl
              simpa [J.wf] using this
            have ih := ru_untouched p' vk dv r0 hwfv hx ht
            have e1 : get? (k :: p') (.obj dk) = get? p' dv := by simp [get?, hdv]
            have e2 : get? (k :: p') (.obj rk) = get? p' r0 := by simp [get?, hlk]
            have e3 : get? (k :: p') (.obj ukvs) = get? p' (.obj vk) := by simp [get?, hl]
            rw [e1, e2, e3]
            exact ih
      | _ => simp [J.isObj] at hobj


/-! ### what `get?` can see of a tree, and extensionality -/

/-- what a path shows of a tree: nothing, a non-dictionary value, or a dictionary's key list -/
inductive Shape
  | absent
  | leaf (v : J)
  | node (ks : List String)

def shape : Option J → Shape
  | none => .absent
  | some (.obj kvs) => .node kvs.keys
  | some v => .leaf v

theorem shape_leaf {v : J} (h : v.isObj = false) : shape (some v) = .leaf v := by
  cases v <;> simp_all [shape, J.isObj]

/-- every dictionary reachable by a key path has distinct keys -/
def NodupAt (a : J) : Prop := ∀ p ks, get? p a = some (.obj ks) → ks.keys.Nodup

mutual
theorem ext_j : ∀ (a b : J), NodupAt a → (∀ p, shape (get? p a) = shape (get? p b)) → a = b
  | .obj ak, b, hn, h => by
    have h0 := h []
    rw [get?_nil, get?_nil] at h0
    cases b with
    | obj bk =>
      simp only [shape, Shape.node.injEq] at h0
      have := ext_kvs ak bk h0 (hn [] ak (get?_nil _))
        (fun k p _ => h (k :: p)) (fun k p ks hk => hn (k :: p) ks hk)
      rw [this]
    | _ => simp [shape] at h0
  | .null, b, _, h => by
    have h0 := h []
    rw [get?_nil, get?_nil] at h0
    cases b <;> simp_all [shape]
  | .bool x, b, _, h => by
    have h0 := h []
    rw [get?_nil, get?_nil] at h0
    cases b <;> simp_all [shape]
  | .int x, b, _, h => by
    have h0 := h []
    rw [get?_nil, get?_nil] at h0
    cases b <;> simp_all [shape]
  | .float x y, b, _, h => by
    have h0 := h []
    rw [get?_nil, get?_nil] at h0
    cases b <;> simp_all [shape]
  | .str x, b, _, h => by
    have h0 := h []
    rw [get?_nil, get?_nil] at h0
    cases b <;> simp_all [shape]
  | .list x, b, _, h => by
    have h0 := h []
    rw [get?_nil, get?_nil] at h0
    cases b <;> simp_all [shape]
theorem ext_kvs : ∀ (ak bk : KV), ak.keys = bk.keys → ak.keys.Nodup →
    (∀ k p, k ∈ ak.keys → shape (get? (k :: p) (.obj ak)) = shape (get? (k :: p) (.obj bk))) →
    (∀ k p ks, get? (k :: p) (.obj ak) = some (.obj ks) → ks.keys.Nodup) → ak = bk
  | .nil, bk, hk, _, _, _ => by
    cases bk with
    | nil => rfl
    | cons _ _ _ => simp [KV.keys] at hk
  | .cons k va ta, bk, hk, hnd, h, hn => by
    cases bk with
    | nil => simp [KV.keys] at hk
    | cons k' vb tb =>
      simp only [KV.keys, List.cons.injEq] at hk
      obtain ⟨hkk, htk⟩ := hk
      subst hkk
      simp only [KV.keys, List.nodup_cons] at hnd
      have hv : va = vb := by
        apply ext_j va vb
        · intro p ks hg
          exact hn k p ks (by simpa [get?, KV.lookup] using hg)
        · intro p
          have := h k p (by simp [KV.keys])
          simpa [get?, KV.lookup] using this
      have ht : ta = tb := by
        apply ext_kvs ta tb htk hnd.2
        · intro k2 p hm
          have hne : ¬ k = k2 := fun e => hnd.1 (e ▸ hm)
          have := h k2 p (by simp [KV.keys, hm])
          simpa [get?, KV.lookup, hne] using this
        · intro k2 p ks hg
          cases hl : ta.lookup k2 with
          | none => simp [get?, hl] at hg
          | some v2 =>
            have hm : k2 ∈ ta.keys := by
              by_cases hc : k2 ∈ ta.keys
              · exact hc
              · rw [(KV.lookup_none_iff k2 ta).mpr hc] at hl
                cases hl
            have hne : ¬ k = k2 := fun e => hnd.1 (e ▸ hm)
            exact hn k2 p ks (by simpa [get?, KV.lookup, hne] using hg)
      rw [hv, ht]
end


/-! ### the shape of a merged tree, path by path -/

theorem get?_append : ∀ (q s : Path) (j : J), get? (q ++ s) j = (get? q j).bind (get? s)
  | [], s, j => by simp [get?_nil]
  | k :: q, s, j => by
    cases j with
    | obj kvs =>
      simp only [List.cons_append, get?]
      cases kvs.lookup k with
      | none => simp
      | some v => simp [get?_append q s v]
    | _ => simp [get?]

theorem get?_of_leaf {dv : J} (h : dv.isObj = false) : ∀ (s : Path) (x : J),
    get? s dv = some x → s = [] ∧ x = dv
  | [], x, hx => by
    rw [get?_nil] at hx
    cases hx; exact ⟨rfl, rfl⟩
  | k :: s, x, hx => by
    rw [get?_cons_leaf k s dv h] at hx
    cases hx

theorem touched_witness : ∀ (p : Path) (u : J), touched u p = true →
    ∃ q s v, p = q ++ s ∧ get? q u = some v ∧ v.isObj = false
  | p, .null, _ => ⟨[], p, .null, rfl, rfl, rfl⟩
  | p, .bool b, _ => ⟨[], p, .bool b, rfl, rfl, rfl⟩
  | p, .int i, _ => ⟨[], p, .int i, rfl, rfl, rfl⟩
  | p, .float m e, _ => ⟨[], p, .float m e, rfl, rfl, rfl⟩
  | p, .str s, _ => ⟨[], p, .str s, rfl, rfl, rfl⟩
  | p, .list l, _ => ⟨[], p, .list l, rfl, rfl, rfl⟩
  | [], .obj _, h => by simp [touched] at h
  | k :: p', .obj kvs, h => by
    simp only [touched] at h
    cases hl : kvs.lookup k with
    | none => simp [hl] at h
    | some v0 =>
      simp only [hl] at h
      obtain ⟨q, s, v, hp, hg, hv⟩ := touched_witness p' v0 h
      exact ⟨k :: q, s, v, by simp [hp], by simp [get?, hl, hg], hv⟩

theorem wf_get : ∀ (p : Path) (j v : J), j.wf = true → get? p j = some v → v.wf = true
  | [], j, v, hw, hg => by
    rw [get?_nil] at hg
    cases hg; exact hw
  | k :: p, j, v, hw, hg => by
    cases j with
    | obj kvs =>
      simp only [get?] at hg
      cases hl : kvs.lookup k with
      | none => simp [hl] at hg
      | some v0 =>
        simp only [hl] at hg
        have hw0 := KV.wf_lookup kvs k v0 (by simpa [J.wf] using hw) hl
        exact wf_get p v0 v hw0 hg
    | _ => simp [get?] at hg

theorem KV.wf_nodup : ∀ kvs : KV, kvs.wf = true → kvs.keys.Nodup
  | .nil, _ => by simp [KV.keys]
  | .cons k v t, h => by
    obtain ⟨hk, _, ht⟩ := KV.wf_cons h
    simp only [KV.keys, List.nodup_cons]
    exact ⟨hk, KV.wf_nodup t ht⟩

theorem wf_nodupAt {a : J} (h : a.wf = true) : NodupAt a := by
  intro p ks hg
  have := wf_get p a _ h hg
  exact KV.wf_nodup ks (by simpa [J.wf] using this)

/-- every key the update uses, at every depth, is a key of the defaults at the same place -/
def Known (d u : J) : Prop :=
  ∀ p uk k, get? p u = some (.obj uk) → k ∈ uk.keys →
    ∃ dk, get? p d = some (.obj dk) ∧ k ∈ dk.keys

/-- the update's non-dictionary values sit on non-dictionary values of the defaults
(an update never replaces a whole section) -/
def LeafOnLeaf (d u : J) : Prop :=
  ∀ p v, get? p u = some v → v.isObj = false → ∃ dv, get? p d = some dv ∧ dv.isObj = false

/-- no leaf path of one update is a prefix of (or equal to) a leaf path of the other -/
def DisjointLeaves (u1 u2 : J) : Prop := ∀ p, ¬ (touched u1 p = true ∧ touched u2 p = true)

/-- the merged tree, path by path: the update on and below its leaf paths, the defaults elsewhere -/
theorem ru_shape {ukvs : KV} {d r : J} (hwf : ukvs.wf = true) (h : ruKvs d ukvs = .ok r)
    (hk : Known d (.obj ukvs)) (p : Path) :
    (touched (.obj ukvs) p = true → shape (get? p r) = shape (get? p (.obj ukvs))) ∧
    (touched (.obj ukvs) p = false → shape (get? p r) = shape (get? p d)) := by
  constructor
  · intro ht
    rw [ru_touched p ukvs d r hwf h ht]
  · intro ht
    obtain ⟨h1, h2, h3⟩ := ru_untouched p ukvs d r hwf h ht
    cases hg : get? p d with
    | none => rw [h1 hg]
    | some v =>
      cases hobj : v.isObj with
      | false => rw [h2 v hg hobj]
      | true =>
        cases v with
        | obj dk' =>
          obtain ⟨rk', hr, hkeys⟩ := h3 dk' hg
          rw [hr]
          simp only [shape, Shape.node.injEq]
          apply hkeys
          intro uk' hu k hm
          obtain ⟨dk, hd, hmem⟩ := hk p uk' k hu hm
          rw [hg] at hd
          cases hd
          exact hmem
        | _ => simp [J.isObj] at hobj

/-- a leaf of the defaults hides everything below it -/
theorem not_touched_of_node {d u : J} (hl : LeafOnLeaf d u) {p : Path} {dk : KV}
    (hd : get? p d = some (.obj dk)) : touched u p = false := by
  cases ht : touched u p with
  | false => rfl
  | true =>
    obtain ⟨q, s, v, hp, hg, hv⟩ := touched_witness p u ht
    obtain ⟨dv, hdv, hleaf⟩ := hl q v hg hv
    rw [hp, get?_append, hdv] at hd
    simp only [Option.bind_some] at hd
    obtain ⟨_, hx⟩ := get?_of_leaf hleaf s _ hd
    rw [← hx] at hleaf
    simp [J.isObj] at hleaf

/-- known keys stay known after an independent update has been merged in -/
theorem known_after {ukvs : KV} {d r u2 : J} (hwf : ukvs.wf = true) (h : ruKvs d ukvs = .ok r)
    (hk1 : Known d (.obj ukvs)) (hl1 : LeafOnLeaf d (.obj ukvs)) (hk2 : Known d u2) :
    Known r u2 := by
  intro p uk k hu hm
  obtain ⟨dk, hd, hmem⟩ := hk2 p uk k hu hm
  have ht := not_touched_of_node hl1 hd
  obtain ⟨_, _, h3⟩ := ru_untouched p ukvs d r hwf h ht
  obtain ⟨rk', hr, hkeys⟩ := h3 dk hd
  refine ⟨rk', hr, ?_⟩
  rw [hkeys]
  · exact hmem
  · intro uk' hu' k' hm'
    obtain ⟨dk2, hd2, hmem2⟩ := hk1 p uk' k' hu' hm'
    rw [hd] at hd2
    cases hd2
    exact hmem2


theorem shape_node_inv {o : Option J} {l : List String} (h : shape o = .node l) :
    ∃ ks, o = some (.obj ks) ∧ ks.keys = l := by
  cases o with
  | none => simp [shape] at h
  | some v =>
    cases v with
    | obj ks =>
      simp only [shape, Shape.node.injEq] at h
      exact ⟨ks, rfl, h⟩
    | _ => simp [shape] at h

/-- two updates with disjoint leaf paths, merged in either order, give the same tree -/
theorem ru_comm {u1 u2 : KV} {d r1 r12 r2 r21 : J}
    (hw1 : u1.wf = true) (hw2 : u2.wf = true) (hnd : NodupAt d)
    (hk1 : Known d (.obj u1)) (hk2 : Known d (.obj u2))
    (hl1 : LeafOnLeaf d (.obj u1)) (hl2 : LeafOnLeaf d (.obj u2))
    (hdis : DisjointLeaves (.obj u1) (.obj u2))
    (e1 : ruKvs d u1 = .ok r1) (e12 : ruKvs r1 u2 = .ok r12)
    (e2 : ruKvs d u2 = .ok r2) (e21 : ruKvs r2 u1 = .ok r21) : r12 = r21 := by
  have K12 : Known r1 (.obj u2) := known_after hw1 e1 hk1 hl1 hk2
  have K21 : Known r2 (.obj u1) := known_after hw2 e2 hk2 hl2 hk1
  have key : ∀ p, ∃ X, (X = d ∨ X = .obj u1 ∨ X = .obj u2) ∧
      shape (get? p r12) = shape (get? p X) ∧ shape (get? p r21) = shape (get? p X) := by
    intro p
    obtain ⟨a1t, a1f⟩ := ru_shape hw1 e1 hk1 p
    obtain ⟨a12t, a12f⟩ := ru_shape hw2 e12 K12 p
    obtain ⟨a2t, a2f⟩ := ru_shape hw2 e2 hk2 p
    obtain ⟨a21t, a21f⟩ := ru_shape hw1 e21 K21 p
    cases t1 : touched (.obj u1) p with
    | false =>
      cases t2 : touched (.obj u2) p with
      | false =>
        exact ⟨d, Or.inl rfl, by rw [a12f t2, a1f t1], by rw [a21f t1, a2f t2]⟩
      | true =>
        exact ⟨.obj u2, Or.inr (Or.inr rfl), a12t t2, by rw [a21f t1, a2t t2]⟩
    | true =>
      cases t2 : touched (.obj u2) p with
      | false =>
        exact ⟨.obj u1, Or.inr (Or.inl rfl), by rw [a12f t2, a1t t1], a21t t1⟩
      | true => exact absurd ⟨t1, t2⟩ (hdis p)
  apply ext_j
  · intro p ks hg
    obtain ⟨X, hX, hs, _⟩ := key p
    rw [hg] at hs
    simp only [shape] at hs
    obtain ⟨ks', hX', hkeys⟩ := shape_node_inv hs.symm
    rw [← hkeys]
    rcases hX with rfl | rfl | rfl
    · exact hnd p ks' hX'
    · exact wf_nodupAt (a := .obj u1) (by simpa [J.wf] using hw1) p ks' hX'
    · exact wf_nodupAt (a := .obj u2) (by simpa [J.wf] using hw2) p ks' hX'
  · intro p
    obtain ⟨X, _, hs1, hs2⟩ := key p
    rw [hs1, hs2]

end LdarModel.Tree
