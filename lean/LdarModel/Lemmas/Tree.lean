import LdarModel.Model.Tree
/-
Helper lemmas about parameter trees (`Model/Tree.lean`): association-list facts, one-step inversion
of the `retain_update` loop, the path-wise characterisation of its result, extensionality of trees
through `get?`, inversion of `check_types`, placeholder removal.
The tree types are one mutual inductive, so list inductions are written as structural recursions.
-/
namespace LdarModel.Tree

/-! ### association lists -/

theorem KV.lookup_setKey_same (k : String) (v : J) :
    ∀ kvs : KV, (kvs.setKey k v).lookup k = some v
  | .nil => by simp [KV.setKey, KV.lookup]
  | .cons k' v' t => by
    by_cases h : k' = k
    · simp [KV.setKey, KV.lookup, h]
    · simp [KV.setKey, KV.lookup, h, KV.lookup_setKey_same k v t]

theorem KV.lookup_setKey_ne {k k' : String} (v : J) (h : k' ≠ k) :
    ∀ kvs : KV, (kvs.setKey k v).lookup k' = kvs.lookup k'
  | .nil => by simp [KV.setKey, KV.lookup, Ne.symm h]
  | .cons k'' v' t => by
    by_cases h2 : k'' = k
    · subst h2
      simp [KV.setKey, KV.lookup, Ne.symm h]
    · by_cases h3 : k'' = k'
      · subst h3
        simp [KV.setKey, KV.lookup, h2]
      · simp [KV.setKey, KV.lookup, h2, h3, KV.lookup_setKey_ne v h t]

theorem KV.has_iff_mem_keys (k : String) : ∀ kvs : KV, kvs.has k = true ↔ k ∈ kvs.keys
  | .nil => by simp [KV.has, KV.lookup, KV.keys]
  | .cons k' v t => by
    have ih := KV.has_iff_mem_keys k t
    by_cases h : k' = k
    · simp [KV.has, KV.lookup, KV.keys, h]
    · simp only [KV.has, KV.lookup, KV.keys, h, if_false, List.mem_cons] at ih ⊢
      constructor
      · intro hh; exact Or.inr (ih.mp hh)
      · intro hh
        rcases hh with hh | hh
        · exact absurd hh.symm h
        · exact ih.mpr hh

theorem KV.lookup_none_iff (k : String) (kvs : KV) : kvs.lookup k = none ↔ k ∉ kvs.keys := by
  rw [← KV.has_iff_mem_keys]
  simp [KV.has]

theorem KV.keys_setKey_of_mem (k : String) (v : J) :
    ∀ kvs : KV, k ∈ kvs.keys → (kvs.setKey k v).keys = kvs.keys
  | .nil => by simp [KV.keys]
  | .cons k' v' t => by
    intro h
    by_cases h2 : k' = k
    · simp [KV.setKey, KV.keys, h2]
    · have : k ∈ t.keys := by
        simp only [KV.keys, List.mem_cons] at h
        rcases h with h | h
        · exact absurd h.symm h2
        · exact h
      simp [KV.setKey, KV.keys, h2, KV.keys_setKey_of_mem k v t this]

theorem KV.keys_setKey_of_not_mem (k : String) (v : J) :
    ∀ kvs : KV, k ∉ kvs.keys → (kvs.setKey k v).keys = kvs.keys ++ [k]
  | .nil => by simp [KV.setKey, KV.keys]
  | .cons k' v' t => by
    intro h
    simp only [KV.keys, List.mem_cons, not_or] at h
    have h2 : ¬ k' = k := fun e => h.1 e.symm
    simp [KV.setKey, KV.keys, h2, KV.keys_setKey_of_not_mem k v t h.2]

/-! ### `get?` -/

theorem get?_nil (j : J) : get? [] j = some j := by
  cases j <;> rfl

theorem get?_cons_obj (k : String) (p : Path) (kvs : KV) :
    get? (k :: p) (.obj kvs) = match kvs.lookup k with | some v => get? p v | none => none := rfl

theorem get?_cons_leaf (k : String) (p : Path) (j : J) (h : j.isObj = false) :
    get? (k :: p) j = none := by
  cases j <;> simp_all [get?, J.isObj]

/-! ### one step of the `retain_update` loop -/

theorem ru_nil (d : J) : ruKvs d .nil = .ok d := by
  simp [ruKvs]

/-- inversion of one successful loop iteration -/
theorem ru_cons_inv {d : J} {k : String} {v : J} {rest : KV} {r : J}
    (h : ruKvs d (.cons k v rest) = .ok r) :
    ∃ dk x, d = .obj dk ∧ ruKvs (.obj (dk.setKey k x)) rest = .ok r ∧
      ((v.isObj = false ∧ x = v) ∨
       (∃ vk dv, v = .obj vk ∧ dk.lookup k = some dv ∧ ruKvs dv vk = .ok x)) := by
  cases v with
  | obj vk =>
    cases d with
    | obj dk =>
      simp only [ruKvs] at h
      split at h
      · rename_i dv hdv
        split at h
        · rename_i x hx
          exact ⟨dk, x, rfl, h, Or.inr ⟨vk, dv, rfl, hdv, hx⟩⟩
        · cases h
      · cases h
    | _ => simp [ruKvs] at h
  | _ =>
    cases d with
    | obj dk =>
      simp only [ruKvs] at h
      exact ⟨dk, _, rfl, h, Or.inl ⟨rfl, rfl⟩⟩
    | _ => simp [ruKvs] at h


/-- the loop never turns a dictionary into something else -/
theorem ru_obj : ∀ (ukvs dk : KV) (r : J), ruKvs (.obj dk) ukvs = .ok r → ∃ rk, r = .obj rk
  | .nil, dk, r, h => by
    simp only [ruKvs] at h
    exact ⟨dk, by cases h; rfl⟩
  | .cons _ _ rest, _, r, h => by
    obtain ⟨dk', x, _, hrest, _⟩ := ru_cons_inv h
    exact ru_obj rest _ r hrest

/-- on a non-dictionary the loop succeeds only when there is nothing to do -/
theorem ru_leaf {d : J} {ukvs : KV} {r : J} (hd : d.isObj = false)
    (h : ruKvs d ukvs = .ok r) : r = d ∧ ukvs = .nil := by
  cases ukvs with
  | nil => simp only [ruKvs] at h; cases h; exact ⟨rfl, rfl⟩
  | cons k v rest =>
    obtain ⟨dk, x, hdk, _, _⟩ := ru_cons_inv h
    subst hdk
    simp [J.isObj] at hd

theorem KV.wf_cons {k : String} {v : J} {t : KV} (h : (KV.cons k v t).wf = true) :
    k ∉ t.keys ∧ v.wf = true ∧ t.wf = true := by
  simp only [KV.wf, Bool.and_eq_true, Bool.not_eq_true'] at h
  refine ⟨?_, h.1.2, h.2⟩
  intro hm
  have := (KV.has_iff_mem_keys k t).mpr hm
  simp [this] at h

/-- a key the update does not mention keeps its value -/
theorem ru_lookup_other : ∀ (ukvs dk rk : KV) (k : String),
    ruKvs (.obj dk) ukvs = .ok (.obj rk) → k ∉ ukvs.keys → rk.lookup k = dk.lookup k
  | .nil, dk, rk, k, h, _ => by
    simp only [ruKvs] at h
    cases h; rfl
  | .cons k0 v0 rest, dk, rk, k, h, hk => by
    obtain ⟨dk', x, hd, hrest, _⟩ := ru_cons_inv h
    cases hd
    simp only [KV.keys, List.mem_cons, not_or] at hk
    have ih := ru_lookup_other rest _ rk k hrest hk.2
    rw [ih, KV.lookup_setKey_ne x hk.1]

/-- what the loop does to a key the update mentions -/
theorem ru_lookup_hit : ∀ (ukvs : KV) (d r : J) (k : String) (v0 : J),
    ukvs.wf = true → ruKvs d ukvs = .ok r → ukvs.lookup k = some v0 →
    ∃ dk rk, d = .obj dk ∧ r = .obj rk ∧
      ((v0.isObj = false ∧ rk.lookup k = some v0) ∨
       (∃ vk dv r0, v0 = .obj vk ∧ dk.lookup k = some dv ∧ ruKvs dv vk = .ok r0 ∧
          rk.lookup k = some r0))
  | .nil, _, _, _, _, _, _, hl => by simp [KV.lookup] at hl
  | .cons k0 v' rest, d, r, k, v0, hwf, h, hl => by
    obtain ⟨hk0, _, hwfr⟩ := KV.wf_cons hwf
    obtain ⟨dk, x, hd, hrest, halt⟩ := ru_cons_inv h
    subst hd
    obtain ⟨rk, hr⟩ := ru_obj rest _ r hrest
    subst hr
    by_cases hk : k0 = k
    · subst hk
      simp only [KV.lookup, if_true] at hl
      cases hl
      have hlk := ru_lookup_other rest _ rk k0 hrest hk0
      rw [KV.lookup_setKey_same] at hlk
      refine ⟨dk, rk, rfl, rfl, ?_⟩
      rcases halt with ⟨hleaf, hx⟩ | ⟨vk, dv, hv, hdv, hx⟩
      · subst hx; exact Or.inl ⟨hleaf, hlk⟩
      · exact Or.inr ⟨vk, dv, x, hv, hdv, hx, hlk⟩
    · simp only [KV.lookup, hk, if_false] at hl
      obtain ⟨dk2, rk2, hd2, hr2, halt2⟩ := ru_lookup_hit rest _ _ k v0 hwfr hrest hl
      cases hd2; cases hr2
      refine ⟨dk, rk, rfl, rfl, ?_⟩
      rcases halt2 with hA | ⟨vk, dv, r0, hv, hdv, hx, hlk⟩
      · exact Or.inl hA
      · rw [KV.lookup_setKey_ne x (Ne.symm hk)] at hdv
        exact Or.inr ⟨vk, dv, r0, hv, hdv, hx, hlk⟩


/-! ### path-wise characterisation of `retain_update` -/

/-- the update holds a non-dictionary value at some prefix of the path (the path itself included):
the path lies on or below a leaf path of the update -/
def touched : J → Path → Bool
  | .obj kvs, k :: p => match kvs.lookup k with
      | some v => touched v p
      | none => false
  | .obj _, [] => false
  | _, _ => true

theorem touched_leaf {v : J} (h : v.isObj = false) (p : Path) : touched v p = true := by
  cases v <;> cases p <;> simp_all [touched, J.isObj]

theorem KV.wf_lookup : ∀ (kvs : KV) (k : String) (v : J),
    kvs.wf = true → kvs.lookup k = some v → v.wf = true
  | .nil, _, _, _, h => by simp [KV.lookup] at h
  | .cons k' v' t, k, v, hwf, h => by
    obtain ⟨_, hv, ht⟩ := KV.wf_cons hwf
    by_cases hk : k' = k
    · simp only [KV.lookup, hk, if_true] at h
      cases h; exact hv
    · simp only [KV.lookup, hk, if_false] at h
      exact KV.wf_lookup t k v ht h

/-- keys the defaults already have keep the key list as it is -/
theorem ru_keys : ∀ (ukvs dk rk : KV), ruKvs (.obj dk) ukvs = .ok (.obj rk) →
    (∀ k, k ∈ ukvs.keys → k ∈ dk.keys) → rk.keys = dk.keys
  | .nil, dk, rk, h, _ => by
    simp only [ruKvs] at h
    cases h; rfl
  | .cons k0 v0 rest, dk, rk, h, hk => by
    obtain ⟨dk', x, hd, hrest, _⟩ := ru_cons_inv h
    cases hd
    have hk0 : k0 ∈ dk.keys := hk k0 (by simp [KV.keys])
    have hkeys := KV.keys_setKey_of_mem k0 x dk hk0
    have ih := ru_keys rest _ rk hrest (by
      intro k hm
      rw [hkeys]
      exact hk k (by simp [KV.keys, hm]))
    rw [ih, hkeys]

/-- on and below the update's leaf paths the result is the update -/
theorem ru_touched : ∀ (p : Path) (ukvs : KV) (d r : J),
    ukvs.wf = true → ruKvs d ukvs = .ok r → touched (.obj ukvs) p = true →
    get? p r = get? p (.obj ukvs)
  | [], _, _, _, _, _, ht => by simp [touched] at ht
  | k :: p', ukvs, d, r, hwf, h, ht => by
    simp only [touched] at ht
    cases hl : ukvs.lookup k with
    | none => simp [hl] at ht
    | some v0 =>
      simp only [hl] at ht
      obtain ⟨dk, rk, hd, hr, halt⟩ := ru_lookup_hit ukvs d r k v0 hwf h hl
      subst hd; subst hr
      rcases halt with ⟨_, hlk⟩ | ⟨vk, dv, r0, hv, _, hx, hlk⟩
      · simp [get?, hlk, hl]
      · subst hv
        have hwfv : vk.wf = true := by
          have := KV.wf_lookup ukvs k _ hwf hl
          simpa [J.wf] using this
        have ih := ru_touched p' vk dv r0 hwfv hx ht
        simp [get?, hlk, hl, ih]

/-- off the update's leaf paths the result is the default: absent stays absent, a leaf keeps its
value, a dictionary stays a dictionary and keeps its key list when the update's keys are known -/
theorem ru_untouched : ∀ (p : Path) (ukvs : KV) (d r : J),
    ukvs.wf = true → ruKvs d ukvs = .ok r → touched (.obj ukvs) p = false →
    (get? p d = none → get? p r = none) ∧
    (∀ v, get? p d = some v → v.isObj = false → get? p r = some v) ∧
    (∀ dk', get? p d = some (.obj dk') → ∃ rk', get? p r = some (.obj rk') ∧
      ((∀ uk', get? p (.obj ukvs) = some (.obj uk') → ∀ k, k ∈ uk'.keys → k ∈ dk'.keys) →
        rk'.keys = dk'.keys))
  | [], ukvs, d, r, _, h, _ => by
    refine ⟨by simp [get?_nil], ?_, ?_⟩
    · intro v hv hleaf
      rw [get?_nil] at hv
      cases hv
      rw [get?_nil, (ru_leaf hleaf h).1]
    · intro dk' hd
      rw [get?_nil] at hd
      cases hd
      obtain ⟨rk, hr⟩ := ru_obj ukvs dk' r h
      subst hr
      refine ⟨rk, get?_nil _, ?_⟩
      intro hk
      exact ru_keys ukvs dk' rk h (hk ukvs (get?_nil _))
  | k :: p', ukvs, d, r, hwf, h, ht => by
    cases hobj : d.isObj with
    | false =>
      have hr := (ru_leaf hobj h).1
      subst hr
      have hn := get?_cons_leaf k p' r hobj
      refine ⟨fun _ => hn, ?_, ?_⟩
      · intro v hv; rw [hn] at hv; cases hv
      · intro dk' hv; rw [hn] at hv; cases hv
    | true =>
      cases d with
      | obj dk =>
        obtain ⟨rk, hr⟩ := ru_obj ukvs dk r h
        subst hr
        simp only [touched] at ht
        cases hl : ukvs.lookup k with
        | none =>
          have hsame := ru_lookup_other ukvs dk rk k h ((KV.lookup_none_iff k ukvs).mp hl)
          have hget : get? (k :: p') (.obj rk) = get? (k :: p') (.obj dk) := by
            simp [get?, hsame]
          refine ⟨fun hn => by rw [hget, hn], ?_, ?_⟩
          · intro v hv _; rw [hget, hv]
          · intro dk' hv
            exact ⟨dk', by rw [hget, hv], fun _ => rfl⟩
        | some v0 =>
          simp only [hl] at ht
          obtain ⟨dk2, rk2, hd2, hr2, halt⟩ := ru_lookup_hit ukvs _ _ k v0 hwf h hl
          cases hd2; cases hr2
          rcases halt with ⟨hleaf, _⟩ | ⟨vk, dv, r0, hv, hdv, hx, hlk⟩
          · rw [touched_leaf hleaf] at ht; cases ht
          · subst hv
            have hwfv : vk.wf = true := by
              have := KV.wf_lookup ukvs k _ hwf hl
              simpa [J.wf] using this
            have ih := ru_untouched p' vk dv r0 hwfv hx ht
            have e1 : get? (k :: p') (.obj dk) = get? p' dv := by simp [get?, hdv]
            have e2 : get? (k :: p') (.obj rk) = get? p' r0 := by simp [get?, hlk]
            have e3 : get? (k :: p') (.obj ukvs) = get? p' (.obj vk) := by simp [get?, hl]
            rw [e1, e2, e3]
            exact ih
      | _ => simp [J.isObj] at hobj


/-! ### what `get?` can see of a tree, and extensionality -/

/-- what a path shows of a tree: nothing, a non-dictionary value, or a dictionary's key list -/
inductive Shape
  | absent
  | leaf (v : J)
  | node (ks : List String)

def shape : Option J → Shape
  | none => .absent
  | some (.obj kvs) => .node kvs.keys
  | some v => .leaf v

theorem shape_leaf {v : J} (h : v.isObj = false) : shape (some v) = .leaf v := by
  cases v <;> simp_all [shape, J.isObj]

/-- every dictionary reachable by a key path has distinct keys -/
def NodupAt (a : J) : Prop := ∀ p ks, get? p a = some (.obj ks) → ks.keys.Nodup

mutual
theorem ext_j : ∀ (a b : J), NodupAt a → (∀ p, shape (get? p a) = shape (get? p b)) → a = b
  | .obj ak, b, hn, h => by
    have h0 := h []
    rw [get?_nil, get?_nil] at h0
    cases b with
    | obj bk =>
      simp only [shape, Shape.node.injEq] at h0
      have := ext_kvs ak bk h0 (hn [] ak (get?_nil _))
        (fun k p _ => h (k :: p)) (fun k p ks hk => hn (k :: p) ks hk)
      rw [this]
    | _ => simp [shape] at h0
  | .null, b, _, h => by
    have h0 := h []
    rw [get?_nil, get?_nil] at h0
    cases b <;> simp_all [shape]
  | .bool x, b, _, h => by
    have h0 := h []
    rw [get?_nil, get?_nil] at h0
    cases b <;> simp_all [shape]
  | .int x, b, _, h => by
    have h0 := h []
    rw [get?_nil, get?_nil] at h0
    cases b <;> simp_all [shape]
  | .float x y, b, _, h => by
    have h0 := h []
    rw [get?_nil, get?_nil] at h0
    cases b <;> simp_all [shape]
  | .str x, b, _, h => by
    have h0 := h []
    rw [get?_nil, get?_nil] at h0
    cases b <;> simp_all [shape]
  | .list x, b, _, h => by
    have h0 := h []
    rw [get?_nil, get?_nil] at h0
    cases b <;> simp_all [shape]
theorem ext_kvs : ∀ (ak bk : KV), ak.keys = bk.keys → ak.keys.Nodup →
    (∀ k p, k ∈ ak.keys → shape (get? (k :: p) (.obj ak)) = shape (get? (k :: p) (.obj bk))) →
    (∀ k p ks, get? (k :: p) (.obj ak) = some (.obj ks) → ks.keys.Nodup) → ak = bk
  | .nil, bk, hk, _, _, _ => by
    cases bk with
    | nil => rfl
    | cons _ _ _ => simp [KV.keys] at hk
  | .cons k va ta, bk, hk, hnd, h, hn => by
    cases bk with
    | nil => simp [KV.keys] at hk
    | cons k' vb tb =>
      simp only [KV.keys, List.cons.injEq] at hk
      obtain ⟨hkk, htk⟩ := hk
      subst hkk
      simp only [KV.keys, List.nodup_cons] at hnd
      have hv : va = vb := by
        apply ext_j va vb
        · intro p ks hg
          exact hn k p ks (by simpa [get?, KV.lookup] using hg)
        · intro p
          have := h k p (by simp [KV.keys])
          simpa [get?, KV.lookup] using this
      have ht : ta = tb := by
        apply ext_kvs ta tb htk hnd.2
        · intro k2 p hm
          have hne : ¬ k = k2 := fun e => hnd.1 (e ▸ hm)
          have := h k2 p (by simp [KV.keys, hm])
          simpa [get?, KV.lookup, hne] using this
        · intro k2 p ks hg
          cases hl : ta.lookup k2 with
          | none => simp [get?, hl] at hg
          | some v2 =>
            have hm : k2 ∈ ta.keys := by
              by_cases hc : k2 ∈ ta.keys
              · exact hc
              · rw [(KV.lookup_none_iff k2 ta).mpr hc] at hl
                cases hl
            have hne : ¬ k = k2 := fun e => hnd.1 (e ▸ hm)
            exact hn k2 p ks (by simpa [get?, KV.lookup, hne] using hg)
      rw [hv, ht]
end


/-! ### the shape of a merged tree, path by path -/

theorem get?_append : ∀ (q s : Path) (j : J), get? (q ++ s) j = (get? q j).bind (get? s)
  | [], s, j => by simp [get?_nil]
  | k :: q, s, j => by
    cases j with
    | obj kvs =>
      simp only [List.cons_append, get?]
      cases kvs.lookup k with
      | none => simp
      | some v => simp [get?_append q s v]
    | _ => simp [get?]

theorem get?_of_leaf {dv : J} (h : dv.isObj = false) : ∀ (s : Path) (x : J),
    get? s dv = some x → s = [] ∧ x = dv
  | [], x, hx => by
    rw [get?_nil] at hx
    cases hx; exact ⟨rfl, rfl⟩
  | k :: s, x, hx => by
    rw [get?_cons_leaf k s dv h] at hx
    cases hx

theorem touched_witness : ∀ (p : Path) (u : J), touched u p = true →
    ∃ q s v, p = q ++ s ∧ get? q u = some v ∧ v.isObj = false
  | p, .null, _ => ⟨[], p, .null, rfl, rfl, rfl⟩
  | p, .bool b, _ => ⟨[], p, .bool b, rfl, rfl, rfl⟩
  | p, .int i, _ => ⟨[], p, .int i, rfl, rfl, rfl⟩
  | p, .float m e, _ => ⟨[], p, .float m e, rfl, rfl, rfl⟩
  | p, .str s, _ => ⟨[], p, .str s, rfl, rfl, rfl⟩
  | p, .list l, _ => ⟨[], p, .list l, rfl, rfl, rfl⟩
  | [], .obj _, h => by simp [touched] at h
  | k :: p', .obj kvs, h => by
    simp only [touched] at h
    cases hl : kvs.lookup k with
    | none => simp [hl] at h
    | some v0 =>
      simp only [hl] at h
      obtain ⟨q, s, v, hp, hg, hv⟩ := touched_witness p' v0 h
      exact ⟨k :: q, s, v, by simp [hp], by simp [get?, hl, hg], hv⟩

theorem wf_get : ∀ (p : Path) (j v : J), j.wf = true → get? p j = some v → v.wf = true
  | [], j, v, hw, hg => by
    rw [get?_nil] at hg
    cases hg; exact hw
  | k :: p, j, v, hw, hg => by
    cases j with
    | obj kvs =>
      simp only [get?] at hg
      cases hl : kvs.lookup k with
      | none => simp [hl] at hg
      | some v0 =>
        simp only [hl] at hg
        have hw0 := KV.wf_lookup kvs k v0 (by simpa [J.wf] using hw) hl
        exact wf_get p v0 v hw0 hg
    | _ => simp [get?] at hg

theorem KV.wf_nodup : ∀ kvs : KV, kvs.wf = true → kvs.keys.Nodup
  | .nil, _ => by simp [KV.keys]
  | .cons k v t, h => by
    obtain ⟨hk, _, ht⟩ := KV.wf_cons h
    simp only [KV.keys, List.nodup_cons]
    exact ⟨hk, KV.wf_nodup t ht⟩

theorem wf_nodupAt {a : J} (h : a.wf = true) : NodupAt a := by
  intro p ks hg
  have := wf_get p a _ h hg
  exact KV.wf_nodup ks (by simpa [J.wf] using this)

/-- every key the update uses, at every depth, is a key of the defaults at the same place -/
def Known (d u : J) : Prop :=
  ∀ p uk k, get? p u = some (.obj uk) → k ∈ uk.keys →
    ∃ dk, get? p d = some (.obj dk) ∧ k ∈ dk.keys

/-- the update's non-dictionary values sit on non-dictionary values of the defaults
(an update never replaces a whole section) -/
def LeafOnLeaf (d u : J) : Prop :=
  ∀ p v, get? p u = some v → v.isObj = false → ∃ dv, get? p d = some dv ∧ dv.isObj = false

/-- no leaf path of one update is a prefix of (or equal to) a leaf path of the other -/
def DisjointLeaves (u1 u2 : J) : Prop := ∀ p, ¬ (touched u1 p = true ∧ touched u2 p = true)

/-- wherever both updates reach (a path on or below a leaf path of each) they say the same: the two
files may share leaves such as `parameter_level` / `version` as long as the values are equal -/
def AgreeOnCommon (u1 u2 : J) : Prop :=
  ∀ p, touched u1 p = true → touched u2 p = true → get? p u1 = get? p u2

theorem agree_of_disjoint {u1 u2 : J} (h : DisjointLeaves u1 u2) : AgreeOnCommon u1 u2 :=
  fun p h1 h2 => absurd ⟨h1, h2⟩ (h p)

/-- the merged tree, path by path: the update on and below its leaf paths, the defaults elsewhere -/
theorem ru_shape {ukvs : KV} {d r : J} (hwf : ukvs.wf = true) (h : ruKvs d ukvs = .ok r)
    (hk : Known d (.obj ukvs)) (p : Path) :
    (touched (.obj ukvs) p = true → shape (get? p r) = shape (get? p (.obj ukvs))) ∧
    (touched (.obj ukvs) p = false → shape (get? p r) = shape (get? p d)) := by
  constructor
  · intro ht
    rw [ru_touched p ukvs d r hwf h ht]
  · intro ht
    obtain ⟨h1, h2, h3⟩ := ru_untouched p ukvs d r hwf h ht
    cases hg : get? p d with
    | none => rw [h1 hg]
    | some v =>
      cases hobj : v.isObj with
      | false => rw [h2 v hg hobj]
      | true =>
        cases v with
        | obj dk' =>
          obtain ⟨rk', hr, hkeys⟩ := h3 dk' hg
          rw [hr]
          simp only [shape, Shape.node.injEq]
          apply hkeys
          intro uk' hu k hm
          obtain ⟨dk, hd, hmem⟩ := hk p uk' k hu hm
          rw [hg] at hd
          cases hd
          exact hmem
        | _ => simp [J.isObj] at hobj

/-- a leaf of the defaults hides everything below it -/
theorem not_touched_of_node {d u : J} (hl : LeafOnLeaf d u) {p : Path} {dk : KV}
    (hd : get? p d = some (.obj dk)) : touched u p = false := by
  cases ht : touched u p with
  | false => rfl
  | true =>
    obtain ⟨q, s, v, hp, hg, hv⟩ := touched_witness p u ht
    obtain ⟨dv, hdv, hleaf⟩ := hl q v hg hv
    rw [hp, get?_append, hdv] at hd
    simp only [Option.bind_some] at hd
    obtain ⟨_, hx⟩ := get?_of_leaf hleaf s _ hd
    rw [← hx] at hleaf
    simp [J.isObj] at hleaf

/-- known keys stay known after an independent update has been merged in -/
theorem known_after {ukvs : KV} {d r u2 : J} (hwf : ukvs.wf = true) (h : ruKvs d ukvs = .ok r)
    (hk1 : Known d (.obj ukvs)) (hl1 : LeafOnLeaf d (.obj ukvs)) (hk2 : Known d u2) :
    Known r u2 := by
  intro p uk k hu hm
  obtain ⟨dk, hd, hmem⟩ := hk2 p uk k hu hm
  have ht := not_touched_of_node hl1 hd
  obtain ⟨_, _, h3⟩ := ru_untouched p ukvs d r hwf h ht
  obtain ⟨rk', hr, hkeys⟩ := h3 dk hd
  refine ⟨rk', hr, ?_⟩
  rw [hkeys]
  · exact hmem
  · intro uk' hu' k' hm'
    obtain ⟨dk2, hd2, hmem2⟩ := hk1 p uk' k' hu' hm'
    rw [hd] at hd2
    cases hd2
    exact hmem2


theorem shape_node_inv {o : Option J} {l : List String} (h : shape o = .node l) :
    ∃ ks, o = some (.obj ks) ∧ ks.keys = l := by
  cases o with
  | none => simp [shape] at h
  | some v =>
    cases v with
    | obj ks =>
      simp only [shape, Shape.node.injEq] at h
      exact ⟨ks, rfl, h⟩
    | _ => simp [shape] at h

/-- two updates that agree wherever both reach, merged in either order, give the same tree -/
theorem ru_comm {u1 u2 : KV} {d r1 r12 r2 r21 : J}
    (hw1 : u1.wf = true) (hw2 : u2.wf = true) (hnd : NodupAt d)
    (hk1 : Known d (.obj u1)) (hk2 : Known d (.obj u2))
    (hl1 : LeafOnLeaf d (.obj u1)) (hl2 : LeafOnLeaf d (.obj u2))
    (hdis : AgreeOnCommon (.obj u1) (.obj u2))
    (e1 : ruKvs d u1 = .ok r1) (e12 : ruKvs r1 u2 = .ok r12)
    (e2 : ruKvs d u2 = .ok r2) (e21 : ruKvs r2 u1 = .ok r21) : r12 = r21 := by
  have K12 : Known r1 (.obj u2) := known_after hw1 e1 hk1 hl1 hk2
  have K21 : Known r2 (.obj u1) := known_after hw2 e2 hk2 hl2 hk1
  have key : ∀ p, ∃ X, (X = d ∨ X = .obj u1 ∨ X = .obj u2) ∧
      shape (get? p r12) = shape (get? p X) ∧ shape (get? p r21) = shape (get? p X) := by
    intro p
    obtain ⟨a1t, a1f⟩ := ru_shape hw1 e1 hk1 p
    obtain ⟨a12t, a12f⟩ := ru_shape hw2 e12 K12 p
    obtain ⟨a2t, a2f⟩ := ru_shape hw2 e2 hk2 p
    obtain ⟨a21t, a21f⟩ := ru_shape hw1 e21 K21 p
    cases t1 : touched (.obj u1) p with
    | false =>
      cases t2 : touched (.obj u2) p with
      | false =>
        exact ⟨d, Or.inl rfl, by rw [a12f t2, a1f t1], by rw [a21f t1, a2f t2]⟩
      | true =>
        exact ⟨.obj u2, Or.inr (Or.inr rfl), a12t t2, by rw [a21f t1, a2t t2]⟩
    | true =>
      cases t2 : touched (.obj u2) p with
      | false =>
        exact ⟨.obj u1, Or.inr (Or.inl rfl), by rw [a12f t2, a1t t1], a21t t1⟩
      | true =>
        exact ⟨.obj u2, Or.inr (Or.inr rfl), a12t t2, by rw [a21t t1, hdis p t1 t2]⟩
  apply ext_j
  · intro p ks hg
    obtain ⟨X, hX, hs, _⟩ := key p
    rw [hg] at hs
    simp only [shape] at hs
    obtain ⟨ks', hX', hkeys⟩ := shape_node_inv hs.symm
    rw [← hkeys]
    rcases hX with rfl | rfl | rfl
    · exact hnd p ks' hX'
    · exact wf_nodupAt (a := .obj u1) (by simpa [J.wf] using hw1) p ks' hX'
    · exact wf_nodupAt (a := .obj u2) (by simpa [J.wf] using hw2) p ks' hX'
  · intro p
    obtain ⟨X, _, hs1, hs2⟩ := key p
    rw [hs1, hs2]


/-! ### an update whose keys are known never crashes `retain_update` -/

theorem KV.lookup_of_mem_keys (k : String) (kvs : KV) (h : k ∈ kvs.keys) :
    ∃ v, kvs.lookup k = some v := by
  cases hl : kvs.lookup k with
  | some v => exact ⟨v, rfl⟩
  | none => exact absurd h ((KV.lookup_none_iff k kvs).mp hl)

theorem KV.mem_keys_of_lookup {k : String} {kvs : KV} {v : J} (h : kvs.lookup k = some v) :
    k ∈ kvs.keys := by
  by_cases hm : k ∈ kvs.keys
  · exact hm
  · rw [(KV.lookup_none_iff k kvs).mpr hm] at h
    cases h

theorem ru_total : ∀ (ukvs : KV) (d : J), ukvs.wf = true → (ukvs = .nil ∨ d.isObj = true) →
    Known d (.obj ukvs) → ∃ r, ruKvs d ukvs = .ok r
  | .nil, d, _, _, _ => ⟨d, by simp [ruKvs]⟩
  | .cons k v rest, d, hwf, hd, hk => by
    obtain ⟨hk0, hvwf, hrwf⟩ := KV.wf_cons hwf
    have hobj : d.isObj = true := by
      rcases hd with h | h
      · cases h
      · exact h
    cases d with
    | obj dk =>
      obtain ⟨dk', hdk', hmem⟩ := hk [] (.cons k v rest) k (get?_nil _) (by simp [KV.keys])
      rw [get?_nil] at hdk'
      cases hdk'
      obtain ⟨dv, hdv⟩ := KV.lookup_of_mem_keys k dk hmem
      -- the rest of the loop sees a dictionary with the same keys and the same other values
      have hrest : ∀ x : J, Known (.obj (dk.setKey k x)) (.obj rest) := by
        intro x p uk k' hu hm'
        cases p with
        | nil =>
          rw [get?_nil] at hu
          cases hu
          obtain ⟨dk2, hd2, hmem2⟩ := hk [] (.cons k v rest) k' (get?_nil _) (by simp [KV.keys, hm'])
          rw [get?_nil] at hd2
          cases hd2
          exact ⟨_, get?_nil _, by rw [KV.keys_setKey_of_mem k x dk hmem]; exact hmem2⟩
        | cons k1 p1 =>
          have hne : ¬ k = k1 := by
            intro e
            subst e
            simp only [get?] at hu
            rw [(KV.lookup_none_iff k rest).mpr hk0] at hu
            cases hu
          have hu' : get? (k1 :: p1) (.obj (.cons k v rest)) = some (.obj uk) := by
            simpa [get?, KV.lookup, hne] using hu
          obtain ⟨dk2, hd2, hmem2⟩ := hk (k1 :: p1) uk k' hu' hm'
          refine ⟨dk2, ?_, hmem2⟩
          simpa [get?, KV.lookup_setKey_ne x (Ne.symm hne)] using hd2
      cases v with
      | obj vk =>
        have hkv : Known dv (.obj vk) := by
          intro p uk k' hu hm'
          have hu' : get? (k :: p) (.obj (.cons k (.obj vk) rest)) = some (.obj uk) := by
            simpa [get?, KV.lookup] using hu
          obtain ⟨dk2, hd2, hmem2⟩ := hk (k :: p) uk k' hu' hm'
          exact ⟨dk2, by simpa [get?, hdv] using hd2, hmem2⟩
        have hdvobj : vk = .nil ∨ dv.isObj = true := by
          cases vk with
          | nil => exact Or.inl rfl
          | cons k1 v1 t1 =>
            obtain ⟨dk2, hd2, _⟩ := hkv [] _ k1 (get?_nil _) (by simp [KV.keys])
            rw [get?_nil] at hd2
            cases hd2
            exact Or.inr rfl
        obtain ⟨r0, hr0⟩ := ru_total vk dv (by simpa [J.wf] using hvwf) hdvobj hkv
        obtain ⟨r, hr⟩ := ru_total rest (.obj (dk.setKey k r0)) hrwf (Or.inr rfl) (hrest r0)
        exact ⟨r, by simp [ruKvs, hdv, hr0, hr]⟩
      | null =>
        obtain ⟨r, hr⟩ := ru_total rest (.obj (dk.setKey k .null)) hrwf (Or.inr rfl) (hrest _)
        exact ⟨r, by simp [ruKvs, hr]⟩
      | bool b =>
        obtain ⟨r, hr⟩ := ru_total rest (.obj (dk.setKey k (.bool b))) hrwf (Or.inr rfl) (hrest _)
        exact ⟨r, by simp [ruKvs, hr]⟩
      | int i =>
        obtain ⟨r, hr⟩ := ru_total rest (.obj (dk.setKey k (.int i))) hrwf (Or.inr rfl) (hrest _)
        exact ⟨r, by simp [ruKvs, hr]⟩
      | float m e =>
        obtain ⟨r, hr⟩ := ru_total rest (.obj (dk.setKey k (.float m e))) hrwf (Or.inr rfl) (hrest _)
        exact ⟨r, by simp [ruKvs, hr]⟩
      | str s =>
        obtain ⟨r, hr⟩ := ru_total rest (.obj (dk.setKey k (.str s))) hrwf (Or.inr rfl) (hrest _)
        exact ⟨r, by simp [ruKvs, hr]⟩
      | list l =>
        obtain ⟨r, hr⟩ := ru_total rest (.obj (dk.setKey k (.list l))) hrwf (Or.inr rfl) (hrest _)
        exact ⟨r, by simp [ruKvs, hr]⟩
    | _ => simp [J.isObj] at hobj

/-! ### inversion of `check_types` -/

theorem typeOk_obj {d : J} {tk : KV} (h : typeOk d (.obj tk) = true) : ∃ dk, d = .obj dk := by
  cases d with
  | obj dk => exact ⟨dk, rfl⟩
  | _ => simp [typeOk, J.tag, J.isStr] at h

theorem typeOk_leaf {d t : J} (h : typeOk d t = true) (ht : t.isObj = false) :
    d.isObj = false := by
  cases d with
  | obj dk => cases t <;> simp_all [typeOk, J.tag, J.isStr, J.isObj]
  | _ => rfl

theorem ct_typeOk {om : List String} {d t : J} (h : checkTypes om d t = .ok ()) :
    typeOk d t = true := by
  cases t <;> simp only [checkTypes] at h <;> split at h <;> first | assumption | cases h

theorem ct_obj {om : List String} {d : J} {tk : KV} (h : checkTypes om d (.obj tk) = .ok ()) :
    ∃ dk, d = .obj dk ∧ ctKvs om dk tk = .ok () := by
  obtain ⟨dk, hd⟩ := typeOk_obj (ct_typeOk h)
  subst hd
  refine ⟨dk, rfl, ?_⟩
  simp only [checkTypes] at h
  split at h
  · exact h
  · cases h

theorem ct_lookup {om : List String} {dk : KV} : ∀ (tk : KV) (k : String) (tv : J),
    ctKvs om dk tk = .ok () → tk.lookup k = some tv → om.contains k = false →
    ∃ dv, dk.lookup k = some dv ∧ checkTypes om dv tv = .ok ()
  | .nil, _, _, _, hl, _ => by simp [KV.lookup] at hl
  | .cons k0 tv0 rest, k, tv, h, hl, ho => by
    by_cases hk : k0 = k
    · subst hk
      simp only [KV.lookup, if_true] at hl
      cases hl
      simp only [ctKvs, ho] at h
      cases hd : dk.lookup k0 with
      | none => simp [hd] at h
      | some dv =>
        simp only [hd] at h
        refine ⟨dv, rfl, ?_⟩
        cases hc : checkTypes om dv tv0 with
        | ok u => rfl
        | error e => simp [hc] at h
    · simp only [KV.lookup, hk, if_false] at hl
      have hrest : ctKvs om dk rest = .ok () := by
        simp only [ctKvs] at h
        split at h
        · exact h
        · split at h
          · cases h
          · split at h
            · exact h
            · cases h
      exact ct_lookup rest k tv hrest hl ho

/-- the path steps through no omitted key -/
def omitFree (om : List String) (p : Path) : Prop := ∀ k, k ∈ p → om.contains k = false

/-- whatever the accepted file holds at an omit-free key path has been checked against what the
defaults hold at the same path -/
theorem ct_get {om : List String} : ∀ (p : Path) (d t tv : J),
    checkTypes om d t = .ok () → omitFree om p → get? p t = some tv →
    ∃ dv, get? p d = some dv ∧ checkTypes om dv tv = .ok ()
  | [], d, t, tv, h, _, hg => by
    rw [get?_nil] at hg
    cases hg
    exact ⟨d, get?_nil _, h⟩
  | k :: p, d, t, tv, h, ho, hg => by
    cases t with
    | obj tk =>
      obtain ⟨dk, hd, hct⟩ := ct_obj h
      subst hd
      simp only [get?] at hg
      cases hl : tk.lookup k with
      | none => simp [hl] at hg
      | some tv0 =>
        simp only [hl] at hg
        obtain ⟨dv0, hdv0, hc0⟩ := ct_lookup tk k tv0 hct hl (ho k (by simp))
        obtain ⟨dv, hdv, hc⟩ := ct_get p dv0 tv0 tv hc0 (fun k' hk' => ho k' (by simp [hk'])) hg
        exact ⟨dv, by simp [get?, hdv0, hdv], hc⟩
    | _ => simp [get?] at hg

theorem ct_list_mem {om : List String} {d0 : J} : ∀ (tl : JL) (x : J),
    ctList om d0 tl = .ok () → x ∈ tl.toList → checkTypes om d0 x = .ok ()
  | .nil, _, _, hm => by simp [JL.toList] at hm
  | .cons t rest, x, h, hm => by
    simp only [ctList] at h
    cases hc : checkTypes om d0 t with
    | error e => simp [hc] at h
    | ok u =>
      simp only [hc] at h
      simp only [JL.toList, List.mem_cons] at hm
      rcases hm with rfl | hm
      · exact hc
      · exact ct_list_mem rest x h hm


/-! ### placeholder removal -/

mutual
/-- no type placeholder anywhere in the value (dictionary values and list elements included) -/
def noPh : J → Bool
  | .list l => noPhL l
  | .obj kvs => noPhK kvs
  | v => !v.isPh
def noPhL : JL → Bool
  | .nil => true
  | .cons h t => noPh h && noPhL t
def noPhK : KV → Bool
  | .nil => true
  | .cons _ v t => noPh v && noPhK t
end

mutual
theorem rpVal_noPh : ∀ v : J, noPh (rpVal v) = true
  | .list l => by
    cases l with
    | nil => simp [rpVal, rpList, noPh, noPhL]
    | cons x t =>
      cases t with
      | nil =>
        by_cases hx : x.isPh = true
        · simp [rpVal, hx, noPh, noPhL]
        · simp [rpVal, hx, noPh, noPhL, rpVal_noPh x]
      | cons y t' =>
        have := rpList_noPh (.cons x (.cons y t'))
        simpa [rpVal, noPh] using this
  | .obj kvs => by
    have := rpKvs_noPh kvs
    simpa [rpVal, noPh] using this
  | .null => by simp [rpVal, J.isPh, noPh]
  | .bool b => by simp [rpVal, J.isPh, noPh]
  | .int i => by simp [rpVal, J.isPh, noPh]
  | .float m e => by simp [rpVal, J.isPh, noPh]
  | .str s => by
    simp only [rpVal]
    split <;> simp_all [noPh, J.isPh]
theorem rpList_noPh : ∀ l : JL, noPhL (rpList l) = true
  | .nil => by simp [rpList, noPhL]
  | .cons x t => by simp [rpList, noPhL, rpVal_noPh x, rpList_noPh t]
theorem rpKvs_noPh : ∀ kvs : KV, noPhK (rpKvs kvs) = true
  | .nil => by simp [rpKvs, noPhK]
  | .cons k v t => by simp [rpKvs, noPhK, rpVal_noPh v, rpKvs_noPh t]
end

mutual
/-- values without placeholders are left exactly as they are -/
theorem rpVal_id : ∀ v : J, noPh v = true → rpVal v = v
  | .list l, h => by
    cases l with
    | nil => simp [rpVal, rpList]
    | cons x t =>
      cases t with
      | nil =>
        simp only [noPh, noPhL, Bool.and_true] at h
        have hx : x.isPh = false := by
          cases x <;> simp_all [noPh, J.isPh]
        simp [rpVal, hx, rpVal_id x h]
      | cons y t' =>
        have := rpList_id (.cons x (.cons y t')) (by simpa [noPh] using h)
        simp [rpVal, this]
  | .obj kvs, h => by
    have := rpKvs_id kvs (by simpa [noPh] using h)
    simp [rpVal, this]
  | .null, _ => by simp [rpVal, J.isPh]
  | .bool b, _ => by simp [rpVal, J.isPh]
  | .int i, _ => by simp [rpVal, J.isPh]
  | .float m e, _ => by simp [rpVal, J.isPh]
  | .str s, h => by
    have hs : (J.str s).isPh = false := by simpa [noPh] using h
    simp [rpVal, hs]
theorem rpList_id : ∀ l : JL, noPhL l = true → rpList l = l
  | .nil, _ => by simp [rpList]
  | .cons x t, h => by
    simp only [noPhL, Bool.and_eq_true] at h
    simp [rpList, rpVal_id x h.1, rpList_id t h.2]
theorem rpKvs_id : ∀ kvs : KV, noPhK kvs = true → rpKvs kvs = kvs
  | .nil, _ => by simp [rpKvs]
  | .cons k v t, h => by
    simp only [noPhK, Bool.and_eq_true] at h
    simp [rpKvs, rpVal_id v h.1, rpKvs_id t h.2]
end

theorem rpKvs_keys : ∀ kvs : KV, (rpKvs kvs).keys = kvs.keys
  | .nil => by simp [rpKvs, KV.keys]
  | .cons k v t => by simp [rpKvs, KV.keys, rpKvs_keys t]

theorem rpKvs_lookup (k : String) : ∀ kvs : KV, (rpKvs kvs).lookup k = (kvs.lookup k).map rpVal
  | .nil => by simp [rpKvs, KV.lookup]
  | .cons k' v t => by
    by_cases h : k' = k
    · simp [rpKvs, KV.lookup, h]
    · simp [rpKvs, KV.lookup, h, rpKvs_lookup k t]

/-! ### names -/

theorem labelsOk_mem : ∀ (ls : List J) (s : String),
    labelsOk ls = .ok () → J.str s ∈ ls → isReserved s = false
  | [], _, _, hm => by simp at hm
  | l :: ls, s, h, hm => by
    cases l with
    | str s0 =>
      simp only [labelsOk] at h
      by_cases hr : isReserved s0 = true
      · simp [hr] at h
      · simp only [hr] at h
        simp only [List.mem_cons, J.str.injEq] at hm
        rcases hm with rfl | hm
        · simpa using hr
        · exact labelsOk_mem ls s h hm
    | _ => simp [labelsOk] at h

theorem namesOk_lookup : ∀ (progs : KV) (name : String) (prog : J),
    namesOk progs = .ok () → progs.lookup name = some prog →
    isReserved name = false ∧
    ∃ pk v ls, prog = .obj pk ∧ pk.lookup "method_labels" = some v ∧ iterLabels v = .ok ls ∧
      ∀ s, J.str s ∈ ls → isReserved s = false
  | .nil, _, _, _, hl => by simp [KV.lookup] at hl
  | .cons n0 p0 t, name, prog, h, hl => by
    simp only [namesOk] at h
    by_cases hr : isReserved n0 = true
    · simp [hr] at h
    · simp only [hr] at h
      cases p0 with
      | obj pk =>
        simp only at h
        cases hml : pk.lookup "method_labels" with
        | none => simp [hml] at h
        | some v =>
          simp only [hml] at h
          cases hit : iterLabels v with
          | error e => simp [hit] at h
          | ok ls =>
            simp only [hit] at h
            cases hlo : labelsOk ls with
            | error e => simp [hlo] at h
            | ok u =>
              simp only [hlo] at h
              by_cases hk : n0 = name
              · subst hk
                simp only [KV.lookup, if_true] at hl
                cases hl
                exact ⟨by simpa using hr, pk, v, ls, rfl, hml, hit,
                  fun s hs => labelsOk_mem ls s hlo hs⟩
              · simp only [KV.lookup, hk, if_false] at hl
                exact namesOk_lookup t name prog h hl
      | _ => simp at h

/-! ### the install stage -/

theorem installLabels_only_missing : ∀ (pool : KV) (ls : List J) (acc : KV) (e : Rej),
    installLabels pool ls acc = .error e → e = .missing_method
  | _, [], _, _, h => by simp [installLabels] at h
  | pool, l :: ls, acc, e, h => by
    simp only [installLabels] at h
    split at h
    · split at h
      · exact installLabels_only_missing pool ls _ e h
      · cases h; rfl
    · cases h; rfl

theorem installLabels_inv : ∀ (pool : KV) (ls : List J) (acc ms : KV),
    installLabels pool ls acc = .ok ms →
    (∀ key m, acc.lookup key = some m → pool.lookup key = some m) →
    (∀ key m, ms.lookup key = some m → pool.lookup key = some m) ∧
    (∀ key, key ∈ acc.keys → key ∈ ms.keys) ∧
    (∀ l, l ∈ ls → ∃ key, keyOf l = some key ∧ key ∈ ms.keys)
  | _, [], acc, ms, h, hinv => by
    simp only [installLabels] at h
    cases h
    exact ⟨hinv, fun _ hk => hk, by simp⟩
  | pool, l :: ls, acc, ms, h, hinv => by
    simp only [installLabels] at h
    cases hko : keyOf l with
    | none => simp [hko] at h
    | some key =>
      simp only [hko] at h
      cases hp : pool.lookup key with
      | none => simp [hp] at h
      | some m =>
        simp only [hp] at h
        have hinv' : ∀ key' m', (acc.setKey key m).lookup key' = some m' →
            pool.lookup key' = some m' := by
          intro key' m' hl
          by_cases hk : key' = key
          · subst hk
            rw [KV.lookup_setKey_same] at hl
            cases hl; exact hp
          · rw [KV.lookup_setKey_ne m hk] at hl
            exact hinv key' m' hl
        obtain ⟨i1, i2, i3⟩ := installLabels_inv pool ls _ ms h hinv'
        have hkey : key ∈ ms.keys :=
          i2 key (KV.mem_keys_of_lookup (KV.lookup_setKey_same key m acc))
        refine ⟨i1, ?_, ?_⟩
        · intro k hk
          apply i2
          by_cases hm : key ∈ acc.keys
          · rw [KV.keys_setKey_of_mem key m acc hm]; exact hk
          · rw [KV.keys_setKey_of_not_mem key m acc hm]; simp [hk]
        · intro l' hl'
          simp only [List.mem_cons] at hl'
          rcases hl' with rfl | hl'
          · exact ⟨key, hko, hkey⟩
          · exact i3 l' hl'

theorem installLabels_missing : ∀ (pool : KV) (ls : List J) (acc : KV),
    (∃ l, l ∈ ls ∧ ∀ key, keyOf l = some key → pool.lookup key = none) →
    installLabels pool ls acc = .error .missing_method
  | _, [], _, h => by
    obtain ⟨l, hl, _⟩ := h
    simp at hl
  | pool, l :: ls, acc, h => by
    simp only [installLabels]
    cases hko : keyOf l with
    | none => rfl
    | some key =>
      cases hp : pool.lookup key with
      | none => simp [hp]
      | some m =>
        simp only [hp]
        apply installLabels_missing pool ls
        obtain ⟨l', hl', hmiss⟩ := h
        simp only [List.mem_cons] at hl'
        rcases hl' with rfl | hl'
        · rw [hmiss key hko] at hp
          cases hp
        · exact ⟨l', hl', hmiss⟩


theorem installMethods_lookup (defs : KV) : ∀ (ms ms' : KV) (k : String) (m : J),
    installMethods defs ms = .ok ms' → ms.lookup k = some m →
    ∃ rm, installMethod defs m = .ok rm ∧ ms'.lookup k = some rm
  | .nil, _, _, _, _, hl => by simp [KV.lookup] at hl
  | .cons k0 m0 t, ms', k, m, h, hl => by
    simp only [installMethods] at h
    cases hm : installMethod defs m0 with
    | error e => simp [hm] at h
    | ok r0 =>
      simp only [hm] at h
      cases ht : installMethods defs t with
      | error e => simp [ht] at h
      | ok t' =>
        simp only [ht] at h
        cases h
        by_cases hk : k0 = k
        · subst hk
          simp only [KV.lookup, if_true] at hl
          cases hl
          exact ⟨r0, hm, by simp [KV.lookup]⟩
        · simp only [KV.lookup, hk, if_false] at hl
          obtain ⟨rm, h1, h2⟩ := installMethods_lookup defs t t' k m ht hl
          exact ⟨rm, h1, by simp [KV.lookup, hk, h2]⟩

theorem installMethods_keys (defs : KV) : ∀ (ms ms' : KV),
    installMethods defs ms = .ok ms' → ms'.keys = ms.keys
  | .nil, ms', h => by
    simp only [installMethods] at h
    cases h; rfl
  | .cons k0 m0 t, ms', h => by
    simp only [installMethods] at h
    cases hm : installMethod defs m0 with
    | error e => simp [hm] at h
    | ok r0 =>
      simp only [hm] at h
      cases ht : installMethods defs t with
      | error e => simp [ht] at h
      | ok t' =>
        simp only [ht] at h
        cases h
        simp [KV.keys, installMethods_keys defs t t' ht]

/-! ### bridges between the checked and the path-wise hypotheses -/

theorem touched_of_leaf_at : ∀ (p : Path) (u v : J),
    get? p u = some v → v.isObj = false → touched u p = true
  | [], u, v, hg, hv => by
    rw [get?_nil] at hg
    cases hg
    exact touched_leaf hv []
  | k :: p, u, v, hg, hv => by
    cases u with
    | obj kvs =>
      simp only [get?] at hg
      cases hl : kvs.lookup k with
      | none => simp [hl] at hg
      | some v0 =>
        simp only [hl] at hg
        simp [touched, hl, touched_of_leaf_at p v0 v hg hv]
    | _ => simp [touched]

theorem omitFree_nil (p : Path) : omitFree [] p := by
  intro k _
  simp

/-- a file accepted without omit keys uses known keys only and puts leaves on leaves -/
theorem known_of_check {d u : J} (h : checkTypes [] d u = .ok ()) :
    Known d u ∧ LeafOnLeaf d u := by
  constructor
  · intro p uk k hu hm
    obtain ⟨dv, hdv, hc⟩ := ct_get p d u _ h (omitFree_nil p) hu
    obtain ⟨dk, hd, hct⟩ := ct_obj hc
    subst hd
    obtain ⟨tv, htv⟩ := KV.lookup_of_mem_keys k uk hm
    obtain ⟨dv2, hdv2, _⟩ := ct_lookup uk k tv hct htv (by simp)
    exact ⟨dk, hdv, KV.mem_keys_of_lookup hdv2⟩
  · intro p v hu hv
    obtain ⟨dv, hdv, hc⟩ := ct_get p d u _ h (omitFree_nil p) hu
    exact ⟨dv, hdv, typeOk_leaf (ct_typeOk hc) hv⟩

theorem disjoint_of_keys {u1 u2 : KV} (h : ∀ k, k ∈ u1.keys → k ∉ u2.keys) :
    DisjointLeaves (.obj u1) (.obj u2) := by
  intro p ⟨h1, h2⟩
  cases p with
  | nil => simp [touched] at h1
  | cons k p' =>
    simp only [touched] at h1 h2
    cases hl1 : u1.lookup k with
    | none => simp [hl1] at h1
    | some v1 =>
      cases hl2 : u2.lookup k with
      | none => simp [hl2] at h2
      | some v2 => exact h k (KV.mem_keys_of_lookup hl1) (KV.mem_keys_of_lookup hl2)


/-! ### Boolean equality is equality; the decidable form of `AgreeOnCommon` -/

mutual
theorem J.beq_eq : ∀ (a b : J), J.beq a b = true → a = b
  | .null, b, h => by cases b <;> simp_all [J.beq]
  | .bool x, b, h => by cases b <;> simp_all [J.beq]
  | .int x, b, h => by cases b <;> simp_all [J.beq]
  | .float x y, b, h => by cases b <;> simp_all [J.beq]
  | .str x, b, h => by cases b <;> simp_all [J.beq]
  | .list x, b, h => by
    cases b with
    | list y => simp only [J.beq] at h; rw [JL.beq_eq x y h]
    | _ => simp [J.beq] at h
  | .obj x, b, h => by
    cases b with
    | obj y => simp only [J.beq] at h; rw [KV.beq_eq x y h]
    | _ => simp [J.beq] at h
theorem JL.beq_eq : ∀ (a b : JL), JL.beq a b = true → a = b
  | .nil, b, h => by cases b <;> simp_all [JL.beq]
  | .cons x s, b, h => by
    cases b with
    | nil => simp [JL.beq] at h
    | cons y t =>
      simp only [JL.beq, Bool.and_eq_true] at h
      rw [J.beq_eq x y h.1, JL.beq_eq s t h.2]
theorem KV.beq_eq : ∀ (a b : KV), KV.beq a b = true → a = b
  | .nil, b, h => by cases b <;> simp_all [KV.beq]
  | .cons k x s, b, h => by
    cases b with
    | nil => simp [KV.beq] at h
    | cons k' y t =>
      simp only [KV.beq, Bool.and_eq_true, beq_iff_eq] at h
      rw [h.1.1, J.beq_eq x y h.1.2, KV.beq_eq s t h.2]
end

/-- what `agreeB` says about the values the two updates hold under a common key -/
theorem agreeB_lookup : ∀ (u1 u2 : KV) (k : String) (v1 v2 : J), agreeB u1 u2 = true →
    u1.lookup k = some v1 → u2.lookup k = some v2 →
    (∃ a b, v1 = .obj a ∧ v2 = .obj b ∧ agreeB a b = true) ∨
    (v1.isObj = false ∧ v2.isObj = false ∧ v1 = v2)
  | .nil, _, _, _, _, _, h1, _ => by simp [KV.lookup] at h1
  | .cons k0 x rest, u2, k, v1, v2, h, h1, h2 => by
    simp only [agreeB, Bool.and_eq_true] at h
    by_cases hk : k0 = k
    · subst hk
      simp only [KV.lookup, if_true] at h1
      cases h1
      have h0 := h.1
      simp only [h2] at h0
      cases x with
      | obj a =>
        cases v2 with
        | obj b => exact Or.inl ⟨a, b, rfl, rfl, h0⟩
        | _ => simp at h0
      | null => cases v2 <;> first | exact Or.inr ⟨rfl, rfl, J.beq_eq _ _ h0⟩ | (simp at h0)
      | bool _ => cases v2 <;> first | exact Or.inr ⟨rfl, rfl, J.beq_eq _ _ h0⟩ | (simp at h0)
      | int _ => cases v2 <;> first | exact Or.inr ⟨rfl, rfl, J.beq_eq _ _ h0⟩ | (simp at h0)
      | float _ _ => cases v2 <;> first | exact Or.inr ⟨rfl, rfl, J.beq_eq _ _ h0⟩ | (simp at h0)
      | str _ => cases v2 <;> first | exact Or.inr ⟨rfl, rfl, J.beq_eq _ _ h0⟩ | (simp at h0)
      | list _ => cases v2 <;> first | exact Or.inr ⟨rfl, rfl, J.beq_eq _ _ h0⟩ | (simp at h0)
    · simp only [KV.lookup, hk, if_false] at h1
      exact agreeB_lookup rest u2 k v1 v2 h.2 h1 h2

theorem agree_of_agreeB : ∀ (p : Path) (u1 u2 : KV), agreeB u1 u2 = true →
    touched (.obj u1) p = true → touched (.obj u2) p = true →
    get? p (.obj u1) = get? p (.obj u2)
  | [], _, _, _, h1, _ => by simp [touched] at h1
  | k :: p', u1, u2, h, h1, h2 => by
    simp only [touched] at h1 h2
    cases hl1 : u1.lookup k with
    | none => simp [hl1] at h1
    | some v1 =>
      cases hl2 : u2.lookup k with
      | none => simp [hl2] at h2
      | some v2 =>
        simp only [hl1] at h1
        simp only [hl2] at h2
        simp only [get?, hl1, hl2]
        rcases agreeB_lookup u1 u2 k v1 v2 h hl1 hl2 with ⟨a, b, rfl, rfl, hab⟩ | ⟨_, _, rfl⟩
        · exact agree_of_agreeB p' a b hab h1 h2
        · rfl

theorem agreeOnCommon_of_agreeB {u1 u2 : KV} (h : agreeB u1 u2 = true) :
    AgreeOnCommon (.obj u1) (.obj u2) :=
  fun p h1 h2 => agree_of_agreeB p u1 u2 h h1 h2


/-! ### `check_types` accepts exactly the conforming files -/

mutual
/-- the specification of acceptance, as a plain conjunction (no evaluation order, no error kinds):
the node passes the type test; every key of a dictionary that is not an omit key is a key of the
default and its value conforms to the default's value; every element of a list conforms to the
first element of a non-empty default list -/
def conforms (om : List String) (d : J) : J → Bool
  | .obj tk =>
    typeOk d (.obj tk) && (match d with
      | .obj dk => confKvs om dk tk
      | _ => true)
  | .list tl =>
    typeOk d (.list tl) && (match d with
      | .list (.cons d0 _) => confList om d0 tl
      | _ => true)
  | t => typeOk d t
def confKvs (om : List String) (dk : KV) : KV → Bool
  | .nil => true
  | .cons k tv rest =>
    (om.contains k || (match dk.lookup k with
      | some dv => conforms om dv tv
      | none => false)) && confKvs om dk rest
def confList (om : List String) (d0 : J) : JL → Bool
  | .nil => true
  | .cons t rest => conforms om d0 t && confList om d0 rest
end

mutual
theorem ct_iff_conforms (om : List String) : ∀ (t d : J),
    checkTypes om d t = .ok () ↔ conforms om d t = true
  | .obj tk, d => by
    simp only [checkTypes, conforms]
    cases hty : typeOk d (.obj tk) with
    | false => simp
    | true =>
      cases d with
      | obj dk => simpa using ctKvs_iff om dk tk
      | _ => simp
  | .list tl, d => by
    simp only [checkTypes, conforms]
    cases hty : typeOk d (.list tl) with
    | false => simp
    | true =>
      cases d with
      | list dl =>
        cases dl with
        | nil => simp
        | cons d0 ds => simpa using ctList_iff om d0 tl
      | _ => simp
  | .null, d => by simp only [checkTypes, conforms]; cases typeOk d .null <;> simp
  | .bool b, d => by simp only [checkTypes, conforms]; cases typeOk d (.bool b) <;> simp
  | .int i, d => by simp only [checkTypes, conforms]; cases typeOk d (.int i) <;> simp
  | .float m e, d => by simp only [checkTypes, conforms]; cases typeOk d (.float m e) <;> simp
  | .str x, d => by simp only [checkTypes, conforms]; cases typeOk d (.str x) <;> simp
theorem ctKvs_iff (om : List String) (dk : KV) : ∀ (tk : KV),
    ctKvs om dk tk = .ok () ↔ confKvs om dk tk = true
  | .nil => by simp [ctKvs, confKvs]
  | .cons k tv rest => by
    simp only [ctKvs, confKvs]
    cases ho : om.contains k with
    | true => simpa using ctKvs_iff om dk rest
    | false =>
      cases hl : dk.lookup k with
      | none => simp
      | some dv =>
        have ih1 := ct_iff_conforms om tv dv
        have ih2 := ctKvs_iff om dk rest
        cases hc : checkTypes om dv tv with
        | error e =>
          have : conforms om dv tv = false := by
            cases hcf : conforms om dv tv with
            | false => rfl
            | true => rw [ih1.mpr hcf] at hc; cases hc
          simp [this, hc]
        | ok u =>
          have : conforms om dv tv = true := ih1.mp (by rw [hc])
          simpa [this, hc] using ih2
theorem ctList_iff (om : List String) (d0 : J) : ∀ (tl : JL),
    ctList om d0 tl = .ok () ↔ confList om d0 tl = true
  | .nil => by simp [ctList, confList]
  | .cons t rest => by
    simp only [ctList, confList]
    have ih1 := ct_iff_conforms om t d0
    have ih2 := ctList_iff om d0 rest
    cases hc : checkTypes om d0 t with
    | error e =>
      have : conforms om d0 t = false := by
        cases hcf : conforms om d0 t with
        | false => rfl
        | true => rw [ih1.mpr hcf] at hc; cases hc
      simp [this]
    | ok u =>
      have : conforms om d0 t = true := ih1.mp (by rw [hc])
      simpa [this, hc] using ih2
end


theorem confKvs_iff (om : List String) (dk : KV) : ∀ (tk : KV),
    confKvs om dk tk = true ↔
      ∀ k tv, (k, tv) ∈ tk.toList → om.contains k = false →
        ∃ dv, dk.lookup k = some dv ∧ conforms om dv tv = true
  | .nil => by simp [confKvs, KV.toList]
  | .cons k0 tv0 rest => by
    simp only [confKvs, KV.toList, Bool.and_eq_true, Bool.or_eq_true, List.mem_cons, Prod.mk.injEq,
      confKvs_iff om dk rest]
    constructor
    · rintro ⟨h0, hr⟩ k tv hm ho
      rcases hm with ⟨rfl, rfl⟩ | hm
      · rcases h0 with h0 | h0
        · rw [h0] at ho; cases ho
        · cases hl : dk.lookup k with
          | none => simp [hl] at h0
          | some dv => exact ⟨dv, rfl, by simpa [hl] using h0⟩
      · exact hr k tv hm ho
    · intro h
      refine ⟨?_, fun k tv hm ho => h k tv (Or.inr hm) ho⟩
      cases ho : om.contains k0 with
      | true => exact Or.inl rfl
      | false =>
        obtain ⟨dv, hdv, hc⟩ := h k0 tv0 (Or.inl ⟨rfl, rfl⟩) ho
        exact Or.inr (by simp [hdv, hc])

theorem confList_iff (om : List String) (d0 : J) : ∀ (tl : JL),
    confList om d0 tl = true ↔ ∀ x, x ∈ tl.toList → conforms om d0 x = true
  | .nil => by simp [confList, JL.toList]
  | .cons t rest => by
    simp only [confList, JL.toList, Bool.and_eq_true, List.mem_cons, confList_iff om d0 rest]
    constructor
    · rintro ⟨h0, hr⟩ x hx
      rcases hx with rfl | hx
      · exact h0
      · exact hr x hx
    · intro h
      exact ⟨h t (Or.inl rfl), fun x hx => h x (Or.inr hx)⟩


/-! ### the intake, file by file -/

theorem isStr_eq {x : J} {s : String} (h : x.isStr s = true) : x = .str s := by
  cases x <;> simp_all [J.isStr]

/-- the level string selects the branch -/
theorem route_dispatch (defs : KV) (st : St) (file : KV) :
    (file.lookup "parameter_level" = some (.str "simulation_settings") →
        route defs st file = routeSim st file) ∧
    (file.lookup "parameter_level" = some (.str "virtual_world") →
        route defs st file = routeSection defs vwDefFile "virtual_world" st file) ∧
    (file.lookup "parameter_level" = some (.str "programs") →
        route defs st file = routeProgram defs st file) ∧
    (file.lookup "parameter_level" = some (.str "methods") →
        route defs st file = routeMethod st file) ∧
    (file.lookup "parameter_level" = some (.str "outputs") →
        route defs st file = routeSection defs outDefFile "outputs" st file) := by
  refine ⟨?_, ?_, ?_, ?_, ?_⟩ <;> intro hl <;> simp only [route, hl] <;> rfl

/-- wiring of the simulation-settings branch -/
theorem routeSim_inv {st st' : St} {file : KV} (h : routeSim st file = .ok st') :
    checkTypes ["programs"] (.obj ((st.sim.erase "virtual_world").erase "outputs")) (.obj file) = .ok () ∧
    retainUpdate (.obj st.sim) (.obj file) = .ok (.obj st'.sim) ∧
    st'.programs = st.programs ∧ st'.pool = st.pool := by
  simp only [routeSim] at h
  split at h
  · cases h
  · split at h
    · cases h
    · rename_i hc
      split at h
      · rename_i s hr
        cases h
        exact ⟨by cases ‹Unit›; exact hc, hr, rfl, rfl⟩
      · cases h
      · cases h

/-- wiring of the programs branch -/
theorem routeProgram_inv {defs : KV} {st st' : St} {file : KV}
    (h : routeProgram defs st file = .ok st') :
    ∃ d p nm key,
      loadDef defs (match file.lookup "default_parameters" with
                    | some v => v
                    | none => .str progDefFile) = .ok d ∧
      checkTypes ["methods"] d (.obj file) = .ok () ∧ retainUpdate d (.obj file) = .ok (.obj p) ∧
      p.lookup "program_name" = some nm ∧ keyOf nm = some key ∧
      st'.programs = st.programs.setKey key (.obj p) ∧ st'.sim = st.sim ∧ st'.pool = st.pool := by
  simp only [routeProgram] at h
  split at h
  · cases h
  · rename_i d hd
    split at h
    · cases h
    · split at h
      · cases h
      · rename_i hc
        split at h
        · cases h
        · rename_i p hr
          split at h
          · cases h
          · rename_i nm hnm
            split at h
            · cases h
            · rename_i key hkey
              cases h
              exact ⟨d, p, nm, key, hd, by cases ‹Unit›; exact hc, hr, hnm, hkey, rfl, rfl, rfl⟩
        · cases h

/-- wiring of the methods branch: the file is only put into the method pool (it is checked when a
program installs it, `methods_installed`) -/
theorem routeMethod_inv {st st' : St} {file : KV} (h : routeMethod st file = .ok st') :
    ∃ nm key, file.lookup "method_name" = some nm ∧ keyOf nm = some key ∧
      st'.pool = st.pool.setKey key (.obj file) ∧ st'.sim = st.sim ∧ st'.programs = st.programs := by
  simp only [routeMethod] at h
  split at h
  · cases h
  · rename_i nm hnm
    split at h
    · cases h
    · rename_i key hkey
      cases h
      exact ⟨nm, key, hnm, hkey, rfl, rfl, rfl⟩

/-- an accepted file has one of the five levels -/
theorem route_level {defs : KV} {st st' : St} {file : KV} (h : route defs st file = .ok st') :
    ∃ s, file.lookup "parameter_level" = some (.str s) ∧
      (s = "simulation_settings" ∨ s = "virtual_world" ∨ s = "programs" ∨ s = "methods" ∨
        s = "outputs") := by
  simp only [route] at h
  split at h
  · cases h
  · rename_i lvl hl
    by_cases c1 : lvl.isStr "simulation_settings" = true
    · exact ⟨_, by rw [hl, isStr_eq c1], Or.inl rfl⟩
    · by_cases c2 : lvl.isStr "virtual_world" = true
      · exact ⟨_, by rw [hl, isStr_eq c2], Or.inr (Or.inl rfl)⟩
      · by_cases c3 : lvl.isStr "programs" = true
        · exact ⟨_, by rw [hl, isStr_eq c3], Or.inr (Or.inr (Or.inl rfl))⟩
        · by_cases c4 : lvl.isStr "methods" = true
          · exact ⟨_, by rw [hl, isStr_eq c4], Or.inr (Or.inr (Or.inr (Or.inl rfl)))⟩
          · by_cases c5 : lvl.isStr "outputs" = true
            · exact ⟨_, by rw [hl, isStr_eq c5], Or.inr (Or.inr (Or.inr (Or.inr rfl)))⟩
            · simp [c1, c2, c3, c4, c5] at h

/-- every file of an accepted list was routed successfully from some state -/
theorem routeAll_each (defs : KV) : ∀ (fs : List KV) (st st' : St), routeAll defs st fs = .ok st' →
    ∀ f, f ∈ fs → ∃ s1 s2, route defs s1 f = .ok s2
  | [], _, _, _, _, hf => by simp at hf
  | g :: gs, st, st', h, f, hf => by
    simp only [routeAll] at h
    cases hr : route defs st g with
    | error e => simp [hr] at h
    | ok st1 =>
      simp only [hr] at h
      simp only [List.mem_cons] at hf
      rcases hf with rfl | hf
      · exact ⟨st, st1, hr⟩
      · exact routeAll_each defs gs st1 st' h f hf

theorem installPrograms_lookup (defs pool : KV) : ∀ (ps ps' : KV) (k : String) (p : J),
    installPrograms defs pool ps = .ok ps' → ps.lookup k = some p →
    ∃ r, installProgram defs pool p = .ok r ∧ ps'.lookup k = some r
  | .nil, _, _, _, _, hl => by simp [KV.lookup] at hl
  | .cons k0 p0 t, ps', k, p, h, hl => by
    simp only [installPrograms] at h
    cases hm : installProgram defs pool p0 with
    | error e => simp [hm] at h
    | ok r0 =>
      simp only [hm] at h
      cases ht : installPrograms defs pool t with
      | error e => simp [ht] at h
      | ok t' =>
        simp only [ht] at h
        cases h
        by_cases hk : k0 = k
        · subst hk
          simp only [KV.lookup, if_true] at hl
          cases hl
          exact ⟨r0, hm, by simp [KV.lookup]⟩
        · simp only [KV.lookup, hk, if_false] at hl
          obtain ⟨r, h1, h2⟩ := installPrograms_lookup defs pool t t' k p ht hl
          exact ⟨r, h1, by simp [KV.lookup, hk, h2]⟩

/-- placeholder removal commutes with looking a path up -/
theorem get?_rpVal : ∀ (p : Path) (j : J), get? p (rpVal j) = (get? p j).map rpVal
  | [], j => by simp [get?_nil]
  | k :: p, j => by
    cases j with
    | obj kvs =>
      simp only [rpVal, get?, rpKvs_lookup]
      cases kvs.lookup k with
      | none => simp
      | some v => simpa using get?_rpVal p v
    | list l =>
      have : ∀ x : J, x.isObj = false → get? (k :: p) x = none := fun x hx => get?_cons_leaf k p x hx
      rw [this (.list l) rfl]
      cases l with
      | nil => simp [rpVal, rpList, get?]
      | cons x t =>
        cases t with
        | nil =>
          by_cases hx : x.isPh = true
          · simp [rpVal, hx, get?]
          · simp [rpVal, hx, get?]
        | cons y t' => simp [rpVal, get?]
    | null => simp [rpVal, J.isPh, get?]
    | bool b => simp [rpVal, J.isPh, get?]
    | int i => simp [rpVal, J.isPh, get?]
    | float m e => simp [rpVal, J.isPh, get?]
    | str s =>
      simp only [rpVal]
      split <;> simp [get?]


/-! ### files of different slots can be swapped -/

/-- what routing a file that is not a simulation-settings file does to the state: it writes one
slot with a value computed from the file and the defaults alone -/
inductive Write
  | slot (s : String) (r : J)          -- `simulation_parameters[s] = r`
  | prog (k : String) (p : J)          -- `programs[k] = p`
  | meth (k : String) (m : J)          -- `method_pool[k] = m`

def applyW : Write → St → St
  | .slot s r, st => { st with sim := st.sim.setKey s r }
  | .prog k p, st => { st with programs := st.programs.setKey k p }
  | .meth k m, st => { st with pool := st.pool.setKey k m }

/-- which slot a write goes to -/
def Write.target : Write → String × String
  | .slot s _ => ("section", s)
  | .prog k _ => ("program", k)
  | .meth k _ => ("method", k)

/-- same dictionaries up to the order of keys -/
def St.equiv (a b : St) : Prop :=
  (∀ k, a.sim.lookup k = b.sim.lookup k) ∧ (∀ k, a.programs.lookup k = b.programs.lookup k) ∧
  (∀ k, a.pool.lookup k = b.pool.lookup k)

theorem KV.lookup_setKey_comm {k1 k2 : String} (v1 v2 : J) (h : k1 ≠ k2) (kvs : KV) (k : String) :
    ((kvs.setKey k1 v1).setKey k2 v2).lookup k = ((kvs.setKey k2 v2).setKey k1 v1).lookup k := by
  by_cases e1 : k = k1
  · subst e1
    rw [KV.lookup_setKey_ne v2 h, KV.lookup_setKey_same, KV.lookup_setKey_same]
  · by_cases e2 : k = k2
    · subst e2
      rw [KV.lookup_setKey_same, KV.lookup_setKey_ne v1 e1, KV.lookup_setKey_same]
    · rw [KV.lookup_setKey_ne v2 e2, KV.lookup_setKey_ne v1 e1, KV.lookup_setKey_ne v1 e1,
        KV.lookup_setKey_ne v2 e2]

/-- writes to different slots commute (up to key order) -/
theorem applyW_comm (w1 w2 : Write) (st : St) (h : w1.target ≠ w2.target) :
    St.equiv (applyW w2 (applyW w1 st)) (applyW w1 (applyW w2 st)) := by
  cases w1 <;> cases w2 <;> refine ⟨?_, ?_, ?_⟩ <;> intro k <;> simp only [applyW] <;>
    first
    | rfl
    | (apply KV.lookup_setKey_comm
       intro e; apply h; simp [Write.target, e])

theorem routeSection_uniform (defs : KV) (defFile slot : String) (file : KV) :
    (∃ e, ∀ st, routeSection defs defFile slot st file = .error e) ∨
    (∃ r, ∀ st, routeSection defs defFile slot st file = .ok (applyW (.slot slot r) st)) := by
  simp only [routeSection, applyW]
  cases h1 : loadDef defs (match file.lookup "default_parameters" with
      | some v => v
      | none => .str defFile) with
  | error e => exact Or.inl ⟨e, fun _ => rfl⟩
  | ok d =>
    cases h2 : checkTypes [] d (.obj file) with
    | error e => exact Or.inl ⟨e, fun _ => by simp [h2]⟩
    | ok u =>
      cases h3 : retainUpdate d (.obj file) with
      | error e => exact Or.inl ⟨e, fun _ => by simp [h2, h3]⟩
      | ok r => exact Or.inr ⟨r, fun _ => by simp [h2, h3]⟩

theorem routeProgram_uniform (defs : KV) (file : KV) :
    (∃ e, ∀ st, routeProgram defs st file = .error e) ∨
    (∃ k p, ∀ st, routeProgram defs st file = .ok (applyW (.prog k p) st)) := by
  simp only [routeProgram, applyW]
  cases h1 : loadDef defs (match file.lookup "default_parameters" with
      | some v => v
      | none => .str progDefFile) with
  | error e => exact Or.inl ⟨e, fun _ => rfl⟩
  | ok d =>
    cases h0 : file.lookup "program_name" with
    | none => exact Or.inl ⟨_, fun _ => rfl⟩
    | some nm0 =>
      cases h2 : checkTypes ["methods"] d (.obj file) with
      | error e => exact Or.inl ⟨e, fun _ => by simp [h2]⟩
      | ok u =>
        cases h3 : retainUpdate d (.obj file) with
        | error e => exact Or.inl ⟨e, fun _ => by simp [h2, h3]⟩
        | ok r =>
          cases r with
          | obj p =>
            cases hn : p.lookup "program_name" with
            | none => exact Or.inl ⟨.key_error, fun _ => by simp [h2, h3, hn]⟩
            | some nm =>
              cases hk : keyOf nm with
              | none => exact Or.inl ⟨.type_error, fun _ => by simp [h2, h3, hn, hk]⟩
              | some key => exact Or.inr ⟨key, .obj p, fun _ => by simp [h2, h3, hn, hk]⟩
          | null => exact Or.inl ⟨.type_error, fun _ => by simp [h2, h3]⟩
          | bool _ => exact Or.inl ⟨.type_error, fun _ => by simp [h2, h3]⟩
          | int _ => exact Or.inl ⟨.type_error, fun _ => by simp [h2, h3]⟩
          | float _ _ => exact Or.inl ⟨.type_error, fun _ => by simp [h2, h3]⟩
          | str _ => exact Or.inl ⟨.type_error, fun _ => by simp [h2, h3]⟩
          | list _ => exact Or.inl ⟨.type_error, fun _ => by simp [h2, h3]⟩

theorem routeMethod_uniform (file : KV) :
    (∃ e, ∀ st, routeMethod st file = .error e) ∨
    (∃ k, ∀ st, routeMethod st file = .ok (applyW (.meth k (.obj file)) st)) := by
  simp only [routeMethod, applyW]
  cases h0 : file.lookup "method_name" with
  | none => exact Or.inl ⟨_, fun _ => rfl⟩
  | some nm =>
    cases hk : keyOf nm with
    | none => exact Or.inl ⟨.type_error, fun _ => by simp [hk]⟩
    | some key => exact Or.inr ⟨key, fun _ => by simp [hk]⟩

/-- the kind of slot a level writes -/
def kindOf (s : String) : String :=
  if s = "programs" then "program" else if s = "methods" then "method" else "section"

/-- a file of one of the four non-accumulating levels either is rejected whatever came before, or
writes one slot with a value that does not depend on what came before -/
theorem route_uniform (defs : KV) (file : KV) (s : String)
    (hl : file.lookup "parameter_level" = some (.str s))
    (hs : s = "virtual_world" ∨ s = "outputs" ∨ s = "programs" ∨ s = "methods") :
    (∃ e, ∀ st, route defs st file = .error e) ∨
    (∃ w : Write, (∀ st, route defs st file = .ok (applyW w st)) ∧
      w.target.1 = kindOf s ∧ (kindOf s = "section" → w.target.2 = s)) := by
  rcases hs with rfl | rfl | rfl | rfl
  · rcases routeSection_uniform defs vwDefFile "virtual_world" file with ⟨e, he⟩ | ⟨r, hr⟩
    · exact Or.inl ⟨e, fun st => by rw [(route_dispatch defs st file).2.1 hl, he]⟩
    · exact Or.inr ⟨_, fun st => by rw [(route_dispatch defs st file).2.1 hl, hr], rfl, fun _ => rfl⟩
  · rcases routeSection_uniform defs outDefFile "outputs" file with ⟨e, he⟩ | ⟨r, hr⟩
    · exact Or.inl ⟨e, fun st => by rw [(route_dispatch defs st file).2.2.2.2 hl, he]⟩
    · exact Or.inr ⟨_, fun st => by rw [(route_dispatch defs st file).2.2.2.2 hl, hr], rfl,
        fun _ => rfl⟩
  · rcases routeProgram_uniform defs file with ⟨e, he⟩ | ⟨k, p, hr⟩
    · exact Or.inl ⟨e, fun st => by rw [(route_dispatch defs st file).2.2.1 hl, he]⟩
    · exact Or.inr ⟨_, fun st => by rw [(route_dispatch defs st file).2.2.1 hl, hr], rfl,
        fun h => absurd h (by decide)⟩
  · rcases routeMethod_uniform file with ⟨e, he⟩ | ⟨k, hr⟩
    · exact Or.inl ⟨e, fun st => by rw [(route_dispatch defs st file).2.2.2.1 hl, he]⟩
    · exact Or.inr ⟨_, fun st => by rw [(route_dispatch defs st file).2.2.2.1 hl, hr], rfl,
        fun h => absurd h (by decide)⟩


theorem KV.has_setKey_other {k k' : String} (v : J) (h : k' ≠ k) (kvs : KV) :
    (kvs.setKey k v).has k' = kvs.has k' := by
  simp [KV.has, KV.lookup_setKey_ne v h]

/-- assigning a well-formed value keeps a dictionary well-formed -/
theorem KV.wf_setKey (k : String) (v : J) : ∀ (kvs : KV), kvs.wf = true → v.wf = true →
    (kvs.setKey k v).wf = true
  | .nil, _, hv => by simp [KV.setKey, KV.wf, KV.has, KV.lookup, hv]
  | .cons k' v' t, hwf, hv => by
    obtain ⟨hk', hv', ht⟩ := KV.wf_cons hwf
    have hnot : t.has k' = false := by
      cases hh : t.has k' with
      | false => rfl
      | true => exact absurd ((KV.has_iff_mem_keys k' t).mp hh) hk'
    by_cases e : k' = k
    · subst e
      simp [KV.setKey, KV.wf, hnot, hv, ht]
    · have : (t.setKey k v).has k' = false := by
        rw [KV.has_setKey_other v e]; exact hnot
      simp [KV.setKey, e, KV.wf, this, hv', KV.wf_setKey k v t ht hv]

end LdarModel.Tree
