import LdarModel.Model.Cache
/-
Helper lemmas for C17: hash dictionary lookups, closed form of the emission-file loop, the
invariant of the generator folder and its preservation by every prefix of every run.
-/
namespace LdarModel.Cache

/-! ### version vectors and the hash dictionary -/

theorem VV.ext_get {a b : VV} (h : ∀ i, a.get i = b.get i) : a = b := by
  cases a; cases b
  have h1 := h .site; have h2 := h .siteType; have h3 := h .equip; have h4 := h .source
  have h5 := h .emisRate; have h6 := h .repairDelay; have h7 := h .vw; have h8 := h .prog
  simp only [VV.get] at h1 h2 h3 h4 h5 h6 h7 h8
  simp [*]

theorem lookup_storeOf (hashed : List (String × Input)) (vv : VV) (k : String) (i : Input)
    (nd : (hashed.map (·.1)).Nodup) (hm : (k, i) ∈ hashed) :
    (storeOf hashed vv).lookup k = some (vv.get i) := by
  induction hashed with
  | nil => cases hm
  | cons p rest ih =>
    obtain ⟨k', i'⟩ := p
    simp only [List.map_cons, List.nodup_cons, List.mem_map] at nd
    simp only [storeOf, List.map_cons, List.lookup_cons]
    rcases List.mem_cons.mp hm with h | h
    · cases h
      simp
    · have hne : k ≠ k' := by
        intro e
        exact nd.1 ⟨(k, i), h, e⟩
      have : (k == k') = false := by simpa using hne
      simp only [this]
      exact ih nd.2 h

/-- what the theorems need from the extracted table: the two table obligations of the design
(`defining ⊆ hashed`, `hashed = compared`) plus the write order / reuse condition of the repaired
code -/
structure TblOK (t : Tbl) : Prop where
  nodup : (t.hashedFresh.map (·.1)).Nodup
  sameHashed : t.hashedRegen = t.hashedFresh
  defining : ∀ i : Input, ∃ k, (k, i) ∈ t.hashedFresh
  hashedCompared : ∀ p, p ∈ t.hashedFresh → p ∈ t.compared
  comparedHashed : ∀ p, p ∈ t.compared → p ∈ t.hashedFresh
  countRequired : FileId.count ∈ t.required
  freshOps : t.freshOps = safeIOps
  regenOps : t.regenOps = safeIOps
  emisRegen : t.emisRegen = safePhases
  emisExtend : t.emisExtend = safePhases

/-- decidable form of `TblOK`, evaluated on the extracted table by `decide` -/
def Tbl.okB (t : Tbl) : Bool :=
  decide ((t.hashedFresh.map (·.1)).Nodup) && decide (t.hashedRegen = t.hashedFresh)
  && Input.all.all (fun i => t.hashedFresh.any (fun p => p.2 == i))
  && t.hashedFresh.all (fun p => t.compared.contains p)
  && t.compared.all (fun p => t.hashedFresh.contains p)
  && t.required.contains .count
  && decide (t.freshOps = safeIOps) && decide (t.regenOps = safeIOps)
  && decide (t.emisRegen = safePhases) && decide (t.emisExtend = safePhases)

theorem Input.mem_all (i : Input) : i ∈ Input.all := by
  cases i <;> simp [Input.all]

theorem Tbl.ok_of_okB (t : Tbl) (h : t.okB = true) : TblOK t := by
  simp only [Tbl.okB, Bool.and_eq_true, decide_eq_true_eq, List.all_eq_true, List.any_eq_true,
    List.contains_iff_mem, beq_iff_eq] at h
  obtain ⟨⟨⟨⟨⟨⟨⟨⟨⟨h1, h2⟩, h3⟩, h4⟩, h5⟩, h6⟩, h7⟩, h8⟩, h9⟩, h10⟩ := h
  refine ⟨h1, h2, ?_, h4, h5, h6, h7, h8, h9, h10⟩
  intro i
  obtain ⟨p, hp, e⟩ := h3 i (Input.mem_all i)
  exact ⟨p.1, by cases p; simp_all⟩

theorem match_self (t : Tbl) (ok : TblOK t) (vv : VV) :
    hashesMatch t (storeOf t.hashedFresh vv) vv = true := by
  simp only [hashesMatch, List.all_eq_true]
  intro p hp
  have := lookup_storeOf t.hashedFresh vv p.1 p.2 ok.nodup (ok.comparedHashed p hp)
  simp [this]

theorem match_inj (t : Tbl) (ok : TblOK t) (vv vv' : VV)
    (h : hashesMatch t (storeOf t.hashedFresh vv) vv' = true) : vv = vv' := by
  apply VV.ext_get
  intro i
  obtain ⟨k, hk⟩ := ok.defining i
  simp only [hashesMatch, List.all_eq_true] at h
  have h1 := h (k, i) (ok.hashedCompared _ hk)
  have h2 := lookup_storeOf t.hashedFresh vv k i ok.nodup hk
  simp only [h2] at h1
  simpa using h1

/-! ### steps -/

@[simp] theorem applyAll_nil (d : Disk) : applyAll [] d = d := rfl
@[simp] theorem applyAll_cons (s : Step) (l : List Step) (d : Disk) :
    applyAll (s :: l) d = applyAll l (s.apply d) := rfl
theorem applyAll_append (a b : List Step) (d : Disk) :
    applyAll (a ++ b) d = applyAll b (applyAll a d) := by
  simp [applyAll, List.foldl_append]

/-- closed form of the emission-file loop -/
theorem applyAll_emisLoop (g : Gen) (cnt lo : Nat) (d : Disk) :
    applyAll (emisLoop g lo cnt) d =
      { d with emis := fun j => if lo ≤ j ∧ j < lo + cnt then .ok g else d.emis j } := by
  induction cnt generalizing lo d with
  | zero =>
    simp only [emisLoop, applyAll_nil]
    cases d
    simp only [Disk.mk.injEq, true_and, and_true]
    funext j
    have : ¬ (lo ≤ j ∧ j < lo + 0) := by omega
    rw [if_neg this]
  | succ k ih =>
    simp only [emisLoop, applyAll_cons, ih, Step.apply, Disk.setEmis]
    cases d
    simp only [Disk.mk.injEq, true_and, and_true]
    funext j
    by_cases h1 : j = lo
    · subst h1
      have h3 : ¬ (j + 1 ≤ j ∧ j < j + 1 + k) := by omega
      have h2 : j ≤ j ∧ j < j + (k + 1) := by omega
      rw [if_neg h3, if_pos h2, if_pos rfl]
    · by_cases h2 : lo ≤ j ∧ j < lo + (k + 1)
      · have h3 : lo + 1 ≤ j ∧ j < lo + 1 + k := by omega
        rw [if_pos h3, if_pos h2]
      · have h3 : ¬ (lo + 1 ≤ j ∧ j < lo + 1 + k) := by omega
        rw [if_neg h3, if_neg h2, if_neg h1]

/-! ### the invariant -/

/-- whenever the count file, the hash file and the infrastructure file are all readable, the stored
hashes identify exactly the inputs the stored infrastructure was generated from, and the first
`count` emission files were generated by that very infrastructure -/
def Inv (t : Tbl) (d : Disk) : Prop :=
  ∀ c st g, d.count = .ok c → d.hashes = .ok st → d.infra = .ok g →
    hashesMatch t st g.vv = true ∧ (∀ vv, hashesMatch t st vv = true → g.vv = vv) ∧
    ∀ i, i < c → d.emis i = .ok g

/-- local condition under which one step keeps the invariant -/
def StepOk (t : Tbl) (d : Disk) : Step → Prop
  | .wrCount n => ∀ st g, d.hashes = .ok st → d.infra = .ok g →
      hashesMatch t st g.vv = true ∧ (∀ vv, hashesMatch t st vv = true → g.vv = vv) ∧
      ∀ i, i < n → d.emis i = .ok g
  | .wrHashes _ => ∀ c, d.count ≠ .ok c
  | .wrInfra _ => ∀ c, d.count ≠ .ok c
  | .wrEmis i _ => ∀ c, d.count = .ok c → c ≤ i
  | _ => True

theorem step_inv (t : Tbl) (d : Disk) (s : Step) (hi : Inv t d) (hs : StepOk t d s) :
    Inv t (s.apply d) := by
  cases s with
  | wrSeeds n => exact hi
  | wrTs => exact hi
  | wrHashes st' =>
    intro c st g hc _ _
    exact absurd hc (hs c)
  | wrInfra g' =>
    intro c st g hc _ _
    exact absurd hc (hs c)
  | wrEmis i g' =>
    intro c st g hc hh hg
    obtain ⟨a, b, e⟩ := hi c st g hc hh hg
    refine ⟨a, b, ?_⟩
    intro j hj
    have : c ≤ i := hs c hc
    have hne : j ≠ i := by omega
    simp only [Step.apply, Disk.setEmis, hne, if_false]
    exact e j hj
  | wrCount n =>
    intro c st g hc hh hg
    simp only [Step.apply, FileSt.ok.injEq] at hc
    subst hc
    exact hs st g hh hg
  | rm f =>
    cases f with
    | seeds => exact hi
    | ts => exact hi
    | hashes => intro c st g _ hh _; simp [Step.apply, Disk.remove] at hh
    | infra => intro c st g _ _ hg; simp [Step.apply, Disk.remove] at hg
    | count => intro c st g hc _ _; simp [Step.apply, Disk.remove] at hc

theorem tear_inv (t : Tbl) (d : Disk) (s : Step) (hi : Inv t d) (hs : StepOk t d s) :
    Inv t (s.tear d) := by
  cases s with
  | wrSeeds n => exact hi
  | wrTs => exact hi
  | rm f => exact hi
  | wrHashes st' => intro c st g _ hh _; simp [Step.tear] at hh
  | wrInfra g' => intro c st g _ _ hg; simp [Step.tear] at hg
  | wrCount n => intro c st g hc _ _; simp [Step.tear] at hc
  | wrEmis i g' =>
    intro c st g hc hh hg
    obtain ⟨a, b, e⟩ := hi c st g hc hh hg
    refine ⟨a, b, ?_⟩
    intro j hj
    have : c ≤ i := hs c hc
    have hne : j ≠ i := by omega
    simp only [Step.tear, Disk.setEmis, hne, if_false]
    exact e j hj

/-- every step of the list is fine at the folder it is applied to -/
def ChainOk (t : Tbl) : Disk → List Step → Prop
  | _, [] => True
  | d, s :: rest => StepOk t d s ∧ ChainOk t (s.apply d) rest

theorem chain_append (t : Tbl) (a b : List Step) (d : Disk) :
    ChainOk t d (a ++ b) ↔ ChainOk t d a ∧ ChainOk t (applyAll a d) b := by
  induction a generalizing d with
  | nil => simp [ChainOk]
  | cons s rest ih => simp [ChainOk, ih, and_assoc]

theorem chain_inv (t : Tbl) (l : List Step) (d : Disk) (hi : Inv t d) (hc : ChainOk t d l) :
    Inv t (applyAll l d) := by
  induction l generalizing d with
  | nil => exact hi
  | cons s rest ih => exact ih _ (step_inv t d s hi hc.1) hc.2

theorem chain_take (t : Tbl) (l : List Step) (k : Nat) (d : Disk) (hc : ChainOk t d l) :
    ChainOk t d (l.take k) := by
  induction l generalizing d k with
  | nil => simp [ChainOk]
  | cons s rest ih =>
    cases k with
    | zero => simp [ChainOk]
    | succ k => exact ⟨hc.1, ih k _ hc.2⟩

theorem chain_get (t : Tbl) (l : List Step) (k : Nat) (s : Step) (d : Disk) (hc : ChainOk t d l)
    (hk : l[k]? = some s) : StepOk t (applyAll (l.take k) d) s := by
  induction l generalizing d k with
  | nil => simp at hk
  | cons s' rest ih =>
    cases k with
    | zero =>
      simp only [List.getElem?_cons_zero, Option.some.injEq] at hk
      subst hk
      exact hc.1
    | succ k =>
      simp only [List.getElem?_cons_succ] at hk
      exact ih k _ hc.2 hk

/-- a crash before any step, or inside the `pickle.dump` of any step, keeps the invariant -/
theorem chain_crash (t : Tbl) (l : List Step) (k : Nat) (d : Disk) (hi : Inv t d)
    (hc : ChainOk t d l) : Inv t (applyAll (l.take k) d) :=
  chain_inv t _ d hi (chain_take t l k d hc)

theorem chain_tear (t : Tbl) (l : List Step) (k : Nat) (d : Disk) (hi : Inv t d)
    (hc : ChainOk t d l) : Inv t (tearAt l k d) := by
  unfold tearAt
  cases h : l[k]? with
  | none => exact chain_inv t l d hi hc
  | some s => exact tear_inv t _ s (chain_crash t l k d hi hc) (chain_get t l k s d hc h)

theorem chain_emisLoop (t : Tbl) (g : Gen) (cnt lo : Nat) (d : Disk)
    (h : ∀ c, d.count = .ok c → c ≤ lo) : ChainOk t d (emisLoop g lo cnt) := by
  induction cnt generalizing lo d with
  | zero => simp [emisLoop, ChainOk]
  | succ k ih =>
    refine ⟨h, ih (lo + 1) _ ?_⟩
    intro c hc
    have := h c hc
    omega

/-! ### one run, stage by stage -/

theorem FileSt.present_false {α} (f : FileSt α) (h : f.present = false) : f = .absent := by
  cases f <;> simp_all [FileSt.present]

theorem instIOps_safe (st : Store) (g : Gen) (d : Disk) :
    instIOps safeIOps st g d =
      (if d.count.present then [Step.rm .count] else []) ++ [.wrHashes st, .wrInfra g] := by
  by_cases h : d.count.present = true <;> simp [instIOps, safeIOps, Disk.present, h]

theorem instPhases_safe (g : Gen) (lo n : Nat) :
    instPhases safePhases g lo n = emisLoop g lo (n - lo) ++ [.wrCount n] := by
  simp [instPhases, safePhases]

/-- regenerating branch: count invalidated, hashes, infrastructure, all emission files, count -/
theorem regen_spec (t : Tbl) (ok : TblOK t) (vv : VV) (gid n : Nat) (d1 : Disk) (b : Bool)
    (hb : b = d1.count.present) :
    ChainOk t d1 ((if b then [Step.rm .count] else []) ++
        [.wrHashes (storeOf t.hashedFresh vv), .wrInfra ⟨vv, gid⟩] ++
        (emisLoop ⟨vv, gid⟩ 0 n ++ [.wrCount n])) ∧
    applyAll ((if b then [Step.rm .count] else []) ++
        [.wrHashes (storeOf t.hashedFresh vv), .wrInfra ⟨vv, gid⟩] ++
        (emisLoop ⟨vv, gid⟩ 0 n ++ [.wrCount n])) d1 =
      { d1 with hashes := .ok (storeOf t.hashedFresh vv), infra := .ok ⟨vv, gid⟩,
                emis := fun j => if j < n then .ok ⟨vv, gid⟩ else d1.emis j, count := .ok n } := by
  have hcount : ∀ c, (applyAll (if b then [Step.rm .count] else []) d1).count ≠ .ok c := by
    intro c
    cases b with
    | true => simp [Step.apply, Disk.remove]
    | false =>
      have := FileSt.present_false _ hb.symm
      simp [this]
  have hrest : ∀ (d2 : Disk), (∀ c, d2.count ≠ .ok c) →
      ChainOk t d2 ([.wrHashes (storeOf t.hashedFresh vv), .wrInfra ⟨vv, gid⟩] ++
        (emisLoop ⟨vv, gid⟩ 0 n ++ [.wrCount n])) ∧
      applyAll ([.wrHashes (storeOf t.hashedFresh vv), .wrInfra ⟨vv, gid⟩] ++
        (emisLoop ⟨vv, gid⟩ 0 n ++ [.wrCount n])) d2 =
        { d2 with hashes := .ok (storeOf t.hashedFresh vv), infra := .ok ⟨vv, gid⟩,
                  emis := fun j => if j < n then .ok ⟨vv, gid⟩ else d2.emis j, count := .ok n } := by
    intro d2 h2
    constructor
    · rw [chain_append, chain_append]
      refine ⟨⟨h2, fun c => ?_, trivial⟩, ?_, ?_⟩
      · simpa [Step.apply] using h2 c
      · apply chain_emisLoop
        intro c hc
        simp only [applyAll_cons, applyAll_nil, Step.apply] at hc
        exact absurd hc (h2 c)
      · refine ⟨?_, trivial⟩
        intro st g hh hg
        simp only [applyAll_cons, applyAll_nil, Step.apply, applyAll_emisLoop,
          FileSt.ok.injEq] at hh hg
        subst hh
        subst hg
        refine ⟨match_self t ok vv, fun vv' h => match_inj t ok vv vv' h, ?_⟩
        intro i hi
        simp only [applyAll_cons, applyAll_nil, Step.apply, applyAll_emisLoop]
        have : 0 ≤ i ∧ i < 0 + n := by omega
        rw [if_pos this]
    · simp only [applyAll_append, applyAll_cons, applyAll_nil, Step.apply, applyAll_emisLoop]
      cases d2
      simp only [Disk.mk.injEq, true_and, and_true]
      funext j
      by_cases hj : j < n
      · have : 0 ≤ j ∧ j < 0 + n := by omega
        rw [if_pos this, if_pos hj]
      · have : ¬ (0 ≤ j ∧ j < 0 + n) := by omega
        rw [if_neg this, if_neg hj]
  rw [List.append_assoc, chain_append, applyAll_append]
  obtain ⟨c1, c2⟩ := hrest _ hcount
  refine ⟨⟨?_, c1⟩, ?_⟩
  · cases b <;> simp [ChainOk, StepOk]
  · rw [c2]
    cases b with
    | true => simp [Step.apply, Disk.remove]
    | false => simp

/-- add-simulations branch on a folder that satisfies the invariant -/
theorem extend_spec (t : Tbl) (d1 : Disk) (hi : Inv t d1) (c n : Nat) (st : Store) (g : Gen)
    (hc : d1.count = .ok c) (hh : d1.hashes = .ok st) (hg : d1.infra = .ok g) (hcn : c < n) :
    ChainOk t d1 (emisLoop g c (n - c) ++ [.wrCount n]) ∧
    applyAll (emisLoop g c (n - c) ++ [.wrCount n]) d1 =
      { d1 with emis := fun j => if c ≤ j ∧ j < n then .ok g else d1.emis j, count := .ok n } := by
  obtain ⟨m1, m2, e⟩ := hi c st g hc hh hg
  constructor
  · rw [chain_append]
    refine ⟨chain_emisLoop t g _ c d1 ?_, ?_, trivial⟩
    · intro c' hc'
      rw [hc] at hc'
      cases hc'
      exact Nat.le_refl _
    · intro st' g' hh' hg'
      simp only [applyAll_emisLoop] at hh' hg'
      rw [hh] at hh'
      rw [hg] at hg'
      cases hh'
      cases hg'
      refine ⟨m1, m2, ?_⟩
      intro i hin
      simp only [applyAll_emisLoop]
      by_cases hic : c ≤ i
      · have : c ≤ i ∧ i < c + (n - c) := by omega
        rw [if_pos this]
      · have : ¬ (c ≤ i ∧ i < c + (n - c)) := by omega
        rw [if_neg this]
        exact e i (by omega)
  · simp only [applyAll_append, applyAll_cons, applyAll_nil, Step.apply, applyAll_emisLoop]
    cases d1
    simp only [Disk.mk.injEq, true_and, and_true]
    funext j
    have : (c ≤ j ∧ j < c + (n - c)) ↔ (c ≤ j ∧ j < n) := by omega
    simp [this]

/-- the folder after a completed run -/
structure Valid (t : Tbl) (vv : VV) (g : Gen) (n : Nat) (d : Disk) : Prop where
  seeds : ∃ m, d.seeds = .ok m ∧ n ≤ m
  hashes : ∃ st, d.hashes = .ok st ∧ hashesMatch t st vv = true
  infra : d.infra = .ok g
  count : ∃ c, d.count = .ok c ∧ n ≤ c ∧ ∀ i, i < c → d.emis i = .ok g
  ts : d.ts = .ok ()
  cur : g.vv = vv

/-- what the infrastructure + emission stages establish, started on folder `d1` -/
def MidPost (t : Tbl) (vv : VV) (n : Nat) (d1 : Disk) (l : List Step) (mem : Gen) : Prop :=
  ChainOk t d1 l ∧
  (applyAll l d1).seeds = d1.seeds ∧
  (applyAll l d1).ts = d1.ts ∧
  (∃ st, (applyAll l d1).hashes = .ok st ∧ hashesMatch t st vv = true) ∧
  (applyAll l d1).infra = .ok mem ∧
  (∃ c, (applyAll l d1).count = .ok c ∧ n ≤ c ∧ ∀ i, i < c → (applyAll l d1).emis i = .ok mem) ∧
  mem.vv = vv

theorem mid_spec (t : Tbl) (ok : TblOK t) (vv : VV) (gid n : Nat) (force : Bool) (d : Disk)
    (x : FileSt Nat) (hi : Inv t d) (s2 : List Step) (mem : Gen) (hfe : Bool) (s3 : List Step)
    (h2 : infraStage t vv gid force d = some (s2, mem, hfe))
    (h3 : emisStage t n hfe mem d = some s3) :
    MidPost t vv n { d with seeds := x } (s2 ++ s3) mem := by
  have regen : ∀ (hashed : List (String × Input)) (ops : List IOp), hashed = t.hashedFresh →
      ops = safeIOps → s2 = instIOps ops (storeOf hashed vv) ⟨vv, gid⟩ d → mem = ⟨vv, gid⟩ →
      hfe = false → MidPost t vv n { d with seeds := x } (s2 ++ s3) mem := by
    intro hashed ops e1 e2 e3 e4 e5
    subst e1 e2 e3 e4 e5
    simp only [emisStage, Bool.false_eq_true, if_false, Option.some.injEq] at h3
    subst h3
    rw [ok.emisRegen, instIOps_safe, instPhases_safe]
    obtain ⟨c1, c2⟩ := regen_spec t ok vv gid n { d with seeds := x } d.count.present rfl
    simp only [Nat.sub_zero]
    refine ⟨c1, ?_⟩
    rw [c2]
    refine ⟨rfl, rfl, ⟨_, rfl, match_self t ok vv⟩, rfl, ⟨n, rfl, Nat.le_refl _, ?_⟩, rfl⟩
    intro i hi
    simp [hi]
  unfold infraStage at h2
  split at h2
  · simp only [Option.some.injEq, Prod.mk.injEq] at h2
    exact regen _ _ rfl ok.freshOps h2.1.symm h2.2.1.symm h2.2.2.symm
  · rename_i hreq
    split at h2
    · rename_i st hst
      split at h2
      · rename_i hm
        split at h2
        · rename_i g hg
          simp only [Option.some.injEq, Prod.mk.injEq] at h2
          obtain ⟨rfl, rfl, rfl⟩ := h2
          simp only [emisStage, if_true] at h3
          split at h3
          · rename_i c hc
            simp only [Option.some.injEq] at h3
            obtain ⟨m1, m2, e⟩ := hi c st g hc hst hg
            have hcur : g.vv = vv := m2 vv hm
            by_cases hcn : c < n
            · simp only [hcn, if_true] at h3
              subst h3
              rw [ok.emisExtend, instPhases_safe, List.nil_append]
              have hi1 : Inv t { d with seeds := x } := hi
              obtain ⟨c1, c2⟩ := extend_spec t { d with seeds := x } hi1 c n st g hc hst hg hcn
              refine ⟨c1, ?_⟩
              rw [c2]
              refine ⟨rfl, rfl, ⟨st, hst, hm⟩, hg, ⟨n, rfl, Nat.le_refl _, ?_⟩, hcur⟩
              intro i hin
              by_cases hic : c ≤ i
              · simp [hic, hin]
              · have : ¬ (c ≤ i ∧ i < n) := by omega
                simp only [this, if_false]
                exact e i (by omega)
            · simp only [hcn, if_false] at h3
              subst h3
              refine ⟨trivial, rfl, rfl, ⟨st, hst, hm⟩, hg, ⟨c, hc, by omega, e⟩, hcur⟩
          · simp at h3
        · simp at h2
      · simp only [Option.some.injEq, Prod.mk.injEq] at h2
        exact regen _ _ ok.sameHashed ok.regenOps h2.1.symm h2.2.1.symm h2.2.2.symm
    · simp at h2

theorem seeds_spec (t : Tbl) (n : Nat) (d : Disk) (s1 : List Step) (force : Bool)
    (h : seedsStage n d = some (s1, force)) :
    ∃ m, applyAll s1 d = { d with seeds := .ok m } ∧ n ≤ m ∧ ChainOk t d s1 := by
  unfold seedsStage at h
  split at h
  · simp at h
  · simp only [Option.some.injEq, Prod.mk.injEq] at h
    obtain ⟨rfl, _⟩ := h
    exact ⟨n, rfl, Nat.le_refl _, trivial, trivial⟩
  · rename_i m hm
    simp only [Option.some.injEq, Prod.mk.injEq] at h
    obtain ⟨rfl, _⟩ := h
    by_cases hmn : m < n
    · simp only [hmn, if_true]
      exact ⟨n, rfl, Nat.le_refl _, trivial, trivial⟩
    · simp only [hmn, if_false]
      refine ⟨m, ?_, by omega, trivial⟩
      cases d
      simp_all

theorem infra_hfe_nil (t : Tbl) (vv : VV) (gid : Nat) (force : Bool) (d : Disk) (s2 : List Step)
    (mem : Gen) (h : infraStage t vv gid force d = some (s2, mem, true)) : s2 = [] := by
  unfold infraStage at h
  split at h
  · simp at h
  · split at h
    · split at h
      · split at h
        · simp only [Option.some.injEq, Prod.mk.injEq] at h
          exact h.1.symm
        · simp at h
      · simp at h
    · simp at h

theorem plan_spec (t : Tbl) (ok : TblOK t) (vv : VV) (gid n : Nat) (d : Disk) (hi : Inv t d) :
    ChainOk t d (plan t vv gid n d).steps ∧
    ∀ g, (plan t vv gid n d).outcome = some g →
      Valid t vv g n (applyAll (plan t vv gid n d).steps d) := by
  cases h1 : seedsStage n d with
  | none => simp only [plan, h1]; exact ⟨trivial, by simp⟩
  | some r1 =>
    obtain ⟨s1, force⟩ := r1
    obtain ⟨m, e1, hm, c1⟩ := seeds_spec t n d s1 force h1
    cases h2 : infraStage t vv gid force d with
    | none => simp only [plan, h1, h2]; exact ⟨c1, by simp⟩
    | some r2 =>
      obtain ⟨s2, mem, hfe⟩ := r2
      cases h3 : emisStage t n hfe mem d with
      | none =>
        have : hfe = true := by
          cases hfe with
          | true => rfl
          | false => simp [emisStage] at h3
        subst this
        have := infra_hfe_nil t vv gid force d s2 mem h2
        subst this
        simp only [plan, h1, h2, h3, List.append_nil]
        exact ⟨c1, by simp⟩
      | some s3 =>
        obtain ⟨m1, m2, m3, m4, m5, m6, m7⟩ :=
          mid_spec t ok vv gid n force d (.ok m) hi s2 mem hfe s3 h2 h3
        have c123 : ChainOk t d (s1 ++ s2 ++ s3) := by
          rw [List.append_assoc, chain_append, e1]
          exact ⟨c1, m1⟩
        have e123 : applyAll (s1 ++ s2 ++ s3) d =
            applyAll (s2 ++ s3) { d with seeds := .ok m } := by
          rw [List.append_assoc, applyAll_append, e1]
        cases h4 : tsStage d with
        | none => simp only [plan, h1, h2, h3, h4]; exact ⟨c123, by simp⟩
        | some s4 =>
          simp only [plan, h1, h2, h3, h4]
          unfold tsStage at h4
          split at h4
          · simp at h4
          · rename_i u hu
            simp only [Option.some.injEq] at h4
            subst h4
            simp only [List.append_nil, Option.some.injEq]
            refine ⟨c123, ?_⟩
            intro g hg
            subst hg
            rw [e123]
            exact ⟨⟨m, m2, hm⟩, m4, m5, m6, by rw [m3]; exact hu, m7⟩
          · rename_i hu
            simp only [Option.some.injEq] at h4
            subst h4
            simp only [Option.some.injEq]
            refine ⟨?_, ?_⟩
            · rw [chain_append]
              exact ⟨c123, trivial, trivial⟩
            · intro g hg
              subst hg
              rw [applyAll_append, e123]
              exact ⟨⟨m, m2, hm⟩, m4, m5, m6, rfl, m7⟩

/-! ### histories -/

theorem inv_exec (t : Tbl) (ok : TblOK t) (s : St) (op : Op) (hi : Inv t s.disk) :
    Inv t (exec t s op).disk := by
  cases op with
  | edit k v => exact hi
  | run n =>
    exact chain_inv t _ _ hi (plan_spec t ok s.vv s.gid n s.disk hi).1
  | crash n k =>
    exact chain_crash t _ k _ hi (plan_spec t ok s.vv s.gid n s.disk hi).1
  | tear n k =>
    exact chain_tear t _ k _ hi (plan_spec t ok s.vv s.gid n s.disk hi).1
  | del f =>
    exact step_inv t s.disk (.rm f) hi trivial

theorem inv_init (t : Tbl) : Inv t St.init.disk := by
  intro c st g hc
  simp [St.init, Disk.empty] at hc

theorem inv_execAll (t : Tbl) (ok : TblOK t) (h : List Op) (s : St) (hi : Inv t s.disk) :
    Inv t (execAll t s h).disk := by
  induction h generalizing s with
  | nil => exact hi
  | cons op rest ih => exact ih _ (inv_exec t ok s op hi)

/-- steps that would overwrite or remove something an earlier run with `n0` simulations relies on -/
def Step.touchesOld (n0 : Nat) : Step → Bool
  | .wrEmis i _ => decide (i < n0)
  | .wrHashes _ => true
  | .wrInfra _ => true
  | .rm _ => true
  | _ => false

theorem emisLoop_touches (g : Gen) (cnt lo n0 : Nat) (h : n0 ≤ lo) :
    ∀ s ∈ emisLoop g lo cnt, s.touchesOld n0 = false := by
  induction cnt generalizing lo with
  | zero => simp [emisLoop]
  | succ k ih =>
    intro s hs
    simp only [emisLoop, List.mem_cons] at hs
    rcases hs with rfl | hs
    · simp only [Step.touchesOld, decide_eq_false_iff_not]; omega
    · exact ih (lo + 1) (by omega) s hs

/-- the plan of a run that finds a complete, matching folder: nothing old is touched -/
theorem plan_of_valid (t : Tbl) (ok : TblOK t) (vv : VV) (g : Gen) (n0 n1 gid : Nat) (d : Disk)
    (hv : Valid t vv g n0 d) :
    (plan t vv gid n1 d).outcome = some g ∧
    ∀ s ∈ (plan t vv gid n1 d).steps, s.touchesOld n0 = false := by
  obtain ⟨⟨m, hs, hm⟩, ⟨st, hh, hmatch⟩, hg, ⟨c, hc, hnc, he⟩, hts, hcur⟩ := hv
  have hpres : t.required.all d.present = true := by
    simp only [List.all_eq_true]
    intro f _
    cases f <;> simp [Disk.present, FileSt.present, hs, hh, hg, hc, hts]
  have h1 : seedsStage n1 d = some (if m < n1 then [.wrSeeds n1] else [], false) := by
    simp [seedsStage, hs]
  have h2 : infraStage t vv gid false d = some ([], g, true) := by
    simp [infraStage, hpres, hh, hmatch, hg]
  have h3 : emisStage t n1 true g d = some (if c < n1 then instPhases t.emisExtend g c n1 else []) := by
    simp [emisStage, hc]
  have h4 : tsStage d = some [] := by
    simp [tsStage, hts]
  simp only [plan, h1, h2, h3, h4, List.append_nil, true_and]
  intro s hs'
  simp only [List.mem_append] at hs'
  rcases hs' with hs' | hs'
  · by_cases hmn : m < n1
    · simp only [hmn, if_true, List.mem_singleton] at hs'
      subst hs'
      rfl
    · simp [hmn] at hs'
  · by_cases hcn : c < n1
    · simp only [hcn, if_true, ok.emisExtend, instPhases_safe, List.mem_append,
        List.mem_singleton] at hs'
      rcases hs' with hs' | rfl
      · exact emisLoop_touches g _ c n0 hnc s hs'
      · rfl
    · simp [hcn] at hs'

end LdarModel.Cache
