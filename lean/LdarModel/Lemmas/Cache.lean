import LdarModel.Model.Cache
/-
Helper lemmas for C17: hash dictionary lookups, closed form of the emission-file loop, the
invariant of the generator folder and its preservation by every prefix of every run.
-/
namespace LdarModel.Cache

/-! ### version vectors and the hash dictionary -/

theorem VV.ext_get {a b : VV} (h : ∀ i, a.get i = b.get i) : a = b := by
  cases a; cases b
  have h1 := h .site; have h2 := h .siteType; have h3 := h .equip; have h4 := h .source
  have h5 := h .emisRate; have h6 := h .repairDelay; have h7 := h .vw; have h8 := h .prog
  simp only [VV.get] at h1 h2 h3 h4 h5 h6 h7 h8
  simp [*]

theorem lookup_storeOf (hashed : List (String × Input)) (vv : VV) (k : String) (i : Input)
    (nd : (hashed.map (·.1)).Nodup) (hm : (k, i) ∈ hashed) :
    (storeOf hashed vv).lookup k = some (vv.get i) := by
  induction hashed with
  | nil => cases hm
  | cons p rest ih =>
    obtain ⟨k', i'⟩ := p
    simp only [List.map_cons, List.nodup_cons, List.mem_map] at nd
    simp only [storeOf, List.map_cons, List.lookup_cons]
    rcases List.mem_cons.mp hm with h | h
    · cases h
      simp
    · have hne : k ≠ k' := by
        intro e
        exact nd.1 ⟨(k, i), h, e⟩
      have : (k == k') = false := by simpa using hne
      simp only [this]
      exact ih nd.2 h

/-- what the theorems need from the extracted table: the two table obligations of the design
(`defining ⊆ hashed`, `hashed = compared`) plus the write order / reuse condition of the repaired
code -/
structure TblOK (t : Tbl) : Prop where
  nodup : (t.hashedFresh.map (·.1)).Nodup
  sameHashed : t.hashedRegen = t.hashedFresh
  defining : ∀ i : Input, ∃ k, (k, i) ∈ t.hashedFresh
  hashedCompared : ∀ p, p ∈ t.hashedFresh → p ∈ t.compared
  comparedHashed : ∀ p, p ∈ t.compared → p ∈ t.hashedFresh
  countRequired : FileId.count ∈ t.required
  hashesRequired : FileId.hashes ∈ t.required
  infraRequired : FileId.infra ∈ t.required
  tsExact : t.tsExact = true
  /-- both generation loops call `generate_emissions` alike -/
  extendSame : t.extendSameArgs = true
  /-- every preseed is a fresh draw (the stream is not restarted) -/
  seedFresh : t.seedRestart = false
  /-- the hashed view determines every defining input -/
  viewInj : ∀ (k : Input) (a b : Nat), t.view k a = t.view k b → a = b
  freshOps : t.freshOps = safeIOps
  regenOps : t.regenOps = safeIOps
  emisRegen : t.emisRegen = safePhases
  emisExtend : t.emisExtend = safePhases

/-- decidable form of `TblOK`, evaluated on the extracted table by `decide` -/
def Tbl.okB (t : Tbl) : Bool :=
  decide ((t.hashedFresh.map (·.1)).Nodup) && decide (t.hashedRegen = t.hashedFresh)
  && Input.all.all (fun i => t.hashedFresh.any (fun p => p.2 == i))
  && t.hashedFresh.all (fun p => t.compared.contains p)
  && t.compared.all (fun p => t.hashedFresh.contains p)
  && t.required.contains .count && t.required.contains .hashes && t.required.contains .infra
  && t.tsExact && t.extendSameArgs && !t.seedRestart && t.hashWholeFile && !t.vwKeysRemoved && !t.progKeysRemoved
  && decide (t.freshOps = safeIOps) && decide (t.regenOps = safeIOps)
  && decide (t.emisRegen = safePhases) && decide (t.emisExtend = safePhases)

theorem Input.mem_all (i : Input) : i ∈ Input.all := by
  cases i <;> simp [Input.all]

theorem Tbl.ok_of_okB (t : Tbl) (h : t.okB = true) : TblOK t := by
  simp only [Tbl.okB, Bool.and_eq_true, decide_eq_true_eq, List.all_eq_true, List.any_eq_true,
    List.contains_iff_mem, beq_iff_eq] at h
  obtain ⟨⟨⟨⟨⟨⟨⟨⟨⟨⟨⟨⟨⟨⟨⟨⟨⟨h1, h2⟩, h3⟩, h4⟩, h5⟩, h6⟩, h6a⟩, h6b⟩, h6c⟩, vx⟩, v0⟩, v1⟩, v2⟩, v3⟩, h7⟩, h8⟩, h9⟩, h10⟩ := h
  refine ⟨h1, h2, ?_, h4, h5, h6, h6a, h6b, h6c, vx, by simpa using v0, ?_, h7, h8, h9, h10⟩
  rotate_left
  · intro k a b hab
    have v2' : t.vwKeysRemoved = false := by simpa using v2
    have v3' : t.progKeysRemoved = false := by simpa using v3
    cases k <;> simpa [Tbl.view, v1, v2', v3'] using hab
  intro i
  obtain ⟨p, hp, e⟩ := h3 i (Input.mem_all i)
  exact ⟨p.1, by cases p; simp_all⟩

theorem viewVV_get (t : Tbl) (vv : VV) (i : Input) : (t.viewVV vv).get i = t.view i (vv.get i) := by
  cases i <;> rfl

theorem match_self (t : Tbl) (ok : TblOK t) (vv : VV) :
    hashesMatch t (storeOf t.hashedFresh (t.viewVV vv)) vv = true := by
  simp only [hashesMatch, List.all_eq_true]
  intro p hp
  have := lookup_storeOf t.hashedFresh (t.viewVV vv) p.1 p.2 ok.nodup (ok.comparedHashed p hp)
  simp [this]

theorem match_inj (t : Tbl) (ok : TblOK t) (vv vv' : VV)
    (h : hashesMatch t (storeOf t.hashedFresh (t.viewVV vv)) vv' = true) : vv = vv' := by
  apply VV.ext_get
  intro i
  obtain ⟨k, hk⟩ := ok.defining i
  simp only [hashesMatch, List.all_eq_true] at h
  have h1 := h (k, i) (ok.hashedCompared _ hk)
  have h2 := lookup_storeOf t.hashedFresh (t.viewVV vv) k i ok.nodup hk
  simp only [h2, viewVV_get] at h1
  exact ok.viewInj i _ _ (by simpa using h1)

/-! ### steps -/

@[simp] theorem applyAll_nil (d : Disk) : applyAll [] d = d := rfl
@[simp] theorem applyAll_cons (s : Step) (l : List Step) (d : Disk) :
    applyAll (s :: l) d = applyAll l (s.apply d) := rfl
theorem applyAll_append (a b : List Step) (d : Disk) :
    applyAll (a ++ b) d = applyAll b (applyAll a d) := by
  simp [applyAll, List.foldl_append]

/-- closed form of the emission-file loop -/
theorem applyAll_emisLoop (g : Gen) (cnt lo : Nat) (d : Disk) :
    applyAll (emisLoop g lo cnt) d =
      { d with emis := fun j => if lo ≤ j ∧ j < lo + cnt then .ok g else d.emis j } := by
  induction cnt generalizing lo d with
  | zero =>
    simp only [emisLoop, applyAll_nil]
    cases d
    simp only [Disk.mk.injEq, true_and, and_true]
    funext j
    have : ¬ (lo ≤ j ∧ j < lo + 0) := by omega
    rw [if_neg this]
  | succ k ih =>
    simp only [emisLoop, applyAll_cons, ih, Step.apply, Disk.setEmis]
    cases d
    simp only [Disk.mk.injEq, true_and, and_true]
    funext j
    by_cases h1 : j = lo
    · subst h1
      have h3 : ¬ (j + 1 ≤ j ∧ j < j + 1 + k) := by omega
      have h2 : j ≤ j ∧ j < j + (k + 1) := by omega
      rw [if_neg h3, if_pos h2, if_pos rfl]
    · by_cases h2 : lo ≤ j ∧ j < lo + (k + 1)
      · have h3 : lo + 1 ≤ j ∧ j < lo + 1 + k := by omega
        rw [if_pos h3, if_pos h2]
      · have h3 : ¬ (lo + 1 ≤ j ∧ j < lo + 1 + k) := by omega
        rw [if_neg h3, if_neg h2, if_neg h1]

/-! ### the invariant -/

/-- an emission file is the scenario of generation `g`; with `w` (the user deleted emission files
somewhere in the history) it may also be missing -/
def Slot (w : Bool) (x : FileSt Gen) (g : Gen) : Prop := x = .ok g ∨ (w = true ∧ x = .absent)

theorem Slot.of_ok (w : Bool) (g : Gen) : Slot w (.ok g) g := Or.inl rfl

/-- whenever the count file, the hash file and the infrastructure file are all readable, the stored
hashes identify exactly the inputs the stored infrastructure was generated from, and the first
`count` emission files were generated by that very infrastructure -/
def Inv (t : Tbl) (w : Bool) (d : Disk) : Prop :=
  ∀ c st g, d.count = .ok c → d.hashes = .ok st → d.infra = .ok g →
    hashesMatch t st g.vv = true ∧ (∀ vv, hashesMatch t st vv = true → g.vv = vv) ∧
    ∀ i, i < c → Slot w (d.emis i) g

/-- local condition under which one step keeps the invariant -/
def StepOk (t : Tbl) (w : Bool) (d : Disk) : Step → Prop
  | .wrCount n => ∀ st g, d.hashes = .ok st → d.infra = .ok g →
      hashesMatch t st g.vv = true ∧ (∀ vv, hashesMatch t st vv = true → g.vv = vv) ∧
      ∀ i, i < n → Slot w (d.emis i) g
  | .wrHashes _ => ∀ c, d.count ≠ .ok c
  | .wrInfra _ => ∀ c, d.count ≠ .ok c
  | .wrEmis i _ => ∀ c, d.count = .ok c → c ≤ i
  | _ => True

theorem step_inv (t : Tbl) (w : Bool) (d : Disk) (s : Step) (hi : Inv t w d) (hs : StepOk t w d s) :
    Inv t w (s.apply d) := by
  cases s with
  | wrSeeds n => exact hi
  | wrTs p => exact hi
  | wrHashes st' =>
    intro c st g hc _ _
    exact absurd hc (hs c)
  | wrInfra g' =>
    intro c st g hc _ _
    exact absurd hc (hs c)
  | wrEmis i g' =>
    intro c st g hc hh hg
    obtain ⟨a, b, e⟩ := hi c st g hc hh hg
    refine ⟨a, b, ?_⟩
    intro j hj
    have : c ≤ i := hs c hc
    have hne : j ≠ i := by omega
    simp only [Step.apply, Disk.setEmis, hne, if_false]
    exact e j hj
  | wrCount n =>
    intro c st g hc hh hg
    simp only [Step.apply, FileSt.ok.injEq] at hc
    subst hc
    exact hs st g hh hg
  | rm f =>
    cases f with
    | seeds => exact hi
    | ts => exact hi
    | hashes => intro c st g _ hh _; simp [Step.apply, Disk.remove] at hh
    | infra => intro c st g _ _ hg; simp [Step.apply, Disk.remove] at hg
    | count => intro c st g hc _ _; simp [Step.apply, Disk.remove] at hc

theorem tear_inv (t : Tbl) (w : Bool) (d : Disk) (s : Step) (hi : Inv t w d) (hs : StepOk t w d s) :
    Inv t w (s.tear d) := by
  cases s with
  | wrSeeds n => exact hi
  | wrTs p => exact hi
  | rm f => exact hi
  | wrHashes st' => intro c st g _ hh _; simp [Step.tear] at hh
  | wrInfra g' => intro c st g _ _ hg; simp [Step.tear] at hg
  | wrCount n => intro c st g hc _ _; simp [Step.tear] at hc
  | wrEmis i g' =>
    intro c st g hc hh hg
    obtain ⟨a, b, e⟩ := hi c st g hc hh hg
    refine ⟨a, b, ?_⟩
    intro j hj
    have : c ≤ i := hs c hc
    have hne : j ≠ i := by omega
    simp only [Step.tear, Disk.setEmis, hne, if_false]
    exact e j hj

/-- every step of the list is fine at the folder it is applied to -/
def ChainOk (t : Tbl) (w : Bool) : Disk → List Step → Prop
  | _, [] => True
  | d, s :: rest => StepOk t w d s ∧ ChainOk t w (s.apply d) rest

theorem chain_append (t : Tbl) (w : Bool) (a b : List Step) (d : Disk) :
    ChainOk t w d (a ++ b) ↔ ChainOk t w d a ∧ ChainOk t w (applyAll a d) b := by
  induction a generalizing d with
  | nil => simp [ChainOk]
  | cons s rest ih => simp [ChainOk, ih, and_assoc]

theorem chain_inv (t : Tbl) (w : Bool) (l : List Step) (d : Disk) (hi : Inv t w d) (hc : ChainOk t w d l) :
    Inv t w (applyAll l d) := by
  induction l generalizing d with
  | nil => exact hi
  | cons s rest ih => exact ih _ (step_inv t w d s hi hc.1) hc.2

theorem chain_take (t : Tbl) (w : Bool) (l : List Step) (k : Nat) (d : Disk) (hc : ChainOk t w d l) :
    ChainOk t w d (l.take k) := by
  induction l generalizing d k with
  | nil => simp [ChainOk]
  | cons s rest ih =>
    cases k with
    | zero => simp [ChainOk]
    | succ k => exact ⟨hc.1, ih k _ hc.2⟩

theorem chain_get (t : Tbl) (w : Bool) (l : List Step) (k : Nat) (s : Step) (d : Disk) (hc : ChainOk t w d l)
    (hk : l[k]? = some s) : StepOk t w (applyAll (l.take k) d) s := by
  induction l generalizing d k with
  | nil => simp at hk
  | cons s' rest ih =>
    cases k with
    | zero =>
      simp only [List.getElem?_cons_zero, Option.some.injEq] at hk
      subst hk
      exact hc.1
    | succ k =>
      simp only [List.getElem?_cons_succ] at hk
      exact ih k _ hc.2 hk

/-- a crash before any step, or inside the `pickle.dump` of any step, keeps the invariant -/
theorem chain_crash (t : Tbl) (w : Bool) (l : List Step) (k : Nat) (d : Disk) (hi : Inv t w d)
    (hc : ChainOk t w d l) : Inv t w (applyAll (l.take k) d) :=
  chain_inv t w _ d hi (chain_take t w l k d hc)

theorem chain_tear (t : Tbl) (w : Bool) (l : List Step) (k : Nat) (d : Disk) (hi : Inv t w d)
    (hc : ChainOk t w d l) : Inv t w (tearAt l k d) := by
  unfold tearAt
  cases h : l[k]? with
  | none => exact chain_inv t w l d hi hc
  | some s => exact tear_inv t w _ s (chain_crash t w l k d hi hc) (chain_get t w l k s d hc h)

theorem chain_emisLoop (t : Tbl) (w : Bool) (g : Gen) (cnt lo : Nat) (d : Disk)
    (h : ∀ c, d.count = .ok c → c ≤ lo) : ChainOk t w d (emisLoop g lo cnt) := by
  induction cnt generalizing lo d with
  | zero => simp [emisLoop, ChainOk]
  | succ k ih =>
    refine ⟨h, ih (lo + 1) _ ?_⟩
    intro c hc
    have := h c hc
    omega

/-! ### one run, stage by stage -/

theorem FileSt.present_false {α} (f : FileSt α) (h : f.present = false) : f = .absent := by
  cases f <;> simp_all [FileSt.present]

theorem instIOps_safe (st : Store) (g : Gen) (d : Disk) :
    instIOps safeIOps st g d =
      (if d.count.present then [Step.rm .count] else []) ++ [.wrHashes st, .wrInfra g] := by
  by_cases h : d.count.present = true <;> simp [instIOps, safeIOps, Disk.present, h]

theorem instPhases_safe (g : Gen) (lo n : Nat) :
    instPhases safePhases g lo n = emisLoop g lo (n - lo) ++ [.wrCount n] := by
  simp [instPhases, safePhases]

/-- regenerating branch: count invalidated, hashes, infrastructure, all emission files, count -/
theorem regen_spec (t : Tbl) (w : Bool) (ok : TblOK t) (vv : VV) (gid n : Nat) (d1 : Disk) (b : Bool)
    (hb : b = d1.count.present) :
    ChainOk t w d1 ((if b then [Step.rm .count] else []) ++
        [.wrHashes (storeOf t.hashedFresh (t.viewVV vv)), .wrInfra ⟨vv, gid⟩] ++
        (emisLoop ⟨vv, gid⟩ 0 n ++ [.wrCount n])) ∧
    applyAll ((if b then [Step.rm .count] else []) ++
        [.wrHashes (storeOf t.hashedFresh (t.viewVV vv)), .wrInfra ⟨vv, gid⟩] ++
        (emisLoop ⟨vv, gid⟩ 0 n ++ [.wrCount n])) d1 =
      { d1 with hashes := .ok (storeOf t.hashedFresh (t.viewVV vv)), infra := .ok ⟨vv, gid⟩,
                emis := fun j => if j < n then .ok ⟨vv, gid⟩ else d1.emis j, count := .ok n } := by
  have hcount : ∀ c, (applyAll (if b then [Step.rm .count] else []) d1).count ≠ .ok c := by
    intro c
    cases b with
    | true => simp [Step.apply, Disk.remove]
    | false =>
      have := FileSt.present_false _ hb.symm
      simp [this]
  have hrest : ∀ (d2 : Disk), (∀ c, d2.count ≠ .ok c) →
      ChainOk t w d2 ([.wrHashes (storeOf t.hashedFresh (t.viewVV vv)), .wrInfra ⟨vv, gid⟩] ++
        (emisLoop ⟨vv, gid⟩ 0 n ++ [.wrCount n])) ∧
      applyAll ([.wrHashes (storeOf t.hashedFresh (t.viewVV vv)), .wrInfra ⟨vv, gid⟩] ++
        (emisLoop ⟨vv, gid⟩ 0 n ++ [.wrCount n])) d2 =
        { d2 with hashes := .ok (storeOf t.hashedFresh (t.viewVV vv)), infra := .ok ⟨vv, gid⟩,
                  emis := fun j => if j < n then .ok ⟨vv, gid⟩ else d2.emis j, count := .ok n } := by
    intro d2 h2
    constructor
    · rw [chain_append, chain_append]
      refine ⟨⟨h2, fun c => ?_, trivial⟩, ?_, ?_⟩
      · simpa [Step.apply] using h2 c
      · apply chain_emisLoop
        intro c hc
        simp only [applyAll_cons, applyAll_nil, Step.apply] at hc
        exact absurd hc (h2 c)
      · refine ⟨?_, trivial⟩
        intro st g hh hg
        simp only [applyAll_cons, applyAll_nil, Step.apply, applyAll_emisLoop,
          FileSt.ok.injEq] at hh hg
        subst hh
        subst hg
        refine ⟨match_self t ok vv, fun vv' h => match_inj t ok vv vv' h, ?_⟩
        intro i hi
        simp only [applyAll_cons, applyAll_nil, Step.apply, applyAll_emisLoop]
        have : 0 ≤ i ∧ i < 0 + n := by omega
        rw [if_pos this]
        exact Slot.of_ok w _
    · simp only [applyAll_append, applyAll_cons, applyAll_nil, Step.apply, applyAll_emisLoop]
      cases d2
      simp only [Disk.mk.injEq, true_and, and_true]
      funext j
      by_cases hj : j < n
      · have : 0 ≤ j ∧ j < 0 + n := by omega
        rw [if_pos this, if_pos hj]
      · have : ¬ (0 ≤ j ∧ j < 0 + n) := by omega
        rw [if_neg this, if_neg hj]
  rw [List.append_assoc, chain_append, applyAll_append]
  obtain ⟨c1, c2⟩ := hrest _ hcount
  refine ⟨⟨?_, c1⟩, ?_⟩
  · cases b <;> simp [ChainOk, StepOk]
  · rw [c2]
    cases b with
    | true => simp [Step.apply, Disk.remove]
    | false => simp

/-- add-simulations branch on a folder that satisfies the invariant -/
theorem extend_spec (t : Tbl) (w : Bool) (d1 : Disk) (hi : Inv t w d1) (c n : Nat) (st : Store) (g : Gen)
    (hc : d1.count = .ok c) (hh : d1.hashes = .ok st) (hg : d1.infra = .ok g) (hcn : c < n) :
    ChainOk t w d1 (emisLoop g c (n - c) ++ [.wrCount n]) ∧
    applyAll (emisLoop g c (n - c) ++ [.wrCount n]) d1 =
      { d1 with emis := fun j => if c ≤ j ∧ j < n then .ok g else d1.emis j, count := .ok n } := by
  obtain ⟨m1, m2, e⟩ := hi c st g hc hh hg
  constructor
  · rw [chain_append]
    refine ⟨chain_emisLoop t w g _ c d1 ?_, ?_, trivial⟩
    · intro c' hc'
      rw [hc] at hc'
      cases hc'
      exact Nat.le_refl _
    · intro st' g' hh' hg'
      simp only [applyAll_emisLoop] at hh' hg'
      rw [hh] at hh'
      rw [hg] at hg'
      cases hh'
      cases hg'
      refine ⟨m1, m2, ?_⟩
      intro i hin
      simp only [applyAll_emisLoop]
      by_cases hic : c ≤ i
      · have : c ≤ i ∧ i < c + (n - c) := by omega
        rw [if_pos this]
        exact Slot.of_ok w _
      · have : ¬ (c ≤ i ∧ i < c + (n - c)) := by omega
        rw [if_neg this]
        exact e i (by omega)
  · simp only [applyAll_append, applyAll_cons, applyAll_nil, Step.apply, applyAll_emisLoop]
    cases d1
    simp only [Disk.mk.injEq, true_and, and_true]
    funext j
    have : (c ≤ j ∧ j < c + (n - c)) ↔ (c ≤ j ∧ j < n) := by omega
    simp [this]

/-- the folder after a completed run -/
structure Valid (t : Tbl) (w : Bool) (vv : VV) (g : Gen) (n : Nat) (d : Disk) : Prop where
  seeds : ∃ m : List Draw, d.seeds = .ok m ∧ n ≤ m.length
  hashes : ∃ st, d.hashes = .ok st ∧ hashesMatch t st vv = true
  infra : d.infra = .ok g
  count : ∃ c, d.count = .ok c ∧ n ≤ c ∧ ∀ i, i < c → Slot w (d.emis i) g
  ts : d.ts = .ok (t.periodOf vv.vw)
  cur : g.vv = vv

/-- what the infrastructure + emission stages establish, started on folder `d1` -/
def MidPost (t : Tbl) (w : Bool) (vv : VV) (n : Nat) (d1 : Disk) (l : List Step) (mem : Gen) : Prop :=
  ChainOk t w d1 l ∧
  (applyAll l d1).seeds = d1.seeds ∧
  (applyAll l d1).ts = d1.ts ∧
  (∃ st, (applyAll l d1).hashes = .ok st ∧ hashesMatch t st vv = true) ∧
  (applyAll l d1).infra = .ok mem ∧
  (∃ c, (applyAll l d1).count = .ok c ∧ n ≤ c ∧ ∀ i, i < c → Slot w ((applyAll l d1).emis i) mem) ∧
  mem.vv = vv

theorem mid_spec (t : Tbl) (w : Bool) (ok : TblOK t) (vv : VV) (gid n : Nat) (force : Bool) (d : Disk)
    (x : FileSt (List Draw)) (hi : Inv t w d) (s2 : List Step) (mem : Gen) (hfe : Bool) (s3 : List Step)
    (h2 : infraStage t vv gid force d = some (s2, mem, hfe))
    (h3 : emisStage t n hfe mem d = some s3) :
    MidPost t w vv n { d with seeds := x } (s2 ++ s3) mem := by
  have regen : ∀ (hashed : List (String × Input)) (ops : List IOp), hashed = t.hashedFresh →
      ops = safeIOps → s2 = instIOps ops (storeOf hashed (t.viewVV vv)) ⟨vv, gid⟩ d → mem = ⟨vv, gid⟩ →
      hfe = false → MidPost t w vv n { d with seeds := x } (s2 ++ s3) mem := by
    intro hashed ops e1 e2 e3 e4 e5
    subst e1 e2 e3 e4 e5
    simp only [emisStage, Bool.false_eq_true, if_false, Option.some.injEq] at h3
    subst h3
    rw [ok.emisRegen, instIOps_safe, instPhases_safe]
    obtain ⟨c1, c2⟩ := regen_spec t w ok vv gid n { d with seeds := x } d.count.present rfl
    simp only [Nat.sub_zero]
    refine ⟨c1, ?_⟩
    rw [c2]
    refine ⟨rfl, rfl, ⟨_, rfl, match_self t ok vv⟩, rfl, ⟨n, rfl, Nat.le_refl _, ?_⟩, rfl⟩
    intro i hi
    simp only [hi, if_true]
    exact Slot.of_ok w _
  unfold infraStage at h2
  split at h2
  · simp only [Option.some.injEq, Prod.mk.injEq] at h2
    exact regen _ _ rfl ok.freshOps h2.1.symm h2.2.1.symm h2.2.2.symm
  · rename_i hreq
    split at h2
    · rename_i st hst
      split at h2
      · rename_i hm
        split at h2
        · rename_i g hg
          simp only [Option.some.injEq, Prod.mk.injEq] at h2
          obtain ⟨rfl, rfl, rfl⟩ := h2
          simp only [emisStage, if_true, extendGen, ok.extendSame] at h3
          split at h3
          · rename_i c hc
            simp only [Option.some.injEq] at h3
            obtain ⟨m1, m2, e⟩ := hi c st g hc hst hg
            have hcur : g.vv = vv := m2 vv hm
            by_cases hcn : c < n
            · simp only [hcn, if_true] at h3
              subst h3
              rw [ok.emisExtend, instPhases_safe, List.nil_append]
              have hi1 : Inv t w { d with seeds := x } := hi
              obtain ⟨c1, c2⟩ := extend_spec t w { d with seeds := x } hi1 c n st g hc hst hg hcn
              refine ⟨c1, ?_⟩
              rw [c2]
              refine ⟨rfl, rfl, ⟨st, hst, hm⟩, hg, ⟨n, rfl, Nat.le_refl _, ?_⟩, hcur⟩
              intro i hin
              by_cases hic : c ≤ i
              · simp only [hic, hin, and_self, if_true]
                exact Slot.of_ok w _
              · have : ¬ (c ≤ i ∧ i < n) := by omega
                simp only [this, if_false]
                exact e i (by omega)
            · simp only [hcn, if_false] at h3
              subst h3
              refine ⟨trivial, rfl, rfl, ⟨st, hst, hm⟩, hg, ⟨c, hc, by omega, e⟩, hcur⟩
          · simp at h3
        · simp at h2
      · simp only [Option.some.injEq, Prod.mk.injEq] at h2
        exact regen _ _ ok.sameHashed ok.regenOps h2.1.symm h2.2.1.symm h2.2.2.symm
    · simp at h2

theorem newDraws_length (t : Tbl) (gid cnt k : Nat) : (newDraws t gid k cnt).length = cnt := by
  induction cnt generalizing k with
  | zero => rfl
  | succ c ih => simp [newDraws, ih]

theorem seeds_spec (t : Tbl) (w : Bool) (gid n : Nat) (d : Disk) (s1 : List Step) (force : Bool)
    (h : seedsStage t gid n d = some (s1, force)) :
    ∃ m : List Draw, applyAll s1 d = { d with seeds := .ok m } ∧ n ≤ m.length ∧ ChainOk t w d s1 := by
  unfold seedsStage at h
  split at h
  · simp at h
  · simp only [Option.some.injEq, Prod.mk.injEq] at h
    obtain ⟨rfl, _⟩ := h
    exact ⟨_, rfl, by simp [newDraws_length], trivial, trivial⟩
  · rename_i m hm
    simp only [Option.some.injEq, Prod.mk.injEq] at h
    obtain ⟨rfl, _⟩ := h
    by_cases hmn : m.length < n
    · simp only [hmn, if_true]
      refine ⟨_, rfl, ?_, trivial, trivial⟩
      simp only [List.length_append, newDraws_length]
      omega
    · simp only [hmn, if_false]
      refine ⟨m, ?_, by omega, trivial⟩
      cases d
      simp_all

theorem infra_hfe_nil (t : Tbl) (vv : VV) (gid : Nat) (force : Bool) (d : Disk) (s2 : List Step)
    (mem : Gen) (h : infraStage t vv gid force d = some (s2, mem, true)) : s2 = [] := by
  unfold infraStage at h
  split at h
  · simp at h
  · split at h
    · split at h
      · split at h
        · simp only [Option.some.injEq, Prod.mk.injEq] at h
          exact h.1.symm
        · simp at h
      · simp at h
    · simp at h

/-- the seed-series stage: at most one write, after which the series is the one of the current
period; nothing else changes -/
theorem ts_spec (t : Tbl) (ok : TblOK t) (vv : VV) (d : Disk) (s4 : List Step)
    (h : tsStage t vv d = some s4) :
    (s4 = [] ∨ s4 = [.wrTs (t.periodOf vv.vw)]) ∧
    ∀ d3 : Disk, d3.ts = d.ts →
      (applyAll s4 d3).ts = .ok (t.periodOf vv.vw) ∧ (applyAll s4 d3).seeds = d3.seeds ∧
      (applyAll s4 d3).hashes = d3.hashes ∧ (applyAll s4 d3).infra = d3.infra ∧
      (applyAll s4 d3).emis = d3.emis ∧ (applyAll s4 d3).count = d3.count := by
  unfold tsStage at h
  split at h
  · simp at h
  · rename_i p hp
    simp only [Option.some.injEq] at h
    by_cases hr : tsReuse t p (t.periodOf vv.vw) = true
    · simp only [hr, if_true] at h
      subst h
      refine ⟨Or.inl rfl, ?_⟩
      intro d3 h3
      simp only [applyAll_nil, and_self, and_true]
      rw [h3, hp]
      simp only [tsReuse, ok.tsExact, Bool.not_true, Bool.false_or, Bool.and_eq_true,
        beq_iff_eq] at hr
      congr 1
      exact Prod.ext hr.2 hr.1
    · simp only [hr, if_false] at h
      subst h
      exact ⟨Or.inr rfl, fun d3 _ => ⟨rfl, rfl, rfl, rfl, rfl, rfl⟩⟩
  · simp only [Option.some.injEq] at h
    subst h
    exact ⟨Or.inr rfl, fun d3 _ => ⟨rfl, rfl, rfl, rfl, rfl, rfl⟩⟩

theorem plan_spec (t : Tbl) (w : Bool) (ok : TblOK t) (vv : VV) (gid n : Nat) (d : Disk) (hi : Inv t w d) :
    ChainOk t w d (plan t vv gid n d).steps ∧
    ∀ g, (plan t vv gid n d).outcome = some g →
      Valid t w vv g n (applyAll (plan t vv gid n d).steps d) := by
  cases h1 : seedsStage t gid n d with
  | none => simp only [plan, h1]; exact ⟨trivial, by simp⟩
  | some r1 =>
    obtain ⟨s1, force⟩ := r1
    obtain ⟨m, e1, hm, c1⟩ := seeds_spec t w gid n d s1 force h1
    cases h2 : infraStage t vv gid force d with
    | none => simp only [plan, h1, h2]; exact ⟨c1, by simp⟩
    | some r2 =>
      obtain ⟨s2, mem, hfe⟩ := r2
      cases h3 : emisStage t n hfe mem d with
      | none =>
        have : hfe = true := by
          cases hfe with
          | true => rfl
          | false => simp [emisStage] at h3
        subst this
        have := infra_hfe_nil t vv gid force d s2 mem h2
        subst this
        simp only [plan, h1, h2, h3, List.append_nil]
        exact ⟨c1, by simp⟩
      | some s3 =>
        obtain ⟨m1, m2, m3, m4, m5, m6, m7⟩ :=
          mid_spec t w ok vv gid n force d (.ok m) hi s2 mem hfe s3 h2 h3
        have c123 : ChainOk t w d (s1 ++ s2 ++ s3) := by
          rw [List.append_assoc, chain_append, e1]
          exact ⟨c1, m1⟩
        have e123 : applyAll (s1 ++ s2 ++ s3) d =
            applyAll (s2 ++ s3) { d with seeds := .ok m } := by
          rw [List.append_assoc, applyAll_append, e1]
        cases h4 : tsStage t vv d with
        | none => simp only [plan, h1, h2, h3, h4]; exact ⟨c123, by simp⟩
        | some s4 =>
          simp only [plan, h1, h2, h3, h4]
          obtain ⟨hs4, e4⟩ := ts_spec t ok vv d s4 h4
          refine ⟨?_, ?_⟩
          · rw [chain_append]
            refine ⟨c123, ?_⟩
            rcases hs4 with rfl | rfl
            · trivial
            · exact ⟨trivial, trivial⟩
          · intro g hg
            simp only [Option.some.injEq] at hg
            subst hg
            rw [applyAll_append, e123]
            obtain ⟨t1, t2, t3, t4, t5, t6⟩ := e4 _ m3
            refine ⟨⟨m, by rw [t2]; exact m2, hm⟩, ?_, by rw [t4]; exact m5, ?_, t1, m7⟩
            · rw [t3]; exact m4
            · rw [t6, t5]; exact m6

/-- the infrastructure a completed run holds is either generated by this very run or the one
stored in the folder -/
theorem mem_fresh_or_loaded (t : Tbl) (vv : VV) (gid n : Nat) (d : Disk) (g : Gen)
    (h : (plan t vv gid n d).outcome = some g) : g = ⟨vv, gid⟩ ∨ d.infra = .ok g := by
  unfold plan at h
  split at h
  · simp at h
  · rename_i s1 force h1
    split at h
    · simp at h
    · rename_i s2 mem hfe h2
      split at h
      · simp at h
      · split at h
        · simp at h
        · simp only [Option.some.injEq] at h
          subst h
          unfold infraStage at h2
          split at h2
          · simp only [Option.some.injEq, Prod.mk.injEq] at h2
            exact Or.inl h2.2.1.symm
          · split at h2
            · split at h2
              · split at h2
                · rename_i g' hg'
                  simp only [Option.some.injEq, Prod.mk.injEq] at h2
                  rw [← h2.2.1]
                  exact Or.inr hg'
                · simp at h2
              · simp only [Option.some.injEq, Prod.mk.injEq] at h2
                exact Or.inl h2.2.1.symm
            · simp at h2

/-! ### histories -/

theorem inv_exec (t : Tbl) (w : Bool) (ok : TblOK t) (s : St) (op : Op) (hi : Inv t w s.disk)
    (hw : op.isDelEmis = true → w = true) : Inv t w (exec t s op).disk := by
  cases op with
  | edit k v => exact hi
  | run n =>
    exact chain_inv t w _ _ hi (plan_spec t w ok s.vv s.gid n s.disk hi).1
  | crash n k =>
    exact chain_crash t w _ k _ hi (plan_spec t w ok s.vv s.gid n s.disk hi).1
  | tear n k =>
    exact chain_tear t w _ k _ hi (plan_spec t w ok s.vv s.gid n s.disk hi).1
  | del f =>
    exact step_inv t w s.disk (.rm f) hi trivial
  | delEmis i =>
    have hw' : w = true := hw rfl
    intro c st g hc hh hg
    obtain ⟨a, b, e⟩ := hi c st g hc hh hg
    refine ⟨a, b, ?_⟩
    intro j hj
    simp only [exec, Disk.setEmis]
    by_cases hji : j = i
    · simp only [hji, if_true]
      exact Or.inr ⟨hw', rfl⟩
    · simp only [hji, if_false]
      exact e j hj

theorem inv_init (t : Tbl) (w : Bool) : Inv t w St.init.disk := by
  intro c st g hc
  simp [St.init, Disk.empty] at hc

theorem inv_execAll (t : Tbl) (w : Bool) (ok : TblOK t) (h : List Op) (s : St)
    (hi : Inv t w s.disk) (hw : ∀ op ∈ h, op.isDelEmis = true → w = true) :
    Inv t w (execAll t s h).disk := by
  induction h generalizing s with
  | nil => exact hi
  | cons op rest ih =>
    exact ih _ (inv_exec t w ok s op hi (hw op (by simp))) (fun o ho => hw o (by simp [ho]))

/-- steps that would overwrite or remove something an earlier run with `n0` simulations relies on -/
def Step.touchesOld (n0 : Nat) : Step → Bool
  | .wrEmis i _ => decide (i < n0)
  | .wrHashes _ => true
  | .wrInfra _ => true
  | .rm _ => true
  | _ => false

theorem emisLoop_touches (g : Gen) (cnt lo n0 : Nat) (h : n0 ≤ lo) :
    ∀ s ∈ emisLoop g lo cnt, s.touchesOld n0 = false := by
  induction cnt generalizing lo with
  | zero => simp [emisLoop]
  | succ k ih =>
    intro s hs
    simp only [emisLoop, List.mem_cons] at hs
    rcases hs with rfl | hs
    · simp only [Step.touchesOld, decide_eq_false_iff_not]; omega
    · exact ih (lo + 1) (by omega) s hs

/-- steps of a run on a complete folder of `n0` simulations that keep it complete wherever the run
is cut: no hash / infrastructure write, no removal, seed and count files only grow -/
def Step.benign (n0 : Nat) : Step → Bool
  | .wrSeeds m => decide (n0 ≤ m.length)
  | .wrCount m => decide (n0 ≤ m)
  | .wrEmis _ _ => true
  | _ => false

theorem emisLoop_benign (g : Gen) (cnt lo n0 : Nat) :
    ∀ s ∈ emisLoop g lo cnt, s.benign n0 = true := by
  induction cnt generalizing lo with
  | zero => simp [emisLoop]
  | succ k ih =>
    intro s hs
    simp only [emisLoop, List.mem_cons] at hs
    rcases hs with rfl | hs
    · rfl
    · exact ih (lo + 1) s hs

/-- the plan of a run that finds a complete, matching folder: nothing old is touched -/
theorem plan_of_valid (t : Tbl) (w : Bool) (ok : TblOK t) (vv : VV) (g : Gen) (n0 n1 gid : Nat)
    (d : Disk) (hv : Valid t w vv g n0 d) :
    (plan t vv gid n1 d).outcome = some g ∧
    (∀ s ∈ (plan t vv gid n1 d).steps, s.touchesOld n0 = false) ∧
    (n0 ≤ n1 → ∀ s ∈ (plan t vv gid n1 d).steps, s.benign n0 = true) := by
  obtain ⟨⟨m, hs, hm⟩, ⟨st, hh, hmatch⟩, hg, ⟨c, hc, hnc, he⟩, hts, hcur⟩ := hv
  have hpres : t.required.all d.present = true := by
    simp only [List.all_eq_true]
    intro f _
    cases f <;> simp [Disk.present, FileSt.present, hs, hh, hg, hc, hts]
  have h1 : seedsStage t gid n1 d =
      some (if m.length < n1 then [.wrSeeds (m ++ newDraws t gid 0 (n1 - m.length))] else [], false) := by
    simp [seedsStage, hs]
  have h2 : infraStage t vv gid false d = some ([], g, true) := by
    simp [infraStage, hpres, hh, hmatch, hg]
  have h3 : emisStage t n1 true g d = some (if c < n1 then instPhases t.emisExtend g c n1 else []) := by
    simp [emisStage, hc, extendGen, ok.extendSame]
  have h4 : tsStage t vv d = some [] := by
    simp [tsStage, hts, tsReuse]
  simp only [plan, h1, h2, h3, h4, List.append_nil, true_and]
  refine ⟨?_, ?_⟩
  · intro s hs'
    simp only [List.mem_append] at hs'
    rcases hs' with hs' | hs'
    · by_cases hmn : m.length < n1
      · simp only [hmn, if_true, List.mem_singleton] at hs'
        subst hs'
        rfl
      · simp [hmn] at hs'
    · by_cases hcn : c < n1
      · simp only [hcn, if_true, ok.emisExtend, instPhases_safe, List.mem_append,
          List.mem_singleton] at hs'
        rcases hs' with hs' | rfl
        · exact emisLoop_touches g _ c n0 hnc s hs'
        · rfl
      · simp [hcn] at hs'
  · intro hle s hs'
    simp only [List.mem_append] at hs'
    rcases hs' with hs' | hs'
    · by_cases hmn : m.length < n1
      · simp only [hmn, if_true, List.mem_singleton] at hs'
        subst hs'
        simp only [Step.benign, List.length_append, newDraws_length, decide_eq_true_eq]
        omega
      · simp [hmn] at hs'
    · by_cases hcn : c < n1
      · simp only [hcn, if_true, ok.emisExtend, instPhases_safe, List.mem_append,
          List.mem_singleton] at hs'
        rcases hs' with hs' | rfl
        · exact emisLoop_benign g _ c n0 s hs'
        · simpa [Step.benign] using hle
      · simp [hcn] at hs'

/-- the non-emission part of `Valid` -/
structure FieldsOK (t : Tbl) (vv : VV) (g : Gen) (n0 : Nat) (d : Disk) : Prop where
  seeds : ∃ m : List Draw, d.seeds = .ok m ∧ n0 ≤ m.length
  hashes : ∃ st, d.hashes = .ok st ∧ hashesMatch t st vv = true
  infra : d.infra = .ok g
  count : ∃ c, d.count = .ok c ∧ n0 ≤ c
  ts : d.ts = .ok (t.periodOf vv.vw)

theorem benign_fields (t : Tbl) (vv : VV) (g : Gen) (n0 : Nat) (l : List Step) (d : Disk)
    (hb : ∀ s ∈ l, s.benign n0 = true) (hf : FieldsOK t vv g n0 d) :
    FieldsOK t vv g n0 (applyAll l d) := by
  induction l generalizing d with
  | nil => exact hf
  | cons s rest ih =>
    apply ih _ (fun x hx => hb x (by simp [hx]))
    have hs := hb s (by simp)
    obtain ⟨f1, f2, f3, f4, f5⟩ := hf
    cases s with
    | wrSeeds m => exact ⟨⟨m, rfl, by simpa [Step.benign] using hs⟩, f2, f3, f4, f5⟩
    | wrCount m => exact ⟨f1, f2, f3, ⟨m, rfl, by simpa [Step.benign] using hs⟩, f5⟩
    | wrEmis i g' => exact ⟨f1, f2, f3, f4, f5⟩
    | wrHashes _ => simp [Step.benign] at hs
    | wrInfra _ => simp [Step.benign] at hs
    | wrTs _ => simp [Step.benign] at hs
    | rm _ => simp [Step.benign] at hs

theorem valid_of_fields (t : Tbl) (w : Bool) (vv : VV) (g : Gen) (n0 : Nat) (d : Disk)
    (hf : FieldsOK t vv g n0 d) (hi : Inv t w d) (hcur : g.vv = vv) : Valid t w vv g n0 d := by
  obtain ⟨f1, ⟨st, f2, f2'⟩, f3, ⟨c, f4, f4'⟩, f5⟩ := hf
  exact ⟨f1, ⟨st, f2, f2'⟩, f3, ⟨c, f4, f4', (hi c st g f4 f2 f3).2.2⟩, f5, hcur⟩

theorem fields_of_valid (t : Tbl) (w : Bool) (vv : VV) (g : Gen) (n0 : Nat) (d : Disk)
    (hv : Valid t w vv g n0 d) : FieldsOK t vv g n0 d := by
  obtain ⟨f1, f2, f3, ⟨c, f4, f4', _⟩, f5, _⟩ := hv
  exact ⟨f1, f2, f3, ⟨c, f4, f4'⟩, f5⟩

/-! ### the preseed stream -/

def Step.seedsFree : Step → Bool
  | .wrSeeds _ => false
  | .rm .seeds => false
  | _ => true

theorem seedsFree_applyAll (l : List Step) (d : Disk) (h : ∀ s ∈ l, s.seedsFree = true) :
    (applyAll l d).seeds = d.seeds := by
  induction l generalizing d with
  | nil => rfl
  | cons s rest ih =>
    rw [applyAll_cons, ih _ (fun x hx => h x (by simp [hx]))]
    have := h s (by simp)
    cases s with
    | rm f => cases f <;> simp_all [Step.seedsFree, Step.apply, Disk.remove]
    | _ => simp_all [Step.seedsFree, Step.apply, Disk.setEmis]

theorem seedsFree_tear (s : Step) (d : Disk) (h : s.seedsFree = true) : (s.tear d).seeds = d.seeds := by
  cases s <;> simp_all [Step.seedsFree, Step.tear, Disk.setEmis]

theorem emisLoop_seedsFree (g : Gen) (cnt lo : Nat) : ∀ s ∈ emisLoop g lo cnt, s.seedsFree = true := by
  induction cnt generalizing lo with
  | zero => simp [emisLoop]
  | succ k ih =>
    intro s hs
    simp only [emisLoop, List.mem_cons] at hs
    rcases hs with rfl | hs
    · rfl
    · exact ih (lo + 1) s hs

/-- a plan is the seed stage's (at most one) step followed by steps that leave the seed file alone -/
theorem plan_shape (t : Tbl) (ok : TblOK t) (vv : VV) (gid n : Nat) (d : Disk) :
    (seedsStage t gid n d = none ∧ (plan t vv gid n d).steps = []) ∨
    ∃ s1 force r, seedsStage t gid n d = some (s1, force) ∧ (plan t vv gid n d).steps = s1 ++ r ∧
      ∀ s ∈ r, s.seedsFree = true := by
  cases h1 : seedsStage t gid n d with
  | none => left; simp [plan, h1]
  | some r1 =>
    obtain ⟨s1, force⟩ := r1
    right
    have iops : ∀ (st : Store) (g : Gen), ∀ s ∈ instIOps safeIOps st g d, s.seedsFree = true := by
      intro st g s hs
      rw [instIOps_safe] at hs
      by_cases hc : d.count.present = true <;> simp [hc] at hs <;> rcases hs with rfl | rfl | rfl <;> rfl
    have phases : ∀ (g : Gen) (lo : Nat), ∀ s ∈ instPhases safePhases g lo n, s.seedsFree = true := by
      intro g lo s hs
      rw [instPhases_safe, List.mem_append] at hs
      rcases hs with hs | hs
      · exact emisLoop_seedsFree g _ lo s hs
      · simp at hs; subst hs; rfl
    have h2free : ∀ s2 mem hfe, infraStage t vv gid force d = some (s2, mem, hfe) →
        ∀ s ∈ s2, s.seedsFree = true := by
      intro s2 mem hfe h2
      unfold infraStage at h2
      rw [ok.freshOps, ok.regenOps] at h2
      split at h2
      · simp only [Option.some.injEq, Prod.mk.injEq] at h2
        rw [← h2.1]; exact iops _ _
      · split at h2
        · split at h2
          · split at h2
            · simp only [Option.some.injEq, Prod.mk.injEq] at h2
              rw [← h2.1]; simp
            · simp at h2
          · simp only [Option.some.injEq, Prod.mk.injEq] at h2
            rw [← h2.1]; exact iops _ _
        · simp at h2
    have h3free : ∀ hfe mem s3, emisStage t n hfe mem d = some s3 → ∀ s ∈ s3, s.seedsFree = true := by
      intro hfe mem s3 h3
      unfold emisStage at h3
      rw [ok.emisRegen, ok.emisExtend] at h3
      split at h3
      · split at h3
        · rename_i c hc
          simp only [Option.some.injEq] at h3
          subst h3
          by_cases hcn : c < n
          · simp only [hcn, if_true]; exact phases _ _
          · simp [hcn]
        · simp at h3
      · simp only [Option.some.injEq] at h3
        subst h3
        exact phases _ _
    have h4free : ∀ s4, tsStage t vv d = some s4 → ∀ s ∈ s4, s.seedsFree = true := by
      intro s4 h4
      unfold tsStage at h4
      split at h4
      · simp at h4
      · simp only [Option.some.injEq] at h4
        subst h4
        intro s hs
        split at hs
        · simp at hs
        · simp at hs; subst hs; rfl
      · simp only [Option.some.injEq] at h4
        subst h4
        intro s hs
        simp at hs; subst hs; rfl
    cases h2 : infraStage t vv gid force d with
    | none => exact ⟨s1, force, [], rfl, by simp [plan, h1, h2], by simp⟩
    | some r2 =>
      obtain ⟨s2, mem, hfe⟩ := r2
      cases h3 : emisStage t n hfe mem d with
      | none =>
        exact ⟨s1, force, s2, rfl, by simp [plan, h1, h2, h3], h2free s2 mem hfe h2⟩
      | some s3 =>
        cases h4 : tsStage t vv d with
        | none =>
          refine ⟨s1, force, s2 ++ s3, rfl, by simp [plan, h1, h2, h3, h4], ?_⟩
          intro s hs
          rcases List.mem_append.mp hs with hs | hs
          · exact h2free s2 mem hfe h2 s hs
          · exact h3free hfe mem s3 h3 s hs
        | some s4 =>
          refine ⟨s1, force, s2 ++ s3 ++ s4, rfl, by simp [plan, h1, h2, h3, h4], ?_⟩
          intro s hs
          rcases List.mem_append.mp hs with hs | hs
          · rcases List.mem_append.mp hs with hs | hs
            · exact h2free s2 mem hfe h2 s hs
            · exact h3free hfe mem s3 h3 s hs
          · exact h4free s4 h4 s hs

/-- every stored preseed is a draw of an earlier run, and no draw is stored twice -/
def SeedsFresh (s : St) : Prop :=
  ∀ l, s.disk.seeds = .ok l → l.Nodup ∧ ∀ x ∈ l, x.1 < s.gid

theorem newDraws_mem (t : Tbl) (hf : t.seedRestart = false) (gid cnt k : Nat) :
    ∀ x ∈ newDraws t gid k cnt, x.1 = gid ∧ k ≤ x.2 := by
  induction cnt generalizing k with
  | zero => simp [newDraws]
  | succ c ih =>
    intro x hx
    simp only [newDraws, hf, Bool.false_eq_true, if_false, List.mem_cons] at hx
    rcases hx with rfl | hx
    · exact ⟨rfl, Nat.le_refl _⟩
    · have := ih (k + 1) x hx
      exact ⟨this.1, by omega⟩

theorem newDraws_nodup (t : Tbl) (hf : t.seedRestart = false) (gid cnt k : Nat) :
    (newDraws t gid k cnt).Nodup := by
  induction cnt generalizing k with
  | zero => simp [newDraws]
  | succ c ih =>
    simp only [newDraws, hf, Bool.false_eq_true, if_false, List.nodup_cons]
    refine ⟨?_, ih (k + 1)⟩
    intro hm
    have := (newDraws_mem t hf gid c (k + 1) _ hm).2
    simp only at this
    omega

/-- what the seed stage writes keeps the stored preseeds as a prefix and appends draws of this run -/
theorem seedsStage_fresh (t : Tbl) (hf : t.seedRestart = false) (s : St) (n : Nat) (hs : SeedsFresh s)
    (s1 : List Step) (force : Bool) (h : seedsStage t s.gid n s.disk = some (s1, force)) :
    s1 = [] ∨ ∃ l', s1 = [.wrSeeds l'] ∧ l'.Nodup ∧ (∀ x ∈ l', x.1 < s.gid + 1) ∧
      (∀ l, s.disk.seeds = .ok l → ∃ add, l' = l ++ add ∧ ∀ x ∈ add, x ∉ l ∧ x.1 = s.gid) := by
  unfold seedsStage at h
  split at h
  · simp at h
  · rename_i habs
    simp only [Option.some.injEq, Prod.mk.injEq] at h
    right
    refine ⟨_, h.1.symm, newDraws_nodup t hf _ _ _, ?_, ?_⟩
    · intro x hx
      have := (newDraws_mem t hf _ _ _ x hx).1
      omega
    · intro l hl
      rw [habs] at hl
      cases hl
  · rename_i l hl
    simp only [Option.some.injEq, Prod.mk.injEq] at h
    obtain ⟨nd, lt⟩ := hs l hl
    by_cases hln : l.length < n
    · simp only [hln, if_true] at h
      right
      refine ⟨_, h.1.symm, ?_, ?_, ?_⟩
      · rw [List.nodup_append]
        refine ⟨nd, newDraws_nodup t hf _ _ _, ?_⟩
        intro a ha b hb hab
        have := (newDraws_mem t hf _ _ _ b hb).1
        have := lt a ha
        subst hab
        omega
      · intro x hx
        rcases List.mem_append.mp hx with hx | hx
        · have := lt x hx; omega
        · have := (newDraws_mem t hf _ _ _ x hx).1; omega
      · intro l2 hl2
        rw [hl] at hl2
        cases hl2
        refine ⟨_, rfl, ?_⟩
        intro x hx
        have e := (newDraws_mem t hf _ _ _ x hx).1
        refine ⟨?_, e⟩
        intro hm
        have := lt x hm
        omega
    · simp only [hln, if_false] at h
      exact Or.inl h.1.symm

theorem seedsFresh_exec (t : Tbl) (ok : TblOK t) (s : St) (op : Op) (hs : SeedsFresh s) :
    SeedsFresh (exec t s op) := by
  have weaken : ∀ (d' : Disk), (d'.seeds = s.disk.seeds ∨ d'.seeds = .absent ∨ d'.seeds = .torn ∨
      ∃ l', d'.seeds = .ok l' ∧ l'.Nodup ∧ ∀ x ∈ l', x.1 < s.gid + 1) →
      ∀ l, d'.seeds = .ok l → l.Nodup ∧ ∀ x ∈ l, x.1 < s.gid + 1 := by
    intro d' hd l hl
    rcases hd with e | e | e | ⟨l', e, nd, lt⟩
    · rw [e] at hl
      obtain ⟨a, b⟩ := hs l hl
      exact ⟨a, fun x hx => by have := b x hx; omega⟩
    · rw [e] at hl; cases hl
    · rw [e] at hl; cases hl
    · rw [e] at hl; cases hl; exact ⟨nd, lt⟩
  have prefixes : ∀ (n k : Nat),
      let p := plan t s.vv s.gid n s.disk
      ((applyAll (p.steps.take k) s.disk).seeds = s.disk.seeds ∨
        ∃ l', (applyAll (p.steps.take k) s.disk).seeds = .ok l' ∧ l'.Nodup ∧ ∀ x ∈ l', x.1 < s.gid + 1) ∧
      ((tearAt p.steps k s.disk).seeds = s.disk.seeds ∨ (tearAt p.steps k s.disk).seeds = .torn ∨
        ∃ l', (tearAt p.steps k s.disk).seeds = .ok l' ∧ l'.Nodup ∧ ∀ x ∈ l', x.1 < s.gid + 1) := by
    intro n k
    rcases plan_shape t ok s.vv s.gid n s.disk with ⟨_, e⟩ | ⟨s1, force, r, h1, e, hr⟩
    · simp only [e, List.take_nil, applyAll_nil, tearAt, List.getElem?_nil, true_or, and_self]
    · simp only [e]
      have hrt : ∀ j, ∀ x ∈ r.take j, x.seedsFree = true := fun j x hx => hr x (List.mem_of_mem_take hx)
      rcases seedsStage_fresh t ok.seedFresh s n hs s1 force h1 with rfl | ⟨l', rfl, nd, lt, _⟩
      · simp only [List.nil_append]
        refine ⟨Or.inl (seedsFree_applyAll _ _ (hrt k)), ?_⟩
        unfold tearAt
        cases hk : r[k]? with
        | none => exact Or.inl (seedsFree_applyAll _ _ hr)
        | some x =>
          have hx : x.seedsFree = true := hr x (List.mem_of_getElem? hk)
          left
          rw [seedsFree_tear x _ hx]
          exact seedsFree_applyAll _ _ (hrt k)
      · cases k with
        | zero =>
          refine ⟨Or.inl rfl, Or.inr (Or.inl ?_)⟩
          simp [tearAt, Step.tear]
        | succ k =>
          have e1 : ([Step.wrSeeds l'] ++ r).take (k + 1) = Step.wrSeeds l' :: r.take k := by simp
          have base : (applyAll (Step.wrSeeds l' :: r.take k) s.disk).seeds = .ok l' := by
            rw [applyAll_cons, seedsFree_applyAll _ _ (hrt k)]
            rfl
          refine ⟨Or.inr ⟨l', by rw [e1]; exact base, nd, lt⟩, Or.inr (Or.inr ⟨l', ?_, nd, lt⟩)⟩
          unfold tearAt
          have eg : ([Step.wrSeeds l'] ++ r)[k + 1]? = r[k]? := by simp
          rw [eg]
          cases hk : r[k]? with
          | none =>
            show (applyAll (Step.wrSeeds l' :: r) s.disk).seeds = _
            rw [applyAll_cons, seedsFree_applyAll _ _ hr]
            rfl
          | some x =>
            have hx : x.seedsFree = true := hr x (List.mem_of_getElem? hk)
            show (x.tear (applyAll (([Step.wrSeeds l'] ++ r).take (k + 1)) s.disk)).seeds = _
            rw [seedsFree_tear x _ hx, e1]
            exact base
  cases op with
  | edit k v => exact hs
  | del f =>
    intro l hl
    cases f with
    | seeds => simp [exec, Disk.remove] at hl
    | _ => exact hs l hl
  | delEmis i => exact hs
  | run n =>
    have := (prefixes n (plan t s.vv s.gid n s.disk).steps.length).1
    rw [List.take_length] at this
    exact weaken _ (by rcases this with e | e; exact Or.inl e; exact Or.inr (Or.inr (Or.inr e)))
  | crash n k =>
    have := (prefixes n k).1
    exact weaken _ (by rcases this with e | e; exact Or.inl e; exact Or.inr (Or.inr (Or.inr e)))
  | tear n k =>
    have := (prefixes n k).2
    exact weaken _ (by rcases this with e | e | e; exact Or.inl e; exact Or.inr (Or.inr (Or.inl e));
                       exact Or.inr (Or.inr (Or.inr e)))

theorem seedsFresh_execAll (t : Tbl) (ok : TblOK t) (h : List Op) (s : St) (hs : SeedsFresh s) :
    SeedsFresh (execAll t s h) := by
  induction h generalizing s with
  | nil => exact hs
  | cons op rest ih => exact ih _ (seedsFresh_exec t ok s op hs)

/-! ### progress -/

/-- no singleton file is torn (emission files do not influence whether the initialisation completes) -/
structure NoTorn (d : Disk) : Prop where
  seeds : d.seeds ≠ .torn
  hashes : d.hashes ≠ .torn
  infra : d.infra ≠ .torn
  count : d.count ≠ .torn
  ts : d.ts ≠ .torn

theorem noTorn_apply (s : Step) (d : Disk) (h : NoTorn d) : NoTorn (s.apply d) := by
  obtain ⟨a, b, c, e, f⟩ := h
  cases s with
  | rm x => cases x <;> exact ⟨by simp_all [Step.apply, Disk.remove], by simp_all [Step.apply, Disk.remove],
      by simp_all [Step.apply, Disk.remove], by simp_all [Step.apply, Disk.remove],
      by simp_all [Step.apply, Disk.remove]⟩
  | _ => exact ⟨by simp_all [Step.apply, Disk.setEmis], by simp_all [Step.apply, Disk.setEmis],
      by simp_all [Step.apply, Disk.setEmis], by simp_all [Step.apply, Disk.setEmis],
      by simp_all [Step.apply, Disk.setEmis]⟩

theorem noTorn_applyAll (l : List Step) (d : Disk) (h : NoTorn d) : NoTorn (applyAll l d) := by
  induction l generalizing d with
  | nil => exact h
  | cons s rest ih => exact ih _ (noTorn_apply s d h)

theorem present_not_torn {α} (f : FileSt α) (hp : f.present = true) (ht : f ≠ .torn) :
    ∃ a, f = .ok a := by
  cases f with
  | absent => simp [FileSt.present] at hp
  | torn => exact absurd rfl ht
  | ok a => exact ⟨a, rfl⟩

/-- exactly which folders make the next run fail loudly -/
theorem plan_fails_iff (t : Tbl) (ok : TblOK t) (vv : VV) (gid n : Nat) (d : Disk) :
    (plan t vv gid n d).outcome = none ↔
      d.seeds = .torn ∨ d.ts = .torn ∨
      (d.seeds ≠ .absent ∧ t.required.all d.present = true ∧
        (d.hashes = .torn ∨ ∃ st, d.hashes = .ok st ∧ hashesMatch t st vv = true ∧
          (d.infra = .torn ∨ d.count = .torn))) := by
  have hreq : t.required.all d.present = true →
      d.hashes.present = true ∧ d.infra.present = true ∧ d.count.present = true := by
    intro h
    simp only [List.all_eq_true] at h
    exact ⟨h _ ok.hashesRequired, h _ ok.infraRequired, h _ ok.countRequired⟩
  cases hs : d.seeds with
  | torn => simp [plan, seedsStage, hs]
  | absent =>
    -- force_remake: everything is regenerated
    cases hts : d.ts <;> simp [plan, seedsStage, hs, infraStage, emisStage, tsStage, hts]
  | ok m =>
    by_cases hp : t.required.all d.present = true
    · obtain ⟨p1, p2, p3⟩ := hreq hp
      cases hh : d.hashes with
      | absent => simp [hh, FileSt.present] at p1
      | torn => simp [plan, seedsStage, hs, infraStage, hp, hh]
      | ok st =>
        by_cases hm : hashesMatch t st vv = true
        · cases hg : d.infra with
          | absent => simp [hg, FileSt.present] at p2
          | torn => simp [plan, seedsStage, hs, infraStage, hp, hh, hm, hg]
          | ok g =>
            cases hc : d.count with
            | absent => simp [hc, FileSt.present] at p3
            | torn => simp [plan, seedsStage, hs, infraStage, hp, hh, hm, hg, emisStage, hc]
            | ok c =>
              cases hts : d.ts <;>
                simp [plan, seedsStage, hs, infraStage, hp, hh, hm, hg, emisStage, hc, tsStage, hts]
        · cases hts : d.ts <;>
            simp [plan, seedsStage, hs, infraStage, hp, hh, hm, emisStage, tsStage, hts]
    · cases hts : d.ts <;> simp [plan, seedsStage, hs, infraStage, hp, emisStage, tsStage, hts]

theorem noTorn_progress (t : Tbl) (ok : TblOK t) (vv : VV) (gid n : Nat) (d : Disk)
    (h : NoTorn d) : (plan t vv gid n d).outcome ≠ none := by
  intro hn
  rcases (plan_fails_iff t ok vv gid n d).mp hn with h1 | h1 | ⟨_, _, h1 | ⟨st, _, _, h1 | h1⟩⟩
  · exact h.seeds h1
  · exact h.ts h1
  · exact h.hashes h1
  · exact h.infra h1
  · exact h.count h1

theorem noTorn_exec (t : Tbl) (s : St) (op : Op) (h : NoTorn s.disk) (ht : op.isTear = false) :
    NoTorn (exec t s op).disk := by
  cases op with
  | edit k v => exact h
  | run n => exact noTorn_applyAll _ _ h
  | crash n k => exact noTorn_applyAll _ _ h
  | tear n k => simp [Op.isTear] at ht
  | del f => exact noTorn_apply (.rm f) _ h
  | delEmis i => exact ⟨h.seeds, h.hashes, h.infra, h.count, h.ts⟩

theorem noTorn_execAll (t : Tbl) (h : List Op) (s : St) (hn : NoTorn s.disk)
    (ht : ∀ op ∈ h, op.isTear = false) : NoTorn (execAll t s h).disk := by
  induction h generalizing s with
  | nil => exact hn
  | cons op rest ih =>
    exact ih _ (noTorn_exec t s op hn (ht op (by simp))) (fun o ho => ht o (by simp [ho]))

end LdarModel.Cache
