import LdarModel.Model.Units
import Mathlib.Tactic.Ring
import Mathlib.Tactic.FieldSimp
import Mathlib.Tactic.Linarith
/-
Helper lemmas for the unit converter: every stage of `gas_convert` is homogeneous in the input
quantity (the failure cases — missing key, zero divisor — do not depend on it).
-/
namespace LdarModel.Units

theorem sdiv_scale (c x b : Rat) : sdiv (c * x) b = (sdiv x b).map (c * ·) := by
  unfold sdiv
  split
  · simp
  · simp [mul_div_assoc]

theorem sdiv_some {a b : Rat} (h : b ≠ 0) : sdiv a b = some (a / b) := by
  unfold sdiv; simp [h]

/-- the argument record with another quantity -/
def withQ (a : Args) (q : Rat) : Args := { a with q := q }

theorem inMassTpy_scale (T : Table) (a : Args) (c : Rat) :
    inMassTpy T (withQ a (c * a.q)) = (inMassTpy T a).map (c * ·) := by
  unfold inMassTpy pressurePa temperatureK withQ
  simp only
  cases lookupM T.inMetrics a.inMetric.toLower with
  | none => simp
  | some m =>
    simp only [Option.bind_eq_bind, Option.bind_some]
    cases hm : m.isMass
    · simp only [Bool.false_eq_true, ↓reduceIte]
      cases lookupA T.presUnits a.presUnit <;> simp only [Option.map_none, Option.map_some, Option.bind_none, Option.bind_some]
      cases lookupA T.tempUnits a.tempUnit <;> simp only [Option.map_none, Option.map_some, Option.bind_none, Option.bind_some]
      rw [sdiv_scale]
      cases sdiv a.q m.perUnit <;> simp only [Option.map_none, Option.map_some, Option.bind_none, Option.bind_some]
      cases lookupR T.substances a.inSubstance.toLower <;> simp only [Option.map_none, Option.bind_none, Option.bind_some]
      rename_i pa tk vol n
      rw [show c * vol * (a.p * pa.scale + pa.offset) * n = c * (vol * (a.p * pa.scale + pa.offset) * n) by ring,
        sdiv_scale]
      cases sdiv (vol * (a.p * pa.scale + pa.offset) * n) ((a.t * tk.scale + tk.offset) * T.gasConstant)
        <;> simp only [Option.map_none, Option.map_some, Option.bind_none, Option.bind_some]
      cases lookupR T.increments a.inIncrement.toLower <;> simp only [Option.map_none, Option.bind_none, Option.bind_some]
      rename_i mg inc
      rw [show c * mg * inc = c * (mg * inc) by ring, sdiv_scale]
    · simp only [↓reduceIte]
      cases lookupR T.increments a.inIncrement.toLower <;> simp only [Option.map_none, Option.bind_none, Option.bind_some]
      rename_i inc
      rw [show c * a.q * inc = c * (a.q * inc) by ring, sdiv_scale]

theorem co2e_scale (a : Args) (c x q : Rat) : co2e (withQ a q) (c * x) = c * co2e a x := by
  unfold co2e withQ
  simp only
  split
  · rfl
  · split <;> ring

theorem outMassTpy_scale (a : Args) (c x q : Rat) :
    outMassTpy (withQ a q) (c * x) = (outMassTpy a x).map (c * ·) := by
  unfold outMassTpy withQ
  simp only
  split
  · simp
  · split
    · exact sdiv_scale _ _ _
    · simp only [Option.bind_eq_bind]
      rw [sdiv_scale]
      cases sdiv x a.gwp <;> simp only [Option.map_none, Option.map_some, Option.bind_none, Option.bind_some]
      exact sdiv_scale _ _ _

theorem outQuantity_scale (T : Table) (a : Args) (c x q : Rat) :
    outQuantity T (withQ a q) (c * x) = (outQuantity T a x).map (c * ·) := by
  unfold outQuantity pressurePa temperatureK withQ
  simp only
  cases lookupM T.outMetrics a.outMetric.toLower with
  | none => simp
  | some m =>
    simp only [Option.bind_eq_bind, Option.bind_some]
    cases hm : m.isMass
    · simp only [Bool.false_eq_true, ↓reduceIte]
      cases lookupA T.presUnits a.presUnit <;> simp only [Option.map_none, Option.map_some, Option.bind_none, Option.bind_some]
      cases lookupA T.tempUnits a.tempUnit <;> simp only [Option.map_none, Option.map_some, Option.bind_none, Option.bind_some]
      cases lookupR T.increments a.outIncrement.toLower <;> simp only [Option.map_none, Option.bind_none, Option.bind_some]
      rename_i pa tk inc
      rw [show c * x * T.gramsPerTonne = c * (x * T.gramsPerTonne) by ring, sdiv_scale]
      cases sdiv (x * T.gramsPerTonne) inc <;> simp only [Option.map_none, Option.map_some, Option.bind_none, Option.bind_some]
      cases lookupR T.substances a.outSubstance.toLower <;> simp only [Option.map_none, Option.bind_none, Option.bind_some]
      rename_i mg n
      rw [show c * mg * T.gasConstant * (a.t * tk.scale + tk.offset)
            = c * (mg * T.gasConstant * (a.t * tk.scale + tk.offset)) by ring, sdiv_scale]
      cases sdiv (mg * T.gasConstant * (a.t * tk.scale + tk.offset)) (n * (a.p * pa.scale + pa.offset))
        <;> simp only [Option.map_none, Option.map_some, Option.bind_none, Option.bind_some]
      congr 1; ring
    · simp only [↓reduceIte]
      cases lookupR T.increments a.outIncrement.toLower <;> simp only [Option.map_none, Option.bind_none, Option.bind_some]
      rename_i inc
      rw [show c * x * m.perUnit = c * (x * m.perUnit) by ring, sdiv_scale]

/-- `gas_convert` is homogeneous of degree one in the input quantity, including its failures -/
theorem gasConvert_scale (T : Table) (a : Args) (c : Rat) :
    gasConvert T (withQ a (c * a.q)) = (gasConvert T a).map (c * ·) := by
  unfold gasConvert
  simp only [Option.bind_eq_bind]
  rw [inMassTpy_scale]
  cases inMassTpy T a with
  | none => simp
  | some tpy =>
    simp only [Option.map_some, Option.bind_some]
    rw [co2e_scale, outMassTpy_scale]
    cases outMassTpy a (co2e a tpy) with
    | none => simp
    | some o =>
      simp only [Option.map_some, Option.bind_some]
      exact outQuantity_scale T a c o _

theorem convertD_scale (T : Table) (m i : String) (c q : Rat) :
    convertD T m i (c * q) = (convertD T m i q).map (c * ·) := by
  unfold convertD
  exact gasConvert_scale T { T.defaults with q := q, inMetric := m, inIncrement := i } c

/-- the conversion factor of a unit: what one unit per increment is in the output unit -/
def factor (T : Table) (m i : String) : Option Rat := convertD T m i 1

theorem convertD_eq_factor (T : Table) (m i : String) (q : Rat) :
    convertD T m i q = (factor T m i).map (q * ·) := by
  have := convertD_scale T m i q 1
  simpa [factor] using this

theorem capAt_le (cap x : Rat) : capAt cap x ≤ cap := by
  unfold capAt
  split
  · exact le_refl _
  · rename_i h; exact not_lt.mp h

theorem capAt_le_self (cap x : Rat) : capAt cap x ≤ x := by
  unfold capAt
  split
  · rename_i h; exact le_of_lt h
  · exact le_refl _

/-! ### positivity: with positive table entries the converter maps non-negative to non-negative -/

/-- what the positivity argument needs from the call arguments -/
structure PosArgs (T : Table) (a : Args) : Prop where
  gwp : 0 < a.gwp
  ng : 0 < a.ngComp
  pres : ∀ u ∈ T.presUnits, 0 < a.p * u.scale + u.offset
  temp : ∀ u ∈ T.tempUnits, 0 < a.t * u.scale + u.offset

structure Pos (T : Table) : Prop where
  inM : ∀ m ∈ T.inMetrics, 0 < m.perUnit
  outM : ∀ m ∈ T.outMetrics, 0 < m.perUnit
  inc : ∀ e ∈ T.increments, 0 < e.2
  sub : ∀ e ∈ T.substances, 0 < e.2
  gas : 0 < T.gasConstant
  gpt : 0 < T.gramsPerTonne
  args : PosArgs T T.defaults

theorem sdiv_eq_some {a b x : Rat} (h : sdiv a b = some x) : b ≠ 0 ∧ x = a / b := by
  unfold sdiv at h
  split at h
  · simp at h
  · rename_i hb
    simp only [Option.some.injEq] at h
    exact ⟨hb, h.symm⟩

theorem sdiv_nonneg {a b x : Rat} (ha : 0 ≤ a) (hb : 0 < b) (h : sdiv a b = some x) : 0 ≤ x := by
  rw [(sdiv_eq_some h).2]; exact div_nonneg ha (le_of_lt hb)

theorem lookupM_mem {l : List Metric} {k : String} {m : Metric} (h : lookupM l k = some m) : m ∈ l :=
  List.mem_of_find?_eq_some h

theorem lookupA_mem {l : List Affine} {k : String} {m : Affine} (h : lookupA l k = some m) : m ∈ l :=
  List.mem_of_find?_eq_some h

theorem lookupR_pos {l : List (String × Rat)} {k : String} {x : Rat} (hl : ∀ e ∈ l, 0 < e.2)
    (h : lookupR l k = some x) : 0 < x := by
  unfold lookupR at h
  cases hf : l.find? (fun e => e.1 == k) with
  | none => simp [hf] at h
  | some e =>
    simp only [hf, Option.map_some, Option.some.injEq] at h
    rw [← h]; exact hl e (List.mem_of_find?_eq_some hf)

theorem inMassTpy_nonneg (T : Table) (a : Args) (hP : Pos T) (hA : PosArgs T a) (hq : 0 ≤ a.q)
    {x : Rat} (h : inMassTpy T a = some x) : 0 ≤ x := by
  unfold inMassTpy pressurePa temperatureK at h
  simp only [Option.bind_eq_bind] at h
  cases hm : lookupM T.inMetrics a.inMetric.toLower with
  | none => simp [hm] at h
  | some m =>
    have hmp := hP.inM m (lookupM_mem hm)
    simp only [hm, Option.bind_some] at h
    cases hmass : m.isMass
    · simp only [hmass, Bool.false_eq_true, ↓reduceIte] at h
      cases hpa : lookupA T.presUnits a.presUnit with
      | none => simp [hpa] at h
      | some pa =>
      cases htk : lookupA T.tempUnits a.tempUnit with
      | none => simp [hpa, htk] at h
      | some tk =>
      simp only [hpa, htk, Option.map_some, Option.bind_some] at h
      cases hv : sdiv a.q m.perUnit with
      | none => simp [hv] at h
      | some vol =>
      cases hn : lookupR T.substances a.inSubstance.toLower with
      | none => simp [hv, hn] at h
      | some n =>
      simp only [hv, hn, Option.bind_some] at h
      cases hg : sdiv (vol * (a.p * pa.scale + pa.offset) * n) ((a.t * tk.scale + tk.offset) * T.gasConstant) with
      | none => simp [hg] at h
      | some mg =>
      cases hi : lookupR T.increments a.inIncrement.toLower with
      | none => simp [hg, hi] at h
      | some inc =>
      simp only [hg, hi, Option.bind_some] at h
      have hvol := sdiv_nonneg hq hmp hv
      have hpp := hA.pres pa (lookupA_mem hpa)
      have htt := hA.temp tk (lookupA_mem htk)
      have hnn := lookupR_pos hP.sub hn
      have hii := lookupR_pos hP.inc hi
      have hmg := sdiv_nonneg (mul_nonneg (mul_nonneg hvol (le_of_lt hpp)) (le_of_lt hnn))
        (mul_pos htt hP.gas) hg
      exact sdiv_nonneg (mul_nonneg hmg (le_of_lt hii)) hP.gpt h
    · simp only [hmass, ↓reduceIte] at h
      cases hi : lookupR T.increments a.inIncrement.toLower with
      | none => simp [hi] at h
      | some inc =>
      simp only [hi, Option.bind_some] at h
      exact sdiv_nonneg (mul_nonneg hq (le_of_lt (lookupR_pos hP.inc hi))) hmp h

theorem co2e_nonneg (T : Table) (a : Args) (hA : PosArgs T a) {x : Rat} (hx : 0 ≤ x) : 0 ≤ co2e a x := by
  unfold co2e
  split
  · exact hx
  · split
    · exact mul_nonneg hx (le_of_lt hA.gwp)
    · exact mul_nonneg (mul_nonneg hx (le_of_lt hA.gwp)) (le_of_lt hA.ng)

theorem outMassTpy_nonneg (T : Table) (a : Args) (hA : PosArgs T a) {c x : Rat} (hc : 0 ≤ c)
    (h : outMassTpy a c = some x) : 0 ≤ x := by
  unfold outMassTpy at h
  split at h
  · simp only [Option.some.injEq] at h; rw [← h]; exact hc
  · split at h
    · exact sdiv_nonneg hc hA.gwp h
    · simp only [Option.bind_eq_bind] at h
      cases hy : sdiv c a.gwp with
      | none => simp [hy] at h
      | some y =>
        simp only [hy, Option.bind_some] at h
        exact sdiv_nonneg (sdiv_nonneg hc hA.gwp hy) hA.ng h

theorem outQuantity_nonneg (T : Table) (a : Args) (hP : Pos T) (hA : PosArgs T a) {t x : Rat}
    (ht : 0 ≤ t) (h : outQuantity T a t = some x) : 0 ≤ x := by
  unfold outQuantity pressurePa temperatureK at h
  simp only [Option.bind_eq_bind] at h
  cases hm : lookupM T.outMetrics a.outMetric.toLower with
  | none => simp [hm] at h
  | some m =>
    have hmp := hP.outM m (lookupM_mem hm)
    simp only [hm, Option.bind_some] at h
    cases hmass : m.isMass
    · simp only [hmass, Bool.false_eq_true, ↓reduceIte] at h
      cases hpa : lookupA T.presUnits a.presUnit with
      | none => simp [hpa] at h
      | some pa =>
      cases htk : lookupA T.tempUnits a.tempUnit with
      | none => simp [hpa, htk] at h
      | some tk =>
      simp only [hpa, htk, Option.map_some, Option.bind_some] at h
      cases hi : lookupR T.increments a.outIncrement.toLower with
      | none => simp [hi] at h
      | some inc =>
      simp only [hi, Option.bind_some] at h
      cases hg : sdiv (t * T.gramsPerTonne) inc with
      | none => simp [hg] at h
      | some mg =>
      cases hn : lookupR T.substances a.outSubstance.toLower with
      | none => simp [hg, hn] at h
      | some n =>
      simp only [hg, hn, Option.bind_some] at h
      cases hv : sdiv (mg * T.gasConstant * (a.t * tk.scale + tk.offset)) (n * (a.p * pa.scale + pa.offset)) with
      | none => simp [hv] at h
      | some vol =>
      simp only [hv, Option.bind_some, Option.some.injEq] at h
      have hpp := hA.pres pa (lookupA_mem hpa)
      have htt := hA.temp tk (lookupA_mem htk)
      have hnn := lookupR_pos hP.sub hn
      have hii := lookupR_pos hP.inc hi
      have hmg := sdiv_nonneg (mul_nonneg ht (le_of_lt hP.gpt)) hii hg
      have hvol := sdiv_nonneg (mul_nonneg (mul_nonneg hmg (le_of_lt hP.gas)) (le_of_lt htt))
        (mul_pos hnn hpp) hv
      rw [← h]; exact mul_nonneg hvol (le_of_lt hmp)
    · simp only [hmass, ↓reduceIte] at h
      cases hi : lookupR T.increments a.outIncrement.toLower with
      | none => simp [hi] at h
      | some inc =>
      simp only [hi, Option.bind_some] at h
      exact sdiv_nonneg (mul_nonneg ht (le_of_lt hmp)) (lookupR_pos hP.inc hi) h

theorem gasConvert_nonneg (T : Table) (a : Args) (hP : Pos T) (hA : PosArgs T a) (hq : 0 ≤ a.q)
    {x : Rat} (h : gasConvert T a = some x) : 0 ≤ x := by
  unfold gasConvert at h
  simp only [Option.bind_eq_bind] at h
  cases h1 : inMassTpy T a with
  | none => simp [h1] at h
  | some tpy =>
    simp only [h1, Option.bind_some] at h
    cases h2 : outMassTpy a (co2e a tpy) with
    | none => simp [h2] at h
    | some o =>
      simp only [h2, Option.bind_some] at h
      have ht := inMassTpy_nonneg T a hP hA hq h1
      have ho := outMassTpy_nonneg T a hA (co2e_nonneg T a hA ht) h2
      exact outQuantity_nonneg T a hP hA ho h

theorem convertD_nonneg (T : Table) (hP : Pos T) (m i : String) {q x : Rat} (hq : 0 ≤ q)
    (h : convertD T m i q = some x) : 0 ≤ x := by
  unfold convertD at h
  refine gasConvert_nonneg T _ hP ?_ hq h
  exact ⟨hP.args.gwp, hP.args.ng, hP.args.pres, hP.args.temp⟩

/-- monotone: a smaller quantity converts to a smaller quantity -/
theorem convertD_mono (T : Table) (hP : Pos T) (m i : String) {x y a b : Rat} (hxy : x ≤ y)
    (hx : convertD T m i x = some a) (hy : convertD T m i y = some b) : a ≤ b := by
  rw [convertD_eq_factor] at hx hy
  cases hf : factor T m i with
  | none => simp [hf] at hx
  | some f =>
    simp only [hf, Option.map_some, Option.some.injEq] at hx hy
    have hf0 : 0 ≤ f := convertD_nonneg T hP m i (by norm_num : (0 : Rat) ≤ 1) hf
    rw [← hx, ← hy]
    exact mul_le_mul_of_nonneg_right hxy hf0

/-! ### the SI-defined units -/

theorem siGrams_cases {m : String} {g : Rat} (h : siGrams m = some g) :
    (m = "gram" ∧ g = 1) ∨ (m = "kilogram" ∧ g = 1000) ∨ (m = "tonne" ∧ g = 1000000) := by
  unfold siGrams at h
  split at h
  · simp_all
  · split at h
    · simp_all
    · split at h <;> simp_all

theorem siSeconds_cases {i : String} {s : Rat} (h : siSeconds i = some s) :
    (i = "second" ∧ s = 1) ∨ (i = "minute" ∧ s = 60) ∨ (i = "hour" ∧ s = 3600)
      ∨ (i = "day" ∧ s = 86400) := by
  unfold siSeconds at h
  split at h
  · simp_all
  · split at h
    · simp_all
    · split at h
      · simp_all
      · split at h <;> simp_all

theorem toUnit_eq_some {m i : String} {q x : Rat} (h : toUnit m i q = some x) :
    ∃ g s, siGrams m = some g ∧ siSeconds i = some s ∧ x = q / g * s := by
  unfold toUnit at h
  simp only [Option.bind_eq_bind] at h
  cases hg : siGrams m with
  | none => simp [hg] at h
  | some g =>
    cases hs : siSeconds i with
    | none => simp [hg, hs] at h
    | some s =>
      simp only [hg, hs, Option.bind_some, Option.some.injEq] at h
      exact ⟨g, s, rfl, rfl, h.symm⟩

theorem siGrams_pos {m : String} {g : Rat} (h : siGrams m = some g) : 0 < g := by
  rcases siGrams_cases h with ⟨_, rfl⟩ | ⟨_, rfl⟩ | ⟨_, rfl⟩ <;> norm_num

theorem siSeconds_pos {i : String} {s : Rat} (h : siSeconds i = some s) : 0 < s := by
  rcases siSeconds_cases h with ⟨_, rfl⟩ | ⟨_, rfl⟩ | ⟨_, rfl⟩ | ⟨_, rfl⟩ <;> norm_num

/-- writing a rate in another unit commutes with capping (the unit factor is positive) -/
theorem toUnit_capAt {m i : String} {cap x xc xx : Rat} (hc : toUnit m i cap = some xc)
    (hx : toUnit m i x = some xx) : toUnit m i (capAt cap x) = some (capAt xc xx) := by
  obtain ⟨g, s, hg, hs, rfl⟩ := toUnit_eq_some hc
  obtain ⟨g', s', hg', hs', rfl⟩ := toUnit_eq_some hx
  rw [hg] at hg'; rw [hs] at hs'
  cases hg'; cases hs'
  have hg0 := siGrams_pos hg
  have hs0 := siSeconds_pos hs
  have hiff : x / g * s > cap / g * s ↔ x > cap := by
    constructor
    · intro h
      by_contra hn
      have : x ≤ cap := not_lt.mp hn
      have : x / g * s ≤ cap / g * s :=
        mul_le_mul_of_nonneg_right (div_le_div_of_nonneg_right this (le_of_lt hg0)) (le_of_lt hs0)
      exact absurd h (not_lt.mpr this)
    · intro h
      exact mul_lt_mul_of_pos_right (div_lt_div_of_pos_right h hg0) hs0
  unfold capAt toUnit
  simp only [hg, hs, Option.bind_eq_bind, Option.bind_some]
  by_cases h : x > cap
  · simp [h, hiff.mpr h]
  · have h' : ¬ (x / g * s > cap / g * s) := fun hh => h (hiff.mp hh)
    simp [h, h']

/-- Unit invariance of the converter on the SI-defined units, for any consistent table: a rate of
`q` g/s written in `m` per `i` converts back to exactly `q`. -/
theorem convertD_toUnit (T : Table) (hC : Consistent T) (m i : String) (q x : Rat)
    (hx : toUnit m i q = some x) : convertD T m i x = some q := by
  unfold Consistent at hC
  split at hC
  case h_2 => exact hC.elim
  rename_i g k t og s mi h d hg hk ht hog hs hmi hh hd
  obtain ⟨⟨gm, km, tm, ogm⟩, ⟨hgk, hkt, hogg, ht0⟩, ⟨hs1, hs2, hs3, hd0⟩, hgwp, ⟨d1, d2, d3, d4⟩, _⟩ := hC
  have e1 : "gram".toLower = "gram" := by decide +kernel
  have e2 : "kilogram".toLower = "kilogram" := by decide +kernel
  have e3 : "tonne".toLower = "tonne" := by decide +kernel
  have e4 : "second".toLower = "second" := by decide +kernel
  have e5 : "minute".toLower = "minute" := by decide +kernel
  have e6 : "hour".toLower = "hour" := by decide +kernel
  have e7 : "day".toLower = "day" := by decide +kernel
  have e8 : "methane".toLower = "methane" := by decide +kernel
  have e9 : ¬ ("methane" = "carbon dioxide") := by decide +kernel
  have hk0 : k.perUnit ≠ 0 := by rw [hkt]; exact mul_ne_zero (by norm_num) ht0
  have hg0 : g.perUnit ≠ 0 := by rw [hgk]; exact mul_ne_zero (by norm_num) hk0
  have hh0 : h ≠ 0 := by rw [hs3]; exact mul_ne_zero (by norm_num) hd0
  have hmi0 : mi ≠ 0 := by rw [hs2]; exact mul_ne_zero (by norm_num) hh0
  have hs0 : s ≠ 0 := by rw [hs1]; exact mul_ne_zero (by norm_num) hmi0
  obtain ⟨gg, ss, hgg, hss, rfl⟩ := toUnit_eq_some hx
  unfold convertD gasConvert inMassTpy co2e outMassTpy outQuantity
  simp only [d1, d2, d3, d4, e1, e4, e8, e9, hog, hs, Option.bind_eq_bind, ↓reduceIte]
  rcases siGrams_cases hgg with ⟨rfl, rfl⟩ | ⟨rfl, rfl⟩ | ⟨rfl, rfl⟩ <;>
  rcases siSeconds_cases hss with ⟨rfl, rfl⟩ | ⟨rfl, rfl⟩ | ⟨rfl, rfl⟩ | ⟨rfl, rfl⟩ <;>
  simp only [e1, e2, e3, e4, e5, e6, e7, hg, hk, ht, hs, hmi, hh, hd, gm, km, tm, ogm, Option.bind_some,
    ↓reduceIte, sdiv_some hg0, sdiv_some hk0, sdiv_some ht0, sdiv_some hgwp, sdiv_some hs0,
    Option.some.injEq] <;>
  rw [hogg, hgk, hkt, hs1, hs2, hs3] <;>
  field_simp <;>
  ring

theorem consistent_names {T : Table} (hC : Consistent T) :
    T.gramName = "gram" ∧ T.secondName = "second" := by
  unfold Consistent at hC
  split at hC
  case h_2 => exact hC.elim
  exact hC.2.2.2.2.2

end LdarModel.Units
