import LdarModel.Model.Cost
import LdarModel.Lemmas.Crew
import LdarModel.Lemmas.Emission
/-
Helper lemmas for the cost model (C10).  Core Lean only.
-/
namespace LdarModel.Cost
open LdarModel.Crew

/-! ### sums -/

theorem foldl_add_eq (g : MethodDay → Int) (ms : List MethodDay) (acc : Int) :
    ms.foldl (fun a m => a + g m) acc = acc + (ms.map g).sum := by
  induction ms generalizing acc with
  | nil => simp
  | cons m ms ih => simp only [List.foldl_cons, List.map_cons, List.sum_cons]; rw [ih]; omega

theorem totalDaily_eq (first : Bool) (ms : List MethodDay) :
    totalDaily first ms = (ms.map (fun m => m.deploy + if first then m.upfront else 0)).sum := by
  unfold totalDaily
  cases first
  · have := foldl_add_eq (fun m => m.deploy) ms 0
    simp only [Bool.false_eq_true, if_false] at *
    simpa using this
  · have := foldl_add_eq (fun m => m.upfront + m.deploy) ms 0
    simp only [if_true] at *
    have e : (fun (acc : Int) (m : MethodDay) => acc + m.upfront + m.deploy) = (fun acc m => acc + (m.upfront + m.deploy)) := by
      funext a m; omega
    rw [e, this]
    have e2 : (fun (m : MethodDay) => m.deploy + m.upfront) = (fun m => m.upfront + m.deploy) := by
      funext m; omega
    rw [e2]; omega

theorem sum_map_add (f g : MethodDay → Int) (ms : List MethodDay) :
    (ms.map (fun m => f m + g m)).sum = (ms.map f).sum + (ms.map g).sum := by
  induction ms with
  | nil => simp
  | cons m ms ih => simp only [List.map_cons, List.sum_cons, ih]; omega

/-! ### per-site booking inside `deployDay` -/

/-- what the day's records say should have been charged by a per-site method -/
def chargedByRecords (p : MethodP) (out : List OutRec) : Int :=
  (out.map (fun o => chargeIfComplete p o.req o.rep)).sum

theorem serve_cost (p : MethodP) (st : DaySt) (r : Req)
    (h : st.stats.cost = chargedByRecords p st.out) :
    (serve p st r).stats.cost = chargedByRecords p (serve p st r).out := by
  unfold serve
  cases hp : pick st.crews with
  | none => simp [chargedByRecords, h] at *
  | some k =>
    simp only [chargedByRecords, List.map_append, List.sum_append, List.map_cons, List.map_nil,
      List.sum_cons, List.sum_nil] at *
    split <;> split <;> simp [h] <;> omega

theorem serveAll_cost (p : MethodP) (budget : Int) (n : Nat) (reqs : List Req) :
    (serveAll p { crews := initCrews budget n } reqs).stats.cost
      = chargedByRecords p (serveAll p { crews := initCrews budget n } reqs).out :=
  serveAll_induct p (fun st => st.stats.cost = chargedByRecords p st.out) (fun _ => True)
    (fun st r _ h => serve_cost p st r h) reqs _ (fun _ _ => trivial) (by simp [chargedByRecords])

theorem serveAll_crews_out (p : MethodP) (budget : Int) (n : Nat) (reqs : List Req) :
    (deployDay p budget n reqs).crews = (serveAll p { crews := initCrews budget n } reqs).crews ∧
    (deployDay p budget n reqs).out = (serveAll p { crews := initCrews budget n } reqs).out := by
  unfold deployDay; exact ⟨finalize_crews _ _ _, finalize_out _ _ _⟩

/-! ### repair cost of one emission -/

open LdarModel.Emission

theorem tag_status (p : Params) (d : Int) (e : TagEv) (s : State) : (tag p d e s).status = s.status := by
  unfold tag detectRec; grind

theorem tags_status (p : Params) (d : Int) (evs : List TagEv) (s : State) :
    (evs.foldl (fun s e => tag p d e s) s).status = s.status := by
  induction evs generalizing s with
  | nil => rfl
  | cons e evs ih => simp only [List.foldl_cons]; rw [ih, tag_status]

theorem tag_fixed (p : Params) (d : Int) (e : TagEv) (s : State) (h : s.status ≠ .active) :
    tag p d e s = s := by
  unfold tag; simp [h]

theorem tags_fixed (p : Params) (d : Int) (evs : List TagEv) (s : State) (h : s.status ≠ .active) :
    evs.foldl (fun s e => tag p d e s) s = s := by
  induction evs generalizing s with
  | nil => rfl
  | cons e evs ih => simp only [List.foldl_cons]; rw [tag_fixed p d e s h]; exact ih s h

/-- a repaired emission is never touched again -/
theorem day_repaired_fixed (p : Params) (d : Int) (evs : List TagEv) (s : State)
    (h : s.status = .repaired) : day p d evs s = s := by
  unfold day
  have ha : activate p d s = s := by unfold activate; simp [h]
  rw [ha, tags_fixed p d evs s (by simp [h])]
  unfold update; simp [h]

/-- the state `update` sees on day `n` -/
def mid (p : Params) (ev : Nat → List TagEv) (n : Nat) : State :=
  (ev n).foldl (fun s e => tag p n e s) (activate p n (run p ev n))

theorem run_succ (p : Params) (ev : Nat → List TagEv) (n : Nat) :
    run p ev (n + 1) = update p (mid p ev n) := rfl

theorem mid_inv (p : Params) (hr : p.repairable = true) (ev : Nat → List TagEv) (n : Nat) :
    InvMid p n (mid p ev n) :=
  tags_mid p n (ev n) _ (activate_mid p n _ (run_inv p hr ev n))

theorem mid_repaired_iff (p : Params) (ev : Nat → List TagEv) (n : Nat) :
    (mid p ev n).status = .repaired ↔ (run p ev n).status = .repaired := by
  unfold mid
  rw [tags_status]
  unfold activate
  split <;> simp_all

/-- the booking of a day, read off the status change of that day: a program repair books the
repair cost, a natural repair the natural repair cost, nothing else books anything -/
theorem bookDay_spec (p : Params) (hr : p.repairable = true) (cost : Int) (ev : Nat → List TagEv) (n : Nat) :
    bookDay p cost ev n =
      if (run p ev n).status ≠ .repaired ∧ (run p ev (n + 1)).status = .repaired then
        (if (run p ev (n + 1)).by_ ≠ .natural then (cost, 0) else (0, cost))
      else (0, 0) := by
  have hm := mid_inv p hr ev n
  have hiff := mid_repaired_iff p ev n
  have hs := run_succ p ev n
  have tf := toggle_frame p
  unfold bookDay
  change bookOnUpdate p cost (mid p ev n) = _
  rw [hs]
  unfold InvMid at hm
  generalize mid p ev n = s at *
  generalize (run p ev n).status = st0 at *
  unfold bookOnUpdate update endedAt
  simp only [hr]
  cases hst : s.status <;> simp only [hst] at hm hiff ⊢
  · simp; grind
  · by_cases ht : s.tagged = true
    · by_cases h1 : s.dst + 1 ≥ p.repairDelay + s.trd
      · simp [ht, h1]; grind
      · by_cases h2 : s.activeDays + 1 + b4 p ≥ p.nrd
        · simp [ht, h1, h2]; grind
        · have := tf { s with activeDays := s.activeDays + 1, dst := s.dst + 1 }
          simp [ht, h1, h2]; grind
    · by_cases h2 : s.activeDays + 1 + b4 p ≥ p.nrd
      · simp [ht, h2]; grind
      · have := tf { s with activeDays := s.activeDays + 1 }
        simp [ht, h2]; grind
  · simp; grind
  · simp; grind

/-- nobody tags in a run without tag events -/
theorem noEvents_untagged (p : Params) (n : Nat) :
    (run p noEvents n).status ≠ .repaired → (run p noEvents n).tagged = false := by
  induction n with
  | zero => simp [run, init]
  | succ n ih =>
    have tf := toggle_frame p
    simp only [run, day, noEvents, List.foldl_nil] at *
    unfold update activate endedAt
    by_cases hr : p.repairable = true <;> simp only [hr] <;> grind

end LdarModel.Cost
