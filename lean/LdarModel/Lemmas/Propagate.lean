import LdarModel.Model.Propagate
/-
Helper lemmas for the propagation model: dictionary algebra (`get` after `set`, after one level,
after scaling), the un-prefixing loop of the source level, sums of exact rationals.
Core Lean only (`Rat` is core; `grind` decides the field identities).
-/
namespace LdarModel.Propagate

set_option linter.unusedSimpArgs false
set_option linter.unusedSectionVars false

variable {κ : Type} [DecidableEq κ]

/-! ### resolve -/

@[simp] theorem resolve_nil {V : Type} (g : V) : resolve [] g = g := rfl

@[simp] theorem resolve_cons {V : Type} (o : Option V) (l : List (Option V)) (g : V) :
    resolve (o :: l) g = resolve l (o.getD g) := rfl

theorem resolve_append {V : Type} (l1 l2 : List (Option V)) (g : V) :
    resolve (l1 ++ l2) g = resolve l2 (resolve l1 g) := by
  simp [resolve, List.foldl_append]

theorem resolve_all_none {V : Type} (l : List (Option V)) (g : V) (h : ∀ o ∈ l, o = none) :
    resolve l g = g := by
  induction l generalizing g with
  | nil => rfl
  | cons o l ih =>
    have ho : o = none := h o (by simp)
    subst ho
    simpa using ih g (fun o' ho' => h o' (by simp [ho']))

/-! ### dictionaries -/

@[simp] theorem Dict.get_set_eq (d : Dict κ) (k : κ) (v : PV) : (d.set k v).get k = v := by
  simp [Dict.get, Dict.set, List.lookup]

theorem Dict.get_set_ne (d : Dict κ) {k k' : κ} (v : PV) (h : k ≠ k') :
    (d.set k' v).get k = d.get k := by
  have : (k == k') = false := by simpa using h
  simp [Dict.get, Dict.set, List.lookup, this]

theorem Dict.get_set (d : Dict κ) (k k' : κ) (v : PV) :
    (d.set k' v).get k = if k = k' then v else d.get k := by
  by_cases h : k = k'
  · subst h; simp
  · simp [h, Dict.get_set_ne d v h]

theorem Dict.keys_set (d : Dict κ) (k : κ) (v : PV) : (d.set k v).keys = k :: d.keys := rfl

/-- lookup in a dictionary built by `map` over its key list -/
theorem Dict.get_map_keys (keys : List κ) (f : κ → PV) (k : κ) :
    Dict.get (keys.map (fun k => (k, f k))) k = if k ∈ keys then f k else .nul := by
  induction keys with
  | nil => simp [Dict.get]
  | cons a as ih =>
    by_cases h : k = a
    · subst h; simp [Dict.get, List.lookup]
    · have hb : (k == a) = false := by simpa using h
      have : Dict.get ((a, f a) :: as.map (fun k => (k, f k))) k
          = Dict.get (as.map (fun k => (k, f k))) k := by
        simp [Dict.get, List.lookup, hb]
      simp only [List.map_cons, this, ih, List.mem_cons, h, false_or]

theorem Dict.get_append (d1 d2 : Dict κ) (k : κ) :
    Dict.get (d1 ++ d2) k = if k ∈ d1.keys then d1.get k else d2.get k := by
  induction d1 with
  | nil => simp [Dict.get, Dict.keys]
  | cons e es ih =>
    obtain ⟨a, v⟩ := e
    by_cases h : k = a
    · subst h; simp [Dict.get, Dict.keys, List.lookup]
    · have hb : (k == a) = false := by simpa using h
      have h1 : Dict.get ((a, v) :: es ++ d2) k = Dict.get (es ++ d2) k := by
        simp [Dict.get, List.lookup, hb]
      have h2 : Dict.get ((a, v) :: es) k = Dict.get es k := by
        simp [Dict.get, List.lookup, hb]
      have h3 : (k ∈ Dict.keys ((a, v) :: es)) ↔ k ∈ Dict.keys es := by
        simp [Dict.keys, h]
      simp only [h1, h2, ih, h3]

/-! ### one level -/

theorem get_updFrom (col : κ → String) (keys : List κ) (row : Row) (d : Dict κ) (k : κ) :
    (updFrom col keys row d).get k
      = if k ∈ keys then (row.get? (col k)).getD (d.get k) else d.get k := by
  induction keys generalizing d with
  | nil => simp [updFrom]
  | cons a as ih =>
    have hstep : updFrom col (a :: as) row d
        = updFrom col as row (match row.get? (col a) with
                              | some v => d.set a v
                              | none => d) := rfl
    rw [hstep, ih]
    by_cases hka : k = a
    · subst hka
      cases hr : row.get? (col k) with
      | none => simp
      | some v => simp
    · cases hr : row.get? (col a) with
      | none => simp [hka]
      | some v => simp [hka, Dict.get_set_ne _ _ hka]

theorem keys_updFrom_sub (col : κ → String) (keys : List κ) (row : Row) (d : Dict κ) (k : κ)
    (h : k ∈ (updFrom col keys row d).keys) : k ∈ keys ∨ k ∈ d.keys := by
  induction keys generalizing d with
  | nil => exact Or.inr (by simpa [updFrom] using h)
  | cons a as ih =>
    have hstep : updFrom col (a :: as) row d
        = updFrom col as row (match row.get? (col a) with
                              | some v => d.set a v
                              | none => d) := rfl
    rw [hstep] at h
    rcases ih _ h with h1 | h1
    · exact Or.inl (by simp [h1])
    · cases hr : row.get? (col a) with
      | none => rw [hr] at h1; exact Or.inr h1
      | some v =>
        rw [hr] at h1
        simp only [Dict.keys_set, List.mem_cons] at h1
        rcases h1 with h1 | h1
        · exact Or.inl (by simp [h1])
        · exact Or.inr h1

theorem keys_updFrom_mono (col : κ → String) (keys : List κ) (row : Row) (d : Dict κ) (k : κ)
    (h : k ∈ d.keys) : k ∈ (updFrom col keys row d).keys := by
  induction keys generalizing d with
  | nil => simpa [updFrom] using h
  | cons a as ih =>
    have hstep : updFrom col (a :: as) row d
        = updFrom col as row (match row.get? (col a) with
                              | some v => d.set a v
                              | none => d) := rfl
    rw [hstep]
    apply ih
    cases hr : row.get? (col a) with
    | none => exact h
    | some v => simp [Dict.keys_set, h]

/-! ### scaling -/

theorem get_scaleKeys (keys : List κ) (n : Rat) (d : Dict κ) (k : κ) :
    (scaleKeys keys n d).get k = if k ∈ keys then (d.get k).divBy n else d.get k := by
  induction d with
  | nil => simp [scaleKeys, Dict.get, PV.divBy]
  | cons e es ih =>
    obtain ⟨a, v⟩ := e
    have ih' : Dict.get (List.map (fun e => if keys.contains e.1 = true then (e.1, e.2.divBy n) else e) es) k
        = if k ∈ keys then (Dict.get es k).divBy n else Dict.get es k := ih
    by_cases hka : k = a
    · subst hka
      by_cases hk : k ∈ keys
      · simp [scaleKeys, Dict.get, List.lookup, hk]
      · simp [scaleKeys, Dict.get, List.lookup, hk]
    · have hb : (k == a) = false := by simpa using hka
      by_cases ha : a ∈ keys
      · simp only [scaleKeys, List.map_cons, List.contains_iff_mem, ha, if_true]
        simp only [scaleKeys, List.contains_iff_mem] at ih'
        simp only [Dict.get, List.lookup, hb] at ih' ⊢
        exact ih'
      · simp only [scaleKeys, List.map_cons, List.contains_iff_mem, ha, if_false]
        simp only [scaleKeys, List.contains_iff_mem] at ih'
        simp only [Dict.get, List.lookup, hb] at ih' ⊢
        exact ih'

theorem keys_scaleKeys (keys : List κ) (n : Rat) (d : Dict κ) :
    (scaleKeys keys n d).keys = d.keys := by
  induction d with
  | nil => rfl
  | cons e es ih =>
    simp only [scaleKeys, Dict.keys, List.map_cons, List.map_map] at ih ⊢
    rw [ih]
    split <;> rfl

/-! ### component split -/

theorem get_divStep (key : String) (nC : Nat) (d : Dict String) (k : String) :
    (divStep key nC d).get k = if k = key then (d.get k).divPos nC else d.get k := by
  unfold divStep
  by_cases hk : k = key
  · subst hk
    cases hv : d.get k with
    | nul => simp [PV.divPos, hv]
    | tok i => simp [PV.divPos, hv]
    | num q =>
      by_cases hq : 0 < q
      · simp [PV.divPos, hq]
      · simp [PV.divPos, hq, hv]
  · cases hv : d.get key with
    | nul => simp [hk]
    | tok i => simp [hk]
    | num q =>
      by_cases hq : 0 < q
      · simp [hq, hk, Dict.get_set_ne _ _ hk]
      · simp [hq, hk]

theorem keys_divStep_sub (key : String) (nC : Nat) (d : Dict String) (k : String)
    (h : k ∈ (divStep key nC d).keys) : k = key ∨ k ∈ d.keys := by
  unfold divStep at h
  cases hv : d.get key with
  | nul => rw [hv] at h; exact Or.inr h
  | tok i => rw [hv] at h; exact Or.inr h
  | num q =>
    rw [hv] at h
    by_cases hq : 0 < q
    · simp only [hq, if_true, Dict.keys_set, List.mem_cons] at h
      exact h
    · simp only [hq, if_false] at h
      exact Or.inr h

theorem keys_divStep_mono (key : String) (nC : Nat) (d : Dict String) (k : String)
    (h : k ∈ d.keys) : k ∈ (divStep key nC d).keys := by
  unfold divStep
  cases hv : d.get key with
  | nul => exact h
  | tok i => exact h
  | num q =>
    by_cases hq : 0 < q
    · simp [hq, Dict.keys_set, h]
    · simp [hq, h]

theorem get_compDict (tb : Tables) (nC : Nat) (d : Dict String) (k : String)
    (hne : tb.eqRepEpr ≠ tb.eqNonRepEpr) :
    (compDict tb nC d).get k
      = if k = tb.eqRepEpr ∨ k = tb.eqNonRepEpr then (d.get k).divPos nC else d.get k := by
  unfold compDict
  rw [get_divStep, get_divStep]
  by_cases h1 : k = tb.eqRepEpr
  · subst h1; simp [hne]
  · by_cases h2 : k = tb.eqNonRepEpr
    · subst h2
      have : tb.eqNonRepEpr ≠ tb.eqRepEpr := fun h => hne h.symm
      simp [this]
    · simp [h1, h2]

theorem keys_compDict_sub (tb : Tables) (nC : Nat) (d : Dict String) (k : String)
    (h : k ∈ (compDict tb nC d).keys) : k = tb.eqRepEpr ∨ k = tb.eqNonRepEpr ∨ k ∈ d.keys := by
  unfold compDict at h
  rcases keys_divStep_sub _ _ _ _ h with h | h
  · exact Or.inl h
  · exact Or.inr (keys_divStep_sub _ _ _ _ h)

theorem keys_compDict_mono (tb : Tables) (nC : Nat) (d : Dict String) (k : String)
    (h : k ∈ d.keys) : k ∈ (compDict tb nC d).keys :=
  keys_divStep_mono _ _ _ _ (keys_divStep_mono _ _ _ _ h)

/-! ### the un-prefixing loop -/

/-- once the un-prefixed key holds the right value it keeps it: later rounds either do not write it
or write the same value again, and never write the prefixed key -/
theorem foldl_unprefix_preserve (pre : String) (R : Row) (sk key0 : String)
    (hu : removeAll pre key0 = sk) (l : List String) (acc : Dict String)
    (h2 : ∀ k' ∈ l, removeAll pre k' = sk → k' = key0)
    (h3 : ∀ k' ∈ l, removeAll pre k' ≠ key0)
    (hg : acc.get sk = (R.get? sk).getD (acc.get key0)) :
    (l.foldl (unprefixStep pre R) acc).get sk = (R.get? sk).getD (acc.get key0)
      ∧ (l.foldl (unprefixStep pre R) acc).get key0 = acc.get key0 := by
  induction l generalizing acc with
  | nil => exact ⟨hg, rfl⟩
  | cons a as ih =>
    have h0 : (unprefixStep pre R acc a).get key0 = acc.get key0 := by
      unfold unprefixStep
      exact Dict.get_set_ne _ _ (fun h => h3 a (by simp) h.symm)
    have h1 : (unprefixStep pre R acc a).get sk
        = (R.get? sk).getD ((unprefixStep pre R acc a).get key0) := by
      rw [h0]
      by_cases hsa : removeAll pre a = sk
      · have : a = key0 := h2 a (by simp) hsa
        subst this
        unfold unprefixStep
        rw [hsa]; simp
      · unfold unprefixStep
        rw [Dict.get_set_ne _ _ (fun h => hsa h.symm)]
        exact hg
    have := ih (unprefixStep pre R acc a) (fun k' hk' => h2 k' (by simp [hk']))
      (fun k' hk' => h3 k' (by simp [hk'])) h1
    simp only [List.foldl_cons]
    rw [h0] at this
    exact this

theorem foldl_unprefix_get (pre : String) (R : Row) (sk key0 : String)
    (hu : removeAll pre key0 = sk) (l : List String) (acc : Dict String)
    (hmem : key0 ∈ l)
    (h2 : ∀ k' ∈ l, removeAll pre k' = sk → k' = key0)
    (h3 : ∀ k' ∈ l, removeAll pre k' ≠ key0) :
    (l.foldl (unprefixStep pre R) acc).get sk = (R.get? sk).getD (acc.get key0) := by
  induction l generalizing acc with
  | nil => simp at hmem
  | cons a as ih =>
    have h0 : (unprefixStep pre R acc a).get key0 = acc.get key0 := by
      unfold unprefixStep
      exact Dict.get_set_ne _ _ (fun h => h3 a (by simp) h.symm)
    simp only [List.foldl_cons]
    by_cases ha : a = key0
    · subst ha
      have h1 : (unprefixStep pre R acc a).get sk
          = (R.get? sk).getD ((unprefixStep pre R acc a).get a) := by
        rw [h0]; unfold unprefixStep; rw [hu]; simp
      have := (foldl_unprefix_preserve pre R sk a hu as (unprefixStep pre R acc a)
        (fun k' hk' => h2 k' (by simp [hk'])) (fun k' hk' => h3 k' (by simp [hk'])) h1).1
      rw [h0] at this
      exact this
    · have hm : key0 ∈ as := by
        rcases List.mem_cons.mp hmem with h | h
        · exact absurd h.symm ha
        · exact h
      have := ih (unprefixStep pre R acc a) hm (fun k' hk' => h2 k' (by simp [hk']))
        (fun k' hk' => h3 k' (by simp [hk']))
      rw [h0] at this
      exact this

/-- value of an un-prefixed key after the source level, from facts about the keys of the dictionary -/
theorem get_unprefixLoop (pre : String) (R : Row) (d : Dict String) (sk key0 : String)
    (hu : removeAll pre key0 = sk) (hin : hasInfix pre key0 = true) (hmem : key0 ∈ d.keys)
    (h2 : ∀ k' ∈ d.keys, hasInfix pre k' = true → removeAll pre k' = sk → k' = key0)
    (h3 : ∀ k' ∈ d.keys, hasInfix pre k' = true → removeAll pre k' ≠ key0) :
    (unprefixLoop pre R d).get sk = (R.get? sk).getD (d.get key0) := by
  unfold unprefixLoop
  apply foldl_unprefix_get pre R sk key0 hu
  · exact List.mem_filter.mpr ⟨hmem, by simpa using hin⟩
  · intro k' hk' h
    have := List.mem_filter.mp hk'
    exact h2 k' this.1 (by simpa using this.2) h
  · intro k' hk'
    have := List.mem_filter.mp hk'
    exact h3 k' this.1 (by simpa using this.2)

theorem foldl_unprefix_other (pre : String) (R : Row) (k : String) (l : List String)
    (acc : Dict String) (h : ∀ k0 ∈ l, removeAll pre k0 ≠ k) :
    (l.foldl (unprefixStep pre R) acc).get k = acc.get k := by
  induction l generalizing acc with
  | nil => rfl
  | cons a as ih =>
    simp only [List.foldl_cons]
    rw [ih _ (fun k0 hk0 => h k0 (by simp [hk0]))]
    unfold unprefixStep
    exact Dict.get_set_ne _ _ (fun hh => h a (by simp) hh.symm)

/-- a key no round writes keeps its value -/
theorem get_unprefixLoop_other (pre : String) (R : Row) (d : Dict String) (k : String)
    (h : ∀ k0 ∈ d.keys, hasInfix pre k0 = true → removeAll pre k0 ≠ k) :
    (unprefixLoop pre R d).get k = d.get k := by
  unfold unprefixLoop
  apply foldl_unprefix_other
  intro k0 hk0
  have := List.mem_filter.mp hk0
  exact h k0 this.1 (by simpa using this.2)

theorem foldl_unprefix_keys (pre : String) (R : Row) (l : List String) (acc : Dict String) (k : String)
    (h : k ∈ (l.foldl (unprefixStep pre R) acc).keys) :
    k ∈ acc.keys ∨ ∃ k0 ∈ l, removeAll pre k0 = k := by
  induction l generalizing acc with
  | nil => exact Or.inl h
  | cons a as ih =>
    simp only [List.foldl_cons] at h
    rcases ih _ h with h1 | ⟨k0, hk0, hk⟩
    · unfold unprefixStep at h1
      simp only [Dict.keys_set, List.mem_cons] at h1
      rcases h1 with h1 | h1
      · exact Or.inr ⟨a, by simp, h1.symm⟩
      · exact Or.inl h1
    · exact Or.inr ⟨k0, by simp [hk0], hk⟩

theorem foldl_unprefix_keys_mono (pre : String) (R : Row) (l : List String) (acc : Dict String)
    (k : String) (h : k ∈ acc.keys) : k ∈ (l.foldl (unprefixStep pre R) acc).keys := by
  induction l generalizing acc with
  | nil => exact h
  | cons a as ih =>
    simp only [List.foldl_cons]
    apply ih
    unfold unprefixStep
    simp [Dict.keys_set, h]

/-- the keys after the loop: the old ones and the un-prefixed images of those containing the prefix -/
theorem keys_unprefixLoop_sub (pre : String) (R : Row) (d : Dict String) (k : String)
    (h : k ∈ (unprefixLoop pre R d).keys) :
    k ∈ d.keys ∨ ∃ k0 ∈ d.keys, hasInfix pre k0 = true ∧ removeAll pre k0 = k := by
  unfold unprefixLoop at h
  rcases foldl_unprefix_keys pre R _ d k h with h1 | ⟨k0, hk0, hk⟩
  · exact Or.inl h1
  · have := List.mem_filter.mp hk0
    exact Or.inr ⟨k0, this.1, by simpa using this.2, hk⟩

theorem keys_unprefixLoop_mono (pre : String) (R : Row) (d : Dict String) (k : String)
    (h : k ∈ d.keys) : k ∈ (unprefixLoop pre R d).keys :=
  foldl_unprefix_keys_mono pre R _ d k h

/-! ### method keys and the global dictionaries -/

theorem mem_methKeys (methods ps : List String) (me p : String) :
    (me, p) ∈ methKeys methods ps ↔ me ∈ methods ∧ p ∈ ps := by
  simp [methKeys, List.mem_flatMap, List.mem_map]

theorem get_globalPlain (tb : Tables) (G : Dict String) (k : String) :
    (globalPlain tb G).get k = if k ∈ tb.globalPlain then G.get k else .nul := by
  unfold globalPlain
  exact Dict.get_map_keys tb.globalPlain (fun k => G.get k) k

theorem keys_globalPlain (tb : Tables) (G : Dict String) : (globalPlain tb G).keys = tb.globalPlain := by
  simp [globalPlain, Dict.keys, Function.comp_def]

theorem get_deployPart (methods : List String) (sd me p : String) :
    Dict.get (methods.map (fun m => (((m, sd) : MKey), PV.tru))) (me, p)
      = if me ∈ methods ∧ p = sd then PV.tru else .nul := by
  induction methods with
  | nil => simp [Dict.get]
  | cons a as ih =>
    by_cases h : me = a ∧ p = sd
    · obtain ⟨h1, h2⟩ := h
      subst h1; subst h2
      simp [Dict.get, List.lookup]
    · have hne : ((me, p) : MKey) ≠ (a, sd) := by
        intro hh
        exact h ⟨congrArg Prod.fst hh, congrArg Prod.snd hh⟩
      have : Dict.get (((a, sd), PV.tru) :: as.map (fun m => (((m, sd) : MKey), PV.tru))) (me, p)
          = Dict.get (as.map (fun m => (((m, sd) : MKey), PV.tru))) (me, p) :=
        Dict.get_set_ne (as.map (fun m => (((m, sd) : MKey), PV.tru))) PV.tru hne
      simp only [List.map_cons, this, ih, List.mem_cons]
      by_cases h1 : me = a
      · subst h1
        have h2 : p ≠ sd := fun h2 => h ⟨rfl, h2⟩
        simp [h2]
      · simp [h1]

theorem get_globalMeth (tb : Tables) (methods : List String) (Gm : Dict MKey) (me p : String) :
    (globalMeth tb methods Gm).get (me, p)
      = if me ∈ methods ∧ p ∈ tb.globalMeth then gmVal tb Gm (me, p)
        else if me ∈ methods ∧ p = tb.siteDeploy then PV.tru else .nul := by
  unfold globalMeth
  rw [Dict.get_append]
  have hk : Dict.keys ((methKeys methods tb.globalMeth).map (fun k => (k, gmVal tb Gm k)))
      = methKeys methods tb.globalMeth := by simp [Dict.keys, Function.comp_def]
  rw [hk, Dict.get_map_keys, get_deployPart]
  simp only [mem_methKeys]
  by_cases h : me ∈ methods ∧ p ∈ tb.globalMeth
  · simp [h]
  · simp [h]

/-! ### exact sums -/

theorem sum_replicate_rat (c : Nat) (y : Rat) : (List.replicate c y).sum = (c : Rat) * y := by
  induction c with
  | zero => simp
  | succ n ih =>
    rw [List.replicate_succ, List.sum_cons, ih]
    have : ((n + 1 : Nat) : Rat) = (n : Rat) + 1 := by simp
    rw [this]
    grind

theorem sum_map_const_rat {α : Type} (l : List α) (y : Rat) :
    (l.map (fun _ => y)).sum = (l.length : Rat) * y := by
  induction l with
  | nil => simp
  | cons a as ih =>
    rw [List.map_cons, List.sum_cons, ih, List.length_cons]
    have : ((as.length + 1 : Nat) : Rat) = (as.length : Rat) + 1 := by simp
    rw [this]
    grind

theorem sumPV_go (qs : List Rat) (a : Rat) :
    (qs.map PV.num).foldl sumStep (some a) = some (a + qs.sum) := by
  induction qs generalizing a with
  | nil => simp [Rat.add_zero]
  | cons q qs ih =>
    simp only [List.map_cons, List.foldl_cons, List.sum_cons, sumStep]
    rw [ih]
    congr 1
    grind

theorem sumPV_nums (qs : List Rat) : sumPV (qs.map PV.num) = some qs.sum := by
  unfold sumPV
  rw [sumPV_go]
  simp [Rat.zero_add]

/-! ### well-formedness of the key tables (decidable; discharged for the generated tables by `decide`) -/

/-- the keys the source level reads for a repairable / non-repairable source -/
def Tables.srcKeysFor (tb : Tables) (rep : Bool) : List String :=
  [tb.srcErs, tb.srcEpr, tb.srcDur, tb.srcMulti] ++ (if rep then [tb.srcRd, tb.srcRc] else [])

def Tables.prefixOf (tb : Tables) (rep : Bool) : String := if rep then tb.repPrefix else tb.nonRepPrefix

/-- every propagating parameter uses the same key at every level where it may be specified -/
abbrev Tables.SameKeys (tb : Tables) : Prop :=
  (∀ k ∈ tb.globalPlain, k ∈ tb.typePlain ∧ k ∈ tb.sitePlain ∧ k ∈ tb.eqCleanPlain) ∧
  (∀ k ∈ tb.typePlain, k ∈ tb.globalPlain) ∧ (∀ k ∈ tb.sitePlain, k ∈ tb.globalPlain) ∧
  (∀ k ∈ tb.eqCleanPlain, k ∈ tb.globalPlain) ∧
  (∀ p ∈ tb.allMeth, p ∈ tb.typeMeth ∧ p ∈ tb.siteMeth) ∧
  (∀ p ∈ tb.typeMeth, p ∈ tb.allMeth) ∧ (∀ p ∈ tb.siteMeth, p ∈ tb.allMeth) ∧
  (∀ p ∈ tb.groupMeth, p ∈ tb.eqCleanMeth) ∧ (∀ p ∈ tb.eqCleanMeth, p ∈ tb.groupMeth)

/-- the scaled entries are exactly the two production rates resp. survey time and cost, listed once -/
abbrev Tables.ScaleOK (tb : Tables) : Prop :=
  tb.scalePlain.Nodup ∧ tb.scaleMeth.Nodup ∧
  (∀ k ∈ tb.scalePlain, k = tb.eqRepEpr ∨ k = tb.eqNonRepEpr) ∧
  tb.eqRepEpr ∈ tb.scalePlain ∧ tb.eqNonRepEpr ∈ tb.scalePlain ∧
  tb.eqRepEpr ∈ tb.globalPlain ∧ tb.eqNonRepEpr ∈ tb.globalPlain ∧
  tb.eqRepEpr ≠ tb.eqNonRepEpr ∧
  tb.siteRepEpr = tb.eqRepEpr ∧ tb.siteNonRepEpr = tb.eqNonRepEpr ∧
  tb.eqRepEpr = tb.repPrefix ++ tb.srcEpr ∧ tb.eqNonRepEpr = tb.nonRepPrefix ++ tb.srcEpr ∧
  (∀ p ∈ tb.scaleMeth, p = tb.eqTimeKey ∨ p = tb.eqCostKey) ∧
  tb.eqTimeKey ∈ tb.scaleMeth ∧ tb.eqCostKey ∈ tb.scaleMeth ∧
  (∀ rep ∈ [true, false], ∀ sk ∈ tb.srcKeysFor rep,
      (tb.prefixOf rep ++ sk ∈ tb.scalePlain ↔ sk = tb.srcEpr))

/-- what is popped where, and that coverage is neither scaled nor popped before the source -/
abbrev Tables.PopsOK (tb : Tables) : Prop :=
  tb.freqKey ∈ tb.globalMeth ∧ tb.monthsKey ∈ tb.globalMeth ∧ tb.yearsKey ∈ tb.globalMeth ∧
  tb.deployKey = tb.siteDeploy ∧ tb.siteDeploy ∉ tb.globalMeth ∧
  tb.eqTimeKey ∈ tb.globalMeth ∧ tb.eqCostKey ∈ tb.globalMeth ∧
  tb.eqTimeKey ∈ tb.groupMeth ∧ tb.eqCostKey ∈ tb.groupMeth ∧
  tb.srcSpatial ∈ tb.globalMeth ∧ tb.srcTemporal ∈ tb.globalMeth ∧
  tb.srcSpatial ∈ tb.sourceMeth ∧ tb.srcTemporal ∈ tb.sourceMeth ∧
  tb.srcSpatial ∉ tb.scaleMeth ∧ tb.srcTemporal ∉ tb.scaleMeth ∧
  tb.srcErs ≠ tb.srcEpr ∧ tb.srcDur ≠ tb.srcEpr ∧ tb.srcMulti ≠ tb.srcEpr ∧
  tb.srcRd ≠ tb.srcEpr ∧ tb.srcRc ≠ tb.srcEpr

/-- the un-prefixing rule maps each prefixed key to the key the source reads, and to nothing else -/
abbrev Tables.UnprefixOK (tb : Tables) : Prop :=
  ∀ rep ∈ [true, false], ∀ sk ∈ tb.srcKeysFor rep,
    (tb.prefixOf rep ++ sk) ∈ tb.globalPlain ∧
    hasInfix (tb.prefixOf rep) (tb.prefixOf rep ++ sk) = true ∧
    removeAll (tb.prefixOf rep) (tb.prefixOf rep ++ sk) = sk ∧
    (∀ k' ∈ tb.globalPlain, hasInfix (tb.prefixOf rep) k' = true →
        removeAll (tb.prefixOf rep) k' = sk → k' = tb.prefixOf rep ++ sk) ∧
    (∀ k' ∈ tb.globalPlain, hasInfix (tb.prefixOf rep) k' = true →
        removeAll (tb.prefixOf rep) k' ≠ tb.prefixOf rep ++ sk)

/-- the two sources of a two-kind placeholder component share one dictionary: what the repairable
source's un-prefixing writes into it is invisible to the non-repairable source -/
abbrev Tables.SharedOK (tb : Tables) : Prop :=
  (∀ k ∈ tb.globalPlain, hasInfix tb.repPrefix k = true →
      hasInfix tb.nonRepPrefix (removeAll tb.repPrefix k) = false) ∧
  (∀ k ∈ tb.globalPlain, hasInfix tb.repPrefix k = true →
      ∀ sk ∈ tb.srcKeysFor false, removeAll tb.repPrefix k ≠ tb.nonRepPrefix ++ sk)

abbrev Tables.WF (tb : Tables) : Prop := tb.SameKeys ∧ tb.ScaleOK ∧ tb.PopsOK ∧ tb.UnprefixOK

/-- named components of `PopsOK` -/
structure Tables.Pops (tb : Tables) : Prop where
  freqG : tb.freqKey ∈ tb.globalMeth
  monthsG : tb.monthsKey ∈ tb.globalMeth
  yearsG : tb.yearsKey ∈ tb.globalMeth
  deployEq : tb.deployKey = tb.siteDeploy
  deployNotG : tb.siteDeploy ∉ tb.globalMeth
  timeG : tb.eqTimeKey ∈ tb.globalMeth
  costG : tb.eqCostKey ∈ tb.globalMeth
  timeGrp : tb.eqTimeKey ∈ tb.groupMeth
  costGrp : tb.eqCostKey ∈ tb.groupMeth
  spG : tb.srcSpatial ∈ tb.globalMeth
  tmG : tb.srcTemporal ∈ tb.globalMeth
  spSrc : tb.srcSpatial ∈ tb.sourceMeth
  tmSrc : tb.srcTemporal ∈ tb.sourceMeth
  spNotScaled : tb.srcSpatial ∉ tb.scaleMeth
  tmNotScaled : tb.srcTemporal ∉ tb.scaleMeth
  ersNe : tb.srcErs ≠ tb.srcEpr
  durNe : tb.srcDur ≠ tb.srcEpr
  multiNe : tb.srcMulti ≠ tb.srcEpr
  rdNe : tb.srcRd ≠ tb.srcEpr
  rcNe : tb.srcRc ≠ tb.srcEpr

theorem Tables.PopsOK.named {tb : Tables} (h : tb.PopsOK) : tb.Pops := by
  obtain ⟨a1, a2, a3, a4, a5, a6, a7, a8, a9, a10, a11, a12, a13, a14, a15, a16, a17, a18, a19, a20⟩ := h
  exact ⟨a1, a2, a3, a4, a5, a6, a7, a8, a9, a10, a11, a12, a13, a14, a15, a16, a17, a18, a19, a20⟩

/-- named components of `ScaleOK` -/
structure Tables.Scale (tb : Tables) : Prop where
  nodupPlain : tb.scalePlain.Nodup
  nodupMeth : tb.scaleMeth.Nodup
  plainSub : ∀ k ∈ tb.scalePlain, k = tb.eqRepEpr ∨ k = tb.eqNonRepEpr
  repIn : tb.eqRepEpr ∈ tb.scalePlain
  nonIn : tb.eqNonRepEpr ∈ tb.scalePlain
  repG : tb.eqRepEpr ∈ tb.globalPlain
  nonG : tb.eqNonRepEpr ∈ tb.globalPlain
  ne : tb.eqRepEpr ≠ tb.eqNonRepEpr
  siteRep : tb.siteRepEpr = tb.eqRepEpr
  siteNon : tb.siteNonRepEpr = tb.eqNonRepEpr
  repEq : tb.eqRepEpr = tb.repPrefix ++ tb.srcEpr
  nonEq : tb.eqNonRepEpr = tb.nonRepPrefix ++ tb.srcEpr
  methSub : ∀ p ∈ tb.scaleMeth, p = tb.eqTimeKey ∨ p = tb.eqCostKey
  timeIn : tb.eqTimeKey ∈ tb.scaleMeth
  costIn : tb.eqCostKey ∈ tb.scaleMeth
  scaledIff : ∀ rep ∈ [true, false], ∀ sk ∈ tb.srcKeysFor rep,
      (tb.prefixOf rep ++ sk ∈ tb.scalePlain ↔ sk = tb.srcEpr)

theorem Tables.ScaleOK.named {tb : Tables} (h : tb.ScaleOK) : tb.Scale := by
  obtain ⟨a1, a2, a3, a4, a5, a6, a7, a8, a9, a10, a11, a12, a13, a14, a15, a16⟩ := h
  exact ⟨a1, a2, a3, a4, a5, a6, a7, a8, a9, a10, a11, a12, a13, a14, a15, a16⟩

/-! ### the dictionaries along one chain site type → site → group → component -/

/-- what a site type row says about a column (`none` without a site type file) -/
def typeGet (typeRow : Option Row) (c : String) : Option PV := typeRow.bind (fun t => t.get? c)

/-- the dictionaries an equipment group works with (after its own overrides) -/
def groupCtx (tb : Tables) (methods : List String) (G : Dict String) (Gm : Dict MKey)
    (typeRow : Option Row) (siteRow eqRow : Row) (nG : Rat) : Dict String × Dict MKey :=
  groupDicts tb methods eqRow
    (scaleKeys tb.scalePlain nG (siteDicts tb methods G Gm typeRow siteRow).1)
    (scaleKeys (methKeys methods tb.scaleMeth) nG (siteDicts tb methods G Gm typeRow siteRow).2)

/-- the dictionary a component of that group hands to its sources -/
def compCtx (tb : Tables) (methods : List String) (G : Dict String) (Gm : Dict MKey)
    (typeRow : Option Row) (siteRow eqRow : Row) (nG : Rat) : Dict String :=
  compDict tb (totalComponents tb eqRow) (groupCtx tb methods G Gm typeRow siteRow eqRow nG).1

theorem get_sitePlain (tb : Tables) (h : tb.SameKeys) (methods : List String) (G : Dict String)
    (Gm : Dict MKey) (typeRow : Option Row) (siteRow : Row) (k : String) (hk : k ∈ tb.globalPlain) :
    (siteDicts tb methods G Gm typeRow siteRow).1.get k
      = resolve [typeGet typeRow k, siteRow.get? k] (G.get k) := by
  have hT := (h.1 k hk).1
  have hS := (h.1 k hk).2.1
  unfold siteDicts
  simp only [resolve_cons, resolve_nil]
  rw [get_updFrom]
  simp only [hS, if_true, id]
  cases typeRow with
  | none => simp [typeGet, get_globalPlain, hk]
  | some t => simp [typeGet, get_updFrom, hT, get_globalPlain, hk]

theorem keys_sitePlain (tb : Tables) (h : tb.SameKeys) (methods : List String) (G : Dict String)
    (Gm : Dict MKey) (typeRow : Option Row) (siteRow : Row) (k : String) :
    k ∈ (siteDicts tb methods G Gm typeRow siteRow).1.keys ↔ k ∈ tb.globalPlain := by
  unfold siteDicts
  constructor
  · intro hk
    rcases keys_updFrom_sub _ _ _ _ _ hk with h1 | h1
    · exact h.2.2.1 k h1
    · cases typeRow with
      | none => simpa [keys_globalPlain] using h1
      | some t =>
        rcases keys_updFrom_sub _ _ _ _ _ h1 with h2 | h2
        · exact h.2.1 k h2
        · simpa [keys_globalPlain] using h2
  · intro hk
    apply keys_updFrom_mono
    cases typeRow with
    | none => simpa [keys_globalPlain] using hk
    | some t =>
      apply keys_updFrom_mono
      simpa [keys_globalPlain] using hk

theorem keys_groupPlain (tb : Tables) (h : tb.SameKeys) (methods : List String) (G : Dict String)
    (Gm : Dict MKey) (typeRow : Option Row) (siteRow eqRow : Row) (nG : Rat) (k : String) :
    k ∈ (groupCtx tb methods G Gm typeRow siteRow eqRow nG).1.keys ↔ k ∈ tb.globalPlain := by
  unfold groupCtx groupDicts
  simp only
  constructor
  · intro hk
    rcases keys_updFrom_sub _ _ _ _ _ hk with h1 | h1
    · rw [keys_scaleKeys] at h1; exact (keys_sitePlain tb h methods G Gm typeRow siteRow k).mp h1
    · rw [keys_scaleKeys] at h1; exact (keys_sitePlain tb h methods G Gm typeRow siteRow k).mp h1
  · intro hk
    apply keys_updFrom_mono
    rw [keys_scaleKeys]
    exact (keys_sitePlain tb h methods G Gm typeRow siteRow k).mpr hk

theorem get_groupPlain (tb : Tables) (h : tb.SameKeys) (methods : List String) (G : Dict String)
    (Gm : Dict MKey) (typeRow : Option Row) (siteRow eqRow : Row) (nG : Rat) (k : String)
    (hk : k ∈ tb.globalPlain) :
    (groupCtx tb methods G Gm typeRow siteRow eqRow nG).1.get k
      = resolve [eqRow.get? k]
          (if k ∈ tb.scalePlain
            then (resolve [typeGet typeRow k, siteRow.get? k] (G.get k)).divBy nG
            else resolve [typeGet typeRow k, siteRow.get? k] (G.get k)) := by
  unfold groupCtx groupDicts
  simp only [resolve_cons, resolve_nil]
  rw [get_updFrom]
  have hmem : k ∈ (scaleKeys tb.scalePlain nG (siteDicts tb methods G Gm typeRow siteRow).1).keys := by
    rw [keys_scaleKeys]; exact (keys_sitePlain tb h methods G Gm typeRow siteRow k).mpr hk
  simp only [hmem, if_true, id]
  rw [get_scaleKeys, get_sitePlain tb h methods G Gm typeRow siteRow k hk]
  simp only [resolve_cons, resolve_nil]

theorem keys_compCtx (tb : Tables) (h : tb.SameKeys) (hs : tb.ScaleOK) (methods : List String)
    (G : Dict String) (Gm : Dict MKey) (typeRow : Option Row) (siteRow eqRow : Row) (nG : Rat)
    (k : String) :
    k ∈ (compCtx tb methods G Gm typeRow siteRow eqRow nG).keys ↔ k ∈ tb.globalPlain := by
  unfold compCtx
  constructor
  · intro hk
    rcases keys_compDict_sub _ _ _ _ hk with h1 | h1 | h1
    · rw [h1]; exact hs.named.repG
    · rw [h1]; exact hs.named.nonG
    · exact (keys_groupPlain tb h methods G Gm typeRow siteRow eqRow nG k).mp h1
  · intro hk
    exact keys_compDict_mono _ _ _ _ ((keys_groupPlain tb h methods G Gm typeRow siteRow eqRow nG k).mpr hk)

theorem mem_scalePlain_iff (tb : Tables) (hs : tb.ScaleOK) (k : String) :
    k ∈ tb.scalePlain ↔ (k = tb.eqRepEpr ∨ k = tb.eqNonRepEpr) := by
  constructor
  · exact hs.named.plainSub k
  · rintro (h | h)
    · rw [h]; exact hs.named.repIn
    · rw [h]; exact hs.named.nonIn

theorem get_compCtx (tb : Tables) (h : tb.SameKeys) (hs : tb.ScaleOK) (methods : List String)
    (G : Dict String) (Gm : Dict MKey) (typeRow : Option Row) (siteRow eqRow : Row) (nG : Rat)
    (k : String) (hk : k ∈ tb.globalPlain) :
    (compCtx tb methods G Gm typeRow siteRow eqRow nG).get k
      = if k ∈ tb.scalePlain
          then (resolve [eqRow.get? k]
                  ((resolve [typeGet typeRow k, siteRow.get? k] (G.get k)).divBy nG)).divPos
                (totalComponents tb eqRow)
          else resolve [typeGet typeRow k, siteRow.get? k, eqRow.get? k] (G.get k) := by
  unfold compCtx
  rw [get_compDict _ _ _ _ hs.named.ne, get_groupPlain tb h methods G Gm typeRow siteRow eqRow nG k hk]
  by_cases hsc : k ∈ tb.scalePlain
  · have := (mem_scalePlain_iff tb hs k).mp hsc
    simp only [hsc, if_true, this]
  · have hn : ¬ (k = tb.eqRepEpr ∨ k = tb.eqNonRepEpr) :=
      fun hh => hsc ((mem_scalePlain_iff tb hs k).mpr hh)
    simp only [hsc, if_false, resolve_cons, resolve_nil]
    rw [if_neg hn]

/-- the global value of a method-specific parameter: from the method's parameter file, `True` for
site deployment -/
def globalMethVal (tb : Tables) (Gm : Dict MKey) (me p : String) : PV :=
  if p ∈ tb.globalMeth then gmVal tb Gm (me, p) else PV.tru

theorem get_siteMeth (tb : Tables) (h : tb.SameKeys) (methods : List String) (G : Dict String)
    (Gm : Dict MKey) (typeRow : Option Row) (siteRow : Row) (me p : String)
    (hme : me ∈ methods) (hp : p ∈ tb.allMeth) :
    (siteDicts tb methods G Gm typeRow siteRow).2.get (me, p)
      = resolve [typeGet typeRow (me ++ p), siteRow.get? (me ++ p)] (globalMethVal tb Gm me p) := by
  have hT := (h.2.2.2.2.1 p hp).1
  have hS := (h.2.2.2.2.1 p hp).2
  have hg : (globalMeth tb methods Gm).get (me, p) = globalMethVal tb Gm me p := by
    rw [get_globalMeth]
    unfold globalMethVal
    by_cases hpg : p ∈ tb.globalMeth
    · simp [hme, hpg]
    · have : p = tb.siteDeploy := by
        have := hp
        simp only [Tables.allMeth, List.mem_append, List.mem_singleton] at this
        rcases this with h1 | h1
        · exact absurd h1 hpg
        · exact h1
      simp [hme, hpg, this]
  unfold siteDicts
  simp only [resolve_cons, resolve_nil]
  rw [get_updFrom]
  have hmS : ((me, p) : MKey) ∈ methKeys methods tb.siteMeth := (mem_methKeys _ _ _ _).mpr ⟨hme, hS⟩
  have hmT : ((me, p) : MKey) ∈ methKeys methods tb.typeMeth := (mem_methKeys _ _ _ _).mpr ⟨hme, hT⟩
  simp only [hmS, if_true, MKey.col]
  cases typeRow with
  | none => simp [typeGet, hg]
  | some t => simp [typeGet, get_updFrom, hmT, hg, MKey.col]

theorem get_groupMeth (tb : Tables) (h : tb.SameKeys) (methods : List String) (G : Dict String)
    (Gm : Dict MKey) (typeRow : Option Row) (siteRow eqRow : Row) (nG : Rat) (me p : String)
    (hme : me ∈ methods) (hp : p ∈ tb.groupMeth) :
    (groupCtx tb methods G Gm typeRow siteRow eqRow nG).2.get (me, p)
      = resolve [eqRow.get? (me ++ p)]
          (if p ∈ tb.scaleMeth
            then (resolve [typeGet typeRow (me ++ p), siteRow.get? (me ++ p)] (globalMethVal tb Gm me p)).divBy nG
            else resolve [typeGet typeRow (me ++ p), siteRow.get? (me ++ p)] (globalMethVal tb Gm me p)) := by
  have hpa : p ∈ tb.allMeth := (List.mem_filter.mp hp).1
  unfold groupCtx groupDicts
  simp only [resolve_cons, resolve_nil]
  rw [get_updFrom]
  have hm : ((me, p) : MKey) ∈ methKeys methods tb.groupMeth := (mem_methKeys _ _ _ _).mpr ⟨hme, hp⟩
  simp only [hm, if_true, MKey.col]
  rw [get_scaleKeys, get_siteMeth tb h methods G Gm typeRow siteRow me p hme hpa]
  simp only [resolve_cons, resolve_nil, mem_methKeys, hme, true_and]

/-! ### sums over groups and components -/

theorem sum_map_eq_const {α : Type} (l : List α) (f : α → Rat) (y : Rat) (h : ∀ a ∈ l, f a = y) :
    (l.map f).sum = (l.length : Rat) * y := by
  rw [List.map_congr_left h]
  exact sum_map_const_rat l y

theorem length_flatMap_range {α β : Type} (l : List α) (n : α → Nat) (f : α → Nat → β) :
    (l.flatMap (fun c => (List.range (n c)).map (f c))).length = (l.map n).sum := by
  induction l with
  | nil => rfl
  | cons a as ih => simp [List.flatMap_cons, ih]

/-- the equipment cell names groups or is a whole number (`2`, `2.0`), not `2.5` -/
def EquipSpec.Integral : EquipSpec → Prop
  | .count q => q = ((q.floor.toNat : Nat) : Rat)
  | _ => True

instance (spec : EquipSpec) : Decidable spec.Integral := by
  cases spec <;> unfold EquipSpec.Integral <;> infer_instance

theorem siteGroups_divisor (tb : Tables) (files : Files) (spec : EquipSpec) (d : Dict String)
    (hint : spec.Integral) (g : String × Row × Rat) (hg : g ∈ siteGroups tb files spec d) :
    g.2.2 = ((siteGroups tb files spec d).length : Rat) := by
  cases spec with
  | named raw =>
    simp only [siteGroups, List.mem_map, List.length_map] at hg ⊢
    obtain ⟨n, _, hn⟩ := hg
    rw [← hn]
  | count q =>
    by_cases hq : q = 0
    · subst hq
      simp only [siteGroups, if_true, List.mem_singleton, List.length_singleton] at hg ⊢
      rw [hg]; simp
    · simp only [siteGroups, hq, if_false, List.mem_map, List.length_map, List.length_range] at hg ⊢
      obtain ⟨i, _, hi⟩ := hg
      rw [← hi]
      exact hint
  | bad => simp [siteGroups] at hg

theorem mul_div_cancel_nat (x : Rat) (n : Nat) (hn : n ≠ 0) : (n : Rat) * (x / (n : Rat)) = x := by
  have : (n : Rat) ≠ 0 := by exact_mod_cast hn
  grind

/-- `c` components each carrying `(x/n)` split by `divPos c` add back up to `x/n` when `0 ≤ x` -/
theorem comp_split (x n : Rat) (c : Nat) (hn : 0 < n) (hc : c ≠ 0) (hx : 0 ≤ x) :
    (c : Rat) * numOf (((PV.num x).divBy n).divPos c) = x / n := by
  have hcr : (c : Rat) ≠ 0 := by exact_mod_cast hc
  simp only [PV.divBy, PV.divPos]
  by_cases hpos : 0 < x / n
  · simp only [hpos, if_true, numOf]
    grind
  · simp only [hpos, if_false, numOf]
    have hle : x / n ≤ 0 := Rat.not_lt.mp hpos
    have hge : 0 ≤ x / n := by
      rw [Rat.div_def]
      exact Rat.mul_nonneg hx (Rat.le_of_lt (Rat.inv_pos.mpr hn))
    have : x / n = 0 := Rat.le_antisymm hle hge
    rw [this]
    grind

end LdarModel.Propagate
