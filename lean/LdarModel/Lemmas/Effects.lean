import LdarModel.Model.Effects
/-
Helper lemmas for C12 (noninterference of the effect model).  Core Lean only.
-/
namespace LdarModel.Effects

/-- two process-wide states are indistinguishable for a disciplined task: they agree on every relevant
shared container and, once the task has re-seeded (`s`), on the numpy global generator -/
def Agree (rel : Nat → Bool) (s : Bool) (e1 e2 : Env) : Prop :=
  (∀ c, rel c = true → e1.shared c = e2.shared c) ∧ (s = true → e1.np = e2.np)

theorem Env.setRng_objs (e : Env) (g : Gen) (s : Nat) : (e.setRng g s).objs = e.objs := by cases g <;> rfl

/-- a task that deep-copies never changes the shared object graph -/
theorem step_objs (sim : Nat) (seedOf : Nat → Nat) (p : Priv) (e : Env) (op : Op) :
    (step true sim seedOf p e op).2.objs = e.objs := by
  cases op with
  | draw g =>
    simp only [step]
    exact Env.setRng_objs _ _ _
  | touch o v => simp only [step, if_true]
  | seed d => simp only [step]
  | read c => simp only [step]
  | write c v => simp only [step]
  | comp k => simp only [step]
  | emit => simp only [step]
  | look o => simp only [step]

theorem exec_objs (sim : Nat) (seedOf : Nat → Nat) : ∀ (ops : List Op) (p : Priv) (e : Env),
    (exec true sim seedOf ops p e).2.objs = e.objs := by
  intro ops
  induction ops with
  | nil => intro p e; rfl
  | cons op r ih => intro p e; simp only [exec]; rw [ih, step_objs]

theorem step_agree (sim : Nat) (seedOf : Nat → Nat) (rel : Nat → Bool) (s : Bool) (op : Op) (p : Priv) (e1 e2 : Env)
    (hok : opOk rel s op = true) (h : Agree rel s e1 e2) :
    (step true sim seedOf p e1 op).1 = (step true sim seedOf p e2 op).1 ∧
    Agree rel (s || op.isSeed) (step true sim seedOf p e1 op).2 (step true sim seedOf p e2 op).2 := by
  obtain ⟨hsh, hnp⟩ := h
  cases op with
  | seed d =>
    refine ⟨rfl, ?_, ?_⟩
    · intro c hc; exact hsh c hc
    · intro _; rfl
  | draw g =>
    simp only [opOk, Bool.and_eq_true, decide_eq_true_eq] at hok
    obtain ⟨hg, hs⟩ := hok
    subst hg
    have hn : e1.np = e2.np := hnp hs
    refine ⟨?_, ?_, ?_⟩
    · simp [step, Env.rng, hn]
    · intro c hc; simpa [step, Env.setRng] using hsh c hc
    · intro _; simp [step, Env.setRng, Env.rng, hn]
  | read c =>
    simp only [opOk] at hok
    refine ⟨?_, ?_, ?_⟩
    · simp [step, hsh c hok]
    · intro c' hc'; exact hsh c' hc'
    · intro hs; simp only [Op.isSeed, Bool.or_false] at hs; exact hnp hs
  | write c v =>
    simp only [opOk, Bool.not_eq_true'] at hok
    refine ⟨rfl, ?_, ?_⟩
    · intro c' hc'
      have hne : c' ≠ c := by intro heq; subst heq; rw [hok] at hc'; cases hc'
      simp [step, hne, hsh c' hc']
    · intro hs; simp only [Op.isSeed, Bool.or_false] at hs; exact hnp hs
  | comp k =>
    refine ⟨rfl, ?_, ?_⟩
    · intro c hc; exact hsh c hc
    · intro hs; simp only [Op.isSeed, Bool.or_false] at hs; exact hnp hs
  | emit =>
    refine ⟨rfl, ?_, ?_⟩
    · intro c hc; exact hsh c hc
    · intro hs; simp only [Op.isSeed, Bool.or_false] at hs; exact hnp hs
  | touch o v =>
    refine ⟨rfl, ?_, ?_⟩
    · intro c hc; exact hsh c hc
    · intro hs; simp only [Op.isSeed, Bool.or_false] at hs; exact hnp hs
  | look o =>
    refine ⟨rfl, ?_, ?_⟩
    · intro c hc; exact hsh c hc
    · intro hs; simp only [Op.isSeed, Bool.or_false] at hs; exact hnp hs

/-- a disciplined operation list of a task that deep-copies cannot tell indistinguishable process states apart -/
theorem exec_agree (sim : Nat) (seedOf : Nat → Nat) (rel : Nat → Bool) :
    ∀ (ops : List Op) (s : Bool) (p : Priv) (e1 e2 : Env),
      okOps rel s ops = true → Agree rel s e1 e2 →
      (exec true sim seedOf ops p e1).1 = (exec true sim seedOf ops p e2).1 ∧
      (∀ c, rel c = true → (exec true sim seedOf ops p e1).2.shared c = (exec true sim seedOf ops p e2).2.shared c) := by
  intro ops
  induction ops with
  | nil => intro s p e1 e2 _ h; exact ⟨rfl, h.1⟩
  | cons op r ih =>
    intro s p e1 e2 hok h
    simp only [okOps, Bool.and_eq_true] at hok
    obtain ⟨h1, h2⟩ := hok
    obtain ⟨hp, ha⟩ := step_agree sim seedOf rel s op p e1 e2 h1 h
    simp only [exec]
    rw [hp]
    exact ih (s || op.isSeed) (step true sim seedOf p e2 op).1 _ _ h2 ha

theorem step_shared_rel (cp : Bool) (sim : Nat) (seedOf : Nat → Nat) (rel : Nat → Bool) (s : Bool) (op : Op) (p : Priv) (e : Env)
    (hok : opOk rel s op = true) : ∀ c, rel c = true → (step cp sim seedOf p e op).2.shared c = e.shared c := by
  intro c hc
  cases op with
  | write c' v =>
    simp only [opOk, Bool.not_eq_true'] at hok
    have hne : c ≠ c' := by intro heq; subst heq; rw [hok] at hc; cases hc
    simp [step, hne]
  | draw g => cases g <;> simp [step, Env.setRng]
  | seed d => rfl
  | read c' => rfl
  | comp k => rfl
  | emit => rfl
  | touch o v => cases cp <;> rfl
  | look o => rfl

/-- a disciplined operation list leaves every relevant shared container as it found it -/
theorem exec_shared_rel (cp : Bool) (sim : Nat) (seedOf : Nat → Nat) (rel : Nat → Bool) :
    ∀ (ops : List Op) (s : Bool) (p : Priv) (e : Env), okOps rel s ops = true →
      ∀ c, rel c = true → (exec cp sim seedOf ops p e).2.shared c = e.shared c := by
  intro ops
  induction ops with
  | nil => intro s p e _ c _; rfl
  | cons op r ih =>
    intro s p e hok c hc
    simp only [okOps, Bool.and_eq_true] at hok
    simp only [exec]
    rw [ih _ _ _ hok.2 c hc]
    exact step_shared_rel cp sim seedOf rel s op p e hok.1 c hc

/-! ### from the program shape to the discipline -/

def hasSeed (ops : List Op) : Bool := ops.any Op.isSeed

theorem okOps_append (rel : Nat → Bool) : ∀ (a b : List Op) (s : Bool),
    okOps rel s (a ++ b) = (okOps rel s a && okOps rel (s || hasSeed a) b) := by
  intro a
  induction a with
  | nil => intro b s; simp [okOps, hasSeed]
  | cons op r ih =>
    intro b s
    simp only [List.cons_append, okOps, ih, hasSeed, List.any_cons, Bool.and_assoc, Bool.or_assoc]

theorem opOk_mono (rel : Nat → Bool) (op : Op) (s : Bool) (h : opOk rel s op = true) : opOk rel true op = true := by
  cases op <;> simp_all [opOk]

theorem okOps_true_of (rel : Nat → Bool) : ∀ (ops : List Op) (s : Bool), okOps rel s ops = true → okOps rel true ops = true := by
  intro ops
  induction ops with
  | nil => intro _ _; rfl
  | cons op r ih =>
    intro s h
    simp only [okOps, Bool.and_eq_true, Bool.true_or] at h ⊢
    exact ⟨opOk_mono rel op s h.1, ih _ h.2⟩

/-- without draws the re-seed state is irrelevant -/
theorem okOps_of_noDraw (rel : Nat → Bool) : ∀ (ops : List Op) (s : Bool),
    okOps rel true ops = true → noDraw ops = true → okOps rel s ops = true := by
  intro ops
  induction ops with
  | nil => intro _ _ _; rfl
  | cons op r ih =>
    intro s h hn
    simp only [okOps, Bool.and_eq_true, Bool.true_or] at h
    simp only [noDraw, List.all_cons, Bool.and_eq_true] at hn
    simp only [okOps, Bool.and_eq_true]
    refine ⟨?_, ?_⟩
    · cases op <;> simp_all [opOk, Op.isDraw]
    · exact ih _ (okOps_true_of rel r _ h.2) (by simpa [noDraw] using hn.2)

/-- the re-seeding day loop is disciplined whatever the state at loop entry, provided every day is -/
theorem dayOps_ok (rel : Nat → Bool) : ∀ (body : List (List Op)) (d : Nat) (s : Bool),
    body.all (okOps rel true) = true → okOps rel s (dayOps true d body) = true := by
  intro body
  induction body with
  | nil => intro _ _ _; rfl
  | cons b r ih =>
    intro d s h
    simp only [List.all_cons, Bool.and_eq_true] at h
    simp only [dayOps, if_true, List.cons_append, List.nil_append, okOps, opOk, Op.isSeed, Bool.or_true,
      Bool.true_and]
    rw [okOps_append]
    simp only [Bool.true_or, Bool.and_eq_true]
    exact ⟨h.1, ih (d + 1) true h.2⟩

theorem hasSeed_dayOps (body : List (List Op)) (d : Nat) (h : body.isEmpty = false) :
    hasSeed (dayOps true d body) = true := by
  cases body with
  | nil => simp at h
  | cons b r => simp [dayOps, hasSeed, Op.isSeed]

/-- a clean program in day-loop form, with the loop re-seeding first, obeys the discipline from a state in
which nothing has been seeded yet -/
theorem clean_ops_ok (rel : Nat → Bool) (p : Prog) (h : p.clean rel = true) :
    okOps rel false (p.ops true) = true := by
  simp only [Prog.clean, Bool.and_eq_true, Bool.or_eq_true, Bool.not_eq_true'] at h
  obtain ⟨⟨⟨⟨hpro, hnd⟩, hbody⟩, hepi⟩, hlast⟩ := h
  simp only [Prog.ops]
  rw [okOps_append, okOps_append]
  simp only [Bool.and_eq_true]
  refine ⟨⟨okOps_of_noDraw rel _ false hpro hnd, dayOps_ok rel _ 0 _ hbody⟩, ?_⟩
  cases hlast with
  | inl hne =>
    have hs : hasSeed (p.prologue ++ dayOps true 0 p.body) = true := by
      simp only [hasSeed, List.any_append, Bool.or_eq_true]
      right
      exact hasSeed_dayOps p.body 0 hne
    rw [hs]
    simpa using hepi
  | inr hnd' => exact okOps_of_noDraw rel _ _ hepi hnd'

/-- with clean tables, a program that only performs listed effects and is in day-loop form is clean
(every container counts as relevant: nothing may be written) -/
theorem conforms_dayLoopForm (T : Tables) (p : Prog) (hpc : T.prologueClean)
    (hc : conforms T p = true) (hb : p.body ≠ []) : p.dayLoopForm = true := by
  simp only [conforms, Bool.and_eq_true, List.all_eq_true] at hc
  simp only [Prog.dayLoopForm, Bool.and_eq_true, Bool.or_eq_true, Bool.not_eq_true', noDraw, List.all_eq_true]
  refine ⟨?_, Or.inl (by cases hbb : p.body with | nil => exact absurd hbb hb | cons _ _ => rfl)⟩
  intro o ho
  have := hc.2 o ho
  unfold Tables.prologueClean at hpc
  cases o <;> simp_all [Op.isDraw]

theorem conforms_clean (T : Tables) (p : Prog) (hr : T.rngAllSeeded) (hm : T.noSharedMutation)
    (hc' : conforms T p = true) (hf : p.dayLoopForm = true) : p.clean (fun _ => true) = true := by
  have hc : p.allOps.all (fun o =>
      match o with
      | .draw g => T.rngSites.any (fun s => decide (s.gen = g))
      | .write _ _ => !T.sharedMutations.isEmpty
      | _ => true) = true := by
    simp only [conforms, Bool.and_eq_true] at hc'
    exact hc'.1
  have hop : ∀ o ∈ p.allOps, opOk (fun _ => true) true o = true := by
    intro o ho
    simp only [List.all_eq_true] at hc
    have := hc o ho
    cases o with
    | draw g =>
      simp only [List.any_eq_true, decide_eq_true_eq] at this
      obtain ⟨s, hs, hg⟩ := this
      simp [opOk, ← hg, hr s hs]
    | write c v =>
      unfold Tables.noSharedMutation at hm
      simp [hm] at this
    | seed d => rfl
    | read c => rfl
    | comp k => rfl
    | emit => rfl
    | touch o v => rfl
    | look o => rfl
  have hall : ∀ (l : List Op), (∀ o ∈ l, o ∈ p.allOps) → okOps (fun _ => true) true l = true := by
    intro l
    induction l with
    | nil => intro _; rfl
    | cons o r ih =>
      intro hl
      simp only [okOps, Bool.true_or, Bool.and_eq_true]
      exact ⟨hop o (hl o (by simp)), ih (fun x hx => hl x (by simp [hx]))⟩
  simp only [Prog.dayLoopForm, Bool.and_eq_true] at hf
  simp only [Prog.clean, Bool.and_eq_true, List.all_eq_true]
  refine ⟨⟨⟨⟨?_, hf.1⟩, ?_⟩, ?_⟩, hf.2⟩
  · exact hall _ (fun o ho => by simp [Prog.allOps, ho])
  · intro b hb
    exact hall _ (fun o ho => by
      simp only [Prog.allOps, List.mem_append, List.mem_flatten]
      exact Or.inl (Or.inr ⟨b, hb, ho⟩))
  · exact hall _ (fun o ho => by simp [Prog.allOps, ho])

/-- the day-loop entry of the seed-point table -/
theorem dayLoopReseeds_of_consumers (T : Tables) (h : T.consumersReseeded) : T.dayLoopReseeds = true := by
  obtain ⟨hall, hone⟩ := h
  have hne : T.seedPoints.filter (fun p => decide (p.kind = .dayLoop)) ≠ [] := by
    intro h0
    rw [h0] at hone
    simp at hone
  obtain ⟨p, hp⟩ := List.exists_mem_of_ne_nil _ hne
  rw [List.mem_filter] at hp
  unfold Tables.dayLoopReseeds
  rw [List.any_eq_true]
  exact ⟨p, hp.1, by simp [hall p hp.1, hp.2]⟩

end LdarModel.Effects
