import Mathlib.Tactic.Linarith
import Mathlib.Tactic.Ring
import Mathlib.Algebra.Order.Field.Basic
import LdarModel.Model.Crew
/-
The budget arithmetic of the survey step over any linearly ordered field (ℚ, ℝ): daylight hours are
fractional, so the crew's minutes are fractional when a method is daylight sensitive.  `stepG` is the
same three-way decision as `Crew.surveyStep` (mobile deployment) with the number type abstracted;
`stepG_int` shows it is literally `surveyStep` on `Int`.
-/
namespace LdarModel.Crew

structure StepG (α : Type) where
  rem : α
  surveyed : α
  travel : α
  today : α
  reached : Bool     -- complete or partial: the crew travelled to the site
  complete : Bool
  last : Bool

variable {α : Type} [Field α] [LinearOrder α] [IsStrictOrderedRing α]

/-- `Method.survey_site` (mobile) over `α` -/
def stepG (R S T P : α) (workable : Bool) : StepG α :=
  if !workable then
    { rem := R, surveyed := P, travel := 0, today := 0, reached := false, complete := false, last := false }
  else if R ≥ S + T * 2 - P then
    { rem := R - T - (S - P), surveyed := S, travel := T, today := S - P, reached := true,
      complete := true, last := decide (R - T - (S - P) ≤ T) }
  else if R > 2 * T then
    { rem := T, surveyed := P + (R - T * 2), travel := T, today := R - T * 2, reached := true,
      complete := false, last := true }
  else
    { rem := R, surveyed := P, travel := 0, today := 0, reached := false, complete := false, last := true }

theorem stepG_budget (R S T P : α) (hR : 0 ≤ R) (hT : 0 ≤ T) (_hP : 0 ≤ P) (hPS : P ≤ S) (w : Bool) :
    let o := stepG R S T P w
    o.rem + o.travel + o.today = R ∧ 0 ≤ o.rem ∧ 0 ≤ o.travel ∧ 0 ≤ o.today ∧
    (o.reached = true → o.travel ≤ o.rem) := by
  cases w
  · simp [stepG, hR]
  · by_cases h1 : R ≥ S + T * 2 - P
    · simp only [stepG, Bool.not_true, Bool.false_eq_true, if_false, h1, if_true]
      exact ⟨by ring, by linarith, hT, by linarith, fun _ => by linarith⟩
    · by_cases h2 : R > 2 * T
      · simp only [stepG, Bool.not_true, Bool.false_eq_true, if_false, h1, h2, if_true]
        exact ⟨by ring, hT, hT, by linarith, fun _ => le_refl _⟩
      · simp [stepG, h1, h2, hR]

/-- minutes on the report stay within `[P, S]`, reach `S` exactly at completion -/
theorem stepG_surveyed (R S T P : α) (hPS : P ≤ S) (w : Bool) :
    let o := stepG R S T P w
    o.surveyed = P + o.today ∧ o.surveyed ≤ S ∧ (o.complete = true → o.surveyed = S) := by
  cases w
  · simp [stepG, hPS]
  · by_cases h1 : R ≥ S + T * 2 - P
    · simp only [stepG, Bool.not_true, Bool.false_eq_true, if_false, h1, if_true]
      exact ⟨by ring, le_refl _, fun _ => trivial⟩
    · by_cases h2 : R > 2 * T
      · simp only [stepG, Bool.not_true, Bool.false_eq_true, if_false, h1, h2, if_true]
        have : R < S + T * 2 - P := lt_of_not_ge h1
        exact ⟨trivial, by linarith, by simp⟩
      · simp [stepG, h1, h2, hPS]

/-- the integer model is the restriction of `stepG`: on integer inputs embedded in `ℚ` it gives,
field by field, the outputs of `surveyStep` for a mobile method -/
theorem stepG_int (R S T P : Int) (w : Bool) :
    let o := surveyStep R S T P false w
    let g := stepG (R : ℚ) S T P w
    g.rem = o.rem ∧ g.surveyed = o.surveyed ∧ g.travel = o.travel ∧ g.today = o.today ∧
    g.complete = o.complete ∧ g.last = o.last := by
  unfold stepG surveyStep effS effT
  cases w
  · simp
  · simp only [Bool.not_true, Bool.false_eq_true, if_false, false_or]
    have e1 : ((R : ℚ) ≥ (S : ℚ) + (T : ℚ) * 2 - (P : ℚ)) ↔ (R ≥ S + T * 2 - P) := by
      constructor <;> intro h <;> [exact_mod_cast h; exact_mod_cast h]
    have e2 : ((R : ℚ) > 2 * (T : ℚ)) ↔ (R > 2 * T) := by
      constructor <;> intro h <;> [exact_mod_cast h; exact_mod_cast h]
    by_cases h1 : R ≥ S + T * 2 - P
    · have h1' := e1.2 h1
      simp only [h1, h1', if_true]
      have e3 : ((R : ℚ) - T - (S - P) ≤ T) ↔ (R - T - (S - P) ≤ T) := by
        constructor <;> intro h <;> [exact_mod_cast h; exact_mod_cast h]
      and_intros <;> first | trivial | exact decide_eq_decide.2 e3 | (push_cast; ring)
    · have h1' : ¬ ((R : ℚ) ≥ (S : ℚ) + (T : ℚ) * 2 - (P : ℚ)) := fun h => h1 (e1.1 h)
      simp only [h1, h1', if_false]
      by_cases h2 : R > 2 * T
      · have h2' := e2.2 h2
        simp only [h2, h2', if_true]
        and_intros <;> first | trivial | (push_cast; ring)
      · have h2' : ¬ ((R : ℚ) > 2 * (T : ℚ)) := fun h => h2 (e2.1 h)
        simp only [h2, h2', if_false]
        and_intros <;> trivial

/-- `get_daylight_hours` × 60 over `α` (hours may be fractional) -/
def dayBudgetG (considerDaylight : Bool) (workdayH daylightH : α) : α :=
  (if considerDaylight then (if workdayH < daylightH then workdayH else daylightH) else workdayH) * 60

omit [IsStrictOrderedRing α] in
theorem dayBudgetG_eq (w d : α) :
    dayBudgetG true w d = 60 * min w d ∧ dayBudgetG false w d = 60 * w := by
  unfold dayBudgetG
  refine ⟨?_, by simp [mul_comm]⟩
  simp only [if_true]
  split
  · rename_i h; rw [min_eq_left (le_of_lt h)]; ring
  · rename_i h; rw [min_eq_right (le_of_not_gt h)]; ring

end LdarModel.Crew

/-! ### homogeneity: the model does not care about the unit of time

Multiplying every time quantity by `k > 0` multiplies every time output by `k` and changes no
decision.  Rational minutes with common denominator `q` are therefore covered by the integer theorems
applied to the instance measured in units of `1/q` minute (this is also how the fractional-daylight
correspondence feeds the driver). -/
namespace LdarModel.Crew

def scaleOut (k : Int) (o : StepOut) : StepOut :=
  { o with rem := k * o.rem, surveyed := k * o.surveyed, travel := k * o.travel, today := k * o.today }

theorem surveyStep_scale (k : Int) (hk : 0 < k) (R S T P : Int) (st w : Bool) :
    surveyStep (k * R) (k * S) (k * T) (k * P) st w = scaleOut k (surveyStep R S T P st w) := by
  have hle : ∀ a b : Int, k * a ≤ k * b ↔ a ≤ b := fun a b =>
    ⟨fun h => le_of_mul_le_mul_left h hk, fun h => Int.mul_le_mul_of_nonneg_left h hk.le⟩
  have hlt : ∀ a b : Int, k * a < k * b ↔ a < b := fun a b =>
    ⟨fun h => lt_of_mul_lt_mul_left h hk.le, fun h => Int.mul_lt_mul_of_pos_left h hk⟩
  have e1 : k * S + k * T * 2 - k * P = k * (S + T * 2 - P) := by ring
  have e2 : 2 * (k * T) = k * (2 * T) := by ring
  have e3 : k * R - k * T - (k * S - k * P) = k * (R - T - (S - P)) := by ring
  have e4 : k * R - k * T * 2 = k * (R - T * 2) := by ring
  have e5 : k * P + k * (R - T * 2) = k * (P + (R - T * 2)) := by ring
  have e6 : k * S - k * P = k * (S - P) := by ring
  cases w
  · simp [surveyStep, scaleOut]
  · cases st
    · by_cases h1 : R ≥ S + T * 2 - P
      · have h1' : k * R ≥ k * S + k * T * 2 - k * P := by rw [e1]; exact (hle _ _).2 h1
        have hl : decide (k * R - k * T - (k * S - k * P) ≤ k * T) = decide (R - T - (S - P) ≤ T) := by
          rw [decide_eq_decide, e3]; exact hle _ _
        simp only [surveyStep, scaleOut, effS, effT, Bool.not_true, Bool.false_eq_true, if_false, false_or, h1,
          h1', if_true]
        congr 1
      · have h1' : ¬ k * R ≥ k * S + k * T * 2 - k * P := by rw [e1]; exact fun h => h1 ((hle _ _).1 h)
        by_cases h2 : R > 2 * T
        · have h2' : k * R > 2 * (k * T) := by rw [e2]; exact (hlt _ _).2 h2
          simp only [surveyStep, scaleOut, effS, effT, Bool.not_true, Bool.false_eq_true, if_false, false_or, h1,
            h1', h2, h2', if_true]
          congr 1 <;> ring
        · have h2' : ¬ k * R > 2 * (k * T) := by rw [e2]; exact fun h => h2 ((hlt _ _).1 h)
          simp only [surveyStep, scaleOut, effS, effT, Bool.not_true, Bool.false_eq_true, if_false, false_or, h1,
            h1', h2, h2', Int.mul_zero]
    · have hl : decide (k * R - 0 - (0 - k * P) ≤ 0) = decide (R - 0 - (0 - P) ≤ 0) := by
        rw [decide_eq_decide]
        have : k * R - 0 - (0 - k * P) = k * (R - 0 - (0 - P)) := by ring
        rw [this]
        have h0 := hle (R - 0 - (0 - P)) 0
        rw [mul_zero] at h0
        exact h0
      simp only [surveyStep, scaleOut, effS, effT, Bool.not_true, Bool.false_eq_true, if_false, if_true, true_or, hl,
        Int.mul_zero]
      congr 1 <;> ring

/-! ### the whole day is homogeneous too -/

def scaleReport (k : Int) (r : Report) : Report :=
  { r with surveyed := k * r.surveyed, today := k * r.today, travel := k * r.travel }
def scaleReq (k : Int) (r : Req) : Req := { r with S := k * r.S, T := k * r.T, rep := scaleReport k r.rep }
def scaleCrew (k : Int) (c : CrewSt) : CrewSt := { c with rem := k * c.rem, spent := k * c.spent, home := k * c.home }
def scaleStats (k : Int) (s : Stats) : Stats :=
  { s with travel := k * s.travel, survey := k * s.survey, wpTravel := k * s.wpTravel }
def scaleRec (k : Int) (o : OutRec) : OutRec :=
  { req := scaleReq k o.req, rep := scaleReport k o.rep, crew := o.crew, step := o.step.map (scaleOut k),
    rBefore := k * o.rBefore }
def scaleDay (k : Int) (d : DaySt) : DaySt :=
  { crews := d.crews.map (scaleCrew k), stats := scaleStats k d.stats, out := d.out.map (scaleRec k) }

theorem applyStep_scale (k : Int) (rep : Report) (o : StepOut) :
    applyStep (scaleReport k rep) (scaleOut k o) = scaleReport k (applyStep rep o) := by
  unfold applyStep scaleReport scaleOut
  cases o.branch <;> simp <;> ring

theorem better_scale (k : Int) (hk : 0 < k) (a b : CrewSt) :
    better (scaleCrew k a) (scaleCrew k b) = better a b := by
  have hlt : k * b.rem < k * a.rem ↔ b.rem < a.rem :=
    ⟨fun h => lt_of_mul_lt_mul_left h hk.le, fun h => Int.mul_lt_mul_of_pos_left h hk⟩
  have heq : k * a.rem = k * b.rem ↔ a.rem = b.rem :=
    ⟨fun h => Int.eq_of_mul_eq_mul_left (ne_of_gt hk) h, fun h => by rw [h]⟩
  unfold better scaleCrew
  simp only [gt_iff_lt]
  rw [decide_eq_decide.2 hlt, decide_eq_decide.2 heq]

theorem pick_scale (k : Int) (hk : 0 < k) (cs : List CrewSt) :
    pick (cs.map (scaleCrew k)) = (pick cs).map (scaleCrew k) := by
  induction cs with
  | nil => rfl
  | cons c cs ih =>
    simp only [List.map_cons, pick, ih]
    cases hp : pick cs with
    | none => simp only [Option.map_none]; cases hq : c.queued <;> simp [scaleCrew, hq]
    | some d =>
      simp only [Option.map_some]
      rw [better_scale k hk c d]
      have : (scaleCrew k c).queued = c.queued := rfl
      rw [this]
      cases (c.queued && better c d) <;> simp

theorem workable_scale (k : Int) (p : MethodP) (r : Req) : workable p (scaleReq k r) = workable p r := rfl

theorem charge_scale (k : Int) (p : MethodP) (r : Req) (rep : Report) :
    chargeIfComplete p (scaleReq k r) (scaleReport k rep) = chargeIfComplete p r rep := rfl

theorem crewAfter_scale (k : Int) (hk : 0 < k) (c : CrewSt) (o : StepOut) :
    crewAfter (scaleCrew k c) (scaleOut k o) = scaleCrew k (crewAfter c o) := by
  have hpos : ∀ x : Int, (0 < k * x) ↔ 0 < x := fun x =>
    ⟨fun h => by
        have h0 : k * 0 < k * x := by simpa using h
        exact lt_of_mul_lt_mul_left h0 hk.le,
     fun h => Int.mul_pos hk h⟩
  unfold crewAfter scaleCrew scaleOut
  cases hl : o.last <;> cases hb : o.branch <;> simp [hpos] <;> ring

theorem replaceCrew_scale (k : Int) (c' : CrewSt) (cs : List CrewSt) :
    replaceCrew (scaleCrew k c') (cs.map (scaleCrew k)) = (replaceCrew c' cs).map (scaleCrew k) := by
  unfold replaceCrew
  simp only [List.map_map]
  apply List.map_congr_left
  intro c _
  simp only [Function.comp]
  have : (scaleCrew k c).id = c.id := rfl
  have h2 : (scaleCrew k c').id = c'.id := rfl
  rw [this, h2]
  split <;> rfl

theorem serve_scale (k : Int) (hk : 0 < k) (p : MethodP) (st : DaySt) (r : Req) :
    serve p (scaleDay k st) (scaleReq k r) = scaleDay k (serve p st r) := by
  unfold serve
  simp only [scaleDay, pick_scale k hk]
  cases hp : pick st.crews with
  | none =>
    simp only [Option.map_none, List.map_append, List.map_cons, List.map_nil]
    simp [scaleStats, scaleRec]
    exact ⟨rfl, rfl⟩
  | some c =>
    simp only [Option.map_some]
    have hc : (scaleCrew k c).rem = k * c.rem := rfl
    have hr : (scaleReq k r).rep.surveyed = k * r.rep.surveyed := rfl
    have hS : (scaleReq k r).S = k * r.S := rfl
    have hT : (scaleReq k r).T = k * r.T := rfl
    rw [hc, hr, hS, hT, workable_scale, surveyStep_scale k hk]
    have hrep : (scaleReq k r).rep = scaleReport k r.rep := rfl
    rw [hrep, applyStep_scale, crewAfter_scale k hk, replaceCrew_scale]
    generalize surveyStep c.rem r.S r.T r.rep.surveyed p.stationary (workable p r) = o
    simp only [List.map_append, List.map_cons, List.map_nil]
    have e1 : (scaleOut k o).visited = o.visited := rfl
    have e2 : (scaleOut k o).last = o.last := rfl
    have e3 : (scaleOut k o).travel = k * o.travel := rfl
    have e4 : (scaleReport k (applyStep r.rep o)).surveyed = k * (applyStep r.rep o).surveyed := rfl
    rw [e1, e2, e3, e4, charge_scale]
    congr 1
    · cases o.visited <;> cases o.last <;> simp [scaleStats] <;> (try (and_intros <;> ring))

theorem serveAll_scale (k : Int) (hk : 0 < k) (p : MethodP) (reqs : List Req) (st : DaySt) :
    serveAll p (scaleDay k st) (reqs.map (scaleReq k)) = scaleDay k (serveAll p st reqs) := by
  induction reqs generalizing st with
  | nil => rfl
  | cons r rs ih =>
    simp only [serveAll, List.map_cons, List.foldl_cons] at ih ⊢
    rw [serve_scale k hk, ih]

theorem countDeployed_scale (k : Int) (cs : List CrewSt) :
    countDeployed (cs.map (scaleCrew k)) = countDeployed cs := by
  unfold countDeployed
  induction cs with
  | nil => rfl
  | cons c cs ih =>
    have : (scaleCrew k c).deployed = c.deployed := rfl
    simp only [List.map_cons, List.filter_cons, this]
    cases c.deployed <;> simp [ih]

theorem finalize_scale (k : Int) (p : MethodP) (n : Nat) (st : DaySt) :
    finalize p n (scaleDay k st) = scaleDay k (finalize p n st) := by
  unfold finalize
  cases p.perSite <;> cases p.stationary <;> simp [scaleDay, scaleStats, countDeployed_scale]

theorem initCrews_scale (k budget : Int) (n : Nat) :
    initCrews (k * budget) n = (initCrews budget n).map (scaleCrew k) := by
  simp [initCrews, scaleCrew, Function.comp_def]

/-- **the crew day is homogeneous in the unit of time**: multiplying the budget and every survey /
travel / already-surveyed time of the plan by `k > 0` multiplies every time output by `k` and changes
no decision (who is sent where, what completes, what is charged) -/
theorem deployDay_scale (k : Int) (hk : 0 < k) (p : MethodP) (budget : Int) (n : Nat) (reqs : List Req) :
    deployDay p (k * budget) n (reqs.map (scaleReq k)) = scaleDay k (deployDay p budget n reqs) := by
  unfold deployDay
  have h0 : ({ crews := initCrews (k * budget) n } : DaySt) = scaleDay k { crews := initCrews budget n } := by
    simp [scaleDay, initCrews_scale, scaleStats]
  rw [h0, serveAll_scale k hk, List.length_map, finalize_scale]

end LdarModel.Crew
