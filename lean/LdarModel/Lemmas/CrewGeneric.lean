import Mathlib.Tactic.Linarith
import Mathlib.Tactic.Ring
import Mathlib.Algebra.Order.Field.Basic
import LdarModel.Model.Crew
/-
The budget arithmetic of the survey step over any linearly ordered field (ℚ, ℝ): daylight hours are
fractional, so the crew's minutes are fractional when a method is daylight sensitive.  `stepG` is the
same three-way decision as `Crew.surveyStep` (mobile deployment) with the number type abstracted;
`stepG_int` shows it is literally `surveyStep` on `Int`.
-/
namespace LdarModel.Crew

structure StepG (α : Type) where
  rem : α
  surveyed : α
  travel : α
  today : α
  reached : Bool     -- complete or partial: the crew travelled to the site
  complete : Bool
  last : Bool

variable {α : Type} [Field α] [LinearOrder α] [IsStrictOrderedRing α]

/-- `Method.survey_site` (mobile) over `α` -/
def stepG (R S T P : α) (workable : Bool) : StepG α :=
  if !workable then
    { rem := R, surveyed := P, travel := 0, today := 0, reached := false, complete := false, last := false }
  else if R ≥ S + T * 2 - P then
    { rem := R - T - (S - P), surveyed := S, travel := T, today := S - P, reached := true,
      complete := true, last := decide (R - T - (S - P) ≤ T) }
  else if R > 2 * T then
    { rem := T, surveyed := P + (R - T * 2), travel := T, today := R - T * 2, reached := true,
      complete := false, last := true }
  else
    { rem := R, surveyed := P, travel := 0, today := 0, reached := false, complete := false, last := true }

theorem stepG_budget (R S T P : α) (hR : 0 ≤ R) (hT : 0 ≤ T) (_hP : 0 ≤ P) (hPS : P ≤ S) (w : Bool) :
    let o := stepG R S T P w
    o.rem + o.travel + o.today = R ∧ 0 ≤ o.rem ∧ 0 ≤ o.travel ∧ 0 ≤ o.today ∧
    (o.reached = true → o.travel ≤ o.rem) := by
  cases w
  · simp [stepG, hR]
  · by_cases h1 : R ≥ S + T * 2 - P
    · simp only [stepG, Bool.not_true, Bool.false_eq_true, if_false, h1, if_true]
      exact ⟨by ring, by linarith, hT, by linarith, fun _ => by linarith⟩
    · by_cases h2 : R > 2 * T
      · simp only [stepG, Bool.not_true, Bool.false_eq_true, if_false, h1, h2, if_true]
        exact ⟨by ring, hT, hT, by linarith, fun _ => le_refl _⟩
      · simp [stepG, h1, h2, hR]

/-- minutes on the report stay within `[P, S]`, reach `S` exactly at completion -/
theorem stepG_surveyed (R S T P : α) (hPS : P ≤ S) (w : Bool) :
    let o := stepG R S T P w
    o.surveyed = P + o.today ∧ o.surveyed ≤ S ∧ (o.complete = true → o.surveyed = S) := by
  cases w
  · simp [stepG, hPS]
  · by_cases h1 : R ≥ S + T * 2 - P
    · simp only [stepG, Bool.not_true, Bool.false_eq_true, if_false, h1, if_true]
      exact ⟨by ring, le_refl _, fun _ => trivial⟩
    · by_cases h2 : R > 2 * T
      · simp only [stepG, Bool.not_true, Bool.false_eq_true, if_false, h1, h2, if_true]
        have : R < S + T * 2 - P := lt_of_not_ge h1
        exact ⟨trivial, by linarith, by simp⟩
      · simp [stepG, h1, h2, hPS]

/-- the integer model is the restriction of `stepG`: on integer inputs embedded in `ℚ` it gives,
field by field, the outputs of `surveyStep` for a mobile method -/
theorem stepG_int (R S T P : Int) (w : Bool) :
    let o := surveyStep R S T P false w
    let g := stepG (R : ℚ) S T P w
    g.rem = o.rem ∧ g.surveyed = o.surveyed ∧ g.travel = o.travel ∧ g.today = o.today ∧
    g.complete = o.complete ∧ g.last = o.last := by
  unfold stepG surveyStep effS effT
  cases w
  · simp
  · simp only [Bool.not_true, Bool.false_eq_true, if_false, false_or]
    have e1 : ((R : ℚ) ≥ (S : ℚ) + (T : ℚ) * 2 - (P : ℚ)) ↔ (R ≥ S + T * 2 - P) := by
      constructor <;> intro h <;> [exact_mod_cast h; exact_mod_cast h]
    have e2 : ((R : ℚ) > 2 * (T : ℚ)) ↔ (R > 2 * T) := by
      constructor <;> intro h <;> [exact_mod_cast h; exact_mod_cast h]
    by_cases h1 : R ≥ S + T * 2 - P
    · have h1' := e1.2 h1
      simp only [h1, h1', if_true]
      have e3 : ((R : ℚ) - T - (S - P) ≤ T) ↔ (R - T - (S - P) ≤ T) := by
        constructor <;> intro h <;> [exact_mod_cast h; exact_mod_cast h]
      and_intros <;> first | trivial | exact decide_eq_decide.2 e3 | (push_cast; ring)
    · have h1' : ¬ ((R : ℚ) ≥ (S : ℚ) + (T : ℚ) * 2 - (P : ℚ)) := fun h => h1 (e1.1 h)
      simp only [h1, h1', if_false]
      by_cases h2 : R > 2 * T
      · have h2' := e2.2 h2
        simp only [h2, h2', if_true]
        and_intros <;> first | trivial | (push_cast; ring)
      · have h2' : ¬ ((R : ℚ) > 2 * (T : ℚ)) := fun h => h2 (e2.1 h)
        simp only [h2, h2', if_false]
        and_intros <;> trivial

/-- `get_daylight_hours` × 60 over `α` (hours may be fractional) -/
def dayBudgetG (considerDaylight : Bool) (workdayH daylightH : α) : α :=
  (if considerDaylight then (if workdayH < daylightH then workdayH else daylightH) else workdayH) * 60

omit [IsStrictOrderedRing α] in
theorem dayBudgetG_eq (w d : α) :
    dayBudgetG true w d = 60 * min w d ∧ dayBudgetG false w d = 60 * w := by
  unfold dayBudgetG
  refine ⟨?_, by simp [mul_comm]⟩
  simp only [if_true]
  split
  · rename_i h; rw [min_eq_left (le_of_lt h)]; ring
  · rename_i h; rw [min_eq_right (le_of_not_gt h)]; ring

end LdarModel.Crew

/-! ### homogeneity: the model does not care about the unit of time

Multiplying every time quantity by `k > 0` multiplies every time output by `k` and changes no
decision.  Rational minutes with common denominator `q` are therefore covered by the integer theorems
applied to the instance measured in units of `1/q` minute (this is also how the fractional-daylight
correspondence feeds the driver). -/
namespace LdarModel.Crew

def scaleOut (k : Int) (o : StepOut) : StepOut :=
  { o with rem := k * o.rem, surveyed := k * o.surveyed, travel := k * o.travel, today := k * o.today }

theorem surveyStep_scale (k : Int) (hk : 0 < k) (R S T P : Int) (st w : Bool) :
    surveyStep (k * R) (k * S) (k * T) (k * P) st w = scaleOut k (surveyStep R S T P st w) := by
  have hle : ∀ a b : Int, k * a ≤ k * b ↔ a ≤ b := fun a b =>
    ⟨fun h => le_of_mul_le_mul_left h hk, fun h => Int.mul_le_mul_of_nonneg_left h hk.le⟩
  have hlt : ∀ a b : Int, k * a < k * b ↔ a < b := fun a b =>
    ⟨fun h => lt_of_mul_lt_mul_left h hk.le, fun h => Int.mul_lt_mul_of_pos_left h hk⟩
  have e1 : k * S + k * T * 2 - k * P = k * (S + T * 2 - P) := by ring
  have e2 : 2 * (k * T) = k * (2 * T) := by ring
  have e3 : k * R - k * T - (k * S - k * P) = k * (R - T - (S - P)) := by ring
  have e4 : k * R - k * T * 2 = k * (R - T * 2) := by ring
  have e5 : k * P + k * (R - T * 2) = k * (P + (R - T * 2)) := by ring
  have e6 : k * S - k * P = k * (S - P) := by ring
  cases w
  · simp [surveyStep, scaleOut]
  · cases st
    · by_cases h1 : R ≥ S + T * 2 - P
      · have h1' : k * R ≥ k * S + k * T * 2 - k * P := by rw [e1]; exact (hle _ _).2 h1
        have hl : decide (k * R - k * T - (k * S - k * P) ≤ k * T) = decide (R - T - (S - P) ≤ T) := by
          rw [decide_eq_decide, e3]; exact hle _ _
        simp only [surveyStep, scaleOut, effS, effT, Bool.not_true, Bool.false_eq_true, if_false, false_or, h1,
          h1', if_true]
        congr 1
      · have h1' : ¬ k * R ≥ k * S + k * T * 2 - k * P := by rw [e1]; exact fun h => h1 ((hle _ _).1 h)
        by_cases h2 : R > 2 * T
        · have h2' : k * R > 2 * (k * T) := by rw [e2]; exact (hlt _ _).2 h2
          simp only [surveyStep, scaleOut, effS, effT, Bool.not_true, Bool.false_eq_true, if_false, false_or, h1,
            h1', h2, h2', if_true]
          congr 1 <;> ring
        · have h2' : ¬ k * R > 2 * (k * T) := by rw [e2]; exact fun h => h2 ((hlt _ _).1 h)
          simp only [surveyStep, scaleOut, effS, effT, Bool.not_true, Bool.false_eq_true, if_false, false_or, h1,
            h1', h2, h2', Int.mul_zero]
    · have hl : decide (k * R - 0 - (0 - k * P) ≤ 0) = decide (R - 0 - (0 - P) ≤ 0) := by
        rw [decide_eq_decide]
        have : k * R - 0 - (0 - k * P) = k * (R - 0 - (0 - P)) := by ring
        rw [this]
        have h0 := hle (R - 0 - (0 - P)) 0
        rw [mul_zero] at h0
        exact h0
      simp only [surveyStep, scaleOut, effS, effT, Bool.not_true, Bool.false_eq_true, if_false, if_true, true_or, hl,
        Int.mul_zero]
      congr 1 <;> ring

end LdarModel.Crew
