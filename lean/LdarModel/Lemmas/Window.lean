import LdarModel.Model.Window
import Mathlib.Algebra.Order.Floor.Ring
import Mathlib.Data.Rat.Floor
import Mathlib.Tactic.Ring
import Mathlib.Tactic.Linarith
/-
Helper lemmas for the estimation windows: the conditions of neighbouring rows are complementary,
Lean's integer division is the ℚ floor, the split identity `⌈g·x⌉ + ⌊g·(1−x)⌋ = g`, the stable
date sort, and the chain lemma from which tiling follows for every rounding.
-/
namespace LdarModel.Window

/-! ### conditions and factors -/

/-- the previous condition of the later row is the negation of the next condition of the earlier
row, for every ordering of the two rates including equality -/
theorem prevCond_eq_not_nextCond (r rn : Int) : prevCond r rn = !nextCond r rn := by
  unfold prevCond nextCond
  by_cases h : r - rn < 0
  · have : ¬ (rn - r ≤ 0) := by omega
    simp [h, this]
  · have : rn - r ≤ 0 := by omega
    simp [h, this]

theorem num_add_num_not (f : Fac) (c : Bool) : f.num c + f.num (!c) = f.q := by
  unfold Fac.num; cases c <;> simp

/-- the value of the factor chosen by `calculate_factor` as a rational number -/
def Fac.val (f : Fac) (c : Bool) : ℚ := if c then 1 - (f.p : ℚ) / (f.q : ℚ) else (f.p : ℚ) / (f.q : ℚ)

theorem num_div (f : Fac) (hq : 0 < f.q) (c : Bool) : ((f.num c : Int) : ℚ) / (f.q : ℚ) = f.val c := by
  have hq' : (f.q : ℚ) ≠ 0 := by exact_mod_cast (ne_of_gt hq)
  unfold Fac.num Fac.val
  cases c
  · simp
  · simp only [if_true]
    push_cast
    rw [sub_div, div_self hq']

theorem val_add_val_not (f : Fac) (c : Bool) : f.val c + f.val (!c) = 1 := by
  unfold Fac.val; cases c <;> simp

/-! ### floor and ceiling -/

theorem ediv_eq_floor (n q : Int) (hq : 0 < q) : n / q = ⌊(n : ℚ) / (q : ℚ)⌋ := by
  have h := Rat.floor_intCast_div_natCast n q.toNat
  have hq' : ((q.toNat : Int)) = q := Int.toNat_of_nonneg (le_of_lt hq)
  have hc : ((q.toNat : ℕ) : ℚ) = (q : ℚ) := by exact_mod_cast hq'
  rw [hc, hq'] at h
  exact h.symm

/-- the value of the duration factor as a rational number -/
def Fac.ratio (f : Fac) : ℚ := (f.p : ℚ) / (f.q : ℚ)

theorem val_false (f : Fac) : f.val false = f.ratio := rfl
theorem val_true (f : Fac) : f.val true = 1 - f.ratio := rfl

theorem ediv_mul_eq_floor (g n q : Int) (hq : 0 < q) :
    (g * n) / q = ⌊(g : ℚ) * ((n : ℚ) / (q : ℚ))⌋ := by
  rw [ediv_eq_floor _ _ hq]
  congr 1
  push_cast
  ring

theorem neg_ediv_mul_eq_ceil (g n q : Int) (hq : 0 < q) :
    -((-(g * n)) / q) = ⌈(g : ℚ) * ((n : ℚ) / (q : ℚ))⌉ := by
  rw [ediv_eq_floor _ _ hq]
  have h : ((-(g * n) : Int) : ℚ) / (q : ℚ) = -((g : ℚ) * ((n : ℚ) / (q : ℚ))) := by
    push_cast
    ring
  rw [h, Int.floor_neg, neg_neg]

/-- the model's exact rounding is the rational floor / ceiling of `duration · f` -/
theorem exact_lo_eq_floor (f : Fac) (hq : 0 < f.q) (g : Int) :
    (exactRounding f).lo g = ⌊(g : ℚ) * f.ratio⌋ := ediv_mul_eq_floor g f.p f.q hq

theorem exact_hi_eq_ceil (f : Fac) (hq : 0 < f.q) (g : Int) :
    (exactRounding f).hi g = ⌈(g : ℚ) * f.ratio⌉ := neg_ediv_mul_eq_ceil g f.p f.q hq

/-- the code before the repairs, in exact arithmetic: `⌊g·a⌋` and `⌈g·b⌉` -/
theorem endOffsetOrig_eq_floor (f : Fac) (hq : 0 < f.q) (g : Int) (c : Bool) :
    endOffsetOrig f g c = ⌊(g : ℚ) * f.val c⌋ := by
  unfold endOffsetOrig
  rw [ediv_mul_eq_floor _ _ _ hq, num_div f hq c]

theorem startOffsetOrig_eq_ceil (f : Fac) (hq : 0 < f.q) (g : Int) (c : Bool) :
    startOffsetOrig f g c = ⌈(g : ℚ) * f.val c⌉ := by
  unfold startOffsetOrig
  rw [neg_ediv_mul_eq_ceil _ _ _ hq, num_div f hq c]

/-- the split identity over ℚ -/
theorem ceil_add_floor_compl (g : Int) (x : ℚ) : ⌈(g : ℚ) * x⌉ + ⌊(g : ℚ) * (1 - x)⌋ = g := by
  have h : (g : ℚ) * (1 - x) = (g : ℚ) + -((g : ℚ) * x) := by ring
  rw [h, Int.floor_intCast_add, Int.floor_neg]
  omega

theorem floor_add_ceil_compl (g : Int) (x : ℚ) : ⌊(g : ℚ) * x⌋ + ⌈(g : ℚ) * (1 - x)⌉ = g := by
  have h := ceil_add_floor_compl g (1 - x)
  have h' : (1 : ℚ) - (1 - x) = x := by ring
  rw [h'] at h
  omega

/-- a rounding is admissible when both roundings return a whole number of days inside the
interval -/
def Admissible (ρ : Rounding) : Prop :=
  ∀ g, 0 ≤ g → (0 ≤ ρ.lo g ∧ ρ.lo g ≤ g) ∧ (0 ≤ ρ.hi g ∧ ρ.hi g ≤ g)

/-- bounds of the exact rounding: `0 ≤ ⌊g·f⌋ ≤ ⌈g·f⌉ ≤ g` for `0 ≤ f ≤ 1`, `0 ≤ g` -/
theorem exactRounding_admissible (f : Fac) (hf : f.Valid) : Admissible (exactRounding f) := by
  obtain ⟨hq, hp0, hpq⟩ := hf
  intro g hg
  have h1 : 0 ≤ g * f.p := Int.mul_nonneg hg hp0
  have h2 : g * f.p ≤ g * f.q := Int.mul_le_mul_of_nonneg_left hpq hg
  unfold exactRounding
  simp only []
  refine ⟨⟨Int.ediv_nonneg h1 (le_of_lt hq), Int.ediv_le_of_le_mul hq h2⟩, ?_, ?_⟩
  · have : (-(g * f.p)) / f.q ≤ 0 := by
      apply Int.ediv_le_of_le_mul hq
      omega
    omega
  · have : -g ≤ (-(g * f.p)) / f.q := by
      apply Int.le_ediv_of_mul_le hq
      have : -g * f.q = -(g * f.q) := by ring
      omega
    omega

/-! ### stable sort by date -/

abbrev Sorted (l : List Row) : Prop := l.Pairwise (fun a b => a.date ≤ b.date)

theorem mem_insertByDate (x y : Row) (l : List Row) : y ∈ insertByDate x l ↔ y = x ∨ y ∈ l := by
  induction l with
  | nil => simp [insertByDate]
  | cons z zs ih =>
    unfold insertByDate
    split
    · simp
    · simp only [List.mem_cons, ih]
      tauto

theorem sorted_insertByDate (x : Row) (l : List Row) (h : Sorted l) : Sorted (insertByDate x l) := by
  induction l with
  | nil => simp [insertByDate, Sorted]
  | cons z zs ih =>
    unfold insertByDate
    have hz := List.pairwise_cons.mp h
    split
    · rename_i hlt
      refine List.pairwise_cons.mpr ⟨?_, h⟩
      intro b hb
      rcases List.mem_cons.mp hb with rfl | hb
      · omega
      · have := hz.1 b hb; omega
    · rename_i hge
      refine List.pairwise_cons.mpr ⟨?_, ih hz.2⟩
      intro b hb
      rcases (mem_insertByDate x b zs).mp hb with rfl | hb
      · omega
      · exact hz.1 b hb

private theorem foldl_insert_spec (l acc : List Row) (h : Sorted acc) :
    Sorted (l.foldl (fun acc x => insertByDate x acc) acc) ∧
    ∀ y, y ∈ l.foldl (fun acc x => insertByDate x acc) acc ↔ y ∈ l ∨ y ∈ acc := by
  induction l generalizing acc with
  | nil => simp [h]
  | cons x xs ih =>
    have := ih (insertByDate x acc) (sorted_insertByDate x acc h)
    simp only [List.foldl_cons]
    refine ⟨this.1, ?_⟩
    intro y
    rw [this.2 y, mem_insertByDate, List.mem_cons]
    tauto

theorem sorted_sortByDate (l : List Row) : Sorted (sortByDate l) :=
  (foldl_insert_spec l [] List.Pairwise.nil).1

theorem mem_sortByDate (l : List Row) (y : Row) : y ∈ sortByDate l ↔ y ∈ l := by
  have := (foldl_insert_spec l [] List.Pairwise.nil).2 y
  unfold sortByDate
  rw [this]; simp

/-! ### the chain lemma -/

/-- date of the last row (`d` if there is none) -/
def lastDate : Int → List Row → Int
  | d, [] => d
  | _, x :: xs => lastDate x.date xs

theorem lastDate_mem (d : Int) (l : List Row) : lastDate d l = d ∨ ∃ x ∈ l, x.date = lastDate d l := by
  induction l generalizing d with
  | nil => simp [lastDate]
  | cons x xs ih =>
    right
    unfold lastDate
    rcases ih x.date with h | ⟨y, hy, hy'⟩
    · exact ⟨x, by simp, h.symm⟩
    · exact ⟨y, by simp [hy], hy'⟩

theorem le_lastDate (x : Row) (rest : List Row) (h : Sorted (x :: rest)) :
    ∀ y ∈ x :: rest, y.date ≤ lastDate x.date rest := by
  induction rest generalizing x with
  | nil => intro y hy; simp at hy; simp [lastDate, hy]
  | cons z zs ih =>
    have hx := List.pairwise_cons.mp h
    intro y hy
    unfold lastDate
    rcases List.mem_cons.mp hy with rfl | hy
    · have h1 := hx.1 z (by simp)
      have h2 := ih z hx.2 z (by simp)
      omega
    · exact ih z hx.2 y hy

/-- start offset of a row given the row before it, as `winsFrom` computes it -/
def startOff (ρ : Rounding) (prev : Option Row) (x : Row) : Int :=
  match prev with
  | none => startOffset ρ 0 false
  | some y => startOffset ρ (x.date - y.date) (prevCond y.rate x.rate)

/-- end offset of a row given the rows after it, as `winsFrom` computes it -/
def endOff (ρ : Rounding) (x : Row) (rest : List Row) : Int :=
  match rest with
  | [] => endOffset ρ 0 false
  | z :: _ => endOffset ρ (z.date - x.date) (nextCond x.rate z.rate)

theorem winsFrom_cons (ρ : Rounding) (prev : Option Row) (x : Row) (rest : List Row) :
    winsFrom ρ prev (x :: rest) =
      { start := x.date - startOff ρ prev x, stop := x.date + endOff ρ x rest, date := x.date,
        rate := x.rate } :: winsFrom ρ (some x) rest := by
  cases prev <;> cases rest <;> rfl

theorem startOffset_bounds (ρ : Rounding) (hρ : Admissible ρ) (g : Int) (c : Bool) (hg : 0 ≤ g) :
    0 ≤ startOffset ρ g c ∧ startOffset ρ g c ≤ g := by
  have := hρ g hg
  unfold startOffset
  cases c <;> simp <;> omega

theorem endOffset_bounds (ρ : Rounding) (hρ : Admissible ρ) (g : Int) (c : Bool) (hg : 0 ≤ g) :
    0 ≤ endOffset ρ g c ∧ endOffset ρ g c ≤ g := by
  have := hρ g hg
  unfold endOffset
  cases c <;> simp <;> omega

/-- the two offsets of one interval add up to its length, for every rounding whatsoever -/
theorem offsets_meet (ρ : Rounding) (g r rn : Int) :
    endOffset ρ g (nextCond r rn) + startOffset ρ g (prevCond r rn) = g := by
  rw [prevCond_eq_not_nextCond]
  unfold endOffset startOffset
  cases nextCond r rn <;> simp

theorem startOff_nonneg (ρ : Rounding) (hρ : Admissible ρ) (prev : Option Row) (x : Row)
    (hprev : ∀ y, prev = some y → y.date ≤ x.date) : 0 ≤ startOff ρ prev x := by
  unfold startOff
  cases prev with
  | none => exact (startOffset_bounds ρ hρ 0 false (le_refl 0)).1
  | some y =>
    have hy := hprev y rfl
    exact (startOffset_bounds ρ hρ (x.date - y.date) _ (by omega)).1

/-- chain lemma: for every admissible rounding the windows of date-sorted rows meet exactly -/
theorem tiles_winsFrom (ρ : Rounding) (hρ : Admissible ρ) :
    ∀ (rest : List Row) (x : Row) (prev : Option Row),
      (∀ y, prev = some y → y.date ≤ x.date) → Sorted (x :: rest) →
      Tiles (x.date - startOff ρ prev x) (lastDate x.date rest) (winsFrom ρ prev (x :: rest)) := by
  intro rest
  induction rest with
  | nil =>
    intro x prev hprev _
    have h0 := endOffset_bounds ρ hρ 0 false (le_refl 0)
    have hso := startOff_nonneg ρ hρ prev x hprev
    rw [winsFrom_cons]
    simp only [winsFrom, Tiles, lastDate, endOff]
    refine ⟨trivial, ?_, ?_⟩
    · omega
    · omega
  | cons z zs ih =>
    intro x prev hprev hs
    have hx := List.pairwise_cons.mp hs
    have hxz : x.date ≤ z.date := hx.1 z (by simp)
    have hso := startOff_nonneg ρ hρ prev x hprev
    have hr := endOffset_bounds ρ hρ (z.date - x.date) (nextCond x.rate z.rate) (by omega)
    have ihz := ih z (some x) (by intro y hy; cases hy; exact hxz) hx.2
    have hm := offsets_meet ρ (z.date - x.date) x.rate z.rate
    have hmeet : z.date - startOff ρ (some x) z
        = x.date + endOffset ρ (z.date - x.date) (nextCond x.rate z.rate) := by
      unfold startOff
      simp only []
      omega
    rw [hmeet] at ihz
    unfold lastDate
    rw [winsFrom_cons]
    unfold Tiles
    refine ⟨rfl, ?_, ihz⟩
    simp only [endOff]
    omega

/-! ### one group: the sentinels bound the sorted rows -/

theorem groupRows_spec (S E : Int) (rows : List Row) (hSE : S ≤ E)
    (hb : ∀ r ∈ rows, S ≤ r.date ∧ r.date ≤ E) :
    ∃ x rest, groupRows S E rows = x :: rest ∧ Sorted (x :: rest) ∧ x.date = S ∧
      lastDate x.date rest = E := by
  have hsorted := sorted_sortByDate (rows ++ [{ date := S, rate := 0 }, { date := E, rate := 0 }])
  have hmem := mem_sortByDate (rows ++ [{ date := S, rate := 0 }, { date := E, rate := 0 }])
  have hall : ∀ y ∈ groupRows S E rows, S ≤ y.date ∧ y.date ≤ E := by
    intro y hy
    have := (hmem y).mp hy
    simp only [List.mem_append, List.mem_cons, List.not_mem_nil, or_false] at this
    rcases this with h | rfl | rfl
    · exact hb y h
    · exact ⟨le_refl _, hSE⟩
    · exact ⟨hSE, le_refl _⟩
  have hS : ({ date := S, rate := 0 } : Row) ∈ groupRows S E rows := (hmem _).mpr (by simp)
  have hE : ({ date := E, rate := 0 } : Row) ∈ groupRows S E rows := (hmem _).mpr (by simp)
  unfold groupRows at *
  generalize sortByDate (rows ++ [{ date := S, rate := 0 }, { date := E, rate := 0 }]) = l at *
  cases l with
  | nil => simp at hS
  | cons x rest =>
    refine ⟨x, rest, rfl, hsorted, ?_, ?_⟩
    · have h1 := (hall x (by simp)).1
      have hx := List.pairwise_cons.mp hsorted
      rcases List.mem_cons.mp hS with h | h
      · rw [← h]
      · have := hx.1 _ h; simp only [] at this; omega
    · have h1 := le_lastDate x rest hsorted _ hE
      simp only [] at h1
      rcases lastDate_mem x.date rest with h | ⟨y, hy, hy'⟩
      · have := (hall x (by simp)).2; omega
      · have := (hall y (by simp [hy])).2; omega

/-- tiling of one group for every admissible rounding -/
theorem tiles_groupWins (ρ : Rounding) (hρ : Admissible ρ) (S E : Int) (rows : List Row)
    (hSE : S ≤ E) (hb : ∀ r ∈ rows, S ≤ r.date ∧ r.date ≤ E) :
    Tiles S E (groupWins ρ S E rows) := by
  obtain ⟨x, rest, hg, hs, hxS, hlast⟩ := groupRows_spec S E rows hSE hb
  unfold groupWins
  rw [hg]
  have h := tiles_winsFrom ρ hρ rest x none (by intro y hy; cases hy) hs
  have h0 := startOffset_bounds ρ hρ 0 false (le_refl 0)
  have hso : startOff ρ none x = 0 := by unfold startOff; simp only []; omega
  rw [hso, hlast, hxS] at h
  simpa using h

/-! ### whole tables: every row of a group lies inside the period -/

theorem mem_dedup {α} [DecidableEq α] (l : List α) (x : α) : x ∈ dedup l → x ∈ l := by
  induction l with
  | nil => simp [dedup]
  | cons y ys ih =>
    unfold dedup
    intro h
    rcases List.mem_cons.mp h with rfl | h
    · simp
    · exact List.mem_cons_of_mem _ (ih (List.mem_filter.mp h).1)

theorem relevant_sub (m : Mode) (recs : List Rec) (r : Rec) : r ∈ relevant m recs → r ∈ recs := by
  cases m
  · exact id
  · intro h; exact (List.mem_filter.mp h).1

theorem groupInput_bounds (m : Mode) (recs : List Rec) (k : Key) (S E : Int)
    (hb : ∀ r ∈ recs, S ≤ r.date ∧ r.date ≤ E) :
    ∀ r ∈ groupInput m recs k, S ≤ r.date ∧ r.date ≤ E := by
  intro r hr
  unfold groupInput at hr
  simp only [List.mem_append] at hr
  rcases hr with hr | hr
  · obtain ⟨a, ha, rfl⟩ := List.mem_map.mp hr
    exact hb a (relevant_sub m recs a (List.mem_filter.mp ha).1)
  · cases m with
    | site => simp at hr
    | comp =>
      obtain ⟨d, hd, rfl⟩ := List.mem_map.mp hr
      have hd' := mem_dedup _ _ (List.mem_filter.mp hd).1
      obtain ⟨a, ha, rfl⟩ := List.mem_map.mp hd'
      exact hb a (relevant_sub .comp recs a (List.mem_filter.mp ha).1)

/-! ### the condition columns are complementary on every pair of neighbouring rows -/

theorem condsFrom_cons (prev : Option Row) (x : Row) (rest : List Row) :
    condsFrom prev (x :: rest) =
      ((match prev with | none => false | some y => prevCond y.rate x.rate),
       (match rest with | [] => false | z :: _ => nextCond x.rate z.rate)) :: condsFrom (some x) rest := rfl

theorem complementary_condsFrom : ∀ (rows : List Row) (prev : Option Row), Complementary (condsFrom prev rows) := by
  intro rows
  induction rows with
  | nil => intro prev; simp [condsFrom, Complementary]
  | cons x rest ih =>
    intro prev
    cases rest with
    | nil => simp [condsFrom, Complementary]
    | cons z zs =>
      have ihz := ih (some x)
      rw [condsFrom_cons] at ihz ⊢
      exact ⟨prevCond_eq_not_nextCond x.rate z.rate, ihz⟩

/-! ### calendar: the computation only sees differences of dates -/

def Row.shift (k : Int) (r : Row) : Row := { r with date := r.date + k }
def Win.shift (k : Int) (w : Win) : Win :=
  { w with start := w.start + k, stop := w.stop + k, date := w.date + k }

theorem insertByDate_shift (k : Int) (x : Row) (l : List Row) :
    insertByDate (x.shift k) (l.map (Row.shift k)) = (insertByDate x l).map (Row.shift k) := by
  induction l with
  | nil => simp [insertByDate]
  | cons y ys ih =>
    simp only [List.map_cons, insertByDate, Row.shift]
    by_cases h : x.date < y.date
    · have : x.date + k < y.date + k := by omega
      simp [h, this, Row.shift]
    · have : ¬ (x.date + k < y.date + k) := by omega
      simp only [h, this, if_false, List.map_cons]
      congr 1

theorem sortByDate_shift (k : Int) (l : List Row) :
    sortByDate (l.map (Row.shift k)) = (sortByDate l).map (Row.shift k) := by
  unfold sortByDate
  suffices h : ∀ acc : List Row,
      (l.map (Row.shift k)).foldl (fun acc x => insertByDate x acc) (acc.map (Row.shift k))
        = (l.foldl (fun acc x => insertByDate x acc) acc).map (Row.shift k) by
    simpa using h []
  induction l with
  | nil => intro acc; rfl
  | cons x xs ih =>
    intro acc
    simp only [List.map_cons, List.foldl_cons]
    rw [insertByDate_shift, ih]

theorem winsFrom_shift (ρ : Rounding) (k : Int) (rows : List Row) (prev : Option Row) :
    winsFrom ρ (prev.map (Row.shift k)) (rows.map (Row.shift k))
      = (winsFrom ρ prev rows).map (Win.shift k) := by
  induction rows generalizing prev with
  | nil => simp [winsFrom]
  | cons x rest ih =>
    rw [List.map_cons, winsFrom_cons, winsFrom_cons, List.map_cons]
    have ih' := ih (some x)
    simp only [Option.map_some] at ih'
    rw [ih']
    congr 1
    have hs : startOff ρ (prev.map (Row.shift k)) (x.shift k) = startOff ρ prev x := by
      cases prev with
      | none => rfl
      | some y =>
        simp only [Option.map_some, startOff, Row.shift]
        congr 1
        omega
    have he : endOff ρ (x.shift k) (rest.map (Row.shift k)) = endOff ρ x rest := by
      cases rest with
      | nil => rfl
      | cons z zs =>
        simp only [List.map_cons, endOff, Row.shift]
        congr 1
        omega
    rw [hs, he]
    simp only [Win.shift, Row.shift]
    congr 1 <;> omega

/-- moving the period and every report of a group by `k` days moves its windows by `k` days, for
every rounding -/
theorem groupWins_shift (ρ : Rounding) (k S E : Int) (rows : List Row) :
    groupWins ρ (S + k) (E + k) (rows.map (Row.shift k)) = (groupWins ρ S E rows).map (Win.shift k) := by
  unfold groupWins groupRows
  have h : rows.map (Row.shift k) ++ [({ date := S + k, rate := 0 } : Row), ({ date := E + k, rate := 0 } : Row)]
      = (rows ++ [({ date := S, rate := 0 } : Row), ({ date := E, rate := 0 } : Row)]).map (Row.shift k) := by
    simp [Row.shift]
  rw [h, sortByDate_shift]
  exact winsFrom_shift ρ k _ none

/-! ### frame: a group only sees the reports of its own site -/

theorem keyOf_site (m : Mode) (r : Rec) : (keyOf m r).site = r.site := by cases m <;> rfl

theorem relevant_filter_site (m : Mode) (recs : List Rec) (s : Nat) :
    relevant m (recs.filter (fun r => r.site = s)) = (relevant m recs).filter (fun r => r.site = s) := by
  cases m
  · rfl
  · simp only [relevant, List.filter_filter]
    congr 1
    funext r
    exact Bool.and_comm _ _

/-- the rows of a group are computed from the reports of the group's own site alone: reports of
other sites (before, after or between them in the table) do not influence them -/
theorem groupInput_frame (m : Mode) (recs : List Rec) (k : Key) :
    groupInput m (recs.filter (fun r => r.site = k.site)) k = groupInput m recs k := by
  unfold groupInput
  rw [relevant_filter_site]
  have hown : ((relevant m recs).filter (fun r => r.site = k.site)).filter (fun r => keyOf m r = k)
      = (relevant m recs).filter (fun r => keyOf m r = k) := by
    rw [List.filter_filter]
    congr 1
    funext r
    by_cases h : keyOf m r = k
    · have : r.site = k.site := by rw [← keyOf_site m r, h]
      simp [h, this]
    · simp [h]
  have hdates : siteDates ((relevant m recs).filter (fun r => r.site = k.site)) k.site
      = siteDates (relevant m recs) k.site := by
    unfold siteDates
    rw [List.filter_filter]
    simp
  simp only [hown]
  cases m
  · rfl
  · simp only [hdates]

end LdarModel.Window
