import LdarModel.Model.FollowUp
/-
Helper lemmas for the follow-up work practice: container lemmas (pool / queue as sorted lists) and
the three invariants from which the C09 theorems follow, each proved by induction over the
operation list for every history:
  `InvA`  structure: a site is in the pool / in the queue exactly once iff its flag is set, never
          both; flag events = completed + withdrawn + outstanding            (one_outstanding)
  `Sorted` the pool is sorted by decreasing rate                              (proportion: largest first)
  `InvC`  provenance and dates: every pooled / queued plan and every flag event stems from released
          records of its site, not before the reporting delay, with the routing condition
          (queued_implies_flagged, not_before_reporting_delay)
-/
namespace LdarModel.FollowUp

def b2n (b : Bool) : Nat := if b then 1 else 0

/-- number of plans of a site in a pool -/
def cnt (l : List Plan) (s : Nat) : Nat := l.countP (fun pl => pl.site = s)

@[simp] theorem b2n_true : b2n true = 1 := rfl
@[simp] theorem b2n_false : b2n false = 0 := rfl
theorem b2n_le (b : Bool) : b2n b ≤ 1 := by cases b <;> simp
theorem b2n_eq_one {b : Bool} : b2n b = 1 ↔ b = true := by cases b <;> simp
theorem b2n_eq_zero {b : Bool} : b2n b = 0 ↔ b = false := by cases b <;> simp

@[simp] theorem setB_same (f : Nat → Bool) (s : Nat) (v : Bool) : setB f s v s = v := by simp [setB]
theorem setB_other (f : Nat → Bool) {s x : Nat} (v : Bool) (h : x ≠ s) : setB f s v x = f x := by
  simp [setB, h]
@[simp] theorem bump_same (f : Nat → Nat) (s : Nat) : bump f s s = f s + 1 := by simp [bump]
theorem bump_other (f : Nat → Nat) {s x : Nat} (h : x ≠ s) : bump f s x = f x := by simp [bump, h]

/-! ### pool -/

@[simp] theorem cnt_nil (s : Nat) : cnt [] s = 0 := rfl
theorem cnt_cons (x : Plan) (l : List Plan) (s : Nat) :
    cnt (x :: l) s = cnt l s + (if x.site = s then 1 else 0) := by
  unfold cnt; rw [List.countP_cons]; simp

theorem cnt_poolInsert (x : Plan) (l : List Plan) (s : Nat) :
    cnt (poolInsert x l) s = cnt l s + (if x.site = s then 1 else 0) := by
  induction l with
  | nil => simp [poolInsert, cnt_cons]
  | cons y t ih =>
    unfold poolInsert
    split
    · simp [cnt_cons]
    · simp only [cnt_cons, ih]; omega

theorem mem_poolInsert (x y : Plan) (l : List Plan) : y ∈ poolInsert x l ↔ y = x ∨ y ∈ l := by
  induction l with
  | nil => simp [poolInsert]
  | cons z t ih =>
    unfold poolInsert
    split
    · simp
    · simp only [List.mem_cons, ih]; grind

def Sorted (l : List Plan) : Prop := l.Pairwise (fun a b => b.rate ≤ a.rate)

theorem sorted_poolInsert (x : Plan) (l : List Plan) (h : Sorted l) : Sorted (poolInsert x l) := by
  unfold Sorted at *
  induction l with
  | nil => simp [poolInsert]
  | cons y t ih =>
    unfold poolInsert
    rw [List.pairwise_cons] at h
    split
    · rename_i hlt
      refine List.pairwise_cons.mpr ⟨?_, List.pairwise_cons.mpr h⟩
      intro z hz
      rcases List.mem_cons.mp hz with rfl | hz
      · exact Rat.le_of_lt hlt
      · have := h.1 z hz; grind
    · rename_i hlt
      refine List.pairwise_cons.mpr ⟨?_, ih h.2⟩
      intro z hz
      rcases (mem_poolInsert x z t).mp hz with rfl | hz
      · grind
      · exact h.1 z hz

theorem poolTake_spec (s : Nat) (l : List Plan) :
    (∀ pl l', poolTake s l = (some pl, l') →
        pl.site = s ∧ pl ∈ l ∧ l'.Sublist l ∧ ∀ t, cnt l t = cnt l' t + (if pl.site = t then 1 else 0)) ∧
    (∀ l', poolTake s l = (none, l') → cnt l s = 0) := by
  induction l with
  | nil => simp [poolTake]
  | cons y t ih =>
    unfold poolTake
    by_cases hy : y.site = s
    · simp only [hy, if_true]
      refine ⟨?_, by simp⟩
      intro pl l' h
      simp only [Prod.mk.injEq, Option.some.injEq] at h
      obtain ⟨rfl, rfl⟩ := h
      refine ⟨hy, by simp, by simp, ?_⟩
      intro t; simp [cnt_cons]
    · simp only [hy, if_false]
      refine ⟨?_, ?_⟩
      · intro pl l' h
        simp only [Prod.mk.injEq] at h
        obtain ⟨h1, rfl⟩ := h
        have := ih.1 pl (poolTake s t).2 (by rw [← h1])
        obtain ⟨a, b, c, d⟩ := this
        refine ⟨a, by simp [b], by simpa using c, ?_⟩
        intro u; simp only [cnt_cons, d u]; omega
      · intro l' h
        simp only [Prod.mk.injEq] at h
        have := ih.2 (poolTake s t).2 (by rw [← h.1])
        simp [cnt_cons, this, hy]

theorem sorted_sublist {l l' : List Plan} (h : l'.Sublist l) (hs : Sorted l) : Sorted l' :=
  List.Pairwise.sublist h hs

theorem cnt_take_drop (l : List Plan) (k s : Nat) : cnt (l.take k) s + cnt (l.drop k) s = cnt l s := by
  unfold cnt
  rw [← List.countP_append, List.take_append_drop]

theorem cnt_pos_of_mem {l : List Plan} {pl : Plan} (h : pl ∈ l) : 0 < cnt l pl.site := by
  unfold cnt
  exact List.countP_pos_iff.mpr ⟨pl, h, by simp⟩

theorem cnt_zero_not_mem {l : List Plan} {s : Nat} (h : cnt l s = 0) : ∀ pl ∈ l, pl.site ≠ s := by
  intro pl hpl hs
  have := cnt_pos_of_mem hpl
  rw [hs] at this; omega

/-- un-flagging the rejected candidates -/
theorem unflag_spec (rej : List Plan) (g : Nat → Bool) (s : Nat) :
    (rej.foldl (fun f pl => setB f pl.site false) g) s = if cnt rej s = 0 then g s else false := by
  induction rej generalizing g with
  | nil => simp
  | cons y t ih =>
    simp only [List.foldl_cons, ih, cnt_cons]
    by_cases hy : y.site = s
    · subst hy; simp
    · have : s ≠ y.site := fun h => hy h.symm
      simp [hy, setB_other _ _ this]

/-! ### queue -/

theorem outstanding_nil (s : Nat) : outstanding [] s = 0 := rfl
theorem outstanding_cons (x : QE) (l : List QE) (s : Nat) :
    outstanding (x :: l) s = outstanding l s + (if x.plan.site = s then 1 else 0) := by
  unfold outstanding; rw [List.countP_cons]; simp

theorem outstanding_qInsert (x : QE) (l : List QE) (s : Nat) :
    outstanding (qInsert x l) s = outstanding l s + (if x.plan.site = s then 1 else 0) := by
  induction l with
  | nil => simp [qInsert, outstanding_cons, outstanding_nil]
  | cons y t ih =>
    unfold qInsert
    split
    · simp [outstanding_cons]
    · simp only [outstanding_cons, ih]; omega

theorem mem_qInsert (x y : QE) (l : List QE) : y ∈ qInsert x l ↔ y = x ∨ y ∈ l := by
  induction l with
  | nil => simp [qInsert]
  | cons z t ih =>
    unfold qInsert
    split
    · simp
    · simp only [List.mem_cons, ih]; grind

theorem outstanding_qRemove (s : Nat) (q : List QE) (t : Nat) :
    outstanding (qRemove s q) t = if t = s then 0 else outstanding q t := by
  induction q with
  | nil => simp [qRemove, outstanding_nil]
  | cons y l ih =>
    unfold qRemove at *
    simp only [List.filter_cons]
    by_cases hy : y.plan.site = s
    · simp only [hy, ne_eq, not_true_eq_false, decide_false, Bool.false_eq_true, if_false, ih,
        outstanding_cons]
      by_cases ht : t = s
      · simp [ht]
      · have : ¬ s = t := fun h => ht h.symm
        simp [ht, this]
    · simp only [hy, ne_eq, not_false_eq_true, decide_true, if_true, outstanding_cons, ih]
      by_cases ht : t = s
      · subst ht; simp [hy]
      · simp [ht]

theorem mem_qRemove {s : Nat} {q : List QE} {e : QE} (h : e ∈ qRemove s q) : e ∈ q ∧ e.plan.site ≠ s := by
  unfold qRemove at h
  simpa using h

theorem qFindLast_some {s : Nat} {q : List QE} {pl : Plan} (h : qFindLast s q = some pl) :
    ∃ e ∈ q, e.plan = pl ∧ pl.site = s := by
  unfold qFindLast at h
  rw [Option.map_eq_some_iff] at h
  obtain ⟨e, he, rfl⟩ := h
  have := List.mem_of_getLast? he
  rw [List.mem_filter] at this
  exact ⟨e, this.1, rfl, by simpa using this.2⟩

theorem qFindLast_none {s : Nat} {q : List QE} (h : qFindLast s q = none) : outstanding q s = 0 := by
  unfold qFindLast at h
  rw [Option.map_eq_none_iff, List.getLast?_eq_none_iff] at h
  unfold outstanding
  rw [List.countP_eq_length_filter, h]; rfl

theorem outstanding_take_drop (l : List QE) (k s : Nat) :
    outstanding (l.take k) s + outstanding (l.drop k) s = outstanding l s := by
  unfold outstanding
  rw [← List.countP_append, List.take_append_drop]

theorem cnt_append (a b : List Plan) (s : Nat) : cnt (a ++ b) s = cnt a s + cnt b s := by
  unfold cnt; exact List.countP_append

theorem cnt_map_plan (l : List QE) (s : Nat) : cnt (l.map (·.plan)) s = outstanding l s := by
  unfold cnt outstanding
  rw [List.countP_map]; rfl

/-- the work plan keyed by site id changes nothing when every site occurs at most once -/
theorem dedup_fold (l : List QE) (acc : List Plan)
    (h : ∀ s, cnt acc s + outstanding l s ≤ 1) :
    l.foldl (fun acc e =>
      if acc.any (fun a => a.site = e.plan.site) then
        acc.map (fun a => if a.site = e.plan.site then e.plan else a)
      else acc ++ [e.plan]) acc = acc ++ l.map (·.plan) := by
  induction l generalizing acc with
  | nil => simp
  | cons e t ih =>
    simp only [List.foldl_cons, List.map_cons]
    have he := h e.plan.site
    rw [outstanding_cons] at he
    simp only [if_true] at he
    have hz : cnt acc e.plan.site = 0 := by omega
    have hany : acc.any (fun a => a.site = e.plan.site) = false := by
      rw [List.any_eq_false]
      intro a ha
      have := cnt_zero_not_mem hz a ha
      simpa using this
    rw [hany]
    simp only [Bool.false_eq_true, if_false]
    rw [ih]
    · simp
    · intro s
      have := h s
      rw [outstanding_cons] at this
      rw [cnt_append, cnt_cons, cnt_nil]
      omega

theorem dedupPlans_of_distinct (l : List QE) (h : ∀ s, outstanding l s ≤ 1) :
    dedupPlans l = l.map (·.plan) := by
  unfold dedupPlans
  rw [dedup_fold l [] (by intro s; simpa using h s)]
  simp

/-! ### invariant A: structure -/

structure InvA (st : St) : Prop where
  poolCnt : ∀ s, cnt st.m.pool s = b2n (st.m.inPool s)
  queueCnt : ∀ s, outstanding st.sh.queue s = b2n (st.sh.inQueue s)
  excl : ∀ s, st.m.inPool s = true → st.sh.inQueue s = false
  counters : ∀ s, st.sh.flags s = st.sh.done s + st.sh.dropped s + b2n (st.sh.inQueue s)
  noErr : st.sh.err = false

@[simp] theorem updPlan_site (p : Params) (pl : Plan) (r : Rat) (dc : Int) :
    (updPlan p pl r dc).site = pl.site := by
  unfold updPlan; split <;> rfl

@[simp] theorem newPlan_site (p : Params) (r : Rec) (dc : Int) : (newPlan p r dc).site = r.site := rfl

theorem invA_init : InvA {} := by
  constructor <;> simp [cnt, outstanding, b2n]

/-- a site that is not queued (and, if it comes from the pool, already taken out of it) is flagged -/
theorem flagSite_invA (cls : Nat) (pl : Plan) (route : Route) (d first : Int) (st : St)
    (hp : ∀ s, cnt st.m.pool s = b2n (st.m.inPool s))
    (hq : ∀ s, outstanding st.sh.queue s = b2n (st.sh.inQueue s))
    (hx : ∀ s, st.m.inPool s = true → st.sh.inQueue s = false)
    (hc : ∀ s, st.sh.flags s = st.sh.done s + st.sh.dropped s + b2n (st.sh.inQueue s))
    (he : st.sh.err = false)
    (h1 : st.m.inPool pl.site = false) (h2 : st.sh.inQueue pl.site = false) :
    InvA (flagSite cls pl route d first st) := by
  constructor
  · intro s; simpa [flagSite] using hp s
  · intro s
    simp only [flagSite, enqueue, outstanding_qInsert, hq s]
    by_cases hs : s = pl.site
    · subst hs; simp [h2]
    · have : ¬ pl.site = s := fun h => hs h.symm
      simp [this, setB_other _ _ hs]
  · intro s hs
    simp only [flagSite, enqueue] at hs ⊢
    by_cases h : s = pl.site
    · subst h; simp [h1] at hs
    · simp [setB_other _ _ h, hx s hs]
  · intro s
    simp only [flagSite, enqueue]
    by_cases h : s = pl.site
    · subst h; simp [hc, h2]
    · simp [setB_other _ _ h, bump_other _ h, hc s]
  · simpa [flagSite, enqueue] using he

theorem updMobile_invA (p : Params) (d dc : Int) (r : Rec) (st : St) (h : InvA st) :
    InvA (updMobile p d dc r st) := by
  obtain ⟨hp, hq, hx, hc, he⟩ := h
  unfold updMobile
  by_cases hin : st.m.inPool r.site = true
  · simp only [hin, if_true]
    have hqf := hx _ hin
    rcases hpt : poolTake r.site st.m.pool with ⟨o, pool'⟩
    cases o with
    | none =>
      have := (poolTake_spec r.site st.m.pool).2 pool' hpt
      rw [hp, hin] at this; simp at this
    | some pl =>
      obtain ⟨hs, _, _, hcnt⟩ := (poolTake_spec r.site st.m.pool).1 pl pool' hpt
      simp only []
      have hp' : ∀ s, cnt pool' s = b2n (setB st.m.inPool r.site false s) := by
        intro s
        have := hcnt s; rw [hp s] at this
        by_cases h : s = r.site
        · subst h; simp [hs, hin] at this ⊢; omega
        · have h' : ¬ pl.site = s := by rw [hs]; exact fun e => h e.symm
          simp [h', setB_other _ _ h] at this ⊢; omega
      split
      · apply flagSite_invA
        · exact hp'
        · exact hq
        · intro s hs'
          by_cases h : s = r.site
          · subst h; simp at hs'
          · simp only [setB_other _ _ h] at hs'; exact hx s hs'
        · exact hc
        · exact he
        · simp [hs]
        · simpa [hs] using hqf
      · split
        · refine ⟨?_, hq, hx, hc, he⟩
          intro s
          simp only [cnt_poolInsert, updPlan_site]
          have := hcnt s; rw [hp s] at this
          omega
        · refine ⟨hp', hq, ?_, hc, he⟩
          intro s hs'
          by_cases h : s = r.site
          · subst h; simp at hs'
          · simp only [setB_other _ _ h] at hs'; exact hx s hs'
  · have hin' : st.m.inPool r.site = false := by simpa using hin
    simp only [hin', Bool.false_eq_true, if_false]
    by_cases hiq : st.sh.inQueue r.site = true
    · simp only [hiq, if_true]
      cases hfl : qFindLast r.site st.sh.queue with
      | none =>
        have := qFindLast_none hfl
        rw [hq, hiq] at this; simp at this
      | some pl =>
        obtain ⟨e, _, rfl, hs⟩ := qFindLast_some hfl
        simp only []
        have hq2 : ∀ (c : Nat) s, outstanding (qInsert { cls := c, plan := updPlan p e.plan r.rate dc }
              (qRemove r.site st.sh.queue)) s = b2n (st.sh.inQueue s) := by
          intro c s
          rw [outstanding_qInsert, outstanding_qRemove, updPlan_site, hs]
          by_cases h : s = r.site
          · subst h; simp [hiq]
          · have : ¬ r.site = s := fun e => h e.symm
            simp [h, this, hq s]
        split
        · exact ⟨hp, by intro s; simpa [enqueue] using hq2 _ s, hx, hc, he⟩
        · split
          · exact ⟨hp, by intro s; simpa [enqueue] using hq2 _ s, hx, hc, he⟩
          · refine ⟨hp, ?_, ?_, ?_, he⟩
            · intro s
              simp only [outstanding_qRemove]
              by_cases h : s = r.site
              · subst h; simp
              · simp [h, setB_other _ _ h, hq s]
            · intro s hs'
              by_cases h : s = r.site
              · subst h; simp
              · simp only [setB_other _ _ h]; exact hx s hs'
            · intro s
              by_cases h : s = r.site
              · subst h; simp [hc, hiq]; omega
              · simp [setB_other _ _ h, bump_other _ h, hc s]
    · have hiq' : st.sh.inQueue r.site = false := by simpa using hiq
      simp only [hiq', Bool.false_eq_true, if_false]
      split
      · exact flagSite_invA _ _ _ _ _ _ hp hq hx hc he (by simpa using hin') (by simpa using hiq')
      · split
        · refine ⟨?_, hq, ?_, hc, he⟩
          · intro s
            simp only [cnt_poolInsert, newPlan_site, hp s]
            by_cases h : s = r.site
            · subst h; simp [hin']
            · have : ¬ r.site = s := fun e => h e.symm
              simp [this, setB_other _ _ h]
          · intro s hs'
            by_cases h : s = r.site
            · subst h; exact hiq'
            · simp only [setB_other _ _ h] at hs'; exact hx s hs'
        · split
          · exact ⟨hp, hq, hx, hc, he⟩
          · exact ⟨hp, hq, hx, hc, he⟩

theorem updStationary_invA (p : Params) (d dc : Int) (r : Rec) (st : St) (h : InvA st) :
    InvA (updStationary p d dc r st) := by
  obtain ⟨hp, hq, hx, hc, he⟩ := h
  unfold updStationary
  by_cases hin : st.m.inPool r.site = true
  · simp only [hin, if_true]
    have hqf := hx _ hin
    rcases hpt : poolTake r.site st.m.pool with ⟨o, pool'⟩
    cases o with
    | none =>
      have := (poolTake_spec r.site st.m.pool).2 pool' hpt
      rw [hp, hin] at this; simp at this
    | some pl =>
      obtain ⟨hs, _, _, hcnt⟩ := (poolTake_spec r.site st.m.pool).1 pl pool' hpt
      simp only []
      have hp' : ∀ s, cnt pool' s = b2n (setB st.m.inPool r.site false s) := by
        intro s
        have := hcnt s; rw [hp s] at this
        by_cases h : s = r.site
        · subst h; simp [hs, hin] at this ⊢; omega
        · have h' : ¬ pl.site = s := by rw [hs]; exact fun e => h e.symm
          simp [h', setB_other _ _ h] at this ⊢; omega
      split
      · apply flagSite_invA
        · exact hp'
        · exact hq
        · intro s hs'
          by_cases h : s = r.site
          · subst h; simp at hs'
          · simp only [setB_other _ _ h] at hs'; exact hx s hs'
        · exact hc
        · exact he
        · simp [hs]
        · simpa [hs] using hqf
      · refine ⟨?_, hq, hx, hc, he⟩
        intro s
        simp only [cnt_poolInsert, updPlan_site]
        have := hcnt s; rw [hp s] at this
        omega
  · have hin' : st.m.inPool r.site = false := by simpa using hin
    simp only [hin', Bool.false_eq_true, if_false]
    by_cases hiq : st.sh.inQueue r.site = true
    · simp only [hiq, if_true]
      cases hfl : qFindLast r.site st.sh.queue with
      | none =>
        have := qFindLast_none hfl
        rw [hq, hiq] at this; simp at this
      | some pl =>
        obtain ⟨e, _, rfl, hs⟩ := qFindLast_some hfl
        simp only []
        have hq2 : ∀ (c : Nat) s, outstanding (qInsert { cls := c, plan := updPlan p e.plan r.rate dc }
              (qRemove r.site st.sh.queue)) s = b2n (st.sh.inQueue s) := by
          intro c s
          rw [outstanding_qInsert, outstanding_qRemove, updPlan_site, hs]
          by_cases h : s = r.site
          · subst h; simp [hiq]
          · have : ¬ r.site = s := fun e => h e.symm
            simp [h, this, hq s]
        split
        · exact ⟨hp, by intro s; simpa [enqueue] using hq2 _ s, hx, hc, he⟩
        · exact ⟨hp, by intro s; simpa [enqueue] using hq2 _ s, hx, hc, he⟩
    · have hiq' : st.sh.inQueue r.site = false := by simpa using hiq
      simp only [hiq', Bool.false_eq_true, if_false]
      refine ⟨?_, hq, ?_, hc, he⟩
      · intro s
        simp only [cnt_poolInsert, newPlan_site, hp s]
        by_cases h : s = r.site
        · subst h; simp [hin']
        · have : ¬ r.site = s := fun e => h e.symm
          simp [this, setB_other _ _ h]
      · intro s hs'
        by_cases h : s = r.site
        · subst h; exact hiq'
        · simp only [setB_other _ _ h] at hs'; exact hx s hs'

theorem processRec_invA (p : Params) (d dc : Int) (st : St) (r : Rec) (h : InvA st) :
    InvA (processRec p d dc st r) := by
  unfold processRec
  split
  · have h' : InvA { st with m := { st.m with released := st.m.released ++ [r] } } :=
      ⟨h.poolCnt, h.queueCnt, h.excl, h.counters, h.noErr⟩
    split
    · exact updStationary_invA _ _ _ _ _ h'
    · exact updMobile_invA _ _ _ _ _ h'
  · exact h

theorem foldRec_invA (p : Params) (d dc : Int) (rs : List Rec) (st : St) (h : InvA st) :
    InvA (rs.foldl (processRec p d dc) st) := by
  induction rs generalizing st with
  | nil => exact h
  | cons r t ih => exact ih _ (processRec_invA p d dc st r h)

/-- loop invariant of the flagging loop: `cs` are the kept candidates still to be handled -/
structure LoopA (st : St) (cs : List Plan) : Prop where
  poolCnt : ∀ s, cnt st.m.pool s + cnt cs s = b2n (st.m.inPool s)
  queueCnt : ∀ s, outstanding st.sh.queue s = b2n (st.sh.inQueue s)
  excl : ∀ s, st.m.inPool s = true → st.sh.inQueue s = false
  counters : ∀ s, st.sh.flags s = st.sh.done s + st.sh.dropped s + b2n (st.sh.inQueue s)
  noErr : st.sh.err = false

theorem flagOne_loopA (p : Params) (d first : Int) (st : St) (pl : Plan) (cs : List Plan)
    (h : LoopA st (pl :: cs)) : LoopA (flagOne p d first st pl) cs := by
  obtain ⟨hp, hq, hx, hc, he⟩ := h
  have hpl := hp pl.site
  rw [cnt_cons] at hpl
  simp only [if_true] at hpl
  have hin : st.m.inPool pl.site = true := by
    rw [← b2n_eq_one]; have := b2n_le (st.m.inPool pl.site); omega
  rw [hin] at hpl
  simp only [b2n_true] at hpl
  unfold flagOne
  split
  · refine ⟨?_, hq, hx, hc, he⟩
    intro s
    have := hp s
    simp only [cnt_poolInsert]
    rw [cnt_cons] at this
    omega
  · have hqf := hx _ hin
    refine ⟨?_, ?_, ?_, ?_, ?_⟩
    · intro s
      have := hp s
      rw [cnt_cons] at this
      simp only [flagSite]
      by_cases h : s = pl.site
      · subst h; simp; omega
      · have h' : ¬ pl.site = s := fun e => h e.symm
        simp only [h', if_false] at this
        simp only [setB_other _ _ h]; omega
    · intro s
      simp only [flagSite, enqueue, outstanding_qInsert, hq s]
      by_cases hs : s = pl.site
      · subst hs; simp [hqf]
      · have : ¬ pl.site = s := fun h => hs h.symm
        simp [this, setB_other _ _ hs]
    · intro s hs
      simp only [flagSite, enqueue] at hs ⊢
      by_cases h : s = pl.site
      · subst h; simp at hs
      · simp only [setB_other _ _ h] at hs ⊢; exact hx s hs
    · intro s
      simp only [flagSite, enqueue]
      by_cases h : s = pl.site
      · subst h; simp [hc, hqf]
      · simp [setB_other _ _ h, bump_other _ h, hc s]
    · simpa [flagSite, enqueue] using he

theorem foldFlag_loopA (p : Params) (d first : Int) (cs : List Plan) (st : St) (h : LoopA st cs) :
    LoopA (cs.foldl (flagOne p d first) st) [] := by
  induction cs generalizing st with
  | nil => exact h
  | cons pl t ih => exact ih _ (flagOne_loopA p d first st pl t h)

theorem decideNow_invA (p : Params) (d first : Int) (st : St) (h : InvA st) :
    InvA (decideNow p d first st) := by
  obtain ⟨hp, hq, hx, hc, he⟩ := h
  unfold decideNow
  simp only []
  generalize hk : keepCount p st.m.pool.length st.m.count = k
  have hl : LoopA { st with m := { st.m with pool := [], count := 0, firstCand := none, inPool := (st.m.pool.drop k).foldl (fun f pl => setB f pl.site false) st.m.inPool } }
      (st.m.pool.take k) := by
    refine ⟨?_, hq, ?_, hc, he⟩
    · intro s
      simp only [cnt_nil, Nat.zero_add, unflag_spec]
      have h1 := cnt_take_drop st.m.pool k s
      have h2 := hp s
      have h3 := b2n_le (st.m.inPool s)
      by_cases hz : cnt (st.m.pool.drop k) s = 0
      · simp [hz]; omega
      · simp only [hz, if_false, b2n_false]; omega
    · intro s hs
      simp only [unflag_spec] at hs
      by_cases hz : cnt (st.m.pool.drop k) s = 0
      · simp only [hz, if_true] at hs; exact hx s hs
      · simp [hz] at hs
  have := foldFlag_loopA p d first _ _ hl
  exact ⟨by intro s; simpa using this.poolCnt s, this.queueCnt, this.excl, this.counters, this.noErr⟩

theorem updateCandidates_invA (p : Params) (d : Int) (st : St) (h : InvA st) :
    InvA (updateCandidates p d st) := by
  unfold updateCandidates
  split
  · split
    · exact h
    · split
      · exact decideNow_invA _ _ _ _ ⟨h.poolCnt, h.queueCnt, h.excl, h.counters, h.noErr⟩
      · exact ⟨h.poolCnt, h.queueCnt, h.excl, h.counters, h.noErr⟩
  · split
    · exact decideNow_invA _ _ _ _ h
    · exact h

theorem dailyUpdate_invA (p : Params) (d : Int) (st : St) (h : InvA st) :
    InvA (dailyUpdate p d st) := by
  unfold dailyUpdate
  simp only []
  apply updateCandidates_invA
  apply foldRec_invA
  exact ⟨h.poolCnt, h.queueCnt, h.excl, h.counters, h.noErr⟩

/-! #### the follow-up day -/

structure LoopQ (inPool : Nat → Bool) (sh : Shared) (cs : List Plan) : Prop where
  queueCnt : ∀ s, outstanding sh.queue s + cnt cs s = b2n (sh.inQueue s)
  excl : ∀ s, inPool s = true → sh.inQueue s = false
  counters : ∀ s, sh.flags s = sh.done s + sh.dropped s + b2n (sh.inQueue s)
  noErr : sh.err = false

theorem applyOutcome_loopQ (inPool : Nat → Bool) (d : Int) (outs : Nat → Outcome) (sh : Shared)
    (pl : Plan) (cs : List Plan) (h : LoopQ inPool sh (pl :: cs)) :
    LoopQ inPool (applyOutcome d outs sh pl) cs := by
  obtain ⟨hq, hx, hc, he⟩ := h
  have hpl := hq pl.site
  rw [cnt_cons] at hpl
  simp only [if_true] at hpl
  have hin : sh.inQueue pl.site = true := by
    rw [← b2n_eq_one]; have := b2n_le (sh.inQueue pl.site); omega
  rw [hin] at hpl
  simp only [b2n_true] at hpl
  have hq' : ∀ (e : QE), e.plan.site = pl.site →
      ∀ s, outstanding (qInsert e sh.queue) s + cnt cs s = b2n (sh.inQueue s) := by
    intro e hes s
    have := hq s
    rw [cnt_cons] at this
    rw [outstanding_qInsert, hes]
    omega
  unfold applyOutcome
  simp only []
  split
  · refine ⟨?_, ?_, ?_, he⟩
    · intro s
      have := hq s
      rw [cnt_cons] at this
      by_cases h : s = pl.site
      · subst h; simp; omega
      · have h' : ¬ pl.site = s := fun e => h e.symm
        simp only [h', if_false] at this
        simp only [setB_other _ _ h]; omega
    · intro s hs
      by_cases h : s = pl.site
      · subst h; simp
      · simp only [setB_other _ _ h]; exact hx s hs
    · intro s
      by_cases h : s = pl.site
      · subst h; simp [hc, hin]; omega
      · simp [setB_other _ _ h, bump_other _ h, hc s]
  · exact ⟨by intro s; simpa [enqueue] using hq' _ rfl s, hx, hc, he⟩
  · exact ⟨by intro s; simpa [enqueue] using hq' _ rfl s, hx, hc, he⟩

theorem foldOutcome_loopQ (inPool : Nat → Bool) (d : Int) (outs : Nat → Outcome) (cs : List Plan)
    (sh : Shared) (h : LoopQ inPool sh cs) :
    LoopQ inPool (cs.foldl (applyOutcome d outs) sh) [] := by
  induction cs generalizing sh with
  | nil => exact h
  | cons pl t ih => exact ih _ (applyOutcome_loopQ inPool d outs sh pl t h)

theorem planned_eq (cap : Nat) (sh : Shared) (hq : ∀ s, outstanding sh.queue s ≤ 1) :
    planned cap sh = (sh.queue.take cap).map (·.plan) := by
  unfold planned
  apply dedupPlans_of_distinct
  intro s
  have := outstanding_take_drop sh.queue cap s
  have := hq s
  omega

theorem followUpDay_invA (cap : Nat) (d : Int) (outs : Nat → Outcome) (st : St) (h : InvA st) :
    InvA { st with sh := followUpDay cap d outs st.sh } := by
  obtain ⟨hp, hq, hx, hc, he⟩ := h
  have hle : ∀ s, outstanding st.sh.queue s ≤ 1 := by
    intro s; rw [hq s]; exact b2n_le _
  unfold followUpDay
  rw [planned_eq cap st.sh hle]
  have hl : LoopQ st.m.inPool { st.sh with queue := st.sh.queue.drop cap }
      ((st.sh.queue.take cap).map (·.plan)) := by
    refine ⟨?_, hx, hc, he⟩
    intro s
    rw [cnt_map_plan]
    have := outstanding_take_drop st.sh.queue cap s
    simp only
    rw [← hq s]; omega
  have := foldOutcome_loopQ st.m.inPool d outs _ _ hl
  exact ⟨hp, by intro s; simpa using this.queueCnt s, this.excl, this.counters, this.noErr⟩

theorem step1_invA (p : Params) (cap : Nat) (st : St) (op : Op1) (h : InvA st) :
    InvA (step1 p cap st op) := by
  cases op with
  | screen s r d => exact ⟨h.poolCnt, h.queueCnt, h.excl, h.counters, h.noErr⟩
  | update d => exact dailyUpdate_invA p d st h
  | fuDay d outs => exact followUpDay_invA cap d outs st h
  | tag s d => exact ⟨h.poolCnt, h.queueCnt, h.excl, h.counters, h.noErr⟩

theorem foldl_invA (p : Params) (cap : Nat) (ops : List Op1) (st : St) (h : InvA st) :
    InvA (ops.foldl (step1 p cap) st) := by
  induction ops generalizing st with
  | nil => exact h
  | cons op t ih => exact ih _ (step1_invA p cap st op h)

theorem run1_invA (p : Params) (cap : Nat) (ops : List Op1) : InvA (run1 p cap ops) :=
  foldl_invA p cap ops {} invA_init

/-! ### invariant B: the pool is sorted by decreasing rate -/

@[simp] theorem flagSite_pool (cls : Nat) (pl : Plan) (route : Route) (d first : Int) (st : St) :
    (flagSite cls pl route d first st).m.pool = st.m.pool := rfl

theorem updMobile_sorted (p : Params) (d dc : Int) (r : Rec) (st : St) (h : Sorted st.m.pool) :
    Sorted (updMobile p d dc r st).m.pool := by
  unfold updMobile
  split
  · rcases hpt : poolTake r.site st.m.pool with ⟨o, pool'⟩
    cases o with
    | none => exact h
    | some pl =>
      obtain ⟨_, _, hsub, _⟩ := (poolTake_spec r.site st.m.pool).1 pl pool' hpt
      have h' := sorted_sublist hsub h
      simp only []
      split
      · exact h'
      · split
        · exact sorted_poolInsert _ _ h'
        · exact h'
  · split
    · cases qFindLast r.site st.sh.queue with
      | none => exact h
      | some pl =>
        simp only []
        split
        · exact h
        · split <;> exact h
    · split
      · exact h
      · split
        · exact sorted_poolInsert _ _ h
        · split <;> exact h

theorem updStationary_sorted (p : Params) (d dc : Int) (r : Rec) (st : St) (h : Sorted st.m.pool) :
    Sorted (updStationary p d dc r st).m.pool := by
  unfold updStationary
  split
  · rcases hpt : poolTake r.site st.m.pool with ⟨o, pool'⟩
    cases o with
    | none => exact h
    | some pl =>
      obtain ⟨_, _, hsub, _⟩ := (poolTake_spec r.site st.m.pool).1 pl pool' hpt
      have h' := sorted_sublist hsub h
      simp only []
      split
      · exact h'
      · exact sorted_poolInsert _ _ h'
  · split
    · cases qFindLast r.site st.sh.queue with
      | none => exact h
      | some pl =>
        simp only []
        split <;> exact h
    · exact sorted_poolInsert _ _ h

theorem processRec_sorted (p : Params) (d dc : Int) (st : St) (r : Rec) (h : Sorted st.m.pool) :
    Sorted (processRec p d dc st r).m.pool := by
  unfold processRec
  split
  · split
    · exact updStationary_sorted _ _ _ _ _ h
    · exact updMobile_sorted _ _ _ _ _ h
  · exact h

theorem foldRec_sorted (p : Params) (d dc : Int) (rs : List Rec) (st : St) (h : Sorted st.m.pool) :
    Sorted (rs.foldl (processRec p d dc) st).m.pool := by
  induction rs generalizing st with
  | nil => exact h
  | cons r t ih => exact ih _ (processRec_sorted p d dc st r h)

theorem flagOne_sorted (p : Params) (d first : Int) (st : St) (pl : Plan) (h : Sorted st.m.pool) :
    Sorted (flagOne p d first st pl).m.pool := by
  unfold flagOne
  split
  · exact sorted_poolInsert _ _ h
  · exact h

theorem foldFlag_sorted (p : Params) (d first : Int) (cs : List Plan) (st : St) (h : Sorted st.m.pool) :
    Sorted (cs.foldl (flagOne p d first) st).m.pool := by
  induction cs generalizing st with
  | nil => exact h
  | cons pl t ih => exact ih _ (flagOne_sorted p d first st pl h)

theorem decideNow_sorted (p : Params) (d first : Int) (st : St) : Sorted (decideNow p d first st).m.pool := by
  unfold decideNow
  exact foldFlag_sorted _ _ _ _ _ List.Pairwise.nil

theorem updateCandidates_sorted (p : Params) (d : Int) (st : St) (h : Sorted st.m.pool) :
    Sorted (updateCandidates p d st).m.pool := by
  unfold updateCandidates
  split
  · split
    · exact h
    · split
      · exact decideNow_sorted _ _ _ _
      · exact h
  · split
    · exact decideNow_sorted _ _ _ _
    · exact h

theorem dailyUpdate_sorted (p : Params) (d : Int) (st : St) (h : Sorted st.m.pool) :
    Sorted (dailyUpdate p d st).m.pool := by
  unfold dailyUpdate
  exact updateCandidates_sorted _ _ _ (foldRec_sorted _ _ _ _ _ h)

theorem step1_sorted (p : Params) (cap : Nat) (st : St) (op : Op1) (h : Sorted st.m.pool) :
    Sorted (step1 p cap st op).m.pool := by
  cases op with
  | screen s r d => exact h
  | update d => exact dailyUpdate_sorted p d st h
  | fuDay d outs => exact h
  | tag s d => exact h

theorem foldl_sorted (p : Params) (cap : Nat) (ops : List Op1) (st : St) (h : Sorted st.m.pool) :
    Sorted (ops.foldl (step1 p cap) st).m.pool := by
  induction ops generalizing st with
  | nil => exact h
  | cons op t ih => exact ih _ (step1_sorted p cap st op h)

theorem run1_sorted (p : Params) (cap : Nat) (ops : List Op1) : Sorted (run1 p cap ops).m.pool :=
  foldl_sorted p cap ops {} List.Pairwise.nil

/-! ### invariant C: provenance, dates, routing -/

/-- the rate a decision looks at is the redundancy-filtered rate of the detections behind it:
mobile `filt filter rates` (recent / max / average); stationary the rolling means over the small /
large window — except for a planner that has seen one detection only, which starts at 0 -/
def RateOK (p : Params) (rate rateLong : Rat) (rates : List Rat) : Prop :=
  if p.stationary then
    (rates.length = 1 ∧ rate = 0 ∧ rateLong = 0) ∨
    (2 ≤ rates.length ∧ rate = meanLast p.sw rates ∧ rateLong = meanLast p.lw rates)
  else rate = filt p.filter rates

/-- a plan stems from released records of its site, the newest not before the reporting delay, and
its rate is the redundancy-filtered rate of those records -/
def PlanOK (p : Params) (rel : List Rec) (today : Int) (pl : Plan) : Prop :=
  pl.rates ≠ [] ∧ (∀ r ∈ pl.rates, ∃ rc ∈ rel, rc.site = pl.site ∧ rc.rate = r) ∧
  pl.latest + p.rd ≤ today ∧ RateOK p pl.rate pl.rateLong pl.rates ∧ (pl.sw = p.sw ∧ pl.lw = p.lw)

theorem filt_singleton (f : Filter) (x : Rat) : filt f [x] = x := by
  cases f
  · simp [filt]
  · simp [filt, maxR]
  · simp [filt, sumR]; grind

/-- the routing condition behind a flag event -/
def RouteOK (p : Params) (f : FlagEv) : Prop :=
  match f.route with
  | .instant => (∃ t, p.inst = some t ∧ t ≤ f.rate) ∧ f.day = f.recDate + p.rd ∧ f.first = f.day ∧
      f.tagAtFlag ≤ f.recDate
  | .pool => f.first + p.delay ≤ f.day ∧
      (if p.stationary then (p.sthr ≤ f.rate ∨ (p.lthr ≠ 0 ∧ f.rateLong ≠ 0 ∧ p.lthr ≤ f.rateLong))
       else p.thr ≤ f.rate)

def GoodFlag (p : Params) (rel : List Rec) (today : Int) (f : FlagEv) : Prop :=
  f.recDate + p.rd ≤ f.day ∧ f.day ≤ today ∧ f.rates ≠ [] ∧
  (∀ r ∈ f.rates, ∃ rc ∈ rel, rc.site = f.site ∧ rc.rate = r ∧ rc.date + p.rd ≤ f.day) ∧
  RouteOK p f ∧ RateOK p f.rate f.rateLong f.rates

/-- `S` guards the clause about the shared queue: `True` for a single screening method; with several
methods on one follow-up method (`S = False`) the queue also holds plans of the other methods -/
structure InvC (S : Prop) (p : Params) (st : St) : Prop where
  poolOK : ∀ pl ∈ st.m.pool, PlanOK p st.m.released st.m.today pl
  queueOK : S → ∀ e ∈ st.sh.queue, PlanOK p st.m.released st.m.today e.plan
  poolThr : p.stationary = false → ∀ pl ∈ st.m.pool, p.thr ≤ pl.rate
  evsOK : ∀ f ∈ st.m.evs, GoodFlag p st.m.released st.m.today f
  relOK : ∀ rc ∈ st.m.released, rc.date + p.rd ≤ st.m.today
  firstOK : ∀ fc, st.m.firstCand = some fc → fc ≤ st.m.today

theorem invC_init (S : Prop) (p : Params) : InvC S p {} := by
  constructor <;> simp

theorem planOK_mono {p : Params} {rel rel' : List Rec} {t t' : Int} {pl : Plan}
    (h : PlanOK p rel t pl) (hr : ∀ x ∈ rel, x ∈ rel') (ht : t ≤ t') : PlanOK p rel' t' pl := by
  obtain ⟨a, b, c, e⟩ := h
  refine ⟨a, ?_, by omega, e⟩
  intro r hr'
  obtain ⟨rc, h1, h2⟩ := b r hr'
  exact ⟨rc, hr rc h1, h2⟩

theorem goodFlag_mono {p : Params} {rel rel' : List Rec} {t t' : Int} {f : FlagEv}
    (h : GoodFlag p rel t f) (hr : ∀ x ∈ rel, x ∈ rel') (ht : t ≤ t') : GoodFlag p rel' t' f := by
  obtain ⟨a, b, c, d, e⟩ := h
  refine ⟨a, by omega, c, ?_, e⟩
  intro r hr'
  obtain ⟨rc, h1, h2⟩ := d r hr'
  exact ⟨rc, hr rc h1, h2⟩

theorem planOK_upd {p : Params} {rel : List Rec} {today dc : Int} {pl : Plan} {r : Rec}
    (h : PlanOK p rel today pl) (hr : r ∈ rel) (hs : pl.site = r.site) (hd : dc + p.rd ≤ today) :
    PlanOK p rel today (updPlan p pl r.rate dc) := by
  obtain ⟨a, b, c, e, w⟩ := h
  have hlen : 1 ≤ pl.rates.length := by
    cases hl : pl.rates with
    | nil => exact absurd hl a
    | cons x t => simp
  unfold updPlan PlanOK
  split
  · rename_i hst
    refine ⟨by simp, ?_, hd, ?_, w⟩
    · intro x hx
      simp only [List.mem_append, List.mem_singleton] at hx
      rcases hx with hx | rfl
      · exact b x hx
      · exact ⟨r, hr, hs.symm, rfl⟩
    · unfold RateOK
      simp only [hst, if_true, List.length_append, List.length_cons, List.length_nil]
      right
      exact ⟨by omega, by rw [w.1], by rw [w.2]⟩
  · rename_i hst
    refine ⟨by simp, ?_, hd, ?_, w⟩
    · intro x hx
      simp only [List.mem_append, List.mem_singleton] at hx
      rcases hx with hx | rfl
      · exact b x hx
      · exact ⟨r, hr, hs.symm, rfl⟩
    · unfold RateOK
      simp [hst]

theorem planOK_new {p : Params} {rel : List Rec} {today dc : Int} {r : Rec}
    (hr : r ∈ rel) (hd : dc + p.rd ≤ today) : PlanOK p rel today (newPlan p r dc) := by
  refine ⟨by simp [newPlan], ?_, hd, ?_, ⟨rfl, rfl⟩⟩
  · intro x hx
    simp only [newPlan, List.mem_singleton] at hx
    subst hx
    exact ⟨r, hr, rfl, rfl⟩
  · unfold RateOK newPlan
    cases hst : p.stationary
    · simp [filt_singleton]
    · simp

theorem goodFlag_instant {p : Params} {rel : List Rec} {d dc tag : Int} {pl : Plan}
    (h : PlanOK p rel d pl) (hrel : ∀ rc ∈ rel, rc.date + p.rd ≤ d) (hi : geInst p pl.rate = true)
    (hl : pl.latest = dc) (hd : dc + p.rd = d) (ht : tag ≤ dc) :
    GoodFlag p rel d (mkEv pl .instant d d tag) := by
  obtain ⟨a, b, c, e, _⟩ := h
  refine ⟨by simp [mkEv]; omega, by simp [mkEv], by simpa [mkEv] using a, ?_, ?_, by simpa [mkEv] using e⟩
  · intro r hr
    obtain ⟨rc, h1, h2, h3⟩ := b r (by simpa [mkEv] using hr)
    exact ⟨rc, h1, by simpa [mkEv] using h2, h3, by simpa [mkEv] using hrel rc h1⟩
  · unfold RouteOK
    simp only [mkEv]
    refine ⟨?_, by omega, trivial, by omega⟩
    unfold geInst at hi
    cases hinst : p.inst with
    | none => simp [hinst] at hi
    | some t => exact ⟨t, rfl, by simpa [hinst] using hi⟩

/-- hypotheses under which one released record is processed on day `d` -/
structure RelCtx (p : Params) (d dc : Int) (r : Rec) (st : St) : Prop where
  mem : r ∈ st.m.released
  today : st.m.today = d
  hdc : dc + p.rd = d
  fresh : st.sh.latestTag r.site ≤ dc

theorem flagSite_invC_instant {S : Prop} (p : Params) (d dc : Int) (st : St) (pl : Plan)
    (hpool : ∀ x ∈ st.m.pool, PlanOK p st.m.released st.m.today x)
    (hqueue : S → ∀ e ∈ st.sh.queue, PlanOK p st.m.released st.m.today e.plan)
    (hthr : p.stationary = false → ∀ x ∈ st.m.pool, p.thr ≤ x.rate)
    (hevs : ∀ f ∈ st.m.evs, GoodFlag p st.m.released st.m.today f)
    (hrel : ∀ rc ∈ st.m.released, rc.date + p.rd ≤ st.m.today)
    (hfirst : ∀ fc, st.m.firstCand = some fc → fc ≤ st.m.today)
    (hpl : PlanOK p st.m.released st.m.today pl) (htoday : st.m.today = d)
    (hi : geInst p pl.rate = true) (hl : pl.latest = dc) (hd : dc + p.rd = d)
    (ht : st.sh.latestTag pl.site ≤ dc) :
    InvC S p (flagSite 2 pl .instant d d st) := by
  refine ⟨hpool, ?_, hthr, ?_, hrel, hfirst⟩
  · intro hS e he
    simp only [flagSite, enqueue, mem_qInsert] at he
    rcases he with rfl | he
    · exact hpl
    · exact hqueue hS e he
  · intro f hf
    simp only [flagSite, List.mem_append, List.mem_singleton] at hf
    rcases hf with hf | rfl
    · exact hevs f hf
    · simp only [flagSite]
      rw [htoday] at hpl hrel ⊢
      exact goodFlag_instant hpl hrel hi hl hd ht

theorem updMobile_invC {S : Prop} (p : Params) (d dc : Int) (r : Rec) (st : St) (h : InvC S p st)
    (c : RelCtx p d dc r st) (hmob : p.stationary = false) : InvC S p (updMobile p d dc r st) := by
  obtain ⟨hpool, hqueue, hthr, hevs, hrel, hfirst⟩ := h
  obtain ⟨hmem, htoday, hdc, hfresh⟩ := c
  have hdle : dc + p.rd ≤ st.m.today := by omega
  unfold updMobile
  split
  · rcases hpt : poolTake r.site st.m.pool with ⟨o, pool'⟩
    cases o with
    | none => exact ⟨hpool, hqueue, hthr, hevs, hrel, hfirst⟩
    | some pl =>
      obtain ⟨hs, hplmem, hsub, _⟩ := (poolTake_spec r.site st.m.pool).1 pl pool' hpt
      have hpool' : ∀ x ∈ pool', PlanOK p st.m.released st.m.today x :=
        fun x hx => hpool x (hsub.subset hx)
      have hthr' : p.stationary = false → ∀ x ∈ pool', p.thr ≤ x.rate :=
        fun hst x hx => hthr hst x (hsub.subset hx)
      have hpl' := planOK_upd (hpool pl hplmem) hmem hs hdle
      simp only []
      split
      · rename_i hi
        refine flagSite_invC_instant p d dc _ _ ?_ ?_ ?_ ?_ ?_ ?_ ?_ ?_ ?_ ?_ ?_ ?_
        · exact hpool'
        · exact hqueue
        · exact hthr'
        · exact hevs
        · exact hrel
        · exact hfirst
        · exact hpl'
        · exact htoday
        · exact hi
        · unfold updPlan; split <;> rfl
        · exact hdc
        · simpa [hs] using hfresh
      · split
        · rename_i hge
          refine ⟨?_, hqueue, ?_, hevs, hrel, hfirst⟩
          · intro x hx
            rcases (mem_poolInsert _ _ _).mp hx with rfl | hx
            · exact hpl'
            · exact hpool' x hx
          · intro hst x hx
            rcases (mem_poolInsert _ _ _).mp hx with rfl | hx
            · exact hge
            · exact hthr' hst x hx
        · exact ⟨hpool', hqueue, hthr', hevs, hrel, hfirst⟩
  · split
    · cases hfl : qFindLast r.site st.sh.queue with
      | none => exact ⟨hpool, hqueue, hthr, hevs, hrel, hfirst⟩
      | some pl =>
        obtain ⟨e, hemem, rfl, hs⟩ := qFindLast_some hfl
        have hq' : ∀ (cl : Nat), S → ∀ x ∈ qInsert { cls := cl, plan := updPlan p e.plan r.rate dc }
            (qRemove r.site st.sh.queue), PlanOK p st.m.released st.m.today x.plan := by
          intro cl hS x hx
          rcases (mem_qInsert _ _ _).mp hx with rfl | hx
          · exact planOK_upd (hqueue hS e hemem) hmem hs hdle
          · exact hqueue hS x (mem_qRemove hx).1
        simp only []
        split
        · exact ⟨hpool, by simpa [enqueue] using hq' _, hthr, hevs, hrel, hfirst⟩
        · split
          · exact ⟨hpool, by simpa [enqueue] using hq' _, hthr, hevs, hrel, hfirst⟩
          · refine ⟨hpool, ?_, hthr, hevs, hrel, hfirst⟩
            intro hS x hx
            exact hqueue hS x (mem_qRemove hx).1
    · split
      · rename_i hi
        refine flagSite_invC_instant p d dc _ _ hpool hqueue hthr hevs hrel hfirst
          (planOK_new hmem hdle) htoday ?_ rfl hdc (by simpa using hfresh)
        simpa [newPlan, hmob] using hi
      · split
        · rename_i hge
          refine ⟨?_, hqueue, ?_, hevs, hrel, hfirst⟩
          · intro x hx
            rcases (mem_poolInsert _ _ _).mp hx with rfl | hx
            · exact planOK_new hmem hdle
            · exact hpool x hx
          · intro hst x hx
            rcases (mem_poolInsert _ _ _).mp hx with rfl | hx
            · simpa [newPlan, hst] using hge.2
            · exact hthr hst x hx
        · split
          · exact ⟨hpool, hqueue, hthr, hevs, hrel, hfirst⟩
          · exact ⟨hpool, hqueue, hthr, hevs, hrel, hfirst⟩

theorem updStationary_invC {S : Prop} (p : Params) (d dc : Int) (r : Rec) (st : St) (h : InvC S p st)
    (c : RelCtx p d dc r st) (hstat : p.stationary = true) : InvC S p (updStationary p d dc r st) := by
  obtain ⟨hpool, hqueue, _, hevs, hrel, hfirst⟩ := h
  obtain ⟨hmem, htoday, hdc, hfresh⟩ := c
  have hdle : dc + p.rd ≤ st.m.today := by omega
  have hv : ∀ (l : List Plan), p.stationary = false → ∀ x ∈ l, p.thr ≤ x.rate := by
    intro l hst; simp [hstat] at hst
  unfold updStationary
  split
  · rcases hpt : poolTake r.site st.m.pool with ⟨o, pool'⟩
    cases o with
    | none => exact ⟨hpool, hqueue, hv _, hevs, hrel, hfirst⟩
    | some pl =>
      obtain ⟨hs, hplmem, hsub, _⟩ := (poolTake_spec r.site st.m.pool).1 pl pool' hpt
      have hpool' : ∀ x ∈ pool', PlanOK p st.m.released st.m.today x :=
        fun x hx => hpool x (hsub.subset hx)
      have hpl' := planOK_upd (hpool pl hplmem) hmem hs hdle
      simp only []
      split
      · rename_i hi
        refine flagSite_invC_instant p d dc _ _ ?_ ?_ ?_ ?_ ?_ ?_ ?_ ?_ ?_ ?_ ?_ ?_
        · exact hpool'
        · exact hqueue
        · exact hv _
        · exact hevs
        · exact hrel
        · exact hfirst
        · exact hpl'
        · exact htoday
        · exact hi
        · unfold updPlan; split <;> rfl
        · exact hdc
        · simpa [hs] using hfresh
      · refine ⟨?_, hqueue, hv _, hevs, hrel, hfirst⟩
        intro x hx
        rcases (mem_poolInsert _ _ _).mp hx with rfl | hx
        · exact hpl'
        · exact hpool' x hx
  · split
    · cases hfl : qFindLast r.site st.sh.queue with
      | none => exact ⟨hpool, hqueue, hv _, hevs, hrel, hfirst⟩
      | some pl =>
        obtain ⟨e, hemem, rfl, hs⟩ := qFindLast_some hfl
        have hq' : ∀ (cl : Nat), S → ∀ x ∈ qInsert { cls := cl, plan := updPlan p e.plan r.rate dc }
            (qRemove r.site st.sh.queue), PlanOK p st.m.released st.m.today x.plan := by
          intro cl hS x hx
          rcases (mem_qInsert _ _ _).mp hx with rfl | hx
          · exact planOK_upd (hqueue hS e hemem) hmem hs hdle
          · exact hqueue hS x (mem_qRemove hx).1
        simp only []
        split
        · exact ⟨hpool, by simpa [enqueue] using hq' _, hv _, hevs, hrel, hfirst⟩
        · exact ⟨hpool, by simpa [enqueue] using hq' _, hv _, hevs, hrel, hfirst⟩
    · refine ⟨?_, hqueue, hv _, hevs, hrel, hfirst⟩
      intro x hx
      rcases (mem_poolInsert _ _ _).mp hx with rfl | hx
      · exact planOK_new hmem hdle
      · exact hpool x hx

@[simp] theorem updMobile_today (p : Params) (d dc : Int) (r : Rec) (st : St) :
    (updMobile p d dc r st).m.today = st.m.today := by
  unfold updMobile
  repeat' (first | split | simp only [])
  all_goals rfl

@[simp] theorem updStationary_today (p : Params) (d dc : Int) (r : Rec) (st : St) :
    (updStationary p d dc r st).m.today = st.m.today := by
  unfold updStationary
  repeat' (first | split | simp only [])
  all_goals rfl

@[simp] theorem processRec_today (p : Params) (d dc : Int) (st : St) (r : Rec) :
    (processRec p d dc st r).m.today = st.m.today := by
  unfold processRec
  split
  · split <;> simp
  · rfl

theorem processRec_invC {S : Prop} (p : Params) (d dc : Int) (st : St) (r : Rec) (h : InvC S p st)
    (htoday : st.m.today = d) (hdc : dc + p.rd = d) (hr : r.date = dc) :
    InvC S p (processRec p d dc st r) := by
  unfold processRec
  split
  · rename_i hfresh
    have hsub : ∀ x ∈ st.m.released, x ∈ st.m.released ++ [r] := fun x hx => List.mem_append_left _ hx
    have h' : InvC S p { st with m := { st.m with released := st.m.released ++ [r] } } := by
      refine ⟨?_, ?_, h.poolThr, ?_, ?_, h.firstOK⟩
      · intro pl hpl; exact planOK_mono (h.poolOK pl hpl) hsub (Int.le_refl _)
      · intro hS e he; exact planOK_mono (h.queueOK hS e he) hsub (Int.le_refl _)
      · intro f hf; exact goodFlag_mono (h.evsOK f hf) hsub (Int.le_refl _)
      · intro rc hrc
        simp only [List.mem_append, List.mem_singleton] at hrc
        rcases hrc with hrc | rfl
        · exact h.relOK rc hrc
        · simp only; omega
    have c : RelCtx p d dc r { st with m := { st.m with released := st.m.released ++ [r] } } :=
      ⟨by simp, htoday, hdc, hfresh⟩
    split
    · rename_i hs; exact updStationary_invC _ _ _ _ _ h' c hs
    · rename_i hs; exact updMobile_invC _ _ _ _ _ h' c (by simpa using hs)
  · exact h

theorem foldRec_invC {S : Prop} (p : Params) (d dc : Int) (rs : List Rec) (st : St) (h : InvC S p st)
    (htoday : st.m.today = d) (hdc : dc + p.rd = d) (hr : ∀ r ∈ rs, r.date = dc) :
    InvC S p (rs.foldl (processRec p d dc) st) ∧ (rs.foldl (processRec p d dc) st).m.today = d := by
  induction rs generalizing st with
  | nil => exact ⟨h, htoday⟩
  | cons r t ih =>
    exact ih _ (processRec_invC p d dc st r h htoday hdc (hr r (by simp))) (by simpa using htoday)
      (fun x hx => hr x (by simp [hx]))

/-- loop invariant of the flagging loop for invariant C -/
structure LoopC (S : Prop) (p : Params) (d first : Int) (st : St) (cs : List Plan) : Prop where
  inv : InvC S p st
  today : st.m.today = d
  csOK : ∀ pl ∈ cs, PlanOK p st.m.released st.m.today pl
  csThr : p.stationary = false → ∀ pl ∈ cs, p.thr ≤ pl.rate
  due : first + p.delay ≤ d

theorem flagOne_loopC {S : Prop} (p : Params) (d first : Int) (st : St) (pl : Plan) (cs : List Plan)
    (h : LoopC S p d first st (pl :: cs)) : LoopC S p d first (flagOne p d first st pl) cs := by
  obtain ⟨⟨hpool, hqueue, hthr, hevs, hrel, hfirst⟩, htoday, hcs, hcthr, hdue⟩ := h
  have hpl := hcs pl (by simp)
  unfold flagOne
  split
  · rename_i hc
    refine ⟨⟨?_, hqueue, ?_, hevs, hrel, hfirst⟩, htoday, fun x hx => hcs x (by simp [hx]),
      fun hs x hx => hcthr hs x (by simp [hx]), hdue⟩
    · intro x hx
      rcases (mem_poolInsert _ _ _).mp hx with rfl | hx
      · exact hpl
      · exact hpool x hx
    · intro hs; simp [hs] at hc
  · rename_i hc
    refine ⟨⟨hpool, ?_, hthr, ?_, hrel, hfirst⟩, htoday, fun x hx => hcs x (by simp [hx]),
      fun hs x hx => hcthr hs x (by simp [hx]), hdue⟩
    · intro hS e he
      simp only [flagSite, enqueue, mem_qInsert] at he
      rcases he with rfl | he
      · exact hpl
      · exact hqueue hS e he
    · intro f hf
      simp only [flagSite, List.mem_append, List.mem_singleton] at hf
      rcases hf with hf | rfl
      · exact hevs f hf
      · obtain ⟨a, b, c, e, _⟩ := hpl
        simp only [flagSite]
        refine ⟨by simp only [mkEv]; omega, by simp only [mkEv]; omega, by simpa [mkEv] using a, ?_, ?_,
          by simpa [mkEv] using e⟩
        · intro r hr
          obtain ⟨rc, h1, h2, h3⟩ := b r (by simpa [mkEv] using hr)
          refine ⟨rc, h1, by simpa [mkEv] using h2, h3, ?_⟩
          have := hrel rc h1
          simp only [mkEv]; omega
        · unfold RouteOK
          simp only [mkEv]
          refine ⟨hdue, ?_⟩
          cases hst : p.stationary with
          | false => simpa using hcthr hst pl (by simp)
          | true =>
            simp only [if_true]
            by_cases h1 : p.sthr ≤ pl.rate
            · exact Or.inl h1
            · right
              have h2 : followLong p pl = true := by
                by_cases h2 : followLong p pl = true
                · exact h2
                · exfalso; apply hc; exact ⟨hst, by simp [followShort, h1], h2⟩
              simp [followLong] at h2
              exact ⟨h2.1.1, h2.1.2, h2.2⟩

theorem foldFlag_loopC {S : Prop} (p : Params) (d first : Int) (cs : List Plan) (st : St)
    (h : LoopC S p d first st cs) : LoopC S p d first (cs.foldl (flagOne p d first) st) [] := by
  induction cs generalizing st with
  | nil => exact h
  | cons pl t ih => exact ih _ (flagOne_loopC p d first st pl t h)

theorem decideNow_invC {S : Prop} (p : Params) (d first : Int) (st : St) (h : InvC S p st)
    (htoday : st.m.today = d) (hdue : first + p.delay ≤ d) : InvC S p (decideNow p d first st) := by
  unfold decideNow
  simp only []
  apply (foldFlag_loopC p d first _ _ _).inv
  refine ⟨⟨by intro pl hpl; simp at hpl, h.queueOK, by intro _ pl hpl; simp at hpl, h.evsOK, h.relOK,
    by intro fc hfc; simp at hfc⟩, htoday, ?_, ?_, hdue⟩
  · intro pl hpl; exact h.poolOK pl (List.mem_of_mem_take hpl)
  · intro hs pl hpl; exact h.poolThr hs pl (List.mem_of_mem_take hpl)

theorem updateCandidates_invC {S : Prop} (p : Params) (d : Int) (st : St) (h : InvC S p st)
    (htoday : st.m.today = d) : InvC S p (updateCandidates p d st) := by
  unfold updateCandidates
  split
  · split
    · exact h
    · split
      · rename_i hd
        exact decideNow_invC p d d st h htoday (by omega)
      · exact ⟨h.poolOK, h.queueOK, h.poolThr, h.evsOK, h.relOK, by
          intro fc hfc; have hfc' : some d = some fc := hfc; cases hfc'; exact Int.le_of_eq htoday.symm⟩
  · split
    · rename_i fc _ hd
      exact decideNow_invC p d fc st h htoday (by omega)
    · exact h

theorem dailyUpdate_invC {S : Prop} (p : Params) (d : Int) (st : St) (h : InvC S p st) (hd : st.m.today ≤ d) :
    InvC S p (dailyUpdate p d st) := by
  unfold dailyUpdate
  simp only []
  have hsub : ∀ x ∈ st.m.released, x ∈ st.m.released := fun x hx => hx
  have h0 : InvC S p { st with m := { st.m with records := st.m.records.filter (fun r => r.date ≠ d - p.rd), today := d, nflags := 0 } } := by
    refine ⟨?_, ?_, h.poolThr, ?_, ?_, ?_⟩
    · intro pl hpl; exact planOK_mono (h.poolOK pl hpl) hsub hd
    · intro hS e he; exact planOK_mono (h.queueOK hS e he) hsub hd
    · intro f hf; exact goodFlag_mono (h.evsOK f hf) hsub hd
    · intro rc hrc; have := h.relOK rc hrc; simp only; omega
    · intro fc hfc; have := h.firstOK fc hfc; simp only; omega
  have := foldRec_invC p d (d - p.rd) (st.m.records.filter (fun r => r.date = d - p.rd)) _ h0 rfl
    (by omega) (by intro r hr; simpa using (List.mem_filter.mp hr).2)
  exact updateCandidates_invC p d _ this.1 this.2

theorem applyOutcome_queueOK (p : Params) (rel : List Rec) (today d : Int) (outs : Nat → Outcome)
    (sh : Shared) (pl : Plan) (hq : ∀ e ∈ sh.queue, PlanOK p rel today e.plan)
    (hpl : PlanOK p rel today pl) :
    ∀ e ∈ (applyOutcome d outs sh pl).queue, PlanOK p rel today e.plan := by
  unfold applyOutcome
  simp only []
  split
  · exact hq
  · intro e he
    simp only [enqueue, mem_qInsert] at he
    rcases he with rfl | he
    · exact hpl
    · exact hq e he
  · intro e he
    simp only [enqueue, mem_qInsert] at he
    rcases he with rfl | he
    · exact hpl
    · exact hq e he

theorem foldOutcome_queueOK (p : Params) (rel : List Rec) (today d : Int) (outs : Nat → Outcome)
    (cs : List Plan) (sh : Shared) (hq : ∀ e ∈ sh.queue, PlanOK p rel today e.plan)
    (hcs : ∀ pl ∈ cs, PlanOK p rel today pl) :
    ∀ e ∈ (cs.foldl (applyOutcome d outs) sh).queue, PlanOK p rel today e.plan := by
  induction cs generalizing sh with
  | nil => exact hq
  | cons pl t ih =>
    exact ih _ (applyOutcome_queueOK p rel today d outs sh pl hq (hcs pl (by simp)))
      (fun x hx => hcs x (by simp [hx]))

theorem mem_dedup_fold (l : List QE) (acc : List Plan) (P : Plan → Prop)
    (hacc : ∀ x ∈ acc, P x) (hl : ∀ e ∈ l, P e.plan) :
    ∀ x ∈ l.foldl (fun acc e =>
      if acc.any (fun a => a.site = e.plan.site) then
        acc.map (fun a => if a.site = e.plan.site then e.plan else a)
      else acc ++ [e.plan]) acc, P x := by
  induction l generalizing acc with
  | nil => exact hacc
  | cons e t ih =>
    simp only [List.foldl_cons]
    apply ih
    · split
      · intro x hx
        rw [List.mem_map] at hx
        obtain ⟨a, ha, rfl⟩ := hx
        split
        · exact hl e (by simp)
        · exact hacc a ha
      · intro x hx
        simp only [List.mem_append, List.mem_singleton] at hx
        rcases hx with hx | rfl
        · exact hacc x hx
        · exact hl e (by simp)
    · intro x hx; exact hl x (by simp [hx])

theorem followUpDay_invC {S : Prop} (p : Params) (cap : Nat) (d : Int) (outs : Nat → Outcome) (st : St)
    (h : InvC S p st) : InvC S p { st with sh := followUpDay cap d outs st.sh } := by
  refine ⟨h.poolOK, ?_, h.poolThr, h.evsOK, h.relOK, h.firstOK⟩
  intro hS
  unfold followUpDay
  apply foldOutcome_queueOK
  · intro e he; exact h.queueOK hS e (List.mem_of_mem_drop he)
  · unfold planned dedupPlans
    apply mem_dedup_fold
    · simp
    · intro e he; exact h.queueOK hS e (List.mem_of_mem_take he)

/-- the day of an operation is not before the screening method's last update -/
def opDated (st : St) : Op1 → Prop
  | .update d => st.m.today ≤ d
  | .fuDay d _ => st.m.today ≤ d
  | _ => True

/-- update days and follow-up days never go backwards (executable form) -/
def wellDated (p : Params) (cap : Nat) : St → List Op1 → Bool
  | _, [] => true
  | st, op :: t =>
    (match op with
     | .update d => decide (st.m.today ≤ d)
     | .fuDay d _ => decide (st.m.today ≤ d)
     | _ => true) && wellDated p cap (step1 p cap st op) t

def WellDated (p : Params) (cap : Nat) (st : St) (ops : List Op1) : Prop := wellDated p cap st ops = true

instance (p : Params) (cap : Nat) (st : St) (ops : List Op1) : Decidable (WellDated p cap st ops) := by
  unfold WellDated; infer_instance

theorem wellDated_cons {p : Params} {cap : Nat} {st : St} {op : Op1} {t : List Op1}
    (h : WellDated p cap st (op :: t)) :
    opDated st op ∧ WellDated p cap (step1 p cap st op) t := by
  unfold WellDated wellDated at h
  rw [Bool.and_eq_true] at h
  refine ⟨?_, h.2⟩
  have h1 := h.1
  cases op <;> simp_all [opDated]

theorem step1_invC {S : Prop} (p : Params) (cap : Nat) (st : St) (op : Op1) (h : InvC S p st)
    (hw : opDated st op) : InvC S p (step1 p cap st op) := by
  cases op with
  | screen s r d => exact ⟨h.poolOK, h.queueOK, h.poolThr, h.evsOK, h.relOK, h.firstOK⟩
  | update d => exact dailyUpdate_invC p d st h hw
  | fuDay d outs => exact followUpDay_invC p cap d outs st h
  | tag s d => exact ⟨h.poolOK, h.queueOK, h.poolThr, h.evsOK, h.relOK, h.firstOK⟩

theorem foldl_invC {S : Prop} (p : Params) (cap : Nat) (ops : List Op1) (st : St) (h : InvC S p st)
    (hw : WellDated p cap st ops) : InvC S p (ops.foldl (step1 p cap) st) := by
  induction ops generalizing st with
  | nil => exact h
  | cons op t ih => exact ih _ (step1_invC p cap st op h (wellDated_cons hw).1) (wellDated_cons hw).2

theorem run1_invC {S : Prop} (p : Params) (cap : Nat) (ops : List Op1) (hw : WellDated p cap {} ops) :
    InvC S p (run1 p cap ops) :=
  foldl_invC p cap ops {} (invC_init S p) hw

/-! ### invariant D: the flag counter counts the flag events; visits are not before the reporting delay -/

def evCount (l : List FlagEv) (s : Nat) : Nat := l.countP (fun f => f.site = s)

structure InvD (p : Params) (st : St) : Prop where
  flagsEq : ∀ s, st.sh.flags s = evCount st.m.evs s
  visitsOK : ∀ v ∈ st.sh.visits, v.recDate + p.rd ≤ v.day

theorem flagSite_flagsEq (cls : Nat) (pl : Plan) (route : Route) (d first : Int) (st : St)
    (h : ∀ s, st.sh.flags s = evCount st.m.evs s) :
    ∀ s, (flagSite cls pl route d first st).sh.flags s = evCount (flagSite cls pl route d first st).m.evs s := by
  intro s
  simp only [flagSite, enqueue, evCount, List.countP_append, List.countP_cons, List.countP_nil, mkEv]
  by_cases hs : s = pl.site
  · subst hs; simp [h, evCount]
  · have : ¬ pl.site = s := fun e => hs e.symm
    simp [bump_other _ hs, this, h s, evCount]

theorem updMobile_invD (p : Params) (d dc : Int) (r : Rec) (st : St)
    (h : ∀ s, st.sh.flags s = evCount st.m.evs s) :
    (∀ s, (updMobile p d dc r st).sh.flags s = evCount (updMobile p d dc r st).m.evs s) ∧
    (updMobile p d dc r st).sh.visits = st.sh.visits := by
  unfold updMobile
  repeat' (first | split | simp only [])
  all_goals first
    | exact ⟨h, rfl⟩
    | exact ⟨h, trivial⟩
    | exact ⟨flagSite_flagsEq _ _ _ _ _ _ h, rfl⟩
    | exact ⟨flagSite_flagsEq _ _ _ _ _ _ h, trivial⟩

theorem updStationary_invD (p : Params) (d dc : Int) (r : Rec) (st : St)
    (h : ∀ s, st.sh.flags s = evCount st.m.evs s) :
    (∀ s, (updStationary p d dc r st).sh.flags s = evCount (updStationary p d dc r st).m.evs s) ∧
    (updStationary p d dc r st).sh.visits = st.sh.visits := by
  unfold updStationary
  repeat' (first | split | simp only [])
  all_goals first
    | exact ⟨h, rfl⟩
    | exact ⟨h, trivial⟩
    | exact ⟨flagSite_flagsEq _ _ _ _ _ _ h, rfl⟩
    | exact ⟨flagSite_flagsEq _ _ _ _ _ _ h, trivial⟩

theorem processRec_invD (p : Params) (d dc : Int) (st : St) (r : Rec)
    (h : ∀ s, st.sh.flags s = evCount st.m.evs s) :
    (∀ s, (processRec p d dc st r).sh.flags s = evCount (processRec p d dc st r).m.evs s) ∧
    (processRec p d dc st r).sh.visits = st.sh.visits := by
  unfold processRec
  split
  · split
    · exact updStationary_invD p d dc r _ h
    · exact updMobile_invD p d dc r _ h
  · exact ⟨h, rfl⟩

theorem foldRec_invD (p : Params) (d dc : Int) (rs : List Rec) (st : St)
    (h : ∀ s, st.sh.flags s = evCount st.m.evs s) :
    (∀ s, (rs.foldl (processRec p d dc) st).sh.flags s = evCount (rs.foldl (processRec p d dc) st).m.evs s) ∧
    (rs.foldl (processRec p d dc) st).sh.visits = st.sh.visits := by
  induction rs generalizing st with
  | nil => exact ⟨h, rfl⟩
  | cons r t ih =>
    have h1 := processRec_invD p d dc st r h
    have h2 := ih _ h1.1
    exact ⟨h2.1, h2.2.trans h1.2⟩

theorem flagOne_invD (p : Params) (d first : Int) (st : St) (pl : Plan)
    (h : ∀ s, st.sh.flags s = evCount st.m.evs s) :
    (∀ s, (flagOne p d first st pl).sh.flags s = evCount (flagOne p d first st pl).m.evs s) ∧
    (flagOne p d first st pl).sh.visits = st.sh.visits := by
  unfold flagOne
  split
  · exact ⟨h, rfl⟩
  · exact ⟨flagSite_flagsEq _ _ _ _ _ _ h, rfl⟩

theorem foldFlag_invD (p : Params) (d first : Int) (cs : List Plan) (st : St)
    (h : ∀ s, st.sh.flags s = evCount st.m.evs s) :
    (∀ s, (cs.foldl (flagOne p d first) st).sh.flags s = evCount (cs.foldl (flagOne p d first) st).m.evs s) ∧
    (cs.foldl (flagOne p d first) st).sh.visits = st.sh.visits := by
  induction cs generalizing st with
  | nil => exact ⟨h, rfl⟩
  | cons pl t ih =>
    have h1 := flagOne_invD p d first st pl h
    have h2 := ih _ h1.1
    exact ⟨h2.1, h2.2.trans h1.2⟩

theorem updateCandidates_invD (p : Params) (d : Int) (st : St)
    (h : ∀ s, st.sh.flags s = evCount st.m.evs s) :
    (∀ s, (updateCandidates p d st).sh.flags s = evCount (updateCandidates p d st).m.evs s) ∧
    (updateCandidates p d st).sh.visits = st.sh.visits := by
  have hd : ∀ first (st' : St), (∀ s, st'.sh.flags s = evCount st'.m.evs s) →
      (∀ s, (decideNow p d first st').sh.flags s = evCount (decideNow p d first st').m.evs s) ∧
      (decideNow p d first st').sh.visits = st'.sh.visits := by
    intro first st' h'
    unfold decideNow
    exact foldFlag_invD _ _ _ _ _ h'
  unfold updateCandidates
  split
  · split
    · exact ⟨h, rfl⟩
    · split
      · exact hd _ _ h
      · exact ⟨h, rfl⟩
  · split
    · exact hd _ _ h
    · exact ⟨h, rfl⟩

theorem dailyUpdate_invD (p : Params) (d : Int) (st : St) (h : InvD p st) : InvD p (dailyUpdate p d st) := by
  unfold dailyUpdate
  simp only []
  have h1 := foldRec_invD p d (d - p.rd) (st.m.records.filter (fun r => r.date = d - p.rd))
    { st with m := { st.m with records := st.m.records.filter (fun r => r.date ≠ d - p.rd), today := d, nflags := 0 } }
    h.flagsEq
  have h2 := updateCandidates_invD p d _ h1.1
  refine ⟨h2.1, ?_⟩
  rw [h2.2, h1.2]
  exact h.visitsOK

theorem applyOutcome_invD (p : Params) (d : Int) (outs : Nat → Outcome) (sh : Shared) (pl : Plan)
    (hv : ∀ v ∈ sh.visits, v.recDate + p.rd ≤ v.day) (hpl : pl.latest + p.rd ≤ d) :
    (applyOutcome d outs sh pl).flags = sh.flags ∧
    ∀ v ∈ (applyOutcome d outs sh pl).visits, v.recDate + p.rd ≤ v.day := by
  have key : ∀ v ∈ sh.visits ++ [Visit.mk pl.site pl.latest (sh.latestTag pl.site) d (outs pl.site)],
      v.recDate + p.rd ≤ v.day := by
    intro v hv'
    simp only [List.mem_append, List.mem_singleton] at hv'
    rcases hv' with hv' | rfl
    · exact hv v hv'
    · exact hpl
  unfold applyOutcome
  simp only []
  split <;> exact ⟨rfl, key⟩

theorem foldOutcome_invD (p : Params) (d : Int) (outs : Nat → Outcome) (cs : List Plan) (sh : Shared)
    (hv : ∀ v ∈ sh.visits, v.recDate + p.rd ≤ v.day) (hcs : ∀ pl ∈ cs, pl.latest + p.rd ≤ d) :
    (cs.foldl (applyOutcome d outs) sh).flags = sh.flags ∧
    ∀ v ∈ (cs.foldl (applyOutcome d outs) sh).visits, v.recDate + p.rd ≤ v.day := by
  induction cs generalizing sh with
  | nil => exact ⟨rfl, hv⟩
  | cons pl t ih =>
    have h1 := applyOutcome_invD p d outs sh pl hv (hcs pl (by simp))
    have h2 := ih _ h1.2 (fun x hx => hcs x (by simp [hx]))
    exact ⟨h2.1.trans h1.1, h2.2⟩

theorem followUpDay_invD (p : Params) (cap : Nat) (d : Int) (outs : Nat → Outcome) (st : St)
    (h : InvD p st) (hc : InvC True p st) (hd : st.m.today ≤ d) :
    InvD p { st with sh := followUpDay cap d outs st.sh } := by
  unfold followUpDay
  have := foldOutcome_invD p d outs (planned cap st.sh) { st.sh with queue := st.sh.queue.drop cap }
    h.visitsOK (by
      unfold planned dedupPlans
      apply mem_dedup_fold
      · simp
      · intro e he
        have := (hc.queueOK trivial e (List.mem_of_mem_take he)).2.2.1
        omega)
  refine ⟨?_, this.2⟩
  intro s
  simp only [this.1]
  exact h.flagsEq s

theorem step1_invD (p : Params) (cap : Nat) (st : St) (op : Op1) (h : InvD p st) (hc : InvC True p st)
    (hw : opDated st op) : InvD p (step1 p cap st op) := by
  cases op with
  | screen s r d => exact ⟨h.flagsEq, h.visitsOK⟩
  | update d => exact dailyUpdate_invD p d st h
  | fuDay d outs => exact followUpDay_invD p cap d outs st h hc hw
  | tag s d => exact ⟨h.flagsEq, h.visitsOK⟩

theorem foldl_invD (p : Params) (cap : Nat) (ops : List Op1) (st : St) (h : InvD p st) (hc : InvC True p st)
    (hw : WellDated p cap st ops) : InvD p (ops.foldl (step1 p cap) st) := by
  induction ops generalizing st with
  | nil => exact h
  | cons op t ih =>
    exact ih _ (step1_invD p cap st op h hc (wellDated_cons hw).1)
      (step1_invC p cap st op hc (wellDated_cons hw).1) (wellDated_cons hw).2

theorem run1_invD (p : Params) (cap : Nat) (ops : List Op1) (hw : WellDated p cap {} ops) :
    InvD p (run1 p cap ops) :=
  foldl_invD p cap ops {} ⟨by intro s; rfl, by simp⟩ (invC_init True p) hw

/-! ### invariant K (any number of screening methods): completed + withdrawn + outstanding ≤ flags -/

def K (sh : Shared) : Prop := ∀ s, sh.done s + sh.dropped s + outstanding sh.queue s ≤ sh.flags s

theorem flagSite_K (cls : Nat) (pl : Plan) (route : Route) (d first : Int) (st : St) (h : K st.sh) :
    K (flagSite cls pl route d first st).sh := by
  intro s
  have := h s
  simp only [flagSite, enqueue, outstanding_qInsert]
  by_cases hs : s = pl.site
  · subst hs; simp; omega
  · have h' : ¬ pl.site = s := fun e => hs e.symm
    simp only [h', if_false, bump_other _ hs]; omega

theorem qFindLast_pos {s : Nat} {q : List QE} {pl : Plan} (h : qFindLast s q = some pl) :
    1 ≤ outstanding q s := by
  obtain ⟨e, he, _, hs⟩ := qFindLast_some h
  unfold outstanding
  exact List.countP_pos_iff.mpr ⟨e, he, by subst_vars; simpa using hs⟩

theorem requeue_K (sh : Shared) (site cls : Nat) (pl : Plan) (hs : pl.site = site)
    (hpos : 1 ≤ outstanding sh.queue site) (h : K sh) :
    K (enqueue cls pl { sh with queue := qRemove site sh.queue }) := by
  intro s
  have := h s
  simp only [enqueue, outstanding_qInsert, outstanding_qRemove, hs]
  by_cases h1 : s = site
  · subst h1; simp; omega
  · have h' : ¬ site = s := fun e => h1 e.symm
    simp only [h1, h', if_false]; omega

theorem drop_K (sh : Shared) (site : Nat) (hpos : 1 ≤ outstanding sh.queue site) (h : K sh) :
    K { sh with queue := qRemove site sh.queue, inQueue := setB sh.inQueue site false,
                dropped := bump sh.dropped site } := by
  intro s
  have := h s
  simp only [outstanding_qRemove]
  by_cases h1 : s = site
  · subst h1; simp; omega
  · simp only [h1, if_false, bump_other _ h1]; omega

theorem updMobile_K (p : Params) (d dc : Int) (r : Rec) (st : St) (h : K st.sh) :
    K (updMobile p d dc r st).sh := by
  unfold updMobile
  split
  · rcases poolTake r.site st.m.pool with ⟨o, pool'⟩
    cases o with
    | none => exact h
    | some pl =>
      simp only []
      split
      · exact flagSite_K _ _ _ _ _ _ h
      · split <;> exact h
  · split
    · cases hfl : qFindLast r.site st.sh.queue with
      | none => exact h
      | some pl =>
        have hpos := qFindLast_pos hfl
        have hs := (qFindLast_some hfl).choose_spec.2.2
        simp only []
        split
        · exact requeue_K _ _ _ _ (by simpa using hs) hpos h
        · split
          · exact requeue_K _ _ _ _ (by simpa using hs) hpos h
          · exact drop_K _ _ hpos h
    · split
      · exact flagSite_K _ _ _ _ _ _ h
      · split
        · exact h
        · split <;> exact h

theorem updStationary_K (p : Params) (d dc : Int) (r : Rec) (st : St) (h : K st.sh) :
    K (updStationary p d dc r st).sh := by
  unfold updStationary
  split
  · rcases poolTake r.site st.m.pool with ⟨o, pool'⟩
    cases o with
    | none => exact h
    | some pl =>
      simp only []
      split
      · exact flagSite_K _ _ _ _ _ _ h
      · exact h
  · split
    · cases hfl : qFindLast r.site st.sh.queue with
      | none => exact h
      | some pl =>
        have hpos := qFindLast_pos hfl
        have hs := (qFindLast_some hfl).choose_spec.2.2
        simp only []
        split
        · exact requeue_K _ _ _ _ (by simpa using hs) hpos h
        · exact requeue_K _ _ _ _ (by simpa using hs) hpos h
    · exact h

theorem processRec_K (p : Params) (d dc : Int) (st : St) (r : Rec) (h : K st.sh) :
    K (processRec p d dc st r).sh := by
  unfold processRec
  split
  · split
    · exact updStationary_K _ _ _ _ _ h
    · exact updMobile_K _ _ _ _ _ h
  · exact h

theorem foldRec_K (p : Params) (d dc : Int) (rs : List Rec) (st : St) (h : K st.sh) :
    K (rs.foldl (processRec p d dc) st).sh := by
  induction rs generalizing st with
  | nil => exact h
  | cons r t ih => exact ih _ (processRec_K p d dc st r h)

theorem foldFlag_K (p : Params) (d first : Int) (cs : List Plan) (st : St) (h : K st.sh) :
    K (cs.foldl (flagOne p d first) st).sh := by
  induction cs generalizing st with
  | nil => exact h
  | cons pl t ih =>
    apply ih
    unfold flagOne
    split
    · exact h
    · exact flagSite_K _ _ _ _ _ _ h

theorem dailyUpdate_K (p : Params) (d : Int) (st : St) (h : K st.sh) : K (dailyUpdate p d st).sh := by
  unfold dailyUpdate
  simp only []
  have h1 := foldRec_K p d (d - p.rd) (st.m.records.filter (fun r => r.date = d - p.rd))
    { st with m := { st.m with records := st.m.records.filter (fun r => r.date ≠ d - p.rd), today := d, nflags := 0 } } h
  generalize (List.foldl (processRec p d (d - p.rd)) _ _) = mid at h1 ⊢
  unfold updateCandidates decideNow
  split
  · split
    · exact h1
    · split
      · exact foldFlag_K _ _ _ _ _ h1
      · exact h1
  · split
    · exact foldFlag_K _ _ _ _ _ h1
    · exact h1

/-- the work plan keyed by site id never holds more plans of a site than were taken from the queue -/
theorem cnt_dedup_fold (l : List QE) (acc : List Plan) (s : Nat) :
    cnt (l.foldl (fun acc e =>
      if acc.any (fun a => a.site = e.plan.site) then
        acc.map (fun a => if a.site = e.plan.site then e.plan else a)
      else acc ++ [e.plan]) acc) s ≤ cnt acc s + outstanding l s := by
  induction l generalizing acc with
  | nil => simp [outstanding_nil]
  | cons e t ih =>
    simp only [List.foldl_cons]
    refine Nat.le_trans (ih _) ?_
    rw [outstanding_cons]
    split
    · have : cnt (acc.map (fun a => if a.site = e.plan.site then e.plan else a)) s = cnt acc s := by
        unfold cnt
        rw [List.countP_map]
        congr 1
        funext a
        simp only [Function.comp]
        split
        · rename_i ha; simp [ha]
        · rfl
      omega
    · rw [cnt_append, cnt_cons, cnt_nil]; omega

theorem applyOutcome_K (d : Int) (outs : Nat → Outcome) (sh : Shared) (pl : Plan) (cs : List Plan)
    (h : ∀ s, sh.done s + sh.dropped s + outstanding sh.queue s + cnt (pl :: cs) s ≤ sh.flags s) :
    ∀ s, (applyOutcome d outs sh pl).done s + (applyOutcome d outs sh pl).dropped s
      + outstanding (applyOutcome d outs sh pl).queue s + cnt cs s ≤ (applyOutcome d outs sh pl).flags s := by
  intro s
  have := h s
  rw [cnt_cons] at this
  unfold applyOutcome
  simp only []
  split
  · by_cases h1 : s = pl.site
    · subst h1; simp at this ⊢; omega
    · have h' : ¬ pl.site = s := fun e => h1 e.symm
      simp only [h', if_false] at this
      simp only [bump_other _ h1]; omega
  · simp only [enqueue, outstanding_qInsert]; omega
  · simp only [enqueue, outstanding_qInsert]; omega

theorem followUpDay_K (cap : Nat) (d : Int) (outs : Nat → Outcome) (sh : Shared) (h : K sh) :
    K (followUpDay cap d outs sh) := by
  unfold followUpDay
  have hl : ∀ s, sh.done s + sh.dropped s + outstanding (sh.queue.drop cap) s + cnt (planned cap sh) s
      ≤ sh.flags s := by
    intro s
    have h1 := h s
    have h2 := outstanding_take_drop sh.queue cap s
    have h3 := cnt_dedup_fold (sh.queue.take cap) [] s
    unfold planned dedupPlans
    simp only [cnt_nil, Nat.zero_add] at h3
    omega
  have key : ∀ (cs : List Plan) (sh' : Shared),
      (∀ s, sh'.done s + sh'.dropped s + outstanding sh'.queue s + cnt cs s ≤ sh'.flags s) →
      K (cs.foldl (applyOutcome d outs) sh') := by
    intro cs
    induction cs with
    | nil => intro sh' h' s; simpa using h' s
    | cons pl t ih => intro sh' h'; exact ih _ (applyOutcome_K d outs sh' pl t h')
  exact key _ _ hl

end LdarModel.FollowUp
