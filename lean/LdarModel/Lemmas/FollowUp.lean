import LdarModel.Model.FollowUp
/-
Helper lemmas for the follow-up work practice: container lemmas (pool / queue as sorted lists) and
the three invariants from which the C09 theorems follow, each proved by induction over the
operation list for every history:
  `InvA`  structure: a site is in the pool / in the queue exactly once iff its flag is set, never
          both; flag events = completed + withdrawn + outstanding            (one_outstanding)
  `Sorted` the pool is sorted by decreasing rate                              (proportion: largest first)
  `InvC`  provenance and dates: every pooled / queued plan and every flag event stems from released
          records of its site, not before the reporting delay, with the routing condition
          (queued_implies_flagged, not_before_reporting_delay)
-/
namespace LdarModel.FollowUp

def b2n (b : Bool) : Nat := if b then 1 else 0

/-- number of plans of a site in a pool -/
def cnt (l : List Plan) (s : Nat) : Nat := l.countP (fun pl => pl.site = s)

@[simp] theorem b2n_true : b2n true = 1 := rfl
@[simp] theorem b2n_false : b2n false = 0 := rfl
theorem b2n_le (b : Bool) : b2n b ≤ 1 := by cases b <;> simp
theorem b2n_eq_one {b : Bool} : b2n b = 1 ↔ b = true := by cases b <;> simp
theorem b2n_eq_zero {b : Bool} : b2n b = 0 ↔ b = false := by cases b <;> simp

@[simp] theorem setB_same (f : Nat → Bool) (s : Nat) (v : Bool) : setB f s v s = v := by simp [setB]
theorem setB_other (f : Nat → Bool) {s x : Nat} (v : Bool) (h : x ≠ s) : setB f s v x = f x := by
  simp [setB, h]
@[simp] theorem bump_same (f : Nat → Nat) (s : Nat) : bump f s s = f s + 1 := by simp [bump]
theorem bump_other (f : Nat → Nat) {s x : Nat} (h : x ≠ s) : bump f s x = f x := by simp [bump, h]

/-! ### pool -/

@[simp] theorem cnt_nil (s : Nat) : cnt [] s = 0 := rfl
theorem cnt_cons (x : Plan) (l : List Plan) (s : Nat) :
    cnt (x :: l) s = cnt l s + (if x.site = s then 1 else 0) := by
  unfold cnt; rw [List.countP_cons]; simp

theorem cnt_poolInsert (x : Plan) (l : List Plan) (s : Nat) :
    cnt (poolInsert x l) s = cnt l s + (if x.site = s then 1 else 0) := by
  induction l with
  | nil => simp [poolInsert, cnt_cons]
  | cons y t ih =>
    unfold poolInsert
    split
    · simp [cnt_cons]
    · simp only [cnt_cons, ih]; omega

theorem mem_poolInsert (x y : Plan) (l : List Plan) : y ∈ poolInsert x l ↔ y = x ∨ y ∈ l := by
  induction l with
  | nil => simp [poolInsert]
  | cons z t ih =>
    unfold poolInsert
    split
    · simp
    · simp only [List.mem_cons, ih]; grind

def Sorted (l : List Plan) : Prop := l.Pairwise (fun a b => b.rate ≤ a.rate)

theorem sorted_poolInsert (x : Plan) (l : List Plan) (h : Sorted l) : Sorted (poolInsert x l) := by
  unfold Sorted at *
  induction l with
  | nil => simp [poolInsert]
  | cons y t ih =>
    unfold poolInsert
    rw [List.pairwise_cons] at h
    split
    · rename_i hlt
      refine List.pairwise_cons.mpr ⟨?_, List.pairwise_cons.mpr h⟩
      intro z hz
      rcases List.mem_cons.mp hz with rfl | hz
      · exact Rat.le_of_lt hlt
      · have := h.1 z hz; grind
    · rename_i hlt
      refine List.pairwise_cons.mpr ⟨?_, ih h.2⟩
      intro z hz
      rcases (mem_poolInsert x z t).mp hz with rfl | hz
      · grind
      · exact h.1 z hz

theorem poolTake_spec (s : Nat) (l : List Plan) :
    (∀ pl l', poolTake s l = (some pl, l') →
        pl.site = s ∧ pl ∈ l ∧ l'.Sublist l ∧ ∀ t, cnt l t = cnt l' t + (if pl.site = t then 1 else 0)) ∧
    (∀ l', poolTake s l = (none, l') → cnt l s = 0) := by
  induction l with
  | nil => simp [poolTake]
  | cons y t ih =>
    unfold poolTake
    by_cases hy : y.site = s
    · simp only [hy, if_true]
      refine ⟨?_, by simp⟩
      intro pl l' h
      simp only [Prod.mk.injEq, Option.some.injEq] at h
      obtain ⟨rfl, rfl⟩ := h
      refine ⟨hy, by simp, by simp, ?_⟩
      intro t; simp [cnt_cons]
    · simp only [hy, if_false]
      refine ⟨?_, ?_⟩
      · intro pl l' h
        simp only [Prod.mk.injEq] at h
        obtain ⟨h1, rfl⟩ := h
        have := ih.1 pl (poolTake s t).2 (by rw [← h1])
        obtain ⟨a, b, c, d⟩ := this
        refine ⟨a, by simp [b], by simpa using c, ?_⟩
        intro u; simp only [cnt_cons, d u]; omega
      · intro l' h
        simp only [Prod.mk.injEq] at h
        have := ih.2 (poolTake s t).2 (by rw [← h.1])
        simp [cnt_cons, this, hy]

theorem sorted_sublist {l l' : List Plan} (h : l'.Sublist l) (hs : Sorted l) : Sorted l' :=
  List.Pairwise.sublist h hs

theorem cnt_take_drop (l : List Plan) (k s : Nat) : cnt (l.take k) s + cnt (l.drop k) s = cnt l s := by
  unfold cnt
  rw [← List.countP_append, List.take_append_drop]

theorem cnt_pos_of_mem {l : List Plan} {pl : Plan} (h : pl ∈ l) : 0 < cnt l pl.site := by
  unfold cnt
  exact List.countP_pos_iff.mpr ⟨pl, h, by simp⟩

theorem cnt_zero_not_mem {l : List Plan} {s : Nat} (h : cnt l s = 0) : ∀ pl ∈ l, pl.site ≠ s := by
  intro pl hpl hs
  have := cnt_pos_of_mem hpl
  rw [hs] at this; omega

/-- un-flagging the rejected candidates -/
theorem unflag_spec (rej : List Plan) (g : Nat → Bool) (s : Nat) :
    (rej.foldl (fun f pl => setB f pl.site false) g) s = if cnt rej s = 0 then g s else false := by
  induction rej generalizing g with
  | nil => simp
  | cons y t ih =>
    simp only [List.foldl_cons, ih, cnt_cons]
    by_cases hy : y.site = s
    · subst hy; simp
    · have : s ≠ y.site := fun h => hy h.symm
      simp [hy, setB_other _ _ this]

/-! ### queue -/

theorem outstanding_nil (s : Nat) : outstanding [] s = 0 := rfl
theorem outstanding_cons (x : QE) (l : List QE) (s : Nat) :
    outstanding (x :: l) s = outstanding l s + (if x.plan.site = s then 1 else 0) := by
  unfold outstanding; rw [List.countP_cons]; simp

theorem outstanding_qInsert (x : QE) (l : List QE) (s : Nat) :
    outstanding (qInsert x l) s = outstanding l s + (if x.plan.site = s then 1 else 0) := by
  induction l with
  | nil => simp [qInsert, outstanding_cons, outstanding_nil]
  | cons y t ih =>
    unfold qInsert
    split
    · simp [outstanding_cons]
    · simp only [outstanding_cons, ih]; omega

theorem mem_qInsert (x y : QE) (l : List QE) : y ∈ qInsert x l ↔ y = x ∨ y ∈ l := by
  induction l with
  | nil => simp [qInsert]
  | cons z t ih =>
    unfold qInsert
    split
    · simp
    · simp only [List.mem_cons, ih]; grind

theorem outstanding_qRemove (s : Nat) (q : List QE) (t : Nat) :
    outstanding (qRemove s q) t = if t = s then 0 else outstanding q t := by
  induction q with
  | nil => simp [qRemove, outstanding_nil]
  | cons y l ih =>
    unfold qRemove at *
    simp only [List.filter_cons]
    by_cases hy : y.plan.site = s
    · simp only [hy, ne_eq, not_true_eq_false, decide_false, Bool.false_eq_true, if_false, ih,
        outstanding_cons]
      by_cases ht : t = s
      · simp [ht]
      · have : ¬ s = t := fun h => ht h.symm
        simp [ht, this]
    · simp only [hy, ne_eq, not_false_eq_true, decide_true, if_true, outstanding_cons, ih]
      by_cases ht : t = s
      · subst ht; simp [hy]
      · simp [ht]

theorem mem_qRemove {s : Nat} {q : List QE} {e : QE} (h : e ∈ qRemove s q) : e ∈ q ∧ e.plan.site ≠ s := by
  unfold qRemove at h
  simpa using h

theorem qFindLast_some {s : Nat} {q : List QE} {pl : Plan} (h : qFindLast s q = some pl) :
    ∃ e ∈ q, e.plan = pl ∧ pl.site = s := by
  unfold qFindLast at h
  rw [Option.map_eq_some_iff] at h
  obtain ⟨e, he, rfl⟩ := h
  have := List.mem_of_getLast? he
  rw [List.mem_filter] at this
  exact ⟨e, this.1, rfl, by simpa using this.2⟩

theorem qFindLast_none {s : Nat} {q : List QE} (h : qFindLast s q = none) : outstanding q s = 0 := by
  unfold qFindLast at h
  rw [Option.map_eq_none_iff, List.getLast?_eq_none_iff] at h
  unfold outstanding
  rw [List.countP_eq_length_filter, h]; rfl

theorem outstanding_take_drop (l : List QE) (k s : Nat) :
    outstanding (l.take k) s + outstanding (l.drop k) s = outstanding l s := by
  unfold outstanding
  rw [← List.countP_append, List.take_append_drop]

theorem cnt_append (a b : List Plan) (s : Nat) : cnt (a ++ b) s = cnt a s + cnt b s := by
  unfold cnt; exact List.countP_append

theorem cnt_map_plan (l : List QE) (s : Nat) : cnt (l.map (·.plan)) s = outstanding l s := by
  unfold cnt outstanding
  rw [List.countP_map]; rfl

/-- the work plan keyed by site id changes nothing when every site occurs at most once -/
theorem dedup_fold (l : List QE) (acc : List Plan)
    (h : ∀ s, cnt acc s + outstanding l s ≤ 1) :
    l.foldl (fun acc e =>
      if acc.any (fun a => a.site = e.plan.site) then
        acc.map (fun a => if a.site = e.plan.site then e.plan else a)
      else acc ++ [e.plan]) acc = acc ++ l.map (·.plan) := by
  induction l generalizing acc with
  | nil => simp
  | cons e t ih =>
    simp only [List.foldl_cons, List.map_cons]
    have he := h e.plan.site
    rw [outstanding_cons] at he
    simp only [if_true] at he
    have hz : cnt acc e.plan.site = 0 := by omega
    have hany : acc.any (fun a => a.site = e.plan.site) = false := by
      rw [List.any_eq_false]
      intro a ha
      have := cnt_zero_not_mem hz a ha
      simpa using this
    rw [hany]
    simp only [Bool.false_eq_true, if_false]
    rw [ih]
    · simp
    · intro s
      have := h s
      rw [outstanding_cons] at this
      rw [cnt_append, cnt_cons, cnt_nil]
      omega

theorem dedupPlans_of_distinct (l : List QE) (h : ∀ s, outstanding l s ≤ 1) :
    dedupPlans l = l.map (·.plan) := by
  unfold dedupPlans
  rw [dedup_fold l [] (by intro s; simpa using h s)]
  simp

end LdarModel.FollowUp
