import LdarModel.Model.Emission
/-
Detection-only events are invisible to the life-cycle: `runE` over mixed events and `run` over the
tag requests among them agree on every field except `initDetect` / `initDetectBy`.
-/
namespace LdarModel.Emission

/-- everything but the two "initially detected" fields -/
def tproj (s : State) : Status × Int × Bool × Int × Int × By × Option Int × Bool × Int × Int × Int :=
  (s.status, s.activeDays, s.tagged, s.dst, s.trd, s.by_, s.endDate, s.emitting, s.daysEmitting,
   s.onCount, s.offCount)

theorem tproj_eq_iff (s s' : State) : tproj s = tproj s' ↔
    (s.status = s'.status ∧ s.activeDays = s'.activeDays ∧ s.tagged = s'.tagged ∧ s.dst = s'.dst ∧
     s.trd = s'.trd ∧ s.by_ = s'.by_ ∧ s.endDate = s'.endDate ∧ s.emitting = s'.emitting ∧
     s.daysEmitting = s'.daysEmitting ∧ s.onCount = s'.onCount ∧ s.offCount = s'.offCount) := by
  unfold tproj; simp only [Prod.mk.injEq]

theorem tag_tproj (p : Params) (d : Int) (e : TagEv) (s s' : State) (h : tproj s = tproj s') :
    tproj (tag p d e s) = tproj (tag p d e s') := by
  rw [tproj_eq_iff] at *
  unfold tag detectRec; grind

theorem detect_tproj (d : Int) (c : Nat) (s : State) :
    tproj (if s.status = .active then detectRec d c s else s) = tproj s := by
  rw [tproj_eq_iff]; unfold detectRec; grind

theorem activate_tproj (p : Params) (d : Int) (s s' : State) (h : tproj s = tproj s') :
    tproj (activate p d s) = tproj (activate p d s') := by
  rw [tproj_eq_iff] at *
  unfold activate; grind

theorem update_tproj (p : Params) (s s' : State) (h : tproj s = tproj s') :
    tproj (update p s) = tproj (update p s') := by
  rw [tproj_eq_iff] at *
  obtain ⟨h1, h2, h3, h4, h5, h6, h7, h8, h9, h10, h11⟩ := h
  unfold update endedAt toggle
  simp only [h1, h2, h3, h4, h5, h6, h7, h8, h9, h10, h11]
  grind

theorem events_tproj (p : Params) (d : Int) (evs : List Ev) (s s' : State) (h : tproj s = tproj s') :
    tproj (evs.foldl (fun s e => applyEv p d e s) s)
      = tproj ((tagsOf evs).foldl (fun s e => tag p d e s) s') := by
  induction evs generalizing s s' with
  | nil => simpa [tagsOf]
  | cons e evs ih =>
    cases e with
    | tag e =>
      simp only [List.foldl_cons, tagsOf, applyEv]
      exact ih _ _ (tag_tproj p d e s s' h)
    | detect c =>
      simp only [List.foldl_cons, tagsOf, applyEv]
      apply ih
      rw [detect_tproj]; exact h

theorem runE_tproj (p : Params) (ev : Nat → List Ev) (N : Nat) :
    tproj (runE p ev N) = tproj (run p (fun d => tagsOf (ev d)) N) := by
  induction N with
  | zero => rfl
  | succ n ih =>
    simp only [runE, run, dayE, day]
    apply update_tproj
    apply events_tproj
    exact activate_tproj p n _ _ ih

/-- field-wise form of `runE_tproj` -/
theorem runE_fields (p : Params) (ev : Nat → List Ev) (N : Nat) :
    let s := runE p ev N
    let s' := run p (fun d => tagsOf (ev d)) N
    s.status = s'.status ∧ s.activeDays = s'.activeDays ∧ s.tagged = s'.tagged ∧ s.dst = s'.dst ∧
    s.trd = s'.trd ∧ s.by_ = s'.by_ ∧ s.endDate = s'.endDate ∧ s.emitting = s'.emitting ∧
    s.daysEmitting = s'.daysEmitting ∧ s.onCount = s'.onCount ∧ s.offCount = s'.offCount :=
  (tproj_eq_iff _ _).1 (runE_tproj p ev N)

end LdarModel.Emission
