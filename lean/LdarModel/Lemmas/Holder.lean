import LdarModel.Model.Holder
import LdarModel.Lemmas.Tree
import Std.Data.String.ToNat
/-
Helper lemmas about the holder / variator model (`Model/Holder.lean`): the nested update
(`update_nested_dictionary` / `_merge_variation`) path by path, holder alterations, the per-set slice
of an unpacked description.
-/
namespace LdarModel.Holder
open LdarModel.Tree

/-! ### `updNested` key by key -/

theorem upd_cons_leaf (cur : KV) (k : String) (v : J) (rest : KV) (h : v.isObj = false) :
    updNested cur (.cons k v rest) = updNested (cur.setKey k v) rest := by
  cases v <;> simp_all [updNested, J.isObj]

/-- the value one loop iteration stores under its key -/
def updValue (cur : KV) (k : String) (v : J) : J :=
  match v with
  | .obj vk =>
    match cur.lookup k with
    | some (.obj ck) => .obj (updNested ck vk)
    | _ => .obj vk
  | leaf => leaf

theorem updValue_congr {a b : KV} {k : String} (h : a.lookup k = b.lookup k) (v : J) :
    updValue a k v = updValue b k v := by
  cases v <;> simp [updValue, h]

theorem upd_cons (cur : KV) (k : String) (v : J) (rest : KV) :
    updNested cur (.cons k v rest) = updNested (cur.setKey k (updValue cur k v)) rest := by
  cases v with
  | obj vk =>
    simp only [updNested, updValue]
    split <;> simp_all
  | _ => simp [updNested, updValue]

theorem upd_lookup_other : ∀ (u cur : KV) (k : String), k ∉ u.keys →
    (updNested cur u).lookup k = cur.lookup k
  | .nil, cur, k, _ => by simp [updNested]
  | .cons k0 v0 rest, cur, k, hk => by
    simp only [KV.keys, List.mem_cons, not_or] at hk
    rw [upd_cons, upd_lookup_other rest _ k hk.2, KV.lookup_setKey_ne _ hk.1]

theorem upd_lookup_hit : ∀ (u cur : KV) (k : String) (v0 : J), u.wf = true →
    u.lookup k = some v0 → (updNested cur u).lookup k = some (updValue cur k v0)
  | .nil, _, _, _, _, hl => by simp [KV.lookup] at hl
  | .cons k0 v' rest, cur, k, v0, hwf, hl => by
    obtain ⟨hk0, _, hwfr⟩ := KV.wf_cons hwf
    rw [upd_cons]
    by_cases hk : k0 = k
    · subst hk
      simp only [KV.lookup, if_true] at hl
      cases hl
      rw [upd_lookup_other rest _ k0 hk0, KV.lookup_setKey_same]
    · simp only [KV.lookup, hk, if_false] at hl
      rw [upd_lookup_hit rest _ k v0 hwfr hl]
      have hlk : (cur.setKey k0 (updValue cur k0 v')).lookup k = cur.lookup k :=
        KV.lookup_setKey_ne _ (Ne.symm hk) cur
      rw [updValue_congr hlk]

theorem upd_keys_of_mem : ∀ (u cur : KV), (∀ k, k ∈ u.keys → k ∈ cur.keys) →
    (updNested cur u).keys = cur.keys
  | .nil, cur, _ => by simp [updNested]
  | .cons k0 v0 rest, cur, h => by
    have hk0 : k0 ∈ cur.keys := h k0 (by simp [KV.keys])
    have hkeys := KV.keys_setKey_of_mem k0 (updValue cur k0 v0) cur hk0
    rw [upd_cons, upd_keys_of_mem rest _ (by
      intro k hm; rw [hkeys]; exact h k (by simp [KV.keys, hm])), hkeys]

/-- `varied`: on and below the update's leaf paths the merged dictionary holds the update -/
theorem upd_touched : ∀ (p : Path) (u cur : KV), u.wf = true →
    touched (.obj u) p = true → get? p (.obj (updNested cur u)) = get? p (.obj u)
  | [], _, _, _, ht => by simp [touched] at ht
  | k :: p', u, cur, hwf, ht => by
    simp only [touched] at ht
    cases hl : u.lookup k with
    | none => simp [hl] at ht
    | some v0 =>
      simp only [hl] at ht
      have hhit := upd_lookup_hit u cur k v0 hwf hl
      simp only [get?, hhit, hl]
      cases v0 with
      | obj vk =>
        have hwfv : vk.wf = true := by
          have := KV.wf_lookup u k _ hwf hl
          simpa [J.wf] using this
        simp only [updValue]
        split
        · rename_i ck _
          exact upd_touched p' vk ck hwfv ht
        · rfl
      | _ => simp [updValue]

/-- wherever the update has a (nested) dictionary below the top level, the current value is a
dictionary too — the update never puts a section where the base has a plain value -/
def DictOnDict (cur u : KV) : Prop :=
  ∀ q uk, q ≠ [] → get? q (.obj u) = some (.obj uk) → ∃ ck, get? q (.obj cur) = some (.obj ck)

theorem DictOnDict.sub {cur u ck vk : KV} {k : String} (h : DictOnDict cur u)
    (hu : u.lookup k = some (.obj vk)) (hc : cur.lookup k = some (.obj ck)) : DictOnDict ck vk := by
  intro q uk hq hg
  cases q with
  | nil => exact absurd rfl hq
  | cons k1 q1 =>
    obtain ⟨ck2, hck2⟩ := h (k :: k1 :: q1) uk (by simp) (by simpa [get?, hu] using hg)
    exact ⟨ck2, by simpa [get?, hc] using hck2⟩

/-- `frame`: a leaf of the current dictionary that is not on or below a leaf path of the update
keeps its value -/
theorem upd_frame : ∀ (p : Path) (u cur : KV) (v : J), u.wf = true → DictOnDict cur u →
    touched (.obj u) p = false → get? p (.obj cur) = some v → v.isObj = false →
    get? p (.obj (updNested cur u)) = some v
  | [], _, _, v, _, _, _, hg, hv => by
    rw [get?_nil] at hg
    cases hg
    simp [J.isObj] at hv
  | k :: p', u, cur, v, hwf, hdd, ht, hg, hv => by
    simp only [touched] at ht
    cases hl : u.lookup k with
    | none =>
      have := upd_lookup_other u cur k ((KV.lookup_none_iff k u).mp hl)
      simpa [get?, this] using hg
    | some v0 =>
      simp only [hl] at ht
      cases hobj : v0.isObj with
      | false => rw [touched_leaf hobj] at ht; cases ht
      | true =>
        cases v0 with
        | obj vk =>
          obtain ⟨ck, hck⟩ := hdd [k] vk (by simp) (by simp [get?, hl])
          have hck' : cur.lookup k = some (.obj ck) := by
            simp only [get?] at hck
            cases hc : cur.lookup k with
            | none => simp [hc] at hck
            | some cv =>
              simp only [hc] at hck
              cases hck; rfl
          have hhit := upd_lookup_hit u cur k _ hwf hl
          have hwfv : vk.wf = true := by
            have := KV.wf_lookup u k _ hwf hl
            simpa [J.wf] using this
          have hg' : get? p' (.obj ck) = some v := by simpa [get?, hck'] using hg
          have ih := upd_frame p' vk ck v hwfv (hdd.sub hl hck') ht hg' hv
          simp [get?, hhit, updValue, hck', ih]
        | _ => simp [J.isObj] at hobj

/-- a dictionary off the update's leaf paths stays a dictionary -/
theorem upd_frame_node : ∀ (p : Path) (u cur ck : KV), u.wf = true → DictOnDict cur u →
    touched (.obj u) p = false → get? p (.obj cur) = some (.obj ck) →
    ∃ rk, get? p (.obj (updNested cur u)) = some (.obj rk)
  | [], _, _, _, _, _, _, _ => ⟨_, get?_nil _⟩
  | k :: p', u, cur, ck0, hwf, hdd, ht, hg => by
    simp only [touched] at ht
    cases hl : u.lookup k with
    | none =>
      have := upd_lookup_other u cur k ((KV.lookup_none_iff k u).mp hl)
      exact ⟨ck0, by simpa [get?, this] using hg⟩
    | some v0 =>
      simp only [hl] at ht
      cases hobj : v0.isObj with
      | false => rw [touched_leaf hobj] at ht; cases ht
      | true =>
        cases v0 with
        | obj vk =>
          obtain ⟨ck, hck⟩ := hdd [k] vk (by simp) (by simp [get?, hl])
          have hck' : cur.lookup k = some (.obj ck) := by
            simp only [get?] at hck
            cases hc : cur.lookup k with
            | none => simp [hc] at hck
            | some cv =>
              simp only [hc] at hck
              cases hck; rfl
          have hhit := upd_lookup_hit u cur k _ hwf hl
          have hwfv : vk.wf = true := by
            have := KV.wf_lookup u k _ hwf hl
            simpa [J.wf] using this
          have hg' : get? p' (.obj ck) = some (.obj ck0) := by simpa [get?, hck'] using hg
          obtain ⟨rk, hrk⟩ := upd_frame_node p' vk ck ck0 hwfv (hdd.sub hl hck') ht hg'
          exact ⟨rk, by simp [get?, hhit, updValue, hck', hrk]⟩
        | _ => simp [J.isObj] at hobj


/-! ### holder alterations -/

/-- a successful alteration rewrites at most the entry of its own key, which must exist -/
theorem alterD_inv {sm : SM} {d d' : KV} {k : String} {v : J} (h : alterD sm d k v = .ok d') :
    ∃ cur, d.lookup k = some cur ∧ (d' = d ∨ ∃ x, d' = d.setKey k x) := by
  cases hl : d.lookup k with
  | none => cases v <;> simp [alterD, hl] at h
  | some cur =>
    refine ⟨cur, rfl, ?_⟩
    cases v with
    | obj vk =>
      simp only [alterD, hl] at h
      cases sm with
      | gen =>
        simp only at h
        split at h <;> (cases h; exact Or.inr ⟨_, rfl⟩)
      | high m =>
        simp only at h
        split at h
        · split at h
          · cases h; exact Or.inr ⟨_, rfl⟩
          · cases h
        · cases h
        · cases h; exact Or.inr ⟨_, rfl⟩
        · cases h; exact Or.inr ⟨_, rfl⟩
    | null =>
      simp only [alterD, hl] at h
      cases sm with
      | gen => cases h; exact Or.inr ⟨_, rfl⟩
      | high m =>
        simp only at h
        split at h <;> (cases h <;> first | exact Or.inr ⟨_, rfl⟩ | exact Or.inl rfl)
    | bool b =>
      simp only [alterD, hl] at h
      cases sm with
      | gen => cases h; exact Or.inr ⟨_, rfl⟩
      | high m =>
        simp only at h
        split at h <;> (cases h <;> first | exact Or.inr ⟨_, rfl⟩ | exact Or.inl rfl)
    | int i =>
      simp only [alterD, hl] at h
      cases sm with
      | gen => cases h; exact Or.inr ⟨_, rfl⟩
      | high m =>
        simp only at h
        split at h <;> (cases h <;> first | exact Or.inr ⟨_, rfl⟩ | exact Or.inl rfl)
    | float m e =>
      simp only [alterD, hl] at h
      cases sm with
      | gen => cases h; exact Or.inr ⟨_, rfl⟩
      | high m =>
        simp only at h
        split at h <;> (cases h <;> first | exact Or.inr ⟨_, rfl⟩ | exact Or.inl rfl)
    | str s =>
      simp only [alterD, hl] at h
      cases sm with
      | gen => cases h; exact Or.inr ⟨_, rfl⟩
      | high m =>
        simp only at h
        split at h
        · cases h
        · split at h <;> (cases h <;> first | exact Or.inr ⟨_, rfl⟩ | exact Or.inl rfl)
        · (cases h <;> first | exact Or.inr ⟨_, rfl⟩ | exact Or.inl rfl)
    | list l =>
      cases l with
      | nil =>
        simp only [alterD, hl] at h
        cases sm with
        | gen => cases h; exact Or.inr ⟨_, rfl⟩
        | high m =>
          simp only at h
          split at h <;> (cases h <;> first | exact Or.inr ⟨_, rfl⟩ | exact Or.inl rfl)
      | cons x t =>
        simp only [alterD, hl] at h
        cases sm with
        | gen => cases h; exact Or.inr ⟨_, rfl⟩
        | high m =>
          simp only at h
          split at h <;> (cases h <;> first | exact Or.inr ⟨_, rfl⟩ | exact Or.inl rfl)

/-- `frame` at key granularity: an alteration leaves every other entry of the holder untouched -/
theorem alterD_other {sm : SM} {d d' : KV} {k k' : String} {v : J}
    (h : alterD sm d k v = .ok d') (hk : k' ≠ k) : d'.lookup k' = d.lookup k' := by
  obtain ⟨_, _, hd | ⟨x, hd⟩⟩ := alterD_inv h
  · rw [hd]
  · rw [hd, KV.lookup_setKey_ne x hk]

theorem alterD_keys {sm : SM} {d d' : KV} {k : String} {v : J}
    (h : alterD sm d k v = .ok d') : d'.keys = d.keys := by
  obtain ⟨cur, hl, hd | ⟨x, hd⟩⟩ := alterD_inv h
  · rw [hd]
  · rw [hd, KV.keys_setKey_of_mem k x d (KV.mem_keys_of_lookup hl)]

theorem alterSeq_other {sm : SM} {k k' : String} (hk : k' ≠ k) : ∀ (xs : List J) (d d' : KV),
    alterSeq sm d k xs = .ok d' → d'.lookup k' = d.lookup k'
  | [], d, d', h => by simp only [alterSeq] at h; cases h; rfl
  | x :: xs, d, d', h => by
    simp only [alterSeq] at h
    cases ha : alterD sm d k x with
    | error e => simp [ha] at h
    | ok d1 =>
      simp only [ha] at h
      rw [alterSeq_other hk xs d1 d' h, alterD_other ha hk]

theorem alterSeq_keys {sm : SM} {k : String} : ∀ (xs : List J) (d d' : KV),
    alterSeq sm d k xs = .ok d' → d'.keys = d.keys
  | [], d, d', h => by simp only [alterSeq] at h; cases h; rfl
  | x :: xs, d, d', h => by
    simp only [alterSeq] at h
    cases ha : alterD sm d k x with
    | error e => simp [ha] at h
    | ok d1 =>
      simp only [ha] at h
      rw [alterSeq_keys xs d1 d' h, alterD_keys ha]

/-- a whole set of variations leaves every key the description does not name untouched -/
theorem alterVariations_other {sm : SM} {n i : Nat} {k' : String} : ∀ (vars d d' : KV),
    alterVariations sm n i d vars = .ok d' → k' ∉ vars.keys → d'.lookup k' = d.lookup k'
  | .nil, d, d', h, _ => by simp only [alterVariations] at h; cases h; rfl
  | .cons k v rest, d, d', h, hk => by
    simp only [KV.keys, List.mem_cons, not_or] at hk
    cases v with
    | list l =>
      simp only [alterVariations] at h
      cases hs : alterSeq sm d k (sliceFor n i l) with
      | error e => simp [hs] at h
      | ok d1 =>
        simp only [hs] at h
        rw [alterVariations_other rest d1 d' h hk.2, alterSeq_other hk.1 _ d d1 hs]
    | _ => simp [alterVariations] at h

theorem alterVariations_keys {sm : SM} {n i : Nat} : ∀ (vars d d' : KV),
    alterVariations sm n i d vars = .ok d' → d'.keys = d.keys
  | .nil, d, d', h => by simp only [alterVariations] at h; cases h; rfl
  | .cons k v rest, d, d', h => by
    cases v with
    | list l =>
      simp only [alterVariations] at h
      cases hs : alterSeq sm d k (sliceFor n i l) with
      | error e => simp [hs] at h
      | ok d1 =>
        simp only [hs] at h
        rw [alterVariations_keys rest d1 d' h, alterSeq_keys _ d d1 hs]
    | _ => simp [alterVariations] at h


/-! ### a holder alteration is the nested update of its dictionary -/

theorem shallowOK_congr {a b : KV} : ∀ (vk : KV), (∀ k, k ∈ vk.keys → a.lookup k = b.lookup k) →
    shallowOK a vk = shallowOK b vk
  | .nil, _ => by simp [shallowOK]
  | .cons k2 v2 rest, h => by
    simp only [shallowOK, h k2 (by simp [KV.keys]),
      shallowOK_congr rest (fun k hk => h k (by simp [KV.keys, hk]))]

theorem shallow_eq_upd : ∀ (vk ck : KV), vk.wf = true → shallowOK ck vk = true →
    updShallow ck vk = updNested ck vk
  | .nil, _, _, _ => by simp [updShallow, updNested]
  | .cons k2 v2 rest, ck, hwf, hs => by
    obtain ⟨hk2, _, hwfr⟩ := KV.wf_cons hwf
    simp only [shallowOK, Bool.and_eq_true, Bool.not_eq_true'] at hs
    have hval : updValue ck k2 v2 = v2 := by
      cases v2 with
      | obj vk2 =>
        simp only [updValue]
        split
        · rename_i ck2 hck2
          simp [J.isObj, hck2] at hs
        · rfl
      | _ => simp [updValue]
    rw [upd_cons, hval]
    simp only [updShallow]
    apply shallow_eq_upd rest _ hwfr
    rw [shallowOK_congr rest (b := ck)]
    · exact hs.2
    · intro k hk
      exact KV.lookup_setKey_ne v2 (fun (e : k = k2) => hk2 (e ▸ hk)) ck

theorem flatD_congr {sm : SM} {a b : KV} {k : String} (h : a.lookup k = b.lookup k) (v : J) :
    flatD sm a k v = flatD sm b k v := by
  cases v <;> simp [flatD, h]

theorem flatAll_congr {sm : SM} {a b : KV} : ∀ (u : KV), (∀ k, k ∈ u.keys → a.lookup k = b.lookup k) →
    flatAll sm a u = flatAll sm b u
  | .nil, _ => by simp [flatAll]
  | .cons k v rest, h => by
    simp only [flatAll, flatD_congr (h k (by simp [KV.keys])) v,
      flatAll_congr rest (fun k' hk' => h k' (by simp [KV.keys, hk']))]

mutual
theorem alterD_eq_upd : ∀ (v : J) (sm : SM) (d d' : KV) (k : String), v.wf = true →
    flatD sm d k v = true → alterD sm d k v = .ok d' → d' = d.setKey k (updValue d k v)
  | .obj vk, sm, d, d', k, hwf, hf, h => by
    cases hl : d.lookup k with
    | none => simp [alterD, hl] at h
    | some cur =>
      simp only [alterD, hl] at h
      simp only [flatD, hl] at hf
      cases sm with
      | gen =>
        simp only at h
        cases cur with
        | obj ck => (simp only at h; cases h; simp [updValue, hl])
        | null => (simp only at h; cases h; simp [updValue, hl])
        | bool b0 => (simp only at h; cases h; simp [updValue, hl])
        | int i0 => (simp only at h; cases h; simp [updValue, hl])
        | float x0 y0 => (simp only at h; cases h; simp [updValue, hl])
        | str s0 => (simp only at h; cases h; simp [updValue, hl])
        | list l0 => (simp only at h; cases h; simp [updValue, hl])

      | high m =>
        simp only at h hf
        cases hm : m.lookup k with
        | some sub =>
          simp only [hm] at h hf
          cases cur with
          | obj ck =>
            simp only at h hf
            cases ha : alterAllD sub ck vk with
            | error e => simp [ha] at h
            | ok r =>
              simp only [ha] at h
              cases h
              have := alterAll_eq_upd vk sub ck r (by simpa [J.wf] using hwf) hf ha
              simp [updValue, hl, this]
          | null => simp at h
          | bool b0 => simp at h
          | int i0 => simp at h
          | float x0 y0 => simp at h
          | str s0 => simp at h
          | list l0 => simp at h
        | none =>
          simp only [hm] at h hf
          cases cur with
          | obj ck => (simp only at h hf; cases h; simp [updValue, hl, shallow_eq_upd vk ck (by simpa [J.wf] using hwf) hf])
          | null => (simp only at h; cases h; simp [updValue, hl])
          | bool b0 => (simp only at h; cases h; simp [updValue, hl])
          | int i0 => (simp only at h; cases h; simp [updValue, hl])
          | float x0 y0 => (simp only at h; cases h; simp [updValue, hl])
          | str s0 => (simp only at h; cases h; simp [updValue, hl])
          | list l0 => (simp only at h; cases h; simp [updValue, hl])

  | .null, sm, d, d', k, _, hf, h => by
    cases hl : d.lookup k with
    | none => simp [alterD, hl] at h
    | some cur =>
      simp only [alterD, hl] at h
      simp only [flatD, hl] at hf
      cases sm with
      | gen => cases h; simp [updValue]
      | high m =>
        simp only at h hf
        cases hm : m.lookup k with
        | some sub => simp [hm] at h
        | none =>
          simp only [hm] at h hf
          cases cur with
          | obj ck => simp at hf
          | null => (simp only at h; cases h; simp [updValue])
          | bool b0 => (simp only at h; cases h; simp [updValue])
          | int i0 => (simp only at h; cases h; simp [updValue])
          | float x0 y0 => (simp only at h; cases h; simp [updValue])
          | str s0 => (simp only at h; cases h; simp [updValue])
          | list l0 => (simp only at h; cases h; simp [updValue])
  | .bool b, sm, d, d', k, _, hf, h => by
    cases hl : d.lookup k with
    | none => simp [alterD, hl] at h
    | some cur =>
      simp only [alterD, hl] at h
      simp only [flatD, hl] at hf
      cases sm with
      | gen => cases h; simp [updValue]
      | high m =>
        simp only at h hf
        cases hm : m.lookup k with
        | some sub => simp [hm] at h
        | none =>
          simp only [hm] at h hf
          cases cur with
          | obj ck => simp at hf
          | null => (simp only at h; cases h; simp [updValue])
          | bool b0 => (simp only at h; cases h; simp [updValue])
          | int i0 => (simp only at h; cases h; simp [updValue])
          | float x0 y0 => (simp only at h; cases h; simp [updValue])
          | str s0 => (simp only at h; cases h; simp [updValue])
          | list l0 => (simp only at h; cases h; simp [updValue])
  | .int i, sm, d, d', k, _, hf, h => by
    cases hl : d.lookup k with
    | none => simp [alterD, hl] at h
    | some cur =>
      simp only [alterD, hl] at h
      simp only [flatD, hl] at hf
      cases sm with
      | gen => cases h; simp [updValue]
      | high m =>
        simp only at h hf
        cases hm : m.lookup k with
        | some sub => simp [hm] at h
        | none =>
          simp only [hm] at h hf
          cases cur with
          | obj ck => simp at hf
          | null => (simp only at h; cases h; simp [updValue])
          | bool b0 => (simp only at h; cases h; simp [updValue])
          | int i0 => (simp only at h; cases h; simp [updValue])
          | float x0 y0 => (simp only at h; cases h; simp [updValue])
          | str s0 => (simp only at h; cases h; simp [updValue])
          | list l0 => (simp only at h; cases h; simp [updValue])
  | .float x y, sm, d, d', k, _, hf, h => by
    cases hl : d.lookup k with
    | none => simp [alterD, hl] at h
    | some cur =>
      simp only [alterD, hl] at h
      simp only [flatD, hl] at hf
      cases sm with
      | gen => cases h; simp [updValue]
      | high m =>
        simp only at h hf
        cases hm : m.lookup k with
        | some sub => simp [hm] at h
        | none =>
          simp only [hm] at h hf
          cases cur with
          | obj ck => simp at hf
          | null => (simp only at h; cases h; simp [updValue])
          | bool b0 => (simp only at h; cases h; simp [updValue])
          | int i0 => (simp only at h; cases h; simp [updValue])
          | float x0 y0 => (simp only at h; cases h; simp [updValue])
          | str s0 => (simp only at h; cases h; simp [updValue])
          | list l0 => (simp only at h; cases h; simp [updValue])
  | .str x, sm, d, d', k, _, hf, h => by
    cases hl : d.lookup k with
    | none => simp [alterD, hl] at h
    | some cur =>
      simp only [alterD, hl] at h
      simp only [flatD, hl] at hf
      cases sm with
      | gen => cases h; simp [updValue]
      | high m =>
        simp only at h hf
        cases hm : m.lookup k with
        | some sub => simp [hm] at h
        | none =>
          simp only [hm] at h hf
          cases cur with
          | obj ck => simp at hf
          | null => (simp only at h; cases h; simp [updValue])
          | bool b0 => (simp only at h; cases h; simp [updValue])
          | int i0 => (simp only at h; cases h; simp [updValue])
          | float x0 y0 => (simp only at h; cases h; simp [updValue])
          | str s0 => (simp only at h; cases h; simp [updValue])
          | list l0 => (simp only at h; cases h; simp [updValue])
  | .list x, sm, d, d', k, _, hf, h => by
    cases hl : d.lookup k with
    | none => cases x <;> simp [alterD, hl] at h
    | some cur =>
      simp only [flatD, hl] at hf
      cases sm with
      | gen => cases x <;> (simp only [alterD, hl] at h; cases h; simp [updValue])
      | high m =>
        simp only at hf
        cases hm : m.lookup k with
        | some sub => cases x <;> simp [alterD, hl, hm] at h
        | none =>
          simp only [hm] at hf
          cases cur with
          | obj ck => simp at hf
          | null => (cases x <;> (simp only [alterD, hl, hm] at h; cases h; simp [updValue]))
          | bool b0 => (cases x <;> (simp only [alterD, hl, hm] at h; cases h; simp [updValue]))
          | int i0 => (cases x <;> (simp only [alterD, hl, hm] at h; cases h; simp [updValue]))
          | float x0 y0 => (cases x <;> (simp only [alterD, hl, hm] at h; cases h; simp [updValue]))
          | str s0 => (cases x <;> (simp only [alterD, hl, hm] at h; cases h; simp [updValue]))
          | list l0 => (cases x <;> (simp only [alterD, hl, hm] at h; cases h; simp [updValue]))
theorem alterAll_eq_upd : ∀ (u : KV) (sm : SM) (d r : KV), u.wf = true →
    flatAll sm d u = true → alterAllD sm d u = .ok r → r = updNested d u
  | .nil, _, d, r, _, _, h => by
    simp only [alterAllD] at h
    cases h
    simp [updNested]
  | .cons k v rest, sm, d, r, hwf, hf, h => by
    obtain ⟨hk, hvwf, hwfr⟩ := KV.wf_cons hwf
    simp only [flatAll, Bool.and_eq_true] at hf
    simp only [alterAllD] at h
    cases ha : alterD sm d k v with
    | error e => simp [ha] at h
    | ok d1 =>
      simp only [ha] at h
      have hd1 := alterD_eq_upd v sm d d1 k hvwf hf.1 ha
      have hflat : flatAll sm d1 rest = true := by
        rw [flatAll_congr rest (b := d)]
        · exact hf.2
        · intro k' hk'
          exact alterD_other ha (fun e => hk (e ▸ hk'))
      rw [alterAll_eq_upd rest sm d1 r hwfr hflat h, upd_cons, hd1]
end


/-! ### unpacking: set `i` receives the `i`-th value of every described leaf -/

/-- the dictionary `{k1: {k2: ... v}}` -/
def chain : Path → J → J
  | [], v => v
  | k :: p, v => .obj (.cons k (chain p v) .nil)

/-- the list-valued leaves of a (nested) description, in order, with their key paths -/
def listLeaves : KV → List (Path × JL)
  | .nil => []
  | .cons k v rest =>
    (match v with
      | .obj vk => (listLeaves vk).map (fun pl => (k :: pl.1, pl.2))
      | .list l => [([k], l)]
      | _ => []) ++ listLeaves rest

/-- `unpack_nested_parameter_variations(description, i)` is, leaf by leaf and in order, the chain
dictionary holding the `i`-th listed value -/
theorem unpackNested_spec (i : Nat) : ∀ (vk : KV) (l : List J), unpackNested i vk = .ok l →
    (listLeaves vk).map (fun pl => (pl.2.get? i).map (chain pl.1)) = l.map some
  | .nil, l, h => by
    simp only [unpackNested] at h
    cases h
    simp [listLeaves]
  | .cons k (.obj vk) rest, l, h => by
    simp only [unpackNested] at h
    cases hs : unpackNested i vk with
    | error e => simp [hs] at h
    | ok subs =>
      simp only [hs] at h
      cases ht : unpackNested i rest with
      | error e => simp [ht] at h
      | ok ts =>
        simp only [ht] at h
        cases h
        have ih1 := unpackNested_spec i vk subs hs
        have ih2 := unpackNested_spec i rest ts ht
        simp only [listLeaves, List.map_append, List.map_map, ih2]
        congr 1
        have : (List.map ((fun pl : Path × JL => (pl.2.get? i).map (chain pl.1)) ∘
            fun pl => (k :: pl.1, pl.2)) (listLeaves vk))
            = List.map (fun o : Option J => o.map (fun s => J.obj (.cons k s .nil)))
                (List.map (fun pl : Path × JL => (pl.2.get? i).map (chain pl.1)) (listLeaves vk)) := by
          simp only [List.map_map]
          apply List.map_congr_left
          intro pl _
          simp only [Function.comp, chain, Option.map_map]
          rfl
        rw [this, ih1]
        simp [List.map_map]
  | .cons k (.list ll) rest, l, h => by
    simp only [unpackNested] at h
    cases hg : ll.get? i with
    | none => simp [hg] at h
    | some x =>
      simp only [hg] at h
      cases ht : unpackNested i rest with
      | error e => simp [ht] at h
      | ok ts =>
        simp only [ht] at h
        cases h
        have ih2 := unpackNested_spec i rest ts ht
        simp [listLeaves, hg, chain, ih2]
  | .cons k .null rest, l, h => by
    simp only [unpackNested] at h
    simpa [listLeaves] using unpackNested_spec i rest l h
  | .cons k (.bool b) rest, l, h => by
    simp only [unpackNested] at h
    simpa [listLeaves] using unpackNested_spec i rest l h
  | .cons k (.int n) rest, l, h => by
    simp only [unpackNested] at h
    simpa [listLeaves] using unpackNested_spec i rest l h
  | .cons k (.float m e) rest, l, h => by
    simp only [unpackNested] at h
    simpa [listLeaves] using unpackNested_spec i rest l h
  | .cons k (.str s) rest, l, h => by
    simp only [unpackNested] at h
    simpa [listLeaves] using unpackNested_spec i rest l h

theorem unpackNested_length (i : Nat) (vk : KV) (l : List J) (h : unpackNested i vk = .ok l) :
    l.length = (listLeaves vk).length := by
  have := congrArg List.length (unpackNested_spec i vk l h)
  simpa using this.symm

theorem take_length_append {α} : ∀ (a b : List α), (a ++ b).take a.length = a
  | [], b => by simp
  | x :: a, b => by simp [take_length_append a b]

theorem drop_length_add_append {α} : ∀ (a b : List α) (m : Nat),
    (a ++ b).drop (a.length + m) = b.drop m
  | [], b, m => by simp
  | x :: a, b, m => by
    have : (x :: a).length + m = (a.length + m) + 1 := by simp; omega
    rw [this]
    simp [drop_length_add_append a b m]

/-- the concatenation built by `unpack_parameter_variations` consists of `cnt` blocks of equal
length `c`; block `j` is the unpacking for variation `s + j` -/
theorem unpackRange_blocks (vk : KV) : ∀ (cnt s : Nat) (L : List J),
    unpackRange vk cnt s = .ok L →
    L.length = cnt * (listLeaves vk).length ∧
    ∀ j, j < cnt → ∃ b, unpackNested (s + j) vk = .ok b ∧
      (L.drop (j * (listLeaves vk).length)).take (listLeaves vk).length = b
  | 0, s, L, h => by
    simp only [unpackRange] at h
    cases h
    exact ⟨by simp, fun j hj => absurd hj (Nat.not_lt_zero j)⟩
  | cnt + 1, s, L, h => by
    simp only [unpackRange] at h
    cases ha : unpackNested s vk with
    | error e => simp [ha] at h
    | ok a =>
      simp only [ha] at h
      cases hb : unpackRange vk cnt (s + 1) with
      | error e => simp [hb] at h
      | ok b =>
        simp only [hb] at h
        cases h
        obtain ⟨ihl, ihb⟩ := unpackRange_blocks vk cnt (s + 1) b hb
        have hal := unpackNested_length s vk a ha
        refine ⟨by simp [hal, ihl, Nat.add_mul, Nat.add_comm], ?_⟩
        intro j hj
        cases j with
        | zero =>
          refine ⟨a, by simpa using ha, ?_⟩
          simp only [Nat.zero_mul, List.drop_zero]
          rw [← hal]
          exact take_length_append a b
        | succ j =>
          obtain ⟨bj, hbj, hslice⟩ := ihb j (by omega)
          refine ⟨bj, by rw [← hbj]; congr 1; omega, ?_⟩
          have : (j + 1) * (listLeaves vk).length = a.length + j * (listLeaves vk).length := by
            rw [hal, Nat.add_mul]; omega
          rw [this, drop_length_add_append]
          exact hslice

theorem JL.toList_ofList : ∀ (l : List J), (JL.ofList l).toList = l
  | [] => rfl
  | x :: l => by simp [JL.ofList, JL.toList, JL.toList_ofList l]

theorem JL.length_eq_toList : ∀ (l : JL), l.length = l.toList.length
  | .nil => rfl
  | .cons _ t => by simp [JL.length, JL.toList, JL.length_eq_toList t]

/-- `slice_block`: the per-set slice taken by `vary_parameter_values` out of an unpacked nested
description is exactly the unpacking for that set — the index arithmetic is right -/
theorem slice_block (vk : KV) (n i : Nat) (L : List J) (h : unpackRange vk n 0 = .ok L)
    (hi : i < n) :
    ∃ b, unpackNested i vk = .ok b ∧ sliceFor n i (JL.ofList L) = b := by
  obtain ⟨hlen, hblocks⟩ := unpackRange_blocks vk n 0 L h
  obtain ⟨b, hb, hslice⟩ := hblocks i hi
  refine ⟨b, by simpa using hb, ?_⟩
  have hn : 0 < n := by omega
  have hu : (JL.ofList L).length / n = (listLeaves vk).length := by
    rw [JL.length_eq_toList, JL.toList_ofList, hlen, Nat.mul_comm, Nat.mul_div_cancel _ hn]
  simp only [sliceFor, hu, JL.toList_ofList]
  exact hslice

theorem JL.drop_take_one : ∀ (l : JL) (i : Nat),
    (l.toList.drop i).take 1 = (match l.get? i with | some x => [x] | none => [])
  | .nil, i => by simp [JL.toList, JL.get?]
  | .cons h t, 0 => by simp [JL.toList, JL.get?]
  | .cons h t, i + 1 => by
    simp only [JL.toList, List.drop_succ_cons, JL.get?]
    exact JL.drop_take_one t i

/-- a directly listed parameter (`key: [v0, ..., v(n-1)]`): set `i` gets exactly `v_i` -/
theorem slice_direct (n i : Nat) (l : JL) (hlen : l.length = n) (hi : i < n) :
    sliceFor n i l = (match l.get? i with | some x => [x] | none => []) := by
  have hn : 0 < n := by omega
  have hu : l.length / n = 1 := by rw [hlen, Nat.div_self hn]
  simp only [sliceFor, hu, Nat.mul_one]
  exact JL.drop_take_one l i


/-! ### a whole set: the alterations of one key, then of all keys -/

theorem dodB_lookup {cur : KV} : ∀ (u : KV) (k : String) (vk : KV), dodB cur u = true →
    u.lookup k = some (.obj vk) → ∃ ck, cur.lookup k = some (.obj ck) ∧ dodB ck vk = true
  | .nil, _, _, _, hl => by simp [KV.lookup] at hl
  | .cons k0 (.obj vk0) rest, k, vk, h, hl => by
    simp only [dodB, Bool.and_eq_true] at h
    by_cases hk : k0 = k
    · subst hk
      simp only [KV.lookup, if_true] at hl
      cases hl
      cases hc : cur.lookup k0 with
      | none => simp [hc] at h
      | some cv =>
        cases cv with
        | obj ck => exact ⟨ck, rfl, by simpa [hc] using h.1⟩
        | _ => simp [hc] at h
    · simp only [KV.lookup, hk, if_false] at hl
      exact dodB_lookup rest k vk h.2 hl
  | .cons k0 .null rest, k, vk, h, hl => by
    simp only [dodB] at h
    by_cases hk : k0 = k
    · simp [KV.lookup, hk] at hl
    · simp only [KV.lookup, hk, if_false] at hl
      exact dodB_lookup rest k vk h hl
  | .cons k0 (.bool _) rest, k, vk, h, hl => by
    simp only [dodB] at h
    by_cases hk : k0 = k
    · simp [KV.lookup, hk] at hl
    · simp only [KV.lookup, hk, if_false] at hl
      exact dodB_lookup rest k vk h hl
  | .cons k0 (.int _) rest, k, vk, h, hl => by
    simp only [dodB] at h
    by_cases hk : k0 = k
    · simp [KV.lookup, hk] at hl
    · simp only [KV.lookup, hk, if_false] at hl
      exact dodB_lookup rest k vk h hl
  | .cons k0 (.float _ _) rest, k, vk, h, hl => by
    simp only [dodB] at h
    by_cases hk : k0 = k
    · simp [KV.lookup, hk] at hl
    · simp only [KV.lookup, hk, if_false] at hl
      exact dodB_lookup rest k vk h hl
  | .cons k0 (.str _) rest, k, vk, h, hl => by
    simp only [dodB] at h
    by_cases hk : k0 = k
    · simp [KV.lookup, hk] at hl
    · simp only [KV.lookup, hk, if_false] at hl
      exact dodB_lookup rest k vk h hl
  | .cons k0 (.list _) rest, k, vk, h, hl => by
    simp only [dodB] at h
    by_cases hk : k0 = k
    · simp [KV.lookup, hk] at hl
    · simp only [KV.lookup, hk, if_false] at hl
      exact dodB_lookup rest k vk h hl

theorem dodB_sound : ∀ (q : Path) (cur u uk : KV), dodB cur u = true → q ≠ [] →
    get? q (.obj u) = some (.obj uk) → ∃ ck, get? q (.obj cur) = some (.obj ck)
  | [], _, _, _, _, hq, _ => absurd rfl hq
  | k :: q', cur, u, uk, h, _, hg => by
    simp only [get?] at hg
    cases hl : u.lookup k with
    | none => simp [hl] at hg
    | some v0 =>
      simp only [hl] at hg
      cases v0 with
      | obj vk =>
        obtain ⟨ck, hck, hd⟩ := dodB_lookup u k vk h hl
        cases q' with
        | nil => exact ⟨ck, by simp [get?, hck]⟩
        | cons k1 q1 =>
          obtain ⟨ck2, hck2⟩ := dodB_sound (k1 :: q1) ck vk uk hd (by simp) hg
          exact ⟨ck2, by simpa [get?, hck] using hck2⟩
      | _ =>
        cases q' with
        | nil => rw [get?_nil] at hg; cases hg
        | cons k1 q1 => simp [get?] at hg

theorem dod_of_dodB {cur u : KV} (h : dodB cur u = true) : DictOnDict cur u :=
  fun q uk hq hg => dodB_sound q cur u uk h hq hg

theorem single_wf {k : String} {x : J} (h : x.wf = true) : (single k x).wf = true := by
  simp [single, KV.wf, KV.has, KV.lookup, h]

theorem upd_single (d : KV) (k : String) (x : J) :
    updNested d (single k x) = d.setKey k (updValue d k x) := by
  simp [single, upd_cons, updNested]

theorem alterSeq_frame {sm : SM} {k : String} : ∀ (xs : List J) (d d' : KV) (p : Path) (v : J),
    seqOK sm k d xs = true → alterSeq sm d k xs = .ok d' →
    (∀ x, x ∈ xs → touched (.obj (single k x)) p = false) →
    get? p (.obj d) = some v → v.isObj = false → get? p (.obj d') = some v
  | [], d, d', _, _, _, h, _, hg, _ => by
    simp only [alterSeq] at h
    cases h; exact hg
  | x :: xs, d, d', p, v, hok, h, ht, hg, hv => by
    simp only [alterSeq] at h
    cases ha : alterD sm d k x with
    | error e => simp [ha] at h
    | ok d1 =>
      simp only [ha] at h
      simp only [seqOK, ha, Bool.and_eq_true] at hok
      obtain ⟨⟨⟨hxwf, hflat⟩, hdod⟩, hrest⟩ := hok
      have hd1 : d1 = updNested d (single k x) := by
        rw [upd_single]
        exact alterD_eq_upd x sm d d1 k hxwf hflat ha
      have hstep : get? p (.obj d1) = some v := by
        rw [hd1]
        exact upd_frame p (single k x) d v (single_wf hxwf) (dod_of_dodB hdod)
          (ht x (by simp)) hg hv
      exact alterSeq_frame xs d1 d' p v hrest h (fun y hy => ht y (by simp [hy])) hstep hv

theorem alterSeq_append {sm : SM} {k : String} : ∀ (xs ys : List J) (d d' : KV),
    alterSeq sm d k (xs ++ ys) = .ok d' →
    ∃ d1, alterSeq sm d k xs = .ok d1 ∧ alterSeq sm d1 k ys = .ok d'
  | [], ys, d, d', h => ⟨d, by simp [alterSeq], by simpa using h⟩
  | x :: xs, ys, d, d', h => by
    simp only [List.cons_append, alterSeq] at h
    cases ha : alterD sm d k x with
    | error e => simp [ha] at h
    | ok d1 =>
      simp only [ha] at h
      obtain ⟨d2, h1, h2⟩ := alterSeq_append xs ys d1 d' h
      exact ⟨d2, by simp [alterSeq, ha, h1], h2⟩

theorem seqOK_append {sm : SM} {k : String} : ∀ (xs ys : List J) (d d1 : KV),
    seqOK sm k d (xs ++ ys) = true → alterSeq sm d k xs = .ok d1 → seqOK sm k d1 ys = true
  | [], ys, d, d1, h, ha => by
    simp only [alterSeq] at ha
    cases ha
    simpa using h
  | x :: xs, ys, d, d1, h, ha => by
    simp only [alterSeq] at ha
    cases hx : alterD sm d k x with
    | error e => simp [hx] at ha
    | ok d2 =>
      simp only [hx] at ha
      simp only [List.cons_append, seqOK, hx, Bool.and_eq_true] at h
      exact seqOK_append xs ys d2 d1 h.2 ha

/-- `varied` for one key: the last alteration that reaches a path decides its value -/
theorem alterSeq_varied {sm : SM} {k : String} (pre post : List J) (x : J) (d d' : KV)
    (p : Path) (v : J) (hok : seqOK sm k d (pre ++ x :: post) = true)
    (h : alterSeq sm d k (pre ++ x :: post) = .ok d')
    (htx : touched (.obj (single k x)) p = true)
    (hpost : ∀ y, y ∈ post → touched (.obj (single k y)) p = false)
    (hg : get? p (.obj (single k x)) = some v) (hv : v.isObj = false) :
    get? p (.obj d') = some v := by
  obtain ⟨d1, h1, h2⟩ := alterSeq_append pre (x :: post) d d' h
  have hok2 := seqOK_append pre (x :: post) d d1 hok h1
  simp only [alterSeq] at h2
  cases ha : alterD sm d1 k x with
  | error e => simp [ha] at h2
  | ok d2 =>
    simp only [ha] at h2
    simp only [seqOK, ha, Bool.and_eq_true] at hok2
    obtain ⟨⟨⟨hxwf, hflat⟩, _⟩, hrest⟩ := hok2
    have hd2 : d2 = updNested d1 (single k x) := by
      rw [upd_single]
      exact alterD_eq_upd x sm d1 d2 k hxwf hflat ha
    have hstep : get? p (.obj d2) = some v := by
      rw [hd2, upd_touched p (single k x) d1 (single_wf hxwf) htx, hg]
    exact alterSeq_frame post d2 d' p v hrest h2 hpost hstep hv


theorem touched_single {k : String} {x : J} : ∀ (p : Path),
    touched (.obj (single k x)) p = true → ∃ q, p = k :: q
  | [], h => by simp [touched] at h
  | k' :: q, h => by
    by_cases hk : k = k'
    · exact ⟨q, by rw [hk]⟩
    · simp [touched, single, KV.lookup, hk] at h

/-- `frame` for a whole set: a leaf that none of the applied variations reaches keeps its value -/
theorem alterVariations_frame {sm : SM} {n i : Nat} : ∀ (vars d d' : KV) (p : Path) (v : J),
    vars.wf = true → varsOK sm n i d vars = true → alterVariations sm n i d vars = .ok d' →
    (∀ k l x, vars.lookup k = some (.list l) → x ∈ sliceFor n i l →
        touched (.obj (single k x)) p = false) →
    get? p (.obj d) = some v → v.isObj = false → get? p (.obj d') = some v
  | .nil, d, d', _, _, _, _, h, _, hg, _ => by
    simp only [alterVariations] at h
    cases h; exact hg
  | .cons k val rest, d, d', p, v, hwf, hok, h, ht, hg, hv => by
    obtain ⟨hk, _, hwfr⟩ := KV.wf_cons hwf
    cases val with
    | list l =>
      simp only [alterVariations] at h
      cases hs : alterSeq sm d k (sliceFor n i l) with
      | error e => simp [hs] at h
      | ok d1 =>
        simp only [hs] at h
        simp only [varsOK, hs, Bool.and_eq_true] at hok
        have hstep := alterSeq_frame (sliceFor n i l) d d1 p v hok.1 hs
          (fun x hx => ht k l x (by simp [KV.lookup]) hx) hg hv
        apply alterVariations_frame rest d1 d' p v hwfr hok.2 h _ hstep hv
        intro k' l' x hl hx
        apply ht k' l' x _ hx
        have hne : ¬ k = k' := fun e => hk (e ▸ KV.mem_keys_of_lookup hl)
        simpa [KV.lookup, hne] using hl
    | _ => simp [alterVariations] at h

/-- `varied` for a whole set: the last applied variation that reaches a path decides its value -/
theorem alterVariations_varied {sm : SM} {n i : Nat} : ∀ (vars d d' : KV) (k : String) (l : JL)
    (pre post : List J) (x : J) (p : Path) (v : J),
    vars.wf = true → varsOK sm n i d vars = true → alterVariations sm n i d vars = .ok d' →
    vars.lookup k = some (.list l) → sliceFor n i l = pre ++ x :: post →
    touched (.obj (single k x)) p = true →
    (∀ y, y ∈ post → touched (.obj (single k y)) p = false) →
    get? p (.obj (single k x)) = some v → v.isObj = false → get? p (.obj d') = some v
  | .nil, _, _, _, _, _, _, _, _, _, _, _, _, hl, _, _, _, _, _ => by simp [KV.lookup] at hl
  | .cons k0 val rest, d, d', k, l, pre, post, x, p, v, hwf, hok, h, hl, hsl, htx, hpost, hg, hv => by
    obtain ⟨hk0, _, hwfr⟩ := KV.wf_cons hwf
    cases val with
    | list l0 =>
      simp only [alterVariations] at h
      cases hs : alterSeq sm d k0 (sliceFor n i l0) with
      | error e => simp [hs] at h
      | ok d1 =>
        simp only [hs] at h
        simp only [varsOK, hs, Bool.and_eq_true] at hok
        by_cases hk : k0 = k
        · subst hk
          simp only [KV.lookup, if_true] at hl
          cases hl
          rw [hsl] at hs hok
          have hstep := alterSeq_varied pre post x d d1 p v hok.1 hs htx hpost hg hv
          obtain ⟨q, hq⟩ := touched_single p htx
          apply alterVariations_frame rest d1 d' p v hwfr hok.2 h _ hstep hv
          intro k' l' y hl' _
          have hne : ¬ k' = k0 := fun e => hk0 (e ▸ KV.mem_keys_of_lookup hl')
          simp [hq, touched, single, KV.lookup, hne]
        · simp only [KV.lookup, hk, if_false] at hl
          exact alterVariations_varied rest d1 d' k l pre post x p v hwfr hok.2 h hl hsl htx
            hpost hg hv
    | _ => simp [alterVariations] at h

/-! ### names -/

theorem rename_inj {name : String} {i j : Nat} (h : rename name i = rename name j) : i = j := by
  simp only [rename, String.append_assoc] at h
  have h1 := (String.append_right_inj name).mp h
  have h2 := (String.append_right_inj "_").mp h1
  exact Nat.repr_injective h2

theorem KV.lookup_erase_ne {k k' : String} (h : k' ≠ k) : ∀ kvs : KV,
    (kvs.erase k).lookup k' = kvs.lookup k'
  | .nil => by simp [KV.erase]
  | .cons k0 v t => by
    by_cases h0 : k0 = k
    · subst h0
      simp [KV.erase, KV.lookup, Ne.symm h]
    · by_cases h1 : k0 = k'
      · subst h1
        simp [KV.erase, KV.lookup, h0]
      · simp [KV.erase, KV.lookup, h0, h1, KV.lookup_erase_ne h t]

theorem removeAll_other : ∀ (names : List String) (acc acc' : KV × SML) (k : String),
    removeAll names acc = .ok acc' → k ∉ names → acc'.1.lookup k = acc.1.lookup k
  | [], acc, acc', _, h, _ => by simp only [removeAll] at h; cases h; rfl
  | nm :: rest, acc, acc', k, h, hk => by
    simp only [List.mem_cons, not_or] at hk
    simp only [removeAll] at h
    split at h
    · rw [removeAll_other rest _ acc' k h hk.2]
      exact KV.lookup_erase_ne hk.1 acc.1
    · cases h


/-! ### structure of the produced sets -/

theorem varyVW_spec (maps : Maps) (base : PH) (n : Nat) (vars : KV) : ∀ (cnt off : Nat) (l : List PH),
    varyVW maps base n vars cnt off = .ok l →
    l.length = cnt ∧ ∀ j s, l[j]? = some s →
      ∃ vw', alterVariations (.high maps.vw) n (off + j) base.vw vars = .ok vw' ∧
        s = { base with vw := vw' }
  | 0, off, l, h => by
    simp only [varyVW] at h
    cases h
    exact ⟨rfl, by simp⟩
  | cnt + 1, off, l, h => by
    simp only [varyVW] at h
    cases ha : alterVariations (.high maps.vw) n off base.vw vars with
    | error e => simp [ha] at h
    | ok vw' =>
      simp only [ha] at h
      cases hr : varyVW maps base n vars cnt (off + 1) with
      | error e => simp [hr] at h
      | ok rest =>
        simp only [hr] at h
        cases h
        obtain ⟨hlen, hspec⟩ := varyVW_spec maps base n vars cnt (off + 1) rest hr
        refine ⟨by simp [hlen], ?_⟩
        intro j s hj
        cases j with
        | zero =>
          simp only [List.getElem?_cons_zero, Option.some.injEq] at hj
          exact ⟨vw', by simpa using ha, hj.symm⟩
        | succ j =>
          simp only [List.getElem?_cons_succ] at hj
          obtain ⟨vw2, h1, h2⟩ := hspec j s hj
          exact ⟨vw2, by rw [← h1]; congr 1; omega, h2⟩

theorem finishSets_spec : ∀ (l : List PH) (off : Nat) (r : List PH), finishSets l off = .ok r →
    r.length = l.length ∧ ∀ j s', r[j]? = some s' →
      ∃ s sim', l[j]? = some s ∧ alterSimInfo s.sim (off + j) = .ok sim' ∧
        s' = { s with sim := sim' }
  | [], off, r, h => by
    simp only [finishSets] at h
    cases h
    exact ⟨rfl, by simp⟩
  | p :: ps, off, r, h => by
    simp only [finishSets] at h
    cases ha : alterSimInfo p.sim off with
    | error e => simp [ha] at h
    | ok sim' =>
      simp only [ha] at h
      cases hr : finishSets ps (off + 1) with
      | error e => simp [hr] at h
      | ok rest =>
        simp only [hr] at h
        cases h
        obtain ⟨hlen, hspec⟩ := finishSets_spec ps (off + 1) rest hr
        refine ⟨by simp [hlen], ?_⟩
        intro j s' hj
        cases j with
        | zero =>
          simp only [List.getElem?_cons_zero, Option.some.injEq] at hj
          exact ⟨p, sim', by simp, by simpa using ha, hj.symm⟩
        | succ j =>
          simp only [List.getElem?_cons_succ] at hj
          obtain ⟨s, sim2, h1, h2, h3⟩ := hspec j s' hj
          exact ⟨s, sim2, by simpa using h1, by rw [← h2]; congr 1; omega, h3⟩

theorem alterSimInfo_spec {sim sim' : KV} {i : Nat} (h : alterSimInfo sim i = .ok sim') :
    ∃ v, sim.lookup "output_directory" = some v ∧
      sim'.lookup "output_directory" = some (.str (pyStr v ++ "/" ++ toString i)) ∧
      sim'.keys = sim.keys ∧
      ∀ k, k ≠ "output_directory" → sim'.lookup k = sim.lookup k := by
  simp only [alterSimInfo] at h
  cases hl : sim.lookup "output_directory" with
  | none => simp [hl] at h
  | some v =>
    simp only [hl] at h
    cases h
    exact ⟨v, rfl, KV.lookup_setKey_same _ _ _,
      KV.keys_setKey_of_mem _ _ _ (KV.mem_keys_of_lookup hl),
      fun k hk => KV.lookup_setKey_ne _ hk _⟩

/-- the copy made for set `i` at the methods level carries the name `<sens>_<i>` -/
theorem varyMethodsProgram_name {base : PH} {sens : String} {n i : Nat} {vars : KV}
    {nm : String} {p : J} {sm : SM}
    (h : varyMethodsProgram base sens n i vars = .ok (some (nm, p, sm))) : nm = rename sens i := by
  simp only [varyMethodsProgram] at h
  split at h
  · split at h
    · cases h
    · split at h
      · cases h
      · split at h
        · cases h
        · split at h
          · split at h
            · cases h
            · simp only [Except.ok.injEq, Option.some.injEq, Prod.mk.injEq] at h
              exact h.1.symm
          · cases h
  · cases h

theorem varyMethodsProgram_some {base : PH} {sens : String} {n i : Nat} {vars : KV}
    (hne : vars ≠ .nil) {r : Option (String × J × SM)}
    (h : varyMethodsProgram base sens n i vars = .ok r) : r.isSome = true := by
  cases vars with
  | nil => exact absurd rfl hne
  | cons k v t =>
    simp only [varyMethodsProgram] at h
    repeat' split at h
    all_goals (cases h <;> rfl)

/-- after the loop over the sets every set produced so far is still there under its own name -/
theorem varyMethodsOuter_present (base : PH) (sens : String) (n : Nat) (vars : KV)
    (hne : vars ≠ .nil) : ∀ (cnt off : Nat) (acc acc' : KV × SML),
    varyMethodsOuter base sens n vars cnt off acc = .ok acc' →
    (∀ i, off ≤ i → i < off + cnt → (acc'.1.lookup (rename sens i)).isSome = true) ∧
    (∀ k, (∀ i, off ≤ i → i < off + cnt → k ≠ rename sens i) → acc'.1.lookup k = acc.1.lookup k)
  | 0, off, acc, acc', h => by
    simp only [varyMethodsOuter] at h
    cases h
    exact ⟨fun i h1 h2 => by omega, fun _ _ => rfl⟩
  | cnt + 1, off, acc, acc', h => by
    simp only [varyMethodsOuter] at h
    cases hp : varyMethodsProgram base sens n off vars with
    | error e => simp [hp] at h
    | ok r =>
      have hsome := varyMethodsProgram_some hne hp
      cases r with
      | none => simp at hsome
      | some t =>
        obtain ⟨nm, p, sm⟩ := t
        have hnm := varyMethodsProgram_name hp
        subst hnm
        simp only [hp] at h
        obtain ⟨ih1, ih2⟩ := varyMethodsOuter_present base sens n vars hne cnt (off + 1) _ acc' h
        constructor
        · intro i h1 h2
          by_cases hi : i = off
          · subst hi
            rw [ih2 (rename sens i) (fun j hj1 _ e => by have := rename_inj e; omega)]
            simp [KV.lookup_setKey_same]
          · exact ih1 i (by omega) (by omega)
        · intro k hk
          rw [ih2 k (fun j hj1 hj2 => hk j (by omega) (by omega))]
          exact KV.lookup_setKey_ne _ (hk off (by omega) (by omega)) _


theorem finishMethods_spec {base : PH} {acc : KV × SML} {s : PH}
    (h : finishMethods base acc = .ok s) :
    s.vw = base.vw ∧ s.out = base.out ∧ s.sim = base.sim ∧ s.baseline = base.baseline ∧
    ∃ bp, base.programs.lookup base.baseline = some bp ∧
      s.programs.lookup base.baseline = some bp ∧
      ∀ k, k ∉ base.programs.keys → s.programs.lookup k = acc.1.lookup k := by
  simp only [finishMethods] at h
  cases hr : removeAll base.programs.keys acc with
  | error e => simp [hr] at h
  | ok acc' =>
    simp only [hr] at h
    cases hb : base.programs.lookup base.baseline with
    | none => simp [hb] at h
    | some bp =>
      cases hm : base.progMaps.lookup base.baseline with
      | none => simp [hb, hm] at h
      | some bm =>
        simp only [hb, hm] at h
        cases h
        refine ⟨rfl, rfl, rfl, rfl, bp, rfl, KV.lookup_setKey_same _ _ _, ?_⟩
        intro k hk
        have hne : k ≠ base.baseline := fun e => hk (e ▸ KV.mem_keys_of_lookup hb)
        simp only
        rw [KV.lookup_setKey_ne _ hne]
        exact removeAll_other base.programs.keys acc acc' k hr hk

theorem varyProgramsSet_spec {base : PH} {n : Nat} {vars : KV} {s : PH}
    (h : varyProgramsSet base n vars = .ok s) :
    s.vw = base.vw ∧ s.out = base.out ∧ s.sim = base.sim ∧ s.baseline = base.baseline := by
  simp only [varyProgramsSet] at h
  cases hb : base.programs.lookup base.baseline with
  | none => simp [hb] at h
  | some bp =>
    cases hm : base.progMaps.lookup base.baseline with
    | none => simp [hb, hm] at h
    | some bm =>
      simp only [hb, hm] at h
      split at h
      · cases h
      · cases h; exact ⟨rfl, rfl, rfl, rfl⟩

/-- programs / methods level: one set, finished by `alter_simulation_info(0)` -/
theorem vary_single {maps : Maps} {base : PH} {sens : Option String} {level : String} {n : Nat}
    {vars : KV} {sets : List PH} (hl : level = "programs" ∨ level = "methods")
    (h : vary maps base sens level n vars = .ok sets) :
    ∃ s0 sim', ((level = "programs" ∧ varyProgramsSet base n vars = .ok s0) ∨
                (level = "methods" ∧ varyMethodsSet base sens n vars = .ok s0)) ∧
      alterSimInfo s0.sim 0 = .ok sim' ∧ sets = [{ s0 with sim := sim' }] := by
  simp only [vary] at h
  cases hs : varySets maps base sens level n vars with
  | error e => simp [hs] at h
  | ok l =>
    simp only [hs] at h
    have hfin : ∀ s0, l = [s0] → ∃ sim', alterSimInfo s0.sim 0 = .ok sim' ∧
        sets = [{ s0 with sim := sim' }] := by
      intro s0 hl0
      subst hl0
      simp only [finishSets] at h
      cases ha : alterSimInfo s0.sim 0 with
      | error e => simp [ha] at h
      | ok sim' =>
        simp only [ha] at h
        cases h
        exact ⟨sim', rfl, rfl⟩
    rcases hl with rfl | rfl
    · have hne : ¬ ("programs" = "virtual_world") := by decide
      simp only [varySets, hne, if_false, if_true] at hs
      cases hp : varyProgramsSet base n vars with
      | error e => simp [hp] at hs
      | ok s0 =>
        simp only [hp] at hs
        cases hs
        obtain ⟨sim', h1, h2⟩ := hfin s0 rfl
        exact ⟨s0, sim', Or.inl ⟨rfl, rfl⟩, h1, h2⟩
    · have hne1 : ¬ ("methods" = "virtual_world") := by decide
      have hne2 : ¬ ("methods" = "programs") := by decide
      simp only [varySets, hne1, hne2, if_false, if_true] at hs
      cases hp : varyMethodsSet base sens n vars with
      | error e => simp [hp] at hs
      | ok s0 =>
        simp only [hp] at hs
        cases hs
        obtain ⟨sim', h1, h2⟩ := hfin s0 rfl
        exact ⟨s0, sim', Or.inr ⟨rfl, rfl⟩, h1, h2⟩

theorem varyMethodsSet_some {base : PH} {sens : String} {n : Nat} {vars : KV} {s : PH}
    (h : varyMethodsSet base (some sens) n vars = .ok s) :
    ∃ acc, varyMethodsOuter base sens n vars n 0 (base.programs, base.progMaps) = .ok acc ∧
      finishMethods base acc = .ok s := by
  simp only [varyMethodsSet] at h
  cases ho : varyMethodsOuter base sens n vars n 0 (base.programs, base.progMaps) with
  | error e => simp [ho] at h
  | ok acc =>
    simp only [ho] at h
    exact ⟨acc, rfl, h⟩


theorem varyProgram_name {base : PH} {n i : Nat} {pname : String} {pvars : J}
    {nm : String} {p : J} {sm : SM} (h : varyProgram base n i pname pvars = .ok (nm, p, sm)) :
    nm = rename pname i := by
  simp only [varyProgram] at h
  repeat' split at h
  all_goals first | (cases h; rfl) | cases h | (simp only [Except.ok.injEq, Prod.mk.injEq] at h; exact h.1.symm)

theorem varyProgramsInner_other (base : PH) (n i : Nat) (b : String) : ∀ (vars : KV) (acc acc' : KV × SML),
    varyProgramsInner base n i acc vars = .ok acc' →
    (∀ pname, pname ∈ vars.keys → rename pname i ≠ b) → acc'.1.lookup b = acc.1.lookup b
  | .nil, acc, acc', h, _ => by simp only [varyProgramsInner] at h; cases h; rfl
  | .cons pname pvars rest, acc, acc', h, hb => by
    simp only [varyProgramsInner] at h
    cases hp : varyProgram base n i pname pvars with
    | error e => simp [hp] at h
    | ok t =>
      obtain ⟨nm, p, sm⟩ := t
      have hnm := varyProgram_name hp
      subst hnm
      simp only [hp] at h
      rw [varyProgramsInner_other base n i b rest _ acc' h
        (fun q hq => hb q (by simp [KV.keys, hq]))]
      exact KV.lookup_setKey_ne _ (Ne.symm (hb pname (by simp [KV.keys]))) _

theorem varyProgramsOuter_other (base : PH) (n : Nat) (vars : KV) (b : String) :
    ∀ (cnt off : Nat) (acc acc' : KV × SML),
    varyProgramsOuter base n vars cnt off acc = .ok acc' →
    (∀ pname i, pname ∈ vars.keys → off ≤ i → i < off + cnt → rename pname i ≠ b) →
    acc'.1.lookup b = acc.1.lookup b
  | 0, off, acc, acc', h, _ => by simp only [varyProgramsOuter] at h; cases h; rfl
  | cnt + 1, off, acc, acc', h, hb => by
    simp only [varyProgramsOuter] at h
    cases hi : varyProgramsInner base n off acc vars with
    | error e => simp [hi] at h
    | ok acc1 =>
      simp only [hi] at h
      rw [varyProgramsOuter_other base n vars b cnt (off + 1) acc1 acc' h
        (fun q j hq h1 h2 => hb q j hq (by omega) (by omega))]
      exact varyProgramsInner_other base n off b vars acc acc1 hi
        (fun q hq => hb q off hq (Nat.le_refl _) (by omega))


/-! ### description → value: chains, prefix-free leaf paths -/

theorem touched_chain_prefix : ∀ (q' : Path) (v' : J) (q : Path),
    touched (chain q' v') q = true → q' <+: q
  | [], _, q, _ => List.nil_prefix
  | k' :: q'', v', [], h => by simp [chain, touched] at h
  | k' :: q'', v', k :: qs, h => by
    by_cases hk : k' = k
    · subst hk
      simp only [chain, touched, KV.lookup, if_true] at h
      have := touched_chain_prefix q'' v' qs h
      exact List.cons_prefix_cons.mpr ⟨rfl, this⟩
    · simp [chain, touched, KV.lookup, hk] at h

theorem touched_chain_self : ∀ (q : Path) (v : J), v.isObj = false → touched (chain q v) q = true
  | [], v, hv => touched_leaf hv []
  | k :: q, v, hv => by
    simp [chain, touched, KV.lookup, touched_chain_self q v hv]

theorem get?_chain : ∀ (q : Path) (v : J), get? q (chain q v) = some v
  | [], v => get?_nil v
  | k :: q, v => by simp [chain, get?, KV.lookup, get?_chain q v]

/-- neither path is a prefix of the other -/
def Incomparable (a b : Path) : Prop := ¬ a <+: b ∧ ¬ b <+: a

theorem listLeaves_cons (k : String) (v : J) (rest : KV) :
    listLeaves (.cons k v rest) =
      (match v with
        | .obj vk => (listLeaves vk).map (fun pl => (k :: pl.1, pl.2))
        | .list l => [([k], l)]
        | _ => []) ++ listLeaves rest := by
  cases v <;> simp [listLeaves]

theorem listLeaves_head : ∀ (vk : KV) (q : Path) (l : JL), (q, l) ∈ listLeaves vk →
    ∃ k q', q = k :: q' ∧ k ∈ vk.keys
  | .nil, _, _, h => by simp [listLeaves] at h
  | .cons k v rest, q, l, h => by
    rw [listLeaves_cons, List.mem_append] at h
    rcases h with h | h
    · cases v with
      | obj vk' =>
        simp only [List.mem_map, Prod.mk.injEq] at h
        obtain ⟨pl, _, hq, _⟩ := h
        exact ⟨k, pl.1, hq.symm, by simp [KV.keys]⟩
      | list ll =>
        simp only [List.mem_singleton, Prod.mk.injEq] at h
        exact ⟨k, [], h.1, by simp [KV.keys]⟩
      | _ => simp at h
    · obtain ⟨k', q', hq, hk'⟩ := listLeaves_head rest q l h
      exact ⟨k', q', hq, by simp [KV.keys, hk']⟩

/-- the described leaf paths of a well-formed description are pairwise incomparable -/
theorem listLeaves_prefixFree : ∀ (vk : KV), vk.wf = true →
    ((listLeaves vk).map Prod.fst).Pairwise Incomparable
  | .nil, _ => by simp [listLeaves]
  | .cons k v rest, hwf => by
    obtain ⟨hk, hvwf, hrwf⟩ := KV.wf_cons hwf
    rw [listLeaves_cons, List.map_append, List.pairwise_append]
    refine ⟨?_, listLeaves_prefixFree rest hrwf, ?_⟩
    · cases v with
      | obj vk' =>
        have ih := listLeaves_prefixFree vk' (by simpa [J.wf] using hvwf)
        simp only [List.map_map]
        have : (List.map (Prod.fst ∘ fun pl : Path × JL => (k :: pl.1, pl.2)) (listLeaves vk'))
            = List.map (fun q => k :: q) (List.map Prod.fst (listLeaves vk')) := by
          simp [List.map_map, Function.comp]
        rw [this, List.pairwise_map]
        apply List.Pairwise.imp _ ih
        intro a b hab
        exact ⟨fun h => hab.1 (List.cons_prefix_cons.mp h).2,
               fun h => hab.2 (List.cons_prefix_cons.mp h).2⟩
      | list ll => simp
      | _ => simp
    · intro a ha b hb
      simp only [List.mem_map] at ha hb
      obtain ⟨⟨qa, la⟩, hma, rfl⟩ := ha
      obtain ⟨⟨qb, lb⟩, hmb, rfl⟩ := hb
      obtain ⟨k', qb', hqb, hk'⟩ := listLeaves_head rest qb lb hmb
      have hqa : ∃ qa', qa = k :: qa' := by
        cases v with
        | obj vk' =>
          simp only [List.mem_map, Prod.mk.injEq] at hma
          obtain ⟨pl, _, hq, _⟩ := hma
          exact ⟨pl.1, hq.symm⟩
        | list ll =>
          simp only [List.mem_singleton, Prod.mk.injEq] at hma
          exact ⟨[], hma.1⟩
        | _ => simp at hma
      obtain ⟨qa', hqa⟩ := hqa
      have hne : k ≠ k' := fun e => hk (e ▸ hk')
      simp only [hqa, hqb]
      exact ⟨fun h => hne (List.cons_prefix_cons.mp h).1,
             fun h => hne (List.cons_prefix_cons.mp h).1.symm⟩

theorem map_some_split {α β} (f : α → Option β) : ∀ (l1 : List α) (e : α) (l2 : List α) (b : List β),
    (l1 ++ e :: l2).map f = b.map some →
    ∃ b1 x b2, b = b1 ++ x :: b2 ∧ f e = some x ∧ l2.map f = b2.map some
  | [], e, l2, b, h => by
    cases b with
    | nil => simp at h
    | cons x b2 =>
      simp only [List.nil_append, List.map_cons, List.cons.injEq] at h
      exact ⟨[], x, b2, rfl, h.1, h.2⟩
  | a :: l1, e, l2, b, h => by
    cases b with
    | nil => simp at h
    | cons y b' =>
      simp only [List.cons_append, List.map_cons, List.cons.injEq] at h
      obtain ⟨b1, x, b2, hb, hx, h2⟩ := map_some_split f l1 e l2 b' h.2
      exact ⟨y :: b1, x, b2, by simp [hb], hx, h2⟩

theorem unpack_lookup (n : Nat) : ∀ (desc vars : KV) (k : String) (vk : KV),
    unpack n desc = .ok vars → desc.lookup k = some (.obj vk) →
    ∃ L, unpackRange vk n 0 = .ok L ∧ vars.lookup k = some (.list (JL.ofList L))
  | .nil, _, _, _, _, hl => by simp [KV.lookup] at hl
  | .cons k0 (.obj vk0) rest, vars, k, vk, h, hl => by
    simp only [unpack] at h
    cases hr : unpackRange vk0 n 0 with
    | error e => simp [hr] at h
    | ok L =>
      simp only [hr] at h
      cases ht : unpack n rest with
      | error e => simp [ht] at h
      | ok t =>
        simp only [ht] at h
        cases h
        by_cases hk : k0 = k
        · subst hk
          simp only [KV.lookup, if_true] at hl
          cases hl
          exact ⟨L, hr, by simp [KV.lookup]⟩
        · simp only [KV.lookup, hk, if_false] at hl
          obtain ⟨L', h1, h2⟩ := unpack_lookup n rest t k vk ht hl
          exact ⟨L', h1, by simp [KV.lookup, hk, h2]⟩
  | .cons k0 (.list l0) rest, vars, k, vk, h, hl => by
    simp only [unpack] at h
    cases ht : unpack n rest with
    | error e => simp [ht] at h
    | ok t =>
      simp only [ht] at h
      cases h
      by_cases hk : k0 = k
      · simp [KV.lookup, hk] at hl
      · simp only [KV.lookup, hk, if_false] at hl
        obtain ⟨L', h1, h2⟩ := unpack_lookup n rest t k vk ht hl
        exact ⟨L', h1, by simp [KV.lookup, hk, h2]⟩
  | .cons k0 .null rest, vars, k, vk, h, hl => by
    simp only [unpack] at h
    cases ht : unpack n rest with
    | error e => simp [ht] at h
    | ok t =>
      simp only [ht] at h
      cases h
      by_cases hk : k0 = k
      · simp [KV.lookup, hk] at hl
      · simp only [KV.lookup, hk, if_false] at hl
        obtain ⟨L', h1, h2⟩ := unpack_lookup n rest t k vk ht hl
        exact ⟨L', h1, by simp [KV.lookup, hk, h2]⟩
  | .cons k0 (.bool _) rest, vars, k, vk, h, hl => by
    simp only [unpack] at h
    cases ht : unpack n rest with
    | error e => simp [ht] at h
    | ok t =>
      simp only [ht] at h
      cases h
      by_cases hk : k0 = k
      · simp [KV.lookup, hk] at hl
      · simp only [KV.lookup, hk, if_false] at hl
        obtain ⟨L', h1, h2⟩ := unpack_lookup n rest t k vk ht hl
        exact ⟨L', h1, by simp [KV.lookup, hk, h2]⟩
  | .cons k0 (.int _) rest, vars, k, vk, h, hl => by
    simp only [unpack] at h
    cases ht : unpack n rest with
    | error e => simp [ht] at h
    | ok t =>
      simp only [ht] at h
      cases h
      by_cases hk : k0 = k
      · simp [KV.lookup, hk] at hl
      · simp only [KV.lookup, hk, if_false] at hl
        obtain ⟨L', h1, h2⟩ := unpack_lookup n rest t k vk ht hl
        exact ⟨L', h1, by simp [KV.lookup, hk, h2]⟩
  | .cons k0 (.float _ _) rest, vars, k, vk, h, hl => by
    simp only [unpack] at h
    cases ht : unpack n rest with
    | error e => simp [ht] at h
    | ok t =>
      simp only [ht] at h
      cases h
      by_cases hk : k0 = k
      · simp [KV.lookup, hk] at hl
      · simp only [KV.lookup, hk, if_false] at hl
        obtain ⟨L', h1, h2⟩ := unpack_lookup n rest t k vk ht hl
        exact ⟨L', h1, by simp [KV.lookup, hk, h2]⟩
  | .cons k0 (.str _) rest, vars, k, vk, h, hl => by
    simp only [unpack] at h
    cases ht : unpack n rest with
    | error e => simp [ht] at h
    | ok t =>
      simp only [ht] at h
      cases h
      by_cases hk : k0 = k
      · simp [KV.lookup, hk] at hl
      · simp only [KV.lookup, hk, if_false] at hl
        obtain ⟨L', h1, h2⟩ := unpack_lookup n rest t k vk ht hl
        exact ⟨L', h1, by simp [KV.lookup, hk, h2]⟩


/-! ### programs level: the varied copies -/

theorem varyProgram_inv {base : PH} {n i : Nat} {pname : String} {pvars : J}
    {nm : String} {p : J} {sm : SM} (h : varyProgram base n i pname pvars = .ok (nm, p, sm)) :
    ∃ pk vk pk1 pk2, base.programs.lookup pname = some (.obj pk) ∧
      base.progMaps.lookup pname = some sm ∧ pvars = .obj vk ∧
      alterD sm pk "program_name" (.str (rename pname i)) = .ok pk1 ∧
      alterVariations sm n i pk1 vk = .ok pk2 ∧ nm = rename pname i ∧ p = .obj pk2 := by
  simp only [varyProgram] at h
  split at h
  · rename_i pk sm' hp hm
    split at h
    · cases h
    · rename_i pk1 h1
      split at h
      · rename_i vk
        split at h
        · rename_i pk2 h2
          simp only [Except.ok.injEq, Prod.mk.injEq] at h
          obtain ⟨rfl, rfl, rfl⟩ := h
          exact ⟨pk, vk, pk1, pk2, hp, hm, rfl, h1, h2, rfl, rfl⟩
        · cases h
      · cases h
  · cases h

theorem isSome_setKey {k k' : String} {v : J} {kvs : KV} (h : (kvs.lookup k').isSome = true) :
    ((kvs.setKey k v).lookup k').isSome = true := by
  by_cases e : k' = k
  · subst e; simp [KV.lookup_setKey_same]
  · rw [KV.lookup_setKey_ne v e]; exact h

theorem varyProgramsInner_present (base : PH) (n i : Nat) : ∀ (vars : KV) (acc acc' : KV × SML),
    varyProgramsInner base n i acc vars = .ok acc' →
    (∀ pname, pname ∈ vars.keys → (acc'.1.lookup (rename pname i)).isSome = true) ∧
    (∀ k, (acc.1.lookup k).isSome = true → (acc'.1.lookup k).isSome = true)
  | .nil, acc, acc', h => by
    simp only [varyProgramsInner] at h
    cases h
    exact ⟨by simp [KV.keys], fun _ hk => hk⟩
  | .cons pname pvars rest, acc, acc', h => by
    simp only [varyProgramsInner] at h
    cases hp : varyProgram base n i pname pvars with
    | error e => simp [hp] at h
    | ok t =>
      obtain ⟨nm, p, sm⟩ := t
      have hnm := varyProgram_name hp
      subst hnm
      simp only [hp] at h
      obtain ⟨ih1, ih2⟩ := varyProgramsInner_present base n i rest _ acc' h
      constructor
      · intro q hq
        simp only [KV.keys, List.mem_cons] at hq
        rcases hq with rfl | hq
        · exact ih2 _ (by simp [KV.lookup_setKey_same])
        · exact ih1 q hq
      · intro k hk
        exact ih2 k (isSome_setKey hk)

theorem varyProgramsOuter_present (base : PH) (n : Nat) (vars : KV) :
    ∀ (cnt off : Nat) (acc acc' : KV × SML),
    varyProgramsOuter base n vars cnt off acc = .ok acc' →
    (∀ pname i, pname ∈ vars.keys → off ≤ i → i < off + cnt →
        (acc'.1.lookup (rename pname i)).isSome = true) ∧
    (∀ k, (acc.1.lookup k).isSome = true → (acc'.1.lookup k).isSome = true)
  | 0, off, acc, acc', h => by
    simp only [varyProgramsOuter] at h
    cases h
    exact ⟨fun _ i _ h1 h2 => by omega, fun _ hk => hk⟩
  | cnt + 1, off, acc, acc', h => by
    simp only [varyProgramsOuter] at h
    cases hi : varyProgramsInner base n off acc vars with
    | error e => simp [hi] at h
    | ok acc1 =>
      simp only [hi] at h
      obtain ⟨in1, in2⟩ := varyProgramsInner_present base n off vars acc acc1 hi
      obtain ⟨ih1, ih2⟩ := varyProgramsOuter_present base n vars cnt (off + 1) acc1 acc' h
      constructor
      · intro q i hq h1 h2
        by_cases e : i = off
        · subst e; exact ih2 _ (in1 q hq)
        · exact ih1 q i hq (by omega) (by omega)
      · intro k hk
        exact ih2 k (in2 k hk)

/-- what one loop iteration stores under the name of the copy it makes (no other varied program of
this iteration gets the same name) -/
theorem varyProgramsInner_lookup (base : PH) (n i : Nat) : ∀ (vars : KV) (acc acc' : KV × SML)
    (pname : String) (pvars : J), vars.wf = true →
    varyProgramsInner base n i acc vars = .ok acc' → vars.lookup pname = some pvars →
    (∀ q, q ∈ vars.keys → q ≠ pname → rename q i ≠ rename pname i) →
    ∃ p sm, varyProgram base n i pname pvars = .ok (rename pname i, p, sm) ∧
      acc'.1.lookup (rename pname i) = some p
  | .nil, _, _, _, _, _, _, hl, _ => by simp [KV.lookup] at hl
  | .cons q0 v0 rest, acc, acc', pname, pvars, hwf, h, hl, hnc => by
    obtain ⟨hq0, _, hwfr⟩ := KV.wf_cons hwf
    simp only [varyProgramsInner] at h
    cases hp : varyProgram base n i q0 v0 with
    | error e => simp [hp] at h
    | ok t =>
      obtain ⟨nm, p, sm⟩ := t
      have hnm := varyProgram_name hp
      subst hnm
      simp only [hp] at h
      by_cases hk : q0 = pname
      · subst hk
        simp only [KV.lookup, if_true] at hl
        cases hl
        refine ⟨p, sm, hp, ?_⟩
        rw [varyProgramsInner_other base n i (rename q0 i) rest _ acc' h
          (fun q hq => hnc q (by simp [KV.keys, hq]) (fun e => hq0 (e ▸ hq)))]
        exact KV.lookup_setKey_same _ _ _
      · simp only [KV.lookup, hk, if_false] at hl
        exact varyProgramsInner_lookup base n i rest _ acc' pname pvars hwfr h hl
          (fun q hq hne => hnc q (by simp [KV.keys, hq]) hne)

theorem varyProgramsOuter_lookup (base : PH) (n : Nat) (vars : KV) (pname : String) (pvars : J)
    (i : Nat) (hwf : vars.wf = true) (hl : vars.lookup pname = some pvars)
    (hnc : ∀ q j, q ∈ vars.keys → (q ≠ pname ∨ j ≠ i) → rename q j ≠ rename pname i) :
    ∀ (cnt off : Nat) (acc acc' : KV × SML),
    varyProgramsOuter base n vars cnt off acc = .ok acc' → off ≤ i → i < off + cnt →
    ∃ p sm, varyProgram base n i pname pvars = .ok (rename pname i, p, sm) ∧
      acc'.1.lookup (rename pname i) = some p
  | 0, off, _, _, _, h1, h2 => by omega
  | cnt + 1, off, acc, acc', h, h1, h2 => by
    simp only [varyProgramsOuter] at h
    cases hi : varyProgramsInner base n off acc vars with
    | error e => simp [hi] at h
    | ok acc1 =>
      simp only [hi] at h
      by_cases e : i = off
      · subst e
        obtain ⟨p, sm, hp, hlk⟩ := varyProgramsInner_lookup base n i vars acc acc1 pname pvars hwf hi hl
          (fun q hq hne => hnc q i hq (Or.inl hne))
        refine ⟨p, sm, hp, ?_⟩
        rw [varyProgramsOuter_other base n vars (rename pname i) cnt (i + 1) acc1 acc' h
          (fun q j hq hj1 _ => hnc q j hq (Or.inr (by omega)))]
        exact hlk
      · exact varyProgramsOuter_lookup base n vars pname pvars i hwf hl hnc cnt (off + 1) acc1 acc' h
          (by omega) (by omega)

/-! ### methods level: the varied method -/

theorem varyMethod_inv {n i : Nat} {ms ms2 : KV} {mm mm1 : SML} {labels labels1 : List J}
    {mname : String} {mvars : J}
    (h : varyMethod n i ms mm labels mname mvars = .ok (ms2, mm1, labels1)) :
    ∃ target vk ls ad, ms.lookup mname = some target ∧ mvars = .obj vk ∧
      removeFirst (.str mname) labels = some ls ∧ labels1 = ls ++ [J.str (rename mname i)] ∧
      buildAlter n i .nil vk = .ok ad ∧
      alterD (.high mm1) ((ms.erase mname).setKey (rename mname i) target) (rename mname i)
        (.obj (ad.setKey "method_name" (.str (rename mname i)))) = .ok ms2 := by
  simp only [varyMethod] at h
  split at h
  · cases h
  · rename_i target ht
    split at h
    · cases h
    · rename_i ls hls
      split at h
      · rename_i vk
        split at h
        · cases h
        · rename_i ad had
          split at h
          · rename_i ms2' halt
            simp only [Except.ok.injEq, Prod.mk.injEq] at h
            obtain ⟨rfl, rfl, rfl⟩ := h
            exact ⟨target, vk, ls, ad, ht, rfl, hls, rfl, had, halt⟩
          · cases h
      · cases h


/-! ### set independence: set `i` is computed from the base and its own slices only -/

/-- what set `i` applies: for every described key, in order, the slice of its value list -/
def slicesOf (n i : Nat) : KV → Option (List (String × List J))
  | .nil => some []
  | .cons k (.list l) rest => (slicesOf n i rest).map (fun t => (k, sliceFor n i l) :: t)
  | .cons _ _ _ => none

/-- apply the slices to a dictionary (no other input, no state from other sets) -/
def applySlices (sm : SM) : KV → List (String × List J) → Except Rej KV
  | d, [] => .ok d
  | d, (k, xs) :: rest =>
    match alterSeq sm d k xs with
    | .ok d' => applySlices sm d' rest
    | .error e => .error e

theorem alterVariations_eq_applySlices (sm : SM) (n i : Nat) : ∀ (vars d : KV) (sl : List (String × List J)),
    slicesOf n i vars = some sl → alterVariations sm n i d vars = applySlices sm d sl
  | .nil, d, sl, h => by
    simp only [slicesOf, Option.some.injEq] at h
    subst h
    simp [alterVariations, applySlices]
  | .cons k (.list l) rest, d, sl, h => by
    simp only [slicesOf] at h
    cases hr : slicesOf n i rest with
    | none => simp [hr] at h
    | some t =>
      simp only [hr, Option.map_some, Option.some.injEq] at h
      subst h
      simp only [alterVariations, applySlices]
      cases alterSeq sm d k (sliceFor n i l) with
      | error e => rfl
      | ok d' => exact alterVariations_eq_applySlices sm n i rest d' t hr
  | .cons k .null rest, _, _, h => by simp [slicesOf] at h
  | .cons k (.bool _) rest, _, _, h => by simp [slicesOf] at h
  | .cons k (.int _) rest, _, _, h => by simp [slicesOf] at h
  | .cons k (.float _ _) rest, _, _, h => by simp [slicesOf] at h
  | .cons k (.str _) rest, _, _, h => by simp [slicesOf] at h
  | .cons k (.obj _) rest, _, _, h => by simp [slicesOf] at h

end LdarModel.Holder
