import LdarModel.Generated.EmissionSrc
open LdarModel.Emission (Status By)
open LdarModel.EmissionSrc
namespace LdarModel.EmissionSrcDrv

def pInt (s : String) : Int := s.toInt?.getD 0
def pNat (s : String) : Nat := s.toNat?.getD 0
def pBool (s : String) : Bool := s == "1"
def pOptInt (s : String) : Option Int := if s == "-" then none else s.toInt?
def pOptNat (s : String) : Option Nat := if s == "-" then none else s.toNat?
def sBool (b : Bool) : String := if b then "1" else "0"
def sOptInt : Option Int → String | none => "-" | some i => toString i
def sOptNat : Option Nat → String | none => "-" | some i => toString i
def pMap (s : String) : List (Int × Int) :=
  if s == "_" then [] else (s.splitOn ",").filterMap (fun kv => match kv.splitOn ":" with
    | [k, v] => some (pInt k, pInt v) | _ => none)
def mapFn (l : List (Int × Int)) : Int → Int := fun k => (l.lookup k).getD 0
def sMap (f : Int → Int) (l : List (Int × Int)) : String :=
  if l.isEmpty then "_" else String.intercalate "," (l.map (fun kv => s!"{kv.1}:{f kv.1}"))

def pStatus (s : String) : Status :=
  if s == "active" then Status.active else
  if s == "inactive" then Status.inactive else
  if s == "repaired" then Status.repaired else
  if s == "expired" then Status.expired else
  Status.active
def sStatus : Status → String
  | .active => "active"
  | .inactive => "inactive"
  | .repaired => "repaired"
  | .expired => "expired"

def pBy (s : String) : By :=
  if s == "natural" then By.natural else
  if s == "expire" then By.expire else
  if s == "none" then By.none else
  By.company (pNat (s.drop 7).toString)
def sBy : By → String
  | .natural => "natural"
  | .expire => "expire"
  | .none => "none"
  | .company n => s!"company{n}"

def parseObj (a : Array String) : Obj :=
  { rate := pInt a[0]!, start_date := pInt a[1]!, repairable := pBool a[2]!, estimated_date_began := pOptInt a[3]!, estimated_days_active := pInt a[4]!, active_days := pInt a[5]!, measured_rate := pOptInt a[6]!, init_detect_by := pOptNat a[7]!, init_detect_date := pOptInt a[8]!, status := pStatus a[9]!, tagged := pBool a[10]!, days_since_tagged := pInt a[11]!, tagged_by_company := pBy a[12]!, tagged_by_crew := pOptNat a[13]!, repair_delay := pInt a[14]!, tagging_rep_delay := pInt a[15]!, nrd := pInt a[16]!, repair_date := pOptInt a[17]!, days_active_b4_sim := pInt a[18]!, record := pBool a[19]!, recorded_by_company := pBy a[20]!, recorded_by_crew := pOptNat a[21]!, expiry_date := pOptInt a[22]!, duration := pInt a[23]!, estimated_days_active_after_detection := pInt a[24]!, active_duration := pInt a[25]!, inactive_duration := pInt a[26]!, days_emitting := pInt a[27]!, non_emitting_period_day_count := pInt a[28]!, emitting_period_day_count := pInt a[29]!, emitting := pBool a[30]!, info_leaks_repaired := pInt a[31]!, info_repair_cost := pInt a[32]!, info_leaks_nat_repaired := pInt a[33]!, info_nat_repair_cost := pInt a[34]!, info_emis_expired := pInt a[35]!, env_repair_cost := pInt a[36]!, env_average := pInt a[37]!, env_kg_per_day := pInt a[38]! }
def showObj (o : Obj) (a : Array String) : String :=
  String.intercalate " " [toString o.rate, toString o.start_date, sBool o.repairable, sOptInt o.estimated_date_began, toString o.estimated_days_active, toString o.active_days, sOptInt o.measured_rate, sOptNat o.init_detect_by, sOptInt o.init_detect_date, sStatus o.status, sBool o.tagged, toString o.days_since_tagged, sBy o.tagged_by_company, sOptNat o.tagged_by_crew, toString o.repair_delay, toString o.tagging_rep_delay, toString o.nrd, sOptInt o.repair_date, toString o.days_active_b4_sim, sBool o.record, sBy o.recorded_by_company, sOptNat o.recorded_by_crew, sOptInt o.expiry_date, toString o.duration, toString o.estimated_days_active_after_detection, toString o.active_duration, toString o.inactive_duration, toString o.days_emitting, toString o.non_emitting_period_day_count, toString o.emitting_period_day_count, sBool o.emitting, toString o.info_leaks_repaired, toString o.info_repair_cost, toString o.info_leaks_nat_repaired, toString o.info_nat_repair_cost, toString o.info_emis_expired, toString o.env_repair_cost, toString o.env_average, toString o.env_kg_per_day]

def call (name : String) (o : Obj) (a : Array String) : String :=
  if name == "RE.update" then let r := RepairableEmission__RepairableEmission__update o ; showObj r.1 a ++ " | " ++ sBool r.2 else
  if name == "RE.activate" then let r := RepairableEmission__RepairableEmission__activate o (pInt a[39]!); showObj r.1 a ++ " | " ++ sBool r.2 else
  if name == "RE.update_detection_records" then let r := RepairableEmission__Emission__update_detection_records o (pNat a[39]!) (pInt a[40]!); showObj r.1 a ++ " | " ++ "()" else
  if name == "RE.is_emitting" then let r := RepairableEmission__Emission__is_emitting o ; showObj r.1 a ++ " | " ++ sBool r.2 else
  if name == "RE.get_days_emitting" then let r := RepairableEmission__Emission__get_days_emitting o ; showObj r.1 a ++ " | " ++ toString r.2 else
  if name == "RE.calc_true_emis_vol" then let r := RepairableEmission__Emission__calc_true_emis_vol o ; showObj r.1 a ++ " | " ++ toString r.2 else
  if name == "RE.tag_leak" then let r := RepairableEmission__RepairableEmission__tag_leak o (pInt a[39]!) (pInt a[40]!) (pInt a[41]!) (pNat a[42]!) (pNat a[43]!) (pInt a[44]!); showObj r.1 a ++ " | " ++ sBool r.2 else
  if name == "RE.calc_mitigated" then let r := RepairableEmission__RepairableEmission__calc_mitigated o (pInt a[39]!); showObj r.1 a ++ " | " ++ toString r.2 else
  if name == "RE.calc_theory_date" then let r := RepairableEmission__RepairableEmission__calc_theory_date o ; showObj r.1 a ++ " | " ++ toString r.2 else
  if name == "RE.tagged_today" then let r := RepairableEmission__RepairableEmission__tagged_today o ; showObj r.1 a ++ " | " ++ sBool r.2 else
  if name == "RE.check_if_repaired" then let r := RepairableEmission__RepairableEmission__check_if_repaired o ; showObj r.1 a ++ " | " ++ sBool r.2 else
  if name == "RE.natural_repair" then let r := RepairableEmission__RepairableEmission__natural_repair o ; showObj r.1 a ++ " | " ++ "()" else
  if name == "NRE.update" then let r := NonRepairableEmission__NonRepairableEmission__update o ; showObj r.1 a ++ " | " ++ sBool r.2 else
  if name == "NRE.activate" then let r := NonRepairableEmission__NonRepairableEmission__activate o (pInt a[39]!); showObj r.1 a ++ " | " ++ sBool r.2 else
  if name == "NRE.update_detection_records" then let r := NonRepairableEmission__Emission__update_detection_records o (pNat a[39]!) (pInt a[40]!); showObj r.1 a ++ " | " ++ "()" else
  if name == "NRE.is_emitting" then let r := NonRepairableEmission__Emission__is_emitting o ; showObj r.1 a ++ " | " ++ sBool r.2 else
  if name == "NRE.get_days_emitting" then let r := NonRepairableEmission__Emission__get_days_emitting o ; showObj r.1 a ++ " | " ++ toString r.2 else
  if name == "NRE.calc_true_emis_vol" then let r := NonRepairableEmission__Emission__calc_true_emis_vol o ; showObj r.1 a ++ " | " ++ toString r.2 else
  if name == "NRE.record_emission" then let r := NonRepairableEmission__NonRepairableEmission__record_emission o (pInt a[39]!) (pInt a[40]!) (pInt a[41]!) (pNat a[42]!) (pNat a[43]!); showObj r.1 a ++ " | " ++ sBool r.2 else
  if name == "NRE.expire" then let r := NonRepairableEmission__NonRepairableEmission__expire o ; showObj r.1 a ++ " | " ++ "()" else
  if name == "IRE.update" then let r := IntermittentRepairableEmission__IntermittencyMixin__update o ; showObj r.1 a ++ " | " ++ sBool r.2 else
  if name == "IRE.activate" then let r := IntermittentRepairableEmission__IntermittencyMixin__activate o (pInt a[39]!); showObj r.1 a ++ " | " ++ sBool r.2 else
  if name == "IRE.update_detection_records" then let r := IntermittentRepairableEmission__Emission__update_detection_records o (pNat a[39]!) (pInt a[40]!); showObj r.1 a ++ " | " ++ "()" else
  if name == "IRE.is_emitting" then let r := IntermittentRepairableEmission__IntermittencyMixin__is_emitting o ; showObj r.1 a ++ " | " ++ sBool r.2 else
  if name == "IRE.get_days_emitting" then let r := IntermittentRepairableEmission__IntermittencyMixin__get_days_emitting o ; showObj r.1 a ++ " | " ++ toString r.2 else
  if name == "IRE.calc_true_emis_vol" then let r := IntermittentRepairableEmission__IntermittencyMixin__calc_true_emis_vol o ; showObj r.1 a ++ " | " ++ toString r.2 else
  if name == "IRE.tag_leak" then let r := IntermittentRepairableEmission__RepairableEmission__tag_leak o (pInt a[39]!) (pInt a[40]!) (pInt a[41]!) (pNat a[42]!) (pNat a[43]!) (pInt a[44]!); showObj r.1 a ++ " | " ++ sBool r.2 else
  if name == "IRE.calc_mitigated" then let r := IntermittentRepairableEmission__RepairableEmission__calc_mitigated o (pInt a[39]!); showObj r.1 a ++ " | " ++ toString r.2 else
  if name == "IRE.calc_theory_date" then let r := IntermittentRepairableEmission__RepairableEmission__calc_theory_date o ; showObj r.1 a ++ " | " ++ toString r.2 else
  if name == "IRE.tagged_today" then let r := IntermittentRepairableEmission__RepairableEmission__tagged_today o ; showObj r.1 a ++ " | " ++ sBool r.2 else
  if name == "IRE.check_if_repaired" then let r := IntermittentRepairableEmission__RepairableEmission__check_if_repaired o ; showObj r.1 a ++ " | " ++ sBool r.2 else
  if name == "IRE.natural_repair" then let r := IntermittentRepairableEmission__RepairableEmission__natural_repair o ; showObj r.1 a ++ " | " ++ "()" else
  if name == "INRE.update" then let r := IntermittentNonRepairableEmission__IntermittencyMixin__update o ; showObj r.1 a ++ " | " ++ sBool r.2 else
  if name == "INRE.activate" then let r := IntermittentNonRepairableEmission__IntermittencyMixin__activate o (pInt a[39]!); showObj r.1 a ++ " | " ++ sBool r.2 else
  if name == "INRE.update_detection_records" then let r := IntermittentNonRepairableEmission__Emission__update_detection_records o (pNat a[39]!) (pInt a[40]!); showObj r.1 a ++ " | " ++ "()" else
  if name == "INRE.is_emitting" then let r := IntermittentNonRepairableEmission__IntermittencyMixin__is_emitting o ; showObj r.1 a ++ " | " ++ sBool r.2 else
  if name == "INRE.get_days_emitting" then let r := IntermittentNonRepairableEmission__IntermittencyMixin__get_days_emitting o ; showObj r.1 a ++ " | " ++ toString r.2 else
  if name == "INRE.calc_true_emis_vol" then let r := IntermittentNonRepairableEmission__IntermittencyMixin__calc_true_emis_vol o ; showObj r.1 a ++ " | " ++ toString r.2 else
  if name == "INRE.record_emission" then let r := IntermittentNonRepairableEmission__NonRepairableEmission__record_emission o (pInt a[39]!) (pInt a[40]!) (pInt a[41]!) (pNat a[42]!) (pNat a[43]!); showObj r.1 a ++ " | " ++ sBool r.2 else
  if name == "INRE.expire" then let r := IntermittentNonRepairableEmission__NonRepairableEmission__expire o ; showObj r.1 a ++ " | " ++ "()" else
  "bad-op"

partial def loop (h : IO.FS.Stream) : IO Unit := do
  let line ← h.getLine
  if line.isEmpty then return ()
  let toks := ((line.trimAscii.toString).splitOn " ").toArray
  if toks.size < 40 then IO.println "bad-op" else
    IO.println (call toks[0]! (parseObj (toks.extract 1 toks.size)) (toks.extract 1 toks.size))
  loop h

end LdarModel.EmissionSrcDrv

def main : IO Unit := do LdarModel.EmissionSrcDrv.loop (← IO.getStdin)
