import LdarModel.Generated.FollowUpSrc
open LdarModel.FollowUpSrc
namespace LdarModel.FollowUpSrcDrv

def pInt (s : String) : Int := s.toInt?.getD 0
def pNat (s : String) : Nat := s.toNat?.getD 0
def pBool (s : String) : Bool := s == "1"
def pOptInt (s : String) : Option Int := if s == "-" then none else s.toInt?
def pOptNat (s : String) : Option Nat := if s == "-" then none else s.toNat?
def sBool (b : Bool) : String := if b then "1" else "0"
def sOptInt : Option Int → String | none => "-" | some i => toString i
def sOptNat : Option Nat → String | none => "-" | some i => toString i
def pMap (s : String) : List (Int × Int) :=
  if s == "_" then [] else (s.splitOn ",").filterMap (fun kv => match kv.splitOn ":" with
    | [k, v] => some (pInt k, pInt v) | _ => none)
def mapFn (l : List (Int × Int)) : Int → Int := fun k => (l.lookup k).getD 0
def sMap (f : Int → Int) (l : List (Int × Int)) : String :=
  if l.isEmpty then "_" else String.intercalate "," (l.map (fun kv => s!"{kv.1}:{f kv.1}"))

def parseObj (a : Array String) : Obj :=
  { detection_count := ((pInt a[0]! : Int) : Rat), threshold := ((pInt a[1]! : Int) : Rat), in_pool := pBool a[2]!, in_queue := pBool a[3]!, plan_ge_inst := pBool a[4]!, plan_ge_thr := pBool a[5]!, rec_ge_inst := pBool a[6]!, rec_rate := ((pInt a[7]! : Int) : Rat), effects := [] }
def showObj (o : Obj) (a : Array String) : String :=
  String.intercalate " " [toString o.detection_count, toString o.threshold, sBool o.in_pool, sBool o.in_queue, sBool o.plan_ge_inst, sBool o.plan_ge_thr, sBool o.rec_ge_inst, toString o.rec_rate, (if o.effects.isEmpty then "_" else String.intercalate ";" o.effects)]

def call (name : String) (o : Obj) (a : Array String) : String :=
  if name == "update_mobile" then let r := SiteLevelMethod__SiteLevelMethod__update_mobile o ; showObj r.1 a ++ " | " ++ "()" else
  if name == "update_stationary" then let r := SiteLevelMethod__SiteLevelMethod__update_stationary o ; showObj r.1 a ++ " | " ++ "()" else
  "bad-op"

partial def loop (h : IO.FS.Stream) : IO Unit := do
  let line ← h.getLine
  if line.isEmpty then return ()
  let toks := ((line.trimAscii.toString).splitOn " ").toArray
  if toks.size < 10 then IO.println "bad-op" else
    IO.println (call toks[0]! (parseObj (toks.extract 1 toks.size)) (toks.extract 1 toks.size))
  loop h

end LdarModel.FollowUpSrcDrv

def main : IO Unit := do LdarModel.FollowUpSrcDrv.loop (← IO.getStdin)
