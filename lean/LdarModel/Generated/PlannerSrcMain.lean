import LdarModel.Generated.PlannerSrc
open LdarModel.PlannerSrc
namespace LdarModel.PlannerSrcDrv

def pInt (s : String) : Int := s.toInt?.getD 0
def pNat (s : String) : Nat := s.toNat?.getD 0
def pBool (s : String) : Bool := s == "1"
def pOptInt (s : String) : Option Int := if s == "-" then none else s.toInt?
def pOptNat (s : String) : Option Nat := if s == "-" then none else s.toNat?
def sBool (b : Bool) : String := if b then "1" else "0"
def sOptInt : Option Int → String | none => "-" | some i => toString i
def sOptNat : Option Nat → String | none => "-" | some i => toString i
def pMap (s : String) : List (Int × Int) :=
  if s == "_" then [] else (s.splitOn ",").filterMap (fun kv => match kv.splitOn ":" with
    | [k, v] => some (pInt k, pInt v) | _ => none)
def mapFn (l : List (Int × Int)) : Int → Int := fun k => (l.lookup k).getD 0
def sMap (f : Int → Int) (l : List (Int × Int)) : String :=
  if l.isEmpty then "_" else String.intercalate "," (l.map (fun kv => s!"{kv.1}:{f kv.1}"))

def parseObj (a : Array String) : Obj :=
  { queued := pBool a[0]!, active_survey_report := pOptNat a[1]!, year_ok := pBool a[2]!, month_ok := pBool a[3]!, cur_year := pInt a[4]!, cur_month := pInt a[5]!, cur_day := pInt a[6]!, arg_year := pInt a[7]!, required := mapFn (pMap a[8]!), done_ := mapFn (pMap a[9]!), plan_month := mapFn (pMap a[10]!), plan_day := mapFn (pMap a[11]!) }
def showObj (o : Obj) (a : Array String) : String :=
  String.intercalate " " [sBool o.queued, sOptNat o.active_survey_report, sBool o.year_ok, sBool o.month_ok, toString o.cur_year, toString o.cur_month, toString o.cur_day, toString o.arg_year, sMap o.required (pMap a[8]!), sMap o.done_ (pMap a[9]!), sMap o.plan_month (pMap a[10]!), sMap o.plan_day (pMap a[11]!)]

def call (name : String) (o : Obj) (a : Array String) : String :=
  if name == "Routine.queue_site_for_survey" then let r := ScheduledSurveyPlanner__ScheduledSurveyPlanner__queue_site_for_survey o ; showObj r.1 a ++ " | " ++ sBool r.2 else
  if name == "Mobile.queue_site_for_survey" then let r := MobileSurveyPlanner__ScheduledSurveyPlanner__queue_site_for_survey o ; showObj r.1 a ++ " | " ++ sBool r.2 else
  if name == "Stationary.queue_site_for_survey" then let r := StationarySurveyPlanner__StationarySurveyPlanner__queue_site_for_survey o ; showObj r.1 a ++ " | " ++ sBool r.2 else
  if name == "Routine.add_to_surveys_done" then let r := ScheduledSurveyPlanner__ScheduledSurveyPlanner__add_to_surveys_done o ; showObj r.1 a ++ " | " ++ "()" else
  if name == "Stationary.add_to_surveys_done" then let r := StationarySurveyPlanner__ScheduledSurveyPlanner__add_to_surveys_done o ; showObj r.1 a ++ " | " ++ "()" else
  "bad-op"

partial def loop (h : IO.FS.Stream) : IO Unit := do
  let line ← h.getLine
  if line.isEmpty then return ()
  let toks := ((line.trimAscii.toString).splitOn " ").toArray
  if toks.size < 13 then IO.println "bad-op" else
    IO.println (call toks[0]! (parseObj (toks.extract 1 toks.size)) (toks.extract 1 toks.size))
  loop h

end LdarModel.PlannerSrcDrv

def main : IO Unit := do LdarModel.PlannerSrcDrv.loop (← IO.getStdin)
