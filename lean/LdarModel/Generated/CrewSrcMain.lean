import LdarModel.Generated.CrewSrc
open LdarModel.CrewSrc
namespace LdarModel.CrewSrcDrv

def pInt (s : String) : Int := s.toInt?.getD 0
def pNat (s : String) : Nat := s.toNat?.getD 0
def pBool (s : String) : Bool := s == "1"
def pOptInt (s : String) : Option Int := if s == "-" then none else s.toInt?
def pOptNat (s : String) : Option Nat := if s == "-" then none else s.toNat?
def sBool (b : Bool) : String := if b then "1" else "0"
def sOptInt : Option Int → String | none => "-" | some i => toString i
def sOptNat : Option Nat → String | none => "-" | some i => toString i
def pMap (s : String) : List (Int × Int) :=
  if s == "_" then [] else (s.splitOn ",").filterMap (fun kv => match kv.splitOn ":" with
    | [k, v] => some (pInt k, pInt v) | _ => none)
def mapFn (l : List (Int × Int)) : Int → Int := fun k => (l.lookup k).getD 0
def sMap (f : Int → Int) (l : List (Int × Int)) : String :=
  if l.isEmpty then "_" else String.intercalate "," (l.map (fun kv => s!"{kv.1}:{f kv.1}"))

def pDeploy (s : String) : Deploy :=
  if s == "mobile" then Deploy.mobile else
  if s == "stationary" then Deploy.stationary else
  if s == "orbital" then Deploy.orbital else
  Deploy.mobile
def sDeploy : Deploy → String
  | .mobile => "mobile"
  | .stationary => "stationary"
  | .orbital => "orbital"

def parseObj (a : Array String) : Obj :=
  { weather := pBool a[0]!, deployment_type := pDeploy a[1]!, name := pNat a[2]!, crew_day_time_remaining := pInt a[3]!, rep_time_surveyed := pInt a[4]!, rep_time_surveyed_current_day := pInt a[5]!, rep_time_spent_to_travel := pInt a[6]!, rep_survey_complete := pBool a[7]!, rep_survey_in_progress := pBool a[8]!, rep_survey_start_date := pOptInt a[9]!, rep_survey_completion_date := pOptInt a[10]!, rep_method := pOptNat a[11]!, env_workable := pBool a[12]!, env_survey_time := pInt a[13]!, env_travel_time := pInt a[14]!, effects := [] }
def showObj (o : Obj) (a : Array String) : String :=
  String.intercalate " " [sBool o.weather, sDeploy o.deployment_type, toString o.name, toString o.crew_day_time_remaining, toString o.rep_time_surveyed, toString o.rep_time_surveyed_current_day, toString o.rep_time_spent_to_travel, sBool o.rep_survey_complete, sBool o.rep_survey_in_progress, sOptInt o.rep_survey_start_date, sOptInt o.rep_survey_completion_date, sOptNat o.rep_method, sBool o.env_workable, toString o.env_survey_time, toString o.env_travel_time, (if o.effects.isEmpty then "_" else String.intercalate ";" o.effects)]

def call (name : String) (o : Obj) (a : Array String) : String :=
  if name == "Method.survey_site" then let r := Method__Method__survey_site o (pInt a[16]!); showObj r.1 a ++ " | " ++ String.intercalate " " [toString r.2.1, sBool r.2.2.1, sBool r.2.2.2] else
  "bad-op"

partial def loop (h : IO.FS.Stream) : IO Unit := do
  let line ← h.getLine
  if line.isEmpty then return ()
  let toks := ((line.trimAscii.toString).splitOn " ").toArray
  if toks.size < 17 then IO.println "bad-op" else
    IO.println (call toks[0]! (parseObj (toks.extract 1 toks.size)) (toks.extract 1 toks.size))
  loop h

end LdarModel.CrewSrcDrv

def main : IO Unit := do LdarModel.CrewSrcDrv.loop (← IO.getStdin)
