import LdarModel.Model.Queue
/-
Model of the survey planner of one (site, method) pair and of one scheduled day of a method
(core Lean only, executable).

Source modelled:
  scheduling/survey_planner.py             SurveyPlanner: active report, add_to_surveys_done
  scheduling/scheduled_survey_planner.py   ScheduledSurveyPlanner: simulation years, deployment years,
                                           per-year (required, done) counters, `_queued`,
                                           queue_site_for_survey (217-241), add_to_surveys_done (250-254);
                                           StationarySurveyPlanner.queue_site_for_survey (303-326)
  scheduling/generic_schedule.py           _set_survey_plans (frequency 0 where not deployed),
                                           get_workplan (request phase, then take), update (141-169)
  scheduling/stationary_schedule.py        frequency 365 / 0, take everything
  scheduling/follow_up_mobile_schedule.py  add_* with (class, rate); a plan with a survey in progress is
                                           always queued in class 1 (after fix 504bbc3); update (113-143)
  scheduling/workplan.py                   planners and reports keyed by site id
  programs/method.py 233-301, component_level_method.py 157-213
                                           every planned request gets the planner's current report
                                           (created when absent); the crew result of the day is an INPUT

The evenly spaced plan dates are an input list `(month, day)`.  What the crews achieve for each
planned request on a day is an input (`Outcome`).  Static parameters stay outside the state.
-/
namespace LdarModel.Sched

structure Date where
  y : Nat
  m : Nat
  d : Nat
  deriving DecidableEq, Repr, Inhabited

/-- Python `(a.month, a.day) <= (b.month, b.day)` -/
def mdLe (a b : Nat × Nat) : Prop := a.1 < b.1 ∨ (a.1 = b.1 ∧ a.2 ≤ b.2)

instance (a b : Nat × Nat) : Decidable (mdLe a b) := by unfold mdLe; infer_instance

/-- `_get_simulation_years` -/
def simYearsOf (s e : Date) : List Nat :=
  let endY := if s.m > e.m ∨ (s.m = e.m ∧ s.d > e.d) then e.y - 1 else e.y
  (List.range (endY + 1 - s.y)).map (· + s.y)

/-- static data of one planner -/
structure PlannerP where
  rs : Nat := 0                      -- `_site_annual_rs`
  months : List Nat := []            -- `_deployment_months`
  depYears : List Nat := []          -- `_deployment_years` (already defaulted to the simulation years)
  simYears : List Nat := []          -- keys of `_surveys_this_year`
  plan : List (Nat × Nat) := []      -- `_survey_plan` as (month, day)
  surveyTime : Int := 0              -- the site's survey time for the method
  deriving Repr, Inhabited

/-- how a schedule builds the planner of a site (`_set_survey_plans`) -/
def mkPlannerP (stationary : Bool) (freq : Option Nat) (deploy : Bool) (months years : List Nat)
    (plan : List (Nat × Nat)) (surveyTime : Int) (s e : Date) : PlannerP :=
  let rs := if stationary then (if deploy then 365 else 0)
            else match freq with
              | none => 0
              | some f => if deploy then f else 0
  let sim := simYearsOf s e
  { rs := rs, months := months, depYears := if years = [] then sim else years, simYears := sim,
    plan := plan, surveyTime := if stationary then 0 else surveyTime }

/-- `SiteSurveyReport`, the fields the schedule reads -/
structure Report where
  complete : Bool := false
  inProgress : Bool := false
  surveyed : Int := 0                -- `time_surveyed`
  deriving DecidableEq, Repr, Inhabited

/-- mutable state of one planner -/
structure PlannerS where
  queued : Bool := false             -- `_queued` (routine) / `_site_IDs_in_queue[site]` (follow-up)
  log : List Nat := []               -- years of the completions booked by `add_to_surveys_done`
  rep : Option Report := none        -- `_active_survey_report`
  rate : Int := 0                    -- `rate_at_site` (follow-up planners)
  deriving DecidableEq, Repr, Inhabited

/-- `Surveys_done` of year `y` -/
def done (s : PlannerS) (y : Nat) : Nat := s.log.count y

/-- `Required_surveys` of year `y` (`_set_survey_per_year`) -/
def required (p : PlannerP) (y : Nat) : Nat := if y ∈ p.simYears ∧ y ∈ p.depYears then p.rs else 0

def inProgress (s : PlannerS) : Bool :=
  match s.rep with
  | some r => r.inProgress
  | none => false

def isComplete (s : PlannerS) : Bool :=
  match s.rep with
  | some r => r.complete
  | none => false

/-- `ScheduledSurveyPlanner.queue_site_for_survey` -/
def guardRoutine (p : PlannerP) (dt : Date) (s : PlannerS) : Bool :=
  decide (dt.y ∈ p.depYears) && decide (dt.m ∈ p.months) && !s.queued
    && decide (done s dt.y < required p dt.y)
    && (match p.plan[done s dt.y]? with
        | some pd => decide (mdLe pd (dt.m, dt.d))
        | none => false)

/-- `StationarySurveyPlanner.queue_site_for_survey` -/
def guardStationary (p : PlannerP) (dt : Date) (s : PlannerS) : Bool :=
  decide (dt.y ∈ p.depYears) && decide (dt.m ∈ p.months) && !s.queued
    && decide (0 < required p dt.y)

/-- the counter lookup `_surveys_this_year[year]` of the guard raises KeyError -/
def guardCrashes (p : PlannerP) (dt : Date) (s : PlannerS) : Bool :=
  decide (dt.y ∈ p.depYears) && decide (dt.m ∈ p.months) && !s.queued && !decide (dt.y ∈ p.simYears)

inductive Kind | routine | stationary | followup
  deriving DecidableEq, Repr, Inhabited

/-- static data of a method's schedule -/
structure Cfg where
  kind : Kind
  crews : Nat
  cap : Nat                          -- `_est_meth_daily_surveys`
  sites : List Nat                   -- site ids in the order of `_survey_plans`
  P : Nat → PlannerP

structure State where
  q : Queue := {}
  pl : Nat → PlannerS := fun _ => {}
  crashed : Bool := false            -- a KeyError has been raised (the simulation is dead)

def init : State := {}

def guardK (k : Kind) (p : PlannerP) (dt : Date) (s : PlannerS) : Bool :=
  match k with
  | .stationary => guardStationary p dt s
  | _ => guardRoutine p dt s

/-- what the crews achieved for a planned request on one day -/
inductive Outcome
  | completed                 -- survey finished today
  | progressed (m : Int)      -- `m` more minutes surveyed, not finished
  | untouched                 -- no crew free / weather / not enough time: report unchanged
  deriving DecidableEq, Repr, Inhabited

structure DayIn where
  date : Date
  out : Nat → Outcome

/-- sites whose planner asks for a request today, in planner order -/
def issued (c : Cfg) (dt : Date) (s : State) : List Nat :=
  c.sites.filter (fun i => guardK c.kind (c.P i) dt (s.pl i))

/-- first half of `get_workplan`: every planner is asked, requests enter with the default priority -/
def requestPhase (c : Cfg) (dt : Date) (s : State) : State :=
  let is := issued c dt s
  { q := is.foldl (fun q i => q.put prioNew 0 i) s.q,
    pl := fun i => if i ∈ is then { s.pl i with queued := true } else s.pl i,
    crashed := s.crashed || c.sites.any (fun i => guardCrashes (c.P i) dt (s.pl i)) }

def takeCount (c : Cfg) (q : Queue) : Nat :=
  match c.kind with
  | .stationary => q.entries.length
  | _ => c.crews * c.cap

/-- keys of a Python dict filled in this order (first insertion fixes the position) -/
def dictKeys : List Nat → List Nat
  | [] => []
  | x :: xs => x :: (dictKeys xs).filter (· ≠ x)

/-- `get_current_survey_report` followed by what `survey_site` leaves in the report -/
def applyOutcome (p : PlannerP) (o : Outcome) (s : PlannerS) : PlannerS :=
  let r : Report := s.rep.getD {}
  match o with
  | .completed => { s with rep := some { complete := true, inProgress := false, surveyed := p.surveyTime } }
  | .progressed m => { s with rep := some { r with inProgress := true, surveyed := r.surveyed + m } }
  | .untouched => { s with rep := some r }

/-- minutes surveyed today (`time_surveyed_current_day` when the site was worked on) -/
def minutesToday (p : PlannerP) (o : Outcome) (s : PlannerS) : Int :=
  match o with
  | .completed => p.surveyTime - (s.rep.getD {}).surveyed
  | .progressed m => m
  | .untouched => 0

/-- `add_to_surveys_done` (+ `_site_IDs_in_queue[site] = False` for follow-up schedules) -/
def finish (y : Nat) (s : PlannerS) : PlannerS :=
  { s with queued := false, log := y :: s.log, rep := none }

/-- priority class of a re-queued, not completed request (`update`) -/
def requeueClass (s : PlannerS) : Nat := if inProgress s then prioUnfinished else prioUnattended

/-- second priority component used by `update`: routine schedules put a bare class, follow-up
schedules put `(class, rate_at_site)` -/
def rateOf (k : Kind) (s : PlannerS) : Int :=
  match k with
  | .followup => s.rate
  | _ => 0

/-- one request of the work plan in `update`: completed → counted, otherwise back to the queue -/
def requeueOne (k : Kind) (pl : Nat → PlannerS) (q : Queue) (i : Nat) : Queue :=
  if isComplete (pl i) then q else q.put (requeueClass (pl i)) (rateOf k (pl i)) i

structure DayTrace where
  issued : List Nat          -- requests issued in the request phase
  taken : List Entry         -- popped from the queue
  keys : List Nat            -- the work plan (dict keyed by site id)
  afterDeploy : Nat → PlannerS
  remaining : Queue

def dayTrace (c : Cfg) (d : DayIn) (s : State) : DayTrace :=
  let s1 := requestPhase c d.date s
  let t := s1.q.takeN (takeCount c s1.q)
  let keys := dictKeys (t.1.map (·.site))
  { issued := issued c d.date s, taken := t.1, keys := keys, remaining := t.2,
    afterDeploy := fun i => if i ∈ keys then applyOutcome (c.P i) (d.out i) (s1.pl i) else s1.pl i }

/-- one day of a method: get_workplan → deploy_crews (outcomes are inputs) → update -/
def scheduleDay (c : Cfg) (d : DayIn) (s : State) : State :=
  let s1 := requestPhase c d.date s
  let tr := dayTrace c d s
  let pl2 := tr.afterDeploy
  { q := tr.keys.foldl (requeueOne c.kind pl2) tr.remaining,
    pl := fun i => if i ∈ tr.keys ∧ isComplete (pl2 i) = true then finish d.date.y (pl2 i) else pl2 i,
    crashed := s1.crashed ||
      tr.keys.any (fun i => isComplete (pl2 i) && !decide (d.date.y ∈ (c.P i).simYears) &&
        decide (c.kind ≠ .followup)) }

/-- class actually used by the follow-up `add_*` methods: a plan whose survey is in progress always
goes to class 1 -/
def effClass (cls : Nat) (s : PlannerS) : Nat := if inProgress s then prioUnfinished else cls

/-- a screening method flags a site for the first time: new FollowUpSurveyPlanner + `add_to_survey_queue`
(cls 3) / `add_previous_queued_to_survey_queue` (cls 2); the shared flag dict is set by the caller -/
def fuAdd (cls site : Nat) (rate : Int) (s : State) : State :=
  let p : PlannerS := { queued := true, log := (s.pl site).log, rep := none, rate := rate }
  { s with q := s.q.put (effClass cls p) rate site,
           pl := fun i => if i = site then p else s.pl i }

/-- `SiteLevelMethod.update_mobile`, branch "already queued for a follow-up": get_plan_from_queue,
new rate, then class 2 / class 3 / dropped (cls 0) -/
def fuRedetect (site : Nat) (rate : Int) (cls : Nat) (s : State) : State :=
  let r := s.q.extract site
  match r.1 with
  | none => { s with q := r.2, crashed := true }
  | some _ =>
    let p : PlannerS := { s.pl site with rate := rate }
    if cls = 0 then
      { s with q := r.2, pl := fun i => if i = site then { p with queued := false, rep := none } else s.pl i }
    else
      { s with q := r.2.put (effClass cls p) rate site, pl := fun i => if i = site then p else s.pl i }

inductive Op
  | day (d : DayIn)
  | add (cls site : Nat) (rate : Int)
  | redetect (site : Nat) (rate : Int) (cls : Nat)

def step (c : Cfg) (s : State) : Op → State
  | .day d => scheduleDay c d s
  | .add cls site rate => fuAdd cls site rate s
  | .redetect site rate cls => fuRedetect site rate cls s

def run (c : Cfg) (ops : List Op) : State := ops.foldl (step c) init

/-- a routine / stationary history: days only -/
def runDays (c : Cfg) (ds : List DayIn) : State := ds.foldl (fun s d => scheduleDay c d s) init

end LdarModel.Sched
