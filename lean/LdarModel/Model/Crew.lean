/-
Model of the survey step and of one crew day of LDAR-Sim (core Lean only, executable).

Source modelled:
  programs/method.py:315-428      Method.survey_site + _determine_if_site_survey_can_be_completed
                                  (`surveyStep`, `applyStep`)
  programs/method.py:478-522      Method.check_weather (`checkWeather`, the envelope test)
  programs/method.py:212-310      Method.deploy_crews                         (`deployDay`)
  programs/component_level_method.py:136-219  ComponentLevelMethod.deploy_crews (same loop; after
                                  the two `fix:` commits of C10 also the same cost booking)
  programs/method.py:457-463,215-229  get_daylight_hours / budget of the day  (`dayBudget`)
  scheduling/survey_planner.py:39-50  the report of an unfinished survey is carried to the next day
                                  (`surveyRun`)
  scheduling/generic_schedule.py:141-169  re-queue class read off the report  (`requeueClass`)

All times are `Int` minutes.  Sampled travel times, weather values and daylight are inputs.
Static parameters (`MethodP`) are kept outside the state records.
-/
namespace LdarModel.Crew

/-- which arm of `survey_site` was taken -/
inductive Branch | unworkable | complete | partial_ | noTime
  deriving DecidableEq, Repr, Inhabited

/-- what one call of `survey_site` does, as far as minutes and flags are concerned -/
structure StepOut where
  rem : Int          -- crew.day_time_remaining when survey_site returns
  surveyed : Int     -- report.time_surveyed afterwards (new P)
  branch : Branch
  complete : Bool    -- this step completed the survey
  inProgress : Bool  -- this step left the survey in progress (a partial survey)
  last : Bool        -- `last_site_survey`
  visited : Bool     -- `site_visit`
  travel : Int       -- returned `site_travel_time` (travel charged to the crew by this step)
  today : Int        -- minutes surveyed by this step
  deriving DecidableEq, Repr, Inhabited

/-- survey and travel time the step really uses: a stationary method has neither -/
def effS (stationary : Bool) (S : Int) : Int := if stationary then 0 else S
def effT (stationary : Bool) (T : Int) : Int := if stationary then 0 else T

/-- `Method.survey_site`: `R` minutes the crew has left, `S` survey time of the site, `T` travel
time sampled for this visit, `P` minutes already surveyed on previous days -/
def surveyStep (R S T P : Int) (stationary workable : Bool) : StepOut :=
  if !workable then
    { rem := R, surveyed := P, branch := .unworkable, complete := false, inProgress := false,
      last := false, visited := false, travel := 0, today := 0 }
  else
    let S' := effS stationary S
    let T' := effT stationary T
    -- _determine_if_site_survey_can_be_completed (stationary: always)
    if stationary ∨ R ≥ S' + T' * 2 - P then
      let r1 := R - T' - (S' - P)
      { rem := r1, surveyed := S', branch := .complete, complete := true, inProgress := false,
        last := decide (r1 ≤ T'), visited := true, travel := T', today := S' - P }
    else if R > 2 * T' then
      { rem := T', surveyed := P + (R - T' * 2), branch := .partial_, complete := false,
        inProgress := true, last := true, visited := true, travel := T', today := R - T' * 2 }
    else
      { rem := R, surveyed := P, branch := .noTime, complete := false, inProgress := false,
        last := true, visited := true, travel := 0, today := 0 }

/-- the minute / flag fields of `SiteSurveyReport` -/
structure Report where
  surveyed : Int := 0     -- time_surveyed
  today : Int := 0        -- time_surveyed_current_day (stale on days without a visit)
  travel : Int := 0       -- time_spent_to_travel
  complete : Bool := false
  inProgress : Bool := false
  deriving DecidableEq, Repr, Inhabited

/-- the field updates `survey_site` makes on the report in each arm -/
def applyStep (rep : Report) (o : StepOut) : Report :=
  match o.branch with
  | .unworkable => rep
  | .complete =>
    { surveyed := o.surveyed, today := o.today, travel := rep.travel + o.travel,
      complete := true, inProgress := false }
  | .partial_ =>
    { surveyed := o.surveyed, today := o.today, travel := rep.travel + o.travel,
      complete := rep.complete, inProgress := true }
  | .noTime => { rep with today := 0, travel := 0 }

/-- `GenericSchedule.update`: none = completed (counted), 1 = unfinished, 2 = planned, not attended -/
def requeueClass (rep : Report) : Option Nat :=
  if rep.complete then none else if rep.inProgress then some 1 else some 2

/-! ### weather envelope -/

/-- the weather values at the site's cell (hour `Method.HOUR`).  A value can be *missing* (NaN in the
weather file: merged / cropped reanalysis files carry gaps); the number stored next to a set
`…Missing` flag is irrelevant -/
structure Wx where
  temp : Int
  wind : Int
  precip : Int
  tempMissing : Bool := false
  windMissing : Bool := false
  precipMissing : Bool := false
  deriving DecidableEq, Repr, Inhabited

structure Envelope where
  tempLo : Int
  tempHi : Int
  windLo : Int
  windHi : Int
  precipLo : Int
  precipHi : Int
  deriving DecidableEq, Repr, Inhabited

/-- `Method.check_weather` on the values of the site's weather cell -/
def checkWeather (e : Envelope) (w : Wx) : Bool :=
  -- `lo <= value <= hi` is False for a NaN value: a missing value is inside no envelope
  let bTemp := !w.tempMissing && decide (e.tempLo ≤ w.temp ∧ w.temp ≤ e.tempHi)
  let bWind := !w.windMissing && decide (e.windLo ≤ w.wind ∧ w.wind ≤ e.windHi)
  let bPrecip := !w.precipMissing && decide (e.precipLo ≤ w.precip ∧ w.precip ≤ e.precipHi)
  bPrecip && bWind && bTemp

/-! ### the day -/

/-- static description of a method as far as `deploy_crews` reads it.  The four method classes
(`Method`, site-, equipment-group- and component-level) run the same loop, so the measurement scale is
not a parameter of the model; that they do is what the four-class correspondence checks. -/
structure MethodP where
  stationary : Bool
  perSite : Bool            -- cost_type == PER_SITE_COST (else PER_DAY_COST)
  unitCost : Int            -- self.cost
  considerWeather : Bool
  env : Envelope
  deriving DecidableEq, Repr, Inhabited

/-- one planned request of the work plan with the inputs its visit will see -/
structure Req where
  site : Nat
  S : Int                   -- site.get_method_survey_time
  siteCost : Int            -- site.get_survey_cost
  rep : Report              -- planner.get_current_survey_report()
  T : Int                   -- travel time sampled for the visit
  wx : Wx                   -- weather at the site's cell
  deriving DecidableEq, Repr, Inhabited

def workable (p : MethodP) (r : Req) : Bool := !p.considerWeather || checkWeather p.env r.wx

/-- `CrewDailyReport` + whether the crew is still in the priority queue + two ghost counters:
`spent` = sum over the crew's visits of travel charged + minutes surveyed, `home` = travel time of
the last site the crew actually travelled to (its trip home) -/
structure CrewSt where
  id : Nat
  rem : Int
  deployed : Bool := false
  queued : Bool := true
  spent : Int := 0
  home : Int := 0
  deriving DecidableEq, Repr, Inhabited

/-- `CrewDeploymentStats` + `workplan.total_travel_time` -/
structure Stats where
  cost : Int := 0
  visited : Int := 0
  travel : Int := 0
  survey : Int := 0
  wpTravel : Int := 0
  deriving DecidableEq, Repr, Inhabited

/-- what happened to one planned request -/
structure OutRec where
  req : Req
  rep : Report              -- the report handed to workplan.add_survey_report
  crew : Option Nat         -- crew id that was sent, none if no crew was left
  step : Option StepOut
  rBefore : Int := 0        -- the crew's minutes when it was sent
  deriving DecidableEq, Repr, Inhabited

structure DaySt where
  crews : List CrewSt
  stats : Stats := {}
  out : List OutRec := []
  deriving Repr, Inhabited

/-- order of `queue.PriorityQueue` on `(-day_time_remaining, crew_id, crew)` -/
def better (a b : CrewSt) : Bool := decide (a.rem > b.rem) || (decide (a.rem = b.rem) && decide (a.id < b.id))

/-- `priority_queue.get()`: the queued crew with most time left (ties: smaller id) -/
def pick : List CrewSt → Option CrewSt
  | [] => none
  | c :: cs =>
    match pick cs with
    | none => if c.queued then some c else none
    | some d => if c.queued && better c d then some c else some d

def initCrews (budget : Int) (n : Nat) : List CrewSt :=
  (List.range n).map (fun i => { id := i, rem := budget })

/-- the per-site charge of a completed survey (`method.py:293-297`) -/
def siteCharge (p : MethodP) (r : Req) : Int :=
  if r.siteCost = 0 ∧ p.unitCost > 0 then p.unitCost else r.siteCost

def chargeIfComplete (p : MethodP) (r : Req) (rep : Report) : Int :=
  if rep.complete ∧ p.perSite then siteCharge p r else 0

/-- the crew after `survey_site` and the bookkeeping of `deploy_crews` -/
def crewAfter (c : CrewSt) (o : StepOut) : CrewSt :=
  let rem1 := if o.last then 0 else o.rem
  { id := c.id, rem := rem1, deployed := c.deployed || o.visited, queued := decide (rem1 > 0),
    spent := c.spent + o.travel + o.today,
    home := if o.branch = .complete ∨ o.branch = .partial_ then o.travel else c.home }

def replaceCrew (c' : CrewSt) (cs : List CrewSt) : List CrewSt :=
  cs.map (fun c => if c.id = c'.id then c' else c)

/-- body of the loop over `workplan.site_survey_planners.values()` -/
def serve (p : MethodP) (st : DaySt) (r : Req) : DaySt :=
  match pick st.crews with
  | none =>
    { st with
      stats := { st.stats with cost := st.stats.cost + chargeIfComplete p r r.rep }
      out := st.out ++ [{ req := r, rep := r.rep, crew := none, step := none }] }
  | some c =>
    let o := surveyStep c.rem r.S r.T r.rep.surveyed p.stationary (workable p r)
    let rep' := applyStep r.rep o
    let s := st.stats
    let s1 : Stats := if o.visited then
        { s with visited := s.visited + 1, travel := s.travel + o.travel, survey := s.survey + rep'.surveyed }
      else s
    let s2 : Stats := if o.last then { s1 with travel := s1.travel + o.travel, wpTravel := s1.wpTravel + o.travel } else s1
    let s3 : Stats := { s2 with cost := s2.cost + chargeIfComplete p r rep' }
    { crews := replaceCrew (crewAfter c o) st.crews
      stats := s3
      out := st.out ++ [{ req := r, rep := rep', crew := some c.id, step := some o, rBefore := c.rem }] }

def countDeployed (cs : List CrewSt) : Nat := (cs.filter (·.deployed)).length

/-- per-day cost block at the end of `deploy_crews` -/
def finalize (p : MethodP) (nPlanned : Nat) (st : DaySt) : DaySt :=
  if p.perSite then st
  else if p.stationary then { st with stats := { st.stats with cost := p.unitCost * nPlanned } }
  else { st with stats := { st.stats with cost := p.unitCost * countDeployed st.crews } }

def serveAll (p : MethodP) (st : DaySt) (reqs : List Req) : DaySt := reqs.foldl (serve p) st

/-- `deploy_crews` for a day budget of `budget` minutes, `n` crews and the planned requests in
work-plan order (sites pairwise different, as the site-keyed work plan guarantees) -/
def deployDay (p : MethodP) (budget : Int) (n : Nat) (reqs : List Req) : DaySt :=
  finalize p reqs.length (serveAll p { crews := initCrews budget n } reqs)

/-- minutes of the day: `max_work_hours`, capped by daylight when the method is daylight
sensitive (`get_daylight_hours`), times 60 -/
def dayBudget (considerDaylight : Bool) (workdayH daylightH : Int) : Int :=
  let h := if considerDaylight then (if workdayH < daylightH then workdayH else daylightH) else workdayH
  h * 60

/-! ### how many crews a method has -/

/-- `Method.initialize_crews` + `_estimate_method_crews_required` (method.py:81-97, 153-186): a
stationary method has one pseudo crew; otherwise a configured positive `crew_count` is what the
method gets, whatever LDAR-Sim's own estimate says (a larger estimate only prints a shortage
warning); with `crew_count` 0 the estimate is used -- 1 for a follow-up method, the portfolio estimate
`ceil(n_sites / (sites per crew-day x days between surveys))` (an input here) otherwise -/
def methodCrews (stationary followUp : Bool) (configured estimate : Nat) : Nat :=
  if stationary then 1
  else if configured > 0 then configured
  else if followUp then 1 else estimate

/-- `deploy_crews` of a method described by its configuration: the crews it is run with are the
crews the configuration gives it -/
def deployConfigured (p : MethodP) (followUp : Bool) (configured estimate : Nat) (budget : Int)
    (reqs : List Req) : DaySt :=
  deployDay p budget (methodCrews p.stationary followUp configured estimate) reqs

/-! ### one survey over several days -/

/-- what a survey sees on one day: minutes of the crew that is sent, sampled travel time, weather
outcome, and whether a crew was available at all -/
structure DayIn where
  R : Int
  T : Int
  workable : Bool
  served : Bool
  deriving DecidableEq, Repr, Inhabited

/-- one day of a survey: nothing happens once it is complete (the planner drops the report) or when
no crew is left; returns the report and the minutes surveyed that day -/
def surveyDay (stationary : Bool) (S : Int) (rep : Report) (d : DayIn) : Report × Int :=
  if rep.complete ∨ ¬ d.served then (rep, 0)
  else
    let o := surveyStep d.R S d.T rep.surveyed stationary d.workable
    (applyStep rep o, o.today)

/-- the report after the given days and the total of the minutes surveyed per day -/
def surveyRun (stationary : Bool) (S : Int) : List DayIn → Report → Int → Report × Int
  | [], rep, acc => (rep, acc)
  | d :: ds, rep, acc =>
    let x := surveyDay stationary S rep d
    surveyRun stationary S ds x.1 (acc + x.2)

end LdarModel.Crew
