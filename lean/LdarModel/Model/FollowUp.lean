/-
Model of the follow-up work practice of LDAR-Sim (core Lean only, executable).

Source modelled (one Lean function per Python method):
  programs/site_level_method.py       SiteLevelMethod.update            -> `dailyUpdate`
                                      update_mobile / update_stationary -> `updMobile` / `updStationary`
                                      update_candidates_for_flags       -> `updateCandidates`
                                      _filter_candidates_by_proportion  -> `keepCount`, `decideNow`
                                      _get_plan_from_candidates         -> `poolTake`
  programs/method.py:281-291          detection record filed under the survey date -> `screen`
  scheduling/follow_up_survey_planner.py   FollowUpSurveyPlanner / StationaryFollowUpSurveyPlanner
                                      (redundancy filters recent / max / average, rolling windows,
                                       should_follow_up / should_follow_up_long) -> `updPlan`, `newPlan`,
                                       `followShort`, `followLong`
  scheduling/follow_up_mobile_schedule.py  queue ordered by ((class, rate), fifo), get_plan_from_queue,
                                      update (requeue classes 1 / 2, completion clears the flag)
                                      -> `qInsert`, `qFindLast`, `qRemove`, `followUpDay`
  scheduling/generic_schedule.py      get_daily_sites_to_survey (crews x daily capacity) -> `take cap`
  scheduling/workplan.py              plans keyed by site id (first position, last value) -> `dedupPlans`
  programs/component_level_method.py:72-75  a completed survey sets the site's latest tagging survey
                                      date -> `applyOutcome`, `tagSite`
  programs/program.py:91-202          every screening method of a program holds the *same* follow-up
                                      schedule object (queue and in-queue flags are shared, candidate
                                      pool and in-pool flags are per screening method) -> `Sys`, `stepSys`

Dates are `Int` day numbers, rates exact rationals (core `Rat`).  Static parameters are kept outside
the state records.  Fields marked "ghost" do not exist in the Python objects; they only record what
happened (flag events, released records, counters) so that theorems can speak about histories.
The outcome of every follow-up survey step (completed / in progress / not attended), decided in the
real code by the crew time budget and the weather, is an *input* of the model.
-/
namespace LdarModel.FollowUp

inductive Filter | recent | max | average
  deriving DecidableEq, Repr, Inhabited

structure Params where
  stationary : Bool := false
  rd : Int := 0                    -- reporting delay of the screening method
  delay : Int := 0                 -- follow-up delay (days after the first candidate)
  prop : Rat := 1                  -- follow-up proportion
  thrFirst : Bool := true          -- interaction priority "threshold" (else "proportion")
  thr : Rat := 0                   -- follow-up threshold (mobile)
  inst : Option Rat := none        -- instant threshold (none = +inf)
  filter : Filter := .recent       -- redundancy filter (mobile)
  sw : Nat := 1                    -- small rolling window (stationary)
  lw : Nat := 1                    -- large rolling window (stationary)
  sthr : Rat := 0                  -- small window threshold
  lthr : Rat := 0                  -- large window threshold
  deriving Repr, Inhabited

/-- `FollowUpSurveyPlanner` / `StationaryFollowUpSurveyPlanner` -/
structure Plan where
  site : Nat
  rate : Rat               -- `rate_at_site`
  rateLong : Rat           -- `rate_at_site_long` (stationary)
  rates : List Rat         -- `_detected_rates`
  latest : Int             -- `_latest_detection_date` (survey date of the newest record folded in)
  inProg : Bool := false   -- `_active_survey_report.survey_in_progress`: a follow-up survey was started
  sw : Nat := 1            -- `_small_window` / `_long_window`: fixed by the method that created the plan
  lw : Nat := 1
  deriving DecidableEq, Repr, Inhabited

/-- `DetectionRecord` filed under its survey date -/
structure Rec where
  date : Int
  site : Nat
  rate : Rat
  deriving DecidableEq, Repr, Inhabited

/-- entry of the follow-up queue: priority class (1 unfinished, 2 previously queued / instant,
3 new) and the plan; the rate part of the key is the plan's rate -/
structure QE where
  cls : Nat
  plan : Plan
  deriving DecidableEq, Repr, Inhabited

inductive Route | pool | instant
  deriving DecidableEq, Repr, Inhabited

/-- ghost: one flagging of a site by a screening method (an insertion of a *new* request into the
follow-up queue) -/
structure FlagEv where
  site : Nat
  rate : Rat
  rateLong : Rat
  rates : List Rat
  route : Route
  recDate : Int        -- survey date of the newest detection behind the flag
  day : Int            -- day of the flagging
  first : Int          -- first-candidate date of the decision (pool route); = day on the instant route
  tagAtFlag : Int      -- the site's latest tagging survey date at the moment of the flagging
  deriving DecidableEq, Repr, Inhabited

inductive Outcome | complete | inProgress | unattended
  deriving DecidableEq, Repr, Inhabited

/-- ghost: one request taken into the follow-up method's plan of a day and what became of it -/
structure Visit where
  site : Nat
  recDate : Int        -- survey date of the newest screening detection behind the request
  tagBefore : Int      -- the site's latest tagging survey date before this visit
  day : Int
  outcome : Outcome
  deriving DecidableEq, Repr, Inhabited

/-! ### small sorted-list containers -/

/-- `SortedList(key=-rate).add`: after every plan whose rate is at least as large -/
def poolInsert (x : Plan) : List Plan → List Plan
  | [] => [x]
  | y :: t => if y.rate < x.rate then x :: y :: t else y :: poolInsert x t

/-- `_get_plan_from_candidates`: the first plan of the site, removed from the pool -/
def poolTake (s : Nat) : List Plan → Option Plan × List Plan
  | [] => (none, [])
  | y :: t => if y.site = s then (some y, t) else ((poolTake s t).1, y :: (poolTake s t).2)

/-- strict order of queue keys `(class, rate)` (smaller pops first) -/
def qLt (x y : QE) : Bool :=
  decide (x.cls < y.cls) || (decide (x.cls = y.cls) && decide (x.plan.rate < y.plan.rate))

/-- `PriorityQueueWithFIFO.put`: behind every entry whose key is not larger (FIFO among equals) -/
def qInsert (x : QE) : List QE → List QE
  | [] => [x]
  | y :: t => if qLt x y then x :: y :: t else y :: qInsert x t

/-- `get_plan_from_queue`: the plan returned is the last entry of that site in pop order ... -/
def qFindLast (s : Nat) (q : List QE) : Option Plan :=
  ((q.filter (fun e => e.plan.site = s)).getLast?).map (·.plan)

/-- ... and every entry of that site is taken out -/
def qRemove (s : Nat) (q : List QE) : List QE := q.filter (fun e => e.plan.site ≠ s)

def setB (f : Nat → Bool) (s : Nat) (v : Bool) : Nat → Bool := fun x => if x = s then v else f x
def setI (f : Nat → Int) (s : Nat) (v : Int) : Nat → Int := fun x => if x = s then v else f x
def bump (f : Nat → Nat) (s : Nat) : Nat → Nat := fun x => if x = s then f x + 1 else f x

/-! ### planner arithmetic -/

def sumR (l : List Rat) : Rat := l.foldr (· + ·) 0

def maxR : List Rat → Rat
  | [] => 0
  | [x] => x
  | x :: t => if x < maxR t then maxR t else x

/-- pandas `rolling(window=w, min_periods=w).mean().iloc[-1]`, NaN replaced by 0 -/
def meanLast (w : Nat) (l : List Rat) : Rat :=
  if w = 0 ∨ l.length < w then 0 else sumR (l.drop (l.length - w)) / (w : Rat)

def filt (f : Filter) (l : List Rat) : Rat :=
  match f with
  | .recent => l.getLast?.getD 0
  | .max => maxR l
  | .average => sumR l / (l.length : Rat)

/-- `update_with_latest_survey` -/
def updPlan (p : Params) (pl : Plan) (r : Rat) (dc : Int) : Plan :=
  let rs := pl.rates ++ [r]
  if p.stationary then
    { pl with rates := rs, rate := meanLast pl.sw rs, rateLong := meanLast pl.lw rs, latest := dc }
  else
    { pl with rates := rs, rate := filt p.filter rs, latest := dc }

/-- constructor of the planner for a site that is neither pooled nor queued; the stationary planner
starts with both rolling rates at 0 whatever the first measurement was -/
def newPlan (p : Params) (r : Rec) (dc : Int) : Plan :=
  { site := r.site, rate := if p.stationary then 0 else r.rate, rateLong := 0,
    rates := [r.rate], latest := dc, sw := p.sw, lw := p.lw }

def geInst (p : Params) (r : Rat) : Bool :=
  match p.inst with
  | none => false
  | some t => decide (t ≤ r)

/-- `should_follow_up(small_window_threshold)` -/
def followShort (p : Params) (pl : Plan) : Bool := decide (p.sthr ≤ pl.rate)
/-- `should_follow_up_long(large_window_threshold)`: both numbers must be truthy -/
def followLong (p : Params) (pl : Plan) : Bool :=
  decide (p.lthr ≠ 0) && decide (pl.rateLong ≠ 0) && decide (p.lthr ≤ pl.rateLong)

/-! ### state -/

/-- what the follow-up schedule owns, shared by every screening method bound to it, plus the sites'
latest tagging survey dates -/
structure Shared where
  queue : List QE := []
  inQueue : Nat → Bool := fun _ => false       -- `_site_IDs_in_queue`
  latestTag : Nat → Int := fun _ => 0
  err : Bool := false                          -- the real code would have raised (plan not found)
  flags : Nat → Nat := fun _ => 0              -- ghost: flag events per site
  dropped : Nat → Nat := fun _ => 0            -- ghost: queued requests withdrawn (rate fell below the threshold)
  done : Nat → Nat := fun _ => 0               -- ghost: completed follow-up surveys per site
  visits : List Visit := []                    -- ghost: every planned follow-up request and its outcome

/-- what one screening method owns -/
structure MState where
  pool : List Plan := []                       -- `_candidates_for_flags`
  inPool : Nat → Bool := fun _ => false        -- `_site_IDs_in_consideration_for_flag`
  firstCand : Option Int := none               -- `_first_candidate_date`
  count : Nat := 0                             -- `_detection_count`
  records : List Rec := []                     -- `_detection_records`
  nflags : Nat := 0                            -- return value of the last `update`
  today : Int := 0                             -- ghost: date of the last `update`
  evs : List FlagEv := []                      -- ghost: every flag event so far
  released : List Rec := []                    -- ghost: every record released and not discarded so far

structure St where
  m : MState := {}
  sh : Shared := {}

/-- `add_to_survey_queue` (class 3) / `add_previous_queued_to_survey_queue` (class 2) /
`add_unfinished_to_survey_queue` (class 1): a plan whose follow-up survey is already started keeps
class 1 whichever entry point is used -/
def enqueue (cls : Nat) (pl : Plan) (sh : Shared) : Shared :=
  { sh with queue := qInsert { cls := if pl.inProg then 1 else cls, plan := pl } sh.queue }

def mkEv (pl : Plan) (route : Route) (d first tag : Int) : FlagEv :=
  { site := pl.site, rate := pl.rate, rateLong := pl.rateLong, rates := pl.rates, route := route,
    recDate := pl.latest, day := d, first := first, tagAtFlag := tag }

/-- a new request enters the follow-up queue: class, flag, ghost event and counter -/
def flagSite (cls : Nat) (pl : Plan) (route : Route) (d first : Int) (st : St) : St :=
  { m := { st.m with evs := st.m.evs ++ [mkEv pl route d first (st.sh.latestTag pl.site)] },
    sh := { enqueue cls pl st.sh with inQueue := setB st.sh.inQueue pl.site true,
                                       flags := bump st.sh.flags pl.site } }

/-- `Method.deploy_crews` files the record of a completed screening survey under the survey date -/
def screen (r : Rec) (m : MState) : MState := { m with records := m.records ++ [r] }

/-- `update_mobile(date_to_check, detection_record)` on day `d` -/
def updMobile (p : Params) (d dc : Int) (r : Rec) (st : St) : St :=
  if st.m.inPool r.site then
    match poolTake r.site st.m.pool with
    | (none, _) => { st with sh := { st.sh with err := true } }
    | (some pl, pool') =>
      let pl' := updPlan p pl r.rate dc
      if geInst p pl'.rate then
        flagSite 2 pl' .instant d d
          { st with m := { st.m with pool := pool', inPool := setB st.m.inPool r.site false } }
      else if p.thr ≤ pl'.rate then
        { st with m := { st.m with pool := poolInsert pl' pool' } }
      else
        { st with m := { st.m with pool := pool', inPool := setB st.m.inPool r.site false } }
  else if st.sh.inQueue r.site then
    match qFindLast r.site st.sh.queue with
    | none => { st with sh := { st.sh with err := true } }
    | some pl =>
      let pl' := updPlan p pl r.rate dc
      let sh' := { st.sh with queue := qRemove r.site st.sh.queue }
      if geInst p pl'.rate then { st with sh := enqueue 2 pl' sh' }
      else if p.thr ≤ pl'.rate then { st with sh := enqueue 3 pl' sh' }
      else { st with sh := { sh' with inQueue := setB sh'.inQueue r.site false,
                                      dropped := bump sh'.dropped r.site } }
  else
    if geInst p r.rate then flagSite 2 (newPlan p r dc) .instant d d st
    else if r.rate ≠ 0 ∧ p.thr ≤ r.rate then
      { st with m := { st.m with pool := poolInsert (newPlan p r dc) st.m.pool,
                                 inPool := setB st.m.inPool r.site true } }
    else if 0 < r.rate then { st with m := { st.m with count := st.m.count + 1 } }
    else st

/-- `update_stationary(date_to_check, detection_record)` on day `d` -/
def updStationary (p : Params) (d dc : Int) (r : Rec) (st : St) : St :=
  if st.m.inPool r.site then
    match poolTake r.site st.m.pool with
    | (none, _) => { st with sh := { st.sh with err := true } }
    | (some pl, pool') =>
      let pl' := updPlan p pl r.rate dc
      if geInst p pl'.rate then
        flagSite 2 pl' .instant d d
          { st with m := { st.m with pool := pool', inPool := setB st.m.inPool r.site false } }
      else
        { st with m := { st.m with pool := poolInsert pl' pool' } }
  else if st.sh.inQueue r.site then
    match qFindLast r.site st.sh.queue with
    | none => { st with sh := { st.sh with err := true } }
    | some pl =>
      let pl' := updPlan p pl r.rate dc
      let sh' := { st.sh with queue := qRemove r.site st.sh.queue }
      if geInst p pl'.rate then { st with sh := enqueue 2 pl' sh' }
      else { st with sh := enqueue 3 pl' sh' }
  else
    { st with m := { st.m with pool := poolInsert (newPlan p r dc) st.m.pool,
                               inPool := setB st.m.inPool r.site true } }

/-- one released record: the stale check against the site's latest tagging survey, then routing -/
def processRec (p : Params) (d dc : Int) (st : St) (r : Rec) : St :=
  if st.sh.latestTag r.site ≤ dc then
    let st' := { st with m := { st.m with released := st.m.released ++ [r] } }
    if p.stationary then updStationary p d dc r st' else updMobile p d dc r st'
  else st

/-- `_filter_candidates_by_proportion`: number of candidates kept, `n` pooled candidates, `c` the
counter of non-zero sub-threshold detections -/
def keepCount (p : Params) (n c : Nat) : Nat :=
  if p.thrFirst then (((n : Int) : Rat) * p.prop).ceil.toNat
  else min (((c : Int) : Rat) * p.prop).ceil.toNat n

/-- the loop body of `update_candidates_for_flags` for one kept candidate -/
def flagOne (p : Params) (d first : Int) (st : St) (pl : Plan) : St :=
  if p.stationary ∧ ¬ followShort p pl ∧ ¬ followLong p pl then
    { st with m := { st.m with pool := poolInsert pl st.m.pool } }
  else
    flagSite 3 pl .pool d first
      { st with m := { st.m with inPool := setB st.m.inPool pl.site false, nflags := st.m.nflags + 1 } }

/-- a flagging decision: filter by proportion, reset pool / counter / first-candidate date, queue -/
def decideNow (p : Params) (d first : Int) (st : St) : St :=
  let k := keepCount p st.m.pool.length st.m.count
  let kept := st.m.pool.take k
  let rej := st.m.pool.drop k
  let inPool' := rej.foldl (fun f pl => setB f pl.site false) st.m.inPool
  let st1 : St := { st with m := { st.m with pool := [], count := 0, firstCand := none, inPool := inPool' } }
  kept.foldl (flagOne p d first) st1

/-- `update_candidates_for_flags(current_date)` -/
def updateCandidates (p : Params) (d : Int) (st : St) : St :=
  match st.m.firstCand with
  | none =>
    if st.m.pool.isEmpty then st
    else if d - d ≥ p.delay then decideNow p d d { st with m := { st.m with firstCand := some d } }
    else { st with m := { st.m with firstCand := some d } }
  | some fc => if d - fc ≥ p.delay then decideNow p d fc st else st

/-- `SiteLevelMethod.update(current_date)` -/
def dailyUpdate (p : Params) (d : Int) (st : St) : St :=
  let dc := d - p.rd
  let rel := st.m.records.filter (fun r => r.date = dc)
  let rest := st.m.records.filter (fun r => r.date ≠ dc)
  let st0 : St := { st with m := { st.m with records := rest, today := d, nflags := 0 } }
  updateCandidates p d (rel.foldl (processRec p d dc) st0)

/-! ### the follow-up method's day -/

/-- `Workplan`: plans keyed by site id — first position, last value -/
def dedupPlans (l : List QE) : List Plan :=
  l.foldl (fun acc e =>
      if acc.any (fun a => a.site = e.plan.site) then
        acc.map (fun a => if a.site = e.plan.site then e.plan else a)
      else acc ++ [e.plan]) []

/-- `FollowUpMobileSchedule.update` for one report (`followUpDone` is the `.complete` case: flag
cleared; the completed survey of the tagging follow-up method stamps the site) -/
def applyOutcome (d : Int) (outs : Nat → Outcome) (sh0 : Shared) (pl : Plan) : Shared :=
  let v : Visit := Visit.mk pl.site pl.latest (sh0.latestTag pl.site) d (outs pl.site)
  let sh : Shared := { sh0 with visits := sh0.visits ++ [v] }
  match outs pl.site with
  | .complete => { sh with inQueue := setB sh.inQueue pl.site false,
                           latestTag := setI sh.latestTag pl.site d,
                           done := bump sh.done pl.site }
  | .inProgress => enqueue 1 { pl with inProg := true } sh
  | .unattended => enqueue 2 pl sh

/-- plans taken for the day (`get_daily_sites_to_survey`: crews × daily capacity = `cap`) -/
def planned (cap : Nat) (sh : Shared) : List Plan := dedupPlans (sh.queue.take cap)

/-- get_workplan → deploy_crews (outcomes are inputs) → schedule.update -/
def followUpDay (cap : Nat) (d : Int) (outs : Nat → Outcome) (sh : Shared) : Shared :=
  (planned cap sh).foldl (applyOutcome d outs) { sh with queue := sh.queue.drop cap }

/-- a completed survey of any other tagging method -/
def tagSite (s : Nat) (d : Int) (sh : Shared) : Shared := { sh with latestTag := setI sh.latestTag s d }

/-! ### one screening method bound to the follow-up method -/

inductive Op1
  | screen (site : Nat) (rate : Rat) (date : Int)
  | update (d : Int)
  | fuDay (d : Int) (outs : Nat → Outcome)
  | tag (site : Nat) (d : Int)

def step1 (p : Params) (cap : Nat) (st : St) : Op1 → St
  | .screen s r d => { st with m := screen (Rec.mk d s r) st.m }
  | .update d => dailyUpdate p d st
  | .fuDay d outs => { st with sh := followUpDay cap d outs st.sh }
  | .tag s d => { st with sh := tagSite s d st.sh }

def run1 (p : Params) (cap : Nat) (ops : List Op1) : St := ops.foldl (step1 p cap) {}

/-! ### several screening methods bound to the same follow-up method (program.py) -/

structure Sys where
  ms : List MState := []
  sh : Shared := {}

inductive Op
  | screen (i : Nat) (site : Nat) (rate : Rat) (date : Int)
  | update (i : Nat) (d : Int)
  | fuDay (d : Int) (outs : Nat → Outcome)
  | tag (site : Nat) (d : Int)

def stepSys (ps : List Params) (cap : Nat) (sy : Sys) : Op → Sys
  | .screen i s r d =>
    match sy.ms[i]? with
    | some m => { sy with ms := sy.ms.set i (screen (Rec.mk d s r) m) }
    | none => sy
  | .update i d =>
    match ps[i]?, sy.ms[i]? with
    | some p, some m =>
      let st := dailyUpdate p d { m := m, sh := sy.sh }
      { ms := sy.ms.set i st.m, sh := st.sh }
    | _, _ => sy
  | .fuDay d outs => { sy with sh := followUpDay cap d outs sy.sh }
  | .tag s d => { sy with sh := tagSite s d sy.sh }

def initSys (ps : List Params) : Sys := { ms := ps.map (fun _ => {}), sh := {} }

def runSys (ps : List Params) (cap : Nat) (ops : List Op) : Sys :=
  ops.foldl (stepSys ps cap) (initSys ps)

/-- number of requests for a site waiting in the follow-up queue -/
def outstanding (q : List QE) (s : Nat) : Nat := q.countP (fun e => e.plan.site = s)

end LdarModel.FollowUp
