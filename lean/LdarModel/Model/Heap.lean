/-
C01 — who sees which pre-generated emissions.

Modelled code:
  Source.activate_emissions (sources.py:380-409): per source a pending list consumed by `pop()` plus a
      one-element cursor `_next_emission`; the loop stops at the first emission whose start lies in
      the future.
  initialize_emissions.read_in_emissions / Source.set_pregen_emissions: the scenario of one simulation
      number is loaded once into the shared infrastructure.
  simulation_helpers.simulate: every program works on `copy.deepcopy(infrastructure)`.
  SimulationManager._run_simulations_debug / _run_simulation_multiprocessing: programs run one after
      another on the same object (debug) or in worker processes, each task on its own pickled copy.

A store entry (`EmId`) is one pre-generated emission object: its identity (id, start, rate,
repairability, natural end — never written after generation) plus `life`, an abstraction of all its
mutable life-cycle fields (their actual dynamics are Model/Emission.lean).  The first half of the file
(`drain` … `sortedByStart`) is the cursor loop and the identity-level interpreters; the second half
adds infrastructure *objects* (`SrcO`, `Infra`: pending lists + the emissions the components hold),
arbitrary program behaviours (`Beh`), `deepcopy`, and the object-level interpreters `runSeqO` /
`runScheduleO` in which `copied` means "run on `deepcopy` of the object" and `shared` "in place".
Core Lean only, executable.
-/
namespace LdarModel.Heap

/-- a store entry: one pre-generated emission object.  `id`, `start`, `rate` (g/s × 1024),
`repairable`, `nrd` (natural repair delay / duration) are its identity — written once by
`Source._create_emission`, never afterwards; `life` stands for all its mutable life-cycle fields
(status, days active, tag state, repair date, …) abstracted to one number, `0` = as generated.
(The fields after `start` were added in the strengthening round; they default so that
`{ id := i, start := s }` still denotes a pristine emission.) -/
structure EmId where
  id : Nat
  start : Int
  rate : Int := 0
  repairable : Bool := true
  nrd : Int := 0
  life : Nat := 0
  deriving DecidableEq, Repr, Inhabited

/-- one source of the shared infrastructure: pending list in pop order (head = next to pop) and the
cursor `_next_emission` -/
structure Src where
  pending : List EmId
  next : Option EmId := none
  deriving DecidableEq, Repr, Inhabited

/-- the `while focus and focus.activate(date)` loop -/
def drain (day : Int) : Option EmId → List EmId → List EmId → (List EmId × Option EmId × List EmId)
  | none, pend, acc => (acc.reverse, none, pend)
  | some f, pend, acc =>
    if f.start ≤ day then
      match pend with
      | [] => ((f :: acc).reverse, none, [])
      | g :: rest => drain day (some g) rest (f :: acc)
    else (acc.reverse, some f, pend)
termination_by _ pend _ => pend.length

/-- `Source.activate_emissions(date)`: returns the newly activated emissions and the new source state -/
def activateSrc (day : Int) (s : Src) : List EmId × Src :=
  match s.next, s.pending with
  | none, g :: rest =>
    let (act, nx, pend) := drain day (some g) rest []
    (act, { pending := pend, next := nx })
  | nx, pend =>
    let (act, nx', pend') := drain day nx pend []
    (act, { pending := pend', next := nx' })

/-- a world: the sources of the infrastructure (site/equipment/component structure is irrelevant here) -/
abbrev Store := List Src

/-- everything a source still holds, in pop order: the cursor first, then the pending list -/
def Src.all (s : Src) : List EmId := (match s.next with | none => [] | some f => [f]) ++ s.pending

/-- one program run over `k` days starting at `day` on a store (day-major, as the simulator iterates):
per source the identities the program is confronted with, in activation order, and the store it
leaves behind.  What the program does to activated emissions (tag, record, repair) never touches
the store. -/
def runProgram : Nat → Int → Store → List (List EmId) × Store
  | 0, _, st => (st.map (fun _ => []), st)
  | k + 1, day, st =>
    let r := st.map (activateSrc day)
    let rec' := runProgram k (day + 1) (r.map (·.2))
    (List.zipWith (· ++ ·) (r.map (·.1)) rec'.1, rec'.2)

/-- the same for one source alone -/
def runSrc : Nat → Int → Src → List EmId × Src
  | 0, _, s => ([], s)
  | k + 1, day, s =>
    let r := activateSrc day s
    let rec' := runSrc k (day + 1) r.2
    (r.1 ++ rec'.1, rec'.2)

inductive Mode | copied | shared
  deriving DecidableEq, Repr

/-- programs simulated one after another on one infrastructure object; `copied`: each on a deep copy
(the object stays untouched), `shared`: on the object itself -/
def runSeq (m : Mode) (N : Nat) : List Nat → Store → List (Nat × List (List EmId))
  | [], _ => []
  | p :: ps, st =>
    let r := runProgram N 0 st
    (p, r.1) :: runSeq m N ps (match m with | .copied => st | .shared => r.2)

/-- a schedule: the programs partitioned over workers, each worker running its list sequentially on
its own copy of the loaded scenario (pickled task arguments) -/
def runSchedule (m : Mode) (N : Nat) (workers : List (List Nat)) (g : Store) :
    List (Nat × List (List EmId)) :=
  (workers.map (fun ps => runSeq m N ps g)).flatten

/-- what a program should be confronted with, per source: every emission of the scenario that starts
on or before the last simulated day -/
def expected (N : Nat) (g : Store) : List (List EmId) :=
  g.map (fun s => s.all.filter (fun e => decide (e.start ≤ (N : Int) - 1)))

def sortedByStart : List EmId → Bool
  | [] => true
  | [_] => true
  | a :: b :: rest => decide (a.start ≤ b.start) && sortedByStart (b :: rest)

/-! ### emission objects with mutable life-cycle fields, program behaviours, copy vs in place

The definitions above describe who is *handed* which emission.  What follows adds what the audit of
C01 found missing: the emission objects themselves are mutable and sit in the infrastructure (in the
pending lists until handed out, afterwards in the component's active / inactive lists), a program
does arbitrary things to the emissions it holds, and `copied` / `shared` differ in whether those
mutations (and the consumed lists) are visible to the next program. -/

/-- identity view of a store entry (life-cycle fields erased) -/
def ident (e : EmId) : EmId := { e with life := 0 }

/-- "Theoretical End Date" of the record of a repairable emission (`calc_theory_date`); for a
non-repairable one the column shows the expiry date (a life-cycle field, compared by C03) -/
def EmId.theoEnd (e : EmId) : Option Int := if e.repairable then some (e.start + e.nrd) else none

/-- what a program does, on day `d`, to an emission it holds at source number `tag` (tagging,
recording, repairing, ageing, …): the new value of the life-cycle fields.  Arbitrary — theorems
quantify over it. -/
abbrev Beh := Int → Nat → EmId → Nat

def touch (b : Beh) (day : Int) (tag : Nat) (e : EmId) : EmId := { e with life := b day tag e }

/-- one source of an infrastructure *object*: which source it is, its pending list + cursor, and the
emission objects already handed to the component (its `_active_emissions` + `_inactive_emissions`) -/
structure SrcO where
  tag : Nat := 0
  src : Src
  held : List EmId := []
  deriving DecidableEq, Repr, Inhabited

abbrev Infra := List SrcO

/-- one simulated day at one source object: `activate_emissions` hands the started emissions to the
component, then the program (deploy + daily update) mutates every emission the component holds -/
def daySrcO (b : Beh) (day : Int) (s : SrcO) : List EmId × SrcO :=
  let r := activateSrc day s.src
  (r.1, { s with src := r.2, held := (s.held ++ r.1).map (touch b day s.tag) })

/-- a program with behaviour `b` run for `k` days from `day` on an infrastructure object, in place:
per source the emission objects *as they were handed out* (life-cycle fields as found in the pending
list), and the infrastructure object it leaves behind -/
def runProgramO (b : Beh) : Nat → Int → Infra → List (List EmId) × Infra
  | 0, _, inf => (inf.map (fun _ => []), inf)
  | k + 1, day, inf =>
    let r := inf.map (daySrcO b day)
    let rec' := runProgramO b k (day + 1) (r.map (·.2))
    (List.zipWith (· ++ ·) (r.map (·.1)) rec'.1, rec'.2)

/-- everything a program is confronted with on an infrastructure object: per source the emission
objects its components already hold when it starts (as found), then the ones handed out (as found) -/
def facedBy (b : Beh) (N : Nat) (inf : Infra) : List (List EmId) × Infra :=
  let r := runProgramO b N 0 inf
  (List.zipWith (· ++ ·) (inf.map (·.held)) r.1, r.2)

/-- `copy.deepcopy` / pickling of one emission through `__reduce__` = rebuild from its `__dict__` -/
def copyEm (e : EmId) : EmId :=
  { id := e.id, start := e.start, rate := e.rate, repairable := e.repairable, nrd := e.nrd, life := e.life }

/-- `copy.deepcopy(infrastructure)`: a new object graph with the same content -/
def deepcopy (inf : Infra) : Infra :=
  inf.map (fun s => { tag := s.tag,
                      src := { pending := s.src.pending.map copyEm, next := s.src.next.map copyEm },
                      held := s.held.map copyEm })

/-- programs (number, behaviour) simulated one after another on one infrastructure object.
`copied`: each runs on `deepcopy` of the object, the object itself is handed on as it was;
`shared`: each runs on the object itself and hands on what it left behind -/
def runSeqO (m : Mode) (N : Nat) : List (Nat × Beh) → Infra → List (Nat × List (List EmId))
  | [], _ => []
  | (p, b) :: ps, inf =>
    match m with
    | .copied => (p, (facedBy b N (deepcopy inf)).1) :: runSeqO m N ps inf
    | .shared =>
      let r := facedBy b N inf
      (p, r.1) :: runSeqO m N ps r.2

/-- a schedule: the programs partitioned over workers; every worker receives its own pickled copy of
the loaded scenario and runs its programs sequentially in mode `m` -/
def runScheduleO (m : Mode) (N : Nat) (workers : List (List (Nat × Beh))) (g : Infra) :
    List (Nat × List (List EmId)) :=
  (workers.map (fun ps => runSeqO m N ps (deepcopy g))).flatten

/-- the scenario as loaded by `read_in_emissions`: nothing handed out yet -/
def pristine (g : Infra) : Prop := ∀ s ∈ g, s.held = []

instance (g : Infra) : Decidable (pristine g) := by unfold pristine; infer_instance

/-- the source states after the first `n` days (days `0 .. n-1`) -/
def srcAfter (n : Nat) (s : Src) : Src := (runSrc n 0 s).2

/-- the emissions a source hands out on day `n` -/
def handedOutOn (n : Nat) (s : Src) : List EmId := (activateSrc (n : Int) (srcAfter n s)).1

/-! ### the next simulation number on the same infrastructure object -/

/-- `set_pregen_emissions` (sources.py: `_generated_emissions.clear()` + one assignment): the pending
lists of the next simulation number replace the old ones; the cursor `_next_emission` and the
emissions the components hold are NOT reset -/
def loadScenario (lists : List (List EmId)) (inf : Infra) : Infra :=
  List.zipWith (fun l s => { s with src := { s.src with pending := l } }) lists inf

/-- an infrastructure object on which no program has ever run: nothing held, no cursor -/
def fresh (g : Infra) : Prop := ∀ s ∈ g, s.held = [] ∧ s.src.next = none

instance (g : Infra) : Decidable (fresh g) := by unfold fresh; infer_instance

end LdarModel.Heap
