/-
C01 — who sees which pre-generated emissions.

Modelled code:
  Source.activate_emissions (sources.py:380-409): per source a pending list consumed by `pop()` plus a
      one-element cursor `_next_emission`; the loop stops at the first emission whose start lies in
      the future.
  initialize_emissions.read_in_emissions / Source.set_pregen_emissions: the scenario of one simulation
      number is loaded once into the shared infrastructure.
  simulation_helpers.simulate: every program works on `copy.deepcopy(infrastructure)`.
  SimulationManager._run_simulations_debug / _run_simulation_multiprocessing: programs run one after
      another on the same object (debug) or in worker processes, each task on its own pickled copy.

An emission is represented by its identity `(id, start)`; rate, repairability, natural end date are
immutable attributes that travel with the id (they are never written after generation), life-cycle
fields live elsewhere (Model/Emission.lean) and are private to a program's copy.
Core Lean only, executable.
-/
namespace LdarModel.Heap

structure EmId where
  id : Nat
  start : Int
  deriving DecidableEq, Repr, Inhabited

/-- one source of the shared infrastructure: pending list in pop order (head = next to pop) and the
cursor `_next_emission` -/
structure Src where
  pending : List EmId
  next : Option EmId := none
  deriving DecidableEq, Repr, Inhabited

/-- the `while focus and focus.activate(date)` loop -/
def drain (day : Int) : Option EmId → List EmId → List EmId → (List EmId × Option EmId × List EmId)
  | none, pend, acc => (acc.reverse, none, pend)
  | some f, pend, acc =>
    if f.start ≤ day then
      match pend with
      | [] => ((f :: acc).reverse, none, [])
      | g :: rest => drain day (some g) rest (f :: acc)
    else (acc.reverse, some f, pend)
termination_by _ pend _ => pend.length

/-- `Source.activate_emissions(date)`: returns the newly activated emissions and the new source state -/
def activateSrc (day : Int) (s : Src) : List EmId × Src :=
  match s.next, s.pending with
  | none, g :: rest =>
    let (act, nx, pend) := drain day (some g) rest []
    (act, { pending := pend, next := nx })
  | nx, pend =>
    let (act, nx', pend') := drain day nx pend []
    (act, { pending := pend', next := nx' })

/-- a world: the sources of the infrastructure (site/equipment/component structure is irrelevant here) -/
abbrev Store := List Src

/-- everything a source still holds, in pop order: the cursor first, then the pending list -/
def Src.all (s : Src) : List EmId := (match s.next with | none => [] | some f => [f]) ++ s.pending

/-- one program run over `k` days starting at `day` on a store (day-major, as the simulator iterates):
per source the identities the program is confronted with, in activation order, and the store it
leaves behind.  What the program does to activated emissions (tag, record, repair) never touches
the store. -/
def runProgram : Nat → Int → Store → List (List EmId) × Store
  | 0, _, st => (st.map (fun _ => []), st)
  | k + 1, day, st =>
    let r := st.map (activateSrc day)
    let rec' := runProgram k (day + 1) (r.map (·.2))
    (List.zipWith (· ++ ·) (r.map (·.1)) rec'.1, rec'.2)

/-- the same for one source alone -/
def runSrc : Nat → Int → Src → List EmId × Src
  | 0, _, s => ([], s)
  | k + 1, day, s =>
    let r := activateSrc day s
    let rec' := runSrc k (day + 1) r.2
    (r.1 ++ rec'.1, rec'.2)

inductive Mode | copied | shared
  deriving DecidableEq, Repr

/-- programs simulated one after another on one infrastructure object; `copied`: each on a deep copy
(the object stays untouched), `shared`: on the object itself -/
def runSeq (m : Mode) (N : Nat) : List Nat → Store → List (Nat × List (List EmId))
  | [], _ => []
  | p :: ps, st =>
    let r := runProgram N 0 st
    (p, r.1) :: runSeq m N ps (match m with | .copied => st | .shared => r.2)

/-- a schedule: the programs partitioned over workers, each worker running its list sequentially on
its own copy of the loaded scenario (pickled task arguments) -/
def runSchedule (m : Mode) (N : Nat) (workers : List (List Nat)) (g : Store) :
    List (Nat × List (List EmId)) :=
  (workers.map (fun ps => runSeq m N ps g)).flatten

/-- what a program should be confronted with, per source: every emission of the scenario that starts
on or before the last simulated day -/
def expected (N : Nat) (g : Store) : List (List EmId) :=
  g.map (fun s => s.all.filter (fun e => decide (e.start ≤ (N : Int) - 1)))

def sortedByStart : List EmId → Bool
  | [] => true
  | [_] => true
  | a :: b :: rest => decide (a.start ≤ b.start) && sortedByStart (b :: rest)

end LdarModel.Heap
