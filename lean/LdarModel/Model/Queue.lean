/-
Model of the survey queue of a method (core Lean only, executable).

Source modelled:
  utils/queue.py                         PriorityQueueWithFIFO: entries (priority, counter, item) in a
                                         binary heap; `put` stamps a fresh counter; `get` pops the
                                         minimum of the Python tuple order
  scheduling/generic_schedule.py         priorities 3 (new) / 2 (popped for a day, not attended) /
                                         1 (started, not finished); get_daily_sites_to_survey
  scheduling/stationary_schedule.py      get_daily_sites_to_survey (everything)
  scheduling/follow_up_mobile_schedule.py  priority = (class, rate_at_site); get_plan_from_queue

A heap is represented by its specification: the list of entries sorted by the tuple order
((class, rate), counter); `get` removes the head.  Routine schedules use rate 0.
-/
namespace LdarModel.Sched

/-- the three priority classes of `GenericSchedule` -/
def prioNew : Nat := 3
def prioUnattended : Nat := 2
def prioUnfinished : Nat := 1

structure Entry where
  cls : Nat      -- priority class
  rate : Int     -- second component of a follow-up priority (0 for routine schedules)
  fifo : Nat     -- the tie-breaking counter of PriorityQueueWithFIFO
  site : Nat     -- the item: the planner of this site
  deriving DecidableEq, Repr, Inhabited

/-- Python's order on `((cls, rate), counter)` -/
def keyLt (a b : Entry) : Prop :=
  a.cls < b.cls ∨ (a.cls = b.cls ∧ (a.rate < b.rate ∨ (a.rate = b.rate ∧ a.fifo < b.fifo)))

instance (a b : Entry) : Decidable (keyLt a b) := by unfold keyLt; infer_instance

/-- insertion into the sorted entry list -/
def insertE (e : Entry) : List Entry → List Entry
  | [] => [e]
  | x :: xs => if keyLt e x then e :: x :: xs else x :: insertE e xs

structure Queue where
  entries : List Entry := []
  next : Nat := 0            -- `itertools.count()` of this queue object
  deriving Repr, Inhabited

def Queue.empty : Queue := {}

/-- `PriorityQueueWithFIFO.put(priority, item)` -/
def Queue.put (q : Queue) (cls : Nat) (rate : Int) (site : Nat) : Queue :=
  { entries := insertE { cls := cls, rate := rate, fifo := q.next, site := site } q.entries,
    next := q.next + 1 }

/-- `queue.PriorityQueue.get()` on a non-empty queue -/
def Queue.get (q : Queue) : Option (Entry × Queue) :=
  match q.entries with
  | [] => none
  | e :: es => some (e, { q with entries := es })

/-- up to `n` successive `get`s (`get_daily_sites_to_survey`: crews × daily surveys, stops when empty) -/
def Queue.takeN : Nat → Queue → List Entry × Queue
  | 0, q => ([], q)
  | n + 1, q =>
    match q.get with
    | none => ([], q)
    | some (e, q') => let r := Queue.takeN n q'; (e :: r.1, r.2)

def Queue.sites (q : Queue) : List Nat := q.entries.map (·.site)

/-- `FollowUpMobileSchedule.get_plan_from_queue`: pop everything, keep the (last) plan of the site
aside, re-insert the others into a *new* queue object (fresh counter) in pop order -/
def Queue.extract (q : Queue) (site : Nat) : Option Entry × Queue :=
  let target := (q.entries.filter (fun e => e.site = site)).getLast?
  let others := q.entries.filter (fun e => e.site ≠ site)
  (target, others.foldl (fun nq e => nq.put e.cls e.rate e.site) Queue.empty)

end LdarModel.Sched
