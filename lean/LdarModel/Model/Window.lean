/-
Model of the estimation-window computation of LDAR-Sim (core Lean only, executable).

Source modelled (one Lean function per Python function):
  file_processing/output_processing/program_output_helpers.py
      calculate_prev_condition / calculate_next_condition   prevCond / nextCond
      calculate_factor (no longer used by the two helpers)  Fac.num
      determine_prev_date / determine_next_date,
      calculate_duration_between_dates                      the gaps inside `winsFrom`
      calculate_end_date / calculate_start_date (repaired,
        commits b848134, 1d050d2)                           endOffset / startOffset
      the same two before the repairs, exact arithmetic     endOffsetOrig / startOffsetOrig
      calculate_volume_emitted                              Win.days / Win.volNum
  file_processing/output_processing/program_output.py
      determine_start_and_end_dates (repaired, eb03b8f)     winsFrom over one group
      gen_estimated_emissions_report                        report .site
      gen_estimated_comp_emissions_report                   report .comp (zero filling, sentinels)

Dates are `Int` day numbers.  The duration factor is the exact rational `p / q`; measured rates are
integers over a common scale (`rate / scale` g/s).  `⌊g · n / q⌋` is `(g * n) / q` (Lean's `Int`
division rounds towards −∞ for a positive divisor).

The only place where the real code uses floating point is the product `duration * factor` under
`np.floor` / `np.ceil`.  The model is therefore parametric in a `Rounding` (duration ↦ the integers
the code obtains for `floor(duration * factor)` and `ceil(duration * factor)`); `exactRounding` is
the rounding of exact arithmetic.
-/
namespace LdarModel.Window

/-- one survey row of one group: completion date and measured rate (scaled integer) -/
structure Row where
  date : Int
  rate : Int
  deriving DecidableEq, Repr, Inhabited

/-- one estimation window `[start, stop)` attached to the survey row it extrapolates -/
structure Win where
  start : Int
  stop : Int
  date : Int
  rate : Int
  deriving DecidableEq, Repr, Inhabited

/-- `Use Next Condition` of a row with rate `r` followed by a row with rate `rn`:
`grouped[M_RATE].diff(-1) < 0` -/
def nextCond (r rn : Int) : Bool := decide (r - rn < 0)

/-- `Use Previous Condition` of a row with rate `r` preceded by a row with rate `rp`:
`grouped[M_RATE].diff() <= 0` -/
def prevCond (rp r : Int) : Bool := decide (r - rp ≤ 0)

/-- the duration factor `f = p / q` -/
structure Fac where
  p : Int
  q : Int
  deriving DecidableEq, Repr, Inhabited

/-- `0 ≤ f ≤ 1` with a positive denominator -/
def Fac.Valid (f : Fac) : Prop := 0 < f.q ∧ 0 ≤ f.p ∧ f.p ≤ f.q

instance (f : Fac) : Decidable f.Valid := by unfold Fac.Valid; exact inferInstance

/-- `calculate_factor`: numerator (over `q`) of `np.where(condition, 1 - factor, factor)` -/
def Fac.num (f : Fac) (c : Bool) : Int := if c then f.q - f.p else f.p

/-- the only place where the code rounds: what it obtains for `np.floor(duration * factor)` (`lo`)
and for `np.ceil(duration * factor)` (`hi`), as functions of the duration -/
structure Rounding where
  lo : Int → Int
  hi : Int → Int

/-- the rounding of exact arithmetic: `⌊g · f⌋` and `⌈g · f⌉` -/
def exactRounding (f : Fac) : Rounding :=
  { lo := fun g => (g * f.p) / f.q, hi := fun g => -((-(g * f.p)) / f.q) }

/-- `calculate_end_date` (repaired): days after the survey date.  Next condition False (this row is
the larger or equal measurement): `floor(duration * factor)`; True: what the next row's
`ceil(duration * factor)` leaves -/
def endOffset (ρ : Rounding) (g : Int) (c : Bool) : Int := if c then g - ρ.hi g else ρ.lo g

/-- `calculate_start_date` (repaired): days before the survey date.  Previous condition False (this
row is the larger measurement): `ceil(duration * factor)`; True: what the previous row's
`floor(duration * factor)` leaves -/
def startOffset (ρ : Rounding) (g : Int) (c : Bool) : Int := if c then g - ρ.lo g else ρ.hi g

/-- `calculate_end_date` as it was before the repairs, in exact arithmetic:
`floor(duration * np.where(condition, 1 - factor, factor))` -/
def endOffsetOrig (f : Fac) (g : Int) (c : Bool) : Int := (g * f.num c) / f.q

/-- `calculate_start_date` as it was before the repairs, in exact arithmetic:
`ceil(duration * np.where(condition, 1 - factor, factor))` -/
def startOffsetOrig (f : Fac) (g : Int) (c : Bool) : Int := -((-(g * f.num c)) / f.q)

/-- `determine_start_and_end_dates` on the date-sorted rows of one group.  `prev` is the row
before the current one (`none` for the first row: `shift(1).fillna(own date)` gives a zero gap
and `diff()` gives NaN, i.e. condition False; likewise for the last row). -/
def winsFrom (ρ : Rounding) : Option Row → List Row → List Win
  | _, [] => []
  | prev, x :: rest =>
    let so := match prev with
      | none => startOffset ρ 0 false
      | some y => startOffset ρ (x.date - y.date) (prevCond y.rate x.rate)
    let eo := match rest with
      | [] => endOffset ρ 0 false
      | z :: _ => endOffset ρ (z.date - x.date) (nextCond x.rate z.rate)
    { start := x.date - so, stop := x.date + eo, date := x.date, rate := x.rate }
      :: winsFrom ρ (some x) rest

/-- the two condition columns of the date-sorted rows of one group, row by row:
(`Use Previous Condition`, `Use Next Condition`).  The first row has no previous row and the last no next
row (`diff()` gives NaN there, the comparison False). -/
def condsFrom : Option Row → List Row → List (Bool × Bool)
  | _, [] => []
  | prev, x :: rest =>
    ((match prev with | none => false | some y => prevCond y.rate x.rate),
     (match rest with | [] => false | z :: _ => nextCond x.rate z.rate)) :: condsFrom (some x) rest

/-- `calculate_volume_emitted`: window days -/
def Win.days (w : Win) : Int := w.stop - w.start

/-- numerator of the estimated volume `rate/scale · days · 864/10` over the denominator
`10 · scale` -/
def Win.volNum (w : Win) : Int := w.rate * w.days * 864

/-- `sort_values` is stable: a new row goes behind the rows with the same date -/
def insertByDate (x : Row) : List Row → List Row
  | [] => [x]
  | y :: ys => if x.date < y.date then x :: y :: ys else y :: insertByDate x ys

def sortByDate (l : List Row) : List Row := l.foldl (fun acc x => insertByDate x acc) []

/-- rows of one group as the report functions build them: the group's own rows, then a sentinel
row with rate 0 on the start date and one on the end date, sorted by date (stable) -/
def groupRows (S E : Int) (rows : List Row) : List Row :=
  sortByDate (rows ++ [{ date := S, rate := 0 }, { date := E, rate := 0 }])

/-- the windows of one group -/
def groupWins (ρ : Rounding) (S E : Int) (rows : List Row) : List Win :=
  winsFrom ρ none (groupRows S E rows)

/-- the condition columns of one group -/
def groupConds (S E : Int) (rows : List Row) : List (Bool × Bool) :=
  condsFrom none (groupRows S E rows)

/-- the two conditions of neighbouring rows are complementary: the later row uses its previous
condition exactly when the earlier row does not use its next condition; the first row never uses the
previous, the last never the next condition -/
def Complementary : List (Bool × Bool) → Prop
  | a :: b :: t => b.1 = !a.2 ∧ Complementary (b :: t)
  | _ => True

/-- a list of half-open windows partitions `[S, E)`: the first starts at `S`, each window is
non-negative, each next window starts where the previous stops, the last stops at `E` -/
def Tiles : Int → Int → List Win → Prop
  | S, E, [] => S = E
  | S, E, w :: ws => w.start = S ∧ S ≤ w.stop ∧ Tiles w.stop E ws

instance decTiles : (S E : Int) → (ws : List Win) → Decidable (Tiles S E ws)
  | S, E, [] => by unfold Tiles; exact inferInstance
  | S, E, w :: ws => by
    unfold Tiles
    have := decTiles w.stop E ws
    exact inferInstance

/-! ### whole survey tables -/

inductive Mode | site | comp
  deriving DecidableEq, Repr, Inhabited

/-- one survey report row (`MinimalSurveyReport.to_report_summary`) -/
structure Rec where
  site : Nat
  eqg : Option Nat
  comp : Option Nat
  date : Int
  rate : Int
  deriving DecidableEq, Repr, Inhabited

/-- group key: the site in measurement mode, (site, equipment, component) in component mode -/
structure Key where
  site : Nat
  eqg : Option Nat
  comp : Option Nat
  deriving DecidableEq, Repr, Inhabited

def keyOf : Mode → Rec → Key
  | .site, r => { site := r.site, eqg := none, comp := none }
  | .comp, r => { site := r.site, eqg := r.eqg, comp := r.comp }

/-- component mode keeps only the component level reports (`[eca.COMP].notnull()`) -/
def relevant : Mode → List Rec → List Rec
  | .site, recs => recs
  | .comp, recs => recs.filter (fun r => r.comp.isSome)

/-- distinct elements in order of first occurrence (`unique()` / `drop_duplicates()`) -/
def dedup {α} [DecidableEq α] : List α → List α
  | [] => []
  | x :: xs => x :: (dedup xs).filter (fun y => y ≠ x)

def keys (m : Mode) (recs : List Rec) : List Key := dedup ((relevant m recs).map (keyOf m))

/-- the dates on which any component of the site has a report -/
def siteDates (recs : List Rec) (site : Nat) : List Int :=
  dedup ((recs.filter (fun r => r.site = site)).map (·.date))

/-- the rows of one group before the sentinels: its own reports in table order, and in component
mode a zero-rate row for every date on which the site was surveyed but this component has no
report -/
def groupInput (m : Mode) (recs : List Rec) (k : Key) : List Row :=
  let rel := relevant m recs
  let own : List Row := (rel.filter (fun r => keyOf m r = k)).map (fun r => { date := r.date, rate := r.rate })
  let fill : List Row := match m with
    | .site => []
    | .comp => ((siteDates rel k.site).filter (fun d => !(own.any (fun o => o.date = d)))).map
                 (fun d => { date := d, rate := 0 })
  own ++ fill

/-- `gen_estimated_emissions_report` / `gen_estimated_comp_emissions_report`: the windows of every
group -/
def report (m : Mode) (ρ : Rounding) (S E : Int) (recs : List Rec) : List (Key × List Win) :=
  (keys m recs).map (fun k => (k, groupWins ρ S E (groupInput m recs k)))

end LdarModel.Window
