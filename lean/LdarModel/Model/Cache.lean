/-
Model of the generator-folder cache (C17).  Core Lean only.

What is modelled (LDAR_Sim/src/initialization): one *run* is the sequence
  `gen_seed_emis` → `initialize_infrastructure` → `initialize_emissions` (→ `gen_seed_timeseries`)
on a generator folder that survives between runs.  Every decision these functions take depends on
the folder as it was when the run started (no file is read after the same run wrote it), so a run
is a pure function `plan` from the initial folder to the list of atomic file effects (`Step`) in the
order the code performs them, plus the infrastructure it ends up with in memory.  A crash executes a
prefix of that list; a crash *inside* a `pickle.dump` additionally leaves the opened file torn.

Inputs are abstracted to version numbers (`VV`); a generated object records the version vector it
was generated from and the number of the run that generated it (`Gen`).  `hashlib.md5` is modelled
as injective: the stored hash of an input is its version number.

Which inputs are hashed / compared, which files must exist for reuse and the order of the file
effects are NOT fixed here: they are the parameter `Tbl`, regenerated from the source on every
check run (`Generated/Cache.lean`).
-/
namespace LdarModel.Cache

/-- the inputs that define infrastructure and emission scenarios -/
inductive Input where
  | site | siteType | equip | source | emisRate | repairDelay | vw | prog
  deriving DecidableEq, Repr

def Input.all : List Input :=
  [.site, .siteType, .equip, .source, .emisRate, .repairDelay, .vw, .prog]

/-- version vector of the inputs -/
structure VV where
  site : Nat
  siteType : Nat
  equip : Nat
  source : Nat
  emisRate : Nat
  repairDelay : Nat
  vw : Nat
  prog : Nat
  deriving DecidableEq, Repr

def VV.zero : VV := ⟨0, 0, 0, 0, 0, 0, 0, 0⟩

def VV.get (v : VV) : Input → Nat
  | .site => v.site | .siteType => v.siteType | .equip => v.equip | .source => v.source
  | .emisRate => v.emisRate | .repairDelay => v.repairDelay | .vw => v.vw | .prog => v.prog

def VV.set (v : VV) (k : Input) (x : Nat) : VV :=
  match k with
  | .site => { v with site := x } | .siteType => { v with siteType := x }
  | .equip => { v with equip := x } | .source => { v with source := x }
  | .emisRate => { v with emisRate := x } | .repairDelay => { v with repairDelay := x }
  | .vw => { v with vw := x } | .prog => { v with prog := x }

/-- a generated infrastructure: the inputs it was generated from and the run that generated it.
An emission scenario records the `Gen` of the infrastructure that produced it (the emission-rate
and repair-delay tables live inside the infrastructure object). -/
structure Gen where
  vv : VV
  gid : Nat
  deriving DecidableEq, Repr

inductive FileSt (α : Type) where
  | absent
  | torn
  | ok (a : α)
  deriving DecidableEq, Repr

def FileSt.present {α} : FileSt α → Bool
  | .absent => false
  | _ => true

/-- files of the generator folder other than the per-simulation emission files -/
inductive FileId where
  | seeds | hashes | infra | count | ts
  deriving DecidableEq, Repr

/-- a preseed is named by the draw that produced it: (number of the run that drew it, position among
that run's draws) - the index into the stream of fresh random draws a folder sees over its history.
Two preseeds are the same draw iff these pairs are equal. -/
abbrev Draw := Nat × Nat

/-- content of the hash file: dictionary key ↦ stored hash (= version number) -/
abbrev Store := List (String × Nat)

structure Disk where
  seeds : FileSt (List Draw)    -- emis_preseed.p : the stored preseeds, each named by the draw that produced it
  hashes : FileSt Store         -- gen_infrastructure_hashes.p
  infra : FileSt Gen            -- gen_infrastructure.p
  emis : Nat → FileSt Gen       -- gen_infrastructure_emissions_{i}.p
  count : FileSt Nat            -- n_sim_saved.p
  ts : FileSt (Nat × Nat)       -- preseed.p (daily seed series): (first day, number of days) it covers

def Disk.empty : Disk := ⟨.absent, .absent, .absent, fun _ => .absent, .absent, .absent⟩

def Disk.present (d : Disk) : FileId → Bool
  | .seeds => d.seeds.present | .hashes => d.hashes.present | .infra => d.infra.present
  | .count => d.count.present | .ts => d.ts.present

def Disk.setEmis (d : Disk) (i : Nat) (v : FileSt Gen) : Disk :=
  { d with emis := fun j => if j = i then v else d.emis j }

/-- atomic file effects -/
inductive Step where
  | wrSeeds (l : List Draw)
  | wrHashes (s : Store)
  | wrInfra (g : Gen)
  | wrEmis (i : Nat) (g : Gen)
  | wrCount (n : Nat)
  | wrTs (p : Nat × Nat)
  | rm (f : FileId)
  deriving DecidableEq, Repr

def Disk.remove (d : Disk) : FileId → Disk
  | .seeds => { d with seeds := .absent } | .hashes => { d with hashes := .absent }
  | .infra => { d with infra := .absent } | .count => { d with count := .absent }
  | .ts => { d with ts := .absent }

def Step.apply (s : Step) (d : Disk) : Disk :=
  match s with
  | .wrSeeds l => { d with seeds := .ok l }
  | .wrHashes st => { d with hashes := .ok st }
  | .wrInfra g => { d with infra := .ok g }
  | .wrEmis i g => d.setEmis i (.ok g)
  | .wrCount n => { d with count := .ok n }
  | .wrTs p => { d with ts := .ok p }
  | .rm f => d.remove f

/-- the step is interrupted inside its `pickle.dump`: the file was opened (truncated) already.
An interrupted removal has no effect. -/
def Step.tear (s : Step) (d : Disk) : Disk :=
  match s with
  | .wrSeeds _ => { d with seeds := .torn }
  | .wrHashes _ => { d with hashes := .torn }
  | .wrInfra _ => { d with infra := .torn }
  | .wrEmis i _ => d.setEmis i .torn
  | .wrCount _ => { d with count := .torn }
  | .wrTs _ => { d with ts := .torn }
  | .rm _ => d

def applyAll (l : List Step) (d : Disk) : Disk := l.foldl (fun d s => s.apply d) d

/-! ### the extracted table -/

/-- effect statements inside a regenerating branch of `initialize_infrastructure` -/
inductive IOp where
  | rm (f : FileId)     -- guarded removal: `if os.path.isfile(f): os.remove(f)`
  | wrHashes
  | wrInfra
  deriving DecidableEq, Repr

/-- top-level effect statements inside a generating branch of `initialize_emissions` -/
inductive Phase where
  | emisLoop   -- `for i in range(lo, n_sims): ... open(emis_file_loc, "wb")`
  | count      -- `open(n_sim_loc, "wb")`
  deriving DecidableEq, Repr

structure Tbl where
  /-- (dictionary key, input whose hash is stored under it) in the branch taken when nothing usable
  is cached (or regeneration is forced) -/
  hashedFresh : List (String × Input)
  /-- the same for the branch taken on a hash mismatch -/
  hashedRegen : List (String × Input)
  /-- (key read from the stored dictionary, input whose current hash it is compared with) -/
  compared : List (String × Input)
  /-- files whose existence is required before anything is reused -/
  required : List FileId
  freshOps : List IOp
  regenOps : List IOp
  emisRegen : List Phase
  emisExtend : List Phase
  /-- files written by `gen_seed_emis` (one per branch) and by `gen_seed_timeseries` -/
  seedWrites : List FileId
  tsWrites : List FileId
  /-- `gen_seed_timeseries` reuses the stored series only if it covers exactly the current first
  and last day (true), or already when its length matches (false: the unrepaired rule) -/
  tsExact : Bool
  /-- `gen_seed_emis` draws the preseeds from a generator it rebuilds with a fixed seed on every call
  (true: the stream restarts, every call replays the draws of "run 0") instead of the process-wide
  generator (false: every draw is a fresh one) -/
  seedRestart : Bool
  /-- the add-simulations loop hands `Infrastructure.generate_emissions` the same keyword arguments
  as the regenerate-all loop (false: an argument is missing / different, the callee's default or
  another value applies to the ADDED scenarios only) -/
  extendSameArgs : Bool
  /-- `hash_file` feeds the whole file to the hasher (loop until EOF / unbounded read); false: a
  single bounded read, i.e. only a first block -/
  hashWholeFile : Bool
  /-- some key is removed (`pop`, `del`, ...) from the virtual-world / program dictionary between
  parameter intake and `hash_dict` -/
  vwKeysRemoved : Bool
  progKeysRemoved : Bool
  /-- harness convention, not extracted: the simulated period (first day, number of days) written in
  content number `v` of the virtual-world dictionary (the dates are part of that dictionary) -/
  periodOf : Nat → Nat × Nat

/-- the *hashed view* of content number `v` of input `k`: what the hasher gets to see.  A content
number is read as `2 * (part inside the view) + (part outside)`: a hash of a first block only does
not see the rest of a file, a dictionary hash does not see a key removed before hashing.  md5 is
modelled as injective on this view. -/
def Tbl.view (t : Tbl) (k : Input) (v : Nat) : Nat :=
  match k with
  | .vw => if t.vwKeysRemoved then v / 2 else v
  | .prog => if t.progKeysRemoved then v / 2 else v
  | _ => if t.hashWholeFile then v else v / 2

def Tbl.viewVV (t : Tbl) (vv : VV) : VV :=
  ⟨t.view .site vv.site, t.view .siteType vv.siteType, t.view .equip vv.equip, t.view .source vv.source,
   t.view .emisRate vv.emisRate, t.view .repairDelay vv.repairDelay, t.view .vw vv.vw, t.view .prog vv.prog⟩

def storeOf (hashed : List (String × Input)) (vv : VV) : Store :=
  hashed.map fun p => (p.1, vv.get p.2)

/-- `hashes_match`: every compared key of the stored dictionary equals the current hash -/
def hashesMatch (t : Tbl) (st : Store) (vv : VV) : Bool :=
  t.compared.all fun p => st.lookup p.1 == some ((t.viewVV vv).get p.2)

/-- `for i in range(lo, lo + cnt)`: one emission file per simulation, generated by `g` -/
def emisLoop (g : Gen) : (lo cnt : Nat) → List Step
  | _, 0 => []
  | lo, k + 1 => .wrEmis lo g :: emisLoop g (lo + 1) k

/-- `rm f` stands for `if os.path.isfile(f): os.remove(f)` -/
def instIOps (ops : List IOp) (st : Store) (g : Gen) (d : Disk) : List Step :=
  ops.filterMap fun
    | .rm f => if d.present f then some (.rm f) else none
    | .wrHashes => some (.wrHashes st)
    | .wrInfra => some (.wrInfra g)

def instPhases (ph : List Phase) (g : Gen) (lo n : Nat) : List Step :=
  ph.flatMap fun
    | .emisLoop => emisLoop g lo (n - lo)
    | .count => [.wrCount n]

/-! ### one run -/

/-- the `cnt` draws number `k`, `k+1`, ... of run `gid` (of "run 0" when the stream restarts) -/
def newDraws (t : Tbl) (gid : Nat) : (k cnt : Nat) → List Draw
  | _, 0 => []
  | k, c + 1 => (if t.seedRestart then 0 else gid, k) :: newDraws t gid (k + 1) c

/-- `gen_seed_emis`: steps and `force_remake`; `none` = the run fails loudly (torn seed file) -/
def seedsStage (t : Tbl) (gid n : Nat) (d : Disk) : Option (List Step × Bool) :=
  match d.seeds with
  | .torn => none
  | .absent => some ([.wrSeeds (newDraws t gid 0 n)], true)
  | .ok l => some (if l.length < n then [.wrSeeds (l ++ newDraws t gid 0 (n - l.length))] else [], false)

/-- `initialize_infrastructure`: steps, infrastructure in memory, `hash_file_exist` -/
def infraStage (t : Tbl) (vv : VV) (gid : Nat) (force : Bool) (d : Disk) :
    Option (List Step × Gen × Bool) :=
  if force ∨ ¬ (t.required.all d.present) then
    some (instIOps t.freshOps (storeOf t.hashedFresh (t.viewVV vv)) ⟨vv, gid⟩ d, ⟨vv, gid⟩, false)
  else
    match d.hashes with
    | .ok st =>
      if hashesMatch t st vv then
        match d.infra with
        | .ok g => some ([], g, true)
        | _ => none
      else
        some (instIOps t.regenOps (storeOf t.hashedRegen (t.viewVV vv)) ⟨vv, gid⟩ d, ⟨vv, gid⟩, false)
    | _ => none

/-- what the add-simulations loop generates from: the infrastructure in memory, or - when the loop's
call differs from the regenerate-all loop's - that infrastructure under another value of a
virtual-world parameter -/
def extendGen (t : Tbl) (mem : Gen) : Gen :=
  if t.extendSameArgs then mem else { mem with vv := mem.vv.set .vw (mem.vv.vw + 1) }

/-- `initialize_emissions` (without the seed time series) -/
def emisStage (t : Tbl) (n : Nat) (hfe : Bool) (mem : Gen) (d : Disk) : Option (List Step) :=
  if hfe then
    match d.count with
    | .ok c => some (if c < n then instPhases t.emisExtend (extendGen t mem) c n else [])
    | _ => none
  else
    some (instPhases t.emisRegen mem 0 n)

/-- the reuse test of `gen_seed_timeseries` -/
def tsReuse (t : Tbl) (stored cur : Nat × Nat) : Bool :=
  stored.2 == cur.2 && (!t.tsExact || stored.1 == cur.1)

/-- `gen_seed_timeseries` at the end of `initialize_emissions` -/
def tsStage (t : Tbl) (vv : VV) (d : Disk) : Option (List Step) :=
  match d.ts with
  | .torn => none
  | .ok p => some (if tsReuse t p (t.periodOf vv.vw) then [] else [.wrTs (t.periodOf vv.vw)])
  | .absent => some [.wrTs (t.periodOf vv.vw)]

structure Plan where
  steps : List Step
  /-- infrastructure in memory when the initialisation completed; `none` = it failed loudly after
  performing `steps` -/
  outcome : Option Gen
  deriving Repr

def plan (t : Tbl) (vv : VV) (gid n : Nat) (d : Disk) : Plan :=
  match seedsStage t gid n d with
  | none => ⟨[], none⟩
  | some (s1, force) =>
    match infraStage t vv gid force d with
    | none => ⟨s1, none⟩
    | some (s2, mem, hfe) =>
      match emisStage t n hfe mem d with
      | none => ⟨s1 ++ s2, none⟩
      | some s3 =>
        match tsStage t vv d with
        | none => ⟨s1 ++ s2 ++ s3, none⟩
        | some s4 => ⟨s1 ++ s2 ++ s3 ++ s4, some mem⟩

/-! ### histories -/

inductive Op where
  | edit (k : Input) (v : Nat)      -- the user changes an input (to content number `v`)
  | run (n : Nat)                    -- a run with `n` simulations that is not interrupted
  | crash (n k : Nat)                -- interrupted before its `k`-th file effect
  | tear (n k : Nat)                 -- interrupted inside the `pickle.dump` of its `k`-th effect
  | del (f : FileId)                 -- the user deletes a generator file
  | delEmis (i : Nat)                -- the user deletes the emission file of simulation `i`
  deriving DecidableEq, Repr

structure St where
  vv : VV
  disk : Disk
  gid : Nat       -- number of runs started so far (names the generations)

def St.init : St := ⟨VV.zero, Disk.empty, 0⟩

def tearAt (l : List Step) (k : Nat) (d : Disk) : Disk :=
  match l[k]? with
  | some s => s.tear (applyAll (l.take k) d)
  | none => applyAll l d

def exec (t : Tbl) (s : St) : Op → St
  | .edit k v => { s with vv := s.vv.set k v }
  | .run n => { s with disk := applyAll (plan t s.vv s.gid n s.disk).steps s.disk, gid := s.gid + 1 }
  | .crash n k =>
    { s with disk := applyAll ((plan t s.vv s.gid n s.disk).steps.take k) s.disk, gid := s.gid + 1 }
  | .tear n k =>
    { s with disk := tearAt (plan t s.vv s.gid n s.disk).steps k s.disk, gid := s.gid + 1 }
  | .del f => { s with disk := s.disk.remove f }
  | .delEmis i => { s with disk := s.disk.setEmis i .absent }

def execAll (t : Tbl) (s : St) (h : List Op) : St := h.foldl (exec t) s

/-- what the next (uninterrupted) run with `n` simulations does and uses -/
def nextPlan (t : Tbl) (s : St) (n : Nat) : Plan := plan t s.vv s.gid n s.disk

/-- the write order and reuse condition of the repaired code (what the theorems need) -/
def safeIOps : List IOp := [.rm .count, .wrHashes, .wrInfra]
def safePhases : List Phase := [.emisLoop, .count]

/-- NOT a history op of the statement: the user copies an emission file of some other generation
back into the folder (nothing in the folder identifies an emission file, see `Props/C17.lean`) -/
def St.restoreEmis (s : St) (i : Nat) (g : Gen) : St := { s with disk := s.disk.setEmis i (.ok g) }

def Op.isDelEmis : Op → Bool
  | .delEmis _ => true
  | _ => false

def Op.isTear : Op → Bool
  | .tear _ _ => true
  | _ => false

end LdarModel.Cache
