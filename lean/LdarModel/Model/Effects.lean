/-
Effect model of a simulation run (C12).  Core Lean only.

Part 1: the shape of the tables that harness/extract/effects.py regenerates from the source
        (`Generated/Effects.lean`): random-number call sites, seed points, shared-container mutations.
Part 2: an executable abstract machine.  A *task* (one program in one simulation) is a list of effectful
        operations run on
          * a private state (fresh for every task: the deep copy of the infrastructure, the program
            object, its output frames) — an accumulator and the list of emitted outputs,
          * the process-wide state `Env`: the module/class-level containers `shared` (σ), the in-memory
            infrastructure objects `objs` that all programs of a simulation are handed in sequential mode, and
            the states of the random generators (ρ: numpy global, stdlib `random`, any other generator).
            Whether a task's `touch`/`look` act on a private deep copy of `objs` or on the shared graph is the
            extracted fact `Tables.privateCopy` (simulate() wiring + copy hooks of every class).
        A *worker* (a process: the only one in sequential/debug mode, a pool member otherwise) runs its
        tasks one after the other on ONE `Env`; a *schedule* is a list of workers, each with its own
        initial generator states (fork / OS entropy) and the freshly imported module state `sh0`.
        Multiprocessing = an arbitrary partition of the tasks over workers and an arbitrary order inside
        each worker; workers do not share memory.
-/
namespace LdarModel.Effects

/-! ## Part 1 — extracted tables -/

inductive Gen where
  | numpyGlobal   -- numpy's global RandomState: the one `np.random.seed` re-seeds
  | stdlibRandom  -- the stdlib `random` module's hidden generator: never seeded by the simulator
  | other         -- own generator objects, os.urandom, …
  deriving DecidableEq, Repr, Inhabited

structure RngSite where
  file : String
  line : Nat
  func : String
  gen : Gen
  call : String
  deriving DecidableEq, Repr

inductive SeedKind where
  | dayLoop | emissionLoop | infrastructure
  deriving DecidableEq, Repr

structure SeedPoint where
  file : String
  line : Nat
  func : String
  kind : SeedKind
  /-- a re-seed comes first AND its argument cannot be None (`np.random.seed(None)` re-seeds from OS entropy) -/
  seeded : Bool
  arg : String := ""
  argMayBeNone : Bool := false
  deriving DecidableEq, Repr

/-- the test under which `gen_seed_timeseries` re-uses the daily seed series saved in the generator folder -/
structure SeedReuse where
  file : String
  line : Nat
  checksLength : Bool
  checksStart : Bool
  checksEnd : Bool
  deriving DecidableEq, Repr

structure Mutation where
  file : String
  line : Nat
  func : String
  target : String
  op : String
  deriving DecidableEq, Repr

/-- a pickling / copying hook of a class (`copy.deepcopy` goes through `__deepcopy__` or `__reduce_ex__`);
`deep` = the extractor's syntactic verdict that the hook keeps deep-copy semantics (see effects_more.py) -/
structure CopyHook where
  file : String
  line : Nat
  cls : String
  hook : String
  deep : Bool
  why : String
  deriving DecidableEq, Repr

inductive NondetKind where
  | setIteration | dirListing | wallClock | identity
  deriving DecidableEq, Repr

/-- a non-RNG source of nondeterminism reachable from a run -/
structure NondetSite where
  file : String
  line : Nat
  func : String
  kind : NondetKind
  call : String
  deriving DecidableEq, Repr

structure Tables where
  rngSites : List RngSite
  seedPoints : List SeedPoint
  sharedMutations : List Mutation
  /-- RNG sites lexically reachable from what a task runs before its first re-seed -/
  prologueRngSites : List RngSite
  copyHooks : List CopyHook
  simulateDeepCopies : Bool
  simulateUsesOnlyCopy : Bool
  nondetSites : List NondetSite
  seedSeriesReuse : SeedReuse
  /-- code shapes the extractor relies on and did not find -/
  patternErrors : List String
  deriving Repr

/-- table obligation: a saved daily seed series is re-used only if it has one entry per simulated day and
contains the first and the last simulated day -/
def Tables.seedSeriesChecked (T : Tables) : Prop :=
  T.seedSeriesReuse.checksLength = true ∧ T.seedSeriesReuse.checksStart = true ∧ T.seedSeriesReuse.checksEnd = true

instance (T : Tables) : Decidable T.seedSeriesChecked := by unfold Tables.seedSeriesChecked; infer_instance

/-- every task works on a private deep copy of the infrastructure object it is handed: `simulate()` deep-copies
its argument and uses only the copy, and no class overrides deep-copy semantics -/
def Tables.privateCopy (T : Tables) : Bool :=
  T.simulateDeepCopies && T.simulateUsesOnlyCopy && T.copyHooks.all (fun h => h.deep)

/-- table obligation: nothing random is reachable before the first re-seed of a task -/
def Tables.prologueClean (T : Tables) : Prop := T.prologueRngSites = []

/-- table obligation: every non-RNG nondeterminism source is on the reviewed list (file, function, kind) -/
def Tables.nondetReviewed (T : Tables) (reviewed : List (String × String × NondetKind)) : Prop :=
  ∀ s ∈ T.nondetSites, (s.file, s.func, s.kind) ∈ reviewed

/-- the day loop of `LdarSim.run_simulation` starts by re-seeding the numpy global generator -/
def Tables.dayLoopReseeds (T : Tables) : Bool :=
  T.seedPoints.any (fun p => decide (p.kind = .dayLoop) && p.seeded)

/-- table obligation 1: every random-number call site draws from the generator that is re-seeded -/
def Tables.rngAllSeeded (T : Tables) : Prop := ∀ s ∈ T.rngSites, s.gen = .numpyGlobal

/-- table obligation 2: no function mutates a module/class-level container -/
def Tables.noSharedMutation (T : Tables) : Prop := T.sharedMutations = []

/-- table obligation 3: every consumer of random numbers is preceded by a re-seed, and the day loop exists once -/
def Tables.consumersReseeded (T : Tables) : Prop :=
  (∀ p ∈ T.seedPoints, p.seeded = true) ∧
  (T.seedPoints.filter (fun p => decide (p.kind = .dayLoop))).length = 1

instance (T : Tables) : Decidable T.rngAllSeeded := by unfold Tables.rngAllSeeded; infer_instance
instance (T : Tables) : Decidable T.noSharedMutation := by unfold Tables.noSharedMutation; infer_instance
instance (T : Tables) : Decidable T.consumersReseeded := by unfold Tables.consumersReseeded; infer_instance
instance (T : Tables) : Decidable T.prologueClean := by unfold Tables.prologueClean; infer_instance
instance (T : Tables) (r : List (String × String × NondetKind)) : Decidable (T.nondetReviewed r) := by
  unfold Tables.nondetReviewed; infer_instance

/-! ## Part 2 — the abstract machine -/

/-- one effectful operation of a task -/
inductive Op where
  | seed (day : Nat)          -- np.random.seed(<seed of that day from the generator folder>)
  | draw (g : Gen)            -- a random draw from generator g feeds the private state
  | read (c : Nat)            -- the private state depends on the content of shared container c
  | write (c : Nat) (v : Nat) -- shared container c is appended to / updated
  | comp (k : Nat)            -- deterministic private computation
  | emit                      -- an output (row, file) is produced from the private state
  | touch (o : Nat) (v : Nat) -- object o of "the task's" infrastructure is mutated (a sticky roll is stored, a leak tagged)
  | look (o : Nat)            -- the private state depends on the state of object o of the task's infrastructure
  deriving DecidableEq, Repr

def Op.isSeed : Op → Bool
  | .seed _ => true
  | _ => false

def Op.isDraw : Op → Bool
  | .draw _ => true
  | _ => false

/-- process-wide state -/
structure Env where
  shared : Nat → List Nat
  /-- the in-memory infrastructure objects, per simulation: in sequential mode every program of a simulation is
  handed the SAME object graph (`_setup_programs` builds it once per simulation) -/
  objs : Nat → Nat → List Nat
  np : Nat
  std : Nat
  oth : Nat

def Env.rng (e : Env) : Gen → Nat
  | .numpyGlobal => e.np
  | .stdlibRandom => e.std
  | .other => e.oth

def Env.setRng (e : Env) (g : Gen) (s : Nat) : Env :=
  match g with
  | .numpyGlobal => { e with np := s }
  | .stdlibRandom => { e with std := s }
  | .other => { e with oth := s }

/-- private state of a task -/
structure Priv where
  acc : Nat
  out : List Nat
  /-- the task's own copy of the infrastructure objects (used when the task deep-copies) -/
  objs : Nat → List Nat

def nextRng (s : Nat) : Nat := (s * 1103515245 + 12345) % 2147483648
def mix (a x : Nat) : Nat := (a * 31 + x + 7) % 1000003
def digest (l : List Nat) : Nat := l.foldl mix l.length

/-- `copies` = the task works on a deep copy of the infrastructure (then `touch`/`look` stay private);
otherwise they act on the object graph shared by the tasks of simulation `sim` in this process -/
def step (copies : Bool) (sim : Nat) (seedOf : Nat → Nat) (p : Priv) (e : Env) : Op → Priv × Env
  | .seed d => (p, { e with np := seedOf d })
  | .draw g => let s := nextRng (e.rng g); ({ p with acc := mix p.acc s }, e.setRng g s)
  | .read c => ({ p with acc := mix p.acc (digest (e.shared c)) }, e)
  | .write c v => (p, { e with shared := fun k => if k = c then e.shared k ++ [v] else e.shared k })
  | .comp k => ({ p with acc := mix p.acc k }, e)
  | .emit => ({ p with out := p.out ++ [p.acc] }, e)
  | .touch o v =>
    if copies then ({ p with objs := fun k => if k = o then p.objs k ++ [v] else p.objs k }, e)
    else (p, { e with objs := fun s k => if s = sim ∧ k = o then e.objs s k ++ [v] else e.objs s k })
  | .look o => ({ p with acc := mix p.acc (digest (if copies then p.objs o else e.objs sim o)) }, e)

def exec (copies : Bool) (sim : Nat) (seedOf : Nat → Nat) : List Op → Priv → Env → Priv × Env
  | [], p, e => (p, e)
  | op :: r, p, e => exec copies sim seedOf r (step copies sim seedOf p e op).1 (step copies sim seedOf p e op).2

/-- a program: what runs before the day loop (building the program, its methods, sensors, crews, the
output manager), the operations of each simulated day, and what runs after the loop (summaries) -/
structure Prog where
  prologue : List Op
  body : List (List Op)
  epilogue : List Op
  deriving DecidableEq, Repr

/-- the day loop; `reseed` = the loop body starts with `np.random.seed(seed of the day)` -/
def dayOps (reseed : Bool) : Nat → List (List Op) → List Op
  | _, [] => []
  | d, b :: r => (if reseed then [Op.seed d] else []) ++ b ++ dayOps reseed (d + 1) r

def Prog.ops (reseed : Bool) (p : Prog) : List Op :=
  p.prologue ++ dayOps reseed 0 p.body ++ p.epilogue

def Prog.allOps (p : Prog) : List Op := p.prologue ++ p.body.flatten ++ p.epilogue

/-- the persisted generator folder: daily seeds per simulation and the pre-generated scenario -/
structure Folder where
  seed : Nat → Nat → Nat
  scenario : Nat → Nat
  /-- the pickled infrastructure of each simulation (what `read_in_emissions` loads) -/
  objects : Nat → Nat → List Nat

/-- how the code base runs a task, as extracted: the day loop re-seeds first; the task deep-copies -/
structure Mode where
  reseed : Bool
  copies : Bool
  deriving DecidableEq, Repr

structure Task where
  prog : Prog
  sim : Nat
  deriving DecidableEq, Repr

def runTask (m : Mode) (F : Folder) (t : Task) (e : Env) : List Nat × Env :=
  let r := exec m.copies t.sim (F.seed t.sim) (t.prog.ops m.reseed)
    { acc := F.scenario t.sim, out := [], objs := e.objs t.sim } e
  (r.1.out, r.2)

/-- a worker process runs its tasks one after the other on one process-wide state -/
def runWorker (m : Mode) (F : Folder) : List Task → Env → List (List Nat)
  | [], _ => []
  | t :: r, e => (runTask m F t e).1 :: runWorker m F r (runTask m F t e).2

structure Worker where
  np : Nat
  std : Nat
  oth : Nat
  tasks : List Task
  deriving Repr

def Worker.env (F : Folder) (sh0 : Nat → List Nat) (w : Worker) : Env :=
  { shared := sh0, objs := F.objects, np := w.np, std := w.std, oth := w.oth }

/-- the outputs of a whole run, worker by worker, task by task -/
def runSchedule (m : Mode) (F : Folder) (sh0 : Nat → List Nat) (ws : List Worker) : List (List (List Nat)) :=
  ws.map (fun w => runWorker m F w.tasks (w.env F sh0))

/-- every (task, output) pair of a whole run -/
def results (m : Mode) (F : Folder) (sh0 : Nat → List Nat) (ws : List Worker) : List (Task × List Nat) :=
  ws.flatMap (fun w => w.tasks.zip (runWorker m F w.tasks (w.env F sh0)))

/-- the task run alone in a freshly started process -/
def alone (m : Mode) (F : Folder) (sh0 : Nat → List Nat) (t : Task) : List Nat :=
  (runTask m F t { shared := sh0, objs := F.objects, np := 0, std := 0, oth := 0 }).1

/-! ### effect discipline (decidable) -/

/-- `rel c` = container c may be read by a task (output-relevant).  `s` = the numpy global generator has
been re-seeded since the task started. -/
def opOk (rel : Nat → Bool) (s : Bool) : Op → Bool
  | .draw g => decide (g = Gen.numpyGlobal) && s
  | .read c => rel c
  | .write c _ => !rel c
  | _ => true

def okOps (rel : Nat → Bool) : Bool → List Op → Bool
  | _, [] => true
  | s, op :: r => opOk rel s op && okOps rel (s || op.isSeed) r

def noDraw (ops : List Op) : Bool := ops.all (fun o => !o.isDraw)

/-- a program in day-loop form obeying the discipline: nothing is drawn before the loop; inside and after
the loop only the numpy global generator is drawn from; only relevant containers are read, only
irrelevant ones written -/
def Prog.clean (rel : Nat → Bool) (p : Prog) : Bool :=
  okOps rel true p.prologue && noDraw p.prologue && p.body.all (okOps rel true) &&
  okOps rel true p.epilogue && (!p.body.isEmpty || noDraw p.epilogue)

/-- the program performs only effects that the extracted tables list -/
def conforms (T : Tables) (p : Prog) : Bool :=
  p.allOps.all (fun o =>
    match o with
    | .draw g => T.rngSites.any (fun s => decide (s.gen = g))
    | .write _ _ => !T.sharedMutations.isEmpty
    | _ => true) &&
  -- what runs before the day loop may only draw at a site the extractor found reachable from there
  p.prologue.all (fun o =>
    match o with
    | .draw g => T.prologueRngSites.any (fun s => decide (s.gen = g))
    | _ => true)

/-- day-loop form: nothing is drawn before the first re-seed of the task -/
def Prog.dayLoopForm (p : Prog) : Bool := noDraw p.prologue && (!p.body.isEmpty || noDraw p.epilogue)

/-- the mode in which the code base, as extracted, runs its tasks -/
def Tables.mode (T : Tables) : Mode := { reseed := T.dayLoopReseeds, copies := T.privateCopy }

end LdarModel.Effects
