/-
JSON-like parameter trees and the parameter intake of LDAR-Sim (core Lean only, executable).

Source modelled (one Lean function per Python function):
  utils/check_parameter_types.py                          check_types            -> checkTypes
  file_processing/input_processing/input_manager.py       retain_update          -> retainUpdate
                                                          remove_type_placeholders -> removePlaceholders
                                                          validate_names         -> validateNames
                                                          handle_parameter_versioning -> versionGate
                                                          parse_parameters       -> route / install
                                                          read_and_validate_parameters -> intake

A YAML/JSON value is a `J`; Python dictionaries are association lists `KV` in insertion order
(Python dict order), lists are `JL`.  The three types are one mutual inductive (no nesting through
`List`/`Prod`), so every function below is structurally recursive and reduces in the kernel.
Floats are exact decimals `m · 10^e` (normalised by the JSON reader of the driver); the intake never
computes with them, it only moves them around.
Where the real code exits or raises, the model answers `Except.error kind`.
-/
namespace LdarModel.Tree

mutual
inductive J where
  | null : J
  | bool (b : Bool) : J
  | int (i : Int) : J
  | float (m : Int) (e : Int) : J
  | str (s : String) : J
  | list (l : JL) : J
  | obj (kvs : KV) : J
inductive JL where
  | nil : JL
  | cons (h : J) (t : JL) : JL
inductive KV where
  | nil : KV
  | cons (k : String) (v : J) (t : KV) : KV
end

instance : Inhabited J := ⟨.null⟩
instance : Inhabited JL := ⟨.nil⟩
instance : Inhabited KV := ⟨.nil⟩

/-- how the real code ends when it does not return parameters -/
inductive Rej
  | unknown_key | type_mismatch | missing_method | reserved_name
  | exit            -- any other `sys.exit()` (missing / unknown parameter_level, version, no programs, deployment type)
  | key_error | type_error | attr_error | io_error | unbound | index_error | value_error
  deriving DecidableEq, Repr, Inhabited

def Rej.name : Rej → String
  | .unknown_key => "unknown_key" | .type_mismatch => "type_mismatch"
  | .missing_method => "missing_method" | .reserved_name => "reserved_name" | .exit => "exit"
  | .key_error => "key_error" | .type_error => "type_error" | .attr_error => "attr_error"
  | .io_error => "io_error" | .unbound => "unbound" | .index_error => "index_error"
  | .value_error => "value_error"

/-! ### lists and dictionaries -/

def JL.toList : JL → List J
  | .nil => []
  | .cons h t => h :: t.toList

def JL.ofList : List J → JL
  | [] => .nil
  | h :: t => .cons h (JL.ofList t)

def JL.length : JL → Nat
  | .nil => 0
  | .cons _ t => t.length + 1

def JL.get? : JL → Nat → Option J
  | .nil, _ => none
  | .cons h _, 0 => some h
  | .cons _ t, n + 1 => t.get? n

def JL.append : JL → JL → JL
  | .nil, b => b
  | .cons h t, b => .cons h (t.append b)

def KV.toList : KV → List (String × J)
  | .nil => []
  | .cons k v t => (k, v) :: t.toList

def KV.ofList : List (String × J) → KV
  | [] => .nil
  | (k, v) :: t => .cons k v (KV.ofList t)

def KV.keys : KV → List String
  | .nil => []
  | .cons k _ t => k :: t.keys

def KV.length : KV → Nat
  | .nil => 0
  | .cons _ _ t => t.length + 1

/-- `d[k]` / `k in d` (first binding; on well-formed dictionaries the only one) -/
def KV.lookup (k : String) : KV → Option J
  | .nil => none
  | .cons k' v t => if k' = k then some v else t.lookup k

def KV.has (k : String) (kvs : KV) : Bool := (kvs.lookup k).isSome

/-- `d[k] = v` / `d.update({k: v})`: an existing key keeps its position, a new key goes last -/
def KV.setKey (k : String) (v : J) : KV → KV
  | .nil => .cons k v .nil
  | .cons k' v' t => if k' = k then .cons k' v t else .cons k' v' (t.setKey k v)

/-- `del d[k]` / `d.pop(k)` -/
def KV.erase (k : String) : KV → KV
  | .nil => .nil
  | .cons k' v t => if k' = k then t else .cons k' v (t.erase k)

def J.isObj : J → Bool
  | .obj _ => true
  | _ => false

abbrev Path := List String

/-- value at a path of dictionary keys (lists are leaves) -/
def get? : Path → J → Option J
  | [], j => some j
  | k :: p, .obj kvs => match kvs.lookup k with
      | some v => get? p v
      | none => none
  | _ :: _, _ => none

/-! ### structural equality (decidable) -/
mutual
def J.beq : J → J → Bool
  | .null, .null => true
  | .bool a, .bool b => a == b
  | .int a, .int b => a == b
  | .float a b, .float c d => a == c && b == d
  | .str a, .str b => a == b
  | .list a, .list b => JL.beq a b
  | .obj a, .obj b => KV.beq a b
  | _, _ => false
def JL.beq : JL → JL → Bool
  | .nil, .nil => true
  | .cons a s, .cons b t => J.beq a b && JL.beq s t
  | _, _ => false
def KV.beq : KV → KV → Bool
  | .nil, .nil => true
  | .cons k a s, .cons k' b t => k == k' && J.beq a b && KV.beq s t
  | _, _ => false
end

/-- decidable form of "the two updates agree wherever both reach" (hypothesis of `merge_comm`) -/
def agreeB : KV → KV → Bool
  | .nil, _ => true
  | .cons k v1 rest, u2 =>
    (match u2.lookup k with
      | none => true
      | some v2 =>
        match v1, v2 with
        | .obj a, .obj b => agreeB a b
        | .obj _, _ => false
        | _, .obj _ => false
        | x, y => J.beq x y) && agreeB rest u2

/-! ### well-formedness: dictionary keys are distinct (Python dictionaries always are) -/
mutual
def J.wf : J → Bool
  | .list l => l.wf
  | .obj kvs => kvs.wf
  | _ => true
def JL.wf : JL → Bool
  | .nil => true
  | .cons h t => h.wf && t.wf
def KV.wf : KV → Bool
  | .nil => true
  | .cons k v t => !(t.has k) && v.wf && t.wf
end

/-! ### `InputManager.retain_update` -/
mutual
/-- `retain_update(obj, new_parameters)`; the result is the mutated `obj` -/
def retainUpdate (d : J) : J → Except Rej J
  | .obj ukvs => ruKvs d ukvs
  | _ => .error .attr_error          -- `.items()` of a non-dictionary (never called that way)
/-- the `for idx, param in new_parameters.items()` loop, `d` being the dictionary mutated so far -/
def ruKvs (d : J) : KV → Except Rej J
  | .nil => .ok d
  | .cons k v rest =>
    match v with
    | .obj vk =>
      match d with
      | .obj dk =>
        match dk.lookup k with
        | some dv =>
          match ruKvs dv vk with
          | .ok r => ruKvs (.obj (dk.setKey k r)) rest
          | .error e => .error e
        | none => .error .key_error                 -- `obj[idx]`
      | _ => .error .type_error                     -- `obj[idx]` on str / list / None / number
    | leaf =>
      match d with
      | .obj dk => ruKvs (.obj (dk.setKey k leaf)) rest
      | _ => .error .attr_error                     -- `obj.update` on a non-dictionary
end

/-! ### `check_types` -/
def phInt : String := "_placeholder_int_"
def phFloat : String := "_placeholder_float_"
def phStr : String := "_placeholder_str_"

def J.tag : J → Nat
  | .null => 0 | .bool _ => 1 | .int _ => 2 | .float _ _ => 3 | .str _ => 4 | .list _ => 5 | .obj _ => 6

def J.isStr (s : String) : J → Bool
  | .str s' => s' = s
  | _ => false

/-- the acceptance relation of `check_types` for one node (the `if/elif` chain, in its order) -/
def typeOk (d t : J) : Bool :=
  if (d.isStr phInt || d.isStr phFloat) && t.tag = 4 then
    match d, t with
    | .str a, .str b => a = b
    | _, _ => false
  else if d.tag = t.tag then true
  else if d.tag = 3 && t.tag = 2 then true
  else if d.isStr phInt && t.tag = 2 then true
  else if d.isStr phFloat && (t.tag = 2 || t.tag = 3) then true
  else if d.isStr phStr && t.tag = 4 then true
  else false

mutual
/-- `check_types(default, test, name, omit_keys)` -/
def checkTypes (om : List String) (d : J) : J → Except Rej Unit
  | .obj tk =>
    if typeOk d (.obj tk) then
      match d with
      | .obj dk => ctKvs om dk tk
      | _ => .ok ()
    else .error .type_mismatch
  | .list tl =>
    if typeOk d (.list tl) then
      match d with
      | .list (.cons d0 _) => ctList om d0 tl
      | _ => .ok ()
    else .error .type_mismatch
  | t => if typeOk d t then .ok () else .error .type_mismatch
/-- `for i in test:` over a dictionary -/
def ctKvs (om : List String) (dk : KV) : KV → Except Rej Unit
  | .nil => .ok ()
  | .cons k tv rest =>
    if om.contains k then ctKvs om dk rest
    else match dk.lookup k with
      | none => .error .unknown_key
      | some dv =>
        match checkTypes om dv tv with
        | .ok _ => ctKvs om dk rest
        | .error e => .error e
/-- `for i in range(len(test)): check_types(default[0], test[i])` -/
def ctList (om : List String) (d0 : J) : JL → Except Rej Unit
  | .nil => .ok ()
  | .cons t rest =>
    match checkTypes om d0 t with
    | .ok _ => ctList om d0 rest
    | .error e => .error e
end

/-! ### `remove_type_placeholders` -/
def J.isPh : J → Bool
  | .str s => s = phInt || s = phFloat || s = phStr
  | _ => false

mutual
/-- what `obj[idx]` is after the loop body has handled the child `param` -/
def rpVal : J → J
  | .list l =>
    match l with
    | .cons x .nil => if x.isPh then .list .nil else .list (.cons (rpVal x) .nil)
    | l => .list (rpList l)
  | .obj kvs => .obj (rpKvs kvs)
  | v => if v.isPh then .null else v
def rpList : JL → JL
  | .nil => .nil
  | .cons x t => .cons (rpVal x) (rpList t)
def rpKvs : KV → KV
  | .nil => .nil
  | .cons k v t => .cons k (rpVal v) (rpKvs t)
end

/-- `remove_type_placeholders(obj)` for the top-level container -/
def removePlaceholders : J → J
  | .obj kvs => .obj (rpKvs kvs)
  | .list l => .list (rpList l)
  | j => j

/-! ### `validate_names` -/
def reserved : List String := ["none", "null", "nan"]

/-- `str.lower()` on ASCII letters (no other character lower-cases to an ASCII letter of the
reserved names) -/
def lowerAscii (s : String) : String := String.ofList (s.toList.map Char.toLower)

def isReserved (s : String) : Bool := reserved.contains (lowerAscii s)

def labelsOk : List J → Except Rej Unit
  | [] => .ok ()
  | .str s :: t => if isReserved s then .error .reserved_name else labelsOk t
  | _ :: _ => .error .attr_error                   -- `.lower()` of a non-string

/-- the values a Python `for x in v` loop visits -/
def iterLabels : J → Except Rej (List J)
  | .list l => .ok l.toList
  | .str s => .ok (s.toList.map (fun c => .str (String.singleton c)))
  | .obj kvs => .ok (kvs.keys.map .str)
  | _ => .error .type_error

def namesOk : KV → Except Rej Unit
  | .nil => .ok ()
  | .cons name prog t =>
    if isReserved name then .error .reserved_name
    else match prog with
      | .obj pk =>
        match pk.lookup "method_labels" with
        | some v =>
          match iterLabels v with
          | .error e => .error e
          | .ok ls =>
            match labelsOk ls with
            | .ok _ => namesOk t
            | .error e => .error e
        | none => .error .key_error
      | _ => .error .type_error

def validateNames (sim : KV) : Except Rej Unit :=
  match sim.lookup "programs" with
  | some (.obj progs) => namesOk progs
  | some _ => .error .attr_error
  | none => .error .key_error

/-! ### version gate (`map_parameters` / `handle_parameter_versioning`) -/
def currentVersion : String := "4.0"
def currentMajor : Nat := 4

/-- `str.split(".")` on the characters (structural, so that it reduces in the kernel) -/
def splitDot : List Char → List Char → List (List Char)
  | [], cur => [cur.reverse]
  | c :: cs, cur => if c = '.' then cur.reverse :: splitDot cs [] else splitDot cs (c :: cur)

/-- Python `int(s)` for plain ASCII digit strings (anything else: ValueError = `none`) -/
def digitsNat? (cs : List Char) : Option Nat :=
  if cs.isEmpty then none
  else if cs.all Char.isDigit then some (cs.foldl (fun n c => 10 * n + (c.toNat - '0'.toNat)) 0)
  else none

/-- Python `str(float)` for the plain decimals the generators use (|x| < 1e16, exponent ≥ -4) -/
def floatStr (m e : Int) : String :=
  let neg := m < 0
  let a := m.natAbs
  let body :=
    if e ≥ 0 then toString (a * 10 ^ e.toNat) ++ ".0"
    else
      let k := (-e).toNat
      let ip := a / 10 ^ k
      let fp := a % 10 ^ k
      let fs := toString fp
      toString ip ++ "." ++ String.ofList (List.replicate (k - fs.length) '0') ++ fs
  (if neg then "-" else "") ++ body

/-- Python `str(value)` as far as the version test needs it -/
def pyStr : J → String
  | .str s => s
  | .int i => toString i
  | .float m e => floatStr m e
  | .bool true => "True"
  | .bool false => "False"
  | .null => "None"
  | _ => "?"

/-- `check_major_version(version_string, "4")`: -1 / 0 / 1, `none` = ValueError branch (`False`) -/
def majorCmp (s : String) : Option Int :=
  match splitDot s.toList [] with
  | [a, b] =>
    match digitsNat? a, digitsNat? b with
    | some ma, some _ => some (if ma < currentMajor then -1 else if ma = currentMajor then 0 else 1)
    | _, _ => none
  | _ => none

/-- one file through `handle_parameter_versioning`; state = `old_params` -/
def versionStep (old : Bool) (file : KV) : Except Rej (Bool × KV) :=
  if old then .ok (old, file)
  else
    let file' := if file.has "version" then file else file.setKey "version" (.str currentVersion)
    match file'.lookup "version" with
    | none => .ok (old, file')
    | some v =>
      let s := pyStr v
      if s = currentVersion then .ok (false, file')
      else if s = toString currentMajor then .error .exit
      else match majorCmp s with
        | some 0 => .ok (true, file')
        | some _ => .error .exit
        | none => .ok (true, file')

def versionGate : Bool → List KV → Except Rej (List KV)
  | _, [] => .ok []
  | old, f :: fs =>
    match versionStep old f with
    | .error e => .error e
    | .ok (old', f') =>
      match versionGate old' fs with
      | .ok r => .ok (f' :: r)
      | .error e => .error e

/-! ### `parse_parameters` -/
def simDefFile : String := "simulation_settings_default.yml"
def vwDefFile : String := "virtual_world_default.yml"
def progDefFile : String := "p_default.yml"
def mobileDefFile : String := "m_default_mobile.yml"
def stationaryDefFile : String := "m_default_stationary.yml"
def outDefFile : String := "outputs_default.yml"

/-- `open("./src/default_parameters/{}".format(def_file))` + `yaml.load` -/
def loadDef (defs : KV) : J → Except Rej J
  | .str s => match defs.lookup s with
      | some t => .ok t
      | none => .error .io_error
  | _ => .error .io_error

structure St where
  sim : KV                 -- `self.simulation_parameters`
  programs : KV            -- local `programs`
  pool : KV                -- local `method_pool`
  deriving Inhabited

/-- canonical decimal: mantissa without trailing zeros (`fuel` bounds the number of digits) -/
def stripZeros : Nat → Int → Int → Int × Int
  | 0, m, e => (m, e)
  | f + 1, m, e =>
    if m = 0 then (0, 0)
    else if m % 10 = 0 then stripZeros f (m / 10) (e + 1) else (m, e)

def numKey (m e : Int) : String :=
  let r := stripZeros 400 m e
  "\x00num:" ++ toString r.1 ++ "e" ++ toString r.2

/-- dictionary key made of a parameter value (`None`, numbers and booleans are hashable too and
`True == 1 == 1.0` are one key; none of them can equal a string key).  `none` = unhashable. -/
def keyOf : J → Option String
  | .str s => some s
  | .null => some "\x00None"
  | .bool b => some (numKey (if b then 1 else 0) 0)
  | .int i => some (numKey i 0)
  | .float m e => some (numKey m e)
  | _ => none

/-- Python `len(x) == 0` for the `programs` key of a simulation-settings file -/
def pyEmpty : J → Bool
  | .str s => s.isEmpty
  | .list .nil => true
  | .obj .nil => true
  | _ => false

/-- the per-level body shared by virtual_world / outputs: defaults, type check, merge, install -/
def routeSection (defs : KV) (defFile : String) (slot : String) (st : St) (file : KV) :
    Except Rej St :=
  let df := match file.lookup "default_parameters" with
    | some v => v
    | none => .str defFile
  match loadDef defs df with
  | .error e => .error e
  | .ok d =>
    match checkTypes [] d (.obj file) with
    | .error e => .error e
    | .ok _ =>
      match retainUpdate d (.obj file) with
      | .error e => .error e
      | .ok r => .ok { st with sim := st.sim.setKey slot r }

/-- the simulation-settings branch -/
def routeSim (st : St) (file : KV) : Except Rej St :=
  let pre : Except Rej Unit := match file.lookup "programs" with
    | some v => if pyEmpty v then .ok () else .error .type_error
    | none => .ok ()
  match pre with
  | .error e => .error e
  | .ok _ =>
    let ref := (st.sim.erase "virtual_world").erase "outputs"
    match checkTypes ["programs"] (.obj ref) (.obj file) with
    | .error e => .error e
    | .ok _ =>
      match retainUpdate (.obj st.sim) (.obj file) with
      | .ok (.obj s) => .ok { st with sim := s }
      | .ok _ => .error .type_error
      | .error e => .error e

/-- the programs branch -/
def routeProgram (defs : KV) (st : St) (file : KV) : Except Rej St :=
  let df := match file.lookup "default_parameters" with
    | some v => v
    | none => .str progDefFile
  match loadDef defs df with
  | .error e => .error e
  | .ok d =>
    match file.lookup "program_name" with
    | none => .error .key_error
    | some _ =>
      match checkTypes ["methods"] d (.obj file) with
      | .error e => .error e
      | .ok _ =>
        match retainUpdate d (.obj file) with
        | .error e => .error e
        | .ok (.obj p) =>
          match p.lookup "program_name" with
          | none => .error .key_error
          | some nm =>
            match keyOf nm with
            | none => .error .type_error
            | some key => .ok { st with programs := st.programs.setKey key (.obj p) }
        | .ok _ => .error .type_error

/-- the methods branch: the file only enters the method pool -/
def routeMethod (st : St) (file : KV) : Except Rej St :=
  match file.lookup "method_name" with
  | none => .error .key_error
  | some nm =>
    match keyOf nm with
    | none => .error .type_error
    | some key => .ok { st with pool := st.pool.setKey key (.obj file) }

/-- one iteration of `for new_parameters in new_parameters_list` -/
def route (defs : KV) (st : St) (file : KV) : Except Rej St :=
  match file.lookup "parameter_level" with
  | none => .error .exit
  | some lvl =>
    if lvl.isStr "simulation_settings" then routeSim st file
    else if lvl.isStr "virtual_world" then routeSection defs vwDefFile "virtual_world" st file
    else if lvl.isStr "programs" then routeProgram defs st file
    else if lvl.isStr "methods" then routeMethod st file
    else if lvl.isStr "outputs" then routeSection defs outDefFile "outputs" st file
    else .error .exit

def routeAll (defs : KV) : St → List KV → Except Rej St
  | st, [] => .ok st
  | st, f :: fs =>
    match route defs st f with
    | .ok st' => routeAll defs st' fs
    | .error e => .error e

/-- first loop of the install stage for one program: look every label up in the pool -/
def installLabels (pool : KV) : List J → KV → Except Rej KV
  | [], acc => .ok acc
  | l :: ls, acc =>
    match keyOf l with
    | some key =>
      match pool.lookup key with
      | some m => installLabels pool ls (acc.setKey key m)
      | none => .error .missing_method
    | none => .error .missing_method

/-- the defaults file of a method: its own `default_parameters` key, else by deployment type -/
def methodDefFile (mk : KV) : Except Rej J :=
  match mk.lookup "default_parameters" with
  | some v => .ok v
  | none =>
    match mk.lookup "deployment_type" with
    | none => .error .key_error
    | some dt =>
      if dt.isStr "mobile" then .ok (.str mobileDefFile)
      else if dt.isStr "stationary" then .ok (.str stationaryDefFile)
      else .error .exit

def methodOmit : List String := ["default_parameters", "quantification_parameters"]

/-- second loop for one method: choose its defaults file, type check, merge -/
def installMethod (defs : KV) (method : J) : Except Rej J :=
  match method with
  | .obj mk =>
    match methodDefFile mk with
    | .error e => .error e
    | .ok df =>
      match loadDef defs df with
      | .error e => .error e
      | .ok d =>
        match mk.lookup "method_name" with
        | none => .error .key_error
        | some _ =>
          match checkTypes methodOmit d method with
          | .error e => .error e
          | .ok _ => retainUpdate d method
  | _ => .error .type_error

def installMethods (defs : KV) : KV → Except Rej KV
  | .nil => .ok .nil
  | .cons k m t =>
    match installMethod defs m with
    | .error e => .error e
    | .ok r =>
      match installMethods defs t with
      | .ok t' => .ok (.cons k r t')
      | .error e => .error e

def installProgram (defs : KV) (pool : KV) (prog : J) : Except Rej J :=
  match prog with
  | .obj pk =>
    let labelsE : Except Rej (List J) :=
      match pk.lookup "method_labels" with
      | none => .ok []
      | some .null => .ok []
      | some v => iterLabels v
    match labelsE with
    | .error e => .error e
    | .ok labels =>
      match installLabels pool labels .nil with
      | .error e => .error e
      | .ok ms =>
        match installMethods defs ms with
        | .error e => .error e
        | .ok ms' => .ok (.obj (pk.setKey "methods" (.obj ms')))
  | _ => .error .type_error

def installPrograms (defs : KV) (pool : KV) : KV → Except Rej KV
  | .nil => .ok .nil
  | .cons k p t =>
    match installProgram defs pool p with
    | .error e => .error e
    | .ok r =>
      match installPrograms defs pool t with
      | .ok t' => .ok (.cons k r t')
      | .error e => .error e

def hasOutputsFile : List KV → Bool
  | [] => false
  | f :: fs => (match f.lookup "parameter_level" with
      | some l => l.isStr "outputs"
      | none => false) || hasOutputsFile fs

/-- `parse_parameters(new_parameters_list)`; result = `self.simulation_parameters` -/
def parse (defs : KV) (sim0 : KV) (files : List KV) : Except Rej KV :=
  let files' := if hasOutputsFile files then files
    else files ++ [KV.cons "parameter_level" (.str "outputs") .nil]
  match routeAll defs { sim := sim0, programs := .nil, pool := .nil } files' with
  | .error e => .error e
  | .ok st =>
    match st.programs with
    | .nil => .error .exit
    | progs =>
      match installPrograms defs st.pool progs with
      | .error e => .error e
      | .ok ps => .ok (st.sim.setKey "programs" (.obj ps))

/-- `InputManager().read_and_validate_parameters(files)` on already loaded files;
`defs` = file name ↦ tree of `src/default_parameters` -/
def intake (defs : KV) (files : List KV) : Except Rej J :=
  match defs.lookup simDefFile with
  | some (.obj sim0) =>
    match versionGate false files with
    | .error e => .error e
    | .ok fs =>
      match parse defs sim0 fs with
      | .error e => .error e
      | .ok sim =>
        match removePlaceholders (.obj sim) with
        | .obj sim' =>
          match validateNames sim' with
          | .ok _ => .ok (.obj sim')
          | .error e => .error e
        | _ => .error .type_error
  | _ => .error .io_error

end LdarModel.Tree
