import LdarModel.Model.Crew
import LdarModel.Model.Emission
/-
Model of the cost booking of LDAR-Sim, on top of `Crew.deployDay` (core Lean only, executable).

Source modelled:
  programs/method.py:99-112        Method.initialize_cost_tracking            (`selectCost`, `upfrontCost`)
  programs/method.py:281-309       per-site charge at a completed survey, per-day charge x deployed
                                   crews / x planned sites (stationary)       (inside `Crew.deployDay`)
  programs/component_level_method.py:136-219  the same booking after the two `fix:` commits of C10
  programs/program.py:204-232      TsMethodData(upfront_cost, daily_deployment_cost) (`methodDay`)
  file_processing/output_processing/program_output_manager.py:157-204
                                   _update_ts_row_w_emis_info / _update_ts_row_w_methods_info (`dailyRow`)
  ldar_sim.py:94-114               include_upfront_cost = first_day           (`programRows`)
  virtual_world/emission_types/repairable_emission.py:81-95,111-120,182-192
                                   repair cost / natural repair cost booked by `update` (`bookOnUpdate`)

Costs are `Int` (the correspondence uses integer-valued costs, on which the float arithmetic of the
implementation is exact).
-/
namespace LdarModel.Cost
open LdarModel.Crew

inductive CostType | perDay | perSite
  deriving DecidableEq, Repr, Inhabited

/-- cost parameters of a method (`cost:` block); `per_site` may be absent (stationary default file) -/
structure MethodCost where
  perDay : Int
  perSite : Option Int
  upfront : Int
  deriving DecidableEq, Repr, Inhabited

/-- `initialize_cost_tracking`: cost type and unit cost -/
def selectCost (c : MethodCost) : CostType × Int :=
  if c.perDay > 0 then (.perDay, c.perDay)
  else match c.perSite with
    | some s => if s > 0 then (.perSite, s) else (.perDay, 0)
    | none => (.perDay, 0)

/-- `initialize_crews`: a stationary method has one pseudo crew -/
def crewCount (stationary : Bool) (crews : Nat) : Nat := if stationary then 1 else crews

/-- `self.upfront_cost` -/
def upfrontCost (c : MethodCost) (stationary : Bool) (crews : Nat) : Int :=
  c.upfront * (crewCount stationary crews : Nat)

/-- constructing a method *reads* the cost block: the block is handed on unchanged (mutation becomes
return: the second component is the dict after `Method.__init__`).  `SimulationManager._setup_programs`
hands the same method-parameter dict to every program of every simulation, so several methods are
built from it one after another (`constructAll`). -/
def construct (c : MethodCost) (stationary : Bool) (crews : Nat) : Int × MethodCost :=
  (upfrontCost c stationary crews, c)

/-- the upfront costs of the methods built one after another from one parameter dict, and the dict
afterwards -/
def constructAll : List (Bool × Nat) → MethodCost → List Int × MethodCost
  | [], c => ([], c)
  | (st, n) :: bs, c =>
    let r := construct c st n
    let rest := constructAll bs r.2
    (r.1 :: rest.1, rest.2)

/-- the method description `deploy_crews` works with -/
def methodP (c : MethodCost) (stationary considerWeather : Bool) (env : Envelope) : MethodP :=
  { stationary := stationary, perSite := decide ((selectCost c).1 = .perSite), unitCost := (selectCost c).2,
    considerWeather := considerWeather, env := env }

/-- the cost fields of `TsMethodData` -/
structure MethodDay where
  deploy : Int
  upfront : Int
  deriving DecidableEq, Repr, Inhabited

/-- one method on one day: `deploy_crews` + `get_upfront_cost` -/
def methodDay (c : MethodCost) (stationary considerWeather : Bool) (env : Envelope)
    (budget : Int) (crews : Nat) (reqs : List Req) : MethodDay :=
  { deploy := (deployDay (methodP c stationary considerWeather env) budget
                (crewCount stationary crews) reqs).stats.cost,
    upfront := upfrontCost c stationary crews }

/-- the cost columns of one timeseries row -/
structure Row where
  cost : Int               -- "Daily Cost ($)"
  repCost : Int            -- "Daily Repair Cost ($)"
  natRepCost : Int         -- "Daily Natural Repair Cost ($)"
  methodCols : List Int    -- "<method> Daily Deployment Cost ($)" per method
  deriving DecidableEq, Repr, Inhabited

/-- the accumulation loop of `_update_ts_row_w_methods_info` -/
def totalDaily (first : Bool) (ms : List MethodDay) : Int :=
  ms.foldl (fun acc m => (if first then acc + m.upfront else acc) + m.deploy) 0

/-- `_update_ts_row_w_emis_info` + `_update_ts_row_w_methods_info` (cost fields) -/
def dailyRow (first : Bool) (ms : List MethodDay) (repCost natRepCost : Int) : Row :=
  { cost := totalDaily first ms + repCost
    repCost := repCost
    natRepCost := natRepCost
    methodCols := ms.map (fun m => if first then m.deploy + m.upfront else m.deploy) }

/-- what one day contributes: the methods' cost data and the two repair-cost totals -/
structure DayData where
  methods : List MethodDay
  repCost : Int
  natRepCost : Int
  deriving DecidableEq, Repr, Inhabited

/-- the rows of a run: `first_day` is true for the first iteration of the day loop only -/
def programRows : List DayData → List Row
  | [] => []
  | d :: ds => dailyRow true d.methods d.repCost d.natRepCost
      :: ds.map (fun x => dailyRow false x.methods x.repCost x.natRepCost)

/-! ### repair cost of one emission -/

open LdarModel.Emission in
/-- what `RepairableEmission.update` adds to `(repair_cost, nat_repair_cost)` of the day's
`EmisInfo`, given the state after activation and tagging (same guards as `Emission.update`) -/
def bookOnUpdate (p : Emission.Params) (cost : Int) (s : Emission.State) : Int × Int :=
  if s.status ≠ .active then (0, 0)
  else if p.repairable then
    let dst := if s.tagged then s.dst + 1 else s.dst
    if s.tagged ∧ dst ≥ p.repairDelay + s.trd then (cost, 0)
    else if s.activeDays + 1 + Emission.b4 p ≥ p.nrd then (0, cost)
    else (0, 0)
  else (0, 0)

open LdarModel.Emission in
/-- the booking of simulated day `n` for one emission under the tag schedule `ev` -/
def bookDay (p : Emission.Params) (cost : Int) (ev : Nat → List Emission.TagEv) (n : Nat) : Int × Int :=
  bookOnUpdate p cost ((ev n).foldl (fun s e => Emission.tag p n e s) (Emission.activate p n (Emission.run p ev n)))

/-- sum of `f 0 .. f (n-1)` -/
def sumTo (f : Nat → Int) : Nat → Int
  | 0 => 0
  | n + 1 => sumTo f n + f n

/-! ### the program's day: methods + all leaks -/

/-- a repairable leak of the program's world: parameters, its repair cost, the tags it receives -/
structure Leak where
  p : Emission.Params
  cost : Int
  ev : Nat → List Emission.TagEv

/-- `EmisInfo.repair_cost` / `nat_repair_cost` of day `n`: every emission's `update` adds to the same
day record (`Infrastructure.update_emissions_state`) -/
def repSum (es : List Leak) (n : Nat) : Int := (es.map (fun e => (bookDay e.p e.cost e.ev n).1)).sum
def natSum (es : List Leak) (n : Nat) : Int := (es.map (fun e => (bookDay e.p e.cost e.ev n).2)).sum

/-- the timeseries row of simulated day `n` of a program with method data `ms n` and leaks `es` -/
def programDay (ms : Nat → List MethodDay) (es : List Leak) (n : Nat) : Row :=
  dailyRow (n == 0) (ms n) (repSum es n) (natSum es n)

/-! ### one survey over several days: what a per-site method charges for it -/

/-- total charged over the days of one survey: the charge is booked on a day whose visit completes
the survey (`deploy_crews` looks at `survey_report.survey_complete` of that day's report) -/
def surveyCostRun (stationary : Bool) (S charge : Int) : List DayIn → Report → Int → Report × Int
  | [], rep, acc => (rep, acc)
  | d :: ds, rep, acc =>
    let x := surveyDay stationary S rep d
    surveyCostRun stationary S charge ds x.1
      (acc + if x.1.complete ∧ ¬ rep.complete then charge else 0)

end LdarModel.Cost
