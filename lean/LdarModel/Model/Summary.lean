/-
Model of the summary aggregation of LDAR-Sim (core Lean only, executable).

Source modelled:
  constants/file_processing_const.py                  TS/EMIS/EST/EST_REP patterns, the name-extraction
                                                      regex, the `kept` marker (leading marker)
  file_processing/output_processing/summary_outputs.py
        summarize_program_outputs                     `summarize`
        generate_timeseries_summary                   `tsRows`
        generate_emissions_estimation_summary         `estJoin` (estimate − correction of the *same*
                                                      key, floored at 0; repaired code, commit 4d10ac0)
        generate_emissions_summary                    `mergeOuter`, `emisRows`
  file_processing/output_processing/summary_output_helpers.py
        get_sum / get_mean_val / get_nth_percentile   `sumI`, `meanI`, `Val.pct` (uninterpreted)
        get_yearly_value_for_multi_day_stat           `yearlyShare`
        get_annual_emissions_at_all_sites_with_extrapolation   `extrapolated`
        mark_outputs_to_keep / clear_directory        `markKept`, `clearDir`
  file_processing/output_processing/summary_output_mapper.py     `tsStat`, `emisStat`, `estStat`, `repStat`
  file_processing/output_processing/summary_output_manager.py
        gen_summary_outputs / combine_outputs         `genAll`
        gen_cost_summary_outputs (+ the two formulas) `costSummary`
  simulation/simulation_helpers.py  batch_simulations `batchSimulations`
  simulation/simulation_manager.py  _run_simulations_debug     `runBatches`, `runAll`

The model follows the repaired code: join on the key (4d10ac0), kept marker anchored at the start of
the name (882e6bc), only the folder named `Logs` is skipped (14dc81b), a fully covered year counts its
own number of days (d471a7e), an open end is the end of the latest year recorded in the data (e320a70).

A directory is a list of files `(name, content)`; a *listing* is whatever `os.scandir` returned for
it (any permutation).  Summary tables are lists of `(key, row)` with key = (program, simulation) as
they are captured from the file name.  pandas' row order of a table is not modelled: tables are
compared as keyed collections.
-/
namespace LdarModel.Summary

abbrev Name := List Char
/-- (program, simulation) as captured by the name regex: both are text -/
abbrev Key := Name × Name
abbrev Table (α : Type) := List (Key × α)

structure File (κ : Type) where
  name : Name
  content : κ

/-! ### file names -/

def tsSuffix : Name := "timeseries.csv".toList
def emisSuffix : Name := "emissions_summary.csv".toList
def estSuffix : Name := "estimated_emissions.csv".toList
def repSuffix : Name := "estimated_repaired_emissions_to_remove.csv".toList
def keptStr : Name := "kept".toList
def logsName : Name := "Logs".toList

/-- `re.compile(r".*<suffix>$").match(name)` -/
def hasSuffix (suf n : Name) : Bool := suf.isSuffixOf n

/-- `re.search(OUTPUT_KEEP_REGEX, name)` with the regex anchored at the start of the name -/
def isKept (n : Name) : Bool := keptStr.isPrefixOf n

/-- put a character in front of the first token -/
def consHead (c : Char) : List Name → List Name
  | [] => [[c]]
  | t :: ts => (c :: t) :: ts

/-- split at every `_` (always at least one token) -/
def splitU : Name → List Name
  | [] => [[]]
  | c :: cs => if c = '_' then [] :: splitU cs else consHead c (splitU cs)

/-- inverse of `splitU`: tokens joined by `_` -/
def joinU : List Name → Name
  | [] => []
  | [t] => t
  | t :: t' :: ts => t ++ '_' :: joinU (t' :: ts)

/-- `\d+` -/
def isDigits (t : Name) : Bool := !t.isEmpty && t.all Char.isDigit

/-- what has to follow the simulation number: `_.+.csv$`, i.e. an underscore (there are further
tokens) and then at least two characters followed by `csv` -/
def restOK (ts : List Name) : Bool :=
  !ts.isEmpty && decide (5 ≤ (joinU ts).length) && "csv".toList.isSuffixOf (joinU ts)

/-- `^(.*)_((?<=_)\d+)_.+.csv$` on the token list: the greedy first group makes the *last*
admissible all-digit token the simulation number -/
def parseToks : List Name → List Name → Option (List Name × Name)
  | _, [] => none
  | pre, t :: ts =>
    match parseToks (pre ++ [t]) ts with
    | some r => some r
    | none => if !pre.isEmpty && isDigits t && restOK ts then some (pre, t) else none

/-- groups 1 and 2 of OUTPUTS_NAME_SIM_EXTRACTION_REGEX -/
def parseName (n : Name) : Option Key :=
  (parseToks [] (splitU n)).map fun r => (joinU r.1, r.2)

def simDigits (s : Nat) : Name := Nat.toDigits 10 s

/-- `"_".join(["{program}_{sim_number}", suffix])` -/
def mkName (p : Name) (s : Nat) (suf : Name) : Name := p ++ '_' :: (simDigits s ++ '_' :: suf)

def key (p : Name) (s : Nat) : Key := (p, simDigits s)

/-! ### values and statistics -/

/-- a cell of a summary row: an exact number, or NumPy's percentile of a column (uninterpreted:
the model only says of *which* column) -/
inductive Val where
  | q (r : Rat)
  | pct (p : Nat) (col : List Int)
  /-- NaN: the mean / percentile of a column without rows (written as an empty cell) -/
  | nan
  deriving DecidableEq

def Val.toRat : Val → Rat
  | .q r => r
  | .pct _ _ => 0
  | .nan => 0

/-- the statistics computed from one file of each kind, and which files the real code accepts at
all: it raises on a selected file it cannot summarise and the whole summarisation stops.  For the
mapper's own statistics (`concreteStats`) that is an estimate file without data rows
(`groupby(...).apply` of an empty frame: AttributeError); since 813cfa3 timeseries / emissions files
without rows are summarised (NaN cells / a row of zeros).  `est` says nothing about rejected files. -/
structure Stats (κ : Type) where
  ts : κ → List Val
  emis : κ → List Val
  est : κ → List Rat
  rep : κ → List Rat
  nEmis : Nat
  nYears : Nat
  okTs : κ → Bool
  okEmis : κ → Bool
  okEst : κ → Bool

/-! ### one summary table from one listing -/

/-- `summarize_program_outputs`: one row per file whose name matches the pattern and is not kept -/
def summarize {κ α : Type} (suf : Name) (f : κ → α) (listing : List (File κ)) : Table α :=
  listing.filterMap fun e =>
    if hasSuffix suf e.name && !isKept e.name then (parseName e.name).map fun k => (k, f e.content)
    else none

/-- the real code raises (`None.group`) on a selected file whose name the extraction regex rejects -/
def wellNamed {κ : Type} (suf : Name) (listing : List (File κ)) : Bool :=
  listing.all fun e => !(hasSuffix suf e.name && !isKept e.name) || (parseName e.name).isSome

/-- some file selected by the pattern (and not kept) is one the real code raises on -/
def rejectsListing {κ : Type} (suf : Name) (ok : κ → Bool) (listing : List (File κ)) : Bool :=
  listing.any fun e => hasSuffix suf e.name && !isKept e.name && !ok e.content

def floorSub (a b : Rat) : Rat := max (a - b) 0

/-- one estimate row against the correction table: the correction of the same key is subtracted,
floored at zero, column by column; without a correction row the cells end as 0 (NaN, later
`fillna(0)`) -/
def estCell (rep : Table (List Rat)) (k : Key) (e : List Rat) : List Rat :=
  match rep.lookup k with
  | some r => List.zipWith floorSub e r
  | none => e.map fun _ => 0

/-- estimate minus the correction of the same key -/
def estJoin (est rep : Table (List Rat)) : Table (List Rat) :=
  est.map fun x => (x.1, estCell rep x.1 x.2)

def mergeCell (nY : Nat) (est : Table (List Rat)) (k : Key) (r : List Val) : List Val :=
  r ++ match est.lookup k with
       | some e => e.map Val.q
       | none => List.replicate nY (Val.q 0)

/-- outer merge on the key, missing cells 0 -/
def mergeOuter (nE nY : Nat) (emis : Table (List Val)) (est : Table (List Rat)) : Table (List Val) :=
  (emis.map fun x => (x.1, mergeCell nY est x.1 x.2))
  ++ ((est.filter fun x => (emis.lookup x.1).isNone).map fun x =>
      (x.1, List.replicate nE (Val.q 0) ++ x.2.map Val.q))

def tsRows {κ : Type} (S : Stats κ) (l : List (File κ)) : Table (List Val) := summarize tsSuffix S.ts l

def emisRows {κ : Type} (S : Stats κ) (le lest lrep : List (File κ)) : Table (List Val) :=
  mergeOuter S.nEmis S.nYears (summarize emisSuffix S.emis le)
    (estJoin (summarize estSuffix S.est lest) (summarize repSuffix S.rep lrep))

/-! ### directories, batches -/

/-- `mark_outputs_to_keep` -/
def markKept {κ : Type} (d : List (File κ)) : List (File κ) :=
  d.map fun f => if isKept f.name then f else { f with name := keptStr ++ f.name }

/-- `clear_directory` -/
def clearDir {κ : Type} (d : List (File κ)) : List (File κ) := d.filter fun f => isKept f.name

def finish {κ : Type} (clear : Bool) (d : List (File κ)) : List (File κ) :=
  if clear then clearDir d else markKept d

/-- the four listings `gen_summary_outputs` obtains for one program folder -/
structure Listings (κ : Type) where
  ts : List (File κ)
  emis : List (File κ)
  est : List (File κ)
  rep : List (File κ)

structure St (κ : Type) where
  dirs : List (Name × List (File κ))
  ts : Table (List Val)
  emis : Table (List Val)

/-- `gen_summary_outputs` raises for these listings (nothing is written, the run stops) -/
def rejectsVisit {κ : Type} (S : Stats κ) (visit : List (Name × Listings κ)) : Bool :=
  visit.any fun v => rejectsListing tsSuffix S.okTs v.2.ts || rejectsListing emisSuffix S.okEmis v.2.emis
    || rejectsListing estSuffix S.okEst v.2.est

def progDirs {κ : Type} (st : St κ) : List (Name × List (File κ)) :=
  st.dirs.filter fun pd => pd.1 != logsName

/-- `gen_summary_outputs(clear)`: `visit` = the program folders in the order they are visited, each
with the listings obtained for it; legacy rows first, then the new rows -/
def genAll {κ : Type} (S : Stats κ) (clear : Bool) (visit : List (Name × Listings κ)) (st : St κ) : St κ :=
  { dirs := st.dirs.map fun pd => if pd.1 != logsName then (pd.1, finish clear pd.2) else pd
    ts := st.ts ++ visit.flatMap fun v => tsRows S v.2.ts
    emis := st.emis ++ visit.flatMap fun v => emisRows S v.2.emis v.2.est v.2.rep }

/-- `batch_simulations` -/
def batchSimulations (n : Nat) : List Nat :=
  if n > 5 then List.replicate (n / 5) 5 ++ (if n % 5 > 0 then [n % 5] else []) else [n]

/-- simulation numbers of batch `b` holding `c` simulations: `batch_count * 5 + simulation` -/
def batchSims (b c : Nat) : List Nat := (List.range c).map fun i => b * 5 + i

/-- files one program-simulation writes -/
structure SimOut (κ : Type) where
  ts : κ
  emis : κ
  est : Option κ
  rep : Option κ

def simFiles {κ : Type} (p : Name) (s : Nat) (o : SimOut κ) : List (File κ) :=
  [⟨mkName p s tsSuffix, o.ts⟩, ⟨mkName p s emisSuffix, o.emis⟩]
    ++ (o.est.map fun c => (⟨mkName p s estSuffix, c⟩ : File κ)).toList
    ++ (o.rep.map fun c => (⟨mkName p s repSuffix, c⟩ : File κ)).toList

def writeBatch {κ : Type} (W : Name → Nat → SimOut κ) (sims : List Nat) (st : St κ) : St κ :=
  { st with dirs := st.dirs.map fun pd => (pd.1, pd.2 ++ sims.flatMap fun s => simFiles pd.1 s (W pd.1 s)) }

/-- every enumeration order of a run: `dirs b` orders the program folders of batch `b`, the others
order the files of program `p` for the four scans of batch `b` -/
structure Sched (κ : Type) where
  dirs : Nat → List (Name × List (File κ)) → List (Name × List (File κ))
  ts : Nat → Name → List (File κ) → List (File κ)
  emis : Nat → Name → List (File κ) → List (File κ)
  est : Nat → Name → List (File κ) → List (File κ)
  rep : Nat → Name → List (File κ) → List (File κ)

def visitOf {κ : Type} (σ : Sched κ) (b : Nat) (st : St κ) : List (Name × Listings κ) :=
  (σ.dirs b (progDirs st)).map fun pd =>
    (pd.1, { ts := σ.ts b pd.1 pd.2, emis := σ.emis b pd.1 pd.2, est := σ.est b pd.1 pd.2,
             rep := σ.rep b pd.1 pd.2 })

/-- the batch loop of `_run_simulations_debug`: simulate the batch, then summarise it; outputs are
cleared from the second batch on unless all program outputs are kept -/
def runBatches {κ : Type} (S : Stats κ) (W : Name → Nat → SimOut κ) (keepAll : Bool) (σ : Sched κ) :
    Nat → List Nat → St κ → St κ
  | _, [], st => st
  | b, c :: cs, st =>
    let st1 := writeBatch W (batchSims b c) st
    runBatches S W keepAll σ (b + 1) cs (genAll S (b != 0 && !keepAll) (visitOf σ b st1) st1)

def initSt {κ : Type} (progs : List Name) : St κ := { dirs := progs.map fun p => (p, []), ts := [], emis := [] }

def runAll {κ : Type} (S : Stats κ) (W : Name → Nat → SimOut κ) (progs : List Name) (keepAll : Bool)
    (σ : Sched κ) (n : Nat) : St κ :=
  runBatches S W keepAll σ 0 (batchSimulations n) (initSt progs)

/-- does some `gen_summary_outputs` call of the batch loop raise? -/
def runRejects {κ : Type} (S : Stats κ) (W : Name → Nat → SimOut κ) (keepAll : Bool) (σ : Sched κ) :
    Nat → List Nat → St κ → Bool
  | _, [], _ => false
  | b, c :: cs, st =>
    let st1 := writeBatch W (batchSims b c) st
    rejectsVisit S (visitOf σ b st1)
      || runRejects S W keepAll σ (b + 1) cs (genAll S (b != 0 && !keepAll) (visitOf σ b st1) st1)

/-- the run as the real code behaves: `none` when a summarisation call raises -/
def runAllChecked {κ : Type} (S : Stats κ) (W : Name → Nat → SimOut κ) (progs : List Name) (keepAll : Bool)
    (σ : Sched κ) (n : Nat) : Option (St κ) :=
  if runRejects S W keepAll σ 0 (batchSimulations n) (initSt progs) then none
  else some (runAll S W progs keepAll σ n)

/-! ### histories of runs into the same output folder -/

/-- `SimulationManager.initialize_outputs`: whatever the output folder held (program folders,
summary files of an earlier run, anything else), it is removed and an empty folder is created -/
def clearFolder {κ : Type} (_prior : St κ) : St κ := { dirs := [], ts := [], emis := [] }

/-- the program folders appear with the first files written into them -/
def mkProgDirs {κ : Type} (progs : List Name) (st : St κ) : St κ :=
  { st with dirs := st.dirs ++ progs.map fun p => (p, []) }

/-- one complete run (`initialize_outputs`, then the batch loop) into a folder in state `prior` -/
def runInFolder {κ : Type} (S : Stats κ) (W : Name → Nat → SimOut κ) (progs : List Name) (keepAll : Bool)
    (σ : Sched κ) (n : Nat) (prior : St κ) : St κ :=
  runBatches S W keepAll σ 0 (batchSimulations n) (mkProgDirs progs (clearFolder prior))

/-- the same with the real code's rejection of files without rows -/
def runInFolderChecked {κ : Type} (S : Stats κ) (W : Name → Nat → SimOut κ) (progs : List Name) (keepAll : Bool)
    (σ : Sched κ) (n : Nat) (prior : St κ) : Option (St κ) :=
  if runRejects S W keepAll σ 0 (batchSimulations n) (mkProgDirs progs (clearFolder prior)) then none
  else some (runInFolder S W progs keepAll σ n prior)

/-- the batch loop started in the folder as it is (what a run does when the clean-up leaves the
earlier contents in place): only the folders of programs that are not there yet are created
(used to state what goes wrong; every folder found is treated as a program of this run) -/
def runWithoutInit {κ : Type} (S : Stats κ) (W : Name → Nat → SimOut κ) (progs : List Name) (keepAll : Bool)
    (σ : Sched κ) (n : Nat) (prior : St κ) : St κ :=
  runBatches S W keepAll σ 0 (batchSimulations n)
    (mkProgDirs (progs.filter fun p => !(prior.dirs.map (·.1)).contains p) prior)

/-- what one run of a history is configured with -/
structure RunSpec (κ : Type) where
  W : Name → Nat → SimOut κ
  progs : List Name
  keepAll : Bool
  σ : Sched κ
  n : Nat

/-- runs one after the other into the same folder -/
def runHistory {κ : Type} (S : Stats κ) : List (RunSpec κ) → St κ → St κ
  | [], st => st
  | r :: rs, st => runHistory S rs (runInFolder S r.W r.progs r.keepAll r.σ r.n st)

/-! ### cost summary -/

structure CostRow where
  mitigation : Rat
  totalCost : Rat
  /-- `total / (mitigation / 1000 * gwp)`; `none` when the denominator is 0 (inf / NaN) -/
  ratio : Option Rat
  value : Rat

def costRatio (mit cost gwp : Rat) : Option Rat :=
  if mit / 1000 * gwp = 0 then none else some (cost / (mit / 1000 * gwp))

def costValue (mit kgToMmbtu natgas : Rat) : Rat := mit * kgToMmbtu * natgas

/-- column of the total mitigation in an Emissions Summary row / of the total cost in a Timeseries
Summary row -/
def mitCol : Nat := 0
def costCol : Nat := 10

def cell (r : List Val) (i : Nat) : Rat := (r.getD i (Val.q 0)).toRat

/-- `gen_cost_summary_outputs`: inner merge of the two filtered summaries on the key -/
def costSummary (nonBase : List Name) (econ : Name → Rat × Rat) (kgToMmbtu : Rat)
    (emis ts : Table (List Val)) : Table CostRow :=
  (emis.filter fun x => nonBase.contains x.1.1).filterMap fun x =>
    ((ts.filter fun y => nonBase.contains y.1.1).lookup x.1).map fun t =>
      let mit := cell x.2 mitCol
      let cost := cell t costCol
      (x.1, { mitigation := mit, totalCost := cost,
              ratio := costRatio mit cost (econ x.1.1).1,
              value := costValue mit kgToMmbtu (econ x.1.1).2 })

/-! ### concrete file contents and the statistics of the mapper -/

structure Date where
  y : Nat
  m : Nat
  d : Nat
  deriving DecidableEq

/-- days since 1970-01-01 (proleptic Gregorian) -/
def Date.ord (t : Date) : Int :=
  let y : Int := if t.m ≤ 2 then (t.y : Int) - 1 else t.y
  let era : Int := y / 400
  let yoe : Int := y - era * 400
  let mp : Int := ((t.m : Int) + 9) % 12
  let doy : Int := (153 * mp + 2) / 5 + t.d - 1
  let doe : Int := yoe * 365 + yoe / 4 - yoe / 100 + doy
  era * 146097 + doe - 719468

structure EmisRow where
  mitigated : Int
  trueVol : Int
  estVol : Int
  repairable : Bool
  trueRate : Int
  began : Option Date
  ended : Option Date
  theory : Option Date

structure EstRow where
  site : Nat
  stype : Nat
  measured : Bool
  vol : Int
  start : Option Date
  stop : Option Date

structure RepRow where
  vol : Int
  start : Option Date
  stop : Option Date

inductive Content where
  | ts (rows : List (Int × Int × Int × Int))
  | emis (rows : List EmisRow)
  | est (rows : List EstRow)
  | rep (rows : List RepRow)
  | other

def sumI (l : List Int) : Rat := ((l.foldl (· + ·) 0 : Int) : Rat)
/-- only meaningful for a non-empty column (`meanV` guards every use) -/
def meanI (l : List Int) : Rat := sumI l / (l.length : Rat)
def sumR (l : List Rat) : Rat := l.foldl (· + ·) 0
def meanR (l : List Rat) : Rat := sumR l / (l.length : Rat)

def maxDate (l : List (Option Date)) : Option Date :=
  l.foldl (fun acc x => match acc, x with
    | none, x => x
    | some a, none => some a
    | some a, some b => if a.ord < b.ord then some b else some a) none

/-- contribution of one row to the yearly value (`none`: filtered out); `mx` = latest date recorded
in the frame (start or end dates).  A row without end date is still active when the data ends: it
lasts until Dec 31 of the year of `mx` (never before its own start, `mx` being the latest date) and,
like every other row, counts only for the years up to its end (repaired code, e320a70) -/
def rowShare (mx : Option Date) (year : Nat) (r : Int × Option Date × Option Date) : Option Rat :=
  match r.2.1 with
  | none => none
  | some st =>
    let en : Date := match r.2.2 with
      | some e => e
      | none => { y := (match mx with | some m => m.y | none => st.y), m := 12, d := 31 }
    if st.y ≤ year && decide (year ≤ en.y) then
      let soy : Date := { y := year, m := 1, d := 1 }
      let eoy : Date := { y := year, m := 12, d := 31 }
      let tt : Int × Int :=
        if st.y = year ∧ en.y = year then (1, 1)
        else if st.y = year then (en.ord - st.ord + 1, eoy.ord - st.ord + 1)
        else if en.y = year then (en.ord - st.ord + 1, en.ord - soy.ord + 1)
        else (en.ord - st.ord + 1, eoy.ord - soy.ord + 1)
      some ((r.1 : Rat) * ((tt.2 : Rat) / (tt.1 : Rat)))
    else none

/-- latest date recorded in a frame: `df[[start, end]].max().max()` -/
def latestDate (rows : List (Int × Option Date × Option Date)) : Option Date :=
  maxDate (rows.map (fun r => r.2.1) ++ rows.map (fun r => r.2.2))

/-- `get_yearly_value_for_multi_day_stat` on rows (value, start, end) of one frame -/
def yearlyShare (rows : List (Int × Option Date × Option Date)) (year : Nat) : Rat :=
  sumR (rows.filterMap (rowShare (latestDate rows) year))

def dedup (l : List Nat) : List Nat := l.foldl (fun acc x => if acc.contains x then acc else acc ++ [x]) []

/-- `SimulationManager.calc_simulation_years`: the calendar years of a simulated period, i.e. every
year from the start date's to the end date's (each contains at least one simulated day) -/
def yearsOf (start stop : Date) : List Nat := (List.range (stop.y - start.y + 1)).map fun i => start.y + i

/-- the survey planner's convention (`ScheduledSurveyPlanner._get_simulation_years`): whole
simulation years only — the last calendar year is dropped when the period ends earlier in the
calendar than it starts.  NOT what the summaries are built with -/
def plannerYears (start stop : Date) : List Nat :=
  let lastY := if start.m > stop.m ∨ (start.m = stop.m ∧ start.d > stop.d) then stop.y - 1 else stop.y
  (List.range (lastY + 1 - start.y)).map fun i => start.y + i

/-- one site of an estimate file for one year: (site, site type, measured?, annual value) -/
abbrev SiteInfo := Nat × Nat × Bool × Rat

/-- the measured sites -/
def measuredSites (info : List SiteInfo) : List SiteInfo := info.filter fun x => x.2.2.1

/-- what a site contributes to the extrapolated total: its own annual value if it was measured;
else the average over the measured sites of its own type; if no site of its type was measured, the
average over ALL measured SITES (not the average of the per-type averages); 0 if nothing was
measured (pandas skips the NaN in the final sum) -/
def contribution (info : List SiteInfo) (x : SiteInfo) : Rat :=
  if x.2.2.1 then x.2.2.2
  else
    let same := (measuredSites info).filter fun y => y.2.1 == x.2.1
    if same.isEmpty then
      (if (measuredSites info).isEmpty then 0 else meanR ((measuredSites info).map (·.2.2.2)))
    else meanR (same.map (·.2.2.2))

def extrapolateInfo (info : List SiteInfo) : Rat := sumR (info.map (contribution info))

/-- per-site annual values, type and measured flag of an estimate file -/
def siteInfo (rows : List EstRow) (year : Nat) : List SiteInfo :=
  (dedup (rows.map (·.site))).map fun s =>
    let g := rows.filter fun r => r.site == s
    let first := g.head?
    (s, (first.map (·.stype)).getD 0, (first.map (·.measured)).getD false,
      yearlyShare (g.map fun r => (r.vol, r.start, r.stop)) year)

/-- `get_annual_emissions_at_all_sites_with_extrapolation` -/
def extrapolated (rows : List EstRow) (year : Nat) : Rat := extrapolateInfo (siteInfo rows year)

def col4 (rows : List (Int × Int × Int × Int)) (i : Nat) : List Int :=
  rows.map fun r => match i with | 0 => r.1 | 1 => r.2.1 | 2 => r.2.2.1 | _ => r.2.2.2

/-- `df[col].mean()`: NaN for a column without rows -/
def meanV (l : List Int) : Val := if l.isEmpty then .nan else .q (meanI l)

/-- `get_nth_percentile` (since 813cfa3: NaN for a column without rows) -/
def pctV (p : Nat) (l : List Int) : Val := if l.isEmpty then .nan else .pct p l

/-- `merged.fillna(0)` of the Emissions Summary -/
def fill0 : Val → Val
  | .nan => .q 0
  | v => v

/-- Timeseries Summary statistics in the mapper's order (a timeseries without rows gives NaN cells
and a total cost of 0) -/
def tsStat : Content → List Val
  | .ts rows =>
    let e := col4 rows 0; let m := col4 rows 1; let n := col4 rows 2; let c := col4 rows 3
    [meanV e, meanV m, meanV n, pctV 95 e, pctV 95 m, pctV 95 n, pctV 5 e, pctV 5 m,
     pctV 5 n, meanV c, .q (sumI c), pctV 95 c, pctV 5 c]
  | _ => []

/-- Emissions Summary statistics in the mapper's order, then the yearly ones (an emissions file
without rows — a simulation without any emission — gives a row of zeros: NaN cells are filled) -/
def emisStat (years : List Nat) : Content → List Val
  | .emis rows =>
    let tv := rows.map (·.trueVol)
    let tr := rows.map (·.trueRate)
    [.q (sumI (rows.map (·.mitigated))), .q (sumI tv), .q (sumI (rows.map (·.estVol))),
     .q (sumI ((rows.filter (·.repairable)).map (·.trueVol))),
     .q (sumI ((rows.filter (fun r => !r.repairable)).map (·.trueVol))),
     fill0 (meanV tr), fill0 (pctV 95 tr), fill0 (pctV 5 tr), fill0 (meanV tv), fill0 (pctV 95 tv),
     fill0 (pctV 5 tv)]
    ++ years.map (fun y => .q (yearlyShare (rows.map fun r => (r.mitigated, r.ended, r.theory)) y))
    ++ years.map (fun y => .q (yearlyShare (rows.map fun r => (r.trueVol, r.began, r.ended)) y))
  | _ => []

def estStat (years : List Nat) : Content → List Rat
  | .est rows => years.map (extrapolated rows)
  | _ => []

def repStat (years : List Nat) : Content → List Rat
  | .rep rows => years.map (yearlyShare (rows.map fun r => (r.vol, r.start, r.stop)))
  | _ => []

def concreteStats (years : List Nat) : Stats Content :=
  { ts := tsStat, emis := emisStat years, est := estStat years, rep := repStat years,
    nEmis := 11 + 2 * years.length, nYears := years.length,
    okTs := fun _ => true,
    okEmis := fun _ => true,
    okEst := fun c => match c with | .est rows => !rows.isEmpty | _ => false }

end LdarModel.Summary
