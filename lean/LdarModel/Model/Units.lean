/-
Model of LDAR-Sim's unit conversion of emission rates (core Lean only, executable, exact rationals).

Source modelled:
  utils/unit_converter.py                       gas_convert (whole body, every branch)
  file_processing/input_processing/
      emissions_source_processing.py            EmissionsSource.unit_conversion,
                                                EmissionsSourceSample.__init__/get_a_rate,
                                                EmissionsSourceDist.get_a_rate

The conversion dictionaries, the two numeric literals of the function body and the default
arguments are NOT written here: they are a `Table` value; the instance for the current source tree
is `Generated/Units.lean`, regenerated from /repo on every run.  Decimal literals of the source are
read as exact rationals (`2204.62 = 220462/100`).

A missing dictionary key (`KeyError`) or a zero divisor (`ZeroDivisionError`) is `none`.
Random choices (which sample, which distribution draw) are inputs.
-/
namespace LdarModel.Units

structure Metric where
  name : String
  perUnit : Rat
  isMass : Bool          -- "type": "mass" (true) / "volume" (false)
  deriving Repr, Inhabited

/-- entry of `temperature_units` / `pressure_units` -/
structure Affine where
  name : String
  scale : Rat
  offset : Rat
  deriving Repr, Inhabited

/-- the arguments of `gas_convert` -/
structure Args where
  q : Rat
  inSubstance : String
  inMetric : String
  inIncrement : String
  outSubstance : String
  outMetric : String
  outIncrement : String
  ngComp : Rat
  t : Rat
  p : Rat
  tempUnit : String
  presUnit : String
  gwp : Rat
  deriving Repr, Inhabited

structure Table where
  substances : List (String × Rat)        -- name ↦ "n"
  inMetrics : List Metric
  outMetrics : List Metric
  increments : List (String × Rat)
  tempUnits : List Affine
  presUnits : List Affine
  gasConstant : Rat                       -- the literal 8.3145 of the body
  gramsPerTonne : Rat                     -- the literal 1000000 of the body
  defaults : Args                         -- default arguments of gas_convert (q = 0)
  gramName : String                       -- gc.Unit_Constants.GRAM
  secondName : String                     -- gc.Unit_Constants.SECOND
  deriving Repr, Inhabited

def lookupR (l : List (String × Rat)) (k : String) : Option Rat :=
  (l.find? (fun e => e.1 == k)).map (·.2)

def lookupM (l : List Metric) (k : String) : Option Metric := l.find? (fun e => e.name == k)

def lookupA (l : List Affine) (k : String) : Option Affine := l.find? (fun e => e.name == k)

/-- Python `/` on exact numbers: division by zero raises -/
def sdiv (a b : Rat) : Option Rat := if b = 0 then none else some (a / b)

/-- `P * P_factors["scale"] + P_factors["offset"]` and the same for the temperature (note: the
dictionaries are indexed with the *unlowered* unit names) -/
def pressurePa (T : Table) (a : Args) : Option Rat :=
  (lookupA T.presUnits a.presUnit).map (fun f => a.p * f.scale + f.offset)

def temperatureK (T : Table) (a : Args) : Option Rat :=
  (lookupA T.tempUnits a.tempUnit).map (fun f => a.t * f.scale + f.offset)

/-- input side: quantity ↦ tonnes per year of the input substance -/
def inMassTpy (T : Table) (a : Args) : Option Rat := do
  let m ← lookupM T.inMetrics a.inMetric.toLower
  if m.isMass then
    let inc ← lookupR T.increments a.inIncrement.toLower
    sdiv (a.q * inc) m.perUnit
  else
    let ppa ← pressurePa T a
    let tk ← temperatureK T a
    let vol ← sdiv a.q m.perUnit
    let n ← lookupR T.substances a.inSubstance.toLower
    let massG ← sdiv (vol * ppa * n) (tk * T.gasConstant)
    let inc ← lookupR T.increments a.inIncrement.toLower
    sdiv (massG * inc) T.gramsPerTonne

/-- `CO2e_tpy` -/
def co2e (a : Args) (tpy : Rat) : Rat :=
  if a.inSubstance.toLower = "carbon dioxide" then tpy
  else if a.inSubstance.toLower = "methane" then tpy * a.gwp
  else tpy * a.gwp * a.ngComp

/-- `out_mass_tpy` -/
def outMassTpy (a : Args) (c : Rat) : Option Rat :=
  if a.outSubstance.toLower = "carbon dioxide" then some c
  else if a.outSubstance.toLower = "methane" then sdiv c a.gwp
  else do
    let x ← sdiv c a.gwp
    sdiv x a.ngComp

/-- output side -/
def outQuantity (T : Table) (a : Args) (tpy : Rat) : Option Rat := do
  let m ← lookupM T.outMetrics a.outMetric.toLower
  if m.isMass then
    let inc ← lookupR T.increments a.outIncrement.toLower
    sdiv (tpy * m.perUnit) inc
  else
    let ppa ← pressurePa T a
    let tk ← temperatureK T a
    let inc ← lookupR T.increments a.outIncrement.toLower
    let massG ← sdiv (tpy * T.gramsPerTonne) inc
    let n ← lookupR T.substances a.outSubstance.toLower
    let vol ← sdiv (massG * T.gasConstant * tk) (n * ppa)
    some (vol * m.perUnit)

/-- `gas_convert(**a)` -/
def gasConvert (T : Table) (a : Args) : Option Rat := do
  let tpy ← inMassTpy T a
  let o ← outMassTpy a (co2e a tpy)
  outQuantity T a o

/-- `gas_convert(input_quantity=q, input_metric=m, input_increment=i)`: the only way the emission
sources call the converter (everything else at its default) -/
def convertD (T : Table) (m i : String) (q : Rat) : Option Rat :=
  gasConvert T { T.defaults with q := q, inMetric := m, inIncrement := i }

/-- `EmissionsSource.unit_conversion` on one value (list conversion maps it over the list):
gram/second is passed through untouched -/
def unitConversion (T : Table) (m i : String) (q : Rat) : Option Rat :=
  if m = T.gramName ∧ i = T.secondName then some q else convertD T m i q

def capAt (cap x : Rat) : Rat := if x > cap then cap else x

/-- `EmissionsSourceSample`: samples and maximum are converted at construction, `get_a_rate`
picks a sample (the pick is the input `sample`) and caps it -/
def sampleRate (T : Table) (m i : String) (sample cap : Rat) : Option Rat := do
  let s ← unitConversion T m i sample
  let c ← unitConversion T m i cap
  some (capAt c s)

/-- `EmissionsSourceDist.get_a_rate`: the draw is capped in the file's unit, then converted -/
def distRate (T : Table) (m i : String) (draw cap : Rat) : Option Rat :=
  convertD T m i (capAt cap draw)

/-! ### physical meaning of the exactly defined units (SI), used to *state* unit invariance -/

/-- grams in one unit of an SI mass unit -/
def siGrams (m : String) : Option Rat :=
  if m = "gram" then some 1 else if m = "kilogram" then some 1000
  else if m = "tonne" then some 1000000 else none

/-- seconds in one unit of a fixed-length time unit -/
def siSeconds (i : String) : Option Rat :=
  if i = "second" then some 1 else if i = "minute" then some 60
  else if i = "hour" then some 3600 else if i = "day" then some 86400 else none

/-- the physical rate `q` g/s written in unit `m` per `i` -/
def toUnit (m i : String) (q : Rat) : Option Rat := do
  let g ← siGrams m
  let s ← siSeconds i
  some (q / g * s)

/-- The table is consistent on the exactly defined units: gram/kilogram/tonne per tonne are in
ratio 1000, the per-year counts of second/minute/hour/day are in ratio 60/60/24, nothing needed
for a division is zero, and the defaults are methane in, methane out, gram per second out. -/
def Consistent (T : Table) : Prop :=
  match lookupM T.inMetrics "gram", lookupM T.inMetrics "kilogram", lookupM T.inMetrics "tonne",
        lookupM T.outMetrics "gram",
        lookupR T.increments "second", lookupR T.increments "minute",
        lookupR T.increments "hour", lookupR T.increments "day" with
  | some g, some k, some t, some og, some s, some mi, some h, some d =>
    (g.isMass = true ∧ k.isMass = true ∧ t.isMass = true ∧ og.isMass = true)
    ∧ (g.perUnit = 1000 * k.perUnit ∧ k.perUnit = 1000 * t.perUnit ∧ og.perUnit = g.perUnit
        ∧ t.perUnit ≠ 0)
    ∧ (s = 60 * mi ∧ mi = 60 * h ∧ h = 24 * d ∧ d ≠ 0)
    ∧ T.defaults.gwp ≠ 0
    ∧ (T.defaults.inSubstance = "methane" ∧ T.defaults.outSubstance = "methane"
        ∧ T.defaults.outMetric = "gram" ∧ T.defaults.outIncrement = "second")
    ∧ (T.gramName = "gram" ∧ T.secondName = "second")
  | _, _, _, _, _, _, _, _ => False

instance (T : Table) : Decidable (Consistent T) := by
  unfold Consistent
  split <;> infer_instance

/-- the same table with another seconds-per-year entry (what a repair of the constant would give) -/
def withSecond (T : Table) (s : Rat) : Table :=
  { T with increments := T.increments.map (fun e => if e.1 == "second" then (e.1, s) else e) }

end LdarModel.Units
