import LdarModel.Model.Emission
/-
Model of what a threshold-type ("default") sensor of LDAR-Sim sees and reports in one completed
site survey (core Lean only, executable).

Source modelled
  virtual_world/emission_types/emission.py   Emission.check_spatial_cov (roll once, then sticky),
                                             check_temporal_cov (fresh roll on every call)
  virtual_world/component.py                 Component.get_detectable_emissions (only the component's
                                             *active* list; spatial check first, then is_emitting(),
                                             then the temporal roll), Component.tag_emissions
  virtual_world/equipment_groups.py, sites.py  get_detectable_emissions (dict per group / component)
  sensors/default_sensor.py                  _rate_detected (rate >= MDL), _measure_rate
  sensors/quantification/*.py                predict: max(true * (1 + shift/100), 0) (three predictors;
                                             the drawn shift is an input of the model)
  sensors/default_component_level_sensor.py  detect_emissions, per component
  sensors/default_equipment_group_level_sensor.py  detect_emissions, per equipment group
  sensors/default_site_level_sensor.py       detect_emissions, whole site (+ detection records)
  programs/component_level_method.py         survey_site: tag every component whose report has
                                             measured_rate > 0
  programs/site_level_method.py              update_mobile, fresh site: follow-up candidate iff
                                             rate >= instant threshold, or rate != 0 and >= threshold

Numbers.  Rates and detection limits are exact integers in a common unit (the harness uses a dyadic
unit so that the implementation's doubles are exact); a quantification shift is an integer number
of percent; *measured* rates are kept in hundredths of that unit (true * (100 + shift)), so no
division occurs.  All random outcomes (coverage rolls, shifts) are inputs.
-/
namespace LdarModel.Sensor

/-- one emission of the virtual world as a survey sees it -/
structure Emis where
  id : Nat
  site : Nat
  eqg : Nat
  comp : Nat
  rate : Int
  active : Bool                 -- member of its component's `_active_emissions`
  emitting : Bool               -- `is_emitting()`
  cov : List (Nat × Bool)       -- `_tech_spat_covs`: stored spatial-coverage outcome per method
  deriving DecidableEq, Repr, Inhabited

/-- the two Bernoulli outcomes a survey may draw for one emission -/
structure Rolls where
  spatial : Bool
  temporal : Bool
  deriving DecidableEq, Repr, Inhabited

def lookup (m : Nat) : List (Nat × Bool) → Option Bool
  | [] => none
  | kb :: l => if kb.1 = m then some kb.2 else lookup m l

/-- the stored outcome of method `m`, if it was ever rolled -/
def covOf (m : Nat) (e : Emis) : Option Bool := lookup m e.cov

structure CovOut where
  e : Emis
  outcome : Bool
  consumed : Bool               -- a roll was drawn
  deriving DecidableEq, Repr, Inhabited

/-- `Emission.check_spatial_cov` -/
def checkSpatialCov (m : Nat) (roll : Bool) (e : Emis) : CovOut :=
  match covOf m e with
  | some b => { e := e, outcome := b, consumed := false }
  | none => { e := { e with cov := (m, roll) :: e.cov }, outcome := roll, consumed := true }

/-- the spatial outcome a survey by `m` works with: the stored one, else the fresh roll -/
def spatialOutcome (m : Nat) (e : Emis) (r : Rolls) : Bool :=
  match covOf m e with
  | some b => b
  | none => r.spatial

/-- examined by a survey of site `s` at all: in an active list of a component of that site -/
def inScope (s : Nat) (e : Emis) : Bool := e.active && decide (e.site = s)

/-- `visible m e := spatialCov ∧ emitting ∧ temporalRoll` (for emissions the survey examines) -/
def visible (m s : Nat) (x : Emis × Rolls) : Bool :=
  inScope s x.1 && spatialOutcome m x.1 x.2 && x.1.emitting && x.2.temporal

structure Obs where
  e : Emis                      -- the emission after the survey looked at it
  vis : Bool                    -- returned by `get_detectable_emissions`
  sRoll : Bool                  -- a spatial roll was drawn
  tRoll : Bool                  -- a temporal roll was drawn
  deriving DecidableEq, Repr, Inhabited

/-- one iteration of the loop in `Component.get_detectable_emissions` -/
def detectOne (m s : Nat) (x : Emis × Rolls) : Obs :=
  if inScope s x.1 then
    let c := checkSpatialCov m x.2.spatial x.1
    if c.outcome && x.1.emitting then
      { e := c.e, vis := x.2.temporal, sRoll := c.consumed, tRoll := true }
    else { e := c.e, vis := false, sRoll := c.consumed, tRoll := false }
  else { e := x.1, vis := false, sRoll := false, tRoll := false }

/-- `Site.get_detectable_emissions`, emissions listed in the order group → component → active list -/
def detect (m s : Nat) (xs : List (Emis × Rolls)) : List Obs := xs.map (detectOne m s)

def visList (os : List Obs) : List Emis := (os.filter (·.vis)).map (·.e)

/-- the emissions after the survey (only `cov` can have changed) -/
def after (m s : Nat) (xs : List (Emis × Rolls)) : List Emis := (detect m s xs).map (·.e)

def sumRates : List Emis → Int
  | [] => 0
  | e :: l => e.rate + sumRates l

def atComp (s g c : Nat) (e : Emis) : Bool := decide (e.site = s) && decide (e.eqg = g) && decide (e.comp = c)
def atEqg (s g : Nat) (e : Emis) : Bool := decide (e.site = s) && decide (e.eqg = g)
def atSite (s : Nat) (e : Emis) : Bool := decide (e.site = s)

/-- `rateAt scale`: summed true rate of the visible emissions of one component / group / site -/
def rateComp (vis : List Emis) (s g c : Nat) : Int := sumRates (vis.filter (atComp s g c))
def rateEqg (vis : List Emis) (s g : Nat) : Int := sumRates (vis.filter (atEqg s g))
def rateSite (vis : List Emis) (s : Nat) : Int := sumRates (vis.filter (atSite s))

/-- `_rate_detected` + `_measure_rate`: the measured rate in hundredths, `err` percent shift -/
def measure (mdl err r : Int) : Int := if r ≥ mdl then max (r * (100 + err)) 0 else 0

structure CompRep where
  eqg : Nat
  comp : Nat
  trueRate : Int
  measured : Int
  detected : Bool               -- the predictor was called
  deriving DecidableEq, Repr, Inhabited

structure EqgRep where
  eqg : Nat
  trueRate : Int
  measured : Int
  detected : Bool
  comps : List CompRep
  deriving DecidableEq, Repr, Inhabited

structure SiteRep where
  trueRate : Int
  measured : Int
  ret : Bool                    -- return value of `detect_emissions`
  eqgs : List EqgRep
  recorded : List Nat           -- ids whose detection records the *sensor* updates (site scale)
  deriving DecidableEq, Repr, Inhabited

def sumTrueC : List CompRep → Int
  | [] => 0
  | r :: l => r.trueRate + sumTrueC l
def sumMeasC : List CompRep → Int
  | [] => 0
  | r :: l => r.measured + sumMeasC l
def sumTrueE : List EqgRep → Int
  | [] => 0
  | r :: l => r.trueRate + sumTrueE l
def sumMeasE : List EqgRep → Int
  | [] => 0
  | r :: l => r.measured + sumMeasE l

/-- survey configuration = measurement scale + the site's layout + the shifts the predictor would
draw for each unit (used only if the unit is detected) -/
inductive Cfg
  | component (layout : List (Nat × List (Nat × Int)))   -- group, [(component, shift)]
  | eqg (layout : List (Nat × Int))                      -- (group, shift)
  | site (err : Int)
  deriving Repr, Inhabited

def compRep (vis : List Emis) (mdl : Int) (s g : Nat) (ce : Nat × Int) : CompRep :=
  let r := rateComp vis s g ce.1
  { eqg := g, comp := ce.1, trueRate := r, measured := measure mdl ce.2 r, detected := decide (r ≥ mdl) }

def eqgRepC (vis : List Emis) (mdl : Int) (s : Nat) (ge : Nat × List (Nat × Int)) : EqgRep :=
  let crs := ge.2.map (compRep vis mdl s ge.1)
  { eqg := ge.1, trueRate := sumTrueC crs, measured := sumMeasC crs,
    detected := crs.any (·.detected), comps := crs }

def eqgRepG (vis : List Emis) (mdl : Int) (s : Nat) (ge : Nat × Int) : EqgRep :=
  let r := rateEqg vis s ge.1
  { eqg := ge.1, trueRate := r, measured := measure mdl ge.2 r, detected := decide (r ≥ mdl), comps := [] }

/-- the three `detect_emissions`, as functions of the visible list -/
def report (cfg : Cfg) (mdl : Int) (s : Nat) (vis : List Emis) : SiteRep :=
  match cfg with
  | .component layout =>
    let ers := layout.map (eqgRepC vis mdl s)
    { trueRate := sumTrueE ers, measured := sumMeasE ers, ret := decide (sumMeasE ers ≠ 0),
      eqgs := ers, recorded := [] }
  | .eqg layout =>
    let ers := layout.map (eqgRepG vis mdl s)
    { trueRate := sumTrueE ers, measured := sumMeasE ers, ret := decide (sumMeasE ers ≠ 0),
      eqgs := ers, recorded := [] }
  | .site err =>
    let r := rateSite vis s
    { trueRate := r, measured := measure mdl err r, ret := decide (r ≥ mdl), eqgs := [],
      recorded := if r ≥ mdl then (vis.filter (atSite s)).map (·.id) else [] }

/-- one completed survey of site `s` by method `m` -/
def survey (cfg : Cfg) (m : Nat) (mdl : Int) (s : Nat) (xs : List (Emis × Rolls)) : SiteRep :=
  report cfg mdl s (visList (detect m s xs))

/-- `ComponentLevelMethod.survey_site`: components that receive a tag request -/
def tagTargets (rep : SiteRep) : List (Nat × Nat) :=
  rep.eqgs.flatMap (fun er => (er.comps.filter (fun c => decide (c.measured > 0))).map (fun c => (er.eqg, c.comp)))

/-- `Component.tag_emissions`: every *active* emission of a tagged component is tagged -/
def taggedIds (s : Nat) (targets : List (Nat × Nat)) (es : List Emis) : List Nat :=
  (es.filter (fun e => inScope s e && targets.contains (e.eqg, e.comp))).map (·.id)

/-- `SiteLevelMethod.update_mobile`, site not yet in processing: does the detection record enter the
follow-up machinery (`inst = none`: no instant threshold; thresholds in hundredths) -/
def flagCandidate (inst : Option Int) (thr m : Int) : Bool :=
  (match inst with
   | some i => decide (m ≥ i)
   | none => false) || (decide (m ≠ 0) && decide (m ≥ thr))

/-- `SiteLevelMethod.update_stationary` for a site not yet in processing, followed by
`update_candidates_for_flags` of the same `update` call (delay 0, the site survives the proportion
filter): the site always becomes a candidate with a *fresh* `StationaryFollowUpSurveyPlanner`, whose
`rate_at_site` is 0 whatever was measured (the rolling means are only computed from the second record
on); it is queued for follow-up iff `should_follow_up(small_window_threshold)`, i.e. `0 >= threshold`
(`should_follow_up_long` is false for a long-window rate of 0).  The measured rate `m` is not consulted. -/
def flagStationaryFresh (smallThr : Int) (_m : Int) : Bool := decide ((0 : Int) ≥ smallThr)

/-- a survey as the day loop of a program performs it -/
structure SurveyIn where
  cfg : Cfg
  m : Nat                       -- method = company id
  trd : Int                     -- reporting delay handed to the tag
  mdl : Int
  site : Nat
  xs : List (Emis × Rolls)      -- the site's emissions at survey time, with the rolls
  deriving Repr, Inhabited

def surveyOf (sv : SurveyIn) : SiteRep := survey sv.cfg sv.m sv.mdl sv.site sv.xs

/-- tag events that survey `sv` sends to the emissions of component `(s, g, c)` -/
def tagEvents (sv : SurveyIn) (s g c : Nat) : List Emission.TagEv :=
  if sv.site = s ∧ (tagTargets (surveyOf sv)).contains (g, c) then [{ company := sv.m, trd := sv.trd }] else []

/-- all tag events of one day for the emissions of component `(s, g, c)` -/
def dayEvents (svs : List SurveyIn) (s g c : Nat) : List Emission.TagEv :=
  svs.flatMap (fun sv => tagEvents sv s g c)

/-- all events of one day reaching emission `id` of component `(s, g, c)`: the tag requests of the
component-scale surveys and the detection-only records a site-scale sensor writes on the emissions it
sees (`DefaultSiteLevelSensor.detect_emissions` → `update_detection_records`) -/
def surveyEventsE (sv : SurveyIn) (s g c id : Nat) : List Emission.Ev :=
  (tagEvents sv s g c).map Emission.Ev.tag ++
  (if sv.site = s ∧ (surveyOf sv).recorded.contains id then [Emission.Ev.detect sv.m] else [])

def dayEventsE (svs : List SurveyIn) (s g c id : Nat) : List Emission.Ev :=
  svs.flatMap (fun sv => surveyEventsE sv s g c id)

/-! ### the coverage store over the whole life of an emission

Between surveys the life cycle (`activate`, `tag_leak` / `record_emission`, `update`, the intermittency
toggle, repair / expiry) changes whether the emission is in an active list and whether it emits; the
only writer of `_tech_spat_covs` in the code base is `check_spatial_cov` (checked on every run by an
AST scan of /repo, see harness/props/c05.py `coverage_writers_table`). -/
inductive LifeStep
  | survey (m s : Nat) (r : Rolls)            -- a survey of site `s` by method `m` looks at the emission
  | world (active emitting : Bool)            -- any life-cycle change between surveys
  deriving DecidableEq, Repr, Inhabited

def lifeStep (e : Emis) : LifeStep → Emis
  | .survey m s r => (detectOne m s (e, r)).e
  | .world a em => { e with active := a, emitting := em }

def life (e : Emis) (steps : List LifeStep) : Emis := steps.foldl lifeStep e

end LdarModel.Sensor
