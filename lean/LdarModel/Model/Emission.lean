/-
Model of the per-emission state machine of LDAR-Sim (core Lean only, executable).

Source modelled (one Lean function per Python method):
  virtual_world/emission_types/emission.py              Emission.update / activate
  virtual_world/emission_types/repairable_emission.py   tag_leak, check_if_repaired, natural_repair,
                                                        update, calc_mitigated
  virtual_world/emission_types/non_repairable_emissions.py  record_emission, expire, update
  virtual_world/emission_types/intermittency_mixin.py   update (toggle), activate
  virtual_world/component.py                            tag_emissions (only *active* emissions are
                                                        tagged / recorded), update order of a day
  ldar_sim.py                                           day loop: activate -> deploy(tags) -> update

Dates are `Int` day indices, day 0 = first simulated day; `N` simulated days are `0 .. N-1`.
Static parameters are kept outside the state record.
-/
namespace LdarModel.Emission

inductive Status | inactive | active | repaired | expired
  deriving DecidableEq, Repr, Inhabited

/-- who ended / tagged / recorded the emission (`_tagged_by_company`, `_recorded_by_company`) -/
inductive By | none | natural | expire | company (c : Nat)
  deriving DecidableEq, Repr, Inhabited

structure Params where
  start : Int              -- start date as day index (negative: before the period)
  nrd : Int                -- natural repair delay (repairable) / duration (non-repairable)
  repairDelay : Int
  repairable : Bool
  intermittent : Bool
  activeDur : Int
  inactiveDur : Int
  deriving DecidableEq, Repr, Inhabited

structure State where
  status : Status := .inactive
  activeDays : Int := 0
  tagged : Bool := false         -- `_tagged` (repairable) / `_record` (non-repairable)
  dst : Int := 0                 -- `_days_since_tagged`
  trd : Int := 0                 -- `_tagging_rep_delay`
  by_ : By := .none
  endDate : Option Int := none   -- `_repair_date` / `_expiry_date`
  initDetect : Option Int := none
  initDetectBy : Option Nat := none
  emitting : Bool := false
  daysEmitting : Int := 0
  onCount : Int := 0
  offCount : Int := 0
  deriving DecidableEq, Repr, Inhabited

/-- a tag/record request reaching the emission's component: company (method) id, reporting delay -/
structure TagEv where
  company : Nat
  trd : Int
  deriving DecidableEq, Repr, Inhabited

def init : State := {}

/-- `_days_active_b4_sim` -/
def b4 (p : Params) : Int := if -p.start > 0 then -p.start else 0

/-- `activate(date)` as reached through the source cursor: only pending (inactive) emissions -/
def activate (p : Params) (d : Int) (s : State) : State :=
  if s.status = .inactive ∧ p.start ≤ d then
    { s with status := .active, emitting := if p.intermittent then true else s.emitting }
  else s

/-- `update_detection_records` -/
def detectRec (d : Int) (c : Nat) (s : State) : State :=
  if s.initDetectBy = none then { s with initDetectBy := some c, initDetect := some d } else s

/-- `Component.tag_emissions` restricted to one emission: `tag_leak` / `record_emission` followed by
`update_detection_records`; emissions that are not in the component's active list are not touched -/
def tag (_p : Params) (d : Int) (e : TagEv) (s : State) : State :=
  if s.status ≠ .active then s
  else
    let s1 := if s.tagged then s
              else { s with tagged := true, by_ := .company e.company,
                            trd := if _p.repairable then e.trd else s.trd }
    detectRec d e.company s1

/-- `IntermittencyMixin.update` after the base update left the emission active -/
def toggle (p : Params) (s : State) : State :=
  if ¬ p.intermittent then s
  else if s.emitting then
    let on := s.onCount + 1
    if on ≥ p.activeDur then
      { s with daysEmitting := s.daysEmitting + 1, onCount := 0, emitting := false }
    else { s with daysEmitting := s.daysEmitting + 1, onCount := on }
  else
    let off := s.offCount + 1
    if off ≥ p.inactiveDur then { s with offCount := 0, emitting := true }
    else { s with offCount := off }

def endedAt (p : Params) (s : State) : Int := p.start + (s.activeDays + b4 p)

/-- daily `update` of the four emission classes (MRO order: count -> repair / natural / expiry ->
intermittency toggle if still active) -/
def update (p : Params) (s : State) : State :=
  if s.status ≠ .active then s
  else
    let s1 := { s with activeDays := s.activeDays + 1 }
    if p.repairable then
      let s2 := if s1.tagged then { s1 with dst := s1.dst + 1 } else s1
      if s2.tagged ∧ s2.dst ≥ p.repairDelay + s2.trd then
        { s2 with status := .repaired, endDate := some (endedAt p s2) }
      else if s2.activeDays + b4 p ≥ p.nrd then
        { s2 with tagged := true, by_ := .natural, status := .repaired,
                  endDate := some (endedAt p s2) }
      else toggle p s2
    else
      if s1.activeDays + b4 p ≥ p.nrd then
        { s1 with by_ := .expire, status := .expired, endDate := some (endedAt p s1) }
      else toggle p s1

/-- one simulated day of `LdarSim.run_simulation` seen from one emission -/
def day (p : Params) (d : Int) (evs : List TagEv) (s : State) : State :=
  update p (evs.foldl (fun s e => tag p d e s) (activate p d s))

/-- the first `n` simulated days (days `0 .. n-1`) with tag events `ev d` on day `d` -/
def run (p : Params) (ev : Nat → List TagEv) : Nat → State
  | 0 => init
  | n + 1 => day p n (ev n) (run p ev n)

def noEvents : Nat → List TagEv := fun _ => []

/-- the no-LDAR run of the same emission -/
def baseline (p : Params) (n : Nat) : State := run p noEvents n

/-- days that count for the emitted volume (`calc_true_emis_vol`) -/
def emitDays (p : Params) (s : State) : Int := if p.intermittent then s.daysEmitting else s.activeDays

/-- `calc_mitigated(end_date)` in days; `endExcl` is the date handed in by the caller -/
def mitDays (p : Params) (s : State) (endArg : Int) : Int :=
  if ¬ p.repairable then 0
  else
    let after := if p.start + p.nrd - endArg > 0 then p.start + p.nrd - endArg else 0
    if s.by_ ≠ .natural ∧ s.status = .repaired then
      let m := p.nrd - s.activeDays - b4 p - after
      if m > 0 then m else 0
    else 0

/-- the date `LdarSim.run_simulation` hands to `gen_summary_emis_data` for a run of `N` days:
the time counter after the loop, i.e. the first day *after* the period -/
def summaryEndArg (N : Nat) : Int := N

def isEmitting (p : Params) (s : State) : Bool := if p.intermittent then s.emitting else true

/-! ### detection-only events

Site-level sensors (`DefaultSiteLevelSensor.detect_emissions`) call `update_detection_records` on the
emissions they detect without tagging them.  `Ev` adds that event kind; `runE` is the day loop over
mixed events.  `Lemmas/EmissionE.lean` shows that detection-only events never influence anything but
the two "initially detected" fields, so every theorem about `run` transfers to `runE`. -/

inductive Ev
  | tag (e : TagEv)
  | detect (c : Nat)
  deriving DecidableEq, Repr, Inhabited

def applyEv (p : Params) (d : Int) : Ev → State → State
  | .tag e, s => tag p d e s
  | .detect c, s => if s.status = .active then detectRec d c s else s

def dayE (p : Params) (d : Int) (evs : List Ev) (s : State) : State :=
  update p (evs.foldl (fun s e => applyEv p d e s) (activate p d s))

def runE (p : Params) (ev : Nat → List Ev) : Nat → State
  | 0 => init
  | n + 1 => dayE p n (ev n) (runE p ev n)

/-- the tag requests among mixed events -/
def tagsOf : List Ev → List TagEv
  | [] => []
  | .tag e :: r => e :: tagsOf r
  | .detect _ :: r => tagsOf r

/-- `ComponentLevelMethod.survey_site` (component_level_method.py:72-93): the components that receive
a tagging call after a survey step — only when the survey completed, and only components whose
detection report carries a measured rate > 0 (rates as scaled integers) -/
def tagCalls (complete : Bool) (detections : List (Nat × Int)) : List Nat :=
  if complete then (detections.filter (fun d => d.2 > 0)).map (·.1) else []

/-- `Source._get_rep_delay` for a list of delays: `np.random.choice` picks one element; the drawn
index is an input of the model -/
def sampleDelay (l : List Int) (i : Nat) : Option Int := l[i % l.length]?

/-- the tag requests (`TaggingInfo` handed to `Site.tag_emissions_at_component`) a survey step of the
component-level method `company` with reporting delay `trd` issues: one per tagging call of
`tagCalls`, each carrying the method's own name and reporting delay -/
def tagEvs (company : Nat) (trd : Int) (complete : Bool) (detections : List (Nat × Int)) :
    List (Nat × TagEv) :=
  (tagCalls complete detections).map (fun c => (c, { company := company, trd := trd }))

/-- `ComponentLevelMethod.survey_site`: the site's "latest tagging survey date" after the step —
moved to the current day exactly when the survey completed -/
def latestTaggingSurvey (complete : Bool) (prev cur : Int) : Int := if complete then cur else prev

end LdarModel.Emission
