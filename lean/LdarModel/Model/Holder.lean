import LdarModel.Model.Tree
/-
Parameter holders and the sensitivity variator of LDAR-Sim (core Lean only, executable).

Source modelled:
  parameters/genric_parameters.py       GenericParameters.alter_parameter(s), update_nested_dictionary
  parameters/high_level_parameters.py   HighLevelParameters.__init__ / alter_parameter(s)
  parameters/parameters_holder.py       ParametersHolder (+ alter_parameter, add/remove_program,
                                        alter_simulation_info)
  sensitivity_analysis/sensitivity_processing.py   process_parameter_variations,
                                        unpack_parameter_variations, unpack_nested_parameter_variations
  sensitivity_analysis/parameter_variator.py       vary_parameter_values, _merge_variation

A holder is an attribute tree mirroring a parameter dictionary.  It is represented here as the
dictionary itself (`KV`) together with the sub-parameter mapping `SM` that says which entries are
nested holders: `gen` = GenericParameters (its entries are plain values), `high m` =
HighLevelParameters whose entries listed in `m` are holders again; every other entry is a plain
value.  `to_dict ∘ constructor` is therefore the identity by construction — that the real classes
satisfy this is part of the correspondence, not of the model.
`copy.deepcopy` is the identity on values; aliasing is outside this model (DESIGN 5.19: discharged
by the deep-equality oracle on the real objects).
-/
namespace LdarModel.Holder
open LdarModel.Tree

mutual
/-- sub-parameter mapping (`None` ↦ `gen`, a dictionary ↦ `high`) -/
inductive SM where
  | gen : SM
  | high (m : SML) : SM
inductive SML where
  | nil : SML
  | cons (k : String) (m : SM) (t : SML) : SML
end

instance : Inhabited SM := ⟨.gen⟩
instance : Inhabited SML := ⟨.nil⟩

def SML.lookup (k : String) : SML → Option SM
  | .nil => none
  | .cons k' m t => if k' = k then some m else t.lookup k

def SML.setKey (k : String) (m : SM) : SML → SML
  | .nil => .cons k m .nil
  | .cons k' m' t => if k' = k then .cons k' m t else .cons k' m' (t.setKey k m)

def SML.erase (k : String) : SML → SML
  | .nil => .nil
  | .cons k' m t => if k' = k then t else .cons k' m (t.erase k)

/-- `update_nested_dictionary(current, new_values)` / `_merge_variation(target, variation)` -/
def updNested (cur : KV) : KV → KV
  | .nil => cur
  | .cons k v rest =>
    match v with
    | .obj vk =>
      match cur.lookup k with
      | some (.obj ck) => updNested (cur.setKey k (.obj (updNested ck vk))) rest
      | _ => updNested (cur.setKey k (.obj vk)) rest
    | leaf => updNested (cur.setKey k leaf) rest

/-- `dict.update(other)` (one level) -/
def updShallow (cur : KV) : KV → KV
  | .nil => cur
  | .cons k v rest => updShallow (cur.setKey k v) rest

mutual
/-- `holder.alter_parameter(key, value)`; the holder is (`sm`, `d`) -/
def alterD (sm : SM) (d : KV) (k : String) : J → Except Rej KV
  | .obj vk =>
    match d.lookup k with
    | none => .error .attr_error
    | some cur =>
      match sm with
      | .gen =>
        match cur with
        | .obj ck => .ok (d.setKey k (.obj (updNested ck vk)))
        | _ => .ok (d.setKey k (.obj vk))
      | .high m =>
        match m.lookup k, cur with
        | some sub, .obj ck =>
          match alterAllD sub ck vk with
          | .ok r => .ok (d.setKey k (.obj r))
          | .error e => .error e
        | some _, _ => .error .attr_error          -- cannot happen: a mapped entry is a dictionary
        | none, .obj ck => .ok (d.setKey k (.obj (updShallow ck vk)))
        | none, _ => .ok (d.setKey k (.obj vk))
  | v =>
    match d.lookup k with
    | none => .error .attr_error
    | some cur =>
      match sm with
      | .gen => .ok (d.setKey k v)
      | .high m =>
        match m.lookup k, cur with
        | some _, _ => .error .attr_error          -- `alter_parameters(non-dict)`: no `.items()`
        | none, .obj _ =>                          -- `dict.update(non-dict)`
          match v with
          | .str s => if s.isEmpty then .ok d else .error .value_error
          | .list .nil => .ok d
          | .list _ => .error .value_error       -- (pairs in a list are outside the model's domain)
          | _ => .error .type_error
        | none, _ => .ok (d.setKey k v)
/-- `holder.alter_parameters(dict)` -/
def alterAllD (sm : SM) (d : KV) : KV → Except Rej KV
  | .nil => .ok d
  | .cons k v rest =>
    match alterD sm d k v with
    | .ok d' => alterAllD sm d' rest
    | .error e => .error e
end

/-! ### unpacking the sensitivity description -/

def JL.concat (a b : JL) : JL := a.append b

/-- `unpack_nested_parameter_variations(parameter_variations, variation_index)` -/
def unpackNested (idx : Nat) : KV → Except Rej (List J)
  | .nil => .ok []
  | .cons k (.obj vk) rest =>
    match unpackNested idx vk with
    | .error e => .error e
    | .ok subs =>
      match unpackNested idx rest with
      | .ok ts => .ok (subs.map (fun s => J.obj (.cons k s .nil)) ++ ts)
      | .error e => .error e
  | .cons k (.list l) rest =>
    match l.get? idx with
    | none => .error .index_error
    | some x =>
      match unpackNested idx rest with
      | .ok ts => .ok (J.obj (.cons k x .nil) :: ts)
      | .error e => .error e
  | .cons _ _ rest => unpackNested idx rest

def unpackRange (vk : KV) : Nat → Nat → Except Rej (List J)
  | 0, _ => .ok []
  | cnt + 1, i =>
    match unpackNested i vk with
    | .error e => .error e
    | .ok a =>
      match unpackRange vk cnt (i + 1) with
      | .ok b => .ok (a ++ b)
      | .error e => .error e

/-- `unpack_parameter_variations(parameter_variations, num_variations)` -/
def unpack (n : Nat) : KV → Except Rej KV
  | .nil => .ok .nil
  | .cons k (.obj vk) rest =>
    match unpackRange vk n 0 with
    | .error e => .error e
    | .ok l =>
      match unpack n rest with
      | .ok t => .ok (.cons k (.list (JL.ofList l)) t)
      | .error e => .error e
  | .cons k (.list l) rest =>
    match unpack n rest with
    | .ok t => .ok (.cons k (.list l) t)
    | .error e => .error e
  | .cons k _ rest =>
    match unpack n rest with
    | .ok t => .ok (.cons k (.list .nil) t)
    | .error e => .error e

/-- the `{name: unpack(params)}` comprehension of the programs / methods levels -/
def unpackNamed (nameKey paramsKey : String) (n : Nat) : JL → Except Rej KV
  | .nil => .ok .nil
  | .cons item rest =>
    match item with
    | .obj ik =>
      match ik.lookup nameKey, ik.lookup paramsKey with
      | some nm, some (.obj pk) =>
        match keyOf nm with
        | none => .error .type_error
        | some key =>
          match unpack n pk with
          | .error e => .error e
          | .ok u =>
            match unpackNamed nameKey paramsKey n rest with
            | .ok t => .ok (if t.has key then .cons key (match t.lookup key with | some x => x | none => .obj u) (t.erase key)
                            else .cons key (.obj u) t)
            | .error e => .error e
      | some _, some _ => .error .attr_error
      | _, _ => .error .key_error
    | _ => .error .type_error

/-- `process_parameter_variations(parameter_variations, parameter_level, num_variations)` -/
def processVariations (level : String) (n : Nat) (pv : J) : Except Rej KV :=
  if level = "methods" then
    match pv with
    | .list l => unpackNamed "Method Name" "Method Sensitivity Parameters" n l
    | _ => .error .exit
  else if level = "programs" then
    match pv with
    | .list l => unpackNamed "Program Name" "Program Sensitivity Parameters" n l
    | _ => .error .exit
  else if level = "virtual_world" then
    match pv with
    | .obj k => unpack n k
    | _ => .error .attr_error
  else .error .exit

/-! ### the parameters holder -/

structure PH where
  sim : KV            -- GenericParameters
  vw : KV             -- HighLevelParameters with `vwMap`
  out : KV
  programs : KV       -- name ↦ program dictionary, insertion order
  progMaps : SML      -- name ↦ mapping of that program holder
  baseline : String
  deriving Inhabited

/-- the static sub-parameter mappings of `ParametersHolder` (class attributes) -/
structure Maps where
  vw : SML
  out : SML
  method : SML
  prog : SML          -- `PROGRAM_SUB_PARAMETER_MAPPING` (its `methods` entry is filled per program)
  deriving Inhabited

def methodMapOf (mm : SML) : List J → SML
  | [] => .nil
  | l :: ls =>
    match keyOf l with
    | some key => (methodMapOf mm ls).setKey key (.high mm)
    | none => methodMapOf mm ls

/-- the mapping built in `ParametersHolder.__init__` for one program -/
def progMapOf (maps : Maps) (prog : KV) : SML :=
  let labels : List J := match prog.lookup "method_labels" with
    | some (.list l) => l.toList
    | _ => []
  maps.prog.setKey "methods" (.high (methodMapOf maps.method labels))

def progMapsOf (maps : Maps) : KV → SML
  | .nil => .nil
  | .cons name p t =>
    .cons name (match p with
      | .obj pk => .high (progMapOf maps pk)
      | _ => .gen) (progMapsOf maps t)

def mkPH (maps : Maps) (sim programs vw out : KV) (baseline : String) : PH :=
  { sim := sim, vw := vw, out := out, programs := programs,
    progMaps := progMapsOf maps programs, baseline := baseline }

/-- slice `value[i*u : i*u+u]`, `u = int(len(value) / n)` -/
def sliceFor (n i : Nat) (l : JL) : List J :=
  let u := l.length / n
  (l.toList.drop (i * u)).take u

/-- apply `holder.alter_parameter(key, x)` for every `x` of the slice -/
def alterSeq (sm : SM) (d : KV) (k : String) : List J → Except Rej KV
  | [] => .ok d
  | x :: xs =>
    match alterD sm d k x with
    | .ok d' => alterSeq sm d' k xs
    | .error e => .error e

/-- `for key, value in variations.items(): for index in slice: holder.alter_parameter(key, value[index])` -/
def alterVariations (sm : SM) (n i : Nat) (d : KV) : KV → Except Rej KV
  | .nil => .ok d
  | .cons k v rest =>
    match v with
    | .list l =>
      match alterSeq sm d k (sliceFor n i l) with
      | .ok d' => alterVariations sm n i d' rest
      | .error e => .error e
    | _ => .error .type_error                      -- `len(value)` / indexing of a non-list

/-- `alter_simulation_info(variation_number)` -/
def alterSimInfo (sim : KV) (i : Nat) : Except Rej KV :=
  match sim.lookup "output_directory" with
  | some v => .ok (sim.setKey "output_directory" (.str (pyStr v ++ "/" ++ toString i)))
  | none => .error .attr_error

def rename (name : String) (i : Nat) : String := name ++ "_" ++ toString i

/-- `key_vals` of the methods level: `_merge_variation` over the slice; a non-dictionary element
replaces what was collected so far -/
def keyVals : J → List J → Except Rej J
  | acc, [] => .ok acc
  | acc, x :: xs =>
    match x with
    | .obj xk =>
      match acc with
      | .obj ak => keyVals (.obj (updNested ak xk)) xs
      | _ =>
        match xk with
        | .nil => keyVals acc xs
        | _ => .error .attr_error            -- `target.get` on a non-dictionary
    | leaf => keyVals leaf xs

/-- `alter_dict[methods][new]`: one entry per varied key -/
def buildAlter (n i : Nat) (acc : KV) : KV → Except Rej KV
  | .nil => .ok acc
  | .cons k v rest =>
    match v with
    | .list l =>
      match keyVals (.obj .nil) (sliceFor n i l) with
      | .ok kv => buildAlter n i (acc.setKey k kv) rest
      | .error e => .error e
    | _ => .error .type_error

/-- virtual-world level: one deep copy per set, the listed keys altered, output folder `out/i` -/
def varyVW (maps : Maps) (base : PH) (n : Nat) (vars : KV) : Nat → Nat → Except Rej (List PH)
  | 0, _ => .ok []
  | cnt + 1, i =>
    match alterVariations (.high maps.vw) n i base.vw vars with
    | .error e => .error e
    | .ok vw' =>
      match varyVW maps base n vars cnt (i + 1) with
      | .error e => .error e
      | .ok rest => .ok ({ base with vw := vw' } :: rest)

/-- one varied copy of a program at the programs level -/
def varyProgram (base : PH) (n i : Nat) (pname : String) (pvars : J) : Except Rej (String × J × SM) :=
  match base.programs.lookup pname, base.progMaps.lookup pname with
  | some (.obj pk), some sm =>
    match alterD sm pk "program_name" (.str (rename pname i)) with
    | .error e => .error e
    | .ok pk1 =>
      match pvars with
      | .obj vk =>
        match alterVariations sm n i pk1 vk with
        | .ok pk2 => .ok (rename pname i, .obj pk2, sm)
        | .error e => .error e
      | _ => .error .attr_error
  | _, _ => .error .key_error

def varyProgramsInner (base : PH) (n i : Nat) (acc : KV × SML) : KV → Except Rej (KV × SML)
  | .nil => .ok acc
  | .cons pname pvars rest =>
    match varyProgram base n i pname pvars with
    | .error e => .error e
    | .ok (nm, p, sm) => varyProgramsInner base n i (acc.1.setKey nm p, acc.2.setKey nm sm) rest

def varyProgramsOuter (base : PH) (n : Nat) (vars : KV) : Nat → Nat → KV × SML → Except Rej (KV × SML)
  | 0, _, acc => .ok acc
  | cnt + 1, i, acc =>
    match varyProgramsInner base n i acc vars with
    | .error e => .error e
    | .ok acc' => varyProgramsOuter base n vars cnt (i + 1) acc'

/-- Python `list.remove(x)` (first occurrence) -/
def removeFirst (x : J) : List J → Option (List J)
  | [] => none
  | y :: ys => if J.beq x y then some ys else (removeFirst x ys).map (y :: ·)

/-- one varied method inside the program copy (`methods` holder `ms` with mapping `mm`, label list) -/
def varyMethod (n i : Nat) (ms : KV) (mm : SML) (labels : List J) (mname : String) (mvars : J) :
    Except Rej (KV × SML × List J) :=
  match ms.lookup mname with
  | none => .error .attr_error
  | some target =>
    let new := rename mname i
    let sub := mm.lookup mname
    let ms1 := (ms.erase mname).setKey new target
    let mm1 := match sub with
      | some s => (mm.erase mname).setKey new s
      | none => (mm.erase mname).erase new
    match removeFirst (.str mname) labels with
    | none => .error .value_error
    | some ls =>
      let labels1 := ls ++ [J.str new]
      match mvars with
      | .obj vk =>
        match buildAlter n i .nil vk with
        | .error e => .error e
        | .ok ad =>
          let ad1 := ad.setKey "method_name" (.str new)
          match alterD (.high mm1) ms1 new (.obj ad1) with
          | .ok ms2 => .ok (ms2, mm1, labels1)
          | .error e => .error e
      | _ => .error .attr_error

def varyMethodsInner (n i : Nat) : KV × SML × List J → KV → Except Rej (KV × SML × List J)
  | acc, .nil => .ok acc
  | (ms, mm, labels), .cons mname mvars rest =>
    match varyMethod n i ms mm labels mname mvars with
    | .error e => .error e
    | .ok acc' => varyMethodsInner n i acc' rest

/-- the program copy of set `i` at the methods level -/
def varyMethodsProgram (base : PH) (sens : String) (n i : Nat) (vars : KV) :
    Except Rej (Option (String × J × SM)) :=
  match base.programs.lookup sens, base.progMaps.lookup sens with
  | some (.obj pk), some (.high pm) =>
    match alterD (.high pm) pk "program_name" (.str (rename sens i)) with
    | .error e => .error e
    | .ok pk1 =>
      match pk1.lookup "method_labels" with
      | none => .error .attr_error
      | some lv =>
        match vars with
        | .nil => .ok none        -- nothing varied: the copy is never added to the holder
        | _ =>
          match lv, pk1.lookup "methods", pm.lookup "methods" with
          | .list ll, some (.obj ms), some (.high mm) =>
            match varyMethodsInner n i (ms, mm, ll.toList) vars with
            | .error e => .error e
            | .ok (ms', mm', labels') =>
              let pm' := pm.setKey "methods" (.high mm')
              let pk2 := (pk1.setKey "methods" (.obj ms')).setKey "method_labels" (.list (JL.ofList labels'))
              .ok (some (rename sens i, .obj pk2, .high pm'))
          | _, _, _ => .error .attr_error
  | _, _ => .error .key_error

def varyMethodsOuter (base : PH) (sens : String) (n : Nat) (vars : KV) :
    Nat → Nat → KV × SML → Except Rej (KV × SML)
  | 0, _, acc => .ok acc
  | cnt + 1, i, acc =>
    match varyMethodsProgram base sens n i vars with
    | .error e => .error e
    | .ok none => varyMethodsOuter base sens n vars cnt (i + 1) acc
    | .ok (some (nm, p, sm)) =>
      varyMethodsOuter base sens n vars cnt (i + 1) (acc.1.setKey nm p, acc.2.setKey nm sm)

/-- remove every program name of `names` (`remove_program`; a missing name is a KeyError) -/
def removeAll : List String → KV × SML → Except Rej (KV × SML)
  | [], acc => .ok acc
  | nm :: rest, acc =>
    if acc.1.has nm then removeAll rest (acc.1.erase nm, acc.2.erase nm) else .error .key_error

def finishSets : List PH → Nat → Except Rej (List PH)
  | [], _ => .ok []
  | p :: ps, i =>
    match alterSimInfo p.sim i with
    | .error e => .error e
    | .ok s =>
      match finishSets ps (i + 1) with
      | .ok r => .ok ({ p with sim := s } :: r)
      | .error e => .error e

/-- programs level: baseline first, then one renamed and altered copy per set and varied program -/
def varyProgramsSet (base : PH) (n : Nat) (vars : KV) : Except Rej PH :=
  match base.programs.lookup base.baseline, base.progMaps.lookup base.baseline with
  | some bp, some bm =>
    match varyProgramsOuter base n vars n 0
        (KV.cons base.baseline bp .nil, SML.cons base.baseline bm .nil) with
    | .error e => .error e
    | .ok acc => .ok { base with programs := acc.1, progMaps := acc.2 }
  | _, _ => .error .key_error

/-- end of the methods level: "remove the original programs", then add the baseline program -/
def finishMethods (base : PH) (acc : KV × SML) : Except Rej PH :=
  match removeAll base.programs.keys acc with
  | .error e => .error e
  | .ok acc' =>
    match base.programs.lookup base.baseline, base.progMaps.lookup base.baseline with
    | some bp, some bm =>
      .ok { base with programs := acc'.1.setKey base.baseline bp,
                      progMaps := acc'.2.setKey base.baseline bm }
    | _, _ => .error .key_error

def varyMethodsSet (base : PH) (sens : Option String) (n : Nat) (vars : KV) : Except Rej PH :=
  match sens with
  | none =>
    if n = 0 then finishMethods base (base.programs, base.progMaps)
    else .error .key_error                          -- `get_program(None)`
  | some sp =>
    match varyMethodsOuter base sp n vars n 0 (base.programs, base.progMaps) with
    | .error e => .error e
    | .ok acc => finishMethods base acc

/-- the parameter sets before `alter_simulation_info` -/
def varySets (maps : Maps) (base : PH) (sens : Option String) (level : String) (n : Nat) (vars : KV) :
    Except Rej (List PH) :=
  if level = "virtual_world" then varyVW maps base n vars n 0
  else if level = "programs" then
    match varyProgramsSet base n vars with
    | .ok s => .ok [s]
    | .error e => .error e
  else if level = "methods" then
    match varyMethodsSet base sens n vars with
    | .ok s => .ok [s]
    | .error e => .error e
  else .error .value_error

/-- `vary_parameter_values(simulation_parameters, sensitivity_program, parameter_level,
number_of_sensitivity_sets, parameter_variations)` -/
def vary (maps : Maps) (base : PH) (sens : Option String) (level : String) (n : Nat) (vars : KV) :
    Except Rej (List PH) :=
  match varySets maps base sens level n vars with
  | .error e => .error e
  | .ok l => finishSets l 0

/-! ### decidable well-formedness hypotheses of the C19 theorems (evaluated by the check on every case) -/

/-- a one-level `dict.update` equals the nested update: no dictionary value meets a dictionary -/
def shallowOK (ck : KV) : KV → Bool
  | .nil => true
  | .cons k2 v2 rest =>
    !(v2.isObj && (match ck.lookup k2 with
        | some (.obj _) => true
        | _ => false)) && shallowOK ck rest

mutual
/-- the plain dictionary entries of high-level holders are flat with respect to the alteration
(true of every mapping / default tree shipped with LDAR-Sim at the three sensitivity levels), and a
dictionary entry is only ever altered with a dictionary -/
def flatD (sm : SM) (d : KV) (k : String) : J → Bool
  | .obj vk =>
    match d.lookup k with
    | none => true
    | some cur =>
      match sm with
      | .gen => true
      | .high m =>
        match m.lookup k, cur with
        | some sub, .obj ck => flatAll sub ck vk
        | none, .obj ck => shallowOK ck vk
        | _, _ => true
  | _ =>
    match d.lookup k with
    | none => true
    | some cur =>
      match sm with
      | .gen => true
      | .high m =>
        match m.lookup k, cur with
        | none, .obj _ => false
        | _, _ => true
def flatAll (sm : SM) (d : KV) : KV → Bool
  | .nil => true
  | .cons k v rest => flatD sm d k v && flatAll sm d rest
end

def single (k : String) (x : J) : KV := .cons k x .nil

/-- decidable form of `DictOnDict` -/
def dodB (cur : KV) : KV → Bool
  | .nil => true
  | .cons k (.obj vk) rest =>
    (match cur.lookup k with
      | some (.obj ck) => dodB ck vk
      | _ => false) && dodB cur rest
  | .cons _ _ rest => dodB cur rest

/-- hypotheses of one key's alterations, threaded through the intermediate dictionaries:
well-formed values, flat plain entries, dictionaries only on dictionaries -/
def seqOK (sm : SM) (k : String) : KV → List J → Bool
  | _, [] => true
  | d, x :: xs =>
    x.wf && flatD sm d k x && dodB d (single k x) &&
      (match alterD sm d k x with
        | .ok d' => seqOK sm k d' xs
        | .error _ => true)

/-- hypotheses of a whole set of variations, threaded key after key -/
def varsOK (sm : SM) (n i : Nat) : KV → KV → Bool
  | _, .nil => true
  | d, .cons k (.list l) rest =>
    seqOK sm k d (sliceFor n i l) &&
      (match alterSeq sm d k (sliceFor n i l) with
        | .ok d' => varsOK sm n i d' rest
        | .error _ => true)
  | _, .cons _ _ _ => true

end LdarModel.Holder
