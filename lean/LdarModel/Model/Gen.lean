/-
Model of emission generation (core Lean only, executable).

Source modelled:
  virtual_world/sources.py        Source.generate_emissions (both loops, leak counter,
                                  last-emission-day guard, final reverse)
  initialization/preseed.py       gen_seed_emis (the seed list; draws are inputs)
  initialization/initialize_emissions.py   np.random.seed(emis_preseed_val[i]) before scenario i

Dates are `Int` day offsets from the first simulated day (day 0); the period is `0 .. N-1` with
`N = (end - start).days + 1`.  The Bernoulli outcomes of the two `np.random.binomial(1, p, n)` calls
are inputs: `pre` (one outcome per day `-dur .. -1`, in that order) and `sim` (one per day
`0 .. N-1`).  Rates, repair delays etc. of the created emissions are not part of this model.
-/
namespace LdarModel.Gen

structure Em where
  start : Int          -- start date as day offset
  id : Nat             -- `leak_count` handed to `_create_emission`
  deriving DecidableEq, Repr, Inhabited

/-- `dates[outcomes == 1]` for `dates = off + idx, off + idx + 1, …` -/
def hits : List Bool → Int → List Int
  | [], _ => []
  | b :: bs, d => if b then d :: hits bs (d + 1) else hits bs (d + 1)

/-- first loop (`for day in filtered_emission_dates`): every hit becomes an emission; a
single-emission source stops after the first one (`break`) -/
def preLoop (multi : Bool) : List Int → Nat → List Em
  | [], _ => []
  | d :: ds, leak => ⟨d, leak⟩ :: (if multi then preLoop multi ds (leak + 1) else [])

/-- `last_emis_day` after the first loop -/
def lastAfterPre (dur : Nat) (multi : Bool) (pre : List Em) : Int :=
  if multi then 0 else match pre with
    | [] => 0
    | e :: _ => e.start + dur

/-- second loop (`for day in emission_dates`): skip a day `≤ last_emis_day` when the source holds
one emission at a time; a created emission moves `last_emis_day` to its start + duration -/
def simLoop (dur : Nat) (multi : Bool) : List Int → Int → Nat → List Em
  | [], _, _ => []
  | d :: ds, last, leak =>
    if !multi && decide (d ≤ last) then simLoop dur multi ds last leak
    else ⟨d, leak⟩ :: simLoop dur multi ds (if multi then last else d + dur) (leak + 1)

/-- emissions in creation (append) order -/
def created (pre sim : List Bool) (dur : Nat) (multi preEnabled : Bool) : List Em :=
  let p := if preEnabled then preLoop multi (hits (pre.take dur) (-(dur : Int))) 0 else []
  p ++ simLoop dur multi (hits sim 0) (lastAfterPre dur multi p) p.length

/-- `Source.generate_emissions`: the pending list stored for the simulation (`emissions_fifo`
after `reverse()`; `pop()` takes from the end) -/
def generate (pre sim : List Bool) (dur : Nat) (multi preEnabled : Bool) : List Em :=
  (created pre sim dur multi preEnabled).reverse

/-- the order in which `Source.activate_emissions` receives the emissions (`pop()` from the end) -/
def popOrder (l : List Em) : List Em := l.reverse

/-! ### per-simulation seeds (`gen_seed_emis` / `initialize_emissions`) -/

/-- `gen_seed_emis` with an existing list `old` and the needed `randint` outcomes `draws`:
the first `nSim - old.length` draws are appended when the list is too short -/
def genSeeds (old draws : List Nat) (nSim : Nat) : List Nat :=
  if old.length < nSim then old ++ draws.take (nSim - old.length) else old

/-- the scenario of simulation `i` is a function of the generator state set by
`np.random.seed(seeds[i])`: `stream` maps a seed to the Bernoulli outcomes it produces -/
def scenarios (stream : Nat → List Bool × List Bool) (seeds : List Nat)
    (dur : Nat) (multi preEnabled : Bool) : List (List Em) :=
  seeds.map (fun s => generate (stream s).1 (stream s).2 dur multi preEnabled)

end LdarModel.Gen
