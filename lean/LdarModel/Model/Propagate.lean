/-
Virtual-world parameter propagation (C15): global parameter files → site type → site → equipment
group → component → source.  Core Lean only (the driver `drv_propagate` is compiled from this file).

What is modelled (one Lean function per Python method, same order of effects):
  `Infrastructure.generate_propagating_params`      ↦ `globalPlain`, `globalMeth`
  `Infrastructure.update_propagating_params`        ↦ `siteDicts`
  `Site.__init__` / `_create_equipment_groups`      ↦ `buildSite`, `scalePlain`, `scaleMeth`, `placeholderKind`
  `Equipment_Group._update_prop_params` / `_create_components` / `_clean_…` ↦ `groupDicts`, `cleanedCells`, `compDict`
  `Component.__init__` / `_create_sources`          ↦ `compType`, `componentSources`
  `Source._update_prop_params` / `_set_propagating_source_properties` ↦ `unprefixLoop`, `sourceEff`
  `Site.get_method_survey_time` / `_set_survey_costs` ↦ `siteTime` (Python `round`: half to even), `siteCost`
  `sites_in.sample(n)`                              ↦ the list of picked row indices is an *input*

The propagating-parameter dictionary of the code is a `Dict` (association list, last write first);
the nested `Method_Specific_Params[param][method]` dictionary is a `Dict` keyed by (method, param)
pairs, looked up in a file row under the column name `method ++ param`.  Every key the levels
use comes from a `Tables` record; the instance for the current source tree is regenerated on every
run (`Generated/Levels.lean`).
-/
namespace LdarModel.Propagate

/-! ### values -/

/-- a parameter value on its way through the levels: Python `None`, an opaque value (strings, flags,
lists, durations …: only identity matters, the harness keeps the table id ↦ value) or an exact
rational (quantities the code divides: production rates, survey time, survey cost, counts) -/
inductive PV where
  | nul
  | tok (i : Int)
  | num (q : Rat)
deriving DecidableEq, Inhabited

/-- the opaque id reserved for Python `True` (site deployment defaults to it) -/
def PV.tru : PV := .tok 1

/-- the opaque id reserved for the number `0` (the default of `val.get(path, 0)` for a method parameter
that is missing from the method's parameter file) -/
def PV.zeroTok : PV := .tok 2

/-- `x /= n` as executed by the code (only ever reached for numbers); `n` is the number of equipment
groups, a float when the equipment cell is one -/
def PV.divBy : PV → Rat → PV
  | .num q, n => .num (q / n)
  | v, _ => v

/-- `if x is not None and x > 0: x = x / n` (`Equipment_Group._create_components`) -/
def PV.divPos : PV → Nat → PV
  | .num q, n => if 0 < q then .num (q / (n : Rat)) else .num q
  | v, _ => v

/-- a file row: the cells that are filled in (blank cells are simply absent) -/
abbrev Row := List (String × PV)

/-- `row.get(key, None)` followed by the "is a value given" test -/
def Row.get? (r : Row) (k : String) : Option PV :=
  match r.lookup k with
  | some .nul => none
  | o => o

/-- a propagating-parameter dictionary; `set` puts the new binding in front, `get` finds the first.
Keys are column names for the plain parameters and (method, parameter suffix) pairs for
`Method_Specific_Params[param][method]` -/
abbrev Dict (κ : Type) := List (κ × PV)

/-- key of a method-specific entry: (method, parameter suffix); its column in a file is `method ++ suffix` -/
abbrev MKey := String × String
def MKey.col (k : MKey) : String := k.1 ++ k.2

def Dict.get {κ : Type} [DecidableEq κ] (d : Dict κ) (k : κ) : PV := (d.lookup k).getD .nul
def Dict.set {κ : Type} (d : Dict κ) (k : κ) (v : PV) : Dict κ := (k, v) :: d
def Dict.keys {κ : Type} (d : Dict κ) : List κ := d.map (·.1)

/-- the value in effect after a chain of optional overrides, least granular first -/
def resolve {V : Type} (levels : List (Option V)) (g : V) : V :=
  levels.foldl (fun acc o => o.getD acc) g

/-- one level: for every key of the level's key list, a value given in the row (in the column
`col key`) replaces the inherited one -/
def updFrom {κ : Type} (col : κ → String) (keys : List κ) (row : Row) (d : Dict κ) : Dict κ :=
  keys.foldl (fun d k => match row.get? (col k) with
                          | some v => d.set k v
                          | none => d) d

/-- the (method, parameter) entries of a list of methods and parameter suffixes -/
def methKeys (methods params : List String) : List MKey :=
  methods.flatMap (fun m => params.map (fun p => (m, p)))

/-! ### string helpers (on character lists, so that table obligations reduce by `decide`) -/

def isPrefixL : List Char → List Char → Bool
  | [], _ => true
  | _ :: _, [] => false
  | a :: as, b :: bs => a == b && isPrefixL as bs

/-- Python `pat in s` -/
def hasInfixL (pat : List Char) : List Char → Bool
  | [] => isPrefixL pat []
  | c :: cs => isPrefixL pat (c :: cs) || hasInfixL pat cs

def removeAllGo (pat : List Char) : Nat → List Char → List Char
  | _, [] => []
  | n + 1, _ :: cs => removeAllGo pat n cs
  | 0, c :: cs =>
    if isPrefixL pat (c :: cs) then removeAllGo pat (pat.length - 1) cs
    else c :: removeAllGo pat 0 cs

/-- Python `re.sub(pat, "", s)` for a literal, non-empty pattern: every non-overlapping occurrence,
left to right, is removed -/
def removeAllL (pat s : List Char) : List Char := removeAllGo pat 0 s

def hasInfix (pat s : String) : Bool := hasInfixL pat.toList s.toList
def removeAll (pat s : String) : String := String.ofList (removeAllL pat.toList s.toList)

def lowerL (s : List Char) : List Char := s.map Char.toLower

def removeAllCIGo (pat : List Char) : Nat → List Char → List Char
  | _, [] => []
  | n + 1, _ :: cs => removeAllCIGo pat n cs
  | 0, c :: cs =>
    if isPrefixL pat (lowerL (c :: cs)) then removeAllCIGo pat (pat.length - 1) cs
    else c :: removeAllCIGo pat 0 cs

/-- `re.sub(re.compile(re.escape("_equipment"), re.IGNORECASE), "", equip_type)` -/
def compType (col : String) : String :=
  String.ofList (removeAllCIGo "_equipment".toList 0 col.toList)

def splitGo : List Char → List Char → List (List Char)
  | cur, [] => [cur.reverse]
  | cur, c :: cs =>
    if c = ';' ∨ c = ',' then cur.reverse :: splitGo [] cs else splitGo (c :: cur) cs

/-- `[s2 for s1 in raw.split(";") for s2 in s1.split(",") if s2 not in [""]]` -/
def splitEquip (raw : String) : List String :=
  ((splitGo [] raw.toList).filter (fun s => !s.isEmpty)).map String.ofList

/-! ### key tables (instance generated from the source tree) -/

structure Tables where
  /-- keys of `Virtual_World_To_Prop_Params_Mapping.PROPAGATING_PARAMS` -/
  globalPlain : List String
  /-- keys of `Virtual_World_To_Prop_Params_Mapping.METH_SPEC_PROP_PARAMS` -/
  globalMeth : List String
  /-- `Sites_File_Constants.SITE_DEPLOYMENT_PLACEHOLDER` (set to `True` for every method) -/
  siteDeploy : String
  typePlain : List String
  typeMeth : List String
  sitePlain : List String
  siteMeth : List String
  /-- `Sites_File_Constants.PROPAGATING_PARAMS_TO_SCALE` / `METH_SPEC_PROP_PARAMS_TO_SCALE` -/
  scalePlain : List String
  scaleMeth : List String
  /-- the four method-specific entries `Site.__init__` pops -/
  freqKey : String
  monthsKey : String
  yearsKey : String
  deployKey : String
  /-- the two method-specific entries `Equipment_Group._set_method_specific_params` pops -/
  eqTimeKey : String
  eqCostKey : String
  /-- `Equipment_Group_File_Constants.PROPAGATING_PARAMETER_COLUMNS` / `METHOD_SPECIFIC_PROPAGATING_PARAMETERS` -/
  eqCleanPlain : List String
  eqCleanMeth : List String
  /-- the two keys `_create_components` divides by the component count -/
  eqRepEpr : String
  eqNonRepEpr : String
  repPrefix : String
  nonRepPrefix : String
  /-- the keys `Source._set_propagating_source_properties` reads -/
  srcErs : String
  srcEpr : String
  srcDur : String
  srcMulti : String
  srcRd : String
  srcRc : String
  srcSpatial : String
  srcTemporal : String
  /-- keys the sites read for the placeholder decision -/
  siteRepEpr : String
  siteNonRepEpr : String
  placeholderBoth : String
  placeholderRep : String
  placeholderNonRep : String

/-- method-specific parameters of the dictionary (global ones plus site deployment) -/
def Tables.allMeth (tb : Tables) : List String := tb.globalMeth ++ [tb.siteDeploy]

/-- those still in the dictionary when the equipment group sees it -/
def Tables.groupMeth (tb : Tables) : List String :=
  tb.allMeth.filter (fun p => !(p = tb.freqKey ∨ p = tb.monthsKey ∨ p = tb.yearsKey ∨ p = tb.deployKey))

/-- those still in the dictionary when the source sees it -/
def Tables.sourceMeth (tb : Tables) : List String :=
  tb.groupMeth.filter (fun p => !(p = tb.eqTimeKey ∨ p = tb.eqCostKey))

/-! ### the levels -/

/-- `generate_propagating_params`: one entry per global key, value read from the parameter files -/
def globalPlain (tb : Tables) (G : Dict String) : Dict String :=
  tb.globalPlain.map (fun k => (k, G.get k))

/-- `val = methods[method]; for path in access_path: val = val.get(path, 0)`: a parameter whose (last)
path element is missing from the method's parameter file counts as `0` -/
def gmVal (tb : Tables) (Gm : Dict MKey) (k : MKey) : PV :=
  match Gm.lookup k with
  | some v => v
  | none => if tb.scaleMeth.contains k.2 then .num 0 else PV.zeroTok

def globalMeth (tb : Tables) (methods : List String) (Gm : Dict MKey) : Dict MKey :=
  (methKeys methods tb.globalMeth).map (fun k => (k, gmVal tb Gm k))
    ++ methods.map (fun m => ((m, tb.siteDeploy), PV.tru))

/-- `update_propagating_params`: site type (when a site type file is given), then site -/
def siteDicts (tb : Tables) (methods : List String) (G : Dict String) (Gm : Dict MKey)
    (typeRow : Option Row) (siteRow : Row) : Dict String × Dict MKey :=
  let d0 := globalPlain tb G
  let m0 := globalMeth tb methods Gm
  let d1 := match typeRow with
    | some t => updFrom id tb.typePlain t d0
    | none => d0
  let m1 := match typeRow with
    | some t => updFrom MKey.col (methKeys methods tb.typeMeth) t m0
    | none => m0
  (updFrom id tb.sitePlain siteRow d1, updFrom MKey.col (methKeys methods tb.siteMeth) siteRow m1)

/-- `if prop_params[param] is not None: prop_params[param] /= equip_count` for every listed entry:
each entry is divided once (the lists of the code are duplicate-free: table obligation
`scale_lists_nodup`; the methods of the nested dictionary are unique by construction) -/
def scaleKeys {κ : Type} [DecidableEq κ] (keys : List κ) (n : Rat) (d : Dict κ) : Dict κ :=
  d.map (fun e => if keys.contains e.1 then (e.1, e.2.divBy n) else e)

/-- `Equipment_Group._update_prop_params`: method-specific entries first, then every key of the
dictionary -/
def groupDicts (tb : Tables) (methods : List String) (eqRow : Row) (d : Dict String)
    (m : Dict MKey) : Dict String × Dict MKey :=
  (updFrom id d.keys eqRow d, updFrom MKey.col (methKeys methods tb.groupMeth) eqRow m)

/-- `_clean_propagating_parameters_from_equipment_info`: the cells that count components -/
def cleanedCells (tb : Tables) (eqRow : Row) : Row :=
  eqRow.filter (fun c => !(tb.eqCleanPlain.contains c.1) && !(tb.eqCleanMeth.any (fun p => hasInfix p c.1)))

def cellCount : PV → Nat
  | .num q => q.floor.toNat
  | _ => 0

def totalComponents (tb : Tables) (eqRow : Row) : Nat :=
  ((cleanedCells tb eqRow).map (fun c => cellCount c.2)).sum

/-- `if x is not None and x > 0: prop_params[key] = x / total_components` -/
def divStep (key : String) (nC : Nat) (d : Dict String) : Dict String :=
  match d.get key with
  | .num q => if 0 < q then d.set key (.num (q / (nC : Rat))) else d
  | _ => d

/-- `_create_components`: both production rates are divided by the group's component count when
they are positive (non-repairable first, as in the code) -/
def compDict (tb : Tables) (nC : Nat) (d : Dict String) : Dict String :=
  divStep tb.eqRepEpr nC (divStep tb.eqNonRepEpr nC d)

/-- one round of the second loop of `Source._update_prop_params`: the un-prefixed key is bound to
the source row's value if it gives one, else to the inherited value of the prefixed key -/
def unprefixStep (pre : String) (srcRow : Row) (acc : Dict String) (k : String) : Dict String :=
  acc.set (removeAll pre k) ((srcRow.get? (removeAll pre k)).getD (acc.get k))

/-- `Source._update_prop_params`, second loop: over every key (snapshot) that contains the prefix -/
def unprefixLoop (pre : String) (srcRow : Row) (d : Dict String) : Dict String :=
  (d.keys.filter (fun k => hasInfix pre k)).foldl (unprefixStep pre srcRow) d

/-! ### the world -/

structure SourceEff where
  sid : String
  rep : Bool
  /-- the source's own row gives a production rate -/
  ownRate : Bool
  ers : PV
  epr : PV
  dur : PV
  multi : PV
  rd : PV
  rc : PV
  spatial : List PV
  temporal : List PV
deriving DecidableEq, Inhabited

structure CompEff where
  cid : String
  /-- the production rates the component hands to its sources (repairable, non-repairable) -/
  repRate : PV
  nonRate : PV
  sources : List SourceEff
deriving DecidableEq, Inhabited

structure GroupEff where
  gid : String
  times : List PV
  costs : List PV
  comps : List CompEff
deriving DecidableEq, Inhabited

structure SiteEff where
  sid : String
  stype : String
  freq : List PV
  months : List PV
  years : List PV
  deploy : List PV
  time : List (Option Int)
  cost : List PV
  groups : List GroupEff
deriving DecidableEq, Inhabited

structure SrcRow where
  comp : String
  sid : String
  rep : Bool
  cells : Row
deriving Inhabited

inductive EquipSpec where
  | named (raw : String)
  /-- a number in the equipment cell (`≥ 0`; a float when the column holds one) -/
  | count (q : Rat)
  | bad
deriving Inhabited, DecidableEq

structure SiteRow where
  sid : String
  stype : String
  equip : EquipSpec
  cells : Row
deriving Inhabited

structure TypeRow where
  name : String
  equip : EquipSpec
  cells : Row
deriving Inhabited

structure EqRow where
  name : String
  /-- everything after the first column: component counts and overrides -/
  cells : Row
deriving Inhabited

structure Files where
  hasTypes : Bool
  types : List TypeRow
  sitesHaveEquip : Bool
  typesHaveEquip : Bool
  sites : List SiteRow
  equipment : List EqRow
  /-- pandas reads some component-count column of the equipment file as floats (a blank or
  non-integer count): `range(0, count)` then raises for every group built from the file -/
  countsFloat : Bool := false
  /-- `none`: no sources file -/
  sources : Option (List SrcRow)
deriving Inhabited

/-- `Source.__init__` after `_update_prop_params`: the values the source ends up with -/
def sourceEff (tb : Tables) (methods : List String) (sid : String) (rep : Bool) (srcRow : Row)
    (d : Dict String) (m : Dict MKey) : SourceEff :=
  let pre := if rep then tb.repPrefix else tb.nonRepPrefix
  let m' := updFrom MKey.col (methKeys methods tb.sourceMeth) srcRow m
  let d' := unprefixLoop pre srcRow d
  { sid := sid, rep := rep, ownRate := (srcRow.get? tb.srcEpr).isSome,
    ers := d'.get tb.srcErs, epr := d'.get tb.srcEpr, dur := d'.get tb.srcDur,
    multi := d'.get tb.srcMulti,
    rd := if rep then d'.get tb.srcRd else .nul,
    rc := if rep then d'.get tb.srcRc else .nul,
    spatial := methods.map (fun me => m'.get (me, tb.srcSpatial)),
    temporal := methods.map (fun me => m'.get (me, tb.srcTemporal)) }

/-- `Component._create_sources`: which sources a component of type `ty` gets, each with the row it
is created from.  Placeholder sources share the component's dictionary, the first one's un-prefixed
keys are therefore visible to the second (harmless: it overwrites them). -/
def componentSources (tb : Tables) (methods : List String) (files : Files) (ty : String)
    (d : Dict String) (m : Dict MKey) : List SourceEff :=
  let both := compType tb.placeholderBoth
  let repT := compType tb.placeholderRep
  let nonT := compType tb.placeholderNonRep
  if ty = both then
    let s1 := sourceEff tb methods repT true [] d m
    let dShared := unprefixLoop tb.repPrefix [] d
    [s1, sourceEff tb methods nonT false [] dShared m]
  else if ty = repT then [sourceEff tb methods repT true [] d m]
  else if ty = nonT then [sourceEff tb methods nonT false [] d m]
  else match files.sources with
    | some rows => (rows.filter (fun r => r.comp = ty)).map
        (fun r => sourceEff tb methods r.sid r.rep r.cells d m)
    | none => []

/-- `Equipment_Group.__init__` -/
def buildGroup (tb : Tables) (methods : List String) (files : Files) (gid : String) (eqRow : Row)
    (d : Dict String) (m : Dict MKey) : GroupEff :=
  let dm := groupDicts tb methods eqRow d m
  let d2 := compDict tb (totalComponents tb eqRow) dm.1
  { gid := gid,
    times := methods.map (fun me => dm.2.get (me, tb.eqTimeKey)),
    costs := methods.map (fun me => dm.2.get (me, tb.eqCostKey)),
    comps := (cleanedCells tb eqRow).flatMap (fun c =>
      (List.range (cellCount c.2)).map (fun i =>
        { cid := compType c.1 ++ "_" ++ toString i,
          repRate := d2.get tb.eqRepEpr, nonRate := d2.get tb.eqNonRepEpr,
          sources := componentSources tb methods files (compType c.1) d2 dm.2 })) }

/-- Python `round` of an exact value: nearest integer, ties to the even one -/
def roundHalfEven (q : Rat) : Int :=
  let f := q.floor
  let r := q - (f : Rat)
  if r < 1 / 2 then f
  else if 1 / 2 < r then f + 1
  else if f % 2 = 0 then f else f + 1

def sumStep : Option Rat → PV → Option Rat
  | some a, .num q => some (a + q)
  | _, _ => none

def sumPV (vs : List PV) : Option Rat := vs.foldl sumStep (some 0)

/-- `get_method_survey_time`: `round` of the sum over the groups -/
def siteTime (groups : List GroupEff) (i : Nat) : Option Int :=
  (sumPV (groups.map (fun g => g.times.getD i .nul))).map roundHalfEven

/-- `_set_survey_costs` -/
def siteCost (groups : List GroupEff) (i : Nat) : PV :=
  match sumPV (groups.map (fun g => g.costs.getD i .nul)) with
  | some q => .num q
  | none => .nul

inductive Placeholder where
  | both | repOnly | nonRepOnly | error
deriving DecidableEq, Inhabited

def posNum : PV → Bool
  | .num q => 0 < q
  | _ => false

/-- the four-way decision of `_create_equipment_groups` for numeric equipment -/
def placeholderKind (rep non : PV) : Placeholder :=
  if !(posNum rep) && !(posNum non) then .error
  else if non = .nul then .repOnly
  else if rep = .nul then .nonRepOnly
  else .both

def numOf : PV → Rat
  | .num q => q
  | _ => 0

/-- `math.ceil(prod_rate * 365 * 2)` -/
def placeholderCount (kind : Placeholder) (rep non : PV) : Nat :=
  let rate := match kind with
    | .repOnly => numOf rep
    | .nonRepOnly => numOf non
    | _ => if numOf rep < numOf non then numOf non else numOf rep
  (rate * 730).ceil.toNat

def placeholderName (tb : Tables) : Placeholder → String
  | .repOnly => tb.placeholderRep
  | .nonRepOnly => tb.placeholderNonRep
  | _ => tb.placeholderBoth

/-- the equipment specification in effect for a site: the sites file's own column, else the site
type's, else `0` -/
def equipFor (files : Files) (s : SiteRow) (t : Option TypeRow) : EquipSpec :=
  if files.sitesHaveEquip then s.equip
  else if files.hasTypes && files.typesHaveEquip then
    match t with
    | some t => t.equip
    | none => .bad
  else .count 0

def findType (files : Files) (s : SiteRow) : Option TypeRow :=
  if files.hasTypes then files.types.find? (fun t => t.name = s.stype) else none

/-- equipment groups of a site: (id, equipment row, scaling divisor) -/
def siteGroups (tb : Tables) (files : Files) (spec : EquipSpec) (d : Dict String) :
    List (String × Row × Rat) :=
  match spec with
  | .named raw =>
    let names := splitEquip raw
    names.map (fun n =>
      (n, ((files.equipment.find? (fun e => e.name = n)).map (·.cells)).getD [], (names.length : Rat)))
  | .count q =>
    let rep := d.get tb.siteRepEpr
    let non := d.get tb.siteNonRepEpr
    let kind := placeholderKind rep non
    let cnt := placeholderCount kind rep non
    let name := placeholderName tb kind
    if q = 0 then [("0", [(name, .num (cnt : Rat))], 1)]
    else (List.range q.floor.toNat).map (fun i =>
      (toString i, [(name, .num ((((cnt : Rat) / q).ceil.toNat : Nat) : Rat))], q))
  | .bad => []

/-- `Site.__init__` -/
def buildSite (tb : Tables) (methods : List String) (G : Dict String) (Gm : Dict MKey)
    (files : Files) (s : SiteRow) : SiteEff :=
  let t := findType files s
  let dm := siteDicts tb methods G Gm (t.map (·.cells)) s.cells
  let spec := equipFor files s t
  let groups := (siteGroups tb files spec dm.1).map (fun g =>
    buildGroup tb methods files g.1 g.2.1 (scaleKeys tb.scalePlain g.2.2 dm.1)
      (scaleKeys (methKeys methods tb.scaleMeth) g.2.2 dm.2))
  { sid := s.sid, stype := s.stype,
    freq := methods.map (fun me => dm.2.get (me, tb.freqKey)),
    months := methods.map (fun me => dm.2.get (me, tb.monthsKey)),
    years := methods.map (fun me => dm.2.get (me, tb.yearsKey)),
    deploy := methods.map (fun me => dm.2.get (me, tb.deployKey)),
    time := (List.range methods.length).map (siteTime groups),
    cost := (List.range methods.length).map (siteCost groups),
    groups := groups }

/-- `generate_infrastructure`: one site per picked row of the sites file, in the picked order -/
def buildWorld (tb : Tables) (methods : List String) (G : Dict String) (Gm : Dict MKey)
    (files : Files) (picks : List Nat) : List SiteEff :=
  picks.map (fun i => buildSite tb methods G Gm files (files.sites.getD i default))

/-- `sites_in.sample(n)` raises when more rows are requested than the file has; `none` = all rows -/
def sampleSize (nRows : Nat) (n : Option Nat) : Option Nat :=
  match n with
  | none => some nRows
  | some k => if k ≤ nRows then some k else none

/-- a valid sample: `n` distinct rows of the file -/
def ValidPicks (nRows n : Nat) (picks : List Nat) : Prop :=
  picks.length = n ∧ picks.Nodup ∧ ∀ i ∈ picks, i < nRows

/-! ### inputs the code rejects (`sys.exit`) -/

def sourceRejected (s : SourceEff) : Bool := s.ers = .nul || s.epr = .nul

def siteRejects (tb : Tables) (methods : List String) (G : Dict String) (Gm : Dict MKey)
    (files : Files) (s : SiteRow) : List String :=
  let t := findType files s
  let d := (siteDicts tb methods G Gm (t.map (·.cells)) s.cells).1
  let spec := equipFor files s t
  let e1 := if files.hasTypes && t.isNone then ["no-site-type"] else []
  let e2 := match spec with
    | .bad => ["bad-equipment"]
    | .count _ =>
      if placeholderKind (d.get tb.siteRepEpr) (d.get tb.siteNonRepEpr) = .error then ["no-production-rate"] else []
    | .named raw =>
      if (splitEquip raw).isEmpty then ["bad-equipment"]
      else if files.countsFloat then ["non-integer-count"]
      else if (splitEquip raw).any (fun n => (files.equipment.find? (fun e => e.name = n)).isNone) then ["no-equipment-row"]
      else []
  let site := buildSite tb methods G Gm files s
  let e3 := if site.groups.any (fun g => g.comps.any (fun c => c.sources.any sourceRejected))
    then ["source-without-rate"] else []
  e1 ++ e2 ++ e3

def worldRejects (tb : Tables) (methods : List String) (G : Dict String) (Gm : Dict MKey)
    (files : Files) (picks : List Nat) : List String :=
  picks.flatMap (fun i => siteRejects tb methods G Gm files (files.sites.getD i default))

end LdarModel.Propagate
