import LdarModel.Model.Emission
/-
The daily ledger of a whole simulation (C11): `LdarSim.run_simulation` (ldar_sim.py:94-117),
`Component.activate_emissions / update_emissions_state` (component.py:175-208) and the row written by
`ProgramOutputManager._update_ts_row_w_emis_info`.  A world is a list of emissions, each with its
static parameters, its true rate (scaled integer, g/s × 1024) and the events that reach it (tag
requests and detection-only events — produced by the program's methods, ∀-quantified in theorems).
Core Lean only, executable.
-/
namespace LdarModel.World
open LdarModel.Emission

structure Em where
  p : Params
  rate : Int
  ev : Nat → List Ev

def ind (b : Bool) : Int := if b then 1 else 0

/-- state of emission `e` at the start of day `n` (after `n` complete days) -/
def st (e : Em) (n : Nat) : State := runE e.p e.ev n

def activeAt (e : Em) (n : Nat) : Bool := (st e n).status = .active

/-- activated on day `n` (`activate_emissions`: counted in "New Leaks") -/
def isNew (e : Em) (n : Nat) : Bool := (st e n).status = .inactive && decide (e.p.start ≤ (n : Int))

/-- left the active list in the update of day `n` -/
def endedOn (e : Em) (n : Nat) : Bool := (activeAt e n || isNew e n) && !activeAt e (n + 1)

def repairedOn (e : Em) (n : Nat) : Bool :=
  endedOn e n && decide ((st e (n + 1)).status = .repaired) && !decide ((st e (n + 1)).by_ = .natural)

def natRepairedOn (e : Em) (n : Nat) : Bool :=
  endedOn e n && decide ((st e (n + 1)).status = .repaired) && decide ((st e (n + 1)).by_ = .natural)

def expiredOn (e : Em) (n : Nat) : Bool :=
  endedOn e n && decide ((st e (n + 1)).status = .expired)

structure Row where
  new : Int
  active : Int
  repaired : Int
  natRepaired : Int
  expired : Int
  emis : Int        -- Σ rate (×86.4/1024 outside the model)
  emisMit : Int
  emisNonMit : Int
  deriving DecidableEq, Repr, Inhabited

def sumOver (w : List Em) (f : Em → Int) : Int := (w.map f).sum

/-- the timeseries row of day `n`: counts after the daily update; daily emissions are accumulated
over the emissions that *stay* in the active list (`update_emissions_state`) -/
def row (w : List Em) (n : Nat) : Row :=
  { new := sumOver w (fun e => ind (isNew e n)),
    active := sumOver w (fun e => ind (activeAt e (n + 1))),
    repaired := sumOver w (fun e => ind (repairedOn e n)),
    natRepaired := sumOver w (fun e => ind (natRepairedOn e n)),
    expired := sumOver w (fun e => ind (expiredOn e n)),
    emis := sumOver w (fun e => ind (activeAt e (n + 1)) * e.rate),
    emisMit := sumOver w (fun e => if e.p.repairable then ind (activeAt e (n + 1)) * e.rate else 0),
    emisNonMit := sumOver w (fun e => if e.p.repairable then 0 else ind (activeAt e (n + 1)) * e.rate) }

/-- active leaks at the end of the previous day (`0` before the first day) -/
def prevActive (w : List Em) : Nat → Int
  | 0 => 0
  | n + 1 => (row w n).active

/-- what the emission record of `e` shows after `N` days -/
structure Rec where
  present : Bool            -- a record exists (the emission was activated)
  start : Int
  endDate : Option Int
  rate : Int
  repairable : Bool
  status : Status
  by_ : By

def recOf (e : Em) (N : Nat) : Rec :=
  let s := st e N
  { present := s.status ≠ .inactive, start := e.p.start, endDate := s.endDate, rate := e.rate,
    repairable := e.p.repairable, status := s.status, by_ := s.by_ }

/-- reconstruction of "active at the end of day `n`" from a record alone -/
def recActiveAfter (r : Rec) (n : Nat) : Bool :=
  r.present && decide ((if r.start > 0 then r.start else 0) ≤ (n : Int)) &&
  (match r.endDate with | none => true | some d => decide ((n : Int) + 1 < d))

/-! ### the whole row from the records alone (C11 "the daily series can be reconstructed")

`recNewOn`, `recEndedAs`, `recEndedOn` read the count columns of day `n` off one record; `recRow`
assembles all eight columns of the row of day `n` from the list of records.  `Props/C11.lean` proves
`row w n = recRow (records of w after N days) n` for every `n < N`. -/

/-- how the record says the emission ended: `0` repaired by the program, `1` naturally repaired,
anything else: expired -/
def recEndedAs (r : Rec) (k : Nat) : Bool :=
  match k with
  | 0 => decide (r.status = .repaired) && !decide (r.by_ = .natural)
  | 1 => decide (r.status = .repaired) && decide (r.by_ = .natural)
  | _ => decide (r.status = .expired)

/-- "New Leaks" of day `n`: the record exists and `max start 0 = n` -/
def recNewOn (r : Rec) (n : Nat) : Bool :=
  r.present && decide ((if r.start > 0 then r.start else 0) = (n : Int))

/-- ended in kind `k` in the update of day `n`: the record's end date is day `n + 1` -/
def recEndedOn (r : Rec) (k n : Nat) : Bool :=
  recEndedAs r k && decide (r.endDate = some ((n : Int) + 1))

def sumRecs (rs : List Rec) (f : Rec → Int) : Int := (rs.map f).sum

/-- the complete timeseries row of day `n` recomputed from the records -/
def recRow (rs : List Rec) (n : Nat) : Row :=
  { new := sumRecs rs (fun r => ind (recNewOn r n)),
    active := sumRecs rs (fun r => ind (recActiveAfter r n)),
    repaired := sumRecs rs (fun r => ind (recEndedOn r 0 n)),
    natRepaired := sumRecs rs (fun r => ind (recEndedOn r 1 n)),
    expired := sumRecs rs (fun r => ind (recEndedOn r 2 n)),
    emis := sumRecs rs (fun r => ind (recActiveAfter r n) * r.rate),
    emisMit := sumRecs rs (fun r => if r.repairable then ind (recActiveAfter r n) * r.rate else 0),
    emisNonMit := sumRecs rs (fun r => if r.repairable then 0 else ind (recActiveAfter r n) * r.rate) }

/-- the records of a world after `N` days -/
def records (w : List Em) (N : Nat) : List Rec := w.map (fun e => recOf e N)

/-! ### "active and emitting": the two readings (see Props/C11 `emitting_conventions`) -/

/-- state of `e` in the middle of day `n`: after activation and the day's events, before the update -/
def mid (e : Em) (n : Nat) : State :=
  (e.ev n).foldl (fun s ev => applyEv e.p n ev s) (activate e.p n (st e n))

/-- `e` was emitting *during* day `n`: the flag the daily update of day `n` finds — the one
`days_emitting` counts -/
def emittingDuring (e : Em) (n : Nat) : Bool := isEmitting e.p (mid e n)

/-- summed rates of the emissions active after the update of day `n` and (`after = true`) emitting
after that update (`is_emitting()` when the row is written) / (`after = false`) emitting during day `n` -/
def emittingSum (w : List Em) (n : Nat) (after : Bool) : Int :=
  sumOver w (fun e => ind (activeAt e (n + 1) &&
    (if after then isEmitting e.p (st e (n + 1)) else emittingDuring e n)) * e.rate)

end LdarModel.World
