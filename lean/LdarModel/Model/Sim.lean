import LdarModel.Model.Emission
import LdarModel.Model.World
import LdarModel.Model.Heap
import LdarModel.Model.Sensor
import LdarModel.Model.Crew
import LdarModel.Model.Cost
import LdarModel.Model.Queue
import LdarModel.Model.Planner
import LdarModel.Model.FollowUp
/-
The INTEGRATED simulation model: one executable function that composes the component models into
the day loop of the real simulator (core Lean only, executable).

Source modelled
  ldar_sim.py:94-117                 LdarSim.run_simulation, loop body                  -> `simDay`
  programs/program.py:204-231        Program.do_daily_program_deployment                -> `stepMethods`
  virtual_world/infrastructure.py, sites.py, equipment_groups.py, component.py, sources.py
                                     activate_emissions (cursor per source)             -> `Heap.activateSrc`
                                     get_detectable_emissions / tag_emissions           -> `Sensor.survey`, `evOfDone`
                                     update_emissions_state                             -> `Emission.update`, `emRow`
  scheduling/generic_schedule.py, stationary_schedule.py, scheduled_survey_planner.py, workplan.py
                                     get_workplan / update                              -> `Sched.requestPhase`,
                                                                                           `Sched.dayTrace`, `Sched.scheduleDay`
  scheduling/follow_up_mobile_schedule.py, follow_up_survey_planner.py
                                     follow-up queue, get_workplan, update              -> `FollowUp.planned`, `FollowUp.followUpDay`
  programs/method.py:212-310, component_level_method.py:136-219   deploy_crews          -> `Crew.deployDay`
  programs/component_level_method.py:57-93     survey_site: latest tagging survey date, tagging calls
  programs/site_level_method.py:236-280        SiteLevelMethod.update                   -> `FollowUp.dailyUpdate`
  file_processing/output_processing/program_output_manager.py:157-204  the timeseries row -> `Cost.dailyRow`, `TsRow`

Nothing of the component models is re-implemented here: this file only wires them (what one
component hands to the next) and adds thin wrappers where a component model lacks an accessor.

All randomness and the environment are explicit inputs (`Inputs`): spatial / temporal coverage rolls
per (day, method, emission), the travel time sampled for a visit per (day, method, site), the result of
the weather check per (day, method, site), the daylight minutes per day, the repair cost drawn for an
emission, the calendar date of a day index, the quantification shift (percent) of every measurement.  The repair delay sampled for an emission and its rate are
part of the scenario (`EmInfo`).  Static parameters stay outside the state.
-/
namespace LdarModel.Sim
open LdarModel

/-! ## the world -/

/-- one pre-generated emission of the scenario: where it sits and its static parameters
(`idx` = position in `World.ems` = `Heap.EmId.id` in the pending lists) -/
structure EmInfo where
  idx : Nat
  p : Emission.Params
  rate : Int                  -- true rate, common dyadic unit
  site : Nat
  eqg : Nat
  comp : Nat
  deriving Repr, Inhabited

/-- sites → equipment groups → components (`layout`), sources with their pending lists in pop order
(`srcs`, one `Heap.Src` per source in infrastructure order) and the emissions themselves -/
structure World where
  ems : List EmInfo
  srcs : List Heap.Src
  layout : Nat → List (Nat × List Nat)   -- site ↦ [(group, [component])] in infrastructure order

/-! ## the program -/

/-- what a method is in `Program._init_methods_and_schedules` / `_gen_method` -/
inductive Role
  | routine                 -- component-level method with its own routine schedule: tags
  | screen (fu : Nat)       -- site-level method with its own routine / stationary schedule, bound to
                            -- the follow-up schedule of the method at program position `fu`
  | followUp                -- component-level follow-up method (FollowUpMobileSchedule): tags
  deriving DecidableEq, Repr, Inhabited

structure MethodCfg where
  role : Role := .routine
  stationary : Bool := false
  crews : Nat := 1                    -- `Method._crews` as computed by the constructor
  cap : Nat := 1                      -- `_est_meth_daily_surveys` of its schedule
  workdayH : Int := 8                 -- `_max_work_hours`
  considerDaylight : Bool := false
  considerWeather : Bool := false
  cost : Cost.MethodCost := { perDay := 0, perSite := none, upfront := 0 }
  mdl : Int := 0
  trd : Int := 0                      -- reporting delay
  sites : List Nat := []              -- `_survey_plans` order
  S : Nat → Int := fun _ => 0         -- site.get_method_survey_time
  siteCost : Nat → Int := fun _ => 0  -- site.get_survey_cost
  P : Nat → Sched.PlannerP := fun _ => {}
  fup : FollowUp.Params := {}

/-- component-level methods issue tagging calls, site-level methods file detection records -/
def MethodCfg.tags (c : MethodCfg) : Bool :=
  match c.role with
  | .screen _ => false
  | _ => true

abbrev Program := List MethodCfg

/-! ## inputs: randomness and environment -/

structure Inputs where
  date : Nat → Sched.Date                    -- calendar date of day index n
  spatial : Nat → Nat → Nat → Bool           -- day, method, emission: the spatial roll if one is drawn
  temporal : Nat → Nat → Nat → Bool          -- day, method, emission: the temporal roll if one is drawn
  travel : Nat → Nat → Nat → Int             -- day, method, site: `_get_travel_time()` of the visit
  workable : Nat → Nat → Nat → Bool          -- day, method, site: `check_weather`
  daylightMin : Nat → Int                    -- day: daylight hours × 60
  repairCost : Nat → Int                     -- emission: `get_repair_cost()` when it is repaired
  shift : Nat → Nat → Nat → Nat → Nat → Int  -- day, method, site, group, component: the quantification shift
                                             -- (percent) the predictor draws for that unit if it is detected;
                                             -- a site-level measurement uses group 0, component 0

/-! ## the calendar

`TimeCounter.next_day` / `Program.update_date` add one day to a `datetime.date`; the model computes the
proleptic Gregorian calendar itself (`dateOf start n` = start date + n days), the harness compares it
with `datetime` for every simulated day of every run. -/

def isLeap (y : Nat) : Bool := (y % 4 == 0 && y % 100 != 0) || y % 400 == 0

def daysIn (y m : Nat) : Nat :=
  if m = 2 then (if isLeap y then 29 else 28)
  else if m = 4 ∨ m = 6 ∨ m = 9 ∨ m = 11 then 30 else 31

def nextDate (d : Sched.Date) : Sched.Date :=
  if d.d < daysIn d.y d.m then { d with d := d.d + 1 }
  else if d.m < 12 then { y := d.y, m := d.m + 1, d := 1 }
  else { y := d.y + 1, m := 1, d := 1 }

def dateOf (start : Sched.Date) : Nat → Sched.Date
  | 0 => start
  | n + 1 => nextDate (dateOf start n)

/-! ## state -/

abbrev Cov := List (Nat × Bool)       -- `_tech_spat_covs` of one emission

structure MethSt where
  sched : Sched.State := {}           -- routine / stationary schedule of the method
  scr : FollowUp.MState := {}         -- screening side of a site-level method
  sh : FollowUp.Shared := {}          -- follow-up schedule of a follow-up method
  rep : Nat → Crew.Report := fun _ => {}   -- follow-up planners' active survey reports, by site

instance : Inhabited MethSt := ⟨{}⟩

/-- what a tagging call leaves on an emission besides its life-cycle fields: `_measured_rate` (in
hundredths of the rate unit; `none` = never tagged / recorded) and `_estimated_days_active` -/
structure Ext where
  measured : Option Rat := none
  estDays : Int := 0
  deriving Repr, Inhabited

/-- `ss`, `covs` and `ext` run parallel to `World.ems` -/
structure St where
  ss : List Emission.State
  covs : List Cov
  ext : List Ext
  srcs : List Heap.Src
  latestTag : Nat → Int := fun _ => 0    -- `Site._latest_tagging_survey_date`
  ms : List MethSt

def init (w : World) (prog : Program) : St :=
  { ss := w.ems.map (fun _ => {}), covs := w.ems.map (fun _ => []), ext := w.ems.map (fun _ => {}), srcs := w.srcs,
    ms := prog.map (fun _ => {}) }

/-! ## small wrappers -/

def lookupD {α} (tbl : List (Nat × α)) (f : Nat → α) (i : Nat) : α :=
  match tbl with
  | [] => f i
  | kv :: t => if kv.1 = i then kv.2 else lookupD t f i

/-- the table of `f` on the given keys: `lookupD (tabulate keys f) f = f` (`lookupD_tabulate`).  Used
where function-valued state is handed to the next day, so that the closure chains do not grow with
the number of simulated days (the table is built strictly, before the closure is formed) -/
def tabulate {α} (keys : List Nat) (f : Nat → α) : List (Nat × α) := keys.map (fun k => (k, f k))

/-- the weather outcome as a value / envelope pair for `Crew.workable` -/
def wxOf (b : Bool) : Crew.Wx := { temp := if b then 0 else 1, wind := 0, precip := 0 }
def env0 : Crew.Envelope := { tempLo := 0, tempHi := 0, windLo := 0, windHi := 0, precipLo := 0, precipHi := 0 }

def methodP (c : MethodCfg) : Crew.MethodP :=
  Cost.methodP c.cost c.stationary c.considerWeather env0

def nCrews (c : MethodCfg) : Nat := Cost.crewCount c.stationary c.crews

/-- `Crew.dayBudget` with the daylight given in minutes (daylight hours may be fractional) -/
def budgetMin (c : MethodCfg) (daylightMin : Int) : Int :=
  if c.considerDaylight then (if c.workdayH * 60 < daylightMin then c.workdayH * 60 else daylightMin)
  else c.workdayH * 60

def schedCfg (c : MethodCfg) : Sched.Cfg :=
  { kind := if c.stationary then .stationary else .routine, crews := c.crews, cap := c.cap,
    sites := c.sites, P := c.P }

/-- the planner's report as the crew loop sees it (the two stale minute fields are never read) -/
def toCrewRep (r : Sched.Report) : Crew.Report :=
  { surveyed := r.surveyed, today := 0, travel := 0, complete := r.complete, inProgress := r.inProgress }

def mkReq (c : MethodCfg) (inp : Inputs) (n m : Nat) (repOf : Nat → Crew.Report) (i : Nat) : Crew.Req :=
  { site := i, S := c.S i, siteCost := c.siteCost i, rep := repOf i, T := inp.travel n m i,
    wx := wxOf (inp.workable n m i) }

def outOf (dd : Crew.DaySt) (i : Nat) : Option Crew.OutRec := dd.out.find? (fun o => o.req.site = i)

/-- what the schedule reads off the report of a planned request (`GenericSchedule.update`) -/
def outcomeOf (o : Crew.OutRec) : Sched.Outcome :=
  if o.rep.complete then .completed
  else match o.step with
    | some st => if st.branch = .partial_ then .progressed st.today else .untouched
    | none => .untouched

def fuOutcomeOf (o : Crew.OutRec) : FollowUp.Outcome :=
  if o.rep.complete then .complete else if o.rep.inProgress then .inProgress else .unattended

/-- the sensor configuration of a survey of `site` on day `n` by the method `c` at position `m`: the
site's layout with the quantification shift each unit would be measured with -/
def sensorCfg (w : World) (inp : Inputs) (n m : Nat) (c : MethodCfg) (site : Nat) : Sensor.Cfg :=
  if c.tags then
    .component ((w.layout site).map (fun gc => (gc.1, gc.2.map (fun k => (k, inp.shift n m site gc.1 k)))))
  else .site (inp.shift n m site 0 0)

/-- an emission as a survey of method `m` on day `n` sees it, with the rolls it may draw -/
def mkX (inp : Inputs) (n m : Nat) (info : EmInfo) (s : Emission.State) (cov : Cov) :
    Sensor.Emis × Sensor.Rolls :=
  ({ id := info.idx, site := info.site, eqg := info.eqg, comp := info.comp, rate := info.rate,
     active := decide (s.status = .active), emitting := Emission.isEmitting info.p s, cov := cov },
   { spatial := inp.spatial n m info.idx, temporal := inp.temporal n m info.idx })

def zip3With {α β γ δ} (f : α → β → γ → δ) : List α → List β → List γ → List δ
  | a :: as, b :: bs, c :: cs => f a b c :: zip3With f as bs cs
  | _, _, _ => []

def mkXs (w : World) (inp : Inputs) (n m : Nat) (ss : List Emission.State) (covs : List Cov) :
    List (Sensor.Emis × Sensor.Rolls) :=
  zip3With (mkX inp n m) w.ems ss covs

/-- the coverage stores after a survey looked at the emissions (positions the survey did not see keep
theirs) -/
def setCovs : List Cov → List Sensor.Emis → List Cov
  | [], _ => []
  | c :: cs, [] => c :: cs
  | _ :: cs, a :: as => a.cov :: setCovs cs as

/-! ## one method on one day -/

/-- a completed survey with the report the sensor produced -/
structure Done where
  sv : Sensor.SurveyIn
  out : Crew.OutRec                  -- the crew record of the visit that completed the survey
  rep : Sensor.SiteRep
  targets : List (Nat × Nat)
  tSince : Int                       -- days since the site's latest tagging survey (`t_since_LDAR`)
  hrep : rep = Sensor.surveyOf sv
  htargets : targets = Sensor.tagTargets rep

/-- what a method did on a day (everything the timeseries row and the theorems refer to) -/
structure MethTrace where
  m : Nat
  cfg : MethodCfg
  issued : List Nat                  -- requests issued by the planners today (routine / screening)
  keys : List Nat                    -- the work plan
  reqs : List Crew.Req
  budget : Int
  dd : Crew.DaySt                    -- `Crew.deployDay (methodP cfg) budget (nCrews cfg) reqs`
  dones : List Done
  flags : Option Int                 -- TaggingFlaggingStats.sites_flagged
  tags : Option Int                  -- TaggingFlaggingStats.leaks_tagged

structure Acc where
  ms : List MethSt
  latestTag : Nat → Int
  covs : List Cov
  traces : List MethTrace := []

/-- sensor part of a completed survey: `survey_site` → `detect_emissions`; `ss` are the emission
states after activation (the same for every method of the day: tagging and detection records do not
change what a sensor sees, `Props/Sim.lean: events_view`) -/
def surveyOne (w : World) (inp : Inputs) (n m : Nat) (c : MethodCfg) (ss : List Emission.State)
    (lt : Nat → Int) (acc : List Cov × List Done) (o : Crew.OutRec) : List Cov × List Done :=
  let site := o.req.site
  let xs := mkXs w inp n m ss acc.1
  let sv : Sensor.SurveyIn :=
    { cfg := sensorCfg w inp n m c site, m := m, trd := c.trd, mdl := c.mdl, site := site, xs := xs }
  (setCovs acc.1 (Sensor.after m site xs),
   acc.2 ++ [{ sv := sv, out := o, rep := Sensor.surveyOf sv, targets := Sensor.tagTargets (Sensor.surveyOf sv),
               tSince := (n : Int) - lt site, hrep := rfl, htargets := rfl }])

def completed (dd : Crew.DaySt) : List Crew.OutRec := dd.out.filter (fun o => o.rep.complete)

def surveyAll (w : World) (inp : Inputs) (n m : Nat) (c : MethodCfg) (ss : List Emission.State)
    (lt : Nat → Int) (covs : List Cov) (dd : Crew.DaySt) : List Cov × List Done :=
  (completed dd).foldl (surveyOne w inp n m c ss lt) (covs, [])

def tagCount (dones : List Done) : Int := (dones.map (fun d => (d.targets.length : Int))).sum

def deploy (c : MethodCfg) (inp : Inputs) (n : Nat) (reqs : List Crew.Req) : Crew.DaySt :=
  Crew.deployDay (methodP c) (budgetMin c (inp.daylightMin n)) (nCrews c) reqs

def withTag (sh : FollowUp.Shared) (lt : Nat → Int) : FollowUp.Shared := { sh with latestTag := lt }

/-- get_workplan → deploy_crews of one method -/
structure PlanDay where
  issued : List Nat
  keys : List Nat
  reqs : List Crew.Req
  dd : Crew.DaySt

def planDay (c : MethodCfg) (inp : Inputs) (n m : Nat) (me : MethSt) (lt : Nat → Int) : PlanDay :=
  match c.role with
  | .followUp =>
    let plans := FollowUp.planned (c.crews * c.cap) (withTag me.sh lt)
    -- the report belongs to the planner object: a plan whose follow-up survey was never started has
    -- a fresh one, whatever an earlier (duplicate, F13) request for the same site left behind
    let reqs := plans.map (fun pl => mkReq c inp n m (fun i => if pl.inProg then me.rep i else {}) pl.site)
    { issued := [], keys := plans.map (·.site), reqs := reqs, dd := deploy c inp n reqs }
  | _ =>
    let sc := schedCfg c
    let date := inp.date n
    let s1 := Sched.requestPhase sc date me.sched
    let tr := Sched.dayTrace sc { date := date, out := fun _ => .untouched } me.sched
    let reqs := tr.keys.map (mkReq c inp n m (fun i => toCrewRep ((s1.pl i).rep.getD {})))
    { issued := tr.issued, keys := tr.keys, reqs := reqs, dd := deploy c inp n reqs }

/-- `GenericSchedule.update` of a method with its own routine / stationary schedule -/
def ownUpdate (c : MethodCfg) (inp : Inputs) (n : Nat) (pd : PlanDay) (s : Sched.State) : Sched.State :=
  let out : Nat → Sched.Outcome := fun i =>
    match outOf pd.dd i with
    | some o => outcomeOf o
    | none => .untouched
  let s' := Sched.scheduleDay (schedCfg c) { date := inp.date n, out := out } s
  let tbl := tabulate c.sites s'.pl
  { s' with pl := lookupD tbl s'.pl }

/-- the `DetectionRecord` of a completed screening survey (measured site rate, survey date) -/
def recOfDone (n : Nat) (d : Done) : FollowUp.Rec :=
  { date := (n : Int), site := d.sv.site, rate := ((d.rep.measured : Int) : Rat) }

structure Post where
  ms : List MethSt
  latestTag : Nat → Int
  flags : Option Int
  tags : Option Int

/-- schedule.update → method.update of one method -/
def postStep (c : MethodCfg) (inp : Inputs) (n m : Nat) (ms : List MethSt) (lt : Nat → Int)
    (pd : PlanDay) (dones : List Done) : Post :=
  let me := ms.getD m {}
  match c.role with
  | .routine =>
    -- a completed survey of a tagging method stamps the site
    { ms := ms.set m { me with sched := ownUpdate c inp n pd me.sched },
      latestTag := dones.foldl (fun f d => FollowUp.setI f d.sv.site (n : Int)) lt,
      flags := none, tags := some (tagCount dones) }
  | .screen fu =>
    -- `Method.deploy_crews`: the detection record of a completed survey is filed under the survey date
    let scr1 := dones.foldl (fun s d => FollowUp.screen (recOfDone n d) s) me.scr
    let ms1 := ms.set m { me with sched := ownUpdate c inp n pd me.sched, scr := scr1 }
    -- `SiteLevelMethod.update`: release, pool, flag, follow-up queue of the bound schedule
    let fuSt := ms1.getD fu {}
    let st := FollowUp.dailyUpdate c.fup (n : Int) { m := scr1, sh := withTag fuSt.sh lt }
    -- a request withdrawn from the follow-up queue takes its planner (and its report) with it
    let rep' : Nat → Crew.Report := fun i => if st.sh.dropped i = fuSt.sh.dropped i then fuSt.rep i else {}
    let ms2 := ms1.set fu { fuSt with sh := st.sh, rep := rep' }
    { ms := ms2.set m { (ms2.getD m {}) with scr := st.m }, latestTag := lt,
      flags := some (st.m.nflags : Int), tags := none }
  | .followUp =>
    let capT := c.crews * c.cap
    let outs : Nat → FollowUp.Outcome := fun i =>
      match outOf pd.dd i with
      | some o => fuOutcomeOf o
      | none => .unattended
    let sh1 := FollowUp.followUpDay capT (n : Int) outs (withTag me.sh lt)
    let rep' : Nat → Crew.Report := fun i =>
      match outOf pd.dd i with
      | some o => if o.rep.complete then {} else o.rep
      | none => me.rep i
    let tbl := tabulate pd.keys rep'
    { ms := ms.set m { me with sh := sh1, rep := lookupD tbl rep' }, latestTag := sh1.latestTag,
      flags := none, tags := some (tagCount dones) }

def mkTrace (m : Nat) (c : MethodCfg) (inp : Inputs) (n : Nat) (pd : PlanDay) (dones : List Done)
    (flags tags : Option Int) : MethTrace :=
  { m := m, cfg := c, issued := pd.issued, keys := pd.keys, reqs := pd.reqs,
    budget := budgetMin c (inp.daylightMin n), dd := pd.dd, dones := dones, flags := flags, tags := tags }

/-- `Program.do_daily_program_deployment`, body of the loop for the method at position `m` -/
def methodStep (w : World) (inp : Inputs) (n : Nat) (ss : List Emission.State) (acc : Acc) (m : Nat)
    (c : MethodCfg) : Acc :=
  let pd := planDay c inp n m (acc.ms.getD m {}) acc.latestTag
  let sv := surveyAll w inp n m c ss acc.latestTag acc.covs pd.dd
  let po := postStep c inp n m acc.ms acc.latestTag pd sv.2
  { ms := po.ms, latestTag := po.latestTag, covs := sv.1,
    traces := acc.traces ++ [mkTrace m c inp n pd sv.2 po.flags po.tags] }

def stepMethods (w : World) (inp : Inputs) (n : Nat) (ss : List Emission.State) :
    Nat → List MethodCfg → Acc → Acc
  | _, [], acc => acc
  | m, c :: cs, acc => stepMethods w inp n ss (m + 1) cs (methodStep w inp n ss acc m c)

/-! ## emission events of a day -/

/-- what a completed survey sends to one emission: a tagging call of its component (component level,
measured rate > 0 there) or a detection record (site level, the emission was visible and the site
rate reached the detection limit); equals `Sensor.surveyEventsE` (`evOfDone_eq`) -/
def evOfDone (info : EmInfo) (d : Done) : List Emission.Ev :=
  (if d.sv.site = info.site ∧ d.targets.contains (info.eqg, info.comp) then
      [Emission.Ev.tag { company := d.sv.m, trd := d.sv.trd }] else []) ++
  (if d.sv.site = info.site ∧ d.rep.recorded.contains info.idx then [Emission.Ev.detect d.sv.m] else [])

def evsOf (info : EmInfo) (dones : List Done) : List Emission.Ev := dones.flatMap (evOfDone info)

/-! ## the timeseries row -/

structure MethCols where
  cost : Int          -- CrewDeploymentStats.deployment_cost
  upfront : Int
  flags : Option Int
  tags : Option Int
  visited : Int
  travel : Int
  survey : Int
  deriving DecidableEq, Repr, Inhabited

def colsOf (t : MethTrace) : MethCols :=
  { cost := t.dd.stats.cost, upfront := Cost.upfrontCost t.cfg.cost t.cfg.stationary t.cfg.crews,
    flags := t.flags, tags := t.tags, visited := t.dd.stats.visited, travel := t.dd.stats.travel,
    survey := t.dd.stats.survey }

structure TsRow where
  em : World.Row
  cost : Cost.Row
  tagged : Int             -- "Leaks Tagged"
  meth : List MethCols
  deriving Repr, Inhabited

/-- one emission over a day: state after activation and events (`mid`), after the update (`fin`) -/
structure EmDay where
  info : EmInfo
  mid : Emission.State
  fin : Emission.State

def ended (x : EmDay) : Bool := decide (x.mid.status = .active) && !decide (x.fin.status = .active)

def actI (x : EmDay) : Int := World.ind (decide (x.fin.status = .active))

def sumDays (xs : List EmDay) (f : EmDay → Int) : Int := (xs.map f).sum

/-- `update_emissions_state` + `EmisInfo` counters, as the code accumulates them -/
def emRow (newCount : Int) (xs : List EmDay) : World.Row :=
  { new := newCount,
    active := sumDays xs actI,
    repaired := sumDays xs (fun x => World.ind (ended x && decide (x.fin.status = .repaired) && !decide (x.fin.by_ = .natural))),
    natRepaired := sumDays xs (fun x => World.ind (ended x && decide (x.fin.status = .repaired) && decide (x.fin.by_ = .natural))),
    expired := sumDays xs (fun x => World.ind (ended x && decide (x.fin.status = .expired))),
    emis := sumDays xs (fun x => actI x * x.info.rate),
    emisMit := sumDays xs (fun x => if x.info.p.repairable then actI x * x.info.rate else 0),
    emisNonMit := sumDays xs (fun x => if x.info.p.repairable then 0 else actI x * x.info.rate) }

/-! ## the day -/

structure DayOut where
  st : St
  row : TsRow
  traces : List MethTrace
  newIds : List Nat
  days : List EmDay

/-- `Source.activate_emissions` seen from one emission: the ones the cursor hands out are activated -/
def activateS (n : Nat) (newIds : List Nat) (info : EmInfo) (s : Emission.State) : Emission.State :=
  if newIds.contains info.idx then Emission.activate info.p (n : Int) s else s

def finishEm (n : Nat) (dones : List Done) (info : EmInfo) (s : Emission.State) : EmDay :=
  let mid := (evsOf info dones).foldl (fun s ev => Emission.applyEv info.p (n : Int) ev s) s
  { info := info, mid := mid, fin := Emission.update info.p mid }

/-- `Component.tag_emissions`: the measured rate of the component is shared equally among the
emissions in its active list -/
def shareOf (info : EmInfo) (d : Done) : Rat :=
  let meas : Int := ((d.rep.eqgs.filter (fun er => er.eqg = info.eqg)).flatMap
      (fun er => (er.comps.filter (fun cr => cr.comp = info.comp)).map (·.measured))).headD 0
  let nAct : Nat := (d.sv.xs.filter (fun x => x.1.active && decide (x.1.site = info.site) &&
      decide (x.1.eqg = info.eqg) && decide (x.1.comp = info.comp))).length
  ((meas : Int) : Rat) / ((nAct : Int) : Rat)

/-- `tag_leak` / `record_emission`, the fields outside the life-cycle: first tag of a repairable
emission fixes measured rate and estimated days active; a non-repairable emission averages the
measured rate and adds up the estimated days on every further record -/
def tagExt (p : Emission.Params) (s : Emission.State) (share : Rat) (tSince : Int) (x : Ext) : Ext :=
  if s.status ≠ .active then x
  else if p.repairable then
    (if s.tagged then x else { measured := some share, estDays := tSince })
  else
    (if s.tagged then { measured := some (((x.measured.getD 0) + share) / 2), estDays := x.estDays + tSince }
     else { measured := some share, estDays := tSince })

/-- the same fold as `finishEm`, carrying the extra fields along the life-cycle state -/
def extOfDone (n : Nat) (info : EmInfo) (acc : Emission.State × Ext) (d : Done) : Emission.State × Ext :=
  let evs := evOfDone info d
  let x' := if d.sv.site = info.site ∧ d.targets.contains (info.eqg, info.comp) then
      tagExt info.p acc.1 (shareOf info d) d.tSince acc.2 else acc.2
  (evs.foldl (fun s ev => Emission.applyEv info.p (n : Int) ev s) acc.1, x')

def finishExt (n : Nat) (dones : List Done) (info : EmInfo) (s : Emission.State) (x : Ext) : Ext :=
  (dones.foldl (extOfDone n info) (s, x)).2

def repSumOf (inp : Inputs) (days : List EmDay) : Int :=
  (days.map (fun x => (Cost.bookOnUpdate x.info.p (inp.repairCost x.info.idx) x.mid).1)).sum
def natSumOf (inp : Inputs) (days : List EmDay) : Int :=
  (days.map (fun x => (Cost.bookOnUpdate x.info.p (inp.repairCost x.info.idx) x.mid).2)).sum

def methodDays (cols : List MethCols) : List Cost.MethodDay :=
  cols.map (fun c => { deploy := c.cost, upfront := c.upfront })

/-- `LdarSim.run_simulation`, body of the day loop, for day index `n` -/
def simDayOut (w : World) (prog : Program) (inp : Inputs) (n : Nat) (st : St) : DayOut :=
  -- activate emissions (cursor of every source)
  let r := st.srcs.map (Heap.activateSrc (n : Int))
  let newIds := (r.flatMap (·.1)).map (·.id)
  let ss1 := List.zipWith (activateS n newIds) w.ems st.ss
  -- deploy every method of the program
  let acc := stepMethods w inp n ss1 0 prog { ms := st.ms, latestTag := st.latestTag, covs := st.covs }
  let dones := acc.traces.flatMap (·.dones)
  -- update every emission
  let days := List.zipWith (finishEm n dones) w.ems ss1
  let cols := acc.traces.map colsOf
  let crow := Cost.dailyRow (decide (n = 0)) (methodDays cols) (repSumOf inp days) (natSumOf inp days)
  { st := { ss := days.map (·.fin), covs := acc.covs, ext := zip3With (finishExt n dones) w.ems ss1 st.ext,
            srcs := r.map (·.2), latestTag := acc.latestTag, ms := acc.ms },
    row := { em := emRow (newIds.length : Nat) days, cost := crow,
             tagged := (cols.map (fun c => c.tags.getD 0)).sum, meth := cols },
    traces := acc.traces, newIds := newIds, days := days }

def simDay (w : World) (prog : Program) (inp : Inputs) (n : Nat) (st : St) : St × TsRow :=
  ((simDayOut w prog inp n st).st, (simDayOut w prog inp n st).row)

/-- state at the start of day `n` (after `n` simulated days) -/
def simState (w : World) (prog : Program) (inp : Inputs) : Nat → St
  | 0 => init w prog
  | n + 1 => (simDay w prog inp n (simState w prog inp n)).1

def simRow (w : World) (prog : Program) (inp : Inputs) (n : Nat) : TsRow :=
  (simDay w prog inp n (simState w prog inp n)).2

/-- `N` simulated days: the final state and the timeseries -/
def simRun (w : World) (prog : Program) (inp : Inputs) (N : Nat) : St × List TsRow :=
  (simState w prog inp N, (List.range N).map (simRow w prog inp))

/-- the same, computed in one pass (`runAcc_eq`) -/
def runAcc (w : World) (prog : Program) (inp : Inputs) : Nat → St × List TsRow
  | 0 => (init w prog, [])
  | n + 1 =>
    let r := runAcc w prog inp n
    let d := simDay w prog inp n r.1
    (d.1, r.2 ++ [d.2])

/-! ## final emission records (`gen_summary_emis_data` with the end argument of `ldar_sim.py:122`) -/

structure Rec where
  idx : Nat
  present : Bool
  status : Emission.Status
  activeDays : Int
  emitDays : Int
  start : Int
  endDate : Option Int
  theoryEnd : Int
  mitDays : Int
  tagged : Bool
  by_ : Emission.By
  initDetect : Option Int
  initDetectBy : Option Nat
  deriving DecidableEq, Repr, Inhabited

def recOf (N : Nat) (info : EmInfo) (s : Emission.State) : Rec :=
  { idx := info.idx, present := decide (s.status ≠ .inactive), status := s.status,
    activeDays := s.activeDays, emitDays := Emission.emitDays info.p s, start := info.p.start,
    endDate := s.endDate, theoryEnd := info.p.start + info.p.nrd,
    mitDays := Emission.mitDays info.p s (Emission.summaryEndArg N), tagged := s.tagged, by_ := s.by_,
    initDetect := s.initDetect, initDetectBy := s.initDetectBy }

def records (w : World) (N : Nat) (st : St) : List Rec := List.zipWith (recOf N) w.ems st.ss

/-! ## well-formed scenarios

What `Source.generate_emissions` guarantees (C16 `generate_sorted`) and how the harness numbers the
emissions: every pending list is sorted by start date, and the pending lists, read in infrastructure
order, list the emissions `0, 1, 2, …` with their own start dates.  Evaluated by the driver on every
scenario it is given (`wf=`). -/

def aligned : Nat → List Heap.EmId → List EmInfo → Bool
  | _, [], [] => true
  | k, x :: xs, info :: infos =>
    decide (x.id = k) && decide (info.idx = k) && decide (x.start = info.p.start) && aligned (k + 1) xs infos
  | _, _, _ => false

def wfWorld (w : World) : Bool :=
  w.srcs.all (fun s => Heap.sortedByStart s.all) && aligned 0 (w.srcs.flatMap (·.all)) w.ems

end LdarModel.Sim
